#!/bin/sh
# usage: seedtest.sh <worktree> <patch.diff> <prop> [more props]  -- run checks against a seeded change in a scratch worktree
wt=$1; patch=$2; shift 2
git -C $wt checkout -q -- . && git -C $wt clean -fdq
git -C $wt checkout -q --detach main 2>/dev/null; git -C $wt apply $patch || exit 3
for p in "$@"; do VERIF_REPO=$wt /verif/check $p --tier quick 2>&1 | grep "VIOLATION\|KNOWN\|seed=\|failed" | head -6; done
git -C $wt checkout -q -- . && git -C $wt clean -fdq
