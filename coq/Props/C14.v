(* C14 — Encoding then decoding returns an equal value and consumes exactly its bytes (native codec).
   Statement file. `rs` is the app registry (which app definitions resolve to which StateApp). *)
From V Require Import Model.Msgs Proofs.WireP Proofs.ChannelP Proofs.CodecP Proofs.StreamP Proofs.NormalP.

(* every well-formed envelope (all 17 message types): decoding its encoding followed by ANY further
   bytes yields exactly the envelope and leaves exactly those further bytes unread *)
Theorem C14_envelope_roundtrip : forall rs e rest, envelope_wf rs e = true ->
  run_flat (dec_envelope rs) (enc_envelope e ++ rest) = Ok (e, rest).
Proof. exact dec_envelope_rt. Qed.
Print Assumptions C14_envelope_roundtrip.

Theorem C14_msg_roundtrip : forall rs m rest, msg_wf rs m = true ->
  run_flat (dec_msg rs) (enc_msg m ++ rest) = Ok (m, rest).
Proof. exact dec_msg_rt. Qed.
Print Assumptions C14_msg_roundtrip.

(* hence concatenated envelopes decode one after the other *)
Theorem C14_stream : forall rs es, forallb (envelope_wf rs) es = true ->
  dec_all (dec_envelope rs) (S (length es)) (cat enc_envelope es) = Some es.
Proof. exact stream_rt. Qed.
Print Assumptions C14_stream.

(* the serialisable values *)
Theorem C14_state_roundtrip : forall rs s rest, state_wf_rs rs s = true ->
  run_flat (dec_state rs) (enc_state s ++ rest) = Ok (s, rest).
Proof. exact dec_state_rt. Qed.
Print Assumptions C14_state_roundtrip.
Theorem C14_alloc_roundtrip : forall a rest, alloc_wf a = true ->
  run_flat dec_alloc (enc_alloc a ++ rest) = Ok (a, rest).
Proof. exact dec_alloc_rt. Qed.
Print Assumptions C14_alloc_roundtrip.
Theorem C14_balances_roundtrip : forall b rest, balances_wf b = true ->
  run_flat dec_balances (enc_balances b ++ rest) = Ok (b, rest).
Proof. exact dec_balances_rt. Qed.
Print Assumptions C14_balances_roundtrip.
Theorem C14_suballoc_roundtrip : forall s rest, suballoc_wf s = true ->
  run_flat dec_suballoc (enc_suballoc s ++ rest) = Ok (s, rest).
Proof. exact dec_suballoc_rt. Qed.
Print Assumptions C14_suballoc_roundtrip.
Theorem C14_params_roundtrip : forall rs p rest, params_wf rs p = true ->
  run_flat (dec_params rs) (enc_params p ++ rest) = Ok (p, rest).
Proof. exact dec_params_rt. Qed.
Print Assumptions C14_params_roundtrip.
Theorem C14_tx_roundtrip : forall rs t rest, tx_wf rs t = true ->
  run_flat (dec_tx rs) (enc_tx t ++ rest) = Ok (t, rest).
Proof. exact dec_tx_rt. Qed.
Print Assumptions C14_tx_roundtrip.
Theorem C14_sigs_roundtrip : forall l rest, sigs_wf l = true ->
  run_flat (dec_sigs (length l)) (enc_sigs l ++ rest) = Ok (l, rest).
Proof. exact dec_sigs_rt. Qed.
Print Assumptions C14_sigs_roundtrip.
Theorem C14_wallet_addrmaps_roundtrip : forall l rest, forallb wamap_wf l = true -> len l <= many_cap ->
  run_flat dec_wamaps (enc_wamaps l ++ rest) = Ok (l, rest).
Proof. exact dec_wamaps_rt. Qed.
Print Assumptions C14_wallet_addrmaps_roundtrip.
Theorem C14_wire_addrmaps_roundtrip : forall l rest, ramaps_wf l = true ->
  run_flat dec_ramaps (enc_ramaps l ++ rest) = Ok (l, rest).
Proof. exact dec_ramaps_rt. Qed.
Print Assumptions C14_wire_addrmaps_roundtrip.

(* stability: encoding the decoded value reproduces the bytes it was decoded from, nothing is left *)
Theorem C14_stable_envelope : forall rs e, envelope_wf rs e = true ->
  match run_flat (dec_envelope rs) (enc_envelope e) with
  | Ok (e', r) => enc_envelope e' = enc_envelope e /\ r = []
  | _ => False end.
Proof. intros rs. exact (stable_from_rt (dec_envelope rs) enc_envelope _ (dec_envelope_rt rs)). Qed.
Print Assumptions C14_stable_envelope.
Theorem C14_stable_state : forall rs s, state_wf_rs rs s = true ->
  match run_flat (dec_state rs) (enc_state s) with
  | Ok (s', r) => enc_state s' = enc_state s /\ r = []
  | _ => False end.
Proof. intros rs. exact (stable_from_rt (dec_state rs) enc_state _ (dec_state_rt rs)). Qed.
Print Assumptions C14_stable_state.

(* normalisation, for EVERY input byte string (not only encoder output): whatever a decoder accepts is a
   well-formed value, so its canonical re-encoding (followed by the same unread bytes) decodes to the
   same value again - a state, transaction, parameter set or message that was received can be stored,
   forwarded and signed through its re-encoding without changing.  (Messages: all types except the
   four that carry a participant address map outside channel parameters - 4, 5, 8, 9 -, for which the
   model's round trip is restricted to single-backend maps.) *)
Theorem C14_accepted_state_normal : forall rs bs s r, run_flat (dec_state rs) bs = Ok (s, r) ->
  state_wf_rs rs s = true /\ run_flat (dec_state rs) (enc_state s ++ r) = Ok (s, r).
Proof. exact dec_state_normal. Qed.
Print Assumptions C14_accepted_state_normal.
Theorem C14_accepted_alloc_normal : forall bs a r, run_flat dec_alloc bs = Ok (a, r) ->
  alloc_wf a = true /\ run_flat dec_alloc (enc_alloc a ++ r) = Ok (a, r).
Proof. exact dec_alloc_normal. Qed.
Print Assumptions C14_accepted_alloc_normal.
Theorem C14_accepted_tx_normal : forall rs bs t r, run_flat (dec_tx rs) bs = Ok (t, r) ->
  tx_wf rs t = true /\ run_flat (dec_tx rs) (enc_tx t ++ r) = Ok (t, r).
Proof. exact dec_tx_normal. Qed.
Print Assumptions C14_accepted_tx_normal.
Theorem C14_accepted_params_normal : forall rs bs p r, run_flat (dec_params rs) bs = Ok (p, r) ->
  params_wf rs p = true /\ run_flat (dec_params rs) (enc_params p ++ r) = Ok (p, r).
Proof. exact dec_params_normal. Qed.
Print Assumptions C14_accepted_params_normal.
Theorem C14_accepted_msg_normal : forall rs t bs m r,
  t <> 4%N /\ t <> 5%N /\ t <> 8%N /\ t <> 9%N -> run_flat (dec_msg_body rs t) bs = Ok (m, r) ->
  msg_wf rs m = true /\ run_flat (dec_msg_body rs t) (enc_msg_body m ++ r) = Ok (m, r).
Proof. exact dec_msg_body_normal. Qed.
Print Assumptions C14_accepted_msg_normal.
(* scope of the stability clause: the decoders also accept non-canonical bytes (a big integer with a
   leading zero byte, any non-zero byte as `true`), which the re-encoding does not reproduce; stability
   is about bytes the encoder wrote (above), and what is signed is always the re-encoding *)
Theorem C14_noncanonical_bytes_accepted : exists bs b,
  run_flat dec_balances bs = Ok (b, []) /\ enc_balances b <> bs.
Proof. exists noncanonical_balances. exact noncanonical_accepted. Qed.
Print Assumptions C14_noncanonical_bytes_accepted.

(* encodings identify values: what is signed or hashed over an encoding is bound to one value *)
Theorem C14_envelope_encoding_injective : forall rs a b,
  envelope_wf rs a = true -> envelope_wf rs b = true -> enc_envelope a = enc_envelope b -> a = b.
Proof. exact enc_envelope_inj. Qed.
Print Assumptions C14_envelope_encoding_injective.
Theorem C14_params_encoding_injective : forall rs a b,
  params_wf rs a = true -> params_wf rs b = true -> enc_params a = enc_params b -> a = b.
Proof. exact enc_params_inj. Qed.
Print Assumptions C14_params_encoding_injective.
Theorem C14_tx_encoding_injective : forall rs a b,
  tx_wf rs a = true -> tx_wf rs b = true -> enc_tx a = enc_tx b -> a = b.
Proof. exact enc_tx_inj. Qed.
Print Assumptions C14_tx_encoding_injective.

(* non-vacuity *)
Definition ex_env : envelope :=
  mkEnv [(0%Z, repeat Byte.x0a 32)] [(0%Z, repeat Byte.x0b 32)]
        (MUpdateAcc (repeat Byte.x01 32) 7 (repeat Byte.x09 64)).
Example C14_nonvacuous : envelope_wf (fun _ => None) ex_env = true.
Proof. vm_compute. reflexivity. Qed.
