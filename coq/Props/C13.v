(* C13 — Decoding arbitrary bytes never panics and enforces the size limits (native codec).
   Statement file. *)
From V Require Import Model.Msgs Proofs.WireP Proofs.SafeP Proofs.NormalP.

(* for EVERY byte string, every decoder terminates (Gallina: total by construction, structural recursion
   on declared counts) with a value or an error, never a panic *)
Theorem C13_envelope_no_panic : forall rs bs, run_flat (dec_envelope rs) bs <> Panic.
Proof. intros rs. apply safe_no_panic. apply safe_dec_envelope. Qed.
Print Assumptions C13_envelope_no_panic.
Theorem C13_msg_no_panic : forall rs bs, run_flat (dec_msg rs) bs <> Panic.
Proof. intros rs. apply safe_no_panic. apply safe_dec_msg. Qed.
Print Assumptions C13_msg_no_panic.
Theorem C13_state_no_panic : forall rs bs, run_flat (dec_state rs) bs <> Panic.
Proof. intros rs. apply safe_no_panic. apply safe_dec_state. Qed.
Print Assumptions C13_state_no_panic.
Theorem C13_alloc_no_panic : forall bs, run_flat dec_alloc bs <> Panic.
Proof. apply safe_no_panic. apply safe_dec_alloc. Qed.
Print Assumptions C13_alloc_no_panic.
Theorem C13_params_no_panic : forall rs bs, run_flat (dec_params rs) bs <> Panic.
Proof. intros rs. apply safe_no_panic. apply safe_dec_params. Qed.
Print Assumptions C13_params_no_panic.
Theorem C13_tx_no_panic : forall rs bs, run_flat (dec_tx rs) bs <> Panic.
Proof. intros rs. apply safe_no_panic. apply safe_dec_tx. Qed.
Print Assumptions C13_tx_no_panic.
Theorem C13_addrmaps_no_panic : forall bs,
  run_flat dec_wamaps bs <> Panic /\ run_flat dec_wamap bs <> Panic
  /\ run_flat dec_ramaps bs <> Panic /\ run_flat dec_ramap bs <> Panic.
Proof.
  intro bs. repeat split; apply safe_no_panic;
    [apply safe_dec_wamaps|apply safe_dec_wamap|apply safe_dec_ramaps|apply safe_dec_ramap].
Qed.
Print Assumptions C13_addrmaps_no_panic.
(* ... and on every chunked delivery of the bytes *)
Theorem C13_envelope_no_panic_chunked : forall rs cs, run_chunked (dec_envelope rs) cs <> Panic.
Proof. intros rs. apply safe_no_panic_chunked. apply safe_dec_envelope. Qed.
Print Assumptions C13_envelope_no_panic_chunked.
Theorem C13_values_no_panic_chunked : forall rs cs,
  run_chunked (dec_msg rs) cs <> Panic /\ run_chunked (dec_state rs) cs <> Panic
  /\ run_chunked dec_alloc cs <> Panic /\ run_chunked (dec_params rs) cs <> Panic
  /\ run_chunked (dec_tx rs) cs <> Panic.
Proof.
  intros rs cs. repeat split; apply safe_no_panic_chunked;
    [apply safe_dec_msg|apply safe_dec_state|apply safe_dec_alloc|apply safe_dec_params|apply safe_dec_tx].
Qed.
Print Assumptions C13_values_no_panic_chunked.

(* limits: whatever is accepted is a validated allocation (which includes the limits) ... *)
Theorem C13_accepted_alloc_within_limits : forall bs a r, run_flat dec_alloc bs = Ok (a, r) ->
  alloc_valid a = true.
Proof. exact dec_alloc_accepts_valid. Qed.
Print Assumptions C13_accepted_alloc_within_limits.
Theorem C13_accepted_state_within_limits : forall rs bs s r, run_flat (dec_state rs) bs = Ok (s, r) ->
  alloc_valid (st_alloc s) = true.
Proof. exact dec_state_accepts_valid. Qed.
Print Assumptions C13_accepted_state_within_limits.
Theorem C13_accepted_params_within_limits : forall rs bs p r, run_flat (dec_params rs) bs = Ok (p, r) ->
  p_cd p <> 0%N /\ (MinNumParts <= len (p_parts p) <= MaxNumParts)%N /\ nonce_ok (p_nonce p) = true.
Proof. intros rs bs p r H. apply new_params_ok_limits. eapply dec_params_accepts_valid; exact H. Qed.
Print Assumptions C13_accepted_params_within_limits.

(* ... in full: every accepted state, transaction and message (all types but the four that carry a bare
   participant map) is well-formed, which bounds every count and every big integer in it: assets,
   participants, sub-allocations, index-map entries (u16), amounts (MaxBigIntLength), the nonce *)
Theorem C13_accepted_state_wellformed : forall rs bs s r, run_flat (dec_state rs) bs = Ok (s, r) ->
  state_wf_rs rs s = true.
Proof. intros rs bs s r H. exact (proj1 (dec_state_normal rs bs s r H)). Qed.
Print Assumptions C13_accepted_state_wellformed.
Theorem C13_accepted_tx_wellformed : forall rs bs t r, run_flat (dec_tx rs) bs = Ok (t, r) -> tx_wf rs t = true.
Proof. intros rs bs t r H. exact (proj1 (dec_tx_normal rs bs t r H)). Qed.
Print Assumptions C13_accepted_tx_wellformed.
Theorem C13_accepted_msg_wellformed : forall rs t bs m r,
  t <> 4%N /\ t <> 5%N /\ t <> 8%N /\ t <> 9%N -> run_flat (dec_msg_body rs t) bs = Ok (m, r) -> msg_wf rs m = true.
Proof. intros rs t bs m r Ht H. exact (proj1 (dec_msg_body_normal rs t bs m r Ht H)). Qed.
Print Assumptions C13_accepted_msg_wellformed.
Theorem C13_wellformed_bounds_amounts : forall a, alloc_wf a = true ->
  forall row z, In row (al_bals a) -> In z row -> (0 <= z)%Z /\ bigint_encodable z = true.
Proof. exact alloc_wf_amounts. Qed.
Print Assumptions C13_wellformed_bounds_amounts.

(* ... and a header that declares more than the limits is rejected outright *)
Theorem C13_alloc_header_rejected : forall na np nl rest,
  (na < 65536 -> np < 65536 -> nl < 65536 ->
   MaxNumAssets < na \/ MaxNumParts < np \/ MaxNumSubAllocations < nl ->
   run_flat dec_alloc (enc_u16 na ++ enc_u16 np ++ enc_u16 nl ++ rest) = Err)%N.
Proof. exact alloc_header_rejected. Qed.
Print Assumptions C13_alloc_header_rejected.
Theorem C13_balances_header_rejected : forall na np rest,
  (na < 65536 -> np < 65536 -> MaxNumAssets < na \/ MaxNumParts < np ->
   run_flat dec_balances (enc_u16 na ++ enc_u16 np ++ rest) = Err)%N.
Proof. exact balances_header_rejected. Qed.
Print Assumptions C13_balances_header_rejected.
Theorem C13_suballoc_header_rejected : forall id n rest,
  length id = 32%nat -> (n < 65536 -> MaxNumAssets < n ->
  run_flat dec_suballoc (id ++ enc_u16 n ++ rest) = Err)%N.
Proof. exact suballoc_header_rejected. Qed.
Print Assumptions C13_suballoc_header_rejected.
Theorem C13_bigint_length_rejected : forall l rest, (l < 256 -> MaxBigIntLength < l ->
  run_flat dec_bigint (enc_u8 l ++ rest) = Err)%N.
Proof. exact bigint_length_rejected. Qed.
Print Assumptions C13_bigint_length_rejected.

(* hostile length fields: every allocation an allocation/balances/sub-allocation decoder requests
   before its next check is bounded by MaxNumAssets * MaxNumParts entries *)
Theorem C13_alloc_bounded : alloc_bounded alloc_limit dec_alloc
  /\ alloc_bounded alloc_limit dec_balances /\ alloc_bounded alloc_limit dec_suballoc.
Proof. repeat split; [apply ab_dec_alloc|apply ab_dec_balances|apply ab_dec_suballoc]. Qed.
Print Assumptions C13_alloc_bounded.

(* the same bound for every message type except AuthResponse (its signature length is a uint32 without a
   documented limit: an observation recorded in DESIGN.md, not part of the property) *)
Theorem C13_msg_alloc_bounded : forall rs t, t <> 3%N -> alloc_bounded alloc_limit (dec_msg_body rs t).
Proof. exact ab_dec_msg_body. Qed.
Print Assumptions C13_msg_alloc_bounded.
Theorem C13_values_alloc_bounded : forall rs,
  alloc_bounded alloc_limit (dec_state rs) /\ alloc_bounded alloc_limit (dec_tx rs)
  /\ alloc_bounded alloc_limit (dec_params rs) /\ alloc_bounded alloc_limit dec_wamaps
  /\ alloc_bounded alloc_limit dec_ramaps.
Proof.
  intro rs. repeat split; [apply ab_dec_state|apply ab_dec_tx|apply ab_dec_params|apply ab_dec_wamaps|apply ab_dec_ramaps].
Qed.
Print Assumptions C13_values_alloc_bounded.

Example C13_nonvacuous : run_flat dec_balances (enc_u16 1025 ++ enc_u16 2 ++ []) = Err
  /\ run_flat dec_wamaps (enc_i32 (-1)) = Err.
Proof. vm_compute. split; reflexivity. Qed.
