(* C13 — Decoding arbitrary bytes never panics and enforces the size limits: the PROTOBUF path.
   Statement file.  A protobuf decode is: read the frame, proto.Unmarshal (trusted, abstract: ANY
   function from bytes to message trees), then the To* conversions; the theorems are over ALL message
   trees, so they cover whatever Unmarshal returns for whatever bytes. *)
From V Require Import Model.Proto Proofs.WireP Proofs.ChannelP Proofs.SafeP Proofs.ProtoP.

(* no conversion panics, whatever the tree (nil sub-messages, inconsistent counts, short ids, ...) *)
Theorem C13_proto_no_panic_envelope : forall rs t, to_envelope rs t <> Panic.
Proof. exact to_envelope_np. Qed.
Print Assumptions C13_proto_no_panic_envelope.
Theorem C13_proto_no_panic_msg : forall rs t, to_msg rs t <> Panic.
Proof. exact to_msg_np. Qed.
Print Assumptions C13_proto_no_panic_msg.
Theorem C13_proto_no_panic_state : forall rs t, to_state rs t <> Panic.
Proof. exact to_state_np. Qed.
Print Assumptions C13_proto_no_panic_state.
Theorem C13_proto_no_panic_alloc : forall t, to_alloc t <> Panic.
Proof. exact to_alloc_np. Qed.
Print Assumptions C13_proto_no_panic_alloc.
Theorem C13_proto_no_panic_suballoc : forall t, to_suballoc t <> Panic.
Proof. exact to_suballoc_np. Qed.
Print Assumptions C13_proto_no_panic_suballoc.
Theorem C13_proto_no_panic_params : forall rs t, to_params rs t <> Panic.
Proof. exact to_params_np. Qed.
Print Assumptions C13_proto_no_panic_params.
Theorem C13_proto_no_panic_signed_state : forall rs t, to_signed rs t <> Panic.
Proof. exact to_signed_np. Qed.
Print Assumptions C13_proto_no_panic_signed_state.
Theorem C13_proto_no_panic_update : forall rs t, to_update rs t <> Panic.
Proof. exact to_update_np. Qed.
Print Assumptions C13_proto_no_panic_update.
Theorem C13_proto_no_panic_baseprop : forall rs t, to_baseprop rs t <> Panic.
Proof. exact to_baseprop_np. Qed.
Print Assumptions C13_proto_no_panic_baseprop.
Theorem C13_proto_no_panic_addrs : forall t, to_wamap t <> Panic /\ to_ramap t <> Panic.
Proof. intro t. split; [apply to_wamap_np|apply to_ramap_np]. Qed.
Print Assumptions C13_proto_no_panic_addrs.

(* hence Serializer().Decode never panics: for every byte string, every chunking, every Unmarshal *)
Theorem C13_proto_decode_no_panic : forall unmarshal rs bs, run_flat (dec_pframe unmarshal rs) bs <> Panic.
Proof. intros u rs. apply safe_no_panic. apply safe_dec_pframe. Qed.
Print Assumptions C13_proto_decode_no_panic.
Theorem C13_proto_decode_no_panic_chunked : forall unmarshal rs cs, run_chunked (dec_pframe unmarshal rs) cs <> Panic.
Proof. intros u rs. apply safe_no_panic_chunked. apply safe_dec_pframe. Qed.
Print Assumptions C13_proto_decode_no_panic_chunked.

(* limits: an accepted allocation is a validated one (8481c0f), accepted parameters passed NewParams
   (129bafa) ... *)
Theorem C13_proto_accepted_alloc_within_limits : forall t a, to_alloc t = Ok a -> alloc_valid a = true.
Proof. exact to_alloc_valid. Qed.
Print Assumptions C13_proto_accepted_alloc_within_limits.
Theorem C13_proto_accepted_state_within_limits : forall rs t s, to_state rs t = Ok s -> alloc_valid (st_alloc s) = true.
Proof. exact to_state_valid. Qed.
Print Assumptions C13_proto_accepted_state_within_limits.
Theorem C13_proto_accepted_params_within_limits : forall rs t p, to_params rs t = Ok p ->
  p_cd p <> 0%N /\ (MinNumParts <= len (p_parts p) <= MaxNumParts)%N /\ nonce_ok (p_nonce p) = true.
Proof. intros rs t p H. apply new_params_ok_limits. eapply to_params_ok; exact H. Qed.
Print Assumptions C13_proto_accepted_params_within_limits.
(* ... in every message: each allocation and each parameter set of a decoded envelope *)
Theorem C13_proto_accepted_envelope_within_limits : forall unmarshal rs bs e r,
  run_flat (dec_pframe unmarshal rs) bs = Ok (e, r) ->
  Forall (fun a => alloc_valid a = true) (msg_allocs (e_msg e))
  /\ Forall (fun p => new_params_ok p = true) (msg_params (e_msg e)).
Proof.
  intros u rs bs e r H. apply dec_pframe_ok_inv in H as (pe & H). eapply to_envelope_limits; exact H.
Qed.
Print Assumptions C13_proto_accepted_envelope_within_limits.
(* ... and a tree that declares more than the limits is rejected *)
Theorem C13_proto_alloc_over_limit_rejected : forall t,
  (MaxNumAssets < len (pal_assets t) \/ MaxNumSubAllocations < len (pal_locked t)
   \/ Exists (fun row => MaxNumParts < len (to_balance row)) (og [] (pal_balances t)))%N ->
  to_alloc (Some t) = Err.
Proof. exact to_alloc_over_limit_rejected. Qed.
Print Assumptions C13_proto_alloc_over_limit_rejected.
Theorem C13_proto_params_over_limit_rejected : forall rs t,
  (MaxNumParts < len (pp_parts t) \/ len (pp_parts t) < MinNumParts \/ pp_cd t = 0
   \/ MaxNonceLen < N.of_nat (nbytes (dec_be (pp_nonce t))))%N ->
  to_params rs (Some t) = Err.
Proof. exact to_params_over_limit_rejected. Qed.
Print Assumptions C13_proto_params_over_limit_rejected.

(* the code before the repairs (2e6bf0f, cd1c178, 8481c0f, 129bafa): the witnesses *)
Theorem C13_proto_no_panic_alloc_refuted :
  Legacy.to_alloc (Some (mkPAl [] [enc_u64be 1] None [])) = Panic                       (* Backends[0] *)
  /\ Legacy.to_alloc (Some (mkPAl [enc_be 4 7] [enc_u64be 1] None [])) = Panic           (* unknown backend *)
  /\ Legacy.to_wamap (Some [Some (mkPAM (enc_be 4 7) (repeat Byte.x00 64))]) = Panic.
Proof. exact legacy_to_alloc_panics. Qed.
Print Assumptions C13_proto_no_panic_alloc_refuted.
Theorem C13_proto_alloc_limits_refuted : exists a, Legacy.to_alloc None = Ok a /\ alloc_valid a = false.
Proof. exact legacy_to_alloc_unvalidated. Qed.
Print Assumptions C13_proto_alloc_limits_refuted.
Theorem C13_proto_no_panic_params_refuted : forall rs,
  Legacy.to_params rs None = Panic                                                     (* Parts[0] *)
  /\ Legacy.to_params rs (Some (mkPP [] 1 [Some []] [] [] false false [])) = Panic       (* no valid ID *)
  /\ Legacy.to_params rs (Some (mkPP [] 1 [Some [Some (mkPAM (enc_be 4 0) (repeat Byte.x00 64))]] []
                                     (repeat Byte.xff 129) false false [])) = Panic.   (* long nonce *)
Proof. exact legacy_to_params_panics. Qed.
Print Assumptions C13_proto_no_panic_params_refuted.

(* the limits the protobuf path did not enforce before c9b3ae4, b6732bb, 953c29f: witnesses against the
   code as it was (Legacy), each with the verdict of the repaired conversion on the same tree *)
Theorem C13_proto_funding_agreement_limit_refuted : forall rs,
  (exists b, Legacy.to_baseprop rs (Some w_fa_tree) = Ok b /\ (MaxNumAssets < len (bp_fa b))%N)
  /\ to_baseprop rs (Some w_fa_tree) = Err.
Proof. exact legacy_funding_agreement_unbounded. Qed.
Print Assumptions C13_proto_funding_agreement_limit_refuted.
Theorem C13_proto_bigint_limit_refuted :
  (exists a, Legacy.to_alloc_anylen (Some w_big_tree) = Ok a /\ forallb bigints_ok (al_bals a) = false)
  /\ to_alloc (Some w_big_tree) = Err.
Proof. exact legacy_bigint_unbounded. Qed.
Print Assumptions C13_proto_bigint_limit_refuted.
Theorem C13_proto_peers_limit_refuted : forall rs,
  (exists b part peers, Legacy.to_ledger_prop rs (Some w_peers_tree) = Ok (MLedgerProp b part peers)
                        /\ (MaxNumParts < len peers)%N)
  /\ to_msg rs (PLedgerProp (Some w_peers_tree)) = Err.
Proof. exact legacy_peers_unbounded. Qed.
Print Assumptions C13_proto_peers_limit_refuted.

(* ... and the positive statements for the repaired code.  Accepted values: every amount of an accepted
   allocation (balances and sub-allocations) fits MaxBigIntLength; in every decoded envelope every
   allocation does, a funding agreement has at most MaxNumAssets rows of at most MaxNumParts amounts that
   fit MaxBigIntLength, a ledger channel proposal has MinNumParts..MaxNumParts peers and a virtual
   channel proposal at most MaxNumParts *)
Theorem C13_proto_accepted_alloc_amounts_within_limits : forall t a, to_alloc t = Ok a ->
  forallb bigints_ok (al_bals a) && forallb (fun l => bigints_ok (sa_bals l)) (al_locked a) = true.
Proof. exact to_alloc_amounts. Qed.
Print Assumptions C13_proto_accepted_alloc_amounts_within_limits.
Theorem C13_proto_accepted_baseprop_within_limits : forall rs t b, to_baseprop rs t = Ok b ->
  fa_dims_ok (bp_fa b) = true /\ forallb bigints_ok (bp_fa b) = true /\ alloc_amounts_ok (bp_bals b) = true.
Proof. exact to_baseprop_fa. Qed.
Print Assumptions C13_proto_accepted_baseprop_within_limits.
Theorem C13_proto_accepted_envelope_amounts_and_peers_within_limits : forall unmarshal rs bs e r,
  run_flat (dec_pframe unmarshal rs) bs = Ok (e, r) ->
  Forall (fun a => alloc_amounts_ok a = true) (msg_allocs (e_msg e)) /\ msg_extra_ok (e_msg e) = true.
Proof.
  intros u rs bs e r H. apply dec_pframe_ok_inv in H as (pe & H). eapply to_envelope_limits2; exact H.
Qed.
Print Assumptions C13_proto_accepted_envelope_amounts_and_peers_within_limits.
(* Over the limit = rejected *)
Theorem C13_proto_long_amount_rejected : forall t,
  forallb bigints_ok (to_balances (pal_balances t)) = false -> to_alloc (Some t) = Err.
Proof. exact to_alloc_long_amount_rejected. Qed.
Print Assumptions C13_proto_long_amount_rejected.
Theorem C13_proto_suballoc_long_amount_rejected : forall t,
  bigints_ok (to_balance (psa_bals t)) = false -> to_suballoc (Some t) = Err.
Proof. exact to_suballoc_long_amount_rejected. Qed.
Print Assumptions C13_proto_suballoc_long_amount_rejected.
Theorem C13_proto_funding_agreement_over_limit_rejected : forall rs t,
  fa_dims_ok (to_balances (pbp_fa t)) = false \/ forallb bigints_ok (to_balances (pbp_fa t)) = false ->
  to_baseprop rs (Some t) = Err.
Proof. exact to_baseprop_fa_rejected. Qed.
Print Assumptions C13_proto_funding_agreement_over_limit_rejected.
Theorem C13_proto_ledger_peers_over_limit_rejected : forall rs p,
  (len (plp_peers p) < MinNumParts \/ MaxNumParts < len (plp_peers p))%N ->
  to_msg rs (PLedgerProp (Some p)) = Err.
Proof. exact to_ledger_peers_rejected. Qed.
Print Assumptions C13_proto_ledger_peers_over_limit_rejected.
Theorem C13_proto_virtual_peers_over_limit_rejected : forall rs p,
  (MaxNumParts < len (pvp_peers p))%N -> to_msg rs (PVirtProp (Some p)) = Err.
Proof. exact to_virtual_peers_rejected. Qed.
Print Assumptions C13_proto_virtual_peers_over_limit_rejected.

Example C13_proto_nonvacuous :
  to_alloc (Some (mkPAl [] [enc_u64be 1] None [])) = Err                                 (* backends shorter than assets *)
  /\ to_params (fun _ => None) None = Err                                                (* no participants *)
  /\ to_envelope (fun _ => None) (mkPEnv None None None) = Err                           (* zero-length frame *)
  /\ to_envelope (fun _ => None) (mkPEnv None None (Some (PPing None))) = Ok (mkEnv [] [] (MPing 0)).
Proof. vm_compute. repeat split; reflexivity. Qed.
