(* C09 — State machine operations follow the documented phase protocol atomically.  Statement file. *)
From V Require Import Model.Machine Model.MachineSpec Proofs.MachineP.

(* `pre` / `post` (Model/MachineSpec.v) are written from the doc comments; the transition table and
   the signing phases used by `step` are GENERATED from the compiled package (Gen/Generated.v). *)

(* each operation succeeds exactly when its documented precondition holds (phase, signatures, final
   flag); stated for every machine state and operation on which Go does not panic *)
Theorem C09_success_iff_pre : forall m o,
  snd (step m o) <> PANIC -> is_success (snd (step m o)) = pre o m.
Proof. exact step_success_iff_pre. Qed.
Print Assumptions C09_success_iff_pre.

(* ... and then leaves the machine in the documented phase *)
Theorem C09_post_phase : forall m o,
  is_success (snd (step m o)) = true -> ph (fst (step m o)) = post o m.
Proof. exact step_post_phase. Qed.
Print Assumptions C09_post_phase.

(* an operation that returns an error (or panics) changes nothing: phase, staged and current
   transaction stay as they were (full record equality) *)
Theorem C09_error_is_noop : forall m o,
  snd (step m o) = ERR \/ snd (step m o) = PANIC -> fst (step m o) = m.
Proof. exact step_fail_noop. Qed.
Print Assumptions C09_error_is_noop.

(* own signatures are produced only by Sig, only in signing phases, only over the staged state *)
Theorem C09_sig_only_staged : forall m o sg, Inv m -> snd (step m o) = OKSig sg ->
  o = OSig /\ in_phases m signing_phases_doc = true /\
  exists t k, staging m = Some t /\ nth_error (mp_parts (ps m)) (N.to_nat (me m)) = Some k
              /\ verify_state k (tx_st t) sg = Some true.
Proof. exact step_own_sig. Qed.
Print Assumptions C09_sig_only_staged.

(* every reachable machine satisfies the invariant used above (signing phase => staged transaction
   present with one slot per participant, every filled slot verified) *)
Theorem C09_reachable_wf : forall p idx ops, Inv (run (new_machine p idx) ops).
Proof. intros. apply Inv_run. apply Inv_new. Qed.
Print Assumptions C09_reachable_wf.

(* in the documented domain (signature indices below the participant count, forced update and
   CheckUpdate only with a current state, apps that do not panic by design) no operation panics on a
   machine reached from a fresh one through such operations: the `<> PANIC` hypothesis of
   C09_success_iff_pre is met on every run the property quantifies over *)
Theorem C09_no_panic_reachable : forall p idx ops o,
  (N.to_nat idx < length (mp_parts p))%nat -> run_ok (new_machine p idx) (ops ++ [o]) ->
  snd (step (run (new_machine p idx) ops) o) <> PANIC.
Proof.
  intros p idx ops o Hidx R.
  exact (no_panic_reachable (new_machine p idx) ops o (Inv_new p idx) (Inv2_new p idx Hidx) R).
Qed.
Print Assumptions C09_no_panic_reachable.

(* T4: the code's transition table and signing phases are the documented ones *)
Theorem C09_generated_table_is_documented : forall f t, valid_transition_tbl f t = doc_transition f t.
Proof. exact tbl_doc. Qed.
Print Assumptions C09_generated_table_is_documented.
Theorem C09_generated_signing_phases_documented : forall p, signing_phase p = phase_in p signing_phases_doc.
Proof. exact signing_doc. Qed.
Print Assumptions C09_generated_signing_phases_documented.

Example C09_nonvacuous :
  pre OEnableInit (run (new_machine exP0 0) exOps0) = true
  /\ snd (step (run (new_machine exP0 0) exOps0) OEnableUpdate) = ERR.
Proof. vm_compute. split; reflexivity. Qed.
