(* C09 (and C01) for channel/actionmachine.go.  Statement file.
   The ActionApp is user code: every theorem holds for EVERY answer the app may give (value, error,
   panic) at every call. *)
From V Require Import Model.Machine Model.MachineSpec Model.ActionMachine Proofs.MachineP Proofs.ActionP.
Open Scope N_scope.

(* an operation of the action machine that returns an error (or panics) changes nothing: embedded
   machine (phase, staged, current transaction) and staging actions stay as they were *)
Theorem C09A_error_is_noop : forall s o,
  snd (astep s o) = ERR \/ snd (astep s o) = PANIC -> fst (astep s o) = s.
Proof. exact astep_fail_noop. Qed.
Print Assumptions C09A_error_is_noop.

(* Init succeeds exactly in InitActing when the app produces an initial allocation that newState
   accepts; it then stages the unsigned version-0 state in InitSigning and clears the actions *)
Theorem C09A_init_iff : forall s r,
  snd (astep s (AInit r)) = OK <->
  ph (am s) = InitActing /\ exists a d st, r = ARet (a, d) /\ new_state (am s) a d = Some st.
Proof. exact ainit_ok_iff. Qed.
Print Assumptions C09A_init_iff.
Theorem C09A_init_effect : forall s r, snd (astep s (AInit r)) = OK ->
  exists a d st, r = ARet (a, d) /\ new_state (am s) a d = Some st /\
    fst (astep s (AInit r)) = mkAM (set_staging (am s) InitSigning st) (no_acts (am s)).
Proof. exact ainit_effect. Qed.
Print Assumptions C09A_init_effect.

(* Update succeeds exactly in Acting when the app returns a state; Signing, actions cleared *)
Theorem C09A_update_iff : forall s r,
  snd (astep s (AUpdate r)) = OK <-> ph (am s) = Acting /\ exists st, r = ARet st.
Proof. exact aupdate_ok_iff. Qed.
Print Assumptions C09A_update_iff.
Theorem C09A_update_effect : forall s st, snd (astep s (AUpdate (ARet st))) = OK ->
  fst (astep s (AUpdate (ARet st))) = mkAM (set_staging (am s) Signing st) (no_acts (am s)).
Proof. exact aupdate_effect. Qed.
Print Assumptions C09A_update_effect.

(* AddAction succeeds exactly in an action phase, on an empty slot, when the app accepts; only that
   slot changes *)
Theorem C09A_add_iff : forall s i a r,
  snd (astep s (AAdd i a r)) = OK <->
  (ph (am s) = InitActing \/ ph (am s) = Acting) /\ nth_error (acts s) (N.to_nat i) = Some None
  /\ exists u, r = ARet u.
Proof. exact aadd_ok_iff. Qed.
Print Assumptions C09A_add_iff.
Theorem C09A_add_effect : forall s i a r, snd (astep s (AAdd i a r)) = OK ->
  fst (astep s (AAdd i a r)) = mkAM (am s) (set_nth (N.to_nat i) (Some a) (acts s)).
Proof. exact aadd_effect. Qed.
Print Assumptions C09A_add_effect.

(* the inherited operations are exactly Model.Machine.step on the embedded machine (so every C09/C01
   theorem about step applies) and leave the staging actions alone *)
Theorem C09A_shared : forall s o,
  astep s (AShared o) = (mkAM (fst (step (am s) (sop_op o))) (acts s), snd (step (am s) (sop_op o))).
Proof. exact ashared_spec. Qed.
Print Assumptions C09A_shared.

(* over EVERY operation sequence and every app: the embedded machine keeps the C09 invariant and
   there is exactly one action slot per participant *)
Theorem C09A_reachable_wf : forall p idx ops, AInv (arun (new_amachine p idx) ops).
Proof. intros. apply AInv_run. apply AInv_new. Qed.
Print Assumptions C09A_reachable_wf.

Theorem C09A_add_no_panic : forall s i a r,
  AInv s -> i < nparts (am s) -> r <> APanic -> snd (astep s (AAdd i a r)) <> PANIC.
Proof. exact aadd_no_panic. Qed.
Print Assumptions C09A_add_no_panic.

Theorem C09A_init_update_no_panic : forall s,
  (forall r, r <> APanic -> snd (astep s (AInit r)) <> PANIC) /\
  (forall r, r <> APanic -> snd (astep s (AUpdate r)) <> PANIC).
Proof. intro s. split; intros r Hr; [exact (ainit_no_panic s r Hr) | exact (aupdate_no_panic s r Hr)]. Qed.
Print Assumptions C09A_init_update_no_panic.

(* C01 for the action machine: over every operation sequence and every app the current transaction
   is signed by every participant over exactly the current state, or is the unsigned state adopted
   by SetProgressed; Init/Update/AddAction never change it *)
Theorem C01A_current_signed : forall p idx ops t,
  current (am (arun (new_amachine p idx) ops)) = Some t ->
  fully_signed (am (arun (new_amachine p idx) ops)) t \/ unsigned t.
Proof. exact action_current_signed. Qed.
Print Assumptions C01A_current_signed.
Theorem C01A_action_ops_keep_current : forall s o,
  (forall so, o <> AShared so) -> current (am (fst (astep s o))) = current (am s).
Proof. exact action_ops_keep_current. Qed.
Print Assumptions C01A_action_ops_keep_current.

(* non-vacuity: a run that reaches Acting with a fully signed current state; wrong-phase calls fail *)
Example C09A_nonvacuous :
  ph (am (arun (new_amachine exAP 0) exAOps)) = Acting
  /\ option_map (fun t => all_some (tx_sigs t)) (current (am (arun (new_amachine exAP 0) exAOps))) = Some true
  /\ snd (astep (arun (new_amachine exAP 0) exAOps) (AInit (ARet (exAA, [])))) = ERR
  /\ snd (astep (new_amachine exAP 0) (AUpdate (ARet exAS0))) = ERR.
Proof. vm_compute. repeat split; reflexivity. Qed.

(* observation outside the listed properties (C02 quantifies over the StateMachine operations):
   ActionMachine.Update stages whatever ApplyActions returns - no ValidTransition *)
Example ActionMachine_update_unchecked :
  snd (astep (arun (new_amachine exAP 0) exAOps) (AUpdate (ARet exBad))) = OK.
Proof. vm_compute. reflexivity. Qed.
