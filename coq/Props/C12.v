(* C12 - no message from a remote peer can crash a client or lock up a channel (partial: the
   proposal handlers belong to C08; goroutine scheduling and the 10 s timeouts are sampled).

   Model: Model/Handlers.v.  Panic = a modelled Go panic site (index, nil dereference, log.Panic,
   unlock of a mutex the handler does not hold); Block = the handler never returns and keeps the
   channel's machine mutex (responder signalling, interceptor hand-over). *)
From V Require Import Model.Machine Model.Handlers Proofs.HandlersP.
Open Scope N_scope.

(* every update-type request (ChannelUpdate, VirtualChannelFundingProposal,
   VirtualChannelSettlementProposal) that the decoders can produce, in every honest context: the
   handler ends in Drop | AskUser | AutoAccept | Reject, it has returned with the machine mutex
   released, and it has sent at most one response *)
Theorem C12_no_panic_no_block : forall c r, honest_ctx c -> req_decodable (ps (cx_mach c)) r ->
  let res := handle_update_req repaired c r in
  (r_dec res = Drop \/ r_dec res = AskUser \/ r_dec res = AutoAccept \/ r_dec res = Reject)
  /\ r_unlocked res = true /\ (length (r_sent res) <= 1)%nat.
Proof. exact C12_update_fine. Qed.
Print Assumptions C12_no_panic_no_block.

(* the same through the client's channel registry (unknown channels: Drop) *)
Theorem C12_client_no_panic_no_block : forall cl r, Forall honest_ctx cl ->
  (forall c, In c cl -> req_decodable (ps (cx_mach c)) r) -> res_fine (handle_update repaired cl r).
Proof. exact C12_client_update_fine. Qed.
Print Assumptions C12_client_no_panic_no_block.

(* every sequence of requests with arbitrary answers of the user: each one is handled as above and
   the context stays honest (so the next request, or an honest local operation, finds the mutex free) *)
Theorem C12_sequences : forall c ins, honest_ctx c ->
  (forall r a, In (r, a) ins -> req_decodable (ps (cx_mach c)) r) ->
  Forall res_fine (run_decs repaired c ins) /\ honest_ctx (run_ctx repaired c ins).
Proof. exact C12_sequences. Qed.
Print Assumptions C12_sequences.

(* sync messages: any message, any sender, any context (busy or not) *)
Theorem C12_sync_no_panic_no_block : forall cl reach s,
  let res := handle_sync repaired cl reach s in
  (r_dec res = Drop \/ r_dec res = Reply) /\ r_unlocked res = true.
Proof. exact C12_sync_fine. Qed.
Print Assumptions C12_sync_no_panic_no_block.
Theorem C12_sync_keeps_honest : forall c, honest_ctx c -> honest_ctx (set_mach c (fst (step (cx_mach c) ODiscard))).
Proof. exact sync_post_honest. Qed.
Print Assumptions C12_sync_keeps_honest.

(* non-vacuity: honest contexts and decodable requests exist for every branch *)
Example C12_nonvacuous :
  (r_dec (handle_update_req repaired wc0 w15) = Reject /\ r_unlocked (handle_update_req repaired wc0 w15) = true
   /\ r_sent (handle_update_req repaired wc0 w15) = [SentRej])
  /\ honest_ctx wc0 /\ req_decodable (ps (cx_mach wc0)) w15
  /\ r_dec (handle_sync repaired [wc0] true (mkSync 3 (Some (wS0, [])))) = Reply.
Proof.
  split; [exact vc_return_repaired|]. split; [apply honest_wc; try reflexivity; intros ic []|].
  split; [split; [apply dec_w; reflexivity|reflexivity]|]. vm_compute. reflexivity.
Qed.

(* the code before the repairs (witnesses; each reproduced against /repo) *)
Theorem C12_vc_return_refuted : exists c r, honest_ctx c /\ req_decodable (ps (cx_mach c)) r /\
  let res := handle_update_req original c r in r_dec res = Block /\ r_unlocked res = false /\ r_sent res = [SentRej].
Proof. exact C12_vc_return_refuted. Qed.
Print Assumptions C12_vc_return_refuted.
Theorem C12_vc_dims_refuted : exists c r, honest_ctx c /\ req_decodable (ps (cx_mach c)) r /\
  r_dec (handle_update_req original c r) = Panic.
Proof. exact C12_vc_dims_refuted. Qed.
Print Assumptions C12_vc_dims_refuted.
Theorem C12_transform_refuted : exists c r, honest_ctx c /\ req_decodable (ps (cx_mach c)) r /\
  r_dec (handle_update_req original c r) = Panic.
Proof. exact C12_transform_refuted. Qed.
Print Assumptions C12_transform_refuted.
Theorem C12_resp_nonblock_refuted : exists c r, honest_ctx c /\ req_decodable (ps (cx_mach c)) r /\
  r_dec (handle_update_req no_nonblock c r) = Block.
Proof. exact C12_resp_nonblock_refuted. Qed.
Print Assumptions C12_resp_nonblock_refuted.
Theorem C12_sync_nil_refuted : exists s, r_dec (handle_sync original [] true s) = Panic.
Proof. exact C12_sync_nil_refuted. Qed.
Print Assumptions C12_sync_nil_refuted.
Theorem C12_sync_unlock_refuted : exists cl s,
  r_dec (handle_sync (mkVar true false true true true true true) cl true s) = Panic.
Proof. exact C12_sync_unlock_refuted. Qed.
Print Assumptions C12_sync_unlock_refuted.

(* known finding (not repaired): an update interceptor whose registering routine never reaches its
   await keeps the handler blocked with the machine mutex held - honest_ctx asks for awaited
   interceptors, and without that the repaired code still blocks *)
Theorem C12_unawaited_interceptor_blocks : exists c r,
  req_decodable (ps (cx_mach c)) r /\ r_dec (handle_update_req repaired c r) = Block.
Proof. exact C12_unawaited_interceptor_blocks. Qed.
Print Assumptions C12_unawaited_interceptor_blocks.

(* the parent lock of the proposal handlers (client/proposal.go prepareChannelOpening /
   cleanupChannelOpening): for every set of channels and every interleaving of proposal arrivals and
   handler returns - any proposal ids (the remote proposer chooses them: equal ids on different
   parents, replays), any parents - no Unlock hits an unlocked mutex, and when every handler has
   returned no channel is locked *)
Theorem C12_proposal_locks_released : forall known evs,
  in_flight [] evs = Some [] ->
  prun known [] evs <> PPanic /\ forall l, prun known [] evs = PLocks l -> l = [].
Proof. exact proposal_locks_released. Qed.
Print Assumptions C12_proposal_locks_released.
Example C12_proposal_locks_nonvacuous :
  let a := repeat Byte.x01 32 in let b := repeat Byte.x02 32 in let x := repeat Byte.x09 32 in
  let p1 := mkPM x (Some a) in let p2 := mkPM x (Some b) in
  in_flight [] [PArrive p1; PArrive p2; PReturn p1; PReturn p2] = Some []
  /\ prun [a; b] [] [PArrive p1; PArrive p2] = PLocks [b; a]
  /\ prun [a; b] [] [PArrive p1; PArrive p2; PReturn p1; PReturn p2] = PLocks [].
Proof. vm_compute. auto. Qed.
