(* C19 — Clones are equal to, and share no mutable memory with, their originals.
   Statement file: every theorem is closed by `exact` of a lemma proved in Proofs/HeapP.v.

   Model (Model/Heap.v): a Go value is a tree whose mutable nodes carry a heap location; `erase` forgets
   the locations (the value up to go-perun equality), `locs` lists them, `write l w` is a store to l.
   Two holders share one heap: `run2 a b ws` applies every write of the interleaved sequence ws to both
   views; `legal` says each write targets a location its author can reach in its own value and stores
   what the author can reach or allocates now.  `independent src cp lim` =
     erase cp = erase src  /\  locs cp disjoint from locs src  /\
     for every legal ws: each side ends as if only its own writes had happened
     (so writes by one side alone leave the other side unchanged).
   Only GShared nodes (app definitions, asset identifiers, signing accounts; logger and curve singletons)
   are common to both and carry no location: nothing can be written through them in the model.
   Partial: Go's memory is abstracted to this tree-with-locations; Run/Compare_C19.v checks on every run
   that the real clones have the sharing pattern the code-shaped models below predict. *)
From Coq Require Import Arith PeanoNat.
From V Require Import Model.Heap Proofs.HeapP.
Local Open Scope nat_scope.

(* ---------------------------------------------------------------- arbitrary trees: the generic deep copy *)
Theorem C19_clone_equal : forall v n, erase (fst (clone v n)) = erase v.
Proof. exact clone_erase. Qed.
Print Assumptions C19_clone_equal.

Theorem C19_clone_disjoint : forall v n, below v n ->
  forall l, In l (locs (fst (clone v n))) -> ~ In l (locs v).
Proof. exact clone_disjoint. Qed.
Print Assumptions C19_clone_disjoint.

(* every node of the clone is its own fresh allocation: no aliasing inside the clone either *)
Theorem C19_clone_fresh : forall v n, locs (fst (clone v n)) = seq n (snd (clone v n) - n).
Proof. exact clone_locs_seq. Qed.
Print Assumptions C19_clone_fresh.

(* any interleaving of writes by the two holders: each side ends as if the other had not written;
   writes by the original's holder alone leave the clone (and its value) as it was, and vice versa *)
Theorem C19_no_observation : forall v n ws, below v n -> legal (snd (clone v n)) v (fst (clone v n)) ws ->
  run2 v (fst (clone v n)) ws = (own_writes SideL ws v, own_writes SideR ws (fst (clone v n))) /\
  (only SideL ws -> snd (run2 v (fst (clone v n)) ws) = fst (clone v n)
                    /\ erase (snd (run2 v (fst (clone v n)) ws)) = erase v) /\
  (only SideR ws -> fst (run2 v (fst (clone v n)) ws) = v
                    /\ erase (fst (run2 v (fst (clone v n)) ws)) = erase (fst (clone v n))).
Proof. exact clone_no_observation. Qed.
Print Assumptions C19_no_observation.

(* the same for ANY copy with the deep-copy sharing pattern (same value, all nodes distinct and fresh) *)
Theorem C19_deep_copy_independent : forall v v' n n', deep v v' n n' -> below v n -> independent v v' n'.
Proof. exact deep_is_independent. Qed.
Print Assumptions C19_deep_copy_independent.

Theorem C19_generic_clone_is_deep : forall v n, deep v (fst (clone v n)) n (snd (clone v n)).
Proof. exact clone_deep. Qed.
Print Assumptions C19_generic_clone_is_deep.

(* what the correspondence check accepts is a deep copy: an observed (original, clone) pair that passes
   `deepb` is independent in the sense above *)
Theorem C19_observed_pattern_sound : forall orig cl n, deepb orig cl n = true ->
  exists lim, independent orig cl lim.
Proof. exact observed_independent. Qed.
Print Assumptions C19_observed_pattern_sound.

(* ---------------------------------------------------------------- the code-shaped Clone methods are deep
   (okM c tg src: c does not panic and returns a value whose tree is a deep copy of src) *)
Theorem C19_clone_bals_is_deep : forall o, bals_wf o = true -> okM (clone_bals o) bals_gv (bals_gv o).
Proof. exact clone_bals_deep. Qed.
Print Assumptions C19_clone_bals_is_deep.

Theorem C19_clone_balances_is_deep : forall o,
  slice_all bals_wf o = true -> okM (clone_balances o) balances_gv (balances_gv o).
Proof. exact clone_balances_deep. Qed.
Print Assumptions C19_clone_balances_is_deep.

Theorem C19_clone_index_map_is_deep : forall o, okM (clone_index_map o) imap_gv (imap_gv o).
Proof. exact clone_index_map_deep. Qed.
Print Assumptions C19_clone_index_map_is_deep.

Theorem C19_clone_alloc_is_deep : forall a, alloc_wf a = true -> okM (clone_alloc a) alloc_gv (alloc_gv a).
Proof. exact clone_alloc_deep. Qed.
Print Assumptions C19_clone_alloc_is_deep.

Theorem C19_clone_state_is_deep : forall p,
  stateptr_wf p = true -> okM (clone_stateptr p) stateptr_gv (stateptr_gv p).
Proof. exact clone_stateptr_deep. Qed.
Print Assumptions C19_clone_state_is_deep.

Theorem C19_clone_sigs_is_deep : forall o, okM (clone_sigs o) sigs_gv (sigs_gv o).
Proof. exact clone_sigs_deep. Qed.
Print Assumptions C19_clone_sigs_is_deep.

Theorem C19_clone_tx_is_deep : forall t, tx_wf t = true -> okM (clone_tx t) tx_gv (tx_gv t).
Proof. exact clone_tx_deep. Qed.
Print Assumptions C19_clone_tx_is_deep.

Theorem C19_clone_addresses_is_deep : forall o,
  slice_all addrmap_wf o = true -> okM (clone_parts o) parts_gv (parts_gv o).
Proof. exact clone_parts_deep. Qed.
Print Assumptions C19_clone_addresses_is_deep.

Theorem C19_clone_params_is_deep : forall l0 p, params_wf p = true ->
  okM (clone_params p) (fun q => paramsptr_gv (Some q)) (paramsptr_gv (Some (l0, p))).
Proof. exact clone_paramsptr_deep. Qed.
Print Assumptions C19_clone_params_is_deep.

Theorem C19_clone_machine_is_deep : forall m, machine_wf (sm_mach m) = true -> okM (clone_sm m) sm_gv (sm_gv m).
Proof. exact clone_sm_deep. Qed.
Print Assumptions C19_clone_machine_is_deep.

Theorem C19_clone_action_machine_is_deep : forall m, am_wf m = true -> okM (clone_am m) am_gv (am_gv m).
Proof. exact clone_am_deep. Qed.
Print Assumptions C19_clone_action_machine_is_deep.

(* persistence.CloneSource / FromSource: the snapshot behind the returned pointer l is a deep copy of what
   the Source handed out; FromSource stores peers and parent as passed *)
Theorem C19_clone_source_is_deep : forall s, source_wf s = true -> forall n, exists l s',
  clone_source s n = Some ((l, s'), S l) /\ deep (source_gv s) (source_gv s') n l.
Proof. exact clone_source_deep. Qed.
Print Assumptions C19_clone_source_is_deep.

Theorem C19_from_source_is_deep : forall s peers parent, source_wf s = true -> forall n, exists l s',
  from_source s peers parent n = Some ((l, s', peers, parent), S l) /\ deep (source_gv s) (source_gv s') n l.
Proof. exact from_source_deep. Qed.
Print Assumptions C19_from_source_is_deep.

(* ---------------------------------------------------------------- hence: the property for the typed clones.
   For every value on which the Go method does not dereference nil, in every heap (counter above the
   original's locations), the clone is equal, disjoint, and neither side observes the other's writes. *)
Theorem C19_state_clone : forall p, stateptr_wf p = true -> forall n, below (stateptr_gv p) n ->
  exists p' n', clone_stateptr p n = Some (p', n') /\ independent (stateptr_gv p) (stateptr_gv p') n'.
Proof. exact (typed_independent clone_stateptr stateptr_gv stateptr_wf clone_stateptr_deep). Qed.
Print Assumptions C19_state_clone.

Theorem C19_allocation_clone : forall a, alloc_wf a = true -> forall n, below (alloc_gv a) n ->
  exists a' n', clone_alloc a n = Some (a', n') /\ independent (alloc_gv a) (alloc_gv a') n'.
Proof. exact (typed_independent clone_alloc alloc_gv alloc_wf clone_alloc_deep). Qed.
Print Assumptions C19_allocation_clone.

Theorem C19_balances_clone : forall b, slice_all bals_wf b = true -> forall n, below (balances_gv b) n ->
  exists b' n', clone_balances b n = Some (b', n') /\ independent (balances_gv b) (balances_gv b') n'.
Proof. exact (typed_independent clone_balances balances_gv (slice_all bals_wf) clone_balances_deep). Qed.
Print Assumptions C19_balances_clone.

Theorem C19_transaction_clone : forall t, tx_wf t = true -> forall n, below (tx_gv t) n ->
  exists t' n', clone_tx t n = Some (t', n') /\ independent (tx_gv t) (tx_gv t') n'.
Proof. exact (typed_independent clone_tx tx_gv tx_wf clone_tx_deep). Qed.
Print Assumptions C19_transaction_clone.

Theorem C19_params_clone : forall p, params_wf p = true -> forall l0 n, below (paramsptr_gv (Some (l0, p))) n ->
  exists q n', clone_params p n = Some (q, n') /\
               independent (paramsptr_gv (Some (l0, p))) (paramsptr_gv (Some q)) n'.
Proof. exact params_clone_independent. Qed.
Print Assumptions C19_params_clone.

Theorem C19_machine_clone : forall m, machine_wf (sm_mach m) = true -> forall n, below (sm_gv m) n ->
  exists m' n', clone_sm m n = Some (m', n') /\ independent (sm_gv m) (sm_gv m') n'.
Proof. exact (typed_independent clone_sm sm_gv (fun m => machine_wf (sm_mach m)) clone_sm_deep). Qed.
Print Assumptions C19_machine_clone.

Theorem C19_action_machine_clone : forall m, am_wf m = true -> forall n, below (am_gv m) n ->
  exists m' n', clone_am m n = Some (m', n') /\ independent (am_gv m) (am_gv m') n'.
Proof. exact (typed_independent clone_am am_gv am_wf clone_am_deep). Qed.
Print Assumptions C19_action_machine_clone.

Theorem C19_persistence_snapshot : forall s, source_wf s = true -> forall n, below (source_gv s) n ->
  exists l s', clone_source s n = Some ((l, s'), S l) /\ independent (source_gv s) (source_gv s') l.
Proof. exact source_clone_independent. Qed.
Print Assumptions C19_persistence_snapshot.

Theorem C19_persistence_from_source : forall s peers parent, source_wf s = true -> forall n, below (source_gv s) n ->
  exists l s', from_source s peers parent n = Some ((l, s', peers, parent), S l) /\
               independent (source_gv s) (source_gv s') l.
Proof. exact from_source_independent. Qed.
Print Assumptions C19_persistence_from_source.

(* the Clone methods dereference nil big integers, nonces, app data, addresses (Go panics) *)
Theorem C19_nil_panics : forall n,
  clone_int None n = None /\ clone_data DNil n = None /\ clone_addr None n = None /\
  (forall p, pa_nonce p = None -> clone_params p n = None).
Proof.
  exact (fun n => conj (clone_int_nil n) (conj (clone_data_nil n) (conj (clone_addr_nil n)
                  (fun p H => clone_params_nil_nonce p n H)))).
Qed.
Print Assumptions C19_nil_panics.

(* ---------------------------------------------------------------- the hypotheses are satisfiable *)
(* a state with two assets, two participants, locked funds with and without an index map, app data *)
Definition ex_i (p : nat) (z : Z) : bal := Some (mkInt p (S p) z).
Definition ex_state : hstate :=
  mkState
    (mkAlloc (Some (1, [Some (2, [ex_i 3 5; ex_i 5 0]); Some (7, [ex_i 8 70; ex_i 10 30])]))
             (Some (12, [0%Z; 0%Z])) (Some (13, [Some 1; Some 2]))
             (Some (14, [mkSub [] (Some (15, [ex_i 16 1; ex_i 18 2])) (Some (20, [0%Z; 1%Z]));
                         mkSub [] (Some (21, [ex_i 22 3; ex_i 24 4])) None])))
    [] 7%Z (Some 3) (DMock 26 0%Z) 0%Z.
Definition ex_tx : htx := mkTx (Some (27, ex_state)) (Some (28, [Some (29, []); None])).

Example C19_nonvacuous_wf : tx_wf ex_tx = true /\ forallb (fun l => l <? 30) (locs (tx_gv ex_tx)) = true.
Proof. split; reflexivity. Qed.

(* its clone: the nil index map of the second sub-allocation became an empty one (NewSubAlloc), the nil
   signature stayed nil, and the checker accepts the pair *)
Example C19_nonvacuous_clone :
  exists t' n', clone_tx ex_tx 30 = Some (t', n') /\ deepb (tx_gv ex_tx) (tx_gv t') 30 = true /\
    sb_imap (nth 1 (elems (al_locked (st_alloc (snd (match tx_state t' with Some q => q | None => (0, ex_state) end))))) (mkSub [] None None))
      <> None /\
    nth 1 (elems (tx_sigs t')) (Some (0, [])) = None.
Proof. eexists _, _. split; [reflexivity|]. split; [reflexivity|]. split; [discriminate|reflexivity]. Qed.

(* a legal interleaving on a small balances value: the original's holder overwrites a word array in place,
   the clone's holder replaces a row by a fresh one; each side sees exactly its own write *)
Definition ex_v : gv := GSlice 1 [GSlice 2 [GPtr 3 (GInt 4 5); GPtr 5 (GInt 6 7)]].
Definition ex_ws : list wstep :=
  [(SideL, 4, GInt 4 99%Z, 13); (SideR, 8, GSlice 8 [GPtr 13 (GInt 14 1%Z)], 15)].

Example C19_nonvacuous_legal :
  below ex_v 7 /\ legal (snd (clone ex_v 7)) ex_v (fst (clone ex_v 7)) ex_ws /\
  run2 ex_v (fst (clone ex_v 7)) ex_ws =
    (GSlice 1 [GSlice 2 [GPtr 3 (GInt 4 99%Z); GPtr 5 (GInt 6 7%Z)]],
     GSlice 7 [GSlice 8 [GPtr 13 (GInt 14 1%Z)]]).
Proof.
  split; [|split; [|reflexivity]].
  - intros l H. cbn in H. lia.
  - cbn. repeat split; try lia; try tauto; intros x H;
      repeat (destruct H as [<-|H]; [(left; tauto) || (right; lia)|]); destruct H.
Qed.

(* and a shallow copy is rejected by the checker: sharing one row is visible *)
Example C19_shallow_copy_rejected :
  deepb ex_v (GSlice 7 [GSlice 2 [GPtr 3 (GInt 4 5); GPtr 5 (GInt 6 7)]]) 7 = false /\
  snd (run2 ex_v (GSlice 7 [GSlice 2 [GPtr 3 (GInt 4 5); GPtr 5 (GInt 6 7)]]) [(SideL, 4, GInt 4 99%Z, 13)])
    = GSlice 7 [GSlice 2 [GPtr 3 (GInt 4 99%Z); GPtr 5 (GInt 6 7%Z)]].
Proof. split; reflexivity. Qed.

(* ---------------------------------------------------------------- exact agreement with the generic clone
   (exactM f tg wf: on every value accepted by wf, f returns exactly the generic clone of the tree,
   location for location, and leaves the counter where the generic clone leaves it) *)
Theorem C19_clone_balances_is_generic_clone : exactM clone_balances balances_gv (slice_all bals_wf).
Proof. exact clone_balances_exact. Qed.
Print Assumptions C19_clone_balances_is_generic_clone.

Theorem C19_clone_sigs_is_generic_clone : exactM clone_sigs sigs_gv (slice_all (fun _ => true)).
Proof. exact clone_sigs_exact. Qed.
Print Assumptions C19_clone_sigs_is_generic_clone.
