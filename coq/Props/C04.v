(* C04 — Registering an outdated state never costs the honest party money.  Statement file.

   Model: Model/Settle.v. One participant h is honest: it enables states, its watcher reacts (SReact: it
   registers states of h's histories), its client registers / concludes / withdraws its newest tree. The peer is
   the adversary: besides funding it may, at ANY point of the run (between and during the honest participant's
   updates), Register ANY fully signed states h has agreed to — any version of the ledger channel with any
   versions of the sub-channels (SAdvRegister) —, conclude with arbitrary states, conclude-final with a final
   state of h's history, and withdraw its own share. [adversarial_run h es] says the run consists of these
   events only. Every run of a real honest client with the real watcher against a peer that registers an old
   state must be such a run (Run/Compare_C04.v).

   URGENCY ASSUMPTION, explicit: the clock tick STick is enabled only if [tick_ok] holds (C04_urgency below):
   when a tick closes (or has closed) the refutation window of a registered channel that matters to a
   participant — its ledger channel, or a sub-channel locked in its newest ledger state — the state registered
   for that channel is the participant's newest agreed state and the participant's machine has left the updating
   phases. "A pending reaction of the watcher or the client fires before the clock passes the challenge
   timeout." This is an assumption about scheduling; nothing in the proofs hides it. *)
From V Require Import Model.Settle Proofs.LedgerP Proofs.SettleP.
Open Scope N_scope.

Theorem C04_urgency : forall st st' r, sstep st STick = Some (st', r) ->
  forall i c n, i < 2 -> bfind (pt_nodes (get_party st i)) c = Some n -> relevant st i c = true ->
    window_closing (s_L st) c = true -> settled_business (s_L st) n = true.
Proof. exact tick_needs_urgency. Qed.
Print Assumptions C04_urgency.

(* In every run against the adversary: whenever the refutation window of a channel that matters to h is closed,
   the state registered for it is h's newest agreed state of that channel, and h agrees to no further state of
   it ("gets the newest state it has agreed to registered before the challenge period ends"). *)
Theorem C04_registered_in_time : forall rootp assets agree accts acc h es st,
  adversarial_run h es = true -> srun (sinit rootp assets agree accts acc) es = Some st ->
  forall c n d t, bfind (pt_nodes (get_party st h)) c = Some n -> relevant st h c = true ->
    bfind (l_disp (s_L st)) c = Some d -> d_timeout d <= l_clock (s_L st) -> newest n = Some t ->
    d_state d = t /\ (n_frozen n = true \/ st_final t = true).
Proof. exact refutation_in_time. Qed.
Print Assumptions C04_registered_in_time.

(* C04_refutation. In every run against the adversary: whatever the ledger channel is concluded on IS h's
   newest agreed state of the ledger channel (so its version is not below h's newest agreed version), h agrees
   to nothing newer afterwards, and for every sub-allocation locked in it the sub-channel is registered and
   concluded together with the parent on h's newest agreed state of that sub-channel. *)
Theorem C04_refutation : forall rootp assets agree accts acc h es st,
  adversarial_run h es = true -> srun (sinit rootp assets agree accts acc) es = Some st ->
  forall d, bfind (l_disp (s_L st)) (rootid st) = Some d -> d_phase d = DConcluded ->
  exists rn, bfind (pt_nodes (get_party st h)) (rootid st) = Some rn /\ newest rn = Some (d_state d)
    /\ (n_frozen rn = true \/ st_final (d_state d) = true)
    /\ forall l, In l (al_locked (st_alloc (d_state d))) ->
         exists n dl, bfind (pt_nodes (get_party st h)) (sa_id l) = Some n
           /\ bfind (l_disp (s_L st)) (sa_id l) = Some dl /\ d_phase dl = DConcluded
           /\ newest n = Some (d_state dl) /\ (n_frozen n = true \/ st_final (d_state dl) = true).
Proof. exact concluded_is_newest. Qed.
Print Assumptions C04_refutation.

(* C04_payout. In every run against the adversary in which the channel got funded and h's own Settle went
   through: the channel is concluded on h's newest tree, and h's ledger balance is what it was before opening,
   minus exactly its column of the funding agreement, plus exactly its column of the outcome of its newest tree
   — its balance in its newest agreed state (plus its balances in the newest states of the locked
   sub-channels); in particular not less. *)
Theorem C04_payout : forall rootp assets agree accts acc0 h es st,
  static_ok (sinit rootp assets agree accts acc0) ->
  adversarial_run h es = true -> srun (sinit rootp assets agree accts acc0) es = Some st ->
  funded st = true -> pt_wd (get_party st h) = true ->
  exists tr out d,
    newest_tree st h = Some tr /\ tree_outcome tr = ROk out
    /\ bfind (l_disp (s_L st)) (rootid st) = Some d /\ d_phase d = DConcluded /\ d_state d = fst tr
    /\ forall x, acc_get (l_acc (s_L st)) (acct st (pidx h), x)
                 = (acc_get acc0 (acct st (pidx h), x) - dcol st (pidx h) x + ocol st out (pidx h) x)%Z.
Proof. exact honest_payout. Qed.
Print Assumptions C04_payout.
Theorem C04_outcome_is_balance : forall tr out,
  tree_outcome tr = ROk out -> al_locked (st_alloc (fst tr)) = [] -> out = al_bals (st_alloc (fst tr)).
Proof. exact tree_outcome_nolock. Qed.
Print Assumptions C04_outcome_is_balance.

(* the ledger rule behind the refutation, and conservation for the adversarial runs as well *)
Theorem C04_ledger_refute : forall now D p t d,
  bfind D (st_id (tx_st t)) = Some d -> d_state d <> tx_st t ->
  let s := tx_st t in
  (forall D' evs, register_single now D p t = ROk (D', evs) ->
     st_ver (d_state d) < st_ver s /\ d_phase d = DDispute /\ now < d_timeout d /\ tx_signed p t = true
     /\ bfind D' (st_id s) = Some (mkDisp p s (if st_final s then now else d_timeout d) DDispute))
  /\ (state_ok p s = true -> st_ver (d_state d) < st_ver s -> d_phase d = DDispute -> now < d_timeout d ->
      tx_signed p t = true -> exists D' evs, register_single now D p t = ROk (D', evs))
  /\ (st_ver s <= st_ver (d_state d) -> exists e, register_single now D p t = RErr e).
Proof. exact LedgerP.L_refute. Qed.
Print Assumptions C04_ledger_refute.
Theorem C04_conservation : forall a es st st', srun st es = Some st' -> ledger_total a (s_L st') = ledger_total a (s_L st).
Proof. exact run_total. Qed.
Print Assumptions C04_conservation.

(* ---------------- non-vacuity ---------------- *)
Definition xid : bytes := [Byte.x01].
Definition sid : bytes := [Byte.x02].
Definition exroot : lparams := mkLP xid [1; 2] 3 None true.
Definition exsub : lparams := mkLP sid [1; 2] 2 None false.
Definition exst (id : bytes) (v : N) (b : list (list Z)) (lk : list suballoc) (fin : bool) : state :=
  mkState id v (mkAlloc [0] [5] b lk) None [] fin.
Definition v0 := exst xid 0 [[10; 10]%Z] [] false.
Definition v1 := exst xid 1 [[4; 16]%Z] [] false.
Definition u0 := exst sid 0 [[1; 2]%Z] [] false.
Definition u1 := exst sid 1 [[3; 0]%Z] [] false.
Definition v2 := exst xid 2 [[3; 14]%Z] [mkSA sid [3%Z] []] false.
Definition exacc : accounts := [((1, 5), 50%Z); ((2, 5), 50%Z)].
Definition exinit := sinit exroot [5] [[10; 10]%Z] [1; 2] exacc.
(* h = 0 agrees to v1, opens a sub-channel (v2 locks it) and agrees to u1 in it. The adversary registers the
   outdated v1. The watcher first registers v2 with the outdated sub-channel state u0, then the newest tree;
   the clock runs out; h concludes and withdraws its 3 + 3 = 6. Registering v1 again after the refutation, or
   after the timeout, is refused by the ledger (the steps are enabled, the ledger answers with an error). *)
Definition exrun : list sevent :=
  [SOpen 0 exroot v0; SFund 0; SFund 1; SEnable 0 v1; SOpen 0 exsub u0; SEnable 0 v2; SEnable 0 u1;
   SAdvRegister 0 (signed exroot v1) []; SReact 0 v2 [(exsub, u0)]; SFreeze 0 xid; SFreeze 0 sid;
   SReact 0 v2 [(exsub, u1)]; SAdvRegister 0 (signed exroot v1) []; STick; STick; STick;
   SAdvRegister 0 (signed exroot v0) []; SConclude 0; SWithdraw 0; SAdvWithdraw 0].
Example C04_nonvacuous :
  static_ok exinit /\
  exists st, srun exinit exrun = Some st /\ adversarial_run 0 exrun = true /\ funded st = true
    /\ pt_wd (get_party st 0) = true
    /\ is_concluded (l_disp (s_L st)) xid = true
    /\ option_map (fun d => st_ver (d_state d)) (bfind (l_disp (s_L st)) xid) = Some 2
    /\ option_map (fun d => st_ver (d_state d)) (bfind (l_disp (s_L st)) sid) = Some 1
    /\ newest_tree st 0 = Some (v2, [(exsub, u1)])
    /\ acc_get (l_acc (s_L st)) (1, 5) = 46%Z        (* 50 - 10 + (3 + 3) *)
    /\ acc_get (l_acc (s_L st)) (2, 5) = 54%Z.
Proof.
  split.
  - constructor; cbn; try reflexivity; try discriminate. repeat constructor.
  - eexists. split; [vm_compute; reflexivity|]. vm_compute. repeat split; reflexivity.
Qed.
(* the urgency guard does block: with the outdated v1 registered and nothing else done, the third tick (which
   would close the window, timeout 3) is not enabled *)
Example C04_urgency_blocks :
  srun exinit [SOpen 0 exroot v0; SFund 0; SFund 1; SEnable 0 v1; SOpen 0 exsub u0; SEnable 0 v2;
               SAdvRegister 0 (signed exroot v1) []; STick; STick] <> None
  /\ srun exinit [SOpen 0 exroot v0; SFund 0; SFund 1; SEnable 0 v1; SOpen 0 exsub u0; SEnable 0 v2;
                  SAdvRegister 0 (signed exroot v1) []; STick; STick; STick] = None.
Proof. split; [vm_compute; discriminate|vm_compute; reflexivity]. Qed.
