(* C18 — The message relay hands every envelope over exactly once.
   Statement file: every theorem is closed by `exact` of a lemma proved in Proofs/RelayP.v.

   Model: Model/Relay.v. A trace is any list of atomic actions (Put, Subscribe, Cache, ReleaseCache,
   consumer close, the delete goroutine, single deliveries of the hand-over goroutine, the two halves of
   Relay.Close); [run init tr] is the state after the trace. The theorems quantify over ALL traces, i.e.
   over every interleaving of the relay's critical sections. The envelope under consideration is put once
   ([fresh]: envelopes carry unique ids).

   Counting: [cntp (c, e) (dlog s)] = how often consumer c's Put was called with e;
   [inC/inF/inD/inH/inX e s] = occurrences of e in the cache / in flight to a new subscriber / in all
   consumers' logs / in the default handler's log / among the envelopes dropped by Close. *)
From Coq Require Import List Bool Arith PeanoNat.
From V Require Import Model.Relay Proofs.RelayP.
Import ListNotations.

(* 1. Fan-out: an envelope put into the open relay while consumers are subscribed with a matching
   predicate is handed exactly once to each of them and to nobody else; it is neither cached nor given to
   the default handler — whatever happens before and afterwards. *)
Theorem C18_fanout_exactly_once : forall tr1 e tr2,
  fresh e tr1 -> fresh e tr2 ->
  let s1 := run init tr1 in
  let s2 := run init (tr1 ++ APut e :: tr2) in
  closed s1 = false -> matching s1 e <> [] ->
  (forall c, cntp (c, e) (dlog s2) = if memn c (matching s1 e) then 1 else 0) /\
  inC e s2 = 0 /\ inF e s2 = 0 /\ inH e s2 = 0 /\ inX e s2 = 0.
Proof. exact put_fanout. Qed.
Print Assumptions C18_fanout_exactly_once.

(* 2. Cache: with no matching subscriber but a matching cache predicate the envelope never reaches the
   default handler and is, at every later moment, in exactly one of three places:
   - in the cache (once), and every subscription since the put had a rejecting predicate;
   - taken by the FIRST later subscription whose predicate matches (all subscriptions in between reject
     it): in flight to or handed to that consumer, once in total, and to no other consumer;
   - dropped by Relay.Close (which flushes the cache and reports the number as an error).
   Releasing the cache predicate does not drop it. *)
Theorem C18_cached_exactly_once : forall tr1 e tr2,
  fresh e tr1 -> fresh e tr2 ->
  let s1 := run init tr1 in
  let s2 := run init (tr1 ++ APut e :: tr2) in
  closed s1 = false -> matching s1 e = [] -> cache_matches s1 e = true ->
  inH e s2 = 0 /\
  ( (inC e s2 = 1 /\ inF e s2 = 0 /\ inD e s2 = 0 /\ inX e s2 = 0 /\
     exists mid, shist s2 = shist s1 ++ mid /\ rejects e mid)
    \/
    (exists mid c p rest, shist s2 = shist s1 ++ mid ++ (c, p) :: rest /\ rejects e mid /\ p e = true /\
       inC e s2 = 0 /\ inX e s2 = 0 /\
       forall c', cntp (c', e) (inflight s2) + cntp (c', e) (dlog s2) = if Nat.eqb c' c then 1 else 0)
    \/
    (inX e s2 = 1 /\ inC e s2 = 0 /\ inF e s2 = 0 /\ inD e s2 = 0) ).
Proof. exact put_cached. Qed.
Print Assumptions C18_cached_exactly_once.

(* 3. Default handler: neither a subscriber nor a cache predicate matches: exactly once to the default
   handler, to no consumer, not cached. *)
Theorem C18_default_exactly_once : forall tr1 e tr2,
  fresh e tr1 -> fresh e tr2 ->
  let s1 := run init tr1 in
  let s2 := run init (tr1 ++ APut e :: tr2) in
  closed s1 = false -> matching s1 e = [] -> cache_matches s1 e = false ->
  inH e s2 = 1 /\ inC e s2 = 0 /\ inF e s2 = 0 /\ inX e s2 = 0 /\ (forall c, cntp (c, e) (dlog s2) = 0).
Proof. exact put_default. Qed.
Print Assumptions C18_default_exactly_once.

(* (a put into a closed relay is dropped: the property is about the open relay only) *)
Theorem C18_closed_relay_drops : forall tr1 e tr2,
  fresh e tr1 -> fresh e tr2 ->
  let s1 := run init tr1 in
  let s2 := run init (tr1 ++ APut e :: tr2) in
  closed s1 = true -> nowhere e s2.
Proof. exact put_closed. Qed.
Print Assumptions C18_closed_relay_drops.

(* 4. No envelope reaches (or is in flight to) a consumer whose predicate rejects it; only consumers that
   subscribed successfully are handed anything, and only what their (single) predicate accepts. *)
Theorem C18_never_to_rejecting_consumer : forall tr c p e,
  let s := run init tr in
  In (c, p) (shist s) -> p e = false -> ~ In (c, e) (dlog s) /\ ~ In (c, e) (inflight s).
Proof. exact never_rejecting. Qed.
Print Assumptions C18_never_to_rejecting_consumer.

Theorem C18_only_to_subscribers : forall tr c e,
  let s := run init tr in In (c, e) (dlog s) -> exists p, In (c, p) (shist s) /\ p e = true.
Proof. exact only_subscribers. Qed.
Print Assumptions C18_only_to_subscribers.

(* 5. No duplicates: in every trace that puts each envelope at most once, no consumer is handed an
   envelope twice, the default handler sees it at most once, and never in addition to a consumer. *)
Theorem C18_no_duplicates : forall tr e, NoDup (puts tr) ->
  let s := run init tr in
  (forall c, cntp (c, e) (dlog s) <= 1) /\ inH e s <= 1 /\
  (inH e s = 1 -> forall c, cntp (c, e) (dlog s) = 0).
Proof. exact at_most_once. Qed.
Print Assumptions C18_no_duplicates.

(* 6. The goroutine started by a consumer's OnClose callback never reaches
   log.Panic("deleted consumer that was not subscribed"), in any trace. *)
Theorem C18_delete_never_panics : forall tr c, snd (step (run init tr) (ADelete c)) <> OPanic.
Proof. exact delete_no_panic. Qed.
Print Assumptions C18_delete_never_panics.

(* 7. The finer model (Put's cache append split into read and write, as the RWMutex read lock permits).
   Without the cache mutex — the code before commit "fix: Relay.Put serializes cache appends of
   concurrent puts" — two producers lose an envelope that was put into the open relay with a matching
   cache predicate: it is nowhere. With the mutex the same schedule keeps both. *)
Theorem C18_finer_refuted :
  let f := frun false finit lost_update_schedule in
  threads f = [] /\ closed (base f) = false /\ cache (base f) = [(4, 2)] /\ nowhere (4, 1) (base f).
Proof. exact finer_refuted. Qed.
Print Assumptions C18_finer_refuted.

Theorem C18_finer_repaired_keeps_both :
  let f := frun true finit lost_update_schedule in
  threads f = [] /\ cache (base f) = [(4, 1); (4, 2)].
Proof. exact finer_mutex_keeps_both. Qed.
Print Assumptions C18_finer_repaired_keeps_both.

(* 8. The repaired code at the finer granularity, for ALL schedules of the finer model with the cache
   mutex (any number of concurrent producers between their read-lock acquisition, slice read and slice
   write; writers excluded while a Put holds the read lock; relay Close flag, consumer closes and
   hand-over deliveries interleaved freely): an envelope whose Put found the relay open, no matching
   subscriber and a matching cache predicate is either still being put (its Put has not returned and the
   envelope is nowhere yet) or has exactly the outcome of theorem 2. Nothing is lost. *)
Theorem C18_finer_repaired_exactly_once : forall tr1 t e tr2,
  no_begin e tr1 -> no_begin e tr2 ->
  let f1 := frun true finit tr1 in
  let f2 := frun true f1 (FBegin t e :: tr2) in
  find_thread t (threads f1) = None ->
  closed (base f1) = false -> matching (base f1) e = [] -> cache_matches (base f1) e = true ->
  ((exists ph, In (t, e, ph) (threads f2)) /\ nowhere e (base f2)) \/
  cached_outcome e (shist (base f1)) (base f2).
Proof. exact finer_mutex_cached. Qed.
Print Assumptions C18_finer_repaired_exactly_once.

(* ---- the hypotheses are satisfiable by non-trivial concrete traces (6 consumers, overlapping
   predicates, a cache predicate, consumer close + delete, relay close) ---- *)
Example C18_fanout_nonvacuous :
  fresh (2, 7) ex_tr1 /\ fresh (2, 7) ex_tr2 /\ closed (run init ex_tr1) = false /\
  matching (run init ex_tr1) (2, 7) = [0; 1] /\
  dlog (run init (ex_tr1 ++ APut (2, 7) :: ex_tr2)) =
    [(0, (2, 7)); (1, (2, 7)); (0, (1, 101)); (0, (2, 102)); (1, (2, 102)); (1, (2, 103)); (4, (4, 100))].
Proof. exact ex_fanout. Qed.

Example C18_cached_nonvacuous_flushed :
  fresh (5, 7) ex_tr1 /\ fresh (5, 7) ex_tr2 /\ closed (run init ex_tr1) = false /\
  matching (run init ex_tr1) (5, 7) = [] /\ cache_matches (run init ex_tr1) (5, 7) = true /\
  flushed (run init (ex_tr1 ++ APut (5, 7) :: ex_tr2)) = [(5, 7)].
Proof. exact ex_cached. Qed.

Example C18_cached_nonvacuous_handed :
  let tr1 := firstn 3 ex_tr1 in let tr2 := skipn 4 ex_tr1 ++ ex_tr2 in
  fresh (4, 100) tr1 /\ fresh (4, 100) tr2 /\ closed (run init tr1) = false /\
  matching (run init tr1) (4, 100) = [] /\ cache_matches (run init tr1) (4, 100) = true /\
  map fst (shist (run init (tr1 ++ APut (4, 100) :: tr2))) = [0; 1; 2; 3; 4; 5] /\
  filter (fun x => env_eqb (snd x) (4, 100)) (dlog (run init (tr1 ++ APut (4, 100) :: tr2))) = [(4, (4, 100))].
Proof. exact ex_cached_handed. Qed.

Example C18_default_nonvacuous :
  fresh (0, 7) ex_tr1 /\ fresh (0, 7) ex_tr2 /\ closed (run init ex_tr1) = false /\
  matching (run init ex_tr1) (0, 7) = [] /\ cache_matches (run init ex_tr1) (0, 7) = false /\
  hlog (run init (ex_tr1 ++ APut (0, 7) :: ex_tr2)) = [(0, 7); (5, 104)].
Proof. exact ex_default. Qed.

Example C18_no_duplicates_nonvacuous :
  NoDup (puts (ex_tr1 ++ APut (2, 7) :: ex_tr2)) /\ length (puts (ex_tr1 ++ APut (2, 7) :: ex_tr2)) = 6.
Proof. exact ex_nodup_puts. Qed.

Example C18_rejecting_nonvacuous :
  In (0, tagset [1; 2]) (shist (run init ex_tr1)) /\ tagset [1; 2] (4, 100) = false.
Proof. exact ex_never_rejecting. Qed.

Example C18_delete_nonvacuous :
  snd (step (run init (firstn 6 ex_tr1)) (ADelete 2)) = OD /\
  length (subs (run init (firstn 6 ex_tr1))) = 3 /\ length (subs (run init ex_tr1)) = 2.
Proof. exact ex_delete_enabled. Qed.

Example C18_finer_repaired_nonvacuous :
  let tr1 := [FWriter (ACache 0 (tagset [4])); FBegin 1 (4, 1); FRead 1] in
  let tr2 := [FBegin 3 (4, 3); FRead 2; FWrite 1; FRead 2; FWriter (ASubscribe 0 (tagset [4])); FWrite 2;
              FRead 3; FWrite 3; FWriter (ASubscribe 0 (tagset [4]));
              FWriter (ADeliver 0); FWriter (ADeliver 0); FWriter (ADeliver 0)] in
  no_begin (4, 2) tr1 /\ no_begin (4, 2) tr2 /\
  find_thread 2 (threads (frun true finit tr1)) = None /\ closed (base (frun true finit tr1)) = false /\
  matching (base (frun true finit tr1)) (4, 2) = [] /\ cache_matches (base (frun true finit tr1)) (4, 2) = true /\
  dlog (base (frun true finit (tr1 ++ FBegin 2 (4, 2) :: tr2))) = [(0, (4, 1)); (0, (4, 2)); (0, (4, 3))] /\
  threads (frun true finit (tr1 ++ FBegin 2 (4, 2) :: tr2)) = [].
Proof. exact ex_finer_mutex. Qed.
