(* C11 — The persistent store always describes exactly the live channels.
   Model: Model/Persist.v.  Statement file.  W = the live channels after the history (sorted by
   channel id), s = the store after the history. *)
From V Require Import Model.Persist Proofs.PersistP.

(* the key set of the store is exactly the union over the live channels of their channel-table keys
   (current, index, params, parent, peers, phase, one signature key per participant, staging:state)
   and their peer-table keys (one per listed peer); no key occurs twice *)
Theorem C11_keys_exact : forall h, forallb wop_ok h = true ->
  let W := fst (wrun h) in let s := snd (wrun h) in
  NoDup (map fst s) /\
  forall k, In k (map fst s) <-> exists id c, wfind id W = Some c /\ In k (chan_keys id c).
Proof. exact C11_keys_exact_l. Qed.
Print Assumptions C11_keys_exact.
Theorem C11_keys_of_a_channel : forall id c k, In k (chan_keys id c) <->
  match k with
  | KChan id' f => id' = id /\ field_spec c f <> None
  | KPeer p id' => id' = id /\ In p (c_peers c)
  end.
Proof. exact in_chan_keys. Qed.
Print Assumptions C11_keys_of_a_channel.

(* iterating all channels yields exactly the live channels (in id order), each with its own snapshot,
   and the iteration ends without error *)
Theorem C11_restore_all : forall h, forallb wop_ok h = true ->
  let W := fst (wrun h) in let s := snd (wrun h) in
  sorted bytes_cmp W /\ restore_all s = (map (fun ic => snap_of (snd ic)) W, EOk).
Proof. exact C11_restore_all_l. Qed.
Print Assumptions C11_restore_all.

(* restoring by peer yields exactly the live channels that list this peer *)
Theorem C11_restore_peer : forall h, forallb wop_ok h = true ->
  let W := fst (wrun h) in let s := snd (wrun h) in
  forall p, restore_peer s p =
            (map (fun ic => snap_of (snd ic)) (filter (fun ic => bytes_mem p (c_peers (snd ic))) W), EOk).
Proof. exact C11_restore_peer_l. Qed.
Print Assumptions C11_restore_peer.

(* the active peers are exactly the peers of live channels, each once *)
Theorem C11_active_peers : forall h, forallb wop_ok h = true ->
  let W := fst (wrun h) in let s := snd (wrun h) in
  NoDup (active_peers s) /\
  forall p, In p (active_peers s) <-> exists id c, wfind id W = Some c /\ In p (c_peers c).
Proof. exact C11_active_peers_l. Qed.
Print Assumptions C11_active_peers.

(* each live channel is restored with its own data, anything else is "not found" *)
Theorem C11_restore_channel : forall h, forallb wop_ok h = true ->
  forall id, restore_chan (snd (wrun h)) id = view (fst (wrun h)) id.
Proof. exact C11_restore_chan_l. Qed.
Print Assumptions C11_restore_channel.

(* a removed channel can no longer be restored and leaves no key behind *)
Theorem C11_restore_removed_fails : forall h id, forallb wop_ok h = true ->
  let W := fst (wrun h) in let s := snd (wrun h) in
  forall W' ws, wstep W s (WOp id OSetWithdrawn) = (W', OK, ws) ->
  restore_chan (apply_atomics s ws) id = RNotFound /\
  forall k, In k (map fst (apply_atomics s ws)) -> key_chan k <> id.
Proof. exact C11_restore_removed_fails_l. Qed.
Print Assumptions C11_restore_removed_fails.

(* operations on one channel never change what is restored for another — not even half way through;
   a restart (wop_id = None) changes nothing for any channel *)
Theorem C11_frame : forall h o, forallb wop_ok h = true -> wop_ok o = true ->
  let W := fst (wrun h) in let s := snd (wrun h) in
  forall W' x ws, wstep W s o = (W', x, ws) ->
  forall b, wop_id o <> Some b -> forall k, (k <= length ws)%nat ->
    restore_chan (apply_atomics s (firstn k ws)) b = restore_chan s b.
Proof. exact C11_frame_l. Qed.
Print Assumptions C11_frame.

(* histories may contain restarts (WRestart): the registry is then rebuilt from the store alone, and it
   is the same registry, so all views above hold after any number of restarts *)
Theorem C11_restart_keeps_registry : forall h, forallb wop_ok h = true ->
  wstep (fst (wrun h)) (snd (wrun h)) WRestart = (fst (wrun h), OK, []).
Proof. exact C10_restart_l. Qed.
Print Assumptions C11_restart_keeps_registry.

(* ---------- non-vacuity: three channels over three peers, one with a parent, one removed ---------- *)
Definition yid (b : Byte.byte) : bytes := repeat b 32.
Definition yP (b : Byte.byte) : mparams := mkMP (yid b) [1; 2] None None.
Definition yA : alloc := mkAlloc [0] [5] [[60; 40]%Z] [].
Definition yS (b : Byte.byte) : state := mkState (yid b) 0 yA None [] false.
Definition ypeer (b : Byte.byte) : bytes := repeat b 42.
Definition yopen (b : Byte.byte) : list wop :=
  [ WOp (yid b) (OInit yA []); WOp (yid b) OSig; WOp (yid b) (OAddSig 1 (SigOf 2 (enc_state (yS b))));
    WOp (yid b) OEnableInit; WOp (yid b) OSetFunded ].
Definition yH : list wop :=
  [ WCreate (yP Byte.x09) 0 [ypeer Byte.x01; ypeer Byte.x02] None;
    WCreate (yP Byte.x03) 0 [ypeer Byte.x02; ypeer Byte.x05] (Some (yid Byte.x09)) ]
  ++ yopen Byte.x03 ++
  [ WCreate (yP Byte.x06) 0 [ypeer Byte.x05] None ]
  ++ yopen Byte.x09 ++
  [ WRestart; WOp (yid Byte.x03) OSetRegistered; WRestart; WOp (yid Byte.x03) OSetWithdrawing ].
Definition yRemove : wop := WOp (yid Byte.x03) OSetWithdrawn.

Example C11_nonvacuous :
  forallb wop_ok yH = true /\
  let W := fst (wrun yH) in let s := snd (wrun yH) in
  map fst W = [yid Byte.x03; yid Byte.x06; yid Byte.x09] /\ length s = 32%nat /\
  length (fst (restore_all s)) = 3%nat /\
  length (fst (restore_peer s (ypeer Byte.x02))) = 2%nat /\
  active_peers s = [ypeer Byte.x01; ypeer Byte.x02; ypeer Byte.x05] /\
  match wstep W s yRemove with
  | (W', x, ws) =>
      x = OK /\ length ws = 2%nat /\
      let s' := apply_atomics s ws in
      map fst W' = [yid Byte.x06; yid Byte.x09] /\ length s' = 21%nat /\
      restore_chan s' (yid Byte.x03) = RNotFound /\
      length (fst (restore_all s')) = 2%nat /\ snd (restore_all s') = EOk /\
      length (fst (restore_peer s' (ypeer Byte.x02))) = 1%nat /\
      active_peers s' = [ypeer Byte.x01; ypeer Byte.x02; ypeer Byte.x05] /\
      (* half way: channel keys gone, peer entries still there; the other channels are untouched *)
      restore_chan (apply_atomics s (firstn 1 ws)) (yid Byte.x09) = restore_chan s (yid Byte.x09) /\
      restore_chan s (yid Byte.x09) <> RNotFound
  end.
Proof. vm_compute. repeat split; try reflexivity. discriminate. Qed.
