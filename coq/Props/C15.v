(* C15 — Values are equal exactly when their encodings are; a signature binds one state.
   Statement file: every theorem is closed by `exact` of a lemma proved in Proofs/. *)
From V Require Import Model.Channel Model.Sig Proofs.ChannelP Proofs.C15P Proofs.NormalP.

(* For well-formed values (the envelope inside which go-perun encodes at all: validated allocation,
   non-negative balances of at most 128 bytes, 32-byte ids, uint16 index maps, known backend),
   the Go Equal functions (as modelled and checked op-by-op against the code) hold exactly when
   the native encodings are byte-identical. *)
Theorem C15_state_equal_iff_enc : forall rs a b,
  state_wf_rs rs a = true -> state_wf_rs rs b = true ->
  (state_equal a b = true <-> enc_state a = enc_state b).
Proof. exact state_equal_iff_enc. Qed.
Print Assumptions C15_state_equal_iff_enc.

Theorem C15_alloc_equal_iff_enc : forall a b,
  alloc_wf a = true -> alloc_wf b = true -> (alloc_equal a b = true <-> enc_alloc a = enc_alloc b).
Proof. exact alloc_equal_iff_enc. Qed.
Print Assumptions C15_alloc_equal_iff_enc.

Theorem C15_suballoc_equal_iff_enc : forall a b,
  suballoc_wf a = true -> suballoc_wf b = true ->
  (suballoc_equal a b = true <-> enc_suballoc a = enc_suballoc b).
Proof. exact suballoc_equal_iff_enc. Qed.
Print Assumptions C15_suballoc_equal_iff_enc.

Theorem C15_balances_equal_iff_enc : forall a b,
  balances_wf a = true -> balances_wf b = true ->
  (balances_equal a b = true <-> enc_balances a = enc_balances b).
Proof. exact balances_equal_iff_enc. Qed.
Print Assumptions C15_balances_equal_iff_enc.

(* no transmitted field is ignored by comparison: Equal decides equality of all fields *)
Theorem C15_state_equal_all_fields : forall s t, state_equal s t = true <-> s = t.
Proof. exact state_equal_eq. Qed.
Print Assumptions C15_state_equal_all_fields.

(* Over any signature scheme with the two ideal laws: participant i's signature on s verifies for
   s' under participant j's address exactly when j's address is i's and the states are Equal. *)
Theorem C15_sig_binds_state : forall (S : sigscheme) rs (i j : skey S) (s s' : state),
  state_wf_rs rs s = true -> state_wf_rs rs s' = true ->
  (verify_state S (spub S j) s' (sign_state S i s) = true <->
   spub S j = spub S i /\ state_equal s' s = true).
Proof. exact sig_binds_state. Qed.
Print Assumptions C15_sig_binds_state.

(* for states that came off the wire no well-formedness hypothesis is needed: whatever the decoder
   accepted (from ANY bytes) is well-formed (Proofs/NormalP.v), so two received states are Equal exactly
   when their encodings - what gets signed - are identical, and a signature on one verifies for the
   other exactly when they are Equal *)
Theorem C15_received_states_equal_iff_enc : forall rs bs1 bs2 a b r1 r2,
  run_flat (dec_state rs) bs1 = Ok (a, r1) -> run_flat (dec_state rs) bs2 = Ok (b, r2) ->
  (state_equal a b = true <-> enc_state a = enc_state b).
Proof.
  intros rs bs1 bs2 a b r1 r2 Ha Hb.
  exact (state_equal_iff_enc rs a b (proj1 (dec_state_normal rs bs1 a r1 Ha)) (proj1 (dec_state_normal rs bs2 b r2 Hb))).
Qed.
Print Assumptions C15_received_states_equal_iff_enc.
Theorem C15_sig_binds_received_state : forall (S : sigscheme) rs (i j : skey S) bs1 bs2 s s' r1 r2,
  run_flat (dec_state rs) bs1 = Ok (s, r1) -> run_flat (dec_state rs) bs2 = Ok (s', r2) ->
  (verify_state S (spub S j) s' (sign_state S i s) = true <->
   spub S j = spub S i /\ state_equal s' s = true).
Proof.
  intros S rs i j bs1 bs2 s s' r1 r2 Hs Hs'.
  exact (sig_binds_state S rs i j s s' (proj1 (dec_state_normal rs bs1 s r1 Hs)) (proj1 (dec_state_normal rs bs2 s' r2 Hs'))).
Qed.
Print Assumptions C15_sig_binds_received_state.

(* the hypotheses are met by a concrete state with locked funds and an index map *)
Example C15_nonvacuous : state_wf_rs ex_rs ex_state = true.
Proof. exact ex_state_wf. Qed.
