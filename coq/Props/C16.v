(* C16 — Message framing does not depend on how the transport chunks the bytes.  Statement file. *)
From V Require Import Model.Msgs Proofs.WireP Proofs.SafeP Proofs.CodecP Proofs.StreamP.

(* general theorem: a decoder all of whose multi-byte reads are full reads (single reads ask for at most
   one byte) gives the same result on every partition of the byte stream into non-empty chunks (stream
   stays open: running out of chunks = waiting for more = no result), and the chunks left over
   concatenate to the bytes left over *)
Theorem C16_chunking_invariant : forall A (p : prog A), full_only p ->
  forall cs, Forall nonempty cs -> flatten_res (run_chunked p cs) = run_flat p (concat cs).
Proof. exact @chunk_invariant. Qed.
Print Assumptions C16_chunking_invariant.

(* the native envelope decoder is such a decoder ... *)
Theorem C16_native_envelope_full_reads : forall rs, full_only (dec_envelope rs).
Proof. exact fo_dec_envelope. Qed.
Print Assumptions C16_native_envelope_full_reads.

(* ... so a well-formed envelope is decoded to the same envelope however its bytes (followed by any
   further bytes) are split into chunks - all at once, one byte at a time, at arbitrary positions *)
Theorem C16_native_envelope_any_chunking : forall rs e rest cs,
  envelope_wf rs e = true -> Forall nonempty cs -> concat cs = enc_envelope e ++ rest ->
  flatten_res (run_chunked (dec_envelope rs) cs) = Ok (e, rest).
Proof.
  intros rs e rest cs We Hne Hc.
  rewrite (chunk_invariant (dec_envelope rs) (fo_dec_envelope rs) cs Hne), Hc.
  apply dec_envelope_rt. exact We.
Qed.
Print Assumptions C16_native_envelope_any_chunking.

(* consecutive envelopes on one stream are all decoded, in order, under EVERY chunking of the stream *)
Theorem C16_native_stream_any_chunking : forall rs es, forallb (envelope_wf rs) es = true ->
  forall cs, Forall nonempty cs -> concat cs = cat enc_envelope es ->
  dec_chunks_all (dec_envelope rs) (S (length es)) cs = Some es.
Proof. exact native_stream_any_chunking. Qed.
Print Assumptions C16_native_stream_any_chunking.

Example C16_nonvacuous :
  let bs := enc_envelope (mkEnv [(0%Z, repeat Byte.x0a 32)] [(0%Z, repeat Byte.x0b 32)] (MPing 5)) in
  flatten_res (run_chunked (dec_envelope (fun _ => None)) (map (fun b => [b]) bs))
  = run_flat (dec_envelope (fun _ => None)) bs.
Proof. vm_compute. reflexivity. Qed.
