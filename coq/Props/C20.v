(* C20 — Multi-ledger calls reach exactly the ledgers whose assets are in the channel.
   Statement file: every theorem is closed by `exact` of a lemma proved in Proofs/MultiP.v.

   Vocabulary (Model/Multi.v):
     ledger_ids a            assets.LedgerIDs: the distinct ledger keys (backend id, ledger id) of a
     adj_run m reg v ids sched    the state and event trace of Adjudicator.Register/Progress/Withdraw
                             (method m) on the registry reg under the schedule sched, an ARBITRARY
                             interleaving of the goroutines' atomic actions; v h = the sub-call on the
                             registered adjudicator h succeeds
     fund_run reg v e ne sched    the same for Funder.Fund; e / ne = egoistic / other ledgers
     count_start k tr        number of sub-calls begun on the handler registered for ledger k
     d_complete / f_complete every goroutine has finished and the method has returned
   All theorems quantify over all asset lists, registries, verdicts v and schedules. *)
From Coq Require Import Permutation.
From V Require Import Model.Multi Proofs.MultiP.

(* --- ledger ids: no duplicates, the same set as the assets' ledgers, first-occurrence order --- *)
Theorem C20_ledger_ids : forall a ids,
  ledger_ids a = Ok ids ->
  NoDup ids /\
  (forall k, In k ids <-> In (AMulti k) a) /\
  (forall k1 k2, In k1 ids -> In k2 ids ->
     (first_index k1 ids < first_index k2 ids <-> first_index k1 (asset_keys a) < first_index k2 (asset_keys a))).
Proof. exact ledger_ids_spec. Qed.
Print Assumptions C20_ledger_ids.

(* LedgerIDs succeeds exactly on lists of multi-ledger assets; a non-multi asset is an error *)
Theorem C20_ledger_ids_defined : forall a,
  (exists ids, ledger_ids a = Ok ids) <-> forallb is_multi a = true.
Proof. exact ledger_ids_ok_iff. Qed.
Print Assumptions C20_ledger_ids_defined.

Theorem C20_ledger_ids_wrong_asset : forall a, In APlain a -> ~ In ANilId a -> ledger_ids a = Err.
Proof. exact ledger_ids_err. Qed.
Print Assumptions C20_ledger_ids_wrong_asset.

(* --- Register / Progress / Withdraw --- *)

(* At every moment of every interleaving: at most one sub-call per ledger, only on registered ledgers
   of the asset list, with the requested method on the registered handler.  Once everything has
   finished: exactly one sub-call (begun and returned) per distinct registered ledger among the
   assets, none else — also when another ledger of the list is not registered or fails. *)
Theorem C20_calls_exact : forall m reg v a ids sched s tr,
  ledger_ids a = Ok ids -> adj_run m reg v ids sched = (s, tr) ->
  (forall k, count_start k tr <= calls_expected a reg k) /\
  (forall k, count_end k tr <= count_start k tr) /\
  Forall (ev_legit m reg v (asset_keys a)) tr /\
  (d_complete s -> forall k, count_start k tr = calls_expected a reg k /\ count_end k tr = calls_expected a reg k).
Proof. exact c20_adj_calls. Qed.
Print Assumptions C20_calls_exact.

(* The method returns nil iff every distinct ledger among the assets is registered and its sub-call
   succeeded; an error it returns is the error of a ledger that really failed (not registered, or
   its sub-call failed).  No assumption on the schedule. *)
Theorem C20_result : forall m reg v a ids sched s tr r,
  ledger_ids a = Ok ids -> adj_run m reg v ids sched = (s, tr) -> d_ret s = Some r ->
  (r = None <-> all_ledgers_ok a reg v) /\
  (forall e, r = Some e -> failing reg v (asset_keys a) e).
Proof. exact c20_adj_result. Qed.
Print Assumptions C20_result.

(* independence of the interleaving / completion order *)
Theorem C20_order_independent : forall m reg v a ids sched1 sched2 s1 tr1 s2 tr2,
  ledger_ids a = Ok ids ->
  adj_run m reg v ids sched1 = (s1, tr1) -> adj_run m reg v ids sched2 = (s2, tr2) ->
  d_complete s1 -> d_complete s2 ->
  (d_ret s1 = Some None <-> d_ret s2 = Some None) /\
  (forall k, count_start k tr1 = count_start k tr2 /\ count_end k tr1 = count_end k tr2).
Proof. exact c20_adj_order_independent. Qed.
Print Assumptions C20_order_independent.

(* a nil return happens only after the sub-call of every ledger has returned nil *)
Theorem C20_ok_return_after_calls : forall m reg v a ids sched s tr,
  ledger_ids a = Ok ids -> adj_run m reg v ids sched = (s, tr) ->
  forall pre post, tr = pre ++ ERet OOk :: post ->
  forall k, In (AMulti k) a -> exists h, reg_lookup reg k = Some h /\ v h = true /\ In (EEnd m k h true) pre.
Proof. exact c20_adj_ok_after_all. Qed.
Print Assumptions C20_ok_return_after_calls.

(* the exported method is that run; without ledger ids (non-multi asset) nothing is called *)
Theorem C20_adj_call_is_run : forall m reg v a ids sched, ledger_ids a = Ok ids ->
  adj_call m reg v a sched =
  (snd (adj_run m reg v ids sched), option_map out_of (d_ret (fst (adj_run m reg v ids sched)))).
Proof. exact adj_call_run. Qed.
Print Assumptions C20_adj_call_is_run.

Theorem C20_adj_no_ids_no_calls : forall m reg v a sched, (forall ids, ledger_ids a <> Ok ids) ->
  exists o, adj_call m reg v a sched = ([ERet o], Some o) /\ (o = OErrAsset \/ o = OPanic).
Proof. exact adj_call_no_ids. Qed.
Print Assumptions C20_adj_no_ids_no_calls.

(* --- Fund --- *)

(* what SetEgoisticPart(x) selects: position x of the distinct ledger ids (nothing if out of range) *)
Theorem C20_egoistic_selection : forall ego ids,
  fund_split ego ids = (ego_sel ego ids, ego_rest ego ids) /\
  Permutation (ego_sel ego ids ++ ego_rest ego ids) ids /\
  (forall x, ego = Some x -> (0 <= x)%Z -> forall k, nth_error ids (Z.to_nat x) = Some k -> ego_sel ego ids = [k]) /\
  (ego = None -> ego_sel ego ids = [] /\ ego_rest ego ids = ids).
Proof. exact c20_ego_sel. Qed.
Print Assumptions C20_egoistic_selection.

Theorem C20_fund_call_is_run : forall reg ego v a ids sched, ledger_ids a = Ok ids ->
  fund_call reg ego false v a sched =
  (snd (fund_run reg v (ego_sel ego ids) (ego_rest ego ids) sched),
   f_ret (fst (fund_run reg v (ego_sel ego ids) (ego_rest ego ids) sched))).
Proof. exact fund_call_run. Qed.
Print Assumptions C20_fund_call_is_run.

Theorem C20_fund_no_ids_no_calls : forall reg ego too_long v a sched,
  too_long = true \/ (forall ids, ledger_ids a <> Ok ids) ->
  exists o, fund_call reg ego too_long v a sched = ([ERet o], Some o) /\
            (o = OErrDuration \/ o = OErrAsset \/ o = OPanic).
Proof. exact fund_call_no_ids. Qed.
Print Assumptions C20_fund_no_ids_no_calls.

(* Every non-selected ledger that is registered is funded exactly once; the selected ledger is
   funded (once) iff it is registered and ALL other ledgers are registered and their funding
   succeeded; no other ledger is ever called. *)
Theorem C20_fund_calls_exact : forall reg ego v a ids sched s tr,
  ledger_ids a = Ok ids -> fund_run reg v (ego_sel ego ids) (ego_rest ego ids) sched = (s, tr) ->
  (forall k, count_start k tr <= calls_expected a reg k) /\
  (forall k, count_end k tr <= count_start k tr) /\
  Forall (ev_legit MFund reg v (asset_keys a)) tr /\
  (f_complete s ->
     (forall k, In k (ego_rest ego ids) -> count_start k tr = if registered reg k then 1 else 0) /\
     (forall k, In k (ego_sel ego ids) ->
        count_start k tr = if registered reg k && forallb (ledger_ok reg v) (ego_rest ego ids) then 1 else 0) /\
     (forall k, ~ In (AMulti k) a -> count_start k tr = 0) /\
     (forall k, count_end k tr = count_start k tr)).
Proof. exact c20_fund_calls. Qed.
Print Assumptions C20_fund_calls_exact.

Theorem C20_fund_result : forall reg ego v a ids sched s tr o,
  ledger_ids a = Ok ids -> fund_run reg v (ego_sel ego ids) (ego_rest ego ids) sched = (s, tr) ->
  f_ret s = Some o ->
  (o = OOk <-> all_ledgers_ok a reg v) /\
  (forall er, o = OErr er -> failing reg v (asset_keys a) er) /\
  (o = OOk \/ exists er, o = OErr er).
Proof. exact c20_fund_result. Qed.
Print Assumptions C20_fund_result.

Theorem C20_fund_order_independent : forall reg ego v a ids sched1 sched2 s1 tr1 s2 tr2,
  ledger_ids a = Ok ids ->
  fund_run reg v (ego_sel ego ids) (ego_rest ego ids) sched1 = (s1, tr1) ->
  fund_run reg v (ego_sel ego ids) (ego_rest ego ids) sched2 = (s2, tr2) ->
  f_complete s1 -> f_complete s2 ->
  (f_ret s1 = Some OOk <-> f_ret s2 = Some OOk) /\
  (forall k, count_start k tr1 = count_start k tr2 /\ count_end k tr1 = count_end k tr2).
Proof. exact c20_fund_order_independent. Qed.
Print Assumptions C20_fund_order_independent.

(* Egoistic order, on the event trace of every interleaving (no completeness assumption): when the
   funder of the selected ledger is entered, the funder of every other ledger has already returned
   nil (so every other ledger is registered and succeeded). *)
Theorem C20_egoistic_order : forall reg ego v a ids sched s tr,
  ledger_ids a = Ok ids -> fund_run reg v (ego_sel ego ids) (ego_rest ego ids) sched = (s, tr) ->
  forall pre post m' k h, tr = pre ++ EStart m' k h :: post -> In k (ego_sel ego ids) ->
  forall k', In k' (ego_rest ego ids) ->
  exists h', reg_lookup reg k' = Some h' /\ v h' = true /\ In (EEnd MFund k' h' true) pre.
Proof. exact c20_egoistic_order. Qed.
Print Assumptions C20_egoistic_order.

Theorem C20_fund_ok_return_after_calls : forall reg ego v a ids sched s tr,
  ledger_ids a = Ok ids -> fund_run reg v (ego_sel ego ids) (ego_rest ego ids) sched = (s, tr) ->
  forall pre post, tr = pre ++ ERet OOk :: post ->
  forall k, In (AMulti k) a -> exists h, reg_lookup reg k = Some h /\ v h = true /\ In (EEnd MFund k h true) pre.
Proof. exact c20_fund_ok_after_all. Qed.
Print Assumptions C20_fund_ok_return_after_calls.

(* --- non-vacuity: the hypotheses are met by concrete non-trivial runs --- *)

(* five assets on three ledgers, repeated and out of order; ledger b registered twice *)
Example C20_nonvacuous_ids : ledger_ids ex_assets = Ok ex_ids.
Proof. exact ex_ledger_ids. Qed.

(* a complete run under a non-canonical interleaving, all sub-calls succeed / one fails *)
Example C20_nonvacuous_complete_ok :
  d_complete (fst (adj_run MRegister ex_reg ex_v_ok ex_ids ex_sched)) /\
  d_ret (fst (adj_run MRegister ex_reg ex_v_ok ex_ids ex_sched)) = Some None.
Proof. split; [apply d_completeb_true; apply ex_adj_complete_ok|apply ex_adj_complete_ok]. Qed.

Example C20_nonvacuous_complete_fail :
  d_complete (fst (adj_run MWithdraw ex_reg ex_v_fail ex_ids ex_sched)) /\
  d_ret (fst (adj_run MWithdraw ex_reg ex_v_fail ex_ids ex_sched)) = Some (Some (ECall 10%N)).
Proof. split; [apply d_completeb_true; apply ex_adj_complete_fail|apply ex_adj_complete_fail]. Qed.

(* an unregistered ledger among the assets: error, yet the three registered ledgers are called once *)
Example C20_nonvacuous_unregistered :
  let a := ex_assets ++ [AMulti ex_kd] in
  let r := adj_run MProgress ex_reg ex_v_ok (ex_ids ++ [ex_kd]) (canon_sched (ex_ids ++ [ex_kd]) ex_ids) in
  ledger_ids a = Ok (ex_ids ++ [ex_kd]) /\ d_completeb (fst r) = true /\
  d_ret (fst r) = Some (Some (ENotFound ex_kd)) /\
  count_start ex_ka (snd r) = 1 /\ count_start ex_kb (snd r) = 1 /\ count_start ex_kc (snd r) = 1 /\
  count_start ex_kd (snd r) = 0.
Proof. exact ex_adj_unregistered. Qed.

(* egoistic funding: a complete run whose trace splits at the EStart of the selected ledger a *)
Example C20_nonvacuous_egoistic :
  let r := fund_run ex_reg ex_v_ok (ego_sel ex_ego ex_ids) (ego_rest ex_ego ex_ids) ex_fsched in
  f_completeb (fst r) = true /\ f_ret (fst r) = Some OOk /\
  snd r = [EStart MFund ex_kb 12%N; EStart MFund ex_kc 13%N] ++
          [EEnd MFund ex_kc 13%N true; EEnd MFund ex_kb 12%N true] ++
          EStart MFund ex_ka 10%N :: [EEnd MFund ex_ka 10%N true; ERet OOk].
Proof. exact ex_fund_ok. Qed.

Example C20_nonvacuous_egoistic_not_funded :
  let v := fun h => negb (N.eqb h 13%N) in
  let r := fund_run ex_reg v (ego_sel ex_ego ex_ids) (ego_rest ex_ego ex_ids) ex_fsched in
  f_completeb (fst r) = true /\ f_ret (fst r) = Some (OErr (ECall 13%N)) /\
  count_start ex_ka (snd r) = 0 /\ count_start ex_kb (snd r) = 1 /\ count_start ex_kc (snd r) = 1.
Proof. exact ex_fund_fail. Qed.

(* --- the completeness hypotheses above are attainable for ALL inputs: under the canonical schedule
   (every goroutine reaches its sub-call, then the sub-calls return one by one) everything finishes
   and the method returns.  (This is also the schedule the correspondence check drives.) --- *)
Theorem C20_canonical_schedule_completes : forall m reg v a ids,
  ledger_ids a = Ok ids -> d_complete (fst (adj_run m reg v ids (canon_sched ids ids))).
Proof. exact c20_adj_live. Qed.
Print Assumptions C20_canonical_schedule_completes.

Theorem C20_fund_canonical_schedule_completes : forall reg ego v a ids,
  ledger_ids a = Ok ids ->
  f_complete (fst (fund_run reg v (ego_sel ego ids) (ego_rest ego ids) (canon_fsched ids ids))).
Proof. exact c20_fund_live. Qed.
Print Assumptions C20_fund_canonical_schedule_completes.
