(* C07 - a client never countersigns an update that is unsafe for it.

   Model: Model/Handlers.v (client/update.go handleUpdateReq, validTwoPartyUpdate, acceptUpdate;
   updateinterception.go; subchannel.go filters; virtual_channel*.go handlers and validators),
   on top of the machine model (CheckUpdate).  `repaired` is the code after the fix: commits,
   `original` the code before. *)
From V Require Import Model.Machine Model.MachineSpec Model.Handlers Proofs.C02P Proofs.HandlersP.
Open Scope N_scope.

(* For every channel context whose current state is a valid allocation and every request of the
   model types: if the client puts its signature `sg` under the update (the user accepted after
   AskUser, or the update was accepted automatically), then
   - the peer's signature verifies for exactly the proposed state,
   - the proposed state is a GoodSuccessor (C02) of the current state,
   - `sg` is the client's own signature over exactly the proposed state,
   - an ordinary update (AskUser) names the peer as actor and leaves the locked list unchanged;
     an automatically accepted ChannelUpdate is the funding (settlement) of a registered interceptor:
     the locked list is the old one plus (minus) exactly that channel's sub-allocation and every
     participant's balance drops (rises) by exactly its balance in the funded (settled) channel;
     the same for virtual channel funding/settlement proposals with the balances of the virtual
     channel mapped through the index map (transform_balances). *)
Theorem C07_countersign_safe : forall c r sg, cur_valid c -> countersigns repaired c r = Some sg ->
  let m := cx_mach c in let u := req_upd r in
  exists ct own, current m = Some ct
    /\ sig_valid_for m (peer_idx m) (u_st u) (u_sig u) = true
    /\ GoodSuccessor m (tx_st ct) (u_st u) (u_actor u)
    /\ nth_error (mp_parts (ps m)) (N.to_nat (me m)) = Some own
    /\ sg = SigOf own (enc_state (u_st u))
    /\ safe_change c (tx_st ct) r (r_dec (handle_update_req repaired c r)).
Proof. exact C07_countersign_safe. Qed.
Print Assumptions C07_countersign_safe.

(* non-vacuity: an honest context in which an ordinary update is countersigned; the honest funding,
   settlement and virtual funding updates are accepted automatically and countersigned *)
Example C07_nonvacuous :
  (r_dec (handle_update_req repaired wc0 wpay) = AskUser
   /\ countersigns repaired wc0 wpay = Some (SigOf 1 (enc_state (u_st (req_upd wpay))))
   /\ honest_ctx wc0 /\ cur_valid wc0 /\ req_decodable (ps (cx_mach wc0)) wpay)
  /\ (r_dec (handle_update_req repaired wc_fund wfundX) = AutoAccept
      /\ countersigns repaired wc_fund wfundX = Some (SigOf 1 (enc_state (u_st (req_upd wfundX)))))
  /\ (r_dec (handle_update_req repaired wc_settle wsettleX) = AutoAccept
      /\ countersigns repaired wc_settle wsettleX = Some (SigOf 1 (enc_state (u_st (req_upd wsettleX))))).
Proof. exact (conj ordinary_update (conj fund_honest_repaired settle_honest_repaired)). Qed.

(* the code before the repairs violates the property (witnesses; each reproduced against /repo) *)
Theorem C07_fund_wrong_party_refuted : exists c r sg ct,
  honest_ctx c /\ req_decodable (ps (cx_mach c)) r /\ current (cx_mach c) = Some ct /\
  countersigns original c r = Some sg /\ ~ safe_change c (tx_st ct) r (r_dec (handle_update_req original c r)).
Proof. exact C07_fund_wrong_party_refuted. Qed.
Print Assumptions C07_fund_wrong_party_refuted.
Theorem C07_other_suballoc_refuted : exists c r sg ct,
  honest_ctx c /\ req_decodable (ps (cx_mach c)) r /\ current (cx_mach c) = Some ct /\
  countersigns original c r = Some sg /\ ~ safe_change c (tx_st ct) r (r_dec (handle_update_req original c r)).
Proof. exact C07_other_suballoc_refuted. Qed.
Print Assumptions C07_other_suballoc_refuted.
Theorem C07_vfund_wrong_party_refuted : exists c r sg ct,
  honest_ctx c /\ req_decodable (ps (cx_mach c)) r /\ current (cx_mach c) = Some ct /\
  countersigns original c r = Some sg /\ ~ safe_change c (tx_st ct) r (r_dec (handle_update_req original c r)).
Proof. exact C07_vfund_wrong_party_refuted. Qed.
Print Assumptions C07_vfund_wrong_party_refuted.

(* an interceptor holds the identity and the balances of its sub-channel, nothing of the parent state
   at registration: the update is judged against the parent state at arrival. An update that is
   exactly the funding (settlement) for another state `old` of the parent is accepted only if `old`
   agrees with the current state (funding: locked funds and balances; settlement: balances). *)
Theorem C07_funding_judged_against_current : forall cur old new ic,
  fund_filter repaired cur new ic = true ->
  funded old new (ic_id ic) (bals_sum (ic_bals ic)) [] (ic_bals ic) ->
  locked_of old = locked_of cur /\ forall a p, bal_at (bals_of old) a p = bal_at (bals_of cur) a p.
Proof. exact funding_judged_against_current. Qed.
Print Assumptions C07_funding_judged_against_current.
Theorem C07_settlement_judged_against_current : forall cur old new ic,
  settle_filter repaired cur new ic = Some true -> settled old new (ic_id ic) (ic_bals ic) ->
  forall a p, bal_at (bals_of old) a p = bal_at (bals_of cur) a p.
Proof. exact settlement_judged_against_current. Qed.
Print Assumptions C07_settlement_judged_against_current.
