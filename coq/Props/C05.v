(* C05 — The watcher refutes with the newest channel-tree states, once, and relays events.
   Statement file: every theorem is closed by `exact` of a lemma proved in Proofs/WatcherP.v.

   Vocabulary (Model/WatcherSpec.v), all functions of the observable history `tr` (newest entry first):
     reach tr s             s is the watcher state after the history tr (any list of events, from init)
     watched tr ch          ch was started successfully and not stopped successfully since
     newest tr ch           newest transaction published for ch (the initial one counts)
     last_registered tr ch  version of ch's state in the last successful Register call of the watcher
     root tr ch             ch's parent ledger channel, or ch itself
     archived tr p ch       last transaction of ch, kept when ch was de-registered while locked in p
     wanted_subs tr p t     for every sub-allocation id locked in t: the newest published transaction of
                            that channel if it is watched, else its archived last transaction
     relayed tr ch          versions of the registered events relayed to ch's client, newest first
     single_ledger tr       no channel was started with multi-ledger assets
   The model handles one event as one atomic step (the family mutex subChsAccess serialises the
   handling of registered events, start-sub and stop of one channel family). *)
From Coq Require Import List NArith Sorting.Sorted.
From V Require Import Model.Watcher Model.WatcherSpec Proofs.WatcherP.
Import ListNotations.
Open Scope N_scope.

(* A Register call is made for a registered event (ch, v) of a watched channel exactly when v is lower
   than the newest published version of ch and the watcher has not already registered something newer. *)
Theorem C05_refute_iff : forall tr s ch v,
  reach tr s -> single_ledger tr -> watched tr ch = true ->
  (exists p t subs, In (ORegister p t subs) (snd (step s (ChainRegistered ch v)))) <->
  ((exists t, newest tr ch = Some t /\ v < tx_ver t) /\
   (forall n, last_registered tr ch = Some n -> n <= v)).
Proof. exact refute_iff. Qed.
Print Assumptions C05_refute_iff.

(* Its arguments: the newest published transaction of the ledger channel of ch's family and, for each
   sub-channel locked in it, that sub-channel's newest published transaction or its archived one. *)
Theorem C05_refute_args : forall tr s ch v p t subs,
  reach tr s -> watched tr ch = true ->
  In (ORegister p t subs) (snd (step s (ChainRegistered ch v))) ->
  p = root tr ch /\ newest tr p = Some t /\ subs = wanted_subs tr p t.
Proof. exact refute_args. Qed.
Print Assumptions C05_refute_args.

(* When nothing newer is known the watcher registers nothing. *)
Theorem C05_nothing_newer_no_call : forall tr s ch v t,
  reach tr s -> single_ledger tr -> newest tr ch = Some t -> tx_ver t <= v ->
  forall o, In o (snd (step s (ChainRegistered ch v))) -> is_register o = false.
Proof. exact nothing_newer_no_call. Qed.
Print Assumptions C05_nothing_newer_no_call.

(* Register is never called for anything but a registered event of a watched channel, and then once. *)
Theorem C05_register_only_for_registered : forall tr s e o,
  reach tr s -> In o (snd (step s e)) -> is_register o = true ->
  exists ch v, e = ChainRegistered ch v /\ watched tr ch = true /\
               length (filter is_register (snd (step s e))) = 1%nat.
Proof. exact register_only_for_registered. Qed.
Print Assumptions C05_register_only_for_registered.

(* Registered events reach a client in strictly increasing version order (the list is newest first)... *)
Theorem C05_relay_monotone : forall tr s ch,
  reach tr s -> StronglySorted (fun a b => b < a) (relayed tr ch).
Proof. exact relay_monotone. Qed.
Print Assumptions C05_relay_monotone.

(* ... hence at most once each ... *)
Theorem C05_relay_once : forall tr s ch, reach tr s -> NoDup (relayed tr ch).
Proof. exact relay_once. Qed.
Print Assumptions C05_relay_once.

(* ... and whatever is relayed is the event just reported, for a watched channel, relayed once. *)
Theorem C05_relay_faithful : forall tr s e c k v,
  reach tr s -> In (ORelay c k v) (snd (step s e)) ->
  watched tr c = true /\
  match k with
  | KRegistered => e = ChainRegistered c v
  | KProgressed => e = ChainProgressed c v
  | KConcluded => e = ChainConcluded c v
  end /\ length (filter is_relay (snd (step s e))) = 1%nat.
Proof. exact relay_faithful. Qed.
Print Assumptions C05_relay_faithful.

(* Progressed and concluded events of a watched channel are always relayed (and change nothing). *)
Theorem C05_relay_progress : forall tr s ch v,
  reach tr s -> watched tr ch = true ->
  step s (ChainProgressed ch v) = (s, [ORelay ch KProgressed v]) /\
  step s (ChainConcluded ch v) = (s, [ORelay ch KConcluded v]).
Proof. exact relay_progress. Qed.
Print Assumptions C05_relay_progress.

(* A refused stop leaves the state unchanged (so the channel stays watched, every later reaction is
   what it would have been without the call, and the call can be repeated with the same result). *)
Theorem C05_refused_stop_is_noop : forall s ch,
  snd (step s (Stop ch)) = [OStop StopRefused] -> step s (Stop ch) = (s, [OStop StopRefused]).
Proof. exact refused_stop_is_noop. Qed.
Print Assumptions C05_refused_stop_is_noop.

(* It is refused exactly for a watched ledger channel with a watched sub-channel. *)
Theorem C05_stop_refused_iff : forall tr s ch,
  reach tr s ->
  snd (step s (Stop ch)) = [OStop StopRefused] <->
  (watched tr ch = true /\ exists z, watched tr z = true /\ parent_of tr z = Some ch).
Proof. exact stop_refused_iff. Qed.
Print Assumptions C05_stop_refused_iff.

(* No history reaches the modelled Go panic (close of the closed done channel in StopWatching). *)
Theorem C05_no_panic : forall tr s e,
  reach tr s -> ~ In (OStop StopPanic) (snd (step s e)) /\ ~ In OUnreachable (snd (step s e)).
Proof. exact no_panic. Qed.
Print Assumptions C05_no_panic.

(* Every list of events is a history. *)
Theorem C05_all_histories : forall es, reach (trace_of es) (fst (run init es)).
Proof. exact trace_of_reach. Qed.
Print Assumptions C05_all_histories.

(* ---------- non-vacuity ---------- *)

(* a family with two funded sub-channels; sub-channel 2 is de-registered while locked (archived) *)
Definition ex_hist : list event :=
  [StartLedger 0 false (T 0 1 []); StartSub 1 0 false (T 0 2 []); StartSub 2 0 false (T 0 3 []);
   Publish 0 (T 1 4 [1; 2]); Publish 1 (T 3 5 []); Stop 2; Publish 0 (T 2 6 [1; 2]);
   ChainRegistered 0 0; ChainRegistered 0 2; ChainRegistered 0 1].
Definition ex_tr := trace_of ex_hist.
Definition ex_s := fst (run init ex_hist).

Example C05_ex_reach : reach ex_tr ex_s.
Proof. exact (trace_of_reach ex_hist). Qed.

Example C05_ex_hyps :
  single_ledger ex_tr /\ watched ex_tr 1 = true /\ newest ex_tr 1 = Some (T 3 5 []) /\
  last_registered ex_tr 1 = Some 3 /\ last_registered ex_tr 0 = Some 2 /\
  root ex_tr 1 = 0 /\ watched ex_tr 2 = false /\ archived ex_tr 0 2 = Some (T 0 3 []).
Proof. split; [apply single_ledgerb_ok; reflexivity|repeat split; reflexivity]. Qed.

(* the first registered event (0, version 0) was refuted with the newest tree; (0, 1) came after the
   watcher had registered version 2 and was neither refuted nor relayed *)
Example C05_ex_history_outputs :
  snd (run init ex_hist) =
  [[OStart StartOK]; [OStart StartOK]; [OStart StartOK]; []; []; [OStop StopOK]; [];
   [ORegister 0 (T 2 6 [1; 2]) [(1, Some (T 3 5 [])); (2, Some (T 0 3 []))]; ORelay 0 KRegistered 0];
   [ORelay 0 KRegistered 2]; []].
Proof. reflexivity. Qed.

Example C05_ex_relayed : relayed ex_tr 0 = [2; 0].
Proof. reflexivity. Qed.

(* a newer state of sub-channel 1 is published, the adjudicator reports version 3 of it: refuted with
   the newest ledger transaction, the newest transaction of 1 and the archived transaction of 2 *)
Example C05_ex_refute :
  snd (step (fst (step ex_s (Publish 1 (T 4 7 [])))) (ChainRegistered 1 3)) =
  [ORegister 0 (T 2 6 [1; 2]) [(1, Some (T 4 7 [])); (2, Some (T 0 3 []))]; ORelay 1 KRegistered 3].
Proof. reflexivity. Qed.

(* nothing newer known: version 3 of channel 1 reported while 3 is the newest: relayed, not refuted *)
Example C05_ex_no_call : snd (step ex_s (ChainRegistered 1 3)) = [ORelay 1 KRegistered 3].
Proof. reflexivity. Qed.

(* a refused stop, repeated *)
Example C05_ex_refused :
  snd (step ex_s (Stop 0)) = [OStop StopRefused] /\
  snd (step (fst (step ex_s (Stop 0))) (Stop 0)) = [OStop StopRefused] /\
  watched ex_tr 0 = true /\ watched ex_tr 1 = true /\ parent_of ex_tr 1 = Some 0.
Proof. repeat split; reflexivity. Qed.

(* The code as pinned (StopWatching closes ch.done before it refuses) does NOT have the property:
   after a refused stop an outdated registered event is ignored, and the repeated stop panics. *)
Example C05_original_code_violates :
  snd (run_gen true init
         [StartLedger 0 false (T 0 1 []); StartSub 1 0 false (T 0 2 []); Publish 0 (T 1 3 [1]);
          Stop 0; ChainRegistered 0 0; Stop 0]) =
  [[OStart StartOK]; [OStart StartOK]; []; [OStop StopRefused]; []; [OStop StopPanic]]
  /\
  snd (run init
         [StartLedger 0 false (T 0 1 []); StartSub 1 0 false (T 0 2 []); Publish 0 (T 1 3 [1]);
          Stop 0; ChainRegistered 0 0; Stop 0]) =
  [[OStart StartOK]; [OStart StartOK]; []; [OStop StopRefused];
   [ORegister 0 (T 1 3 [1]) [(1, Some (T 0 2 []))]; ORelay 0 KRegistered 0]; [OStop StopRefused]].
Proof. split; reflexivity. Qed.
