(* C02 — Only valid successor states can be staged: funds are conserved, no rollback.  Statement file. *)
From V Require Import Model.Machine Model.MachineSpec Proofs.MachineP Proofs.C02P Proofs.PayP.

(* Through the regular update path a candidate is accepted exactly when the machine is in Acting and
   the candidate is a good successor of the current state: channel id, channel app, predecessor not
   final, exactly the next version, same asset list, well-formed non-negative allocation (alloc_valid:
   non-empty, consistent dimensions, within limits, every sub-allocation one non-negative amount per
   asset), one balance per participant of the channel, per asset the total of participant balances plus
   locked funds unchanged (asset_total, declaratively), actor an existing participant, app rule. *)
Theorem C02_update_accepts_iff_good : forall m s actor c,
  current m = Some c -> alloc_valid (st_alloc (tx_st c)) = true ->
  (snd (step m (OUpdate s actor)) = OK <->
   in_phases m [Acting] = true /\ GoodSuccessor m (tx_st c) s actor).
Proof. exact update_accepts_iff. Qed.
Print Assumptions C02_update_accepts_iff_good.

(* the vector compared by the code is, per asset, participant balances plus locked amounts *)
Theorem C02_sum_is_total : forall a, alloc_valid a = true ->
  length (alloc_sum a) = length (al_assets a) /\
  forall i, (i < length (al_assets a))%nat -> nth i (alloc_sum a) 0%Z = asset_total a i.
Proof. exact alloc_sum_spec. Qed.
Print Assumptions C02_sum_is_total.

(* every other candidate is refused and the machine is unchanged: nothing is staged, so nothing can be
   signed over it (own signatures are only produced over the staged state: C09_sig_only_staged) *)
Theorem C02_refused_unchanged : forall m s actor,
  snd (step m (OUpdate s actor)) <> OK -> fst (step m (OUpdate s actor)) = m.
Proof. exact update_refused_unchanged. Qed.
Print Assumptions C02_refused_unchanged.

(* an accepted initial state has version 0, the channel's id and app, a well-formed allocation with one
   balance per participant *)
Theorem C02_init_good : forall m a d, snd (step m (OInit a d)) = OK ->
  exists s, staging (fst (step m (OInit a d))) = Some (new_tx m s)
    /\ st_ver s = 0%N /\ st_id s = mp_id (ps m) /\ st_app s = mp_app (ps m) /\ st_alloc s = a
    /\ alloc_valid a = true /\ Forall (fun r => len r = nparts m) (al_bals a).
Proof. exact init_accepts. Qed.
Print Assumptions C02_init_good.

(* histories: along every sequence of regular operations (everything except the forced update and the
   two progression setters) the current state only ever changes to a state with exactly the next
   version, the same assets and the same per-asset totals, and never after a final state *)
Theorem C02_step_conserves : forall m o c c', K m -> regular o ->
  current m = Some c -> current (fst (step m o)) = Some c' ->
  c' = c \/ (ph m = Signing /\ succ_core (tx_st c) (tx_st c')).
Proof. exact regular_step_conserves. Qed.
Print Assumptions C02_step_conserves.

Theorem C02_funds_conserved : forall p idx ops1 ops2 c,
  Forall regular ops1 -> Forall regular ops2 ->
  current (run (new_machine p idx) ops1) = Some c ->
  exists c', current (run (run (new_machine p idx) ops1) ops2) = Some c'
    /\ alloc_sum (st_alloc (tx_st c')) = alloc_sum (st_alloc (tx_st c))
    /\ al_assets (st_alloc (tx_st c')) = al_assets (st_alloc (tx_st c))
    /\ (st_final (tx_st c) = true -> c' = c).
Proof.
  intros p idx ops1 ops2 c R1 R2 Hc.
  exact (conserve_run _ ops2 c (K_run _ ops1 (K_new p idx) R1) R2 Hc).
Qed.
Print Assumptions C02_funds_conserved.

(* "satisfies the app's transition rule", spelled out for the payment app (apps/payment): in an accepted
   successor money flows only from the actor to the others - for every asset the actor's balance does not
   grow and nobody else's shrinks (with conservation above: what the actor loses is what the others and
   the locked funds gain) *)
Theorem C02_payment_only_actor_pays : forall m cur to actor,
  mp_kind (ps m) = Some KPay -> alloc_valid (st_alloc cur) = true ->
  num_parts (al_bals (st_alloc cur)) = nparts m -> GoodSuccessor m cur to actor ->
  forall i fr tr j f t, nth_error (al_bals (st_alloc cur)) i = Some fr ->
    nth_error (al_bals (st_alloc to)) i = Some tr -> nth_error fr j = Some f -> nth_error tr j = Some t ->
    if (N.of_nat j =? actor)%N then (t <= f)%Z else (f <= t)%Z.
Proof. exact payment_only_actor_pays. Qed.
Print Assumptions C02_payment_only_actor_pays.

Example C02_nonvacuous :
  let m := run (new_machine exP0 0) (exOps0 ++ [OEnableInit; OSetFunded]) in
  in_phases m [Acting] = true /\
  snd (step m (OUpdate (mkState (repeat Byte.x07 32) 1 (mkAlloc [0] [5] [[50; 50]%Z] []) None [] false) 0)) = OK /\
  snd (step m (OUpdate (mkState (repeat Byte.x07 32) 1 (mkAlloc [0] [5] [[50; 51]%Z] []) None [] false) 0)) = ERR.
Proof. vm_compute. repeat split; reflexivity. Qed.
