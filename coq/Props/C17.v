(* C17 — A channel ID commits to the channel parameters.  Statement file.
   ID = SHA-256(id_preimage params) (backend/sim/channel.CalcID); SHA-256 is not modelled: the
   theorems are about the pre-image, the harness checks sha256(pre-image) = Params.ID() on every run. *)
From V Require Import Model.Msgs Model.Machine Model.MachineSpec Proofs.CodecP Proofs.SafeP Proofs.MachineP Proofs.C17P.

(* changing the challenge duration, any participant address, the participant order, the app, the
   nonce or the ledger/virtual flags changes the pre-image (contrapositive: equal pre-images agree on
   all of them) *)
Theorem C17_preimage_injective : forall rs p q, params_wf rs p = true -> params_wf rs q = true ->
  id_preimage p = id_preimage q ->
  p_cd p = p_cd q /\ p_parts p = p_parts q /\ p_app p = p_app q /\ p_nonce p = p_nonce q
  /\ p_ledger p = p_ledger q /\ p_virtual p = p_virtual q.
Proof.
  intros rs p q Hp Hq E. pose proof (preimage_injective rs p q Hp Hq E) as F.
  unfold fields_of in F. injection F as F1 F2 F3 F4 F5 F6. auto 10.
Qed.
Print Assumptions C17_preimage_injective.

(* the ID is a function of the parameters: parameters restored from their encoding are the same
   parameters (hence the same pre-image and ID); Aux is deliberately not part of the pre-image *)
Theorem C17_restored_params_same_preimage : forall rs p, params_wf rs p = true ->
  match run_flat (dec_params rs) (enc_params p) with
  | Ok (p', _) => p' = p /\ id_preimage p' = id_preimage p
  | _ => False end.
Proof.
  intros rs p H. pose proof (dec_params_rt rs p [] H) as R. rewrite app_nil_r in R. rewrite R. auto.
Qed.
Print Assumptions C17_restored_params_same_preimage.

(* parameters that violate the documented constraints are refused, by NewParams and by Decode *)
Theorem C17_new_params_iff_constraints : forall p, new_params_ok p = true <->
  p_cd p <> 0%N /\ (MinNumParts <= len (p_parts p))%N /\ (len (p_parts p) <= MaxNumParts)%N
  /\ nonce_ok (p_nonce p) = true
  /\ Forall (fun m => m <> [] /\ Forall (fun e => fst e = 0%Z) m) (p_parts p).
Proof. exact new_params_ok_iff. Qed.
Print Assumptions C17_new_params_iff_constraints.
Theorem C17_decode_validates : forall rs bs p r, run_flat (dec_params rs) bs = Ok (p, r) ->
  new_params_ok p = true.
Proof. exact dec_params_accepts_valid. Qed.
Print Assumptions C17_decode_validates.

(* every state a channel machine creates or accepts carries the ID of its parameters *)
Theorem C17_machine_states_carry_id : forall m o, is_success (snd (step m o)) = true ->
  match o with
  | OInit _ _ | OUpdate _ _ =>
      exists t, staging (fst (step m o)) = Some t /\ st_id (tx_st t) = mp_id (ps m)
  | _ => True
  end.
Proof. exact machine_states_carry_id. Qed.
Print Assumptions C17_machine_states_carry_id.

Definition ex_params : params :=
  mkParams 5 [[(0%Z, repeat Byte.x01 64)]; [(0%Z, repeat Byte.x02 64)]] None 77%Z true false (repeat Byte.x00 256).
Example C17_nonvacuous : params_wf (fun _ => None) ex_params = true.
Proof. vm_compute. reflexivity. Qed.
