(* C10 — What is restored after a crash is exactly a state the channel machine was in.
   Model: Model/Persist.v (persistence.StateMachine = Model/Machine.v step followed by the keyvalue
   persister call as a list of atomic writes; the keyvalue restorer walking a sorted store).
   Statement file. *)
From V Require Import Model.Persist Proofs.PersistP.

(* what a restore is compared with: the snapshot of a live channel = own index, parameters, phase,
   current transaction, staged state, exactly the signatures collected for it (one slot per
   participant, empty slots when nothing is staged), peers and parent *)
Theorem C10_snapshot_means : forall c,
  snap_of c = mkRC (me (c_m c)) (ps (c_m c)) (ph (c_m c)) (current (c_m c))
                   (option_map tx_st (staging (c_m c)))
                   (match staging (c_m c) with
                    | Some t => tx_sigs t
                    | None => repeat None (length (mp_parts (ps (c_m c)))) end)
                   (c_peers c) (c_parent c).
Proof. reflexivity. Qed.
Print Assumptions C10_snapshot_means.

(* For every history h of persisted operations on any number of channels (creation, init, sign,
   add-signature valid or not, enable x3, update, discard, forced update, all phase setters,
   progression, in any order and phase, and any number of restarts WRestart in between: the process
   comes up with a new PersistRestorer on the same store, every machine is rebuilt from what the
   restorer yields and used further through the new persister; wop_ok only asks that the states handed
   in can be encoded),
   every next operation o and every crash point k (a prefix of the atomic writes of o: before the
   first Put/Batch.Apply, between any two, after the last): restoring any channel yields the snapshot
   the channel had before o or the one it has after o ("not found" for a channel that is not live) —
   and exactly the latter once all writes of o are done. *)
Theorem C10_crash_restore : forall h o,
  forallb wop_ok h = true -> wop_ok o = true ->
  let W := fst (wrun h) in let s := snd (wrun h) in
  forall W' x ws, wstep W s o = (W', x, ws) ->
  forall k, (k <= length ws)%nat -> forall id,
    (restore_chan (apply_atomics s (firstn k ws)) id = view W id \/
     restore_chan (apply_atomics s (firstn k ws)) id = view W' id) /\
    (k = length ws -> restore_chan (apply_atomics s (firstn k ws)) id = view W' id).
Proof. exact C10_crash_restore_l. Qed.
Print Assumptions C10_crash_restore.

(* A restart loses nothing: the registry rebuilt from the store alone is exactly the registry of live
   machines before the restart (own index, parameters, phase, both transactions, every signature slot,
   peers and parent of every channel) and nothing is written. Histories go on from there, so the two
   theorems around this one cover every crash point of every operation after any number of restarts. *)
Theorem C10_restart_restores_everything : forall h, forallb wop_ok h = true ->
  wstep (fst (wrun h)) (snd (wrun h)) WRestart = (fst (wrun h), OK, []).
Proof. exact C10_restart_l. Qed.
Print Assumptions C10_restart_restores_everything.

(* In particular no signature belonging to an earlier staged state is ever restored with a later one:
   at every crash point every restored staging signature sits in the slot of a participant and
   verifies, under that participant's address, for the restored staged state. *)
Theorem C10_no_stale_signature : forall h o,
  forallb wop_ok h = true -> wop_ok o = true ->
  let W := fst (wrun h) in let s := snd (wrun h) in
  forall W' x ws, wstep W s o = (W', x, ws) ->
  forall k, (k <= length ws)%nat -> forall id rc,
    restore_chan (apply_atomics s (firstn k ws)) id = ROk rc ->
    forall i g, nth_error (rc_sigs rc) i = Some (Some g) ->
      exists st a, rc_stg rc = Some st /\ nth_error (mp_parts (rc_params rc)) i = Some a /\
                   verify_state a st g = Some true.
Proof. exact C10_no_stale_l. Qed.
Print Assumptions C10_no_stale_signature.

(* the invariant behind both: after every history the store is literally the image of the live
   channels: for each live channel (in id order) its channel-table entries and one peer-table entry per
   listed peer, inserted into the empty store - nothing else *)
Theorem C10_store_is_image : forall h, forallb wop_ok h = true ->
  snd (wrun h) = image (fst (wrun h)).
Proof. exact C10_store_eq_image_l. Qed.
Print Assumptions C10_store_is_image.
(* the same, field by field: a channel-table key holds the field of the live machine's snapshot, a
   peer-table key exists exactly for the listed peers of live channels; every live machine satisfies
   the machine invariant of C01 *)
Theorem C10_store_fieldwise : forall h, forallb wop_ok h = true ->
  Rep (fst (wrun h)) (snd (wrun h)) /\ wfW (fst (wrun h)).
Proof. exact C10_invariant_l. Qed.
Print Assumptions C10_store_fieldwise.

(* ---------- non-vacuity ---------- *)
Definition xid : bytes := repeat Byte.x07 32.
Definition xP : mparams := mkMP xid [1; 2] None None.
Definition xA (a b : Z) : alloc := mkAlloc [0] [5] [[a; b]] [].
Definition xS (v : N) (a b : Z) : state := mkState xid v (xA a b) None [] false.
Definition xpeer (b : Byte.byte) : bytes := repeat b 42.
(* create, open, stage an update, sign it, discard it *)
Definition xH : list wop :=
  [ WCreate xP 0 [xpeer Byte.x01; xpeer Byte.x02] None;
    WOp xid (OInit (xA 60 40) []); WOp xid OSig; WOp xid (OAddSig 1 (SigOf 2 (enc_state (xS 0 60 40))));
    WOp xid OEnableInit; WOp xid OSetFunded;
    WOp xid (OUpdate (xS 1 50 50) 0); WOp xid OSig; WOp xid ODiscard ].
(* ... and stage a different update next *)
Definition xO : wop := WOp xid (OUpdate (xS 1 10 90) 0).

Example C10_nonvacuous :
  forallb wop_ok xH = true /\ wop_ok xO = true /\
  match wstep (fst (wrun xH)) (snd (wrun xH)) xO with
  | (W', x, ws) =>
      x = OK /\ length ws = 1%nat /\
      (* before the batch: nothing staged, no signature left over from the discarded update *)
      match restore_chan (apply_atomics (snd (wrun xH)) (firstn 0 ws)) xid with
      | ROk rc => rc_phase rc = Acting /\ rc_stg rc = None /\ rc_sigs rc = [None; None]
      | _ => False end /\
      (* after it: the new staged state without any signature, current state fully signed *)
      match restore_chan (apply_atomics (snd (wrun xH)) (firstn 1 ws)) xid with
      | ROk rc => rc_phase rc = Signing /\ rc_stg rc = Some (xS 1 10 90) /\ rc_sigs rc = [None; None] /\
                  option_map (fun t => all_some (tx_sigs t)) (rc_cur rc) = Some true
      | _ => False end
  end.
Proof. vm_compute. repeat split; reflexivity. Qed.

(* the same after a restart in the middle: sign, restart, discard, restart, stage another update *)
Definition xHr : list wop := firstn 8 xH ++ [WRestart; WOp xid ODiscard; WRestart].
Example C10_nonvacuous_restart :
  forallb wop_ok xHr = true /\ In WRestart xHr /\
  (* the restart happens while the staged update carries the own signature *)
  match restore_chan (snd (wrun (firstn 9 xHr))) xid with
  | ROk rc => rc_sigs rc = [Some (SigOf 1 (enc_state (xS 1 50 50))); None] | _ => False end /\
  match wstep (fst (wrun xHr)) (snd (wrun xHr)) xO with
  | (W', x, ws) =>
      x = OK /\ length ws = 1%nat /\
      match restore_chan (apply_atomics (snd (wrun xHr)) (firstn 0 ws)) xid with
      | ROk rc => rc_phase rc = Acting /\ rc_stg rc = None /\ rc_sigs rc = [None; None]
      | _ => False end /\
      match restore_chan (apply_atomics (snd (wrun xHr)) (firstn 1 ws)) xid with
      | ROk rc => rc_phase rc = Signing /\ rc_stg rc = Some (xS 1 10 90) /\ rc_sigs rc = [None; None]
      | _ => False end
  end.
Proof. vm_compute. repeat split; try reflexivity. do 8 right. left. reflexivity. Qed.

(* a signed staging is restored with its signature (the hypothesis of C10_no_stale_signature is met) *)
Example C10_nonvacuous_signed :
  match restore_chan (snd (wrun (firstn 8 xH))) xid with
  | ROk rc => rc_stg rc = Some (xS 1 50 50) /\
              rc_sigs rc = [Some (SigOf 1 (enc_state (xS 1 50 50))); None]
  | _ => False end.
Proof. vm_compute. split; reflexivity. Qed.

(* creation writes two batches: between them the channel is already restorable *)
Example C10_nonvacuous_create :
  match wstep [] [] (WCreate xP 0 [xpeer Byte.x01] (Some xid)) with
  | (W', x, ws) =>
      length ws = 2%nat /\ restore_chan (apply_atomics [] (firstn 0 ws)) xid = RNotFound /\
      restore_chan (apply_atomics [] (firstn 1 ws)) xid = view W' xid /\ view W' xid <> RNotFound
  end.
Proof. vm_compute. repeat split; try reflexivity. discriminate. Qed.
