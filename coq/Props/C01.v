(* C01 — The current off-chain state is always signed by every participant.
   Model: Model/Machine.v (channel/machine.go, statemachine.go as a step function over the ideal
   token signature scheme).  Statement file. *)
From V Require Import Model.Machine Proofs.MachineP.

(* For every parameter set, own index and every finite sequence of state-machine operations whatsoever
   (wrong phase, wrong/missing/duplicated/replayed/foreign signatures, forced updates, all phase
   setters): if the machine has a current transaction, it carries one verified signature per
   participant over exactly that state, or it is the unsigned state of a progression event. *)
Theorem C01_current_fully_signed : forall p idx ops t,
  current (run (new_machine p idx) ops) = Some t ->
  fully_signed (run (new_machine p idx) ops) t \/ unsigned t.
Proof. exact C01_reachable. Qed.
Print Assumptions C01_current_fully_signed.

(* fully signed, spelled out: as many slots as participants, and for each participant address a stored
   signature that verifies for the current state *)
Theorem C01_fully_signed_means : forall m t, fully_signed m t ->
  length (tx_sigs t) = length (mp_parts (ps m)) /\
  forall i a, nth_error (mp_parts (ps m)) i = Some a ->
    exists sg, nth_error (tx_sigs t) i = Some (Some sg) /\ verify_state a (tx_st t) sg = Some true.
Proof. exact fully_signed_spec. Qed.
Print Assumptions C01_fully_signed_means.

(* ideal scheme: a verified signature is that participant's signature over exactly that state's encoding *)
Theorem C01_verified_binds : forall a s sg, verify_state a s sg = Some true -> sg = SigOf a (enc_state s).
Proof. exact verify_state_binds. Qed.
Print Assumptions C01_verified_binds.

(* the only unsigned current states are those adopted from an on-chain progression event: the current
   transaction changes only by promoting the fully signed staged transaction, or by SetProgressed *)
Theorem C01_only_progression_is_unsigned : forall m o, Inv m ->
  current (fst (step m o)) <> current m ->
  (exists s, o = OSetProgressed s) \/
  (exists t, current (fst (step m o)) = Some t /\ fully_signed m t /\ staging m = Some t).
Proof. exact C01_promotion. Qed.
Print Assumptions C01_only_progression_is_unsigned.

Theorem C01_invariant_reachable : forall p idx ops, Inv (run (new_machine p idx) ops).
Proof. intros. apply Inv_run. apply Inv_new. Qed.
Print Assumptions C01_invariant_reachable.

(* non-vacuity: a two-party run that ends with a fully signed current state *)
Definition exP : mparams := mkMP (repeat Byte.x07 32) [1; 2] None None.
Definition exA : alloc := mkAlloc [0] [5] [[60; 40]%Z] [].
Definition exS0 : state := mkState (repeat Byte.x07 32) 0 exA None [] false.
Definition exOps : list op :=
  [OInit exA []; OSig; OAddSig 1 (SigOf 2 (enc_state exS0)); OEnableInit; OSetFunded].
Example C01_nonvacuous :
  match current (run (new_machine exP 0) exOps) with
  | Some t => all_some (tx_sigs t) = true /\ ph (run (new_machine exP 0) exOps) = Acting
  | None => False
  end.
Proof. vm_compute. split; reflexivity. Qed.
