(* C16 — Message framing does not depend on how the transport chunks the bytes: the PROTOBUF frame
   decoder (2-byte big-endian length, then the payload).  Statement file.  The general theorem
   C16_chunking_invariant (Props/C16.v) covers every decoder whose multi-byte reads are full reads; since
   bfef08b readEnvelope is one. *)
From V Require Import Model.Proto Proofs.WireP Proofs.SafeP Proofs.CodecP Proofs.ProtoP.

Theorem C16_proto_frame_full_reads : forall unmarshal rs, full_only (dec_pframe unmarshal rs).
Proof. exact fo_dec_pframe. Qed.
Print Assumptions C16_proto_frame_full_reads.

(* for EVERY byte string and every partition into non-empty chunks the chunked decode is the flat decode *)
Theorem C16_proto_chunking_invariant : forall unmarshal rs cs, Forall nonempty cs ->
  flatten_res (run_chunked (dec_pframe unmarshal rs) cs) = run_flat (dec_pframe unmarshal rs) (concat cs).
Proof. intros u rs. apply chunk_invariant. apply fo_dec_pframe. Qed.
Print Assumptions C16_proto_chunking_invariant.

(* a well-formed envelope written by Serializer().Encode (fr), followed by any further bytes, is decoded
   to the same envelope however the stream is split - all at once, byte by byte, inside the length
   prefix, in the middle of the payload *)
Theorem C16_proto_envelope_any_chunking :
  forall (marshal : penv -> option bytes) (unmarshal : bytes -> option penv),
  (forall m bs, marshal m = Some bs -> unmarshal bs = Some (norm_env m)) ->
  forall rs e fr rest cs,
  envelope_wf rs e = true /\ envelope_pwf e = true /\ encode_proto marshal e = Ok fr ->
  Forall nonempty cs -> concat cs = fr ++ rest ->
  flatten_res (run_chunked (dec_pframe unmarshal rs) cs) = Ok (e, rest).
Proof. exact pframe_any_chunking. Qed.
Print Assumptions C16_proto_envelope_any_chunking.

(* consecutive envelopes on one stream are all decoded, in order, for every chunking of the stream *)
Theorem C16_proto_stream_any_chunking :
  forall (marshal : penv -> option bytes) (unmarshal : bytes -> option penv),
  (forall m bs, marshal m = Some bs -> unmarshal bs = Some (norm_env m)) ->
  forall rs es frs,
  Forall2 (fun e fr => envelope_wf rs e = true /\ envelope_pwf e = true /\ encode_proto marshal e = Ok fr) es frs ->
  forall cs, Forall nonempty cs -> concat cs = concat frs ->
  dec_all_chunked (dec_pframe unmarshal rs) (S (length es)) cs = Some es.
Proof. exact pstream_any_chunking. Qed.
Print Assumptions C16_proto_stream_any_chunking.

(* the code before bfef08b (one r.Read for the payload): a frame delivered in two chunks is an error,
   the same bytes in one chunk decode; the repaired decoder decodes both *)
Theorem C16_proto_single_read_refuted : forall rs,
  Forall nonempty w_chunks
  /\ flatten_res (run_chunked (Legacy.dec_pframe w_unm rs) w_chunks) = Err
  /\ run_flat (Legacy.dec_pframe w_unm rs) (concat w_chunks) = Ok (mkEnv [] [] (MPing 0), [])
  /\ flatten_res (run_chunked (dec_pframe w_unm rs) w_chunks) = Ok (mkEnv [] [] (MPing 0), []).
Proof. exact legacy_single_read_refuted. Qed.
Print Assumptions C16_proto_single_read_refuted.

(* non-vacuity: a frame of the one-message library of Proofs/ProtoP.v, delivered byte by byte *)
Definition ex16_env : envelope :=
  mkEnv [(0%Z, repeat Byte.x0a 32)] [(0%Z, repeat Byte.x0b 32)] (MUpdateAcc (repeat Byte.x01 32) 7 (repeat Byte.x09 64)).
Definition ex16_tree : penv := match from_envelope ex16_env with Ok t => t | _ => mkPEnv None None None end.
Definition ex16_payload : bytes := [Byte.x0a; Byte.x00; Byte.x12].
Example C16_proto_nonvacuous :
  let rs := fun _ : bytes => @None appkind in
  let fr := enc_be 2 3 ++ ex16_payload in
  envelope_wf rs ex16_env = true /\ envelope_pwf ex16_env = true
  /\ encode_proto (toy_marshal ex16_tree ex16_payload) ex16_env = Ok fr
  /\ flatten_res (run_chunked (dec_pframe (toy_unmarshal ex16_tree ex16_payload) rs) (map (fun b => [b]) fr))
     = Ok (ex16_env, []).
Proof. vm_compute. repeat split; reflexivity. Qed.
