(* C08 — Channel opening: both sides derive the same channel; bad proposals are dropped.
   Statement file.  Model: Model/Open.v (client/proposal.go, proposalmsgs.go, virtual_channel_util.go as
   repaired), declarative side: Model/OpenSpec.v.  Hashes (SHA3-256 of the nonce shares, SHA-256 of the
   ID pre-image) are arbitrary functions: the statements are about the pre-images. *)
From V Require Import Model.Open Model.OpenSpec Proofs.MachineP Proofs.C17P Proofs.OpenP.

(* A proposal that reaches the user's handler satisfies every condition of the property text:
   >= 2 participants, challenge duration != 0, valid allocation without pre-locked funds,
   peers = (sender, receiver), known parent, sub-channel with the parent's assets and not more funds
   than the parent holds, virtual channel with funding agreement = balances, one parent and one index
   map per participant, a one-to-one index map within range, funds within the parent's.
   For all contexts, senders and proposals (in-memory values, a superset of what decoders deliver). *)
Theorem C08_drop_bad : forall ctx sender p,
  handle_proposal ctx sender p = HandlerCalled -> GoodProposal ctx sender p.
Proof. exact drop_bad. Qed.
Print Assumptions C08_drop_bad.

(* ... and handling a proposal never panics, whatever a peer sends, as long as the registered
   channels' states have at least two participant columns *)
Theorem C08_no_panic : forall ctx sender p,
  ctx_ok ctx = true -> handle_proposal ctx sender p <> Panic.
Proof. exact no_panic. Qed.
Print Assumptions C08_no_panic.

(* Arrival while the parent is busy: the proposal arrives in situation ctx0 (the parent is looked up),
   waits for the parent's machine mutex, and is validated in the situation ctx1 held under the lock.
   The handler is only reached with a proposal that is good for ctx1; whatever changed in between. *)
Theorem C08_drop_bad_locked : forall ctx0 ctx1 sender p,
  handle_proposal_locked repaired ctx0 ctx1 sender p = HandlerCalled -> GoodProposal ctx1 sender p.
Proof. exact drop_bad_locked. Qed.
Print Assumptions C08_drop_bad_locked.
Theorem C08_no_panic_locked : forall ctx0 ctx1 sender p,
  ctx_ok ctx1 = true -> parent_stays ctx0 ctx1 p ->
  handle_proposal_locked repaired ctx0 ctx1 sender p <> Panic.
Proof. exact no_panic_locked. Qed.
Print Assumptions C08_no_panic_locked.
(* validating when the message arrives (before the lock) violates it *)
Theorem C08_early_validation_refuted :
  handle_proposal_early repaired exCtxA exCtxA_after wB exSub = HandlerCalled
  /\ ~ GoodProposal exCtxA_after wB exSub.
Proof. exact early_validation_refuted. Qed.
Print Assumptions C08_early_validation_refuted.
Example C08_locked_nonvacuous :
  handle_proposal_locked repaired exCtxA exCtxA_after wB exSub = Dropped
  /\ handle_proposal_locked repaired exCtxA_after exCtxA wB exSub = HandlerCalled
  /\ parent_stays exCtxA exCtxA_after exSub /\ ctx_ok exCtxA_after = true.
Proof. exact locked_examples. Qed.

(* the hypothesis is not redundant in the model *)
Example C08_no_panic_needs_ctx_ok :
  ctx_ok exCtxNarrow = false /\ handle_proposal exCtxNarrow wB exVirtGood = Panic.
Proof. exact no_panic_needs_ctx_ok. Qed.

(* the same for the proposal messages of the wire format *)
Theorem C08_drop_bad_wire : forall ctx sender m p, proposal_of_msg m = Some p ->
  (handle_proposal ctx sender p = HandlerCalled -> GoodProposal ctx sender p)
  /\ (ctx_ok ctx = true -> handle_proposal ctx sender p <> Panic).
Proof. intros ctx sender m p _. split; [apply drop_bad|apply no_panic]. Qed.
Print Assumptions C08_drop_bad_wire.

(* Proposer (index 0, registry ctxP) and responder (index 1, registry ctxR) complete the protocol
   from the same (proposal, accept): same parameters, same ID pre-image and ID, same participant
   order; both machines end in phase Funding holding the version-0 state with the proposed balances
   and data, with every participant's signature over exactly that state (C01). *)
Theorem C08_same_channel : forall (hnonce : bytes -> Z) (hid : bytes -> bytes) (tok : amap -> N) (rs : resolver)
    ctxP ctxR p a sP mP sR mR,
  same_parent ctxP ctxR p ->
  open_both hnonce hid tok rs repaired ctxP ctxR p a = COk (sP, mP, (sR, mR)) ->
  s_params sP = s_params sR
  /\ chan_id_preimage hnonce (s_params sP) = chan_id_preimage hnonce (s_params sR)
  /\ s_id sP = s_id sR
  /\ cp_parts (s_params sP) = cp_parts (s_params sR)
  /\ (exists parts, mpcpp_parts ctxP p a = COk parts /\ s_params sP = proposed_params p a parts)
  /\ exists al tP tR,
       pb_bals (base p) = Some al /\ current mP = Some tP /\ current mR = Some tR
       /\ tx_st tP = mkState (s_id sP) 0 al (cp_app (s_params sP)) (pb_data (base p)) false
       /\ tx_st tR = tx_st tP
       /\ length (tx_sigs tP) = length (cp_parts (s_params sP))
       /\ length (tx_sigs tR) = length (cp_parts (s_params sP))
       /\ (forall i part, nth_error (cp_parts (s_params sP)) i = Some part ->
             nth_error (tx_sigs tP) i = Some (Some (SigOf (tok part) (enc_state (tx_st tP))))
             /\ nth_error (tx_sigs tR) i = Some (Some (SigOf (tok part) (enc_state (tx_st tP)))))
       /\ ph mP = Funding /\ ph mR = Funding.
Proof. exact same_channel_spelled. Qed.
Print Assumptions C08_same_channel.

(* the two parameter computations alone (no signature exchange needed) *)
Theorem C08_same_params : forall (hnonce : bytes -> Z) (hid : bytes -> bytes) (tok : amap -> N) (rs : resolver)
    fx ctxP ctxR p a sP sR,
  same_parent ctxP ctxR p ->
  complete_cpp hnonce hid tok rs fx ctxP p a 0 = COk sP -> complete_cpp hnonce hid tok rs fx ctxR p a 1 = COk sR ->
  s_params sP = s_params sR /\ s_id sP = s_id sR.
Proof. exact same_params. Qed.
Print Assumptions C08_same_params.

(* The nonce pre-image is injective in each side's share; and the channel ID pre-image commits to
   both shares: two openings with equal ID pre-images used the same proposer share and the same
   responder share, unless the nonce hash collides on the two share pairs. *)
Theorem C08_nonce_both :
  (forall sP sR sP' sR', length sP = length sP' ->
     nonce_preimage sP sR = nonce_preimage sP' sR' -> sP = sP' /\ sR = sR')
  /\ forall (hnonce : bytes -> Z) (hid : bytes -> bytes) (tok : amap -> N) (rs : resolver)
       fx ctx p a idx s ctx' p' a' idx' s',
     complete_cpp hnonce hid tok rs fx ctx p a idx = COk s ->
     complete_cpp hnonce hid tok rs fx ctx' p' a' idx' = COk s' ->
     params_wf rs (params_of hnonce (s_params s)) = true -> params_wf rs (params_of hnonce (s_params s')) = true ->
     length (pb_nonce (base p)) = length (pb_nonce (base p')) ->
     (hnonce (nonce_preimage (pb_nonce (base p)) (acc_nonce a))
        = hnonce (nonce_preimage (pb_nonce (base p')) (acc_nonce a')) ->
      nonce_preimage (pb_nonce (base p)) (acc_nonce a) = nonce_preimage (pb_nonce (base p')) (acc_nonce a')) ->
     chan_id_preimage hnonce (s_params s) = chan_id_preimage hnonce (s_params s') ->
     pb_nonce (base p) = pb_nonce (base p') /\ acc_nonce a = acc_nonce a'.
Proof. split; [exact nonce_preimage_injective|exact nonce_both]. Qed.
Print Assumptions C08_nonce_both.

(* ---- the code as it was violates the statements: one repair switched off each ---- *)
Theorem C08_drop_bad_refuted_funding_agreement :
  handle_proposal_gen without_fa exCtxA wB exBadFA = HandlerCalled /\ ~ GoodProposal exCtxA wB exBadFA.
Proof. exact drop_bad_refuted_funding_agreement. Qed.
Theorem C08_no_panic_refuted_parent_index :
  ctx_ok exCtxA = true /\ handle_proposal_gen without_parent_idx exCtxA wB exShortParents = Panic.
Proof. exact no_panic_refuted_parent_index. Qed.
Theorem C08_no_panic_refuted_empty_balances :
  ctx_ok exCtxA = true /\ handle_proposal_gen without_valid_order exCtxA wB exEmptyBals = Panic.
Proof. exact no_panic_refuted_empty_balances. Qed.
Theorem C08_no_panic_refuted_long_index_map :
  ctx_ok exCtxA = true /\ handle_proposal_gen without_imap_checks exCtxA wB exLongImap = Panic
  /\ handle_proposal_gen original exCtxA wB exLongImap = Panic.
Proof. exact no_panic_refuted_long_index_map. Qed.
Theorem C08_drop_bad_refuted_short_index_map :
  handle_proposal_gen without_imap_len exCtxA wB exEmptyImap = HandlerCalled /\ ~ GoodProposal exCtxA wB exEmptyImap.
Proof. exact drop_bad_refuted_short_index_map. Qed.
Theorem C08_drop_bad_refuted_duplicate_index_map :
  handle_proposal_gen without_imap_dup exCtxA wB exDupImap = HandlerCalled /\ ~ GoodProposal exCtxA wB exDupImap.
Proof. exact drop_bad_refuted_duplicate_index_map. Qed.
Print Assumptions C08_drop_bad_refuted_funding_agreement.
Print Assumptions C08_no_panic_refuted_parent_index.
Print Assumptions C08_no_panic_refuted_empty_balances.
Print Assumptions C08_no_panic_refuted_long_index_map.
Print Assumptions C08_drop_bad_refuted_short_index_map.
Print Assumptions C08_drop_bad_refuted_duplicate_index_map.

(* ---- non-vacuity ---- *)
(* the handler is reached by a ledger, a sub-channel and a virtual channel proposal; the same
   receiver drops one mutant per class *)
Example C08_handler_reached :
  handle_proposal exCtxA wB exLedger = HandlerCalled /\ handle_proposal exCtxA wB exSub = HandlerCalled
  /\ handle_proposal exCtxA wB exVirtGood = HandlerCalled /\ ctx_ok exCtxA = true.
Proof. vm_compute. auto. Qed.
Example C08_good_nonvacuous : GoodProposal exCtxA wB exVirtGood.
Proof. apply drop_bad. vm_compute. reflexivity. Qed.
Example C08_mutants_dropped :
  handle_proposal exCtxA wB exBadFA = Dropped /\ handle_proposal exCtxA wB exShortParents = Dropped
  /\ handle_proposal exCtxA wB exEmptyBals = Dropped /\ handle_proposal exCtxA wB exLongImap = Dropped
  /\ handle_proposal exCtxA wB exEmptyImap = Dropped /\ handle_proposal exCtxA wB exDupImap = Dropped.
Proof. vm_compute. auto 10. Qed.
(* the hypothesis of C08_same_channel is met by complete openings of each kind *)
Example C08_open_nonvacuous :
  opened_ok (ex_open exCtxBV exCtxA exLedger exAccL) = true
  /\ opened_ok (ex_open exCtxBV exCtxA exSub exAccS) = true
  /\ opened_ok (ex_open exCtxBV exCtxA exVirtGood exAccV) = true
  /\ same_parent exCtxBV exCtxA exSub.
Proof.
  split; [exact ex_open_ledger|]. split; [exact ex_open_sub|]. split; [exact ex_open_virtual|].
  cbn [same_parent exSub]. intros cP cR HP HR. vm_compute in HP, HR. injection HP as <-. injection HR as <-. reflexivity.
Qed.
