(* C14 — Encoding then decoding returns an equal value and consumes exactly its bytes: the PROTOBUF
   serializer, and its agreement with the native one.  Statement file.

   `rs` is the app registry.  The protobuf byte format is trusted and abstract: `marshal`/`unmarshal`
   are any pair of functions with  marshal m = Some bs -> unmarshal bs = Some (norm_env m), where
   norm_env (Model/Proto.v) is what a Marshal/Unmarshal round trip does to a message tree: nil elements
   of repeated message fields and the nil inner message of a set oneof become empty messages, everything
   else is unchanged.  `envelope_pwf` is what the protobuf serializer needs on top of the native format:
   non-negative address-map keys, a state in a sync message, at most MaxNumParts peers in a virtual
   channel proposal. *)
From V Require Import Model.Proto Proofs.WireP Proofs.ChannelP Proofs.CodecP Proofs.ProtoP.

(* conversions: to_T (norm (from_T v)) = Ok v for every well-formed v *)
Theorem C14_proto_roundtrip_envelope : forall rs e, envelope_wf rs e = true -> envelope_pwf e = true ->
  (t <~ from_envelope e ;; to_envelope rs (norm_env t)) = Ok e.
Proof. exact envelope_rt_norm. Qed.
Print Assumptions C14_proto_roundtrip_envelope.
Theorem C14_proto_roundtrip_msg : forall rs m, msg_wf rs m = true -> msg_pwf m = true ->
  (t <~ from_msg m ;; to_msg rs (norm_msg t)) = Ok m.
Proof. exact msg_rt_norm. Qed.
Print Assumptions C14_proto_roundtrip_msg.
Theorem C14_proto_roundtrip_state : forall rs s, state_wf_rs rs s = true ->
  (t <~ from_state s ;; to_state rs (Some (norm_state t))) = Ok s.
Proof. exact state_rt_norm. Qed.
Print Assumptions C14_proto_roundtrip_state.
Theorem C14_proto_roundtrip_alloc : forall a, alloc_wf a = true ->
  (t <~ from_alloc a ;; to_alloc (Some (norm_alloc t))) = Ok a.
Proof. exact alloc_rt_norm. Qed.
Print Assumptions C14_proto_roundtrip_alloc.
Theorem C14_proto_roundtrip_balances : forall b, balances_wf b = true ->
  (t <~ from_balances b ;; Ok (to_balances (Some (norm_balances t)))) = Ok b.
Proof. exact balances_rt_norm. Qed.
Print Assumptions C14_proto_roundtrip_balances.
Theorem C14_proto_roundtrip_suballoc : forall s, suballoc_wf s = true ->
  exists t, from_suballoc s = Ok t /\ to_suballoc (Some t) = Ok s.
Proof. exact suballoc_rt. Qed.
Print Assumptions C14_proto_roundtrip_suballoc.
Theorem C14_proto_roundtrip_params : forall rs p, params_wf rs p = true ->
  (t <~ from_params p ;; to_params rs (Some (norm_params t))) = Ok p.
Proof. exact params_rt_norm. Qed.
Print Assumptions C14_proto_roundtrip_params.
Theorem C14_proto_roundtrip_baseprop : forall rs b, baseprop_wf rs b = true ->
  (t <~ from_baseprop b ;; to_baseprop rs (Some (norm_baseprop t))) = Ok b.
Proof. exact baseprop_rt_norm. Qed.
Print Assumptions C14_proto_roundtrip_baseprop.
Theorem C14_proto_roundtrip_wallet_addr : forall m, wamap_wf m = true ->
  (t <~ from_amap m ;; to_wamap (Some (norm_addr t))) = Ok m.
Proof. exact wamap_rt_norm. Qed.
Print Assumptions C14_proto_roundtrip_wallet_addr.
Theorem C14_proto_roundtrip_wire_addr : forall m, ramap_wf m = true -> keys_nonneg m = true ->
  (t <~ from_amap m ;; to_ramap (Some (norm_addr t))) = Ok m.
Proof. exact ramap_rt_norm. Qed.
Print Assumptions C14_proto_roundtrip_wire_addr.
Theorem C14_proto_roundtrip_sigs : forall g, sigs_wf g = true -> to_sigs (from_sigs g) = g.
Proof. exact sigs_rt. Qed.
Print Assumptions C14_proto_roundtrip_sigs.

(* the conversions never see the normalisation, whatever the tree *)
Theorem C14_proto_norm_invisible : forall rs t, to_envelope rs (norm_env t) = to_envelope rs t.
Proof. exact to_envelope_norm. Qed.
Print Assumptions C14_proto_norm_invisible.

(* through bytes: what Serializer().Encode wrote (fr), followed by ANY further bytes, decodes to exactly
   the envelope and leaves exactly those further bytes unread *)
Theorem C14_proto_frame_roundtrip :
  forall (marshal : penv -> option bytes) (unmarshal : bytes -> option penv),
  (forall m bs, marshal m = Some bs -> unmarshal bs = Some (norm_env m)) ->
  forall rs e fr rest,
  envelope_wf rs e = true /\ envelope_pwf e = true /\ encode_proto marshal e = Ok fr ->
  run_flat (dec_pframe unmarshal rs) (fr ++ rest) = Ok (e, rest).
Proof. exact pframe_rt. Qed.
Print Assumptions C14_proto_frame_roundtrip.

(* hence consecutive frames decode one after the other *)
Theorem C14_proto_stream :
  forall (marshal : penv -> option bytes) (unmarshal : bytes -> option penv),
  (forall m bs, marshal m = Some bs -> unmarshal bs = Some (norm_env m)) ->
  forall rs es frs,
  Forall2 (fun e fr => envelope_wf rs e = true /\ envelope_pwf e = true /\ encode_proto marshal e = Ok fr) es frs ->
  dec_all (dec_pframe unmarshal rs) (S (length es)) (concat frs) = Some es.
Proof. exact pstream_rt. Qed.
Print Assumptions C14_proto_stream.

(* the protobuf decode of the protobuf encoding and the native decode of the native encoding are the
   same message, each consuming exactly its encoding *)
Theorem C14_serializers_agree :
  forall (marshal : penv -> option bytes) (unmarshal : bytes -> option penv),
  (forall m bs, marshal m = Some bs -> unmarshal bs = Some (norm_env m)) ->
  forall rs e fr,
  envelope_wf rs e = true /\ envelope_pwf e = true /\ encode_proto marshal e = Ok fr ->
  run_flat (dec_pframe unmarshal rs) fr = Ok (e, []) /\ run_flat (dec_envelope rs) (enc_envelope e) = Ok (e, []).
Proof. exact serializers_agree. Qed.
Print Assumptions C14_serializers_agree.

(* the code before the repairs (db19d12, e65197d): locked sub-allocations vanished, absent signatures
   came back as empty ones *)
Theorem C14_proto_locked_dropped_refuted :
  alloc_wf w_alloc = true /\ (t <~ Legacy.from_alloc w_alloc ;; to_alloc (Some t)) <> Ok w_alloc
  /\ (t <~ from_alloc w_alloc ;; to_alloc (Some t)) = Ok w_alloc.
Proof. exact legacy_locked_dropped. Qed.
Print Assumptions C14_proto_locked_dropped_refuted.
Theorem C14_proto_absent_sig_refuted :
  Legacy.to_sigs (from_sigs [None]) <> [None] /\ to_sigs (from_sigs [None]) = [None].
Proof. exact legacy_sigs_not_nil. Qed.
Print Assumptions C14_proto_absent_sig_refuted.

(* non-vacuity: a well-formed update whose state carries a locked sub-allocation with an index map,
   and a (one-message) protobuf library that satisfies the hypothesis *)
Definition ex_state : state := mkState (repeat Byte.x07 32) 7 w_alloc None [] false.
Definition ex_penv : envelope :=
  mkEnv [(0%Z, repeat Byte.x0a 32)] [(0%Z, repeat Byte.x0b 32)] (MUpdate ex_state 1 (repeat Byte.x09 64)).
Definition ex_tree : penv := match from_envelope ex_penv with Ok t => t | _ => mkPEnv None None None end.
Definition ex_payload : bytes := [Byte.x0a; Byte.x00].
Example C14_proto_nonvacuous :
  let rs := fun _ : bytes => @None appkind in
  envelope_wf rs ex_penv = true /\ envelope_pwf ex_penv = true
  /\ encode_proto (toy_marshal ex_tree ex_payload) ex_penv = Ok (enc_be 2 2 ++ ex_payload)
  /\ (forall m bs, toy_marshal ex_tree ex_payload m = Some bs ->
                   toy_unmarshal ex_tree ex_payload bs = Some (norm_env m)).
Proof. cbv zeta. repeat split; try (vm_compute; reflexivity). apply toy_library. Qed.
