(* C03 — Honest settlement pays each party its balance in the last agreed state.  Statement file.

   Models: Model/Ledger.v (the strict reference ledger: accounts, per-channel holdings, disputes, logical
   clock; the Go ledger the clients run against is compared with it on every run) and Model/Settle.v (the
   LTS of two participants, their agreed histories, the ledger and the clock; the log of every run of two
   real clients must be a run of it). Proofs: Proofs/LedgerP.v, Proofs/SettleP.v. *)
From V Require Import Model.Settle Proofs.LedgerP Proofs.SettleP.
Open Scope N_scope.

(* ---------------- the ledger ---------------- *)

(* L_conservation: for every operation sequence from every ledger state, per asset, what the accounts hold
   plus what the channels hold is constant. *)
Theorem L_conservation : forall a ops L, ledger_total a (run L ops) = ledger_total a L.
Proof. exact L_conservation_run. Qed.
Print Assumptions L_conservation.

(* L_funding_exact: a successful deposit takes from the depositing account, per asset, exactly the submitted
   amounts and adds exactly them to the depositing participant's holdings; the participant had not deposited
   before; nothing else changes. (A refused operation changes nothing: step_err_unchanged.) *)
Theorem L_funding_exact : forall L p assets idx from amts L' evs,
  step_res L (LDeposit p assets idx from amts) = ROk (L', evs) ->
  let f0 := match bfind (l_funds L) (lp_id p) with Some f => f | None => new_fund assets (length (lp_parts p)) end in
  let i := N.to_nat idx in
  (forall k, acc_get (l_acc L') k =
             (acc_get (l_acc L) k - (if N.eqb (fst k) from then sum_for (snd k) (combine assets amts) else 0))%Z)
  /\ nth i (f_dep f0) true = false
  /\ (exists f', bfind (l_funds L') (lp_id p) = Some f'
        /\ f_assets f' = assets /\ f_dep f' = set_nth i true (f_dep f0) /\ f_settled f' = false
        /\ f_wd f' = f_wd f0 /\ length (f_hold f') = length assets
        /\ forall a j, (a < length assets)%nat ->
             nth j (nth a (f_hold f') []) 0%Z =
             (nth j (nth a (f_hold f0) []) 0 + (if (j =? i)%nat then nth a amts 0 else 0))%Z)
  /\ (forall c, c <> lp_id p -> bfind (l_funds L') c = bfind (l_funds L) c)
  /\ l_disp L' = l_disp L /\ l_clock L' = l_clock L /\ evs = [].
Proof. exact LedgerP.L_funding_exact. Qed.
Print Assumptions L_funding_exact.
Theorem L_refused_unchanged : forall L o e, snd (step L o) = LErr e -> fst (step L o) = L.
Proof. exact step_err_unchanged. Qed.
Print Assumptions L_refused_unchanged.

(* L_payout (a): the first conclusion of an exactly funded channel on (s, subs) turns its holdings into the
   recursive outcome of (s, subs) over the locked sub-channels with their index maps; (b) a withdrawal pays the
   participant's column of the holdings to the account named in its authorisation, empties the column and marks
   the participant; (c) a marked participant is refused, and the mark stays; the record of a concluded channel
   changes by successful withdrawals only. *)
Theorem L_payout_outcome : forall L p s subs L' evs f,
  step_res L (LConclude p s subs) = ROk (L', evs) ->
  is_concluded (l_disp L) (lp_id p) = false ->
  bfind (l_funds L) (lp_id p) = Some f -> f_settled f = false -> fund_dims_ok f = true ->
  exists out, outcome_rec (S (length subs)) s subs = ROk out
    /\ (outcome_fits f out = true ->
        bfind (l_funds L') (lp_id p) = Some (mkFund (f_assets f) out (f_dep f) true (f_wd f))).
Proof. exact L_payout_conclude. Qed.
Print Assumptions L_payout_outcome.
(* the outcome has, per asset, the total of the allocation (balances plus locked amounts): nothing is created *)
Theorem L_outcome_total : forall fuel s m out,
  outcome_rec fuel s m = ROk out -> map zsum out = alloc_sum (st_alloc s).
Proof. exact outcome_rec_sums. Qed.
Print Assumptions L_outcome_total.
Theorem L_payout : forall L p idx signer to L' evs,
  step_res L (LWithdraw p idx signer to) = ROk (L', evs) ->
  let i := N.to_nat idx in
  exists f, bfind (l_funds L) (lp_id p) = Some f /\ f_settled f = true
    /\ nth i (lp_parts p) 0 = signer /\ (i < length (lp_parts p))%nat /\ nth i (f_wd f) true = false
    /\ (forall k, acc_get (l_acc L') k =
          (acc_get (l_acc L) k
           + (if N.eqb (fst k) to then sum_for (snd k) (combine (f_assets f) (col (f_hold f) i)) else 0))%Z)
    /\ bfind (l_funds L') (lp_id p)
       = Some (mkFund (f_assets f) (zero_col (f_hold f) i) (f_dep f) true (set_nth i true (f_wd f)))
    /\ (forall c, c <> lp_id p -> bfind (l_funds L') c = bfind (l_funds L) c)
    /\ l_disp L' = l_disp L /\ l_clock L' = l_clock L /\ evs = [].
Proof. exact L_payout_withdraw. Qed.
Print Assumptions L_payout.
Theorem L_payout_once : forall L p idx signer to f,
  bfind (l_funds L) (lp_id p) = Some f -> nth (N.to_nat idx) (f_wd f) true = true ->
  exists e, step_res L (LWithdraw p idx signer to) = RErr e.
Proof. exact L_withdraw_once. Qed.
Print Assumptions L_payout_once.
Theorem L_payout_mark_stays : forall L o id f i,
  bfind (l_funds L) id = Some f -> f_settled f = true -> nth i (f_wd f) true = true ->
  exists f', bfind (l_funds (fst (step L o))) id = Some f' /\ f_settled f' = true /\ nth i (f_wd f') true = true.
Proof. exact L_withdrawn_stays. Qed.
Print Assumptions L_payout_mark_stays.
Theorem L_settled_only_withdrawals : forall L o id f,
  bfind (l_funds L) id = Some f -> f_settled f = true ->
  bfind (l_funds (fst (step L o))) id = Some f
  \/ exists p idx signer to evs, o = LWithdraw p idx signer to /\ lp_id p = id
       /\ step_res L o = ROk (fst (step L o), evs).
Proof. exact L_settled_step. Qed.
Print Assumptions L_settled_only_withdrawals.

(* L_refute: against a registered, different state only a higher version, in the open dispute phase, before
   the timeout and with all signatures is accepted; it replaces the registered state and keeps the timeout
   (a final state closes the window at once); nothing lower or equal is accepted. *)
Theorem L_refute : forall now D p t d,
  bfind D (st_id (tx_st t)) = Some d -> d_state d <> tx_st t ->
  let s := tx_st t in
  (forall D' evs, register_single now D p t = ROk (D', evs) ->
     st_ver (d_state d) < st_ver s /\ d_phase d = DDispute /\ now < d_timeout d /\ tx_signed p t = true
     /\ bfind D' (st_id s) = Some (mkDisp p s (if st_final s then now else d_timeout d) DDispute))
  /\ (state_ok p s = true -> st_ver (d_state d) < st_ver s -> d_phase d = DDispute -> now < d_timeout d ->
      tx_signed p t = true -> exists D' evs, register_single now D p t = ROk (D', evs))
  /\ (st_ver s <= st_ver (d_state d) -> exists e, register_single now D p t = RErr e).
Proof. exact LedgerP.L_refute. Qed.
Print Assumptions L_refute.
(* a concluded entry never changes again *)
Theorem L_concluded_final : forall L o id d,
  bfind (l_disp L) id = Some d -> d_phase d = DConcluded -> (forall p a b c e, o <> LProgress p a b c e) ->
  exists d', bfind (l_disp (fst (step L o))) id = Some d' /\ d_state d' = d_state d /\ d_phase d' = DConcluded.
Proof. exact concluded_stays. Qed.
Print Assumptions L_concluded_final.

(* ---------------- the protocol ---------------- *)

(* Vocabulary (Model/Settle.v, Proofs/SettleP.v):
     srun (sinit root assets agree accts acc0) es = Some st   es is a run of the LTS from the state in which
                      nothing has happened: ledger accounts acc0, no channel yet; the events are the honest
                      steps of the two participants, ledger calls of anybody, and clock ticks
     static_ok        two distinct ledger accounts, two participants, the agreement has one row per asset
     newest_tree st i the newest agreed state of the ledger channel at participant i and, for every
                      sub-allocation locked in it, the newest agreed state of that sub-channel
     tree_outcome tr  the recursive outcome of that tree (balances plus sub-channel balances through the index
                      maps); without locked sub-channels it is the balance matrix of the state
     pt_wd            the participant's own Settle went through: its Conclude and its Withdraw succeeded
     funded st        both participants have deposited
     acct st i, dcol st i x, ocol st out i x   ledger account of participant i; what the funding agreement /
                      the outcome out assigns to participant i of asset x *)

(* C03_honest_settlement. For EVERY run of the LTS that ends with the channel funded and both participants
   settled:
   - both participants hold the same newest tree (the last state both signed, with its sub-channel states),
   - each participant's ledger balance is what it was before opening, minus exactly its column of the
     funding agreement, plus exactly its column of the outcome of that tree,
   - per asset the ledger holds what it held before opening,
   - nothing remains held for the channel. *)
Theorem C03_honest_settlement : forall rootp assets agree accts acc0 es st,
  static_ok (sinit rootp assets agree accts acc0) ->
  srun (sinit rootp assets agree accts acc0) es = Some st ->
  funded st = true -> pt_wd (s_p0 st) = true -> pt_wd (s_p1 st) = true ->
  exists tr0 tr1 out,
    newest_tree st 0 = Some tr0 /\ newest_tree st 1 = Some tr1
    /\ fst tr0 = fst tr1 /\ map snd (snd tr0) = map snd (snd tr1)
    /\ tree_outcome tr0 = ROk out
    /\ (forall i x, (i < 2)%nat ->
          acc_get (l_acc (s_L st)) (acct st i, x) = (acc_get acc0 (acct st i, x) - dcol st i x + ocol st out i x)%Z)
    /\ (forall x, ledger_total x (s_L st) = acc_total x acc0)
    /\ exists f, bfind (l_funds (s_L st)) (rootid st) = Some f /\ f_settled f = true
         /\ forall i, (i < 2)%nat -> col (f_hold f) i = zeros (f_hold f).
Proof. exact honest_settlement. Qed.
Print Assumptions C03_honest_settlement.

(* without locked sub-channels the outcome is the balance matrix of the last agreed state *)
Theorem C03_outcome_is_balance : forall tr out,
  tree_outcome tr = ROk out -> al_locked (st_alloc (fst tr)) = [] -> out = al_bals (st_alloc (fst tr)).
Proof. exact tree_outcome_nolock. Qed.
Print Assumptions C03_outcome_is_balance.

(* When both participants' own Conclude went through, the ledger channel is concluded on the state both hold
   as their newest agreed state, and every sub-channel locked in it is concluded on the newest state both hold
   of it (also before anybody withdrew, and whether or not the channel was funded). *)
Theorem C03_last_agreed_tree : forall rootp assets agree accts acc es st,
  srun (sinit rootp assets agree accts acc) es = Some st ->
  pt_concl (s_p0 st) = true -> pt_concl (s_p1 st) = true ->
  exists d rn0 rn1, bfind (l_disp (s_L st)) (rootid st) = Some d /\ d_phase d = DConcluded
    /\ bfind (pt_nodes (s_p0 st)) (rootid st) = Some rn0 /\ newest rn0 = Some (d_state d)
    /\ bfind (pt_nodes (s_p1 st)) (rootid st) = Some rn1 /\ newest rn1 = Some (d_state d)
    /\ forall l, In l (al_locked (st_alloc (d_state d))) ->
         exists dl n0 n1, bfind (l_disp (s_L st)) (sa_id l) = Some dl /\ d_phase dl = DConcluded
           /\ bfind (pt_nodes (s_p0 st)) (sa_id l) = Some n0 /\ newest n0 = Some (d_state dl)
           /\ bfind (pt_nodes (s_p1 st)) (sa_id l) = Some n1 /\ newest n1 = Some (d_state dl).
Proof. exact both_settled_same_tree. Qed.
Print Assumptions C03_last_agreed_tree.

(* ---------------- non-vacuity: a run that satisfies the hypotheses ---------------- *)
Definition xid : bytes := [Byte.x01].
Definition sid : bytes := [Byte.x02].
Definition exroot : lparams := mkLP xid [1; 2] 3 None true.
Definition exsub : lparams := mkLP sid [1; 2] 2 None false.
Definition exst (id : bytes) (v : N) (b : list (list Z)) (lk : list suballoc) (fin : bool) : state :=
  mkState id v (mkAlloc [0] [5] b lk) None [] fin.
Definition v0 := exst xid 0 [[10; 10]%Z] [] false.
Definition v1 := exst xid 1 [[4; 16]%Z] [] false.
Definition u0 := exst sid 0 [[1; 2]%Z] [] false.
Definition u1 := exst sid 1 [[3; 0]%Z] [] false.
Definition v2 := exst xid 2 [[3; 14]%Z] [mkSA sid [3%Z] []] false.
Definition exacc : accounts := [((1, 5), 50%Z); ((2, 5), 50%Z)].
Definition exinit := sinit exroot [5] [[12; 8]%Z] [1; 2] exacc.     (* funding agreement 12/8, initial balances 10/10 *)
(* both open, fund, make a payment, open a sub-channel and pay in it; 0 registers the tree, the clock runs,
   both conclude and withdraw *)
Definition exrun : list sevent :=
  [SOpen 0 exroot v0; SOpen 1 exroot v0; SFund 0; SFund 1; SEnable 1 v1; SEnable 0 v1;
   SOpen 0 exsub u0; SOpen 1 exsub u0; SEnable 1 v2; SEnable 0 v2; SEnable 0 u1; SEnable 1 u1;
   SFreeze 0 xid; SFreeze 0 sid; SRegister 0; SFreeze 1 xid; SFreeze 1 sid; STick; STick; STick;
   SConclude 0; SWithdraw 0; SConclude 1; SWithdraw 1].
Example C03_nonvacuous :
  static_ok exinit /\
  exists st, srun exinit exrun = Some st /\ honest_run exrun = true /\ funded st = true
    /\ pt_wd (s_p0 st) = true /\ pt_wd (s_p1 st) = true
    /\ newest_tree st 0 = Some (v2, [(exsub, u1)])
    /\ tree_outcome (v2, [(exsub, u1)]) = ROk [[6; 14]%Z]
    /\ acc_get (l_acc (s_L st)) (1, 5) = 44%Z        (* 50 - 12 + (3 + 3) *)
    /\ acc_get (l_acc (s_L st)) (2, 5) = 56%Z.       (* 50 - 8 + (14 + 0) *)
Proof.
  split.
  - constructor; cbn; try reflexivity; try discriminate. repeat constructor.
  - eexists. split; [vm_compute; reflexivity|]. vm_compute. repeat split; reflexivity.
Qed.
