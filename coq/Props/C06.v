(* C06 — Update protocol agreement: success means both hold the same signed state.
   Model: Model/Update.v (client/update.go, channelconn.go, channel.go, persistence/statemachine.go as a
   labelled transition system: two parties, each a Model/Machine.v machine + its machine mutex + the
   pending response receiver; the network as a multiset of ChannelUpdate / Acc / Rej messages; one
   label per machine operation under the mutex or send).  Statement file.

   Quantification.  [reachable P t s]: s is the state after ANY finite sequence of labels from the
   state in which both machines are in Acting with the same fully signed transaction t — i.e. every
   program of proposals from either side (LStage with an arbitrary proposed state; LStageBad when the
   proposer's own checks refuse it), every accept/reject decision (LDecide), and every interleaving
   of the two parties' steps and of message deliveries.  P is any channel with two participants whose
   keys are k0, k1 (ideal token signatures).  The LTS has no timeout step: as in the property text,
   runs in which a request times out are outside these theorems (except that the fully-signed
   invariant of each machine is C01's, which holds for every operation sequence whatsoever). *)
From Coq Require Import Arith PeanoNat ZifyN ZifyNat ZifyBool Lia.
From V Require Import Model.Update Proofs.MachineP Proofs.UpdateLocalP Proofs.UpdateP Proofs.UpdateSessP.
Open Scope N_scope.

(* At every moment each party's current transaction is signed by both participants over exactly
   its state (fully_signed is C01's predicate). *)
Theorem C06_fully_signed : forall P k0 k1 t s p,
  mp_parts P = [k0; k1] -> good_init k0 k1 t -> reachable P t s ->
  exists c, current (mc (getp s p)) = Some c /\ fully_signed (mc (getp s p)) c.
Proof. intros P k0 k1 t s p HP. exact (fully_signed_reachable P k0 k1 HP t s p). Qed.
Print Assumptions C06_fully_signed.

(* The versions of the two parties differ by at most one (uint64 arithmetic as in the code). *)
Theorem C06_versions_close : forall P k0 k1 t s,
  mp_parts P = [k0; k1] -> good_init k0 k1 t -> reachable P t s ->
  cur_ver s PA = cur_ver s PB \/ cur_ver s PA = wrap64 (cur_ver s PB + 1)
  \/ cur_ver s PB = wrap64 (cur_ver s PA + 1).
Proof.
  intros P k0 k1 t s HP I R. exact (versions_close_GI P k0 k1 s (GI_reachable P k0 k1 HP t s I R)).
Qed.
Print Assumptions C06_versions_close.

Theorem C06_versions_close_no_wraparound : forall P k0 k1 t s,
  mp_parts P = [k0; k1] -> good_init k0 k1 t -> reachable P t s ->
  cur_ver s PA < two64 - 1 -> cur_ver s PB < two64 - 1 ->
  cur_ver s PA = cur_ver s PB \/ cur_ver s PA = cur_ver s PB + 1 \/ cur_ver s PB = cur_ver s PA + 1.
Proof.
  intros P k0 k1 t s HP I R. exact (versions_close_nowrap_GI P k0 k1 s (GI_reachable P k0 k1 HP t s I R)).
Qed.
Print Assumptions C06_versions_close_no_wraparound.

(* Agreement: among all states that ever became fully signed in either machine (the ghost logs, see
   C06_full_logged) no two different states have the same version — as long as no fully signed state
   has reached version 2^64-1 (after which the uint64 version wraps around). *)
Theorem C06_agreement : forall P k0 k1 t s,
  mp_parts P = [k0; k1] -> good_init k0 k1 t -> reachable P t s -> nowrap s ->
  forall x y, In x (flogs s) -> In y (flogs s) -> st_ver x = st_ver y -> x = y.
Proof.
  intros P k0 k1 t s HP I R. exact (agreement_GI P k0 k1 s (GI_reachable P k0 k1 HP t s I R)).
Qed.
Print Assumptions C06_agreement.

(* Why: a party signs as responder only the successor (version + 1, uint64) of its own current,
   non-final state, and every state it signed as responder is in its log — so by C06_agreement it signs
   as responder at most one state per version; C06_mutex: it never responds while a proposal of its own
   holds the machine mutex. *)
Theorem C06_responder_signs_successor : forall P k0 k1 t s p st,
  mp_parts P = [k0; k1] -> good_init k0 k1 t -> reachable P t s ->
  (ctl (getp s p) = RSent st \/ exists g, ctl (getp s p) = RSigned st g) ->
  exists c, current (mc (getp s p)) = Some c /\ st_final (tx_st c) = false
            /\ st_ver st = wrap64 (st_ver (tx_st c) + 1) /\ In st (flog (getp s p)).
Proof.
  intros P k0 k1 t s p st HP I R. exact (resp_signed_GI P k0 k1 s p st (GI_reachable P k0 k1 HP t s I R)).
Qed.
Print Assumptions C06_responder_signs_successor.

(* ... and the logs are complete: whenever a machine holds a staged or current transaction with all
   signatures, its state is in that party's log. *)
Theorem C06_full_logged : forall P k0 k1 t s p tr,
  mp_parts P = [k0; k1] -> good_init k0 k1 t -> reachable P t s ->
  (staging (mc (getp s p)) = Some tr \/ current (mc (getp s p)) = Some tr) ->
  all_some (tx_sigs tr) = true -> In (tx_st tr) (flog (getp s p)).
Proof.
  intros P k0 k1 t s p tr HP I R. exact (full_logged_GI P k0 k1 s p tr (GI_reachable P k0 k1 HP t s I R)).
Qed.
Print Assumptions C06_full_logged.

(* Success.  When Channel.Update of party p for the proposed state st completes with nil (the step
   LPEnable from PAdded st — C06_success_only: there is no other way), p's current transaction is st
   with both signatures, and the peer's current transaction is st with both signatures already, or the
   peer is in RSent st (acceptance sent, machine mutex held), its enable step is enabled, and after it
   the peer holds st with both signatures. *)
Theorem C06_success : forall P k0 k1 t s p st s',
  mp_parts P = [k0; k1] -> good_init k0 k1 t -> reachable P t s ->
  ctl (getp s p) = PAdded st -> lstep s (LPEnable p) = Some s' ->
  done s' = (p, st, RSuccess) :: done s /\ ctl (getp s' p) = Idle /\ holds s' p st /\
  (holds s' (other p) st \/
   (ctl (getp s' (other p)) = RSent st /\
    exists s'', lstep s' (LREnable (other p)) = Some s'' /\ ctl (getp s'' (other p)) = Idle
                /\ holds s'' (other p) st /\ getp s'' p = getp s' p)).
Proof.
  intros P k0 k1 t s p st s' HP I R.
  exact (success_GI P k0 k1 HP s p st s' (GI_reachable P k0 k1 HP t s I R)).
Qed.
Print Assumptions C06_success.

Theorem C06_success_only : forall P k0 k1 t s l s' p st,
  mp_parts P = [k0; k1] -> good_init k0 k1 t -> reachable P t s ->
  lstep s l = Some s' -> done s' = (p, st, RSuccess) :: done s ->
  l = LPEnable p /\ ctl (getp s p) = PAdded st.
Proof.
  intros P k0 k1 t s l s' p st HP I R.
  exact (success_only_enable P k0 k1 s l s' p st (GI_reachable P k0 k1 HP t s I R)).
Qed.
Print Assumptions C06_success_only.

(* Rejection, proposer side.  From the moment Channel.Update of p stages st (LStage, state s0 before
   it) over any continuation ls of the run in which p starts no other proposal, to the moment the call
   returns the peer's rejection (LDiscard from PFail st RRejected): p's current transaction is what it
   was before the call, p is Idle again (mutex released), in phase Acting, nothing staged. *)
Theorem C06_reject : forall P k0 k1 t s0 p st s1 ls s2 s3,
  mp_parts P = [k0; k1] -> good_init k0 k1 t -> reachable P t s0 ->
  lstep s0 (LStage p st) = Some s1 -> lrun s1 ls = Some s2 -> no_stage p ls ->
  ctl (getp s2 p) = PFail st RRejected -> lstep s2 (LDiscard p) = Some s3 ->
  done s3 = (p, st, RRejected) :: done s2 /\
  current (mc (getp s3 p)) = current (mc (getp s0 p)) /\
  ctl (getp s3 p) = Idle /\ ph (mc (getp s3 p)) = Acting /\ staging (mc (getp s3 p)) = None.
Proof.
  intros P k0 k1 t s0 p st s1 ls s2 s3 HP I R.
  exact (reject_proposer_GI P k0 k1 HP s0 p st s1 ls s2 s3 (GI_reachable P k0 k1 HP t s0 I R)).
Qed.
Print Assumptions C06_reject.

(* Rejection, responder side.  From the moment the handler of q takes the mutex for a request
   (LDeliver, state s0 before it) to the moment it has sent the rejection of st (LRSendRej from
   RReject st), over any continuation in which q takes no other request: q's whole machine (phase,
   staged and current transaction) is what it was, q is Idle again, in phase Acting, nothing staged. *)
Theorem C06_reject_peer : forall P k0 k1 t s0 q st s1 ls s2 s3,
  mp_parts P = [k0; k1] -> good_init k0 k1 t -> reachable P t s0 ->
  lstep s0 (LDeliver q) = Some s1 -> lrun s1 ls = Some s2 -> no_deliver q ls ->
  ctl (getp s2 q) = RReject st -> lstep s2 (LRSendRej q) = Some s3 ->
  mc (getp s3 q) = mc (getp s0 q) /\ ctl (getp s3 q) = Idle /\
  ph (mc (getp s3 q)) = Acting /\ staging (mc (getp s3 q)) = None.
Proof.
  intros P k0 k1 t s0 q st s1 ls s2 s3 HP I R.
  exact (reject_responder_GI P k0 k1 HP s0 q st s1 ls s2 s3 (GI_reachable P k0 k1 HP t s0 I R)).
Qed.
Print Assumptions C06_reject_peer.

(* The only steps that change a party's current transaction are its own two enable steps. *)
Theorem C06_current_changes_only_by_enable : forall s l s' p st,
  lstep s l = Some s' -> (forall st', l <> LStage p st') -> in_prop (ctl (getp s' p)) st ->
  in_prop (ctl (getp s p)) st /\ current (mc (getp s' p)) = current (mc (getp s p)).
Proof. exact prop_session_step. Qed.
Print Assumptions C06_current_changes_only_by_enable.

(* The mutex: a party takes a request only when no run of its own holds the machine mutex, and it
   starts a proposal only then. *)
Theorem C06_mutex : forall s p s',
  (lstep s (LDeliver p) = Some s' \/ exists st, lstep s (LStage p st) = Some s') ->
  mutex_held (ctl (getp s p)) = false /\ mutex_held (ctl (getp s' p)) = true.
Proof.
  intros s p s' [H|[st H]]; step_inv H; simp_getp; split; reflexivity.
Qed.
Print Assumptions C06_mutex.

(* The invariant behind the theorems holds in every reachable state. *)
Theorem C06_invariant : forall P k0 k1 t s,
  mp_parts P = [k0; k1] -> good_init k0 k1 t -> reachable P t s -> GI P k0 k1 s.
Proof. intros P k0 k1 t s HP. exact (GI_reachable P k0 k1 HP t s). Qed.
Print Assumptions C06_invariant.

(* Several channels of the same pair of clients: each component of a multi-channel run is a run of
   the one-channel LTS, so all of the above holds per channel. *)
Theorem C06_channels_independent : forall ls ms ms',
  mrun ms ls = Some ms' -> Forall2 (fun s s' => exists ls', lrun s ls' = Some s') ms ms'.
Proof. exact mrun_components. Qed.
Print Assumptions C06_channels_independent.

(* ---------- non-vacuity: a concrete run with two successful updates and a rejection ---------- *)
Definition exP : mparams := mkMP (repeat Byte.x07 32) [1; 2] None None.
Definition exSt (v : N) (a b : Z) : state :=
  mkState (repeat Byte.x07 32) v (mkAlloc [0] [5] [[a; b]] []) None [] false.
Definition exS0 := exSt 0 60 40.
Definition exS1 := exSt 1 55 45.
Definition exS2 := exSt 2 58 42.
Definition exS3 := exSt 3 50 50.
Definition exT : tx := mkTx exS0 [Some (SigOf 1 (enc_state exS0)); Some (SigOf 2 (enc_state exS0))].

Definition propose (p : pid) (s : state) : list label := [LStage p s; LSign p; LSendReq p].
Definition take (q : pid) (b : bool) : list label := [LDeliver q; LCheck q; LDecide q b].
Definition accept_sign_send (q : pid) : list label := [LRStage q; LRAddSig q; LRSign q; LRSendAcc q].
Definition finish_prop (p : pid) : list label := [LRecvAcc p; LPAddSig p].

(* PA proposes exS1, PB accepts, PA completes BEFORE PB's pending enable step; PB proposes exS2,
   PA accepts; PA proposes exS3, PB rejects *)
Definition exRunTo_PAdded : list label :=
  propose PA exS1 ++ take PB true ++ accept_sign_send PB ++ finish_prop PA.
Definition exRun : list label :=
  exRunTo_PAdded ++ [LPEnable PA; LREnable PB]
  ++ propose PB exS2 ++ take PA true ++ accept_sign_send PA ++ [LREnable PA] ++ finish_prop PB ++ [LPEnable PB]
  ++ propose PA exS3 ++ take PB false ++ [LRSendRej PB; LRecvRej PA; LDiscard PA].

Example C06_ex_good_init : good_init 1 2 exT.
Proof.
  split; [|split; [vm_compute; reflexivity|reflexivity]].
  exists (SigOf 1 (enc_state exS0)), (SigOf 2 (enc_state exS0)).
  split; [reflexivity|]. split; vm_compute; reflexivity.
Qed.

Example C06_ex_run :
  match lrun (init_sys exP exT) exRun with
  | Some s =>
      done s = [(PA, exS3, RRejected); (PB, exS2, RSuccess); (PA, exS1, RSuccess)]
      /\ cur_state s PA = Some exS2 /\ cur_state s PB = Some exS2
      /\ ctl (pa s) = Idle /\ ctl (pb s) = Idle /\ net s = []
      /\ flogs s = [exS2; exS1; exS0; exS2; exS1; exS0]
  | None => False
  end.
Proof. vm_compute. repeat split; reflexivity. Qed.

(* the hypotheses of C06_success are met in the middle of that run, with the peer's enable still pending *)
Example C06_ex_success_hypotheses :
  match lrun (init_sys exP exT) exRunTo_PAdded with
  | Some s => reachable exP exT s /\ ctl (getp s PA) = PAdded exS1 /\ ctl (getp s PB) = RSent exS1
              /\ exists s', lstep s (LPEnable PA) = Some s'
  | None => False
  end.
Proof.
  remember (lrun (init_sys exP exT) exRunTo_PAdded) as r eqn:E. vm_compute in E. subst r. cbv beta iota.
  split; [exists exRunTo_PAdded; vm_compute; reflexivity|].
  split; [vm_compute; reflexivity|]. split; [vm_compute; reflexivity|].
  eexists. vm_compute. reflexivity.
Qed.

(* ... and those of C06_reject at its end *)
Definition exPre : list label :=
  exRunTo_PAdded ++ [LPEnable PA; LREnable PB]
  ++ propose PB exS2 ++ take PA true ++ accept_sign_send PA ++ [LREnable PA] ++ finish_prop PB ++ [LPEnable PB].
Definition exSess : list label := [LSign PA; LSendReq PA] ++ take PB false ++ [LRSendRej PB; LRecvRej PA].
Example C06_ex_reject_hypotheses :
  match lrun (init_sys exP exT) exPre with
  | Some s0 =>
      reachable exP exT s0 /\
      match lstep s0 (LStage PA exS3) with
      | Some s1 =>
          match lrun s1 exSess with
          | Some s2 => no_stage PA exSess /\ ctl (getp s2 PA) = PFail exS3 RRejected
                       /\ exists s3, lstep s2 (LDiscard PA) = Some s3
          | None => False
          end
      | None => False
      end
  | None => False
  end.
Proof.
  remember (lrun (init_sys exP exT) exPre) as r eqn:E. vm_compute in E. subst r. cbv beta iota.
  split; [exists exPre; vm_compute; reflexivity|].
  match goal with |- match ?x with _ => _ end => remember x as r1 eqn:E1; vm_compute in E1; subst r1; cbv beta iota end.
  match goal with |- match ?x with _ => _ end => remember x as r2 eqn:E2; vm_compute in E2; subst r2; cbv beta iota end.
  split; [cbn; auto|]. split; [vm_compute; reflexivity|]. eexists. vm_compute. reflexivity.
Qed.

(* the agreement theorem's side condition holds there *)
Example C06_ex_nowrap :
  match lrun (init_sys exP exT) exRun with Some s => nowrap s | None => False end.
Proof.
  remember (lrun (init_sys exP exT) exRun) as r eqn:E. vm_compute in E. subst r. cbv beta iota.
  intros x Hx. unfold flogs in Hx. cbn [pa pb flog app In] in Hx.
  repeat (destruct Hx as [<-|Hx]; [vm_compute; reflexivity|]). elim Hx.
Qed.
