(* Decoders as programs over an abstract reader.  One definition of a decoder is
   run against a flat buffer (C13, C14) and against a chunked stream (C16). *)
From V Require Export Base.Bytes.
From Coq Require Import Arith PeanoNat.
Open Scope nat_scope.

Inductive res (A : Type) : Type := Ok (a : A) | Err | Panic.
Arguments Ok {A} a. Arguments Err {A}. Arguments Panic {A}.

Definition res_map {A B} (f : A -> B) (r : res A) : res B :=
  match r with Ok a => Ok (f a) | Err => Err | Panic => Panic end.
Definition res_bind {A B} (r : res A) (f : A -> res B) : res B :=
  match r with Ok a => f a | Err => Err | Panic => Panic end.

(* Read true n  = io.ReadFull / binary.Read / ByteSlice.Decode of n bytes
   Read false n = ONE call r.Read(buf) with len(buf) = n: the continuation gets
                  what that call returned (1..n bytes, or 0 bytes when n = 0)
   Alloc n      = make([]T, n) / make(map, n) requested before the next check
   Crash        = a Go panic *)
Inductive prog (A : Type) : Type :=
| Ret (a : A)
| Fail
| Crash
| Alloc (n : N) (k : prog A)
| Read (full : bool) (n : nat) (k : bytes -> prog A).
Arguments Ret {A} a. Arguments Fail {A}. Arguments Crash {A}.
Arguments Alloc {A} n k. Arguments Read {A} full n k.

Fixpoint bind {A B} (p : prog A) (f : A -> prog B) : prog B :=
  match p with
  | Ret a => f a
  | Fail => Fail
  | Crash => Crash
  | Alloc n k => Alloc n (bind k f)
  | Read full n k => Read full n (fun bs => bind (k bs) f)
  end.
Notation "x <- p ;; q" := (bind p (fun x => q)) (at level 61, p at next level, right associativity).

Fixpoint run_flat {A} (p : prog A) (bs : bytes) : res (A * bytes) :=
  match p with
  | Ret a => Ok (a, bs)
  | Fail => Err
  | Crash => Panic
  | Alloc _ k => run_flat k bs
  | Read true n k => if n <=? length bs then run_flat (k (firstn n bs)) (skipn n bs) else Err
  | Read false n k =>
      match bs with
      | [] => Err                                  (* io.EOF *)
      | _ => run_flat (k (firstn n bs)) (skipn n bs)
      end
  end.

Lemma run_flat_bind {A B} (p : prog A) (f : A -> prog B) bs :
  run_flat (bind p f) bs =
  match run_flat p bs with Ok (a, r) => run_flat (f a) r | Err => Err | Panic => Panic end.
Proof.
  revert bs; induction p as [a| | |n k IH|full n k IH]; intro bs; cbn [bind run_flat]; try reflexivity.
  - apply IH.
  - destruct full.
    + destruct (n <=? length bs); [apply IH|reflexivity].
    + destruct bs; [reflexivity|apply IH].
Qed.

(* ---- chunked stream: non-empty chunks, stream stays open ---- *)
Fixpoint take_full (n : nat) (cs : list bytes) : option (bytes * list bytes) :=
  match cs with
  | [] => if n =? 0 then Some ([], []) else None
  | c :: cs' =>
      if n <? length c then Some (firstn n c, skipn n c :: cs')
      else match take_full (n - length c) cs' with
           | Some (b, r) => Some (c ++ b, r)
           | None => None
           end
  end.

Definition take_once (n : nat) (cs : list bytes) : option (bytes * list bytes) :=
  match cs with
  | [] => None
  | c :: cs' => if n <? length c then Some (firstn n c, skipn n c :: cs') else Some (c, cs')
  end.

Fixpoint run_chunked {A} (p : prog A) (cs : list bytes) : res (A * list bytes) :=
  match p with
  | Ret a => Ok (a, cs)
  | Fail => Err
  | Crash => Panic
  | Alloc _ k => run_chunked k cs
  | Read true n k =>
      match take_full n cs with Some (b, r) => run_chunked (k b) r | None => Err end
  | Read false n k =>
      match take_once n cs with Some (b, r) => run_chunked (k b) r | None => Err end
  end.

(* every single (non-full) read asks for at most one byte *)
Inductive full_only {A} : prog A -> Prop :=
| fo_ret a : full_only (Ret a)
| fo_fail : full_only Fail
| fo_crash : full_only Crash
| fo_alloc n k : full_only k -> full_only (Alloc n k)
| fo_full n k : (forall bs, full_only (k bs)) -> full_only (Read true n k)
| fo_once n k : n <= 1 -> (forall bs, full_only (k bs)) -> full_only (Read false n k).

Lemma full_only_bind {A B} (p : prog A) (f : A -> prog B) :
  full_only p -> (forall a, full_only (f a)) -> full_only (bind p f).
Proof.
  intros Hp Hf; induction Hp; cbn [bind]; try constructor; auto.
Qed.

Definition nonempty (c : bytes) : Prop := c <> [].

Lemma take_full_spec n cs :
  Forall nonempty cs ->
  match take_full n cs with
  | Some (b, r) => n <= length (concat cs) /\ b = firstn n (concat cs)
                   /\ concat r = skipn n (concat cs) /\ Forall nonempty r
  | None => length (concat cs) < n
  end.
Proof.
  revert n; induction cs as [|c cs IH]; intros n Hne; cbn [take_full concat].
  - destruct (Nat.eqb_spec n 0) as [->|Hn]; cbn; [auto|lia].
  - inversion Hne as [|? ? Hc Hcs]; subst.
    destruct (Nat.ltb_spec n (length c)) as [Hlt|Hge].
    + rewrite app_length. split; [lia|]. split; [|split].
      * rewrite firstn_app. replace (n - length c) with 0 by lia.
        rewrite firstn_O, app_nil_r. reflexivity.
      * cbn [concat]. rewrite skipn_app. replace (n - length c) with 0 by lia.
        rewrite skipn_O. reflexivity.
      * constructor; [|exact Hcs]. unfold nonempty. intro E.
        assert (L : length (skipn n c) = 0) by (rewrite E; reflexivity).
        rewrite skipn_length in L. lia.
    + specialize (IH (n - length c) Hcs).
      destruct (take_full (n - length c) cs) as [[b r]|].
      * destruct IH as (H1 & H2 & H3 & H4). rewrite app_length.
        split; [lia|]. split; [|split; [|exact H4]].
        -- rewrite firstn_app, H2. rewrite (firstn_all2 c) by lia. reflexivity.
        -- rewrite skipn_app, H3. rewrite (skipn_all2 c) by lia. reflexivity.
      * rewrite app_length. lia.
Qed.

Lemma take_once_spec n cs :
  n <= 1 -> Forall nonempty cs ->
  match take_once n cs with
  | Some (b, r) => concat cs <> [] /\ b = firstn n (concat cs)
                   /\ concat r = skipn n (concat cs) /\ Forall nonempty r
  | None => concat cs = []
  end.
Proof.
  intros Hn Hne. destruct cs as [|c cs]; cbn [take_once concat]; [reflexivity|].
  inversion Hne as [|? ? Hc Hcs]; subst.
  assert (Lc : 0 < length c) by (destruct c; [elim Hc; reflexivity|cbn; lia]).
  destruct (Nat.ltb_spec n (length c)) as [Hlt|Hge].
  - split; [destruct c; [elim Hc; reflexivity|discriminate]|]. split; [|split].
    + rewrite firstn_app. replace (n - length c) with 0 by lia.
      rewrite firstn_O, app_nil_r. reflexivity.
    + cbn [concat]. rewrite skipn_app. replace (n - length c) with 0 by lia.
      rewrite skipn_O. reflexivity.
    + constructor; [|exact Hcs]. intro E.
      assert (L : length (skipn n c) = 0) by (rewrite E; reflexivity).
      rewrite skipn_length in L. lia.
  - assert (length c = 1) by lia. assert (n = 1) by lia. subst n.
    split; [destruct c; [elim Hc; reflexivity|discriminate]|]. split; [|split; [|exact Hcs]].
    + rewrite firstn_app. rewrite (firstn_all2 c) by lia. replace (1 - length c) with 0 by lia.
      rewrite firstn_O, app_nil_r. reflexivity.
    + rewrite skipn_app. rewrite (skipn_all2 c) by lia. replace (1 - length c) with 0 by lia.
      rewrite skipn_O. reflexivity.
Qed.

Definition flatten_res {A} (r : res (A * list bytes)) : res (A * bytes) :=
  res_map (fun '(a, cs) => (a, concat cs)) r.

Theorem chunk_invariant {A} (p : prog A) :
  full_only p -> forall cs, Forall nonempty cs ->
  flatten_res (run_chunked p cs) = run_flat p (concat cs).
Proof.
  intro Hp; induction Hp as [a| | |n k Hk IH|n k Hk IH|n k Hn Hk IH]; intros cs Hne;
    cbn [run_chunked run_flat flatten_res res_map]; try reflexivity.
  - apply IH; exact Hne.
  - pose proof (take_full_spec n cs Hne) as S.
    destruct (take_full n cs) as [[b r]|].
    + destruct S as (H1 & H2 & H3 & H4).
      destruct (Nat.leb_spec n (length (concat cs))); [|lia].
      rewrite <- H2, <- H3. apply IH; exact H4.
    + destruct (Nat.leb_spec n (length (concat cs))); [lia|reflexivity].
  - pose proof (take_once_spec n cs Hn Hne) as S.
    destruct (take_once n cs) as [[b r]|].
    + destruct S as (H1 & H2 & H3 & H4).
      destruct (concat cs) as [|x xs] eqn:E; [elim H1; reflexivity|].
      rewrite <- H2, <- H3. apply IH; exact H4.
    + rewrite S. reflexivity.
Qed.

(* ---- absence of panics, compositional ---- *)
Inductive safe {A} : prog A -> Prop :=
| safe_ret a : safe (Ret a)
| safe_fail : safe Fail
| safe_alloc n k : safe k -> safe (Alloc n k)
| safe_read full n k : (forall bs, safe (k bs)) -> safe (Read full n k).

Lemma safe_bind {A B} (p : prog A) (f : A -> prog B) :
  safe p -> (forall a, safe (f a)) -> safe (bind p f).
Proof. intros Hp Hf; induction Hp; cbn [bind]; try constructor; auto. Qed.

Lemma safe_no_panic {A} (p : prog A) : safe p -> forall bs, run_flat p bs <> Panic.
Proof.
  intro Hp; induction Hp as [a| |n k Hk IH|full n k Hk IH]; intro bs; cbn [run_flat]; try discriminate.
  - apply IH.
  - destruct full.
    + destruct (n <=? length bs); [apply IH|discriminate].
    + destruct bs; [discriminate|apply IH].
Qed.

Lemma safe_no_panic_chunked {A} (p : prog A) : safe p -> forall cs, run_chunked p cs <> Panic.
Proof.
  intro Hp; induction Hp as [a| |n k Hk IH|full n k Hk IH]; intro cs; cbn [run_chunked]; try discriminate.
  - apply IH.
  - destruct full.
    + destruct (take_full n cs) as [[b r]|]; [apply IH|discriminate].
    + destruct (take_once n cs) as [[b r]|]; [apply IH|discriminate].
Qed.

(* every allocation requested along any path is bounded by lim; a full read of n bytes hands exactly
   n bytes to its continuation, a single read at most n *)
Inductive alloc_bounded {A} (lim : N) : prog A -> Prop :=
| ab_ret a : alloc_bounded lim (Ret a)
| ab_fail : alloc_bounded lim Fail
| ab_crash : alloc_bounded lim Crash
| ab_alloc n k : (n <= lim)%N -> alloc_bounded lim k -> alloc_bounded lim (Alloc n k)
| ab_read_full n k : (forall bs, length bs = n -> alloc_bounded lim (k bs)) -> alloc_bounded lim (Read true n k)
| ab_read_once n k : (forall bs, length bs <= n -> alloc_bounded lim (k bs)) -> alloc_bounded lim (Read false n k).

Lemma alloc_bounded_bind {A B} lim (p : prog A) (f : A -> prog B) :
  alloc_bounded lim p -> (forall a, alloc_bounded lim (f a)) -> alloc_bounded lim (bind p f).
Proof. intros Hp Hf; induction Hp; cbn [bind]; try constructor; auto. Qed.
