(* Bytes, fixed-width integers, hex literals.  Base layer: definitions + lemmas. *)
From Coq Require Export Bool String Ascii.
From Coq Require Export List NArith ZArith Lia.
From Coq Require Import Strings.Byte Arith PeanoNat ZifyN ZifyNat ZifyBool.
Export ListNotations.
Open Scope N_scope.

Definition byte := Byte.byte.
Definition bytes := list byte.

Definition byte_of_N (n : N) : byte :=
  match Byte.of_N (n mod 256) with Some b => b | None => Byte.x00 end.

Lemma to_N_lt (b : byte) : Byte.to_N b < 256.
Proof. pose proof (Byte.to_N_bounded b). lia. Qed.

Lemma to_of_N (n : N) : Byte.to_N (byte_of_N n) = n mod 256.
Proof.
  unfold byte_of_N. destruct (Byte.of_N (n mod 256)) eqn:E.
  - apply Byte.to_of_N in E. exact E.
  - apply Byte.of_N_None_iff in E. pose proof (N.mod_lt n 256). lia.
Qed.

Lemma of_to_N (b : byte) : byte_of_N (Byte.to_N b) = b.
Proof.
  unfold byte_of_N. rewrite N.mod_small by apply to_N_lt.
  rewrite Byte.of_to_N. reflexivity.
Qed.

Definition byte_eqb (a b : byte) : bool := Byte.eqb a b.
Lemma byte_eqb_eq a b : byte_eqb a b = true <-> a = b.
Proof. unfold byte_eqb. split; intro H.
  - apply Byte.byte_dec_bl in H. exact H.
  - apply Byte.byte_dec_lb. exact H. Qed.

Fixpoint bytes_eqb (a b : bytes) : bool :=
  match a, b with
  | [], [] => true
  | x :: a', y :: b' => byte_eqb x y && bytes_eqb a' b'
  | _, _ => false
  end.
Lemma bytes_eqb_eq a b : bytes_eqb a b = true <-> a = b.
Proof.
  revert b; induction a as [|x a IH]; intros [|y b]; cbn [bytes_eqb]; split; intro H;
    try reflexivity; try discriminate.
  - apply andb_true_iff in H as [H1 H2]. apply byte_eqb_eq in H1. apply IH in H2. congruence.
  - injection H as -> ->. apply andb_true_iff; split; [apply byte_eqb_eq|apply IH]; reflexivity.
Qed.

(* little-endian fixed width *)
Fixpoint enc_le (k : nat) (n : N) : bytes :=
  match k with O => [] | S k' => byte_of_N n :: enc_le k' (n / 256) end.
Fixpoint dec_le (bs : bytes) : N :=
  match bs with [] => 0 | b :: r => Byte.to_N b + 256 * dec_le r end.

Lemma enc_le_length k n : length (enc_le k n) = k.
Proof. revert n; induction k as [|k IH]; intro n; cbn [enc_le length]; [|rewrite IH]; reflexivity. Qed.

Lemma dec_le_bound bs : dec_le bs < 256 ^ N.of_nat (length bs).
Proof.
  induction bs as [|b r IH]; cbn [dec_le length].
  - cbn. lia.
  - rewrite Nat2N.inj_succ, N.pow_succ_r'. pose proof (to_N_lt b). lia.
Qed.

Lemma dec_enc_le k n : n < 256 ^ N.of_nat k -> dec_le (enc_le k n) = n.
Proof.
  revert n; induction k as [|k IH]; intros n H.
  - cbn in H. cbn. lia.
  - cbn [enc_le dec_le]. rewrite to_of_N.
    rewrite Nat2N.inj_succ, N.pow_succ_r' in H.
    rewrite IH.
    + pose proof (N.div_mod' n 256). lia.
    + apply N.div_lt_upper_bound; lia.
Qed.

Lemma enc_dec_le bs : enc_le (length bs) (dec_le bs) = bs.
Proof.
  induction bs as [|b r IH]; cbn [length enc_le dec_le]; [reflexivity|].
  pose proof (to_N_lt b) as Hb.
  assert (E1 : (Byte.to_N b + 256 * dec_le r) mod 256 = Byte.to_N b).
  { generalize (dec_le r); intro d. zify. Z.div_mod_to_equations. lia. }
  assert (E2 : (Byte.to_N b + 256 * dec_le r) / 256 = dec_le r).
  { generalize (dec_le r); intro d. zify. Z.div_mod_to_equations. lia. }
  rewrite E2, IH. f_equal.
  unfold byte_of_N. rewrite E1. rewrite Byte.of_to_N. reflexivity.
Qed.

(* big-endian = reversed little-endian *)
Definition enc_be (k : nat) (n : N) : bytes := rev (enc_le k n).
Definition dec_be (bs : bytes) : N := dec_le (rev bs).
Lemma enc_be_length k n : length (enc_be k n) = k.
Proof. unfold enc_be. rewrite rev_length. apply enc_le_length. Qed.
Lemma dec_enc_be k n : n < 256 ^ N.of_nat k -> dec_be (enc_be k n) = n.
Proof. intro H. unfold dec_be, enc_be. rewrite rev_involutive. apply dec_enc_le; exact H. Qed.
Lemma enc_dec_be bs : enc_be (length bs) (dec_be bs) = bs.
Proof. unfold dec_be, enc_be. rewrite <- (rev_length bs), enc_dec_le. apply rev_involutive. Qed.

(* two's complement int32 carried in an N < 2^32 *)
Definition s32_of_u32 (n : N) : Z := if n <? 2147483648 then Z.of_N n else Z.of_N n - 4294967296.
Definition u32_of_s32 (z : Z) : N := Z.to_N (z mod 4294967296).
Lemma s32_u32 z : (-2147483648 <= z < 2147483648)%Z -> s32_of_u32 (u32_of_s32 z) = z.
Proof.
  intro H. unfold s32_of_u32, u32_of_s32.
  destruct (Z.to_N (z mod 4294967296) <? 2147483648) eqn:E.
  - apply N.ltb_lt in E. lia.
  - apply N.ltb_ge in E. lia.
Qed.

(* hex literals: the harness ships bytes as strings *)
Definition nib (c : ascii) : N :=
  let n := N_of_ascii c in
  if (48 <=? n) && (n <=? 57) then n - 48
  else if (97 <=? n) && (n <=? 102) then n - 87
  else if (65 <=? n) && (n <=? 70) then n - 55 else 0.
Fixpoint unhex (s : string) : bytes :=
  match s with
  | String a (String b r) => byte_of_N (16 * nib a + nib b) :: unhex r
  | _ => []
  end.

Fixpoint list_eqb {A} (eqb : A -> A -> bool) (a b : list A) : bool :=
  match a, b with
  | [], [] => true
  | x :: a', y :: b' => eqb x y && list_eqb eqb a' b'
  | _, _ => false
  end.
Lemma list_eqb_eq {A} (eqb : A -> A -> bool) :
  (forall x y, eqb x y = true <-> x = y) -> forall a b, list_eqb eqb a b = true <-> a = b.
Proof.
  intros Heq a; induction a as [|x a IH]; intros [|y b]; cbn [list_eqb]; split; intro H;
    try reflexivity; try discriminate.
  - apply andb_true_iff in H as [H1 H2]. apply Heq in H1. apply IH in H2. congruence.
  - injection H as -> ->. apply andb_true_iff; split; [apply Heq|apply IH]; reflexivity.
Qed.
