(* The 17 wire message types and the native envelope (wire/encode.go, wire/controlmsgs.go,
   wire/account.go, client/proposalmsgs.go, updatemsgs.go, syncmsgs.go, serialize.go,
   wire/perunio/serializer).  Definitions only. *)
From V Require Export Model.Channel.
Open Scope N_scope.

Record baseprop := mkBP {
  bp_id : bytes; bp_cd : N; bp_nonce : bytes; bp_app : option bytes; bp_data : bytes;
  bp_bals : alloc; bp_fa : list (list Z); bp_aux : bytes }.

Inductive msg :=
| MPing (t : N) | MPong (t : N)                    (* time.Time as the uint64 image of UnixNano *)
| MShutdown (reason : bytes)
| MAuthResponse (sg : bytes)
| MLedgerProp (b : baseprop) (part : amap) (peers : list amap)
| MLedgerAcc (pid nonce : bytes) (part : amap)
| MSubProp (b : baseprop) (parent : bytes)
| MSubAcc (pid nonce : bytes)
| MVirtProp (b : baseprop) (proposer : amap) (peers : list amap) (parents : list bytes) (imaps : list (list N))
| MVirtAcc (pid nonce : bytes) (responder : amap)
| MPropRej (pid reason : bytes)
| MUpdate (s : state) (actor : N) (sg : bytes)
| MVFund (s : state) (actor : N) (sg : bytes) (ip : params) (ist : state) (imap : list N) (isigs : sigs)
| MVSettle (s : state) (actor : N) (sg : bytes) (fp : params) (fst_ : state) (fsigs : sigs)
| MUpdateAcc (id : bytes) (ver : N) (sg : bytes)
| MUpdateRej (id : bytes) (ver : N) (reason : bytes)
| MSync (phase : N) (t : txv).

Definition msg_type (m : msg) : N :=
  match m with
  | MPing _ => 0 | MPong _ => 1 | MShutdown _ => 2 | MAuthResponse _ => 3
  | MLedgerProp _ _ _ => 4 | MLedgerAcc _ _ _ => 5 | MSubProp _ _ => 6 | MSubAcc _ _ => 7
  | MVirtProp _ _ _ _ _ => 8 | MVirtAcc _ _ _ => 9 | MPropRej _ _ => 10
  | MUpdate _ _ _ => 11 | MVFund _ _ _ _ _ _ _ => 12 | MVSettle _ _ _ _ _ _ => 13
  | MUpdateAcc _ _ _ => 14 | MUpdateRej _ _ _ => 15 | MSync _ _ => 16
  end.

(* ---- encoders ---- *)
Definition enc_ramaps (l : list amap) : bytes := enc_i32 (Z.of_nat (length l)) ++ cat enc_amap l.
Definition enc_ids (l : list bytes) : bytes := enc_u16 (len l) ++ cat (fun x => x) l.
Definition enc_imap (l : list N) : bytes := enc_u16 (len l) ++ cat enc_u16 l.
Definition enc_imaps (l : list (list N)) : bytes := enc_u16 (len l) ++ cat enc_imap l.
Definition enc_baseprop (b : baseprop) : bytes :=
  bp_id b ++ enc_u64 (bp_cd b) ++ bp_nonce b ++ enc_optapp (bp_app b) ++ enc_marsh (bp_data b)
  ++ enc_alloc (bp_bals b) ++ enc_balances (bp_fa b) ++ bp_aux b.
Definition enc_update (s : state) (actor : N) (sg : bytes) : bytes := enc_state s ++ enc_u16 actor ++ sg.

Definition enc_msg_body (m : msg) : bytes :=
  match m with
  | MPing t | MPong t => enc_u64 t
  | MShutdown r => enc_string r
  | MAuthResponse sg => enc_u32be (len sg) ++ sg
  | MLedgerProp b part peers => enc_baseprop b ++ enc_amap part ++ enc_ramaps peers
  | MLedgerAcc pid nonce part => pid ++ nonce ++ enc_amap part
  | MSubProp b parent => enc_baseprop b ++ parent
  | MSubAcc pid nonce => pid ++ nonce
  | MVirtProp b proposer peers parents imaps =>
      enc_baseprop b ++ enc_amap proposer ++ enc_ramaps peers ++ enc_ids parents ++ enc_imaps imaps
  | MVirtAcc pid nonce resp => pid ++ nonce ++ enc_amap resp
  | MPropRej pid r => pid ++ enc_string r
  | MUpdate s a sg => enc_update s a sg
  | MVFund s a sg ip ist imap isigs =>
      enc_update s a sg ++ enc_params ip ++ enc_state ist ++ enc_imap imap ++ enc_sigs isigs
  | MVSettle s a sg fp fs fsigs => enc_update s a sg ++ enc_params fp ++ enc_state fs ++ enc_sigs fsigs
  | MUpdateAcc id v sg => id ++ enc_u64 v ++ sg
  | MUpdateRej id v r => id ++ enc_u64 v ++ enc_string r
  | MSync ph t => enc_u8 ph ++ enc_tx t
  end.
Definition enc_msg (m : msg) : bytes := enc_u8 (msg_type m) ++ enc_msg_body m.

Record envelope := mkEnv { e_sender : amap; e_recipient : amap; e_msg : msg }.
Definition enc_envelope (e : envelope) : bytes :=
  enc_amap (e_sender e) ++ enc_amap (e_recipient e) ++ enc_msg (e_msg e).

(* ---- decoders ---- *)
Definition dec_ids : prog (list bytes) := l <- dec_u16 ;; Alloc l (dec_n (N.to_nat l) (dec_fixed 32)).
Definition dec_imap : prog (list N) := l <- dec_u16 ;; Alloc l (dec_n (N.to_nat l) dec_u16).
Definition dec_imaps : prog (list (list N)) := l <- dec_u16 ;; Alloc l (dec_n (N.to_nat l) dec_imap).

Definition dec_baseprop (rs : resolver) : prog baseprop :=
  id <- dec_fixed 32 ;;
  cd <- dec_u64 ;;
  nonce <- dec_fixed 32 ;;
  app <- dec_optapp rs ;;
  d <- dec_data (option_map snd app) ;;
  bals <- dec_alloc ;;
  fa <- dec_balances ;;
  aux <- dec_fixed 256 ;;
  Ret (mkBP id cd nonce (option_map fst app) d bals fa aux).

Definition dec_update (rs : resolver) : prog (state * N * bytes) :=
  s <- dec_state rs ;; a <- dec_u16 ;; sg <- dec_fixed sig_len ;; Ret (s, a, sg).

(* the largest single read the model performs for the u32-prefixed AuthResponse signature: a longer
   declared length can only fail on inputs shorter than that (see DESIGN.md, trusted base) *)
Definition auth_cap : N := 1048576.

Definition dec_msg_body (rs : resolver) (t : N) : prog msg :=
  if t =? 0 then x <- dec_u64 ;; Ret (MPing x)
  else if t =? 1 then x <- dec_u64 ;; Ret (MPong x)
  else if t =? 2 then r <- dec_string ;; Ret (MShutdown r)
  else if t =? 3 then
    l <- dec_u32be ;;
    Alloc l (if auth_cap <? l then Read true (N.to_nat auth_cap + 1) (fun _ => Fail)
             else Read true (N.to_nat l) (fun sg => Ret (MAuthResponse sg)))
  else if t =? 4 then
    b <- dec_baseprop rs ;; part <- dec_wamap ;; peers <- dec_ramaps ;;
    if (len peers <? 2) || (MaxNumParts <? len peers) then Fail else Ret (MLedgerProp b part peers)
  else if t =? 5 then
    pid <- dec_fixed 32 ;; nonce <- dec_fixed 32 ;; part <- dec_wamap ;; Ret (MLedgerAcc pid nonce part)
  else if t =? 6 then b <- dec_baseprop rs ;; parent <- dec_fixed 32 ;; Ret (MSubProp b parent)
  else if t =? 7 then pid <- dec_fixed 32 ;; nonce <- dec_fixed 32 ;; Ret (MSubAcc pid nonce)
  else if t =? 8 then
    b <- dec_baseprop rs ;; pr <- dec_wamap ;; peers <- dec_ramaps ;; parents <- dec_ids ;;
    imaps <- dec_imaps ;; Ret (MVirtProp b pr peers parents imaps)
  else if t =? 9 then
    pid <- dec_fixed 32 ;; nonce <- dec_fixed 32 ;; r <- dec_wamap ;; Ret (MVirtAcc pid nonce r)
  else if t =? 10 then pid <- dec_fixed 32 ;; r <- dec_string ;; Ret (MPropRej pid r)
  else if t =? 11 then u <- dec_update rs ;; let '(s, a, sg) := u in Ret (MUpdate s a sg)
  else if t =? 12 then
    u <- dec_update rs ;; ip <- dec_params rs ;; ist <- dec_state rs ;; imap <- dec_imap ;;
    isigs <- dec_sigs (N.to_nat (num_parts (al_bals (st_alloc ist)))) ;;
    let '(s, a, sg) := u in Ret (MVFund s a sg ip ist imap isigs)
  else if t =? 13 then
    u <- dec_update rs ;; fp <- dec_params rs ;; fs <- dec_state rs ;;
    fsigs <- dec_sigs (N.to_nat (num_parts (al_bals (st_alloc fs)))) ;;
    let '(s, a, sg) := u in Ret (MVSettle s a sg fp fs fsigs)
  else if t =? 14 then id <- dec_fixed 32 ;; v <- dec_u64 ;; sg <- dec_fixed sig_len ;; Ret (MUpdateAcc id v sg)
  else if t =? 15 then id <- dec_fixed 32 ;; v <- dec_u64 ;; r <- dec_string ;; Ret (MUpdateRej id v r)
  else if t =? 16 then ph <- dec_u8 ;; tx <- dec_tx rs ;; Ret (MSync ph tx)
  else Fail.
Definition dec_msg (rs : resolver) : prog msg := t <- dec_u8 ;; dec_msg_body rs t.
Definition dec_envelope (rs : resolver) : prog envelope :=
  s <- dec_ramap ;; r <- dec_ramap ;; m <- dec_msg rs ;; Ret (mkEnv s r m).

(* ---- well-formed messages: the envelope of the format ---- *)
Definition id32 (b : bytes) : bool := (length b =? 32)%nat.
Definition str_ok (b : bytes) : bool := len b <? 65536.
Definition u64_ok (n : N) : bool := n <? 18446744073709551616.
Definition imap_ok (l : list N) : bool := (len l <? 65536) && forallb (fun x => x <? 65536) l.
Definition baseprop_wf (rs : resolver) (b : baseprop) : bool :=
  id32 (bp_id b) && u64_ok (bp_cd b) && id32 (bp_nonce b)
  && data_ok rs (bp_app b) (bp_data b) && str_ok (bp_data b)
  && alloc_wf (bp_bals b) && balances_wf (bp_fa b) && (length (bp_aux b) =? 256)%nat.
Definition update_wf (rs : resolver) (s : state) (a : N) (sg : bytes) : bool :=
  state_wf_rs rs s && (a <? 65536) && (length sg =? sig_len)%nat.
Definition ramaps_wf (l : list amap) : bool := (len l <? 2147483648) && (len l <=? many_cap) && forallb ramap_wf l.
Definition msg_wf (rs : resolver) (m : msg) : bool :=
  match m with
  | MPing t | MPong t => u64_ok t
  | MShutdown r => str_ok r
  | MAuthResponse sg => len sg <=? auth_cap
  | MLedgerProp b part peers =>
      baseprop_wf rs b && wamap_wf part && ramaps_wf peers && (2 <=? len peers) && (len peers <=? MaxNumParts)
  | MLedgerAcc pid nonce part => id32 pid && id32 nonce && wamap_wf part
  | MSubProp b parent => baseprop_wf rs b && id32 parent
  | MSubAcc pid nonce => id32 pid && id32 nonce
  | MVirtProp b pr peers parents imaps =>
      baseprop_wf rs b && wamap_wf pr && ramaps_wf peers
      && (len parents <? 65536) && forallb id32 parents
      && (len imaps <? 65536) && forallb imap_ok imaps
  | MVirtAcc pid nonce r => id32 pid && id32 nonce && wamap_wf r
  | MPropRej pid r => id32 pid && str_ok r
  | MUpdate s a sg => update_wf rs s a sg
  | MVFund s a sg ip ist imap isigs =>
      update_wf rs s a sg && params_wf rs ip && state_wf_rs rs ist && imap_ok imap
      && (len isigs =? num_parts (al_bals (st_alloc ist))) && sigs_wf isigs
  | MVSettle s a sg fp fs fsigs =>
      update_wf rs s a sg && params_wf rs fp && state_wf_rs rs fs
      && (len fsigs =? num_parts (al_bals (st_alloc fs))) && sigs_wf fsigs
  | MUpdateAcc id v sg => id32 id && u64_ok v && (length sg =? sig_len)%nat
  | MUpdateRej id v r => id32 id && u64_ok v && str_ok r
  | MSync ph t => (ph <? 256) && tx_wf rs t
  end.
Definition envelope_wf (rs : resolver) (e : envelope) : bool :=
  ramap_wf (e_sender e) && ramap_wf (e_recipient e) && msg_wf rs (e_msg e).
