(* channel/persistence/statemachine.go and channel/persistence/keyvalue/{persister,restorer,persistedstate,
   persistrestorer}.go over a sortedkv store (memorydb / LevelDB), after the repairs
   "Staged rewrites the signature keys" and "ChannelRemoved deletes the parent key".
   Definitions only (no proofs): the file must still run when a proof breaks. *)
From V Require Export Model.Machine.
Open Scope N_scope.

(* ---------- byte order of keys ---------- *)
Fixpoint bytes_cmp (a b : bytes) : comparison :=
  match a, b with
  | [], [] => Eq
  | [], _ :: _ => Lt
  | _ :: _, [] => Gt
  | x :: a', y :: b' =>
      match N.compare (Byte.to_N x) (Byte.to_N y) with Eq => bytes_cmp a' b' | c => c end
  end.

(* ---------- structured keys ----------
   channel table  "Chan:" ++ id ++ ":" ++ field      (channelDB, dbPutSourceField, sigKey)
   peer table     "Peer:" ++ enc(peer) ++ ":channel:" ++ id   (peerChannelKey) *)
Inductive field :=
| FCurrent | FIndex | FParams | FParent | FPeers | FPhase
| FSig (w i : N)          (* "staging:sig:" ++ index i in decimal, zero padded to width w *)
| FStaging.               (* "staging:state" *)
Definition field_rank (f : field) : N :=
  match f with
  | FCurrent => 0 | FIndex => 1 | FParams => 2 | FParent => 3 | FPeers => 4 | FPhase => 5
  | FSig _ _ => 6 | FStaging => 7
  end.
Definition field_cmp (f g : field) : comparison :=
  match f, g with
  | FSig w i, FSig w' i' => match N.compare w w' with Eq => N.compare i i' | c => c end
  | _, _ => N.compare (field_rank f) (field_rank g)
  end.

Inductive key := KChan (id : bytes) (f : field) | KPeer (p : bytes) (id : bytes).
Definition key_cmp (a b : key) : comparison :=
  match a, b with
  | KChan i f, KChan j g => match bytes_cmp i j with Eq => field_cmp f g | c => c end
  | KChan _ _, KPeer _ _ => Lt
  | KPeer _ _, KChan _ _ => Gt
  | KPeer p i, KPeer q j => match bytes_cmp p q with Eq => bytes_cmp i j | c => c end
  end.

(* sigKey / sigKeys: width = ceil(log10 numParts)  (numParts <= MaxNumParts = 1024) *)
Definition sig_width (n : N) : N :=
  if n <=? 1 then 0 else if n <=? 10 then 1 else if n <=? 100 then 2 else if n <=? 1000 then 3 else 4.

(* the real key bytes (used to check the structural order against the stores' byte order) *)
Definition str (s : string) : bytes := list_byte_of_string s.
Definition digit (d : N) : byte := byte_of_N (48 + d).
Fixpoint dec_min (fuel : nat) (i : N) : bytes :=       (* %d *)
  match fuel with
  | O => [digit (i mod 10)]
  | S f => if i <? 10 then [digit i] else dec_min f (i / 10) ++ [digit (i mod 10)]
  end.
Definition dec_pad (w i : N) : bytes :=                 (* %0*d *)
  let d := dec_min 20 i in repeat (digit 0) (N.to_nat w - length d) ++ d.
Definition render_field (f : field) : bytes :=
  match f with
  | FCurrent => str "current" | FIndex => str "index" | FParams => str "params"
  | FParent => str "parent" | FPeers => str "peers" | FPhase => str "phase"
  | FSig w i => str "staging:sig:" ++ dec_pad w i
  | FStaging => str "staging:state"
  end.
Definition render_key (k : key) : bytes :=
  match k with
  | KChan id f => str "Chan:" ++ id ++ str ":" ++ render_field f
  | KPeer p id => str "Peer:" ++ p ++ str ":channel:" ++ id
  end.

(* ---------- values (stored decoded; VEmpty = zero-length value) ---------- *)
Inductive value :=
| VTx (t : option tx)            (* channel.Transaction; None = stateSet 0 *)
| VIdx (i : N)
| VParams (p : mparams)
| VParent (o : option bytes)     (* optChannelIDEnc *)
| VPeers (l : list bytes)        (* wire.AddressMapArray, each peer as its encoded AddressDecMap *)
| VPhase (p : phase)
| VSig (g : sigtok)
| VState (s : state)             (* PersistedState with a non-nil state *)
| VEmpty.

(* ---------- sorted finite maps as strictly sorted association lists ---------- *)
Section SMap.
  Context {K V : Type} (cmp : K -> K -> comparison).
  Fixpoint sput (k : K) (v : V) (s : list (K * V)) : list (K * V) :=
    match s with
    | [] => [(k, v)]
    | (k', v') :: r =>
        match cmp k k' with
        | Lt => (k, v) :: s
        | Eq => (k, v) :: r
        | Gt => (k', v') :: sput k v r
        end
    end.
  Fixpoint sdel (k : K) (s : list (K * V)) : list (K * V) :=
    match s with
    | [] => []
    | (k', v') :: r =>
        match cmp k k' with
        | Lt => s
        | Eq => r
        | Gt => (k', v') :: sdel k r
        end
    end.
  Fixpoint sfind (k : K) (s : list (K * V)) : option V :=
    match s with
    | [] => None
    | (k', v') :: r => match cmp k k' with Eq => Some v' | _ => sfind k r end
    end.
End SMap.

Definition entry : Type := key * value.
Definition store := list entry.

(* one store write; an atomic write is one Batch.Apply (several writes) or one direct Put *)
Inductive wr := WPut (k : key) (v : value) | WDel (k : key).
Definition atomic := list wr.
Definition apply_wr (s : store) (w : wr) : store :=
  match w with WPut k v => sput key_cmp k v s | WDel k => sdel key_cmp k s end.
Definition apply_atomic (s : store) (a : atomic) : store := fold_left apply_wr a s.
Definition apply_atomics (s : store) (l : list atomic) : store := fold_left apply_atomic l s.

(* ---------- persister (keyvalue/persister.go) ---------- *)
Definition chan_id (m : mach) : bytes := mp_id (ps m).
Definition nsigs (m : mach) : nat := length (mp_parts (ps m)).
Definition sig_field (n i : nat) : field := FSig (sig_width (N.of_nat n)) (N.of_nat i).
Definition sig_fields (n : nat) : list field := map (sig_field n) (seq 0 n).       (* sigKeys *)

(* the signature slot as dbPutSourceField writes it: missing slot or nil signature = empty value *)
Definition sig_value (m : mach) (i : N) : value :=
  match staging m with
  | Some t => match nth_error (tx_sigs t) (N.to_nat i) with Some (Some g) => VSig g | _ => VEmpty end
  | None => VEmpty
  end.
(* dbPutSourceField: None = the encoder fails (or the key is not a source field: Go panics there,
   no caller passes such a key) *)
Definition src_field (m : mach) (f : field) : option value :=
  match f with
  | FCurrent => match current m with
                | None => Some (VTx None)
                | Some t => if state_encodable (tx_st t) then Some (VTx (Some t)) else None
                end
  | FIndex => Some (VIdx (me m))
  | FParams => Some (VParams (ps m))
  | FPhase => Some (VPhase (ph m))
  | FStaging => match staging m with
                | None => Some VEmpty
                | Some t => if state_encodable (tx_st t) then Some (VState (tx_st t)) else None
                end
  | FSig _ i => Some (sig_value m i)
  | FParent | FPeers => None
  end.
(* dbPutSource into a batch: all or nothing before Apply *)
Fixpoint put_fields (m : mach) (fs : list field) : option atomic :=
  match fs with
  | [] => Some []
  | f :: r => match src_field m f, put_fields m r with
              | Some v, Some a => Some (WPut (KChan (chan_id m) f) v :: a)
              | _, _ => None
              end
  end.

Definition chan_created (m : mach) (peers : list bytes) (parent : option bytes) : option (list atomic) :=
  match put_fields m ([FCurrent; FIndex; FParams; FPhase; FStaging] ++ sig_fields (nsigs m)) with
  | None => None
  | Some a =>
      Some [ a ++ [WPut (KChan (chan_id m) FParent) (VParent parent);
                   WPut (KChan (chan_id m) FPeers) (VPeers peers)];
             map (fun p => WPut (KPeer p (chan_id m)) VEmpty) peers ]
  end.

(* ChannelRemoved reads params and peers back from the store *)
Definition chan_removed (s : store) (id : bytes) : option (list atomic) :=
  match sfind key_cmp (KChan id FParams) s with
  | Some (VParams p) =>
      match sfind key_cmp (KChan id FPeers) s with
      | Some (VPeers peers) =>
          Some [ map (fun f => WDel (KChan id f))
                     ([FCurrent; FIndex; FParams; FParent; FPeers; FPhase; FStaging]
                        ++ sig_fields (length (mp_parts p)));
                 map (fun q => WDel (KPeer q id)) peers ]
      | _ => None
      end
  | _ => None
  end.

Inductive pcall := PStaged | PSigAdded (i : N) | PEnabled | PPhaseChanged | PRemoved | PNone.
Definition persist (s : store) (m : mach) (c : pcall) : option (list atomic) :=
  match c with
  | PStaged => option_map (fun a => [a]) (put_fields m ([FStaging; FPhase] ++ sig_fields (nsigs m)))
  | PSigAdded i => option_map (fun a => [a]) (put_fields m [FSig (sig_width (N.of_nat (nsigs m))) i])
  | PEnabled => option_map (fun a => [a])
                  (put_fields m ([FStaging; FCurrent; FPhase] ++ sig_fields (nsigs m)))
  | PPhaseChanged => Some [[WPut (KChan (chan_id m) FPhase) (VPhase (ph m))]]     (* direct Put *)
  | PRemoved => chan_removed s (chan_id m)
  | PNone => Some []
  end.

(* ---------- persistence.StateMachine (statemachine.go): machine first, persister second ---------- *)
Definition call_of (m : mach) (o : op) : pcall :=
  match o with
  | OInit _ _ | OUpdate _ _ | OForceUpdate _ _ | OSetProgressing _ | ODiscard => PStaged
  | OSig => PSigAdded (me m)
  | OAddSig i _ => PSigAdded i
  | OEnableInit | OEnableUpdate | OEnableFinal | OSetProgressed _ => PEnabled
  | OSetFunded | OSetRegistering | OSetRegistered | OSetWithdrawing => PPhaseChanged
  | OSetWithdrawn => PRemoved
  | OCheckUpdate _ _ _ _ => PNone       (* embedded method, not wrapped *)
  end.
(* result: machine after, outcome, the atomic writes the persister issues (in order).
   A persister error surfaces as ERR with the machine already changed and nothing written. *)
Definition wrap_step (s : store) (m : mach) (o : op) : mach * out * list atomic :=
  let (m', x) := step m o in
  match x with
  | ERR | PANIC => (m', x, [])
  | _ => match persist s m' (call_of m o) with
         | Some ws => (m', x, ws)
         | None => (m', ERR, [])
         end
  end.

(* ---------- the live channels of a client ---------- *)
Record chan := mkChan { c_m : mach; c_peers : list bytes; c_parent : option bytes }.
Definition world := list (bytes * chan).          (* sorted by channel id *)
Definition wfind (id : bytes) (W : world) : option chan := sfind bytes_cmp id W.

(* ---------- restorer (keyvalue/restorer.go) ---------- *)
(* what a restore returns: persistence.Channel *)
Record rchan := mkRC {
  rc_idx : N; rc_params : mparams; rc_phase : phase; rc_cur : option tx;
  rc_stg : option state; rc_sigs : list (option sigtok);
  rc_peers : list bytes; rc_parent : option bytes }.

(* ChannelIterator: the remaining entries of each underlying iterator, and the sticky error *)
Record iter := mkIt { it_its : list (list entry); it_err : bool }.

Inductive kind := KiTx | KiIdx | KiParams | KiParent | KiPeers | KiPhase | KiSig | KiState.
(* values are stored decoded: a value decodes as the type it was encoded from (C14 round trip);
   decoding it as another type is an error *)
Definition accepts (k : kind) (v : value) : bool :=
  match k, v with
  | KiTx, VTx _ | KiIdx, VIdx _ | KiParams, VParams _ | KiParent, VParent _ | KiPeers, VPeers _
  | KiPhase, VPhase _ | KiSig, VSig _ | KiState, VState _ => true
  | _, _ => false
  end.

Inductive dres := DVal (v : value) | DEmpty | DFalse | DPanic.
(* decodeNext(key, v, opts): the key name is not compared, entries are consumed by position *)
Fixpoint decode_next (allow_end allow_empty : bool) (k : kind) (its : list (list entry)) (err : bool)
  : dres * iter :=
  match its with
  | [] => (DPanic, mkIt [] err)                         (* i.its[0]: index out of range *)
  | [] :: more =>                                       (* recoverFromEmptyIterator *)
      if allow_end then
        match more with
        | [] => (DFalse, mkIt [] err)
        | _ :: _ => decode_next allow_end allow_empty k more err
        end
      else (DFalse, mkIt more true)
  | ((_, v) :: r) :: more =>
      match v with
      | VEmpty => if allow_empty then (DEmpty, mkIt (r :: more) err) else (DFalse, mkIt (r :: more) true)
      | _ => if accepts k v then (DVal v, mkIt (r :: more) false) else (DFalse, mkIt (r :: more) true)
      end
  end.
Definition dn (allow_end allow_empty : bool) (k : kind) (it : iter) : dres * iter :=
  decode_next allow_end allow_empty k (it_its it) (it_err it).

(* the signature loop ignores the result of decodeNext; None = Go panic *)
Fixpoint read_sigs (n : nat) (it : iter) : option (list (option sigtok) * iter) :=
  match n with
  | O => Some ([], it)
  | S n' =>
      match dn false true KiSig it with
      | (DPanic, _) => None
      | (DVal (VSig g), it') =>
          match read_sigs n' it' with Some (l, it'') => Some (Some g :: l, it'') | None => None end
      | (_, it') =>
          match read_sigs n' it' with Some (l, it'') => Some (None :: l, it'') | None => None end
      end
  end.

Inductive nres := NSome (c : rchan) | NNone | NPanic.
Definition dbind (r : dres * iter) (f : value -> iter -> nres * iter) : nres * iter :=
  match r with
  | (DVal v, it) => f v it
  | (DPanic, it) => (NPanic, it)
  | (_, it) => (NNone, it)
  end.
(* ChannelIterator.Next *)
Definition next (it : iter) : nres * iter :=
  match it_its it with
  | [] => (NNone, it)
  | _ :: _ =>
    dbind (dn true false KiTx it) (fun v1 it1 =>
    dbind (dn false false KiIdx it1) (fun v2 it2 =>
    dbind (dn false false KiParams it2) (fun v3 it3 =>
    dbind (dn false false KiParent it3) (fun v4 it4 =>
    dbind (dn false false KiPeers it4) (fun v5 it5 =>
    dbind (dn false false KiPhase it5) (fun v6 it6 =>
      match v1, v2, v3, v4, v5, v6 with
      | VTx cur, VIdx idx, VParams p, VParent par, VPeers prs, VPhase phs =>
          match read_sigs (length (mp_parts p)) it6 with
          | None => (NPanic, it6)
          | Some (sigs, it7) =>
              match dn false true KiState it7 with
              | (DVal (VState s), it8) => (NSome (mkRC idx p phs cur (Some s) sigs prs par), it8)
              | (DEmpty, it8) => (NSome (mkRC idx p phs cur None sigs prs par), it8)
              | (DPanic, it8) => (NPanic, it8)
              | (_, it8) => (NNone, it8)
              end
          end
      | _, _, _, _, _, _ => (NNone, it6)
      end))))))
  end.

Definition chan_prefix (id : bytes) (e : entry) : bool :=
  match fst e with KChan id' _ => bytes_eqb id id' | KPeer _ _ => false end.
Definition is_chan_entry (e : entry) : bool := match fst e with KChan _ _ => true | _ => false end.
Definition peer_prefix (p : bytes) (e : entry) : bool :=
  match fst e with KPeer q _ => bytes_eqb p q | KChan _ _ => false end.
Definition is_peer_entry (e : entry) : bool := match fst e with KPeer _ _ => true | _ => false end.

Inductive rres := ROk (c : rchan) | RNotFound | RErr | RPanic.
(* RestoreChannel *)
Definition restore_chan (s : store) (id : bytes) : rres :=
  match next (mkIt [filter (chan_prefix id) s] false) with
  | (NSome c, it) => if it_err it then RErr else ROk c      (* (channel, it.Close()) *)
  | (NNone, it) => if it_err it then RErr else RNotFound
  | (NPanic, _) => RPanic
  end.

(* for it.Next(ctx) { ... it.Channel() ... }; err := it.Close() *)
Inductive rend := EOk | EErr | EPanic | EFuel.
Fixpoint drain (fuel : nat) (it : iter) : list rchan * rend :=
  match fuel with
  | O => ([], EFuel)
  | S f =>
      match next it with
      | (NSome c, it') => let (l, e) := drain f it' in (c :: l, e)
      | (NNone, it') => ([], if it_err it' then EErr else EOk)
      | (NPanic, _) => ([], EPanic)
      end
  end.
Definition restore_all (s : store) : list rchan * rend :=
  drain (S (length s)) (mkIt [filter is_chan_entry s] false).
Definition peer_chan_ids (s : store) (p : bytes) : list bytes :=
  fold_right (fun e acc => match fst e with KPeer _ id => id :: acc | _ => acc end) []
             (filter (peer_prefix p) s).
Definition restore_peer (s : store) (p : bytes) : list rchan * rend :=
  drain (S (length s)) (mkIt (map (fun id => filter (chan_prefix id) s) (peer_chan_ids s p)) false).

(* ActivePeers: the distinct peer parts of the peer table's keys (a Go map: no order; sorted here) *)
Fixpoint bytes_mem (x : bytes) (l : list bytes) : bool :=
  match l with [] => false | y :: r => bytes_eqb x y || bytes_mem x r end.
Fixpoint dedup (l : list bytes) : list bytes :=
  match l with
  | [] => []
  | x :: r => let d := dedup r in if bytes_mem x d then d else x :: d
  end.
Definition active_peers (s : store) : list bytes :=
  dedup (fold_right (fun e acc => match fst e with KPeer p _ => p :: acc | _ => acc end) [] s).

(* ---------- histories of a client ---------- *)
Inductive wop :=
| WCreate (p : mparams) (idx : N) (peers : list bytes) (parent : option bytes)
| WOp (id : bytes) (o : op)
| WRestart.       (* the process stops between two operations and comes up again *)
Definition is_withdrawn_ok (o : op) (x : out) : bool :=
  match o, x with OSetWithdrawn, OK => true | _, _ => false end.
(* The registry of live channels is the client's: a channel id is created once (ids are hashes over a
   nonce) and operations address live channels; both guards answer ERR without touching anything. *)
(* A restart keeps the store and nothing else: a new PersistRestorer over the same database (it has no
   state of its own besides the database handle), every channel the restorer yields becomes a live
   machine again (channel.restoreMachine: parameters, own index, phase, staging and current transaction
   as restored) and is used further through the new persister. *)
Definition mach_of_rchan (rc : rchan) : mach :=
  mkMach (rc_phase rc) (rc_idx rc) (rc_params rc)
         (match rc_stg rc with Some st => Some (mkTx st (rc_sigs rc)) | None => None end) (rc_cur rc).
Definition chan_of_rchan (rc : rchan) : chan := mkChan (mach_of_rchan rc) (rc_peers rc) (rc_parent rc).
Definition rebuild (l : list rchan) : world :=
  fold_right (fun rc W => sput bytes_cmp (mp_id (rc_params rc)) (chan_of_rchan rc) W) [] l.
Definition wstep (W : world) (s : store) (o : wop) : world * out * list atomic :=
  match o with
  | WCreate p idx peers parent =>
      match wfind (mp_id p) W with
      | Some _ => (W, ERR, [])
      | None =>
          let m := new_machine p idx in
          match chan_created m peers parent with
          | Some ws => (sput bytes_cmp (mp_id p) (mkChan m peers parent) W, OK, ws)
          | None => (W, ERR, [])
          end
      end
  | WOp id o =>
      match wfind id W with
      | None => (W, ERR, [])
      | Some c =>
          let '(m', x, ws) := wrap_step s (c_m c) o in
          if is_withdrawn_ok o x then (sdel bytes_cmp id W, x, ws)
          else (sput bytes_cmp id (mkChan m' (c_peers c) (c_parent c)) W, x, ws)
      end
  | WRestart =>
      let (l, e) := restore_all s in
      (rebuild l, match e with EOk => OK | EPanic => PANIC | _ => ERR end, [])
  end.
Definition wnext (Ws : world * store) (o : wop) : world * store :=
  let '(W', _, ws) := wstep (fst Ws) (snd Ws) o in (W', apply_atomics (snd Ws) ws).
Definition wrun (h : list wop) : world * store := fold_left wnext h ([], []).


(* ---------- what the store is meant to hold: the snapshot of a live channel ---------- *)
Definition staged_sigs (m : mach) : list (option sigtok) :=
  match staging m with Some t => tx_sigs t | None => repeat None (nsigs m) end.
Definition snap_of (c : chan) : rchan :=
  mkRC (me (c_m c)) (ps (c_m c)) (ph (c_m c)) (current (c_m c))
       (option_map tx_st (staging (c_m c))) (staged_sigs (c_m c)) (c_peers c) (c_parent c).
Definition view (W : world) (id : bytes) : rres :=
  match wfind id W with Some c => ROk (snap_of c) | None => RNotFound end.

(* the entries of one live channel, in key order, and the image of a world *)
Definition chan_kvs (id : bytes) (c : chan) : list entry :=
  let m := c_m c in
  [ (KChan id FCurrent, VTx (current m)); (KChan id FIndex, VIdx (me m));
    (KChan id FParams, VParams (ps m)); (KChan id FParent, VParent (c_parent c));
    (KChan id FPeers, VPeers (c_peers c)); (KChan id FPhase, VPhase (ph m)) ]
  ++ map (fun i => (KChan id (sig_field (nsigs m) i), sig_value m (N.of_nat i))) (seq 0 (nsigs m))
  ++ [ (KChan id FStaging, match staging m with Some t => VState (tx_st t) | None => VEmpty end) ].
Definition peer_kvs (id : bytes) (c : chan) : list entry :=
  map (fun p => (KPeer p id, VEmpty)) (c_peers c).
Definition put_all (l : list entry) (s : store) : store :=
  fold_left (fun s e => sput key_cmp (fst e) (snd e) s) l s.
Definition image (W : world) : store :=
  fold_right (fun ic s => put_all (chan_kvs (fst ic) (snd ic) ++ peer_kvs (fst ic) (snd ic)) s) [] W.
