(* Model of /repo/channel/multi: asset.go (assets.LedgerIDs, IsMultiLedgerAssets),
   adjudicator.go (Register/Progress/Withdraw -> dispatch), funder.go (Fund, fundLedgers).
   Definitions only; the lemmas are in Proofs/MultiP.v.

   Concurrency.  dispatch / fundLedgers start one goroutine per ledger id, every goroutine sends
   exactly one value into the buffered channel `errs` (capacity n), the calling goroutine receives
   up to n values and returns at the first non-nil one.  There is no errgroup and no cancellation of
   the siblings: after an early return the other goroutines still perform (and finish) their calls.
   The model is a small-step machine whose labels are the atomic actions of those goroutines
       SGo k   goroutine of ledger k runs up to its sub-call (event EStart), or, if the ledger is
               not in the map, up to its `errs <- not found`
       SFin k  the sub-call of ledger k returns (event EEnd) and the goroutine sends the result
       SRecv   one iteration of the collecting loop (a receive, or the `return nil` after the loop)
   and a schedule is an arbitrary list of labels (a label that is not enabled is a no-op), so every
   interleaving and every completion order of the real code is a schedule. *)
From Coq Require Import Arith PeanoNat.
From V Require Export Base.Prog.
Open Scope nat_scope.

(* ---------- ledger keys, assets ---------- *)

(* multi.LedgerBackendKey{BackendID uint32, LedgerID string} *)
Definition key := (N * string)%type.
Definition key_eqb (a b : key) : bool := N.eqb (fst a) (fst b) && String.eqb (snd a) (snd b).

Inductive asset :=
| AMulti (k : key)   (* implements multi.Asset; LedgerBackendID() has map key k *)
| APlain             (* a channel.Asset that is not a multi.Asset (also the nil interface) *)
| ANilId.            (* a multi.Asset whose LedgerBackendID() is the nil interface: nil dereference *)

Definition kmem (k : key) (l : list key) : bool := existsb (key_eqb k) l.

(* assets.LedgerIDs: the loop with its two variables `seen` (a set) and `ids` *)
Fixpoint ledger_ids_loop (a : list asset) (seen ids : list key) : res (list key) :=
  match a with
  | [] => Ok ids
  | APlain :: _ => Err                                   (* "wrong asset type" *)
  | ANilId :: _ => Panic                                 (* assetID.BackendID() on nil *)
  | AMulti k :: r =>
      if kmem k seen then ledger_ids_loop r seen ids     (* continue *)
      else ledger_ids_loop r (k :: seen) (ids ++ [k])
  end.
Definition ledger_ids (a : list asset) : res (list key) := ledger_ids_loop a [] [].

(* IsMultiLedgerAssets: cur = None            hasMulti = false
                        cur = Some None       hasMulti, id is the nil interface
                        cur = Some (Some k)   hasMulti, id has key k
   NB: compares LedgerID().MapKey() only, not the backend id. *)
Fixpoint is_multi_loop (a : list asset) (cur : option (option key)) : res bool :=
  match a with
  | [] => Ok false
  | APlain :: r => is_multi_loop r cur
  | x :: r =>
      let idx := match x with AMulti k => Some k | _ => None end in
      match cur with
      | None => is_multi_loop r (Some idx)
      | Some None => Panic                               (* id.LedgerID() on nil *)
      | Some (Some k0) =>
          match idx with
          | None => Panic                                (* multiAsset.LedgerBackendID().LedgerID() on nil *)
          | Some k => if String.eqb (snd k0) (snd k) then is_multi_loop r cur else Ok true
          end
      end
  end.
Definition is_multi_ledger (a : list asset) : res bool := is_multi_loop a None.

(* ---------- registries (Adjudicator.adjudicators / Funder.funders) ---------- *)

Definition hid := N.                          (* identity of a registered per-ledger adjudicator/funder *)
Definition registry := list (key * hid).      (* a Go map: most recent registration first, lookup = first match *)

Definition reg_register (r : registry) (k : key) (h : hid) : registry := (k, h) :: r.
Fixpoint reg_lookup (r : registry) (k : key) : option hid :=
  match r with
  | [] => None
  | (k', h) :: r' => if key_eqb k k' then Some h else reg_lookup r' k
  end.
(* a sequence of RegisterAdjudicator / RegisterFunder calls on a fresh object *)
Definition reg_of_ops (ops : list (key * hid)) : registry :=
  fold_left (fun r kh => reg_register r (fst kh) (snd kh)) ops [].

(* ---------- calls, errors, events ---------- *)

Inductive method := MRegister | MProgress | MWithdraw | MFund.
Inductive merr :=
| ENotFound (k : key)        (* "adjudicator not found" / "funder map not found" *)
| ECall (h : hid).           (* the error returned by the sub-call on handler h *)
Inductive outcome :=
| OOk | OErrAsset | OErrDuration | OErr (e : merr) | OPanic.
Inductive event :=
| EStart (m : method) (k : key) (h : hid)               (* sub-call on the handler registered for k begins *)
| EEnd (m : method) (k : key) (h : hid) (ok : bool)     (* ... returns (ok = no error) *)
| ERet (o : outcome).                                   (* the multi-ledger call returns *)

Definition out_of (r : option merr) : outcome := match r with None => OOk | Some e => OErr e end.

(* ---------- dispatch / fundLedgers ---------- *)

Definition task := (key * option hid)%type.   (* one goroutine: ledger id and the result of the map lookup *)
Inductive dlabel := SGo (k : key) | SFin (k : key) | SRecv.

Record dstate := mkD {
  d_new : list task;                 (* goroutines that have not yet reached their call / error send *)
  d_run : list task;                 (* goroutines inside the sub-call *)
  d_done : list task;                (* goroutines that have sent their result, in sending order *)
  d_queue : list (option merr);      (* content of the channel errs (FIFO) *)
  d_left : nat;                      (* remaining iterations of `for range n` *)
  d_ret : option (option merr) }.    (* value returned by dispatch / fundLedgers, once it returned *)

Definition d_init (reg : registry) (ids : list key) : dstate :=
  mkD (map (fun k => (k, reg_lookup reg k)) ids) [] [] [] (length ids) None.

Fixpoint extract (k : key) (l : list task) : option (task * list task) :=
  match l with
  | [] => None
  | t :: r =>
      if key_eqb k (fst t) then Some (t, r)
      else match extract k r with Some (x, r') => Some (x, t :: r') | None => None end
  end.

(* what the goroutine of task t sends; v h = true iff the scripted sub-call on h succeeds *)
Definition tres (v : hid -> bool) (t : task) : option merr :=
  match snd t with
  | None => Some (ENotFound (fst t))
  | Some h => if v h then None else Some (ECall h)
  end.

Definition dstep (m : method) (v : hid -> bool) (s : dstate) (l : dlabel) : dstate * list event :=
  match l with
  | SGo k =>
      match extract k (d_new s) with
      | None => (s, [])
      | Some (t, new') =>
          match snd t with
          | None =>      (* adjs, ok := a.adjudicators[key]; !ok: errs <- not found *)
              (mkD new' (d_run s) (d_done s ++ [t]) (d_queue s ++ [tres v t]) (d_left s) (d_ret s), [])
          | Some h =>    (* err := f(adjs) begins *)
              (mkD new' (d_run s ++ [t]) (d_done s) (d_queue s) (d_left s) (d_ret s), [EStart m (fst t) h])
          end
      end
  | SFin k =>
      match extract k (d_run s) with
      | None => (s, [])
      | Some (t, run') =>     (* f returns; errs <- err *)
          (mkD (d_new s) run' (d_done s ++ [t]) (d_queue s ++ [tres v t]) (d_left s) (d_ret s),
           match snd t with Some h => [EEnd m (fst t) h (v h)] | None => [] end)
      end
  | SRecv =>
      match d_ret s with
      | Some _ => (s, [])     (* already returned; later sends stay in the buffer *)
      | None =>
          match d_left s with
          | O => (mkD (d_new s) (d_run s) (d_done s) (d_queue s) O (Some None), [])      (* return nil *)
          | S n =>
              match d_queue s with
              | [] => (s, [])                                                             (* blocked in <-errs *)
              | None :: q => (mkD (d_new s) (d_run s) (d_done s) q n None, [])
              | Some e :: q => (mkD (d_new s) (d_run s) (d_done s) q n (Some (Some e)), []) (* return err *)
              end
          end
      end
  end.

(* all goroutines finished and the call returned *)
Definition d_complete (s : dstate) : Prop := d_new s = [] /\ d_run s = [] /\ d_ret s <> None.
Definition d_completeb (s : dstate) : bool :=
  match d_new s, d_run s, d_ret s with [], [], Some _ => true | _, _, _ => false end.

(* generic run of a machine, accumulating the event trace *)
Definition run {S L : Type} (step : S -> L -> S * list event) (st : S * list event) (ls : list L)
  : S * list event :=
  fold_left (fun st l => let (s', ev) := step (fst st) l in (s', snd st ++ ev)) ls st.

(* ---------- Adjudicator.Register / Progress / Withdraw ---------- *)

(* dispatch plus the return of the exported method *)
Definition astep (m : method) (v : hid -> bool) (s : dstate) (l : dlabel) : dstate * list event :=
  match l with
  | SRecv =>
      let s' := fst (dstep m v s SRecv) in
      match d_ret s, d_ret s' with
      | None, Some r => (s', [ERet (out_of r)])
      | _, _ => (s', [])
      end
  | _ => dstep m v s l
  end.

Definition adj_run (m : method) (reg : registry) (v : hid -> bool) (ids : list key) (sched : list dlabel)
  : dstate * list event := run (astep m v) (d_init reg ids, []) sched.

(* the exported method: trace and returned outcome (None = has not returned under this schedule) *)
Definition adj_call (m : method) (reg : registry) (v : hid -> bool) (a : list asset) (sched : list dlabel)
  : list event * option outcome :=
  match ledger_ids a with
  | Err => ([ERet OErrAsset], Some OErrAsset)
  | Panic => ([ERet OPanic], Some OPanic)
  | Ok ids => let (s, tr) := adj_run m reg v ids sched in (tr, option_map out_of (d_ret s))
  end.

(* ---------- Funder.Fund ---------- *)

(* the loop `for i, l := range ledgerIDs` splitting into egoisticLedgers / nonEgoisticLedgers;
   ego = Some idx after SetEgoisticPart(idx) (a Go int: may be negative or too large) *)
Fixpoint split_loop (ego : option Z) (i : Z) (ids e ne : list key) : list key * list key :=
  match ids with
  | [] => (e, ne)
  | l :: r =>
      if match ego with Some x => Z.eqb x i | None => false end
      then split_loop ego (i + 1)%Z r (e ++ [l]) ne
      else split_loop ego (i + 1)%Z r e (ne ++ [l])
  end.
Definition fund_split (ego : option Z) (ids : list key) : list key * list key :=
  split_loop ego 0%Z ids [] [].

Record fstate := mkF {
  f_p1 : dstate;               (* fundLedgers(nonEgoisticLedgers) *)
  f_p2 : option dstate;        (* fundLedgers(egoisticLedgers), once started *)
  f_ret : option outcome }.    (* value returned by Fund, once it returned *)

Inductive flabel := F1 (l : dlabel) | F2 (l : dlabel).   (* an action of phase 1 / phase 2 *)

Definition fstep (v : hid -> bool) (reg : registry) (ego : list key) (s : fstate) (l : flabel)
  : fstate * list event :=
  match l with
  | F1 SRecv =>
      match f_ret s, f_p2 s with
      | None, None =>
          let p1' := fst (dstep MFund v (f_p1 s) SRecv) in
          match d_ret p1' with
          | None => (mkF p1' None None, [])
          | Some None => (mkF p1' (Some (d_init reg ego)) None, [])         (* err == nil: go on with phase 2 *)
          | Some (Some e) => (mkF p1' None (Some (OErr e)), [ERet (OErr e)]) (* return err *)
          end
      | _, _ => (s, [])
      end
  | F1 l' =>
      let (p1', ev) := dstep MFund v (f_p1 s) l' in (mkF p1' (f_p2 s) (f_ret s), ev)
  | F2 SRecv =>
      match f_ret s, f_p2 s with
      | None, Some p2 =>
          let p2' := fst (dstep MFund v p2 SRecv) in
          match d_ret p2' with
          | None => (mkF (f_p1 s) (Some p2') None, [])
          | Some None => (mkF (f_p1 s) (Some p2') (Some OOk), [ERet OOk])
          | Some (Some e) => (mkF (f_p1 s) (Some p2') (Some (OErr e)), [ERet (OErr e)])
          end
      | _, _ => (s, [])
      end
  | F2 l' =>
      match f_p2 s with
      | None => (s, [])
      | Some p2 => let (p2', ev) := dstep MFund v p2 l' in (mkF (f_p1 s) (Some p2') (f_ret s), ev)
      end
  end.

Definition f_init (reg : registry) (ne : list key) : fstate := mkF (d_init reg ne) None None.

Definition fund_run (reg : registry) (v : hid -> bool) (e ne : list key) (sched : list flabel)
  : fstate * list event := run (fstep v reg e) (f_init reg ne, []) sched.

Definition f_complete (s : fstate) : Prop :=
  f_ret s <> None /\ d_new (f_p1 s) = [] /\ d_run (f_p1 s) = [] /\
  match f_p2 s with None => True | Some p2 => d_new p2 = [] /\ d_run p2 = [] end.
Definition f_completeb (s : fstate) : bool :=
  match f_ret s, d_new (f_p1 s), d_run (f_p1 s) with
  | Some _, [], [] =>
      match f_p2 s with None => true | Some p2 => match d_new p2, d_run p2 with [], [] => true | _, _ => false end end
  | _, _, _ => false
  end.

(* the exported method; too_long = (Params.ChallengeDuration > math.MaxInt64) *)
Definition fund_call (reg : registry) (ego : option Z) (too_long : bool) (v : hid -> bool)
  (a : list asset) (sched : list flabel) : list event * option outcome :=
  if too_long then ([ERet OErrDuration], Some OErrDuration)
  else match ledger_ids a with
       | Err => ([ERet OErrAsset], Some OErrAsset)
       | Panic => ([ERet OPanic], Some OPanic)
       | Ok ids =>
           let (e, ne) := fund_split ego ids in
           let (s, tr) := fund_run reg v e ne sched in (tr, f_ret s)
       end.

(* ---------- schedules used by the correspondence check ---------- *)

(* all goroutines reach their call (or their not-found send), the collector drains, then the
   sub-calls return in the given order, the collector receiving after each *)
Definition canon_sched (ids order : list key) : list dlabel :=
  map SGo ids ++ repeat SRecv (S (length ids))
  ++ flat_map (fun k => [SFin k; SRecv; SRecv]) order.

Definition canon_fsched (ids order : list key) : list flabel :=
  map F1 (canon_sched ids order) ++ map F2 (canon_sched ids order).

(* ---------- counting events ---------- *)

Definition is_start_of (k : key) (e : event) : bool :=
  match e with EStart _ k' _ => key_eqb k k' | _ => false end.
Definition is_end_of (k : key) (e : event) : bool :=
  match e with EEnd _ k' _ _ => key_eqb k k' | _ => false end.
Definition countb {A} (p : A -> bool) (l : list A) : nat := length (filter p l).
Definition count_start (k : key) (tr : list event) : nat := countb (is_start_of k) tr.
Definition count_end (k : key) (tr : list event) : nat := countb (is_end_of k) tr.

Definition is_some {A} (o : option A) : bool := match o with Some _ => true | None => false end.
Definition registered (reg : registry) (k : key) : bool := is_some (reg_lookup reg k).
(* the ledger is registered and its sub-call is scripted to succeed *)
Definition ledger_ok (reg : registry) (v : hid -> bool) (k : key) : bool :=
  match reg_lookup reg k with Some h => v h | None => false end.

(* ---------- vocabulary of the specifications ---------- *)

(* the ledger keys of the multi-ledger assets of a list, in order, with repetitions *)
Definition asset_keys (a : list asset) : list key :=
  flat_map (fun x => match x with AMulti k => [k] | _ => [] end) a.
Definition is_multi (x : asset) : bool := match x with AMulti _ => true | _ => false end.
(* position of the first occurrence (length of the list if there is none) *)
Fixpoint first_index (k : key) (l : list key) : nat :=
  match l with [] => 0 | x :: r => if key_eqb k x then 0 else S (first_index k r) end.
(* keep first occurrences of the keys that are not in seen *)
Fixpoint dedup_acc (seen l : list key) : list key :=
  match l with
  | [] => []
  | k :: r => if kmem k seen then dedup_acc seen r else k :: dedup_acc (k :: seen) r
  end.

Definition tasks_of (reg : registry) (ids : list key) : list task := map (fun k => (k, reg_lookup reg k)) ids.
(* number of registered tasks for ledger k in a task list *)
Definition creg (k : key) (l : list task) : nat := countb (fun t => key_eqb k (fst t) && is_some (snd t)) l.

(* e is the error of a ledger that really fails: not registered, or its sub-call is scripted to fail *)
Definition failing (reg : registry) (v : hid -> bool) (ids : list key) (e : merr) : Prop :=
  match e with
  | ENotFound k => In k ids /\ reg_lookup reg k = None
  | ECall h => exists k, In k ids /\ reg_lookup reg k = Some h /\ v h = false
  end.

(* events of sub-calls are calls of method m on the handler registered for a ledger of ids, and an
   EEnd carries the scripted verdict *)
Definition ev_legit (m : method) (reg : registry) (v : hid -> bool) (ids : list key) (e : event) : Prop :=
  match e with
  | EStart m' k h => m' = m /\ In k ids /\ reg_lookup reg k = Some h
  | EEnd m' k h ok => m' = m /\ In k ids /\ reg_lookup reg k = Some h /\ ok = v h
  | ERet _ => True
  end.
Definition is_ret (e : event) : bool := match e with ERet _ => true | _ => false end.

(* the ledger selected by SetEgoisticPart(x) among the distinct ledger ids, and the others *)
Definition ego_sel (ego : option Z) (ids : list key) : list key :=
  match ego with
  | Some x => if (0 <=? x)%Z then match nth_error ids (Z.to_nat x) with Some k => [k] | None => [] end else []
  | None => []
  end.
Definition ego_rest (ego : option Z) (ids : list key) : list key :=
  match ego with
  | Some x => if (0 <=? x)%Z then firstn (Z.to_nat x) ids ++ skipn (S (Z.to_nat x)) ids else ids
  | None => ids
  end.

(* how many sub-calls ledger k must receive from Register/Progress/Withdraw on the asset list a *)
Definition calls_expected (a : list asset) (reg : registry) (k : key) : nat :=
  if kmem k (asset_keys a) && registered reg k then 1 else 0.
(* every distinct ledger of the asset list is registered and its sub-call is scripted to succeed *)
Definition all_ledgers_ok (a : list asset) (reg : registry) (v : hid -> bool) : Prop :=
  forall k, In (AMulti k) a -> ledger_ok reg v k = true.
