(* Model of go-perun's local watcher: watcher/local/{watcher,registry,statespubsub,adjudicatorpubsub}.go.

   Definitions only, no proofs (Proofs/WatcherP.v).

   One watcher. Channel ids are numbers (the harness maps the 32-byte ids to indices). A transaction is
   abstracted to (version, state token, ids of the sub-allocations locked in it, in order): the watcher
   only reads Version and Allocation.Locked[i].ID and otherwise hands State/Sigs through; the harness
   makes every published transaction carry a distinct token.

   Per watched channel (struct ch of watcher.go): parent link, subChs, archivedSubChStates, the
   currentTx of handleStatesFromClient (as seen by txRetriever.retrieve(): readPendingTxs has drained
   every completed Publish), registered/registeredVersion, published/publishedVersion, multiLedger,
   and whether the done signal has been closed. The registry (registry.go) is the map id -> ch.

   Atomic steps. The family mutex subChsAccess serialises handleRegisteredEvent, StartWatchingSubChannel
   and StopWatching of one channel family; progressed/concluded events only touch the channel's own
   client pub-sub. One event = one step:
     Publish ch tx             StatesPub.Publish of channel ch (ignored when ch is not watched: the client
                               must not publish then; the harness does not call it)
     ChainRegistered ch v      the adjudicator subscription of ch yields a RegisteredEvent with version v
     ChainProgressed ch v      ... a ProgressedEvent
     ChainConcluded ch v       ... a ConcludedEvent
     StartLedger ch multi tx   StartWatchingLedgerChannel (multi = multi.IsMultiLedgerAssets of the assets)
     StartSub ch p multi tx    StartWatchingSubChannel with parent p
     Stop ch                   StopWatching
     RegisterFails b           from now on the scripted Registerer returns an error iff b
   Outputs: the Register call received by the Registerer, the event relayed to the client of a channel,
   the result of Start/Stop.

   [step_gen true] is the code as pinned (StopWatching closes ch.done BEFORE it refuses on present
   sub-channels); [step = step_gen false] is the repaired code (refusal first). *)
From Coq Require Import List Bool NArith.
Import ListNotations.
Open Scope N_scope.

Definition id := N.

Record tx := T { tx_ver : N; tx_tok : N; tx_locked : list id }.

Definition memid (x : id) (l : list id) : bool := existsb (N.eqb x) l.

Record chan := mkChan {
  c_parent : option id;          (* ch.parent *)
  c_multi : bool;                (* ch.multiLedger *)
  c_subs : list id;              (* ch.subChs *)
  c_arch : id -> option tx;      (* ch.archivedSubChStates; None = the zero SignedState of a missing key *)
  c_cur : tx;                    (* currentTx of handleStatesFromClient after draining *)
  c_registered : bool;           (* ch.registered *)
  c_regver : N;                  (* ch.registeredVersion *)
  c_published : bool;            (* ch.published *)
  c_pubver : N;                  (* ch.publishedVersion *)
  c_done : bool                  (* ch.done closed *)
}.

Definition registry := id -> option chan.

Record wstate := mkW { w_reg : registry; w_fail : bool }.

Definition init : wstate := mkW (fun _ => None) false.

Inductive kind := KRegistered | KProgressed | KConcluded.
Inductive start_res := StartOK | StartAlready | StartNoParent | StartParentIsSub.
Inductive stop_res := StopOK | StopRefused | StopNotWatched | StopPanic.

Inductive event :=
| Publish (ch : id) (t : tx)
| ChainRegistered (ch : id) (v : N)
| ChainProgressed (ch : id) (v : N)
| ChainConcluded (ch : id) (v : N)
| StartLedger (ch : id) (multi : bool) (t : tx)
| StartSub (ch parent : id) (multi : bool) (t : tx)
| Stop (ch : id)
| RegisterFails (b : bool).

Inductive out :=
| ORegister (p : id) (ptx : tx) (subs : list (id * option tx))
| ORelay (ch : id) (k : kind) (v : N)
| OStart (r : start_res)
| OStop (r : stop_res)
| OUnreachable.   (* a sub-channel whose parent is not in the registry: excluded by WatcherP.inv *)

(* ---------- registry ---------- *)

Definition set (r : registry) (x : id) (o : option chan) : registry :=
  fun y => if N.eqb y x then o else r y.

(* mutate the struct behind a registry entry *)
Definition upd (r : registry) (x : id) (f : chan -> chan) : registry :=
  match r x with Some c => set r x (Some (f c)) | None => r end.

Definition with_cur (t : tx) (c : chan) : chan :=
  mkChan (c_parent c) (c_multi c) (c_subs c) (c_arch c) t (c_registered c) (c_regver c)
         (c_published c) (c_pubver c) (c_done c).
Definition with_regver (n : N) (c : chan) : chan :=
  mkChan (c_parent c) (c_multi c) (c_subs c) (c_arch c) (c_cur c) (c_registered c) n
         (c_published c) (c_pubver c) (c_done c).
Definition with_registered (c : chan) : chan :=
  mkChan (c_parent c) (c_multi c) (c_subs c) (c_arch c) (c_cur c) true (c_regver c)
         (c_published c) (c_pubver c) (c_done c).
Definition with_published (n : N) (c : chan) : chan :=
  mkChan (c_parent c) (c_multi c) (c_subs c) (c_arch c) (c_cur c) (c_registered c) (c_regver c)
         true n (c_done c).
Definition with_done (c : chan) : chan :=
  mkChan (c_parent c) (c_multi c) (c_subs c) (c_arch c) (c_cur c) (c_registered c) (c_regver c)
         (c_published c) (c_pubver c) true.
Definition with_subs (l : list id) (c : chan) : chan :=
  mkChan (c_parent c) (c_multi c) l (c_arch c) (c_cur c) (c_registered c) (c_regver c)
         (c_published c) (c_pubver c) (c_done c).
Definition with_arch (a : id -> option tx) (c : chan) : chan :=
  mkChan (c_parent c) (c_multi c) (c_subs c) a (c_cur c) (c_registered c) (c_regver c)
         (c_published c) (c_pubver c) (c_done c).

(* newCh *)
Definition new_chan (parent : option id) (multi : bool) (t : tx) : chan :=
  mkChan parent multi [] (fun _ => None) t false 0 false 0 false.

Definition is_sub (c : chan) : bool := match c_parent c with Some _ => true | None => false end.

(* parent := ch; if ch.isSubChannel() { parent = ch.parent } *)
Definition root_of (c : chan) (ch : id) : id := match c_parent c with Some p => p | None => ch end.

(* ---------- registered events ---------- *)

(* retrieveLatestSubStates, one entry: the registry decides between the live transaction and the archive *)
Definition sub_state (r : registry) (pc : chan) (l : id) : option tx :=
  match r l with
  | Some sc => Some (c_cur sc)
  | None => c_arch pc l
  end.

(* registerDispute, the loop after a successful Register:
     subCh, ok := r.retrieve(parentTx.Locked[i].ID); if ok { subCh.registeredVersion = subStates[i].State.Version } *)
Fixpoint mark_subs (r : registry) (ls : list id) : registry :=
  match ls with
  | [] => r
  | l :: ls' =>
      mark_subs (match r l with
                 | Some sc => set r l (Some (with_regver (tx_ver (c_cur sc)) sc))
                 | None => r
                 end) ls'
  end.

(* the tail of handleRegisteredEvent:
     if !ch.published || ch.publishedVersion < e.Version() { publish; published = true; publishedVersion = v } *)
Definition relay_registered (s : wstate) (ch : id) (v : N) (pre : list out) : wstate * list out :=
  match w_reg s ch with
  | Some c =>
      if negb (c_published c) || (c_pubver c <? v)
      then (mkW (set (w_reg s) ch (Some (with_published v c))) (w_fail s), pre ++ [ORelay ch KRegistered v])
      else (s, pre)
  | None => (s, pre ++ [OUnreachable])
  end.

Definition handle_registered (s : wstate) (ch : id) (v : N) : wstate * list out :=
  match w_reg s ch with
  | None => (s, [])                           (* no subscription of ch is being read *)
  | Some c =>
      if c_done c then (s, [])                (* TryLockCtx on the cancelled context fails *)
      else
        let p := root_of c ch in
        match w_reg s p with
        | None => (s, [OUnreachable])
        | Some pc =>
            let latest := c_cur c in          (* ch.txRetriever.retrieve() *)
            let higher := (v <? tx_ver latest) && (c_regver c <=? v) in
            let unreg_multi := c_multi c && (negb (c_registered c) || (c_regver c <? v)) in
            if higher || unreg_multi then
              let ptx := c_cur pc in          (* retrieveLatestSubStates: parent.txRetriever.retrieve() *)
              let subs := map (fun l => (l, sub_state (w_reg s) pc l)) (tx_locked ptx) in
              let call := ORegister p ptx subs in
              if w_fail s then (s, [call])    (* error: return before ch.registered and before the relay *)
              else
                let r1 := upd (w_reg s) p (with_regver (tx_ver ptx)) in
                let r2 := mark_subs r1 (tx_locked ptx) in
                let r3 := upd r2 ch with_registered in
                relay_registered (mkW r3 (w_fail s)) ch v [call]
            else relay_registered s ch v []
        end
  end.

(* progressed and concluded events: ch.eventsToClientPub.publish(e) *)
Definition handle_other (s : wstate) (ch : id) (k : kind) (v : N) : wstate * list out :=
  match w_reg s ch with
  | None => (s, [])
  | Some _ => (s, [ORelay ch k v])
  end.

(* ---------- start / stop ---------- *)

Definition start_ledger (s : wstate) (ch : id) (multi : bool) (t : tx) : wstate * list out :=
  match w_reg s ch with
  | Some _ => (s, [OStart StartAlready])      (* registry.addIfSucceeds *)
  | None => (mkW (set (w_reg s) ch (Some (new_chan None multi t))) (w_fail s), [OStart StartOK])
  end.

Definition start_sub (s : wstate) (ch p : id) (multi : bool) (t : tx) : wstate * list out :=
  match w_reg s p with
  | None => (s, [OStart StartNoParent])
  | Some pc =>
      if is_sub pc then (s, [OStart StartParentIsSub])
      else match w_reg s ch with
           | Some _ => (s, [OStart StartAlready])
           | None =>
               let r1 := set (w_reg s) ch (Some (new_chan (Some p) multi t)) in
               let r2 := upd r1 p (fun pc => with_subs (ch :: c_subs pc) pc) in   (* parentCh.subChs[id] = {} *)
               (mkW r2 (w_fail s), [OStart StartOK])
           end
  end.

Definition remove_id (x : id) (l : list id) : list id := filter (fun y => negb (N.eqb y x)) l.

(* the part of StopWatching after the refusal check and close(ch.done) *)
Definition stop_finish (s : wstate) (ch : id) (c : chan) : wstate * list out :=
  match c_parent c with
  | Some p =>
      match w_reg s p with
      | None => (s, [OUnreachable])
      | Some pc =>
          let ptx := c_cur pc in                                   (* ch.parent.txRetriever.retrieve() *)
          let arch := if memid ch (tx_locked ptx)                  (* latestParentTx.SubAlloc(id) *)
                      then (fun y => if N.eqb y ch then Some (c_cur c) else c_arch pc y)
                      else c_arch pc in
          let pc' := with_subs (remove_id ch (c_subs pc)) (with_arch arch pc) in
          let r1 := set (w_reg s) p (Some pc') in
          (mkW (set r1 ch None) (w_fail s), [OStop StopOK])        (* closePubSubs; w.remove; isClosed *)
      end
  | None => (mkW (set (w_reg s) ch None) (w_fail s), [OStop StopOK])
  end.

Definition refuses (c : chan) : bool :=
  negb (is_sub c) && negb (match c_subs c with [] => true | _ => false end).

Definition stop_gen (orig : bool) (s : wstate) (ch : id) : wstate * list out :=
  match w_reg s ch with
  | None => (s, [OStop StopNotWatched])       (* retrieve fails (a closed channel has been removed) *)
  | Some c =>
      if orig then
        (* pinned code: close(ch.done) comes first *)
        if c_done c then (s, [OStop StopPanic])                    (* close of closed channel *)
        else if refuses c
             then (mkW (set (w_reg s) ch (Some (with_done c))) (w_fail s), [OStop StopRefused])
             else stop_finish s ch c
      else
        (* repaired code: refuse before anything is touched *)
        if refuses c then (s, [OStop StopRefused])
        else if c_done c then (s, [OStop StopPanic])
             else stop_finish s ch c
  end.

Definition publish (s : wstate) (ch : id) (t : tx) : wstate * list out :=
  (mkW (upd (w_reg s) ch (with_cur t)) (w_fail s), []).

Definition step_gen (orig : bool) (s : wstate) (e : event) : wstate * list out :=
  match e with
  | Publish ch t => publish s ch t
  | ChainRegistered ch v => handle_registered s ch v
  | ChainProgressed ch v => handle_other s ch KProgressed v
  | ChainConcluded ch v => handle_other s ch KConcluded v
  | StartLedger ch m t => start_ledger s ch m t
  | StartSub ch p m t => start_sub s ch p m t
  | Stop ch => stop_gen orig s ch
  | RegisterFails b => (mkW (w_reg s) b, [])
  end.

Definition step := step_gen false.

Fixpoint run_gen (orig : bool) (s : wstate) (es : list event) : wstate * list (list out) :=
  match es with
  | [] => (s, [])
  | e :: r =>
      let '(s1, o) := step_gen orig s e in
      let '(s2, os) := run_gen orig s1 r in
      (s2, o :: os)
  end.

Definition run := run_gen false.
