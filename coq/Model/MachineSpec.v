(* The documented phase protocol of the channel state machine, written from the doc comments of
   channel/machine.go and channel/statemachine.go, independently of the code's transition table.
   Definitions only. *)
From V Require Export Model.Machine.
Open Scope N_scope.

Definition is_success (o : out) : bool := match o with OK | OKSig _ => true | _ => false end.
Definition in_phases (m : mach) (l : list phase) : bool := phase_in (ph m) l.
Definition after_init : list phase :=
  [Funding; Acting; Signing; Final; Registering; Registered; Progressing; Progressed; Withdrawing; Withdrawn].
Definition signing_phases_doc : list phase := [InitSigning; Signing; Progressing].

Definition staged_ready (m : mach) (fin : bool) : bool :=
  match staging m with
  | Some t => Bool.eqb fin (st_final (tx_st t)) && all_some (tx_sigs t)
  | None => false
  end.
Definition slot_empty (m : mach) (i : N) : bool :=
  match staging m with
  | Some t => match nth_error (tx_sigs t) (N.to_nat i) with Some None => true | _ => false end
  | None => false
  end.
Definition sig_valid_for (m : mach) (i : N) (s : state) (sg : sigtok) : bool :=
  match nth_error (mp_parts (ps m)) (N.to_nat i) with
  | Some a => match verify_state a s sg with Some true => true | _ => false end
  | None => false
  end.
Definition staged_state (m : mach) : option state := option_map tx_st (staging m).
Definition own_slot_signable (m : mach) : bool :=
  match staging m with
  | Some t =>
      match nth_error (tx_sigs t) (N.to_nat (me m)) with
      | Some (Some _) => true
      | Some None => state_encodable (tx_st t)
      | None => false
      end
  | None => false
  end.

(* documented precondition *)
Definition pre (o : op) (m : mach) : bool :=
  match o with
  | OInit a d => in_phases m [InitActing]
                 && match new_state m a d with Some _ => is_success (app_valid_init m d) | None => false end
  | OUpdate s a => in_phases m [Acting] && is_success (valid_transition m s a)
  | OForceUpdate _ _ => true
  | OCheckUpdate s a sg i => is_success (valid_transition m s a) && sig_valid_for m i s sg
  | OSig => in_phases m signing_phases_doc && own_slot_signable m
  | OAddSig i sg => in_phases m signing_phases_doc && slot_empty m i
                    && match staged_state m with Some s => sig_valid_for m i s sg | None => false end
  | OEnableInit => in_phases m [InitSigning] && staged_ready m false
  | OEnableUpdate => in_phases m [Signing] && staged_ready m false
  | OEnableFinal => in_phases m [Signing] && staged_ready m true
  | ODiscard => in_phases m [Signing]
  | OSetFunded => in_phases m [Funding]
  | OSetRegistering | OSetRegistered => in_phases m after_init
  | OSetProgressing _ => in_phases m [Registered; Progressing; Progressed]
  | OSetProgressed _ => true
  | OSetWithdrawing => in_phases m [Final; Registered; Progressed; Withdrawing]
  | OSetWithdrawn => in_phases m [Withdrawing]
  end.

(* documented phase after a successful operation *)
Definition post (o : op) (m : mach) : phase :=
  match o with
  | OInit _ _ => InitSigning
  | OUpdate _ _ | OForceUpdate _ _ => Signing
  | OCheckUpdate _ _ _ _ | OSig | OAddSig _ _ => ph m
  | OEnableInit => Funding
  | OEnableUpdate | ODiscard | OSetFunded => Acting
  | OEnableFinal => Final
  | OSetRegistering => Registering
  | OSetRegistered => Registered
  | OSetProgressing _ => Progressing
  | OSetProgressed _ => Progressed
  | OSetWithdrawing => Withdrawing
  | OSetWithdrawn => Withdrawn
  end.

(* the documented table of legal phase transitions *)
Definition doc_transitions : list (phase * phase) :=
  [(InitActing, InitSigning); (InitSigning, Funding); (Funding, Acting); (Acting, Signing);
   (Signing, Acting); (Signing, Final);
   (Funding, Registering); (Acting, Registering); (Signing, Registering); (Final, Registering);
   (Funding, Registered); (Acting, Registered); (Signing, Registered); (Final, Registered);
   (Registering, Registered); (Registered, Withdrawing); (Registered, Progressed);
   (Progressing, Progressed); (Progressed, Withdrawing); (Withdrawing, Withdrawn)].
Definition doc_transition (f t : phase) : bool :=
  existsb (fun p => phase_eqb (fst p) f && phase_eqb (snd p) t) doc_transitions.
