(* Vocabulary of property C05, defined on observable histories only.

   A trace is the list of (event, outputs observed for it), NEWEST FIRST. Everything below is computed
   from the trace alone -- from what the client did (start/stop/publish), what the adjudicator
   reported, what the Registerer was called with and what the calls returned -- never from the
   watcher's internal state. Proofs/WatcherP.v shows that the watcher's bookkeeping always equals these
   functions of the history (WatcherP.inv); Props/C05.v states the property with them.

   Definitions only. *)
From Coq Require Import List Bool NArith.
From V Require Import Model.Watcher.
Import ListNotations.
Open Scope N_scope.

Definition entry := (event * list out)%type.
Definition trace := list entry.

(* ---------- what one entry says ---------- *)

(* a start-watching call that succeeded: (channel, parent, multi-ledger, initial transaction) *)
Definition started (x : entry) : option (id * option id * bool * tx) :=
  match x with
  | (StartLedger c m t, [OStart StartOK]) => Some (c, None, m, t)
  | (StartSub c p m t, [OStart StartOK]) => Some (c, Some p, m, t)
  | _ => None
  end.

(* a stop-watching call that succeeded *)
Definition stopped (x : entry) : option id :=
  match x with
  | (Stop c, [OStop StopOK]) => Some c
  | _ => None
  end.

Definition published (x : entry) : option (id * tx) :=
  match fst x with Publish c t => Some (c, t) | _ => None end.

Definition failset (x : entry) : option bool :=
  match fst x with RegisterFails b => Some b | _ => None end.

(* the Register call made while a registered event was handled *)
Definition regcall (x : entry) : option (id * tx * list (id * option tx)) :=
  match x with
  | (ChainRegistered _ _, ORegister p t subs :: _) => Some (p, t, subs)
  | _ => None
  end.

(* versions of the registered events relayed to the client of ch by this entry *)
Fixpoint relay_versions (os : list out) (ch : id) : list N :=
  match os with
  | [] => []
  | ORelay c KRegistered v :: r => if N.eqb c ch then v :: relay_versions r ch else relay_versions r ch
  | _ :: r => relay_versions r ch
  end.
Definition relays (x : entry) (ch : id) : list N := relay_versions (snd x) ch.

Fixpoint assoc {A} (x : id) (l : list (id * A)) : option A :=
  match l with
  | [] => None
  | (y, a) :: r => if N.eqb x y then Some a else assoc x r
  end.

(* the version of channel x's state inside a Register call *)
Definition call_version (p : id) (t : tx) (subs : list (id * option tx)) (x : id) : option N :=
  if N.eqb x p then Some (tx_ver t)
  else match assoc x subs with
       | Some (Some t') => Some (tx_ver t')
       | _ => None
       end.

Definition opt_id_eqb (a b : option id) : bool :=
  match a, b with
  | Some x, Some y => N.eqb x y
  | None, None => true
  | _, _ => false
  end.

(* ---------- functions of the history ---------- *)

(* ch is being watched: started successfully and not stopped successfully since *)
Fixpoint watched (tr : trace) (ch : id) : bool :=
  match tr with
  | [] => false
  | x :: r =>
      match started x with
      | Some (c, _, _, _) => if N.eqb c ch then true else watched r ch
      | None =>
          match stopped x with
          | Some c => if N.eqb c ch then false else watched r ch
          | None => watched r ch
          end
      end
  end.

(* the parent given when ch was started (None: not watched, or a ledger channel) *)
Fixpoint parent_of (tr : trace) (ch : id) : option id :=
  match tr with
  | [] => None
  | x :: r =>
      match started x with
      | Some (c, p, _, _) => if N.eqb c ch then p else parent_of r ch
      | None =>
          match stopped x with
          | Some c => if N.eqb c ch then None else parent_of r ch
          | None => parent_of r ch
          end
      end
  end.

(* the channel whose tree is registered when ch is disputed *)
Definition root (tr : trace) (ch : id) : id :=
  match parent_of tr ch with Some p => p | None => ch end.

(* newest transaction published to the watcher for ch (the initial one counts) *)
Fixpoint newest (tr : trace) (ch : id) : option tx :=
  match tr with
  | [] => None
  | x :: r =>
      match started x with
      | Some (c, _, _, t) => if N.eqb c ch then Some t else newest r ch
      | None =>
          match stopped x with
          | Some c => if N.eqb c ch then None else newest r ch
          | None =>
              match published x with
              | Some (c, t) => if N.eqb c ch && watched r ch then Some t else newest r ch
              | None => newest r ch
              end
          end
      end
  end.

Definition locked_in (ch : id) (o : option tx) : bool :=
  match o with Some t => memid ch (tx_locked t) | None => false end.

(* archived last transaction of ch, kept for ledger channel p: the newest transaction ch had when it was
   de-registered while still locked in p's newest transaction; forgotten when p itself is (re)started
   or stopped *)
Fixpoint archived (tr : trace) (p ch : id) : option tx :=
  match tr with
  | [] => None
  | x :: r =>
      match started x with
      | Some (c, _, _, _) => if N.eqb c p then None else archived r p ch
      | None =>
          match stopped x with
          | Some c =>
              if N.eqb c p then None
              else if N.eqb c ch && opt_id_eqb (parent_of r ch) (Some p) && locked_in ch (newest r p)
                   then newest r ch
                   else archived r p ch
          | None => archived r p ch
          end
      end
  end.

(* does the scripted Registerer currently fail? *)
Fixpoint reg_fails (tr : trace) : bool :=
  match tr with
  | [] => false
  | x :: r => match failset x with Some b => b | None => reg_fails r end
  end.

(* the version of ch the watcher registered last (successfully, while ch has been watched) *)
Fixpoint last_registered (tr : trace) (ch : id) : option N :=
  match tr with
  | [] => None
  | x :: r =>
      match started x with
      | Some (c, _, _, _) => if N.eqb c ch then None else last_registered r ch
      | None =>
          match stopped x with
          | Some c => if N.eqb c ch then None else last_registered r ch
          | None =>
              match regcall x with
              | Some (p, t, subs) =>
                  if negb (reg_fails r) && watched r ch
                  then match call_version p t subs ch with
                       | Some n => Some n
                       | None => last_registered r ch
                       end
                  else last_registered r ch
              | None => last_registered r ch
              end
          end
      end
  end.

(* versions of the registered events relayed to ch's client since ch was started, newest first *)
Fixpoint relayed (tr : trace) (ch : id) : list N :=
  match tr with
  | [] => []
  | x :: r =>
      match started x with
      | Some (c, _, _, _) => if N.eqb c ch then [] else relayed r ch
      | None =>
          match stopped x with
          | Some c => if N.eqb c ch then [] else relayed r ch
          | None => relays x ch ++ relayed r ch
          end
      end
  end.

(* single-ledger histories: no channel was started with multi-ledger assets *)
Definition single_ledger (tr : trace) : Prop :=
  forall x c p m t, In x tr -> started x = Some (c, p, m, t) -> m = false.

(* ---------- the histories of the model ---------- *)

Inductive reach : trace -> wstate -> Prop :=
| reach_nil : reach [] init
| reach_cons : forall tr s e, reach tr s -> reach ((e, snd (step s e)) :: tr) (fst (step s e)).

(* the sub-channel states the property demands for a dispute of ledger channel p with transaction t *)
Definition wanted_subs (tr : trace) (p : id) (t : tx) : list (id * option tx) :=
  map (fun l => (l, if watched tr l then newest tr l else archived tr p l)) (tx_locked t).

Definition is_register (o : out) : bool := match o with ORegister _ _ _ => true | _ => false end.
Definition is_relay (o : out) : bool := match o with ORelay _ _ _ => true | _ => false end.
