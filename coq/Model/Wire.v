(* perunio primitives (wire/perunio/serialize.go, bigint.go, byteslice.go, string.go)
   as encoders (bytes) and decoders (prog).  Definitions only. *)
From V Require Export Base.Prog.
From V Require Gen.Generated.
Open Scope N_scope.

Definition MaxBigIntLength : N := Generated.MaxBigIntLength.

(* ---- fixed width integers, little endian (binary.Write/Read with LittleEndian) ---- *)
Definition enc_u8 (n : N) : bytes := enc_le 1 n.
Definition enc_u16 (n : N) : bytes := enc_le 2 n.
Definition enc_u32 (n : N) : bytes := enc_le 4 n.
Definition enc_u64 (n : N) : bytes := enc_le 8 n.
Definition enc_i32 (z : Z) : bytes := enc_le 4 (u32_of_s32 z).

Definition dec_uint (k : nat) : prog N := Read true k (fun bs => Ret (dec_le bs)).
Definition dec_u8 := dec_uint 1.
Definition dec_u16 := dec_uint 2.
Definition dec_u32 := dec_uint 4.
Definition dec_u64 := dec_uint 8.
Definition dec_i32 : prog Z := Read true 4 (fun bs => Ret (s32_of_u32 (dec_le bs))).

(* big-endian variants (AuthResponseMsg length, sim asset, MockOp) *)
Definition enc_u32be (n : N) : bytes := enc_be 4 n.
Definition enc_u64be (n : N) : bytes := enc_be 8 n.
Definition dec_u32be : prog N := Read true 4 (fun bs => Ret (dec_be bs)).

(* bool: binary.Write writes 1/0, binary.Read accepts any non-zero byte as true *)
Definition enc_bool (b : bool) : bytes := enc_u8 (if b then 1 else 0).
Definition dec_bool : prog bool := Read true 1 (fun bs => Ret (negb (dec_le bs =? 0))).

(* fixed-size byte arrays / ByteSlice.Decode into a buffer of known length *)
Definition dec_fixed (n : nat) : prog bytes := Read true n (fun bs => Ret bs).

(* *big.Int: one length byte read with a single Read call, then ReadFull *)
Definition nbytes (n : N) : nat := if n =? 0 then O else N.to_nat (N.log2 n / 8 + 1).
Definition be_min (n : N) : bytes := enc_be (nbytes n) n.
Definition enc_bigint (z : Z) : bytes :=
  let b := be_min (Z.to_N z) in enc_u8 (N.of_nat (length b)) ++ b.
Definition dec_bigint : prog Z :=
  Read false 1 (fun lb =>
    let l := dec_le lb in
    if MaxBigIntLength <? l then Fail
    else Read true (N.to_nat l) (fun bs => Ret (Z.of_N (dec_be bs)))).
Definition bigint_encodable (z : Z) : bool :=
  (0 <=? z)%Z && (N.of_nat (nbytes (Z.to_N z)) <=? MaxBigIntLength).

(* encoding.BinaryMarshaler: u16 length, then the bytes unless the length is 0 *)
Definition enc_marsh (data : bytes) : bytes := enc_u16 (N.of_nat (length data)) ++ data.
(* the decoder always hands the raw bytes (possibly empty) to UnmarshalBinary *)
Definition dec_marsh : prog bytes :=
  l <- dec_u16 ;; Alloc l (Read true (N.to_nat l) (fun bs => Ret bs)).

(* string: u16 length + bytes *)
Definition enc_string (s : bytes) : bytes := enc_u16 (N.of_nat (length s)) ++ s.
Definition dec_string : prog bytes :=
  l <- dec_u16 ;; Alloc l (Read true (N.to_nat l) (fun bs => Ret bs)).

(* n repetitions *)
Fixpoint dec_n {A} (n : nat) (d : prog A) : prog (list A) :=
  match n with
  | O => Ret []
  | S n' => x <- d ;; xs <- dec_n n' d ;; Ret (x :: xs)
  end.
