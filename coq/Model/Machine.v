(* channel/machine.go + channel/statemachine.go as a step function.  Definitions only. *)
From V Require Export Model.Channel Model.Sig.
From V Require Gen.Generated.
Open Scope N_scope.

Inductive phase := InitActing | InitSigning | Funding | Acting | Signing | Final
                 | Registering | Registered | Progressing | Progressed | Withdrawing | Withdrawn.
Definition phase_num (p : phase) : N :=
  match p with
  | InitActing => 0 | InitSigning => 1 | Funding => 2 | Acting => 3 | Signing => 4 | Final => 5
  | Registering => 6 | Registered => 7 | Progressing => 8 | Progressed => 9 | Withdrawing => 10
  | Withdrawn => 11 end.
Definition all_phases : list phase :=
  [InitActing; InitSigning; Funding; Acting; Signing; Final; Registering; Registered; Progressing;
   Progressed; Withdrawing; Withdrawn].
Definition phase_eqb (a b : phase) : bool := phase_num a =? phase_num b.

(* tables generated from the compiled package *)
Definition pair_eqb (x y : N * N) : bool := (fst x =? fst y) && (snd x =? snd y).
Definition valid_transition_tbl (f t : phase) : bool :=
  existsb (pair_eqb (phase_num f, phase_num t)) Generated.valid_phase_transitions.
Definition signing_phase (p : phase) : bool := existsb (N.eqb (phase_num p)) Generated.signing_phases.

(* the channel parameters as far as the machine uses them *)
Record mparams := mkMP {
  mp_id : bytes;                 (* Params.ID() *)
  mp_parts : list N;             (* participant addresses (ideal scheme: the key tokens) *)
  mp_app : option bytes;         (* None = NoApp *)
  mp_kind : option appkind }.    (* which StateApp implements it *)

Record tx := mkTx { tx_st : state; tx_sigs : list (option sigtok) }.
Record mach := mkMach {
  ph : phase; me : N; ps : mparams;
  staging : option tx; current : option tx }.

Definition nparts (m : mach) : N := len (mp_parts (ps m)).

Inductive op :=
| OInit (a : alloc) (d : bytes)
| OUpdate (s : state) (actor : N)
| OForceUpdate (s : state) (actor : N)
| OCheckUpdate (s : state) (actor : N) (sg : sigtok) (i : N)
| OSig
| OAddSig (i : N) (sg : sigtok)
| OEnableInit | OEnableUpdate | OEnableFinal | ODiscard
| OSetFunded | OSetRegistering | OSetRegistered
| OSetProgressing (s : state) | OSetProgressed (s : state)
| OSetWithdrawing | OSetWithdrawn.

Inductive out := OK | OKSig (sg : sigtok) | ERR | PANIC.

(* channel.Sign / channel.Verify with the sim backend: over the encoding of the state;
   encoding an invalid allocation is an error *)
Definition state_encodable (s : state) : bool :=
  alloc_valid (st_alloc s) && forallb bigints_ok (al_bals (st_alloc s))
  && forallb (fun l => bigints_ok (sa_bals l)) (al_locked (st_alloc s)).
Definition sign_state (k : N) (s : state) : option sigtok :=
  if state_encodable s then Some (SigOf k (enc_state s)) else None.
Definition verify_state (a : N) (s : state) (g : sigtok) : option bool :=
  if state_encodable s then Some (tok_verify a (enc_state s) g) else None.

Definition set_phase (m : mach) (p : phase) : mach := mkMach p (me m) (ps m) (staging m) (current m).
Definition new_tx (m : mach) (s : state) : tx := mkTx s (repeat None (N.to_nat (nparts m))).
Definition set_staging (m : mach) (p : phase) (s : state) : mach :=
  mkMach p (me m) (ps m) (Some (new_tx m s)) (current m).
(* addTx: promote to current, clear staging *)
Definition add_tx (m : mach) (p : phase) (t : tx) : mach := mkMach p (me m) (ps m) None (Some t).

Definition expect (m : mach) (f t : phase) : bool := phase_eqb (ph m) f && valid_transition_tbl (ph m) t.

(* ---- validity of transitions ---- *)
Definition is_nodata (d : bytes) : bool := match d with [] => true | _ => false end.
Definition mock_op (d : bytes) : option N := if (length d =? 8)%nat then Some (dec_be d) else None.
(* MockApp.execMockOp *)
Definition exec_mock (o : N) : out :=
  if o =? 0 then OK else if (o =? 1) || (o =? 2) || (o =? 3) then ERR else PANIC.

Definition wrap64 (n : N) : N := n mod 18446744073709551616.

(* machine.ValidTransition: None = ok *)
Definition generic_valid (m : mach) (cur to : state) : bool :=
  bytes_eqb (st_id to) (mp_id (ps m))
  && app_should_equal (mp_app (ps m)) (st_app to)
  && negb (st_final cur)
  && (wrap64 (st_ver cur + 1) =? st_ver to)
  && alloc_valid (st_alloc to)
  && (num_parts (al_bals (st_alloc to)) =? nparts m)
  && nlist_eqb (al_assets (st_alloc cur)) (al_assets (st_alloc to))
  && zlist_eqb (alloc_sum (st_alloc cur)) (alloc_sum (st_alloc to)).

(* payment app: nobody but the actor pays.  The Go loops run over the OLD state's dimensions and index
   the new balances with them: a new row that is shorter than the old one is an index-out-of-range
   panic - unless an earlier comparison already returned an error *)
Fixpoint pay_row (actor : N) (j : N) (from to : list Z) : out :=
  match from with
  | [] => OK
  | f :: from' =>
      match to with
      | [] => PANIC
      | t :: to' =>
          if (if j =? actor then (t <=? f)%Z else (f <=? t)%Z) then pay_row actor (j + 1) from' to'
          else ERR
      end
  end.
Fixpoint pay_rows (actor : N) (from to : list (list Z)) : out :=
  match from with
  | [] => OK
  | f :: from' =>
      match to with
      | [] => PANIC
      | t :: to' => match pay_row actor 0 f t with OK => pay_rows actor from' to' | r => r end
      end
  end.

Definition app_valid_transition (m : mach) (cur to : state) (actor : N) : out :=
  match mp_kind (ps m) with
  | None => OK
  | Some KPay =>
      if negb (is_nodata (st_data to)) then PANIC
      else pay_rows actor (al_bals (st_alloc cur)) (al_bals (st_alloc to))
  | Some KMock =>
      match mock_op (st_data cur) with None => ERR | Some o => exec_mock o end
  end.

Definition valid_transition (m : mach) (to : state) (actor : N) : out :=
  if nparts m <=? actor then ERR else
  match current m with
  | None => if bytes_eqb (st_id to) (mp_id (ps m)) && app_should_equal (mp_app (ps m)) (st_app to)
            then PANIC (* nil current state dereferenced *) else ERR
  | Some c =>
      if generic_valid m (tx_st c) to then app_valid_transition m (tx_st c) to actor else ERR
  end.

Definition app_valid_init (m : mach) (d : bytes) : out :=
  match mp_kind (ps m) with
  | None => if is_nodata d then OK else ERR
  | Some KPay => if is_nodata d then OK else PANIC
  | Some KMock => match mock_op d with None => ERR | Some o => exec_mock o end
  end.

Definition new_state (m : mach) (a : alloc) (d : bytes) : option state :=
  if forallb (fun r => len r =? nparts m) (al_bals a) && alloc_valid a
  then Some (mkState (mp_id (ps m)) 0 a (mp_app (ps m)) d false) else None.

Fixpoint set_nth {A} (i : nat) (x : A) (l : list A) : list A :=
  match i, l with
  | _, [] => []
  | O, _ :: r => x :: r
  | S i', y :: r => y :: set_nth i' x r
  end.
Definition all_some {A} (l : list (option A)) : bool :=
  forallb (fun o => match o with Some _ => true | None => false end) l.

Definition enable_staged (m : mach) (f t : phase) : mach * out :=
  if negb (expect m f t) then (m, ERR) else
  match staging m with
  | None => (m, PANIC)     (* nil staged state dereferenced (IsFinal) *)
  | Some stx =>
      if negb (Bool.eqb (phase_eqb t Final) (st_final (tx_st stx))) then (m, ERR)
      else if negb (all_some (tx_sigs stx)) then (m, ERR)
      else (add_tx m t stx, OK)
  end.

Definition simple_transition (m : mach) (f t : phase) : mach * out :=
  if expect m f t then (set_phase m t, OK) else (m, ERR).

Definition phase_in (p : phase) (l : list phase) : bool := existsb (phase_eqb p) l.

Definition step (m : mach) (o : op) : mach * out :=
  match o with
  | OInit a d =>
      if negb (expect m InitActing InitSigning) then (m, ERR) else
      match new_state m a d with
      | None => (m, ERR)
      | Some s => match app_valid_init m d with
                  | OK => (set_staging m InitSigning s, OK)
                  | r => (m, r)
                  end
      end
  | OUpdate s actor =>
      if negb (expect m Acting Signing) then (m, ERR) else
      match valid_transition m s actor with
      | OK => (set_staging m Signing s, OK)
      | r => (m, r)
      end
  | OForceUpdate s _ => (set_staging m Signing s, OK)
  | OCheckUpdate s actor sg i =>
      match valid_transition m s actor with
      | OK => match nth_error (mp_parts (ps m)) (N.to_nat i) with
              | None => (m, PANIC)
              | Some a => match verify_state a s sg with
                          | Some true => (m, OK)
                          | _ => (m, ERR)
                          end
              end
      | r => (m, r)
      end
  | OSig =>
      if negb (signing_phase (ph m)) then (m, ERR) else
      match staging m with
      | None => (m, PANIC)
      | Some stx =>
          match nth_error (tx_sigs stx) (N.to_nat (me m)) with
          | None => (m, PANIC)
          | Some (Some sg) => (m, OKSig sg)
          | Some None =>
              match nth_error (mp_parts (ps m)) (N.to_nat (me m)) with
              | None => (m, PANIC)
              | Some k =>
                match sign_state k (tx_st stx) with
                | None => (m, ERR)
                | Some sg =>
                    (mkMach (ph m) (me m) (ps m)
                       (Some (mkTx (tx_st stx) (set_nth (N.to_nat (me m)) (Some sg) (tx_sigs stx))))
                       (current m), OKSig sg)
                end
              end
          end
      end
  | OAddSig i sg =>
      if negb (signing_phase (ph m)) then (m, ERR) else
      match staging m with
      | None => (m, PANIC)
      | Some stx =>
          match nth_error (tx_sigs stx) (N.to_nat i) with
          | None => (m, PANIC)
          | Some (Some _) => (m, ERR)
          | Some None =>
              match nth_error (mp_parts (ps m)) (N.to_nat i) with
              | None => (m, PANIC)
              | Some a =>
                  match verify_state a (tx_st stx) sg with
                  | Some true =>
                      (mkMach (ph m) (me m) (ps m)
                         (Some (mkTx (tx_st stx) (set_nth (N.to_nat i) (Some sg) (tx_sigs stx))))
                         (current m), OK)
                  | _ => (m, ERR)
                  end
              end
          end
      end
  | OEnableInit => enable_staged m InitSigning Funding
  | OEnableUpdate => enable_staged m Signing Acting
  | OEnableFinal => enable_staged m Signing Final
  | ODiscard =>
      if expect m Signing Acting then (mkMach Acting (me m) (ps m) None (current m), OK) else (m, ERR)
  | OSetFunded => simple_transition m Funding Acting
  | OSetRegistering =>
      if phase_num (ph m) <? phase_num Funding then (m, ERR) else (set_phase m Registering, OK)
  | OSetRegistered =>
      if phase_num (ph m) <? phase_num Funding then (m, ERR) else (set_phase m Registered, OK)
  | OSetProgressing s =>
      if phase_in (ph m) [Registered; Progressing; Progressed] then (set_staging m Progressing s, OK)
      else (m, ERR)
  | OSetProgressed s => (add_tx m Progressed (new_tx m s), OK)
  | OSetWithdrawing =>
      if phase_in (ph m) [Final; Registered; Progressed; Withdrawing] then (set_phase m Withdrawing, OK)
      else (m, ERR)
  | OSetWithdrawn => simple_transition m Withdrawing Withdrawn
  end.

Definition new_machine (p : mparams) (idx : N) : mach := mkMach InitActing idx p None None.

Definition run (m : mach) (ops : list op) : mach := fold_left (fun m o => fst (step m o)) ops m.
Fixpoint run_outs (m : mach) (ops : list op) : list out :=
  match ops with
  | [] => []
  | o :: r => let (m', x) := step m o in x :: run_outs m' r
  end.
