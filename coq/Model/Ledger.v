(* The STRICT reference ledger (funder + adjudicator) of the harness as an executable model.
   Definitions only (proofs: Proofs/LedgerP.v).

   It is written from the rules a real adjudicator / asset holder enforces (the Perun contracts:
   Adjudicator.register / progress / conclude / concludeFinal, AssetHolder.deposit / setOutcome / withdraw),
   not from client/test/backend.go (which neither verifies signatures nor funding):

     accounts      per (account, asset) balances of the ledger
     funds         per ledger channel: holdings [asset][participant], who deposited, outcome set, who withdrew
     disputes      per channel (ledger channels and sub-channels): registered state, timeout, phase
     clock         logical time, advanced only by LTick

   Register stores the whole channel tree: the ledger channel and, for every locked sub-allocation, the
   signed state of that sub-channel (looked up by id in the supplied list), recursively. A channel that
   is already registered with the same state is skipped; otherwise the version must be higher, the
   dispute phase must still be open and the timeout must not have passed; all signatures are checked; the
   timeout of a refutation is NOT extended. Every sub-allocation must equal, per asset, the accumulated
   outcome of its sub-channel. The call is atomic (any failure leaves the ledger unchanged).
   Conclude needs the registered states, all timeouts passed (plus the force-execution window for app
   channels that were never progressed), and moves the holdings to the recursive outcome (index maps
   of the sub-allocations applied) if the channel is exactly funded; otherwise deposits stay refundable.
   Withdraw pays a participant once, to the account named in its signed authorisation.

   Channel ids are the collision-free images of the parameters: the harness renders lp_id as the real
   CalcID(params) and the Go ledger recomputes it; the model compares ids only. *)
From V Require Export Model.Machine.
Open Scope N_scope.

Record lparams := mkLP {
  lp_id : bytes; lp_parts : list N; lp_cd : N; lp_app : option appkind; lp_ledger : bool }.

(* ---------- accounts ---------- *)
Definition akey := (N * N)%type.                       (* (account, asset) *)
Definition key_eqb (a b : akey) : bool := (fst a =? fst b) && (snd a =? snd b).
Definition accounts := list (akey * Z).
Fixpoint acc_get (l : accounts) (k : akey) : Z :=
  match l with
  | [] => 0%Z
  | (k', v) :: r => if key_eqb k k' then v else acc_get r k
  end.
Fixpoint acc_add (l : accounts) (k : akey) (d : Z) : accounts :=
  match l with
  | [] => [(k, d)]
  | (k', v) :: r => if key_eqb k k' then (k', (v + d)%Z) :: r else (k', v) :: acc_add r k d
  end.
(* debit a list of (asset, amount) from one account; None = insufficient funds (nothing is taken) *)
Fixpoint debit_all (l : accounts) (from : N) (ps : list (N * Z)) : option accounts :=
  match ps with
  | [] => Some l
  | (a, m) :: r =>
      if (m <=? acc_get l (from, a))%Z then debit_all (acc_add l (from, a) (- m)%Z) from r else None
  end.
Fixpoint credit_all (l : accounts) (to : N) (ps : list (N * Z)) : accounts :=
  match ps with
  | [] => l
  | (a, m) :: r => credit_all (acc_add l (to, a) m) to r
  end.

(* ---------- per-channel records ---------- *)
Record fund := mkFund {
  f_assets : list N;            (* asset ids, fixed by the first deposit *)
  f_hold : list (list Z);       (* [asset][participant] *)
  f_dep : list bool;            (* participant has deposited *)
  f_settled : bool;             (* the outcome has been set (channel concluded) *)
  f_wd : list bool }.           (* participant has withdrawn *)
Inductive dphase := DDispute | DForceExec | DConcluded.
Definition dphase_num (p : dphase) : N := match p with DDispute => 0 | DForceExec => 1 | DConcluded => 2 end.
Definition dphase_eqb (a b : dphase) : bool := dphase_num a =? dphase_num b.
Record dispute := mkDisp { d_params : lparams; d_state : state; d_timeout : N; d_phase : dphase }.

Definition bmap (A : Type) := list (bytes * A).
Fixpoint bfind {A} (m : bmap A) (k : bytes) : option A :=
  match m with
  | [] => None
  | (k', v) :: r => if bytes_eqb k k' then Some v else bfind r k
  end.
Fixpoint bput {A} (m : bmap A) (k : bytes) (v : A) : bmap A :=
  match m with
  | [] => [(k, v)]
  | (k', v') :: r => if bytes_eqb k k' then (k', v) :: r else (k', v') :: bput r k v
  end.

Record lstate := mkL {
  l_clock : N; l_acc : accounts; l_funds : bmap fund; l_disp : bmap dispute }.

Inductive lerr :=
| EParams | EArgs | EFunds | EAlready | EPhase | EState | EVersion | ETimeout | ESig | ESubMissing
| ESubAlloc | EAssets | EIndex | EDepth | ENotRegistered | ENotConcluded | EAuth | ENoApp | ETransition.
Definition lerr_num (e : lerr) : N :=
  match e with
  | EParams => 1 | EArgs => 2 | EFunds => 3 | EAlready => 4 | EPhase => 5 | EState => 6 | EVersion => 7
  | ETimeout => 8 | ESig => 9 | ESubMissing => 10 | ESubAlloc => 11 | EAssets => 12 | EIndex => 13
  | EDepth => 14 | ENotRegistered => 15 | ENotConcluded => 16 | EAuth => 17 | ENoApp => 18
  | ETransition => 19 end.
Inductive rres (A : Type) := ROk (a : A) | RErr (e : lerr).
Arguments ROk {A} a. Arguments RErr {A} e.
Definition rbind {A B} (x : rres A) (f : A -> rres B) : rres B :=
  match x with ROk a => f a | RErr e => RErr e end.
Definition guard (b : bool) (e : lerr) : rres unit := if b then ROk tt else RErr e.
Notation "'do' x <- e ; k" := (rbind e (fun x => k)) (at level 200, x pattern, e at level 100, k at level 200).
Notation "'check' b 'else' e ; k" := (rbind (guard b e) (fun _ => k)) (at level 200, b at level 100, e at level 0, k at level 200).

Inductive levent :=
| EvRegistered (id : bytes) (ver timeout : N)
| EvProgressed (id : bytes) (ver timeout : N)
| EvConcluded (id : bytes) (ver : N).

Inductive lop :=
| LDeposit (p : lparams) (assets : list N) (idx from : N) (amts : list Z)
| LRegister (p : lparams) (t : tx) (subs : list (lparams * tx))
| LProgress (p : lparams) (old new : state) (actor : N) (sg : sigtok)
| LConclude (p : lparams) (s : state) (subs : list state)
| LConcludeFinal (p : lparams) (t : tx)
| LWithdraw (p : lparams) (idx signer to : N)
| LTick (n : N).
Inductive lout := LOk (evs : list levent) | LErr (e : lerr).

(* ---------- checks on submitted states ---------- *)
Definition nparts_of (p : lparams) : N := len (lp_parts p).
(* the state belongs to the channel and has one balance column per participant *)
Definition state_ok (p : lparams) (s : state) : bool :=
  bytes_eqb (st_id s) (lp_id p) && alloc_valid (st_alloc s)
  && (num_parts (al_bals (st_alloc s)) =? nparts_of p).
Fixpoint sigs_verify (parts : list N) (s : state) (sg : list (option sigtok)) : bool :=
  match parts, sg with
  | [], [] => true
  | a :: parts', Some g :: sg' =>
      match verify_state a s g with Some true => sigs_verify parts' s sg' | _ => false end
  | _, _ => false
  end.
Definition tx_signed (p : lparams) (t : tx) : bool := sigs_verify (lp_parts p) (tx_st t) (tx_sigs t).

(* ---------- outcome accumulation ---------- *)
(* the participant of the parent that column j of the sub-channel maps to: identity for an empty index map *)
Definition imap_at (im : list N) (j : nat) : N :=
  match im with [] => N.of_nat j | _ => nth j im 0 end.
Definition imap_ok (im : list N) (cols np : nat) : bool :=
  match im with
  | [] => (cols <=? np)%nat
  | _ => (length im =? cols)%nat && forallb (fun x => x <? N.of_nat np) im
  end.
(* row[imap j] += sub[j] *)
Fixpoint add_row_at (im : list N) (j : nat) (row sub : list Z) : list Z :=
  match sub with
  | [] => row
  | x :: sub' =>
      let k := N.to_nat (imap_at im j) in
      add_row_at im (S j) (set_nth k (nth k row 0 + x)%Z row) sub'
  end.
Fixpoint add_outcome (im : list N) (out sub : list (list Z)) : list (list Z) :=
  match out, sub with
  | r :: out', s :: sub' => add_row_at im 0 r s :: add_outcome im out' sub'
  | _, _ => out
  end.
Definition cols_of (b : list (list Z)) : nat := match b with [] => O | r :: _ => length r end.

Definition find_tx (m : list (lparams * tx)) (id : bytes) : option (lparams * tx) :=
  find (fun e => bytes_eqb (st_id (tx_st (snd e))) id) m.
Definition find_st (m : list state) (id : bytes) : option state :=
  find (fun s => bytes_eqb (st_id s) id) m.

(* accumulate one locked sub-allocation into the parent's outcome *)
Definition merge_sub (parent : state) (l : suballoc) (sub : state) (subout : list (list Z))
    (out : list (list Z)) : rres (list (list Z)) :=
  check nlist_eqb (al_assets (st_alloc sub)) (al_assets (st_alloc parent)) else EAssets ;
  check zlist_eqb (sa_bals l) (map zsum subout) else ESubAlloc ;
  check (length subout =? length out)%nat
        && imap_ok (sa_imap l) (cols_of subout) (cols_of out)
        && forallb (fun r => (length r =? cols_of subout)%nat) subout
        && forallb (fun r => (length r =? cols_of out)%nat) out else EIndex ;
  ROk (add_outcome (sa_imap l) out subout).

(* the recursive outcome of a state over a map of sub-channel states (no ledger involved) *)
Fixpoint outcome_rec (fuel : nat) (s : state) (m : list state) : rres (list (list Z)) :=
  match fuel with
  | O => RErr EDepth
  | S f =>
      fold_left (fun acc l =>
        do out <- acc ;
        match find_st m (sa_id l) with
        | None => RErr ESubMissing
        | Some sub =>
            do so <- outcome_rec f sub m ;
            merge_sub s l sub so out
        end) (al_locked (st_alloc s)) (ROk (al_bals (st_alloc s)))
  end.

(* ---------- register ---------- *)
Definition disputes := bmap dispute.
Definition new_timeout (now : N) (p : lparams) (s : state) : N :=
  if st_final s then now else now + lp_cd p.

Definition register_single (now : N) (D : disputes) (p : lparams) (t : tx)
    : rres (disputes * list levent) :=
  let s := tx_st t in
  check state_ok p s else EParams ;
  match bfind D (st_id s) with
  | Some d =>
      if state_equal (d_state d) s then ROk (D, [])
      else
        check st_ver (d_state d) <? st_ver s else EVersion ;
        check dphase_eqb (d_phase d) DDispute else EPhase ;
        check now <? d_timeout d else ETimeout ;
        check tx_signed p t else ESig ;
        let to := if st_final s then now else d_timeout d in
        ROk (bput D (st_id s) (mkDisp p s to DDispute), [EvRegistered (st_id s) (st_ver s) to])
  | None =>
      check tx_signed p t else ESig ;
      let to := new_timeout now p s in
      ROk (bput D (st_id s) (mkDisp p s to DDispute), [EvRegistered (st_id s) (st_ver s) to])
  end.

Fixpoint register_rec (fuel : nat) (now : N) (D : disputes) (p : lparams) (t : tx)
    (m : list (lparams * tx)) : rres (disputes * list levent * list (list Z)) :=
  match fuel with
  | O => RErr EDepth
  | S f =>
      do (D1, ev1) <- register_single now D p t ;
      fold_left (fun acc l =>
        do (Da, eva, out) <- acc ;
        match find_tx m (sa_id l) with
        | None => RErr ESubMissing
        | Some (pl, tl) =>
            check negb (lp_ledger pl) else EParams ;
            do (Db, evb, so) <- register_rec f now Da pl tl m ;
            do out' <- merge_sub (tx_st t) l (tx_st tl) so out ;
            ROk (Db, eva ++ evb, out')
        end) (al_locked (st_alloc (tx_st t))) (ROk (D1, ev1, al_bals (st_alloc (tx_st t))))
  end.

(* ---------- conclude ---------- *)
Definition has_app (p : lparams) : bool := match lp_app p with Some _ => true | None => false end.
Definition conclude_single (now : N) (D : disputes) (s : state) : rres (disputes * list levent) :=
  match bfind D (st_id s) with
  | None => RErr ENotRegistered
  | Some d =>
      check state_equal (d_state d) s else EState ;
      if dphase_eqb (d_phase d) DConcluded then ROk (D, [])
      else
        let deadline := if dphase_eqb (d_phase d) DDispute && has_app (d_params d)
                        then d_timeout d + lp_cd (d_params d) else d_timeout d in
        check deadline <=? now else ETimeout ;
        ROk (bput D (st_id s) (mkDisp (d_params d) (d_state d) (d_timeout d) DConcluded),
             [EvConcluded (st_id s) (st_ver s)])
  end.

Fixpoint conclude_rec (fuel : nat) (now : N) (D : disputes) (s : state) (m : list state)
    : rres (disputes * list levent * list (list Z)) :=
  match fuel with
  | O => RErr EDepth
  | S f =>
      do (D1, ev1) <- conclude_single now D s ;
      fold_left (fun acc l =>
        do (Da, eva, out) <- acc ;
        match find_st m (sa_id l) with
        | None => RErr ESubMissing
        | Some sub =>
            do (Db, evb, so) <- conclude_rec f now Da sub m ;
            do out' <- merge_sub s l sub so out ;
            ROk (Db, eva ++ evb, out')
        end) (al_locked (st_alloc s)) (ROk (D1, ev1, al_bals (st_alloc s)))
  end.

(* AssetHolder.setOutcome: only an exactly funded channel is redistributed *)
Definition fund_dims_ok (f : fund) : bool :=
  (length (f_hold f) =? length (f_assets f))%nat
  && (length (f_wd f) =? length (f_dep f))%nat
  && forallb (fun r => (length r =? length (f_dep f))%nat) (f_hold f).
Definition outcome_fits (f : fund) (out : list (list Z)) : bool :=
  (length out =? length (f_hold f))%nat
  && forallb (fun r => (length r =? length (f_dep f))%nat) out
  && zlist_eqb (map zsum out) (map zsum (f_hold f)).
Definition set_outcome (F : bmap fund) (id : bytes) (out : list (list Z)) : bmap fund :=
  match bfind F id with
  | None => F
  | Some f =>
      if f_settled f then F
      else
        let h := if fund_dims_ok f && outcome_fits f out then out else f_hold f in
        bput F id (mkFund (f_assets f) h (f_dep f) true (f_wd f))
  end.

Definition is_concluded (D : disputes) (id : bytes) : bool :=
  match bfind D id with Some d => dphase_eqb (d_phase d) DConcluded | None => false end.

(* ---------- progress (force execution) ---------- *)
(* the payment app's rule as the contract applies it (dimensions have been checked before): nobody but the
   actor pays *)
Fixpoint lpay_row (actor : N) (j : N) (from to : list Z) : bool :=
  match from, to with
  | f :: from', t :: to' =>
      (if j =? actor then (t <=? f)%Z else (f <=? t)%Z) && lpay_row actor (j + 1) from' to'
  | _, _ => true
  end.
Fixpoint lpay_rows (actor : N) (from to : list (list Z)) : bool :=
  match from, to with
  | f :: from', t :: to' => lpay_row actor 0 f t && lpay_rows actor from' to'
  | _, _ => true
  end.
Definition app_rule (k : appkind) (old new : state) (actor : N) : bool :=
  match k with
  | KPay => is_nodata (st_data new) && lpay_rows actor (al_bals (st_alloc old)) (al_bals (st_alloc new))
  | KMock => match mock_op (st_data old) with Some o => o =? 0 | None => false end
  end.
Definition chain_transition_ok (p : lparams) (k : appkind) (old new : state) (actor : N) : bool :=
  state_ok p new
  && (st_ver old <? 18446744073709551615) && (st_ver new =? st_ver old + 1)
  && negb (st_final old)
  && app_should_equal (st_app old) (st_app new)
  && nlist_eqb (al_assets (st_alloc old)) (al_assets (st_alloc new))
  && zlist_eqb (map zsum (al_bals (st_alloc old))) (map zsum (al_bals (st_alloc new)))
  && suballocs_equal (al_locked (st_alloc old)) (al_locked (st_alloc new))
  && app_rule k old new actor.

(* ---------- holdings ---------- *)
Definition new_fund (assets : list N) (np : nat) : fund :=
  mkFund assets (repeat (repeat 0%Z np) (length assets)) (repeat false np) false (repeat false np).
Fixpoint add_col (hold : list (list Z)) (idx : nat) (amts : list Z) : list (list Z) :=
  match hold, amts with
  | r :: hold', m :: amts' => set_nth idx (nth idx r 0 + m)%Z r :: add_col hold' idx amts'
  | _, _ => hold
  end.
Definition col (hold : list (list Z)) (idx : nat) : list Z := map (fun r => nth idx r 0%Z) hold.
Definition zero_col (hold : list (list Z)) (idx : nat) : list (list Z) := map (set_nth idx 0%Z) hold.

(* ---------- the step function ---------- *)
Definition with_acc_funds (L : lstate) (a : accounts) (F : bmap fund) : lstate :=
  mkL (l_clock L) a F (l_disp L).
Definition with_disp (L : lstate) (D : disputes) : lstate := mkL (l_clock L) (l_acc L) (l_funds L) D.

Definition step_res (L : lstate) (o : lop) : rres (lstate * list levent) :=
  match o with
  | LDeposit p assets idx from amts =>
      let np := length (lp_parts p) in
      let i := N.to_nat idx in
      check lp_ledger p else EParams ;
      check (i <? np)%nat && negb (length assets =? 0)%nat && (length amts =? length assets)%nat
            && nonneg amts else EArgs ;
      let f := match bfind (l_funds L) (lp_id p) with Some f => f | None => new_fund assets np end in
      check nlist_eqb (f_assets f) assets && (length (f_dep f) =? np)%nat && fund_dims_ok f else EArgs ;
      check negb (f_settled f) else EPhase ;
      check negb (nth i (f_dep f) true) else EAlready ;
      match debit_all (l_acc L) from (combine assets amts) with
      | None => RErr EFunds
      | Some acc' =>
          let f' := mkFund (f_assets f) (add_col (f_hold f) i amts) (set_nth i true (f_dep f))
                           false (f_wd f) in
          ROk (with_acc_funds L acc' (bput (l_funds L) (lp_id p) f'), [])
      end
  | LRegister p t subs =>
      check lp_ledger p else EParams ;
      do (D, evs, _) <- register_rec (S (length subs)) (l_clock L) (l_disp L) p t subs ;
      ROk (with_disp L D, evs)
  | LProgress p old new actor sg =>
      match bfind (l_disp L) (lp_id p) with
      | None => RErr ENotRegistered
      | Some d =>
          check bytes_eqb (st_id old) (lp_id p) && state_equal (d_state d) old else EState ;
          check match d_phase d with
                | DDispute => d_timeout d <=? l_clock L
                | DForceExec => l_clock L <? d_timeout d
                | DConcluded => false
                end else (match d_phase d with DConcluded => EPhase | _ => ETimeout end) ;
          match lp_app p with
          | None => RErr ENoApp
          | Some k =>
              check actor <? nparts_of p else EArgs ;
              check match verify_state (nth (N.to_nat actor) (lp_parts p) 0) new sg with
                    | Some true => true | _ => false end else ESig ;
              check chain_transition_ok p k old new actor else ETransition ;
              let to := new_timeout (l_clock L) p new in
              ROk (with_disp L (bput (l_disp L) (lp_id p) (mkDisp p new to DForceExec)),
                   [EvProgressed (lp_id p) (st_ver new) to])
          end
      end
  | LConclude p s subs =>
      check lp_ledger p && bytes_eqb (st_id s) (lp_id p) else EParams ;
      let was := is_concluded (l_disp L) (lp_id p) in
      do (D, evs, out) <- conclude_rec (S (length subs)) (l_clock L) (l_disp L) s subs ;
      let F := if was then l_funds L else set_outcome (l_funds L) (lp_id p) out in
      ROk (mkL (l_clock L) (l_acc L) F D, evs)
  | LConcludeFinal p t =>
      let s := tx_st t in
      check lp_ledger p && state_ok p s else EParams ;
      check st_final s && (length (al_locked (st_alloc s)) =? 0)%nat else EArgs ;
      match bfind (l_disp L) (lp_id p) with
      | Some d =>
          if dphase_eqb (d_phase d) DConcluded
          then (check state_equal (d_state d) s else EState ; ROk (L, []))
          else
            check tx_signed p t else ESig ;
            ROk (mkL (l_clock L) (l_acc L) (set_outcome (l_funds L) (lp_id p) (al_bals (st_alloc s)))
                     (bput (l_disp L) (lp_id p) (mkDisp p s (l_clock L) DConcluded)),
                 [EvConcluded (lp_id p) (st_ver s)])
      | None =>
          check tx_signed p t else ESig ;
          ROk (mkL (l_clock L) (l_acc L) (set_outcome (l_funds L) (lp_id p) (al_bals (st_alloc s)))
                   (bput (l_disp L) (lp_id p) (mkDisp p s (l_clock L) DConcluded)),
               [EvConcluded (lp_id p) (st_ver s)])
      end
  | LWithdraw p idx signer to =>
      let i := N.to_nat idx in
      match bfind (l_funds L) (lp_id p) with
      | None => RErr ENotConcluded
      | Some f =>
          check f_settled f else ENotConcluded ;
          check (i <? length (lp_parts p))%nat && (length (f_wd f) =? length (lp_parts p))%nat else EArgs ;
          check nth i (lp_parts p) 0 =? signer else EAuth ;
          check negb (nth i (f_wd f) true) else EAlready ;
          let acc' := credit_all (l_acc L) to (combine (f_assets f) (col (f_hold f) i)) in
          let f' := mkFund (f_assets f) (zero_col (f_hold f) i) (f_dep f) true (set_nth i true (f_wd f)) in
          ROk (with_acc_funds L acc' (bput (l_funds L) (lp_id p) f'), [])
      end
  | LTick n => ROk (mkL (l_clock L + n) (l_acc L) (l_funds L) (l_disp L), [])
  end.

Definition step (L : lstate) (o : lop) : lstate * lout :=
  match step_res L o with
  | ROk (L', evs) => (L', LOk evs)
  | RErr e => (L, LErr e)
  end.

Definition run (L : lstate) (ops : list lop) : lstate := fold_left (fun L o => fst (step L o)) ops L.
Fixpoint run_outs (L : lstate) (ops : list lop) : list lout :=
  match ops with
  | [] => []
  | o :: r => let (L', x) := step L o in x :: run_outs L' r
  end.

Definition init_ledger (acc : accounts) : lstate := mkL 0 acc [] [].

(* ---------- the quantities the theorems talk about ---------- *)
(* everything the ledger holds of one asset: in accounts and in channel holdings *)
Fixpoint sum_for (a : N) (ps : list (N * Z)) : Z :=
  match ps with
  | [] => 0%Z
  | (a', z) :: r => ((if (a' =? a)%N then z else 0) + sum_for a r)%Z
  end.
Definition acc_total (a : N) (l : accounts) : Z := sum_for a (map (fun e => (snd (fst e), snd e)) l).
Definition hold_total (a : N) (f : fund) : Z := sum_for a (combine (f_assets f) (map zsum (f_hold f))).
Definition funds_total (a : N) (F : bmap fund) : Z := zsum (map (fun e => hold_total a (snd e)) F).
Definition ledger_total (a : N) (L : lstate) : Z := (acc_total a (l_acc L) + funds_total a (l_funds L))%Z.
