(* Model of go-perun's message relay: wire/relay.go, wire/cache.go (with the consumer side of
   wire/consumer.go / poly-go sync.Closer as far as the relay depends on it).

   Definitions only, no proofs (Proofs/RelayP.v).

   An envelope is (tag, unique id); a predicate is any function env -> bool (the harness uses
   finite tag sets, [tagset]). One relay, any number of consumers (ids) and cache predicates
   (ids = the *Predicate pointers of the Go code).

   Atomic actions = the lock-protected critical sections of the Go code:
     APut           Relay.Put           (RLock; the cache append is serialised by cacheMutex)
     ASubscribe     Relay.Subscribe     (Lock) -- takes the matching cached envelopes with it
     ACache         Relay.Cache         (Lock)
     ARelease       Relay.ReleaseCache  (Lock)
     ACloseConsumer Closer.Close of a consumer: runs the OnClose callback registered by
                    Subscribe, i.e. spawns `go p.delete(c)`
     ADelete        Relay.delete        (Lock), the spawned goroutine
     ADeliver       one `c.Put(m)` of the goroutine spawned by Subscribe for the cached envelopes
     ACloseFlag     Relay.Close, first half: Closer.Close sets the closed flag (no lock)
     ACloseClear    Relay.Close, second half (Lock): drops subscriptions, flushes the cache

   The logs (dlog, hlog, flushed) record what was handed to whom; shist records the successful
   subscriptions (= the OnClose callbacks registered at the consumers). *)
From Coq Require Import List Bool PeanoNat.
Import ListNotations.

Definition cid := nat.
Definition env := (nat * nat)%type.          (* (tag, unique id) *)
Definition pred := env -> bool.

Definition tagset (l : list nat) : pred := fun e => existsb (Nat.eqb (fst e)) l.

Definition env_eqb (a b : env) : bool := Nat.eqb (fst a) (fst b) && Nat.eqb (snd a) (snd b).

Definition memn (c : nat) (l : list nat) : bool := existsb (Nat.eqb c) l.

Record state := mkState {
  closed   : bool;                    (* Closer flag of the relay *)
  closing  : bool;                    (* flag set, locked part of Close not yet run *)
  subs     : list (cid * pred);       (* Relay.consumers *)
  cache    : list env;                (* Cache.msgs *)
  cpreds   : list (nat * pred);       (* Cache.preds, keyed by pointer identity *)
  inflight : list (cid * env);        (* cached envelopes taken by a Subscribe, not yet handed over *)
  cclosed  : list cid;                (* consumers whose Closer is closed *)
  pending  : list cid;                (* spawned `go p.delete(c)` that did not run yet *)
  shist    : list (cid * pred);       (* successful subscriptions so far, in order *)
  dlog     : list (cid * env);        (* consumer.Put calls, in order *)
  hlog     : list env;                (* default handler calls, in order *)
  flushed  : list env                 (* envelopes dropped by Cache.Flush in Close *)
}.

Definition init : state := mkState false false [] [] [] [] [] [] [] [] [] [].

Inductive action :=
| APut (e : env)
| ASubscribe (c : cid) (p : pred)
| ACache (k : nat) (p : pred)
| ARelease (k : nat)
| ACloseConsumer (c : cid)
| ADelete (c : cid)
| ADeliver (c : cid)
| ACloseFlag
| ACloseClear.

(* what the caller / an observer sees of one action *)
Inductive obs :=
| OP (tos : list cid) (ndflt : nat)   (* Put: consumers handed the envelope (in order), default handler calls *)
| OSok | OSrc | OScc                  (* Subscribe: nil / "producer closed" / "consumer closed" *)
| OPanic                              (* log.Panic: duplicate subscription / delete of an unknown consumer *)
| OU                                  (* Cache, ReleaseCache *)
| OX (fresh : bool)                   (* consumer Close: false = already closed *)
| OD                                  (* delete ran *)
| OV (tag uid : nat)                  (* the hand-over goroutine put this envelope *)
| OFok | OFalready                    (* Closer.Close of the relay *)
| OG (n : nat)                        (* locked part of Close: number of flushed envelopes (0 = nil error) *)
| ODis                                (* action not enabled (no such goroutine) *)
| OSother.                            (* never produced by the model *)

(* ---- record updates ---- *)
Definition set_closed (s : state) v := mkState v (closing s) (subs s) (cache s) (cpreds s) (inflight s) (cclosed s) (pending s) (shist s) (dlog s) (hlog s) (flushed s).
Definition set_closing (s : state) v := mkState (closed s) v (subs s) (cache s) (cpreds s) (inflight s) (cclosed s) (pending s) (shist s) (dlog s) (hlog s) (flushed s).
Definition set_subs (s : state) v := mkState (closed s) (closing s) v (cache s) (cpreds s) (inflight s) (cclosed s) (pending s) (shist s) (dlog s) (hlog s) (flushed s).
Definition set_cache (s : state) v := mkState (closed s) (closing s) (subs s) v (cpreds s) (inflight s) (cclosed s) (pending s) (shist s) (dlog s) (hlog s) (flushed s).
Definition set_cpreds (s : state) v := mkState (closed s) (closing s) (subs s) (cache s) v (inflight s) (cclosed s) (pending s) (shist s) (dlog s) (hlog s) (flushed s).
Definition set_inflight (s : state) v := mkState (closed s) (closing s) (subs s) (cache s) (cpreds s) v (cclosed s) (pending s) (shist s) (dlog s) (hlog s) (flushed s).
Definition set_cclosed (s : state) v := mkState (closed s) (closing s) (subs s) (cache s) (cpreds s) (inflight s) v (pending s) (shist s) (dlog s) (hlog s) (flushed s).
Definition set_pending (s : state) v := mkState (closed s) (closing s) (subs s) (cache s) (cpreds s) (inflight s) (cclosed s) v (shist s) (dlog s) (hlog s) (flushed s).
Definition set_shist (s : state) v := mkState (closed s) (closing s) (subs s) (cache s) (cpreds s) (inflight s) (cclosed s) (pending s) v (dlog s) (hlog s) (flushed s).
Definition set_dlog (s : state) v := mkState (closed s) (closing s) (subs s) (cache s) (cpreds s) (inflight s) (cclosed s) (pending s) (shist s) v (hlog s) (flushed s).
Definition set_hlog (s : state) v := mkState (closed s) (closing s) (subs s) (cache s) (cpreds s) (inflight s) (cclosed s) (pending s) (shist s) (dlog s) v (flushed s).
Definition set_flushed (s : state) v := mkState (closed s) (closing s) (subs s) (cache s) (cpreds s) (inflight s) (cclosed s) (pending s) (shist s) (dlog s) (hlog s) v.

(* ---- Relay.Put ----
     RLock; if IsClosed return
     for sub in consumers: if sub.predicate(e) { sub.consumer.Put(e); found = true }
     if !found { if !cache.Put(e) { defaultMsgHandler(e) } }
   Cache.Put: found := any active predicate matches; if found { msgs = append(msgs, e) } *)
Definition matching (s : state) (e : env) : list cid :=
  map fst (filter (fun sub => snd sub e) (subs s)).

Definition cache_matches (s : state) (e : env) : bool :=
  existsb (fun kp => snd kp e) (cpreds s).

Definition put (s : state) (e : env) : state * obs :=
  if closed s then (s, OP [] 0) else
  match matching s e with
  | [] =>
      if cache_matches s e
      then (set_cache s (cache s ++ [e]), OP [] 0)
      else (set_hlog s (hlog s ++ [e]), OP [] 1)
  | tos => (set_dlog s (dlog s ++ map (fun c => (c, e)) tos), OP tos 0)
  end.

(* ---- Relay.Subscribe ----
     Lock; if IsClosed return "producer closed"
     if c already in consumers: log.Panic("duplicate subscription")
     if !c.OnClose(func(){ go p.delete(c) }) return "consumer closed"
     consumers = append(consumers, {c, predicate})
     cached := cache.Messages(predicate)        -- matching ones are removed from the cache
     go func(){ for m in cached { c.Put(m) } }() *)
Definition subscribe (s : state) (c : cid) (p : pred) : state * obs :=
  if closed s then (s, OSrc) else
  if memn c (map fst (subs s)) then (s, OPanic) else
  if memn c (cclosed s) then (s, OScc) else
  let taken := filter p (cache s) in
  let rest := filter (fun m => negb (p m)) (cache s) in
  let s1 := set_subs s (subs s ++ [(c, p)]) in
  let s2 := set_shist s1 (shist s ++ [(c, p)]) in
  let s3 := set_cache s2 rest in
  (set_inflight s3 (inflight s ++ map (fun m => (c, m)) taken), OSok).

(* ---- Relay.Cache: Lock; if IsClosed return; preds[p] = {} ---- *)
Definition cache_pred (s : state) (k : nat) (p : pred) : state * obs :=
  if closed s then (s, OU) else
  if memn k (map fst (cpreds s)) then (s, OU) else
  (set_cpreds s (cpreds s ++ [(k, p)]), OU).

(* ---- Relay.ReleaseCache: Lock; delete(preds, p)  (no closed check; cached envelopes stay) ---- *)
Definition release (s : state) (k : nat) : state * obs :=
  (set_cpreds s (filter (fun kp => negb (Nat.eqb k (fst kp))) (cpreds s)), OU).

(* ---- consumer's Closer.Close: sets the flag once, runs the registered callbacks ---- *)
Definition close_consumer (s : state) (c : cid) : state * obs :=
  if memn c (cclosed s) then (s, OX false) else
  let s1 := set_cclosed s (c :: cclosed s) in
  if memn c (map fst (shist s))
  then (set_pending s1 (pending s ++ [c]), OX true)
  else (s1, OX true).

(* ---- Relay.delete ----
     Lock; if IsClosed return
     for i, sub in consumers: if sub.consumer == c {
        consumers[i] = consumers[last]; consumers = consumers[:last]; return }
     log.Panic("deleted consumer that was not subscribed") *)
Fixpoint del_sub (c : cid) (l : list (cid * pred)) : option (list (cid * pred)) :=
  match l with
  | [] => None
  | x :: r =>
      if Nat.eqb (fst x) c
      then Some (match r with [] => [] | _ => last r x :: removelast r end)
      else option_map (cons x) (del_sub c r)
  end.

Fixpoint remove_first (c : cid) (l : list cid) : list cid :=
  match l with
  | [] => []
  | x :: r => if Nat.eqb x c then r else x :: remove_first c r
  end.

Definition delete (s : state) (c : cid) : state * obs :=
  if negb (memn c (pending s)) then (s, ODis) else
  let s1 := set_pending s (remove_first c (pending s)) in
  if closed s then (s1, OD) else
  match del_sub c (subs s) with
  | Some l => (set_subs s1 l, OD)
  | None => (s1, OPanic)
  end.

(* ---- one c.Put(m) of the hand-over goroutine ---- *)
Fixpoint take_first (c : cid) (l : list (cid * env)) : option (env * list (cid * env)) :=
  match l with
  | [] => None
  | x :: r =>
      if Nat.eqb (fst x) c then Some (snd x, r)
      else match take_first c r with
           | Some (e, r') => Some (e, x :: r')
           | None => None
           end
  end.

Definition deliver (s : state) (c : cid) : state * obs :=
  match take_first c (inflight s) with
  | Some (e, r) => (set_dlog (set_inflight s r) (dlog s ++ [(c, e)]), OV (fst e) (snd e))
  | None => (s, ODis)
  end.

(* ---- Relay.Close ----
     if err := Closer.Close(); err != nil return err          (ACloseFlag)
     Lock; consumers = nil                                     (ACloseClear)
     if cache.Size() != 0 { cache.Flush(); return error(size) } *)
Definition close_flag (s : state) : state * obs :=
  if closed s then (s, OFalready) else (set_closing (set_closed s true) true, OFok).

Definition close_clear (s : state) : state * obs :=
  if negb (closing s) then (s, ODis) else
  let s1 := set_subs (set_closing s false) [] in
  match cache s with
  | [] => (s1, OG 0)
  | _ => (set_flushed (set_cpreds (set_cache s1 []) []) (flushed s ++ cache s), OG (length (cache s)))
  end.

Definition step (s : state) (a : action) : state * obs :=
  match a with
  | APut e => put s e
  | ASubscribe c p => subscribe s c p
  | ACache k p => cache_pred s k p
  | ARelease k => release s k
  | ACloseConsumer c => close_consumer s c
  | ADelete c => delete s c
  | ADeliver c => deliver s c
  | ACloseFlag => close_flag s
  | ACloseClear => close_clear s
  end.

Definition run (s : state) (tr : list action) : state := fold_left (fun s a => fst (step s a)) tr s.

(* ==================================================================================
   Finer model of Put: what the RWMutex read lock really permits.

   A Put that finds no subscriber and a matching cache predicate executes
   `c.msgs = append(c.msgs, e)`: read the slice header, write the extended slice.
   [mutex = false] is the code before the repair (several readers may be between the read and the
   write at once); [mutex = true] is the repaired code (cacheMutex held from read to write).
   Writers (every other relay method) need the write lock: no Put may be in progress. *)

Inductive phase :=
| PhWantCache             (* fan-out found nobody, a cache predicate matched *)
| PhRead (seen : list env). (* slice read, write not yet done *)

Record fstate := mkF {
  base    : state;
  threads : list (nat * env * phase)   (* Puts holding the read lock: thread id, envelope, phase *)
}.

Inductive faction :=
| FBegin (t : nat) (e : env)   (* RLock, closed check, fan-out, predicate check; may finish the Put *)
| FRead (t : nat)              (* (cacheMutex.Lock;) read c.msgs *)
| FWrite (t : nat)             (* c.msgs = seen ++ [e] (; cacheMutex.Unlock); RUnlock *)
| FWriter (a : action).        (* any other action; needs the write lock where the code takes it *)

Definition finit : fstate := mkF init [].

Fixpoint find_thread (t : nat) (l : list (nat * env * phase)) : option (env * phase) :=
  match l with
  | [] => None
  | (t', e, ph) :: r => if Nat.eqb t' t then Some (e, ph) else find_thread t r
  end.

Definition drop_thread (t : nat) (l : list (nat * env * phase)) :=
  filter (fun x => negb (Nat.eqb (fst (fst x)) t)) l.

Definition holds_cache_mutex (x : nat * env * phase) : bool :=
  match snd x with PhRead _ => true | PhWantCache => false end.

(* does the action take the relay's write lock? (the Closer flag and the consumer's Closer do not) *)
Definition needs_write_lock (a : action) : bool :=
  match a with
  | APut _ => false | ACloseFlag => false | ACloseConsumer _ => false | ADeliver _ => false
  | _ => true
  end.

Definition fstep (mutex : bool) (f : fstate) (a : faction) : fstate :=
  match a with
  | FBegin t e =>
      match find_thread t (threads f) with
      | Some _ => f
      | None =>
          let s := base f in
          if closed s then f else
          match matching s e with
          | [] => if cache_matches s e
                  then mkF s (threads f ++ [(t, e, PhWantCache)])
                  else mkF (fst (put s e)) (threads f)
          | _ => mkF (fst (put s e)) (threads f)
          end
      end
  | FRead t =>
      match find_thread t (threads f) with
      | Some (e, PhWantCache) =>
          if mutex && existsb holds_cache_mutex (threads f) then f
          else mkF (base f) (drop_thread t (threads f) ++ [(t, e, PhRead (cache (base f)))])
      | _ => f
      end
  | FWrite t =>
      match find_thread t (threads f) with
      | Some (e, PhRead seen) => mkF (set_cache (base f) (seen ++ [e])) (drop_thread t (threads f))
      | _ => f
      end
  | FWriter a =>
      match a with
      | APut _ => f
      | _ => if needs_write_lock a && negb (match threads f with [] => true | _ => false end)
             then f else mkF (fst (step (base f) a)) (threads f)
      end
  end.

Definition frun (mutex : bool) (f : fstate) (tr : list faction) : fstate :=
  fold_left (fstep mutex) tr f.
