(* channel/actionmachine.go as a step function over Model.Machine.  Definitions only.

   An ActionMachine embeds *machine (phases, signatures, staging/current: Model.Machine) and adds the
   staging actions and three operations that delegate to the channel's ActionApp.  The app is user
   code outside go-perun: each operation carries the answer the app gives when (and if) it is
   consulted, so theorems quantify over every app, and the correspondence feeds the answers of the
   harness's app to the model. *)
From V Require Export Model.Machine.
Open Scope N_scope.

(* answer of an app callback: a value, an error (ActionError or runtime error: both are returned to
   the caller and treated alike by the machine) or a panic *)
Inductive ares (A : Type) := ARet (x : A) | AErr | APanic.
Arguments ARet {A} x. Arguments AErr {A}. Arguments APanic {A}.

Record amach := mkAM { am : mach; acts : list (option N) }.   (* an action = its code *)

(* the operations ActionMachine inherits from the embedded *machine *)
Inductive sop :=
| SSig
| SAddSig (i : N) (sg : sigtok)
| SEnableInit | SEnableUpdate | SEnableFinal | SDiscard
| SSetFunded | SSetRegistering | SSetRegistered
| SSetProgressing (s : state) | SSetProgressed (s : state)
| SSetWithdrawing | SSetWithdrawn.
Definition sop_op (o : sop) : op :=
  match o with
  | SSig => OSig | SAddSig i g => OAddSig i g
  | SEnableInit => OEnableInit | SEnableUpdate => OEnableUpdate | SEnableFinal => OEnableFinal
  | SDiscard => ODiscard | SSetFunded => OSetFunded | SSetRegistering => OSetRegistering
  | SSetRegistered => OSetRegistered
  | SSetProgressing s => OSetProgressing s | SSetProgressed s => OSetProgressed s
  | SSetWithdrawing => OSetWithdrawing | SSetWithdrawn => OSetWithdrawn
  end.

Inductive aop :=
| AAdd (i : N) (a : N) (resp : ares unit)       (* AddAction; resp = app.ValidAction *)
| AInit (resp : ares (alloc * bytes))           (* Init; resp = app.InitState *)
| AUpdate (resp : ares state)                   (* Update; resp = app.ApplyActions *)
| AShared (o : sop).

Definition action_phases : list phase := [InitActing; Acting].
Definition no_acts (m : mach) : list (option N) := repeat None (N.to_nat (nparts m)).

(* is the app consulted by this call? *)
Definition calls_app (s : amach) (o : aop) : bool :=
  match o with
  | AAdd i _ _ =>
      phase_in (ph (am s)) action_phases
      && match nth_error (acts s) (N.to_nat i) with Some None => true | _ => false end
  | AInit _ => expect (am s) InitActing InitSigning
  | AUpdate _ => expect (am s) Acting Signing
  | AShared _ => false
  end.

Definition astep (s : amach) (o : aop) : amach * out :=
  let m := am s in
  match o with
  | AAdd i a resp =>
      if negb (phase_in (ph m) action_phases) then (s, ERR) else
      match nth_error (acts s) (N.to_nat i) with
      | None => (s, PANIC)                       (* index out of range *)
      | Some (Some _) => (s, ERR)                (* already set *)
      | Some None =>
          match resp with
          | ARet _ => (mkAM m (set_nth (N.to_nat i) (Some a) (acts s)), OK)
          | AErr => (s, ERR)
          | APanic => (s, PANIC)
          end
      end
  | AInit resp =>
      if negb (expect m InitActing InitSigning) then (s, ERR) else
      match resp with
      | AErr => (s, ERR)
      | APanic => (s, PANIC)
      | ARet (a, d) =>
          match new_state m a d with
          | None => (s, ERR)
          | Some st => (mkAM (set_staging m InitSigning st) (no_acts m), OK)
          end
      end
  | AUpdate resp =>
      if negb (expect m Acting Signing) then (s, ERR) else
      match resp with
      | AErr => (s, ERR)
      | APanic => (s, PANIC)
      | ARet st => (mkAM (set_staging m Signing st) (no_acts m), OK)   (* no ValidTransition *)
      end
  | AShared o =>
      let (m', x) := step m (sop_op o) in (mkAM m' (acts s), x)
  end.

Definition new_amachine (p : mparams) (idx : N) : amach :=
  mkAM (new_machine p idx) (no_acts (new_machine p idx)).

Definition arun (s : amach) (ops : list aop) : amach := fold_left (fun s o => fst (astep s o)) ops s.
