(* Protocol-level LTS for settlement and disputes (C03, C04).  Definitions only (proofs: Proofs/SettleP.v).

   One ledger channel with its direct sub-channels between participants 0 and 1, the strict ledger
   of Model/Ledger.v, the logical clock (ticks of the ledger), and per participant:
     - its agreed histories: per channel (the ledger channel and every sub-channel it knows) the list of
       fully signed states it has enabled, newest first, versions increasing by one;
     - whether the channel machine has left the updating phases (frozen: Registering and later);
     - whether its own Conclude went through and whether it has withdrawn.

   Steps (sevent). Honest participant i:
     SOpen / SEnable   the client creates a channel / enables the next fully signed state
     SFreeze           the machine enters Registering / Registered / Withdrawing
     SFund             deposits its column of the funding agreement
     SReact            the watcher registers states it has been handed: some state of the participant's history
                       of the ledger channel with some states of its sub-channel histories (the watcher reads
                       the published states in several steps, not atomically with the client's updates, so
                       which ones it registers is left open here; that the NEWEST ones are on the ledger in
                       time is exactly the urgency assumption below)
     SRegister         the client registers its newest tree
     SConclude         the client concludes on its newest tree (ConcludeFinal for an unregistered final state
                       without sub-allocations), SWithdraw withdraws after its own conclude succeeded
   Adversary playing against honest participant h (the peer, deviating only by what it registers):
     SAdvRegister      Register of ANY fully signed states of h's histories (any version of the ledger
                       channel with any versions of the sub-channels), at any point
     SAdvConclude      Conclude with arbitrary states; SAdvConcludeFinal with a final state of h's history
     SAdvWithdraw      withdraws its own share; its deposit is SFund (1-h)
   STick advances the clock by one and is guarded by the URGENCY ASSUMPTION [tick_ok]: when the tick
   closes (or has closed) the refutation window of a registered channel that matters to a participant
   (its ledger channel, or a sub-channel locked in its newest ledger state), that participant's
   reactions have all happened: the watcher's registration of the newest state is on the ledger and the
   machine is frozen. A pending reaction fires before the clock passes the
   challenge timeout. This is an assumption about scheduling, stated here and nowhere hidden. *)
From V Require Export Model.Ledger.
Open Scope N_scope.

Record node := mkNode { n_params : lparams; n_hist : list state; n_frozen : bool }.
Record party := mkParty { pt_nodes : bmap node; pt_concl : bool; pt_wd : bool }.
Record sstate := mkS {
  s_root : lparams;               (* parameters of the ledger channel *)
  s_assets : list N;
  s_agree : list (list Z);        (* funding agreement [asset][participant] *)
  s_accts : list N;               (* ledger account of participant i *)
  s_L : lstate;
  s_p0 : party; s_p1 : party }.

Definition empty_party : party := mkParty [] false false.
Definition sinit (rootp : lparams) (assets : list N) (agree : list (list Z)) (accts : list N)
    (acc : accounts) : sstate :=
  mkS rootp assets agree accts (init_ledger acc) empty_party empty_party.

Definition get_party (st : sstate) (i : N) : party := if i =? 0 then s_p0 st else s_p1 st.
Definition set_party (st : sstate) (i : N) (P : party) : sstate :=
  if i =? 0 then mkS (s_root st) (s_assets st) (s_agree st) (s_accts st) (s_L st) P (s_p1 st)
  else mkS (s_root st) (s_assets st) (s_agree st) (s_accts st) (s_L st) (s_p0 st) P.
Definition set_ledger (st : sstate) (L : lstate) : sstate :=
  mkS (s_root st) (s_assets st) (s_agree st) (s_accts st) L (s_p0 st) (s_p1 st).
Definition rootid (st : sstate) : bytes := lp_id (s_root st).

Inductive sevent :=
| SOpen (i : N) (p : lparams) (s : state)
| SEnable (i : N) (s : state)
| SFreeze (i : N) (c : bytes)
| SFund (i : N)
| SReact (i : N) (rs : state) (subs : list (lparams * state))
| SRegister (i : N)
| SConclude (i : N)
| SWithdraw (i : N)
| SAdvRegister (h : N) (t : tx) (subs : list (lparams * tx))
| SAdvConclude (s : state) (subs : list state)
| SAdvConcludeFinal (h : N) (t : tx)
| SAdvWithdraw (h : N)
| STick.

Definition appkind_eqb (a b : option appkind) : bool :=
  match a, b with
  | None, None => true
  | Some KPay, Some KPay => true
  | Some KMock, Some KMock => true
  | _, _ => false
  end.
Definition lparams_eqb (p q : lparams) : bool :=
  bytes_eqb (lp_id p) (lp_id q) && nlist_eqb (lp_parts p) (lp_parts q) && (lp_cd p =? lp_cd q)
  && appkind_eqb (lp_app p) (lp_app q) && Bool.eqb (lp_ledger p) (lp_ledger q).

(* ---------- histories ---------- *)
Definition newest (n : node) : option state := hd_error (n_hist n).
Definition locks (s : state) (c : bytes) : bool :=
  existsb (fun l => bytes_eqb (sa_id l) c) (al_locked (st_alloc s)).
Definition in_hist (s : state) (h : list state) : bool := existsb (state_equal s) h.

(* the next fully signed state of a channel *)
Definition good_succ (p : lparams) (cur s : state) : bool :=
  state_ok p s && (st_ver s =? st_ver cur + 1) && negb (st_final cur)
  && app_should_equal (st_app cur) (st_app s)
  && nlist_eqb (al_assets (st_alloc cur)) (al_assets (st_alloc s))
  && zlist_eqb (alloc_sum (st_alloc cur)) (alloc_sum (st_alloc s)).

(* a sub-allocation of a ledger state is backed by a known sub-channel of matching total *)
Definition suballoc_backed (nodes : bmap node) (s : state) (l : suballoc) : bool :=
  match bfind nodes (sa_id l) with
  | Some n =>
      negb (lp_ledger (n_params n))
      && match newest n with
         | Some t =>
             (length (al_locked (st_alloc t)) =? 0)%nat
             && nlist_eqb (al_assets (st_alloc t)) (al_assets (st_alloc s))
             && zlist_eqb (sa_bals l) (map zsum (al_bals (st_alloc t)))
             && imap_ok (sa_imap l) (cols_of (al_bals (st_alloc t))) (cols_of (al_bals (st_alloc s)))
         | None => false
         end
  | None => false
  end.
(* a sub-channel enters the locked list while nothing is registered for it on the ledger *)
Definition fresh_lock_ok (D : disputes) (cur : state) (l : suballoc) : bool :=
  locks cur (sa_id l) || match bfind D (sa_id l) with None => true | Some _ => false end.
Definition root_succ_ok (nodes : bmap node) (D : disputes) (cur s : state) : bool :=
  forallb (fun l => suballoc_backed nodes s l && fresh_lock_ok D cur l) (al_locked (st_alloc s)).

(* ---------- the trees handed to the ledger ---------- *)
Definition signed (p : lparams) (s : state) : tx :=
  mkTx s (map (fun a => Some (SigOf a (enc_state s))) (lp_parts p)).

Fixpoint collect {A B} (f : A -> option B) (l : list A) : option (list B) :=
  match l with
  | [] => Some []
  | x :: r => match f x, collect f r with Some y, Some ys => Some (y :: ys) | _, _ => None end
  end.
(* root state and, for every locked sub-allocation in order, (parameters, state) of the sub-channel *)
Definition tree_by (sel : node -> option state) (nodes : bmap node) (root : bytes)
    : option (state * list (lparams * state)) :=
  match bfind nodes root with
  | None => None
  | Some rn =>
      match sel rn with
      | None => None
      | Some rs =>
          match collect (fun l => match bfind nodes (sa_id l) with
                                  | Some n => option_map (fun t => (n_params n, t)) (sel n)
                                  | None => None end) (al_locked (st_alloc rs)) with
          | Some subs => Some (rs, subs)
          | None => None
          end
      end
  end.
Definition newest_tree (st : sstate) (i : N) := tree_by newest (pt_nodes (get_party st i)) (rootid st).
Definition register_op (st : sstate) (tr : state * list (lparams * state)) : lop :=
  LRegister (s_root st) (signed (s_root st) (fst tr)) (map (fun e => (fst e, signed (fst e) (snd e))) (snd tr)).
Definition tree_frozen (nodes : bmap node) (root : bytes) (rs : state) : bool :=
  match bfind nodes root with Some rn => n_frozen rn | None => false end
  && forallb (fun l => match bfind nodes (sa_id l) with Some n => n_frozen n | None => false end)
             (al_locked (st_alloc rs)).

(* the recursive outcome of a tree: what the ledger pays after concluding on it *)
Definition tree_outcome (tr : state * list (lparams * state)) : rres (list (list Z)) :=
  outcome_rec (S (length (snd tr))) (fst tr) (map snd (snd tr)).

(* ---------- urgency ---------- *)
Definition relevant (st : sstate) (i : N) (c : bytes) : bool :=
  bytes_eqb c (rootid st)
  || match bfind (pt_nodes (get_party st i)) (rootid st) with
     | Some rn => match newest rn with Some rs => locks rs c | None => false end
     | None => false
     end.
(* all reactions of participant i concerning channel c have happened *)
Definition settled_business (L : lstate) (n : node) : bool :=
  match newest n with
  | None => true
  | Some t =>
      match bfind (l_disp L) (st_id t) with
      | None => true
      | Some d =>
          state_equal (d_state d) t && n_frozen n
      end
  end.
Definition window_closing (L : lstate) (c : bytes) : bool :=
  match bfind (l_disp L) c with
  | Some d => d_timeout d <=? l_clock L + 1
  | None => false
  end.
Definition party_tick_ok (st : sstate) (i : N) : bool :=
  forallb (fun e => negb (relevant st i (fst e)) || negb (window_closing (s_L st) (fst e))
                    || settled_business (s_L st) (snd e))
          (pt_nodes (get_party st i)).
Definition tick_ok (st : sstate) : bool := party_tick_ok st 0 && party_tick_ok st 1.

(* ---------- adversary guards ---------- *)
Definition known_signed (nodes : bmap node) (p : lparams) (s : state) : bool :=
  match bfind nodes (st_id s) with
  | Some n => lparams_eqb p (n_params n) && in_hist s (n_hist n)
  | None => false
  end.

(* the funding agreement has the per-asset totals of the initial balances (it need not be equal to them) *)
Definition agreement_ok (bals agree : list (list Z)) : bool :=
  zlist_eqb (map zsum bals) (map zsum agree)
  && forallb (fun r => (length r =? 2)%nat && nonneg r) agree.

(* ---------- steps ---------- *)
Definition upd_node (P : party) (c : bytes) (n : node) : party :=
  mkParty (bput (pt_nodes P) c n) (pt_concl P) (pt_wd P).
Definition funded (st : sstate) : bool :=
  match bfind (l_funds (s_L st)) (rootid st) with
  | Some f => forallb (fun b => b) (f_dep f) && (length (f_dep f) =? 2)%nat
  | None => false
  end.
Definition apply_ledger (st : sstate) (o : lop) : sstate * lout :=
  let (L', out) := step (s_L st) o in (set_ledger st L', out).
Definition is_ok (o : lout) : bool := match o with LOk _ => true | LErr _ => false end.

(* the step function: None = the event is not enabled; otherwise the new state and, for ledger calls,
   the call with its result *)
Definition sstep (st : sstate) (e : sevent) : option (sstate * option (lop * lout)) :=
  match e with
  | SOpen i p s =>
      let P := get_party st i in
      if negb (i <? 2) then None else
      match bfind (pt_nodes P) (lp_id p) with
      | Some _ => None
      | None =>
          let isroot := bytes_eqb (lp_id p) (rootid st) in
          if state_ok p s && (st_ver s =? 0) && (length (al_locked (st_alloc s)) =? 0)%nat
             && (1 <=? lp_cd p) && (length (lp_parts p) =? 2)%nat
             && (if isroot
                 then lparams_eqb p (s_root st) && lp_ledger p
                      && nlist_eqb (al_assets (st_alloc s)) (s_assets st)
                      && agreement_ok (al_bals (st_alloc s)) (s_agree st)
                 else negb (lp_ledger p) && nlist_eqb (al_assets (st_alloc s)) (s_assets st))
          then Some (set_party st i (upd_node P (lp_id p) (mkNode p [s] false)), None)
          else None
      end
  | SEnable i s =>
      let P := get_party st i in
      if negb (i <? 2) then None else
      match bfind (pt_nodes P) (st_id s) with
      | None => None
      | Some n =>
          match n_hist n with
          | [] => None
          | cur :: _ =>
              let isroot := bytes_eqb (st_id s) (rootid st) in
              if negb (n_frozen n) && funded st && good_succ (n_params n) cur s
                 && (if isroot then root_succ_ok (pt_nodes P) (l_disp (s_L st)) cur s
                     else (length (al_locked (st_alloc s)) =? 0)%nat)
              then Some (set_party st i
                           (upd_node P (st_id s) (mkNode (n_params n) (s :: n_hist n) false)), None)
              else None
          end
      end
  | SFreeze i c =>
      let P := get_party st i in
      if negb (i <? 2) then None else
      match bfind (pt_nodes P) c with
      | None => None
      | Some n => Some (set_party st i (upd_node P c (mkNode (n_params n) (n_hist n) true)), None)
      end
  | SFund i =>
      if negb (i <? 2) then None else
      let o := LDeposit (s_root st) (s_assets st) i (nth (N.to_nat i) (s_accts st) 0)
                        (col (s_agree st) (N.to_nat i)) in
      let (st', out) := apply_ledger st o in Some (st', Some (o, out))
  | SReact i rs subs =>
      let nodes := pt_nodes (get_party st i) in
      if (i <? 2) && known_signed nodes (s_root st) rs
         && forallb (fun e => known_signed nodes (fst e) (snd e)) subs
      then let o := register_op st (rs, subs) in
           let (st', out) := apply_ledger st o in Some (st', Some (o, out))
      else None
  | SRegister i =>
      if negb (i <? 2) then None else
      match newest_tree st i with
      | None => None
      | Some tr =>
          if tree_frozen (pt_nodes (get_party st i)) (rootid st) (fst tr) then
            let o := register_op st tr in
            let (st', out) := apply_ledger st o in Some (st', Some (o, out))
          else None
      end
  | SConclude i =>
      if negb (i <? 2) then None else
      match newest_tree st i with
      | None => None
      | Some tr =>
          if tree_frozen (pt_nodes (get_party st i)) (rootid st) (fst tr) then
            let rs := fst tr in
            let o := if st_final rs && (length (al_locked (st_alloc rs)) =? 0)%nat
                        && match bfind (l_disp (s_L st)) (rootid st) with None => true | Some _ => false end
                     then LConcludeFinal (s_root st) (signed (s_root st) rs)
                     else LConclude (s_root st) rs (map snd (snd tr)) in
            let (st', out) := apply_ledger st o in
            let P := get_party st' i in
            Some (if is_ok out then set_party st' i (mkParty (pt_nodes P) true (pt_wd P)) else st',
                  Some (o, out))
          else None
      end
  | SWithdraw i =>
      if negb (i <? 2) then None else
      if pt_concl (get_party st i) then
        let o := LWithdraw (s_root st) i (nth (N.to_nat i) (lp_parts (s_root st)) 0)
                           (nth (N.to_nat i) (s_accts st) 0) in
        let (st', out) := apply_ledger st o in
        let P := get_party st' i in
        Some (if is_ok out then set_party st' i (mkParty (pt_nodes P) (pt_concl P) true) else st',
              Some (o, out))
      else None
  | SAdvRegister h t subs =>
      let nodes := pt_nodes (get_party st h) in
      if (h <? 2) && known_signed nodes (s_root st) (tx_st t)
         && forallb (fun e => known_signed nodes (fst e) (tx_st (snd e))) subs
      then let o := LRegister (s_root st) t subs in
           let (st', out) := apply_ledger st o in Some (st', Some (o, out))
      else None
  | SAdvConclude s subs =>
      let o := LConclude (s_root st) s subs in
      let (st', out) := apply_ledger st o in Some (st', Some (o, out))
  | SAdvConcludeFinal h t =>
      if (h <? 2) && known_signed (pt_nodes (get_party st h)) (s_root st) (tx_st t)
      then let o := LConcludeFinal (s_root st) t in
           let (st', out) := apply_ledger st o in Some (st', Some (o, out))
      else None
  | SAdvWithdraw h =>
      if negb (h <? 2) then None else
      let a := 1 - h in
      let o := LWithdraw (s_root st) a (nth (N.to_nat a) (lp_parts (s_root st)) 0)
                         (nth (N.to_nat a) (s_accts st) 0) in
      let (st', out) := apply_ledger st o in Some (st', Some (o, out))
  | STick =>
      if tick_ok st then
        let o := LTick 1 in
        let (st', out) := apply_ledger st o in Some (st', Some (o, out))
      else None
  end.

Fixpoint srun (st : sstate) (es : list sevent) : option sstate :=
  match es with
  | [] => Some st
  | e :: r => match sstep st e with Some (st', _) => srun st' r | None => None end
  end.

(* which participant performs an event as an honest participant; adversary events name their victim *)
Definition honest_actor (e : sevent) : option N :=
  match e with
  | SOpen i _ _ | SEnable i _ | SFreeze i _ | SReact i _ _ | SRegister i | SConclude i
  | SWithdraw i => Some i
  | _ => None
  end.
Definition is_adversarial (e : sevent) : bool :=
  match e with
  | SAdvRegister _ _ _ | SAdvConclude _ _ | SAdvConcludeFinal _ _ | SAdvWithdraw _ => true
  | _ => false
  end.
(* a run of two honest participants: no adversary event *)
Definition honest_run (es : list sevent) : bool := forallb (fun e => negb (is_adversarial e)) es.
(* a run of honest participant h against the adversary: the peer's only own events are its deposit and
   the adversary events aimed at h *)
Definition adversarial_run (h : N) (es : list sevent) : bool :=
  forallb (fun e =>
    match e with
    | SAdvRegister h' _ _ | SAdvConcludeFinal h' _ | SAdvWithdraw h' => h' =? h
    | SAdvConclude _ _ | STick | SFund _ => true
    | _ => match honest_actor e with Some i => i =? h | None => false end
    end) es.
