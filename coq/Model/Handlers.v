(* The receiving side of the client: client/update.go (handleChannelUpdate, handleUpdateReq,
   UpdateResponder, acceptUpdate, validTwoPartyUpdate), updateinterception.go, subchannel.go (the two
   update-interceptor filters), virtual_channel.go / virtual_channel_settlement.go /
   virtual_channel_util.go (handlers, validators, transformBalances, stateWatcher.Await as an abstract
   input) and sync.go (handleSyncMsg).  Definitions only.

   Every code variant that matters for C07/C12 is a flag of `variant`: `original` is the code before
   the repairs, `repaired` the code after them (one flag per `fix:` commit). *)
From V Require Export Model.Machine.
Open Scope N_scope.

Inductive decision := Drop | AskUser | AutoAccept | Reject | Reply | Panic | Block.

Record variant := mkVar {
  fix_sync_nil : bool;      (* ChannelSyncMsg.ID() of a message without state *)
  fix_sync_unlock : bool;   (* handleSyncMsg returns when it could not lock the machine mutex *)
  fix_vc_return : bool;     (* the virtual-channel handlers return after rejecting *)
  fix_vc_dims : bool;       (* validators check signature/participant/index-map dimensions *)
  fix_resp_nonblock : bool; (* a repeated Accept/Reject on an UpdateResponder does not block *)
  fix_fund_exact : bool;    (* funding: every participant is debited by exactly its balance *)
  fix_locked_rest : bool }. (* funding/settlement: all other sub-allocations stay as they are *)
Definition repaired : variant := mkVar true true true true true true true.
Definition original : variant := mkVar false false false false false false false.

(* ---------- messages (signatures as tokens of the ideal scheme) ---------- *)
Record upd := mkUpd { u_st : state; u_actor : N; u_sig : sigtok }.
(* channel.Params of a virtual channel as far as the validators look at them *)
Record vparams := mkVP { vp_id : bytes; vp_parts : list N; vp_virtual : bool }.
Record signed := mkSigned { ss_params : vparams; ss_state : state; ss_sigs : list (option sigtok) }.
Inductive req :=
| RUpdate (u : upd)                                   (* ChannelUpdateMsg *)
| RVFund (u : upd) (init : signed) (imap : list N)    (* VirtualChannelFundingProposalMsg *)
| RVSettle (u : upd) (fin : signed).                  (* VirtualChannelSettlementProposalMsg *)
Definition req_upd (r : req) : upd :=
  match r with RUpdate u | RVFund u _ _ | RVSettle u _ => u end.
Record syncmsg := mkSync { sy_phase : N; sy_tx : option (state * list (option sigtok)) }.

(* ---------- context: one channel of the client ---------- *)
(* an update interceptor: channel id, the balances it was registered with (funding: the initial
   balances of the sub-channel; settlement: its final balances), and whether the local routine that
   registered it is waiting in Accept (awaitSubChannelUpdate) *)
Record icept := mkIc { ic_id : bytes; ic_bals : list (list Z); ic_awaited : bool }.
Record chanctx := mkCtx {
  cx_mach : mach;
  cx_fund : list icept;        (* Channel.subChannelFundings *)
  cx_settle : list icept;      (* Channel.subChannelWithdrawals *)
  cx_vmatch : bool;            (* stateWatcher.Await finds the matching proposal of the other parent
                                  in time and the condition function succeeds *)
  cx_busy : bool;              (* machMtx held by a local operation for longer than syncReplyTimeout *)
  cx_stuck : bool }.           (* machMtx held forever by a handler that blocked earlier *)

(* ---------- balances (channel/allocation.go) ---------- *)
Fixpoint map2 {A B C} (f : A -> B -> C) (a : list A) (b : list B) : list C :=
  match a, b with x :: a', y :: b' => f x y :: map2 f a' b' | _, _ => [] end.
Fixpoint all2 {A B} (f : A -> B -> bool) (a : list A) (b : list B) : bool :=
  match a, b with
  | [], [] => true
  | x :: a', y :: b' => f x y && all2 f a' b'
  | _, _ => false
  end.
Definition same_dims (a b : list (list Z)) : bool := all2 (fun x y => (length x =? length y)%nat) a b.
(* Balances.operate: log.Panic on a dimension mismatch (None) *)
Definition bals_operate (op : Z -> Z -> Z) (b a : list (list Z)) : option (list (list Z)) :=
  if same_dims b a then Some (map2 (map2 op) b a) else None.
Definition bals_add := bals_operate Z.add.
Definition bals_sub := bals_operate Z.sub.
(* Balances.AssertGreaterOrEqual: an error (false) on a dimension mismatch *)
Definition bals_geq (b a : list (list Z)) : bool := all2 (all2 (fun x y => (y <=? x)%Z)) b a.
Definition bals_sum (b : list (list Z)) : list Z := map zsum b.
(* Allocation.SubAlloc: the first sub-allocation with that id *)
Definition find_sa (id : bytes) (l : list suballoc) : option suballoc :=
  find (fun s => bytes_eqb (sa_id s) id) l.
(* Allocation.RemoveSubAlloc: removes the first element Equal to x; None = "not found" *)
Fixpoint remove_sa (x : suballoc) (l : list suballoc) : option (list suballoc) :=
  match l with
  | [] => None
  | y :: r => if suballoc_equal x y then Some r
              else match remove_sa x r with Some r' => Some (y :: r') | None => None end
  end.

(* ---------- update.go: validTwoPartyUpdate ---------- *)
Definition valid_two_party (cur : state) (u : upd) (sig_idx : N) : bool :=
  (u_actor u =? sig_idx) && suballocs_equal (al_locked (st_alloc cur)) (al_locked (st_alloc (u_st u))).

(* ---------- subchannel.go: the two filters. None = panic ---------- *)
Definition fund_filter (v : variant) (cur new : state) (ic : icept) : bool :=
  let expected := mkSA (ic_id ic) (bals_sum (ic_bals ic)) [] in
  let before := find_sa (ic_id ic) (al_locked (st_alloc cur)) in
  let after := find_sa (ic_id ic) (al_locked (st_alloc new)) in
  match before, after with
  | None, Some sa =>
      suballoc_equal expected sa
      && (if fix_fund_exact v then
            bals_geq (al_bals (st_alloc cur)) (ic_bals ic)
            && match bals_sub (al_bals (st_alloc cur)) (ic_bals ic) with
               | Some d => balances_equal d (al_bals (st_alloc new))
               | None => false      (* not reached: bals_geq has checked the dimensions *)
               end
          else true)
      && (if fix_locked_rest v then
            suballocs_equal (al_locked (st_alloc cur) ++ [expected]) (al_locked (st_alloc new))
          else true)
  | _, _ => false
  end.
Definition settle_filter (v : variant) (cur new : state) (ic : icept) : option bool :=
  let before := find_sa (ic_id ic) (al_locked (st_alloc cur)) in
  let after := find_sa (ic_id ic) (al_locked (st_alloc new)) in
  match bals_add (al_bals (st_alloc cur)) (ic_bals ic) with
  | None => None                      (* Balances.Add panics on a dimension mismatch *)
  | Some s =>
      Some match before, after with
           | Some x, None =>
               balances_equal s (al_bals (st_alloc new))
               && (if fix_locked_rest v then
                     match remove_sa x (al_locked (st_alloc cur)) with
                     | Some rest => suballocs_equal rest (al_locked (st_alloc new))
                     | None => false
                     end
                   else true)
           | _, _ => false
           end
  end.
(* updateInterceptors.Filter: the first matching entry; a filter that panics before one matched
   takes the handler down *)
Inductive fres := FNone | FHit (ic : icept) | FPanic.
Fixpoint first_fund (v : variant) (cur new : state) (l : list icept) : fres :=
  match l with
  | [] => FNone
  | ic :: r => if fund_filter v cur new ic then FHit ic else first_fund v cur new r
  end.
Fixpoint first_settle (v : variant) (cur new : state) (l : list icept) : fres :=
  match l with
  | [] => FNone
  | ic :: r => match settle_filter v cur new ic with
               | None => FPanic
               | Some true => FHit ic
               | Some false => first_settle v cur new r
               end
  end.

(* ---------- virtual_channel_util.go: transformBalances. None = index out of range ---------- *)
Fixpoint fill_row (row acc : list Z) (np : nat) (p : nat) (imap : list N) : option (list Z) :=
  match imap with
  | [] => Some acc
  | q :: r =>
      match nth_error row p with
      | None => None                                    (* b[a][p] *)
      | Some x => if (N.to_nat q <? np)%nat              (* _b[a][_p] *)
                  then fill_row row (set_nth (N.to_nat q) x acc) np (S p) r else None
      end
  end.
Fixpoint opt_all {A} (l : list (option A)) : option (list A) :=
  match l with
  | [] => Some []
  | None :: _ => None
  | Some x :: r => match opt_all r with Some r' => Some (x :: r') | None => None end
  end.
Definition transform_balances (b : list (list Z)) (np : nat) (imap : list N) : option (list (list Z)) :=
  opt_all (map (fun row => fill_row row (repeat 0%Z np) np 0 imap) b).

(* ---------- validators ---------- *)
Inductive vres := VOk | VErr | VPanic.
(* for i, sig := range Sigs { for _, part := range Params.Parts[i] { Verify } } *)
Fixpoint check_sigs (parts : list N) (st : state) (i : nat) (sigs : list (option sigtok)) : vres :=
  match sigs with
  | [] => VOk
  | sg :: rest =>
      match nth_error parts i with
      | None => VPanic                                    (* Params.Parts[i] *)
      | Some a =>
          match sg with
          | None => VErr                                  (* nil signature: Verify returns an error *)
          | Some g => match verify_state a st g with
                      | Some true => check_sigs parts st (S i) rest
                      | _ => VErr
                      end
          end
      end
  end.
Definition nat_np (s : state) : nat := N.to_nat (num_parts (al_bals (st_alloc s))).

Definition validate_vfund (v : variant) (cur : state) (u : upd) (init : signed) (imap : list N) : vres :=
  let p := ss_params init in
  let ist := ss_state init in
  let new := u_st u in
  if negb (bytes_eqb (vp_id p) (st_id ist)) then VErr
  else if negb (vp_virtual p) then VErr
  else if negb (length (al_locked (st_alloc ist)) =? 0)%nat then VErr
  else if fix_vc_dims v && negb ((length (ss_sigs init) =? length (vp_parts p))%nat
                                 && (nat_np ist =? length (vp_parts p))%nat) then VErr
  else match check_sigs (vp_parts p) ist 0 (ss_sigs init) with
  | VPanic => VPanic | VErr => VErr
  | VOk =>
    if negb (length (vp_parts p) =? length imap)%nat then VErr
    else if fix_vc_dims v && negb (forallb (fun q => (N.to_nat q <? nat_np cur)%nat) imap) then VErr
    else match find_sa (vp_id p) (al_locked (st_alloc cur)) with
    | Some _ => VErr                                       (* already allocated *)
    | None =>
      let expected := mkSA (vp_id p) (alloc_sum (st_alloc ist)) imap in
      match find_sa (vp_id p) (al_locked (st_alloc new)) with
      | None => VErr
      | Some sa =>
        if negb (suballoc_equal sa expected) then VErr
        else if negb (nlist_eqb (al_assets (st_alloc cur)) (al_assets (st_alloc ist))) then VErr
        else if negb (nlist_eqb (al_backends (st_alloc cur)) (al_backends (st_alloc ist))) then VErr
        else match transform_balances (al_bals (st_alloc ist)) (nat_np cur) (sa_imap sa) with
        | None => VPanic
        | Some virt =>
          if negb (bals_geq (al_bals (st_alloc cur)) virt) then VErr
          else if fix_fund_exact v
                  && negb match bals_sub (al_bals (st_alloc cur)) virt with
                          | Some d => balances_equal d (al_bals (st_alloc new))
                          | None => false end then VErr
          else if fix_locked_rest v
                  && negb (suballocs_equal (al_locked (st_alloc cur) ++ [expected]) (al_locked (st_alloc new)))
               then VErr
          else VOk
        end
      end
    end
  end.

Definition validate_vsettle (v : variant) (cur : state) (u : upd) (fin : signed) : vres :=
  let p := ss_params fin in
  let fst_ := ss_state fin in
  let new := u_st u in
  if negb (bytes_eqb (vp_id p) (st_id fst_)) then VErr
  else if fix_vc_dims v && negb ((length (ss_sigs fin) =? length (vp_parts p))%nat
                                 && (nat_np fst_ =? length (vp_parts p))%nat) then VErr
  else match check_sigs (vp_parts p) fst_ 0 (ss_sigs fin) with
  | VPanic => VPanic | VErr => VErr
  | VOk =>
    if negb (nlist_eqb (al_assets (st_alloc cur)) (al_assets (st_alloc fst_))) then VErr
    else match find_sa (vp_id p) (al_locked (st_alloc cur)) with
    | None => VErr
    | Some sa =>
      if negb (zlist_eqb (sa_bals sa) (alloc_sum (st_alloc fst_))) then VErr
      else match find_sa (vp_id p) (al_locked (st_alloc new)) with
      | Some _ => VErr
      | None =>
        if fix_vc_dims v && negb ((length (sa_imap sa) =? nat_np fst_)%nat
                                  && forallb (fun q => (N.to_nat q <? nat_np cur)%nat) (sa_imap sa)) then VErr
        else match transform_balances (al_bals (st_alloc fst_)) (nat_np cur) (sa_imap sa) with
        | None => VPanic
        | Some virt =>
          match bals_add (al_bals (st_alloc cur)) virt with
          | None => VPanic
          | Some s =>
            if negb (balances_equal s (al_bals (st_alloc new))) then VErr
            else if fix_locked_rest v
                    && negb match remove_sa sa (al_locked (st_alloc cur)) with
                            | Some rest => suballocs_equal rest (al_locked (st_alloc new))
                            | None => false end then VErr
            else VOk
          end
        end
      end
    end
  end.

(* ---------- UpdateResponder (update.go): `called` flag and the one-slot `done` channel ---------- *)
Inductive resp := SentAcc | SentRej.
Record rstate := mkRS { rs_called : bool; rs_slot : nat; rs_sent : list resp }.
Definition rs0 : rstate := mkRS false 0 [].
(* Accept/Reject: the first call does its work (sends the message); EVERY call ends with the deferred
   `r.done <- struct{}{}`, which blocks for ever once the slot is taken (nobody drains it on the
   interceptor and virtual-channel paths).  None = the caller is blocked. *)
Definition respond (v : variant) (k : resp) (send : bool) (s : rstate) : option rstate :=
  let s' := if rs_called s then s
            else mkRS true (rs_slot s) (if send then rs_sent s ++ [k] else rs_sent s) in
  if (rs_slot s' <? 1)%nat then Some (mkRS (rs_called s') (S (rs_slot s')) (rs_sent s'))
  else if fix_resp_nonblock v then Some s'       (* select { case r.done <- ...: default: } *)
  else None.

(* ---------- acceptUpdate / enableNotifyUpdate on the machine ---------- *)
Inductive accres := AccSigned (sg : sigtok) | AccErr | AccPanic.
Definition accept_update (m : mach) (u : upd) (pidx : N) : mach * accres :=
  match step m (OUpdate (u_st u) (u_actor u)) with
  | (_, PANIC) => (m, AccPanic)
  | (m1, OK) =>
      match step m1 (OAddSig pidx (u_sig u)) with
      | (_, PANIC) => (m1, AccPanic)
      | (m2, OK) =>
          match step m2 OSig with
          | (_, PANIC) => (m2, AccPanic)
          | (m3, OKSig sg) =>
              (* the accept message is sent; then enableNotifyUpdate *)
              match staging m3 with
              | None => (m3, AccPanic)                    (* to.IsFinal on a nil staged state *)
              | Some t =>
                  match step m3 (if st_final (tx_st t) then OEnableFinal else OEnableUpdate) with
                  | (m4, OK) => (m4, AccSigned sg)
                  | (_, PANIC) => (m3, AccPanic)
                  | (_, _) => (fst (step m3 ODiscard), AccSigned sg)   (* error after the message went out *)
                  end
              end
          | (_, _) => (fst (step m2 ODiscard), AccErr)
          end
      | (_, _) => (fst (step m1 ODiscard), AccErr)
      end
  | (_, _) => (m, AccErr)
  end.

(* ---------- results ---------- *)
Inductive path := POrdinary | PFund (ic : icept) | PSettle (ic : icept) | PVFund | PVSettle.
Record result := mkRes {
  r_dec : decision;
  r_unlocked : bool;            (* the handler has returned and its deferred Unlock has run *)
  r_path : option path;         (* why the update can be countersigned *)
  r_sent : list resp;           (* responses sent by the handler itself (before any user decision) *)
  r_mach : mach }.              (* the machine afterwards (before any user decision) *)
Definition res_simple (d : decision) (m : mach) : result := mkRes d true None [] m.
Definition res_panic (m : mach) : result := mkRes Panic false None [] m.
Definition res_block (m : mach) (sent : list resp) : result := mkRes Block false None sent m.

(* responder.Accept on the automatic paths: acceptUpdate, then the deferred signal.  on_err: how the
   caller goes on when Accept returned an error *)
Definition auto_accept (v : variant) (m : mach) (u : upd) (pidx : N) (s : rstate) (p : path)
    (on_err : mach -> rstate -> result) : result :=
  if rs_called s then
    (* "multiple calls on channel update responder"; the deferred signal finds the slot taken *)
    match respond v SentAcc false s with
    | None => res_block m (rs_sent s)
    | Some s' => on_err m s'
    end
  else
    match accept_update m u pidx with
    | (m', AccPanic) => res_panic m'
    | (m', AccSigned _) =>
        match respond v SentAcc true s with
        | None => res_block m' (rs_sent s)
        | Some s' => mkRes AutoAccept true (Some p) (rs_sent s') m'
        end
    | (m', AccErr) =>
        match respond v SentAcc false s with
        | None => res_block m' (rs_sent s)
        | Some s' => on_err m' s'
        end
    end.
(* Accept failed and the caller only logs it *)
Definition err_logged (m : mach) (s : rstate) : result := mkRes Drop true None (rs_sent s) m.

(* rejectProposal: responder.Reject; afterwards the handler goes on with `k` unless it returns *)
Definition reject_then (v : variant) (m : mach) (s : rstate) (k : rstate -> result) : result :=
  match respond v SentRej true s with
  | None => res_block m (rs_sent s)
  | Some s' => if fix_vc_return v then mkRes Reject true None (rs_sent s') m else k s'
  end.
(* the last statement of a handler is a rejection: nothing follows in either variant *)
Definition reject_last (v : variant) (m : mach) (s : rstate) : result :=
  match respond v SentRej true s with
  | None => res_block m (rs_sent s)
  | Some s' => mkRes (if rs_called s then Drop else Reject) true None (rs_sent s') m
  end.

(* handleVirtualChannelFundingProposal *)
Definition handle_vfund (v : variant) (c : chanctx) (cur : state) (u : upd) (init : signed)
    (imap : list N) (pidx : N) : result :=
  let m := cx_mach c in
  let accept (s : rstate) : result := auto_accept v m u pidx s PVFund err_logged in
  let await (s : rstate) : result :=
    (* fundingWatcher.Await(ctx, prop) with the 10 s timeout *)
    if cx_vmatch c then accept s else reject_then v m s accept in
  match validate_vfund v cur u init imap with
  | VPanic => res_panic m
  | VErr => reject_then v m rs0 await
  | VOk => await rs0
  end.

(* handleVirtualChannelSettlementProposal: on a match the condition function (matchSettlementProposal)
   calls Accept on both responders; if that fails the condition is false, Await runs into its
   timeout and the handler rejects *)
Definition handle_vsettle (v : variant) (c : chanctx) (cur : state) (u : upd) (fin : signed) (pidx : N) : result :=
  let m := cx_mach c in
  let await (s : rstate) : result :=
    if cx_vmatch c then auto_accept v m u pidx s PVSettle (fun m' s' => reject_last v m' s')
    else reject_last v m s in
  match validate_vsettle v cur u fin with
  | VPanic => res_panic m
  | VErr => reject_then v m rs0 await
  | VOk => await rs0
  end.

(* updateInterceptor.HandleUpdate: hands the update to the routine waiting in Accept; if nobody
   waits the send on the unbuffered channel blocks *)
Definition intercept (v : variant) (m : mach) (u : upd) (pidx : N) (ic : icept) (p : path) : result :=
  if ic_awaited ic then auto_accept v m u pidx rs0 p err_logged else res_block m [].

Definition peer_idx (m : mach) : N := N.lxor (me m) 1.

(* Channel.handleUpdateReq *)
Definition handle_update_req (v : variant) (c : chanctx) (r : req) : result :=
  let m := cx_mach c in
  if cx_stuck c then res_block m [] else          (* machMtx.Lock() never returns *)
  let u := req_upd r in
  let pidx := peer_idx m in
  match snd (step m (OCheckUpdate (u_st u) (u_actor u) (u_sig u) pidx)) with
  | PANIC => res_panic m
  | ERR | OKSig _ => res_simple Drop m
  | OK =>
      match current m with
      | None => res_panic m                         (* c.machine.State() is nil *)
      | Some ct =>
          let cur := tx_st ct in
          match r with
          | RVFund _ init imap => handle_vfund v c cur u init imap pidx
          | RVSettle _ fin => handle_vsettle v c cur u fin pidx
          | RUpdate _ =>
              match first_fund v cur (u_st u) (cx_fund c) with
              | FHit ic => intercept v m u pidx ic (PFund ic)
              | FPanic => res_panic m
              | FNone =>
                  match first_settle v cur (u_st u) (cx_settle c) with
                  | FHit ic => intercept v m u pidx ic (PSettle ic)
                  | FPanic => res_panic m
                  | FNone =>
                      if valid_two_party cur u pidx
                      then mkRes AskUser true (Some POrdinary) [] m   (* <-responder.done *)
                      else res_simple Drop m
                  end
              end
          end
      end
  end.

(* the user's answer to AskUser: responder.Accept / responder.Reject from the handler goroutine *)
Definition user_answer (m : mach) (u : upd) (accept : bool) : mach * list resp * option sigtok :=
  if accept then
    match accept_update m u (peer_idx m) with
    | (m', AccSigned sg) => (m', [SentAcc], Some sg)
    | (m', _) => (m', [], None)
    end
  else (m, [SentRej], None).

(* ---------- the client: channels by id (client.handleChannelUpdate) ---------- *)
Definition chan_id (c : chanctx) : bytes := mp_id (ps (cx_mach c)).
Definition lookup (cl : list chanctx) (id : bytes) : option chanctx :=
  find (fun c => bytes_eqb (chan_id c) id) cl.
Definition dummy_mach : mach := mkMach InitActing 0 (mkMP [] [] None None) None None.
Definition handle_update (v : variant) (cl : list chanctx) (r : req) : result :=
  match lookup cl (st_id (u_st (req_upd r))) with
  | None => res_simple Drop dummy_mach      (* unknown channel (or cached as a version-1 update) *)
  | Some c => handle_update_req v c r
  end.

(* the own signature the client puts under the update, if it does *)
Definition countersigns (v : variant) (c : chanctx) (r : req) : option sigtok :=
  let res := handle_update_req v c r in
  match r_dec res with
  | AskUser => snd (user_answer (cx_mach c) (req_upd r) true)
  | AutoAccept =>
      match accept_update (cx_mach c) (req_upd r) (peer_idx (cx_mach c)) with
      | (_, AccSigned sg) => Some sg
      | _ => None
      end
  | _ => None
  end.

(* ---------- sync.go: handleSyncMsg ---------- *)
(* reach: the sender's address has a subscriber on the bus (otherwise pubMsg runs into the timeout) *)
Definition handle_sync (v : variant) (cl : list chanctx) (reach : bool) (s : syncmsg) : result :=
  match sy_tx s with
  | None => if fix_sync_nil v then res_simple Drop dummy_mach    (* ID() = zero id: unknown channel *)
            else res_panic dummy_mach                            (* nil *State dereferenced *)
  | Some (st, _) =>
      match lookup cl (st_id st) with
      | None => res_simple Drop dummy_mach
      | Some c =>
          let m := cx_mach c in
          if cx_busy c || cx_stuck c then
            (* TryLockCtx fails after syncReplyTimeout *)
            if fix_sync_unlock v then res_simple Drop m
            else res_panic m     (* goes on, and its deferred Unlock releases the holder's lock: the
                                    holder's own Unlock then panics *)
          else if negb reach then res_simple Drop m
          else if phase_eqb (ph m) Signing
               then mkRes Reply true None [] (fst (step m ODiscard))
               else mkRes Reply true None [] m
      end
  end.

(* ---------- effect of a handled request on the channel context ---------- *)
Definition remove_ic (id : bytes) (l : list icept) : list icept :=
  filter (fun ic => negb (bytes_eqb (ic_id ic) id)) l.
Definition set_mach (c : chanctx) (m : mach) : chanctx :=
  mkCtx m (cx_fund c) (cx_settle c) (cx_vmatch c) (cx_busy c) (cx_stuck c).
(* accept: the user's answer if the handler asks *)
Definition post_ctx (v : variant) (c : chanctx) (r : req) (accept : bool) : chanctx :=
  let res := handle_update_req v c r in
  match r_dec res with
  | AskUser => set_mach c (fst (fst (user_answer (cx_mach c) (req_upd r) accept)))
  | Block | Panic => mkCtx (r_mach res) (cx_fund c) (cx_settle c) (cx_vmatch c) (cx_busy c) true
  | _ =>
      match r_path res with
      | Some (PFund ic) =>        (* awaitSubChannelUpdate: defer interceptors.Release(id) *)
          mkCtx (r_mach res) (remove_ic (ic_id ic) (cx_fund c)) (cx_settle c) (cx_vmatch c) (cx_busy c) (cx_stuck c)
      | Some (PSettle ic) =>
          mkCtx (r_mach res) (cx_fund c) (remove_ic (ic_id ic) (cx_settle c)) (cx_vmatch c) (cx_busy c) (cx_stuck c)
      | _ => set_mach c (r_mach res)
      end
  end.
Fixpoint run_ctx (v : variant) (c : chanctx) (ins : list (req * bool)) : chanctx :=
  match ins with [] => c | (r, a) :: rest => run_ctx v (post_ctx v c r a) rest end.
Fixpoint run_decs (v : variant) (c : chanctx) (ins : list (req * bool)) : list result :=
  match ins with
  | [] => []
  | (r, a) :: rest => handle_update_req v c r :: run_decs v (post_ctx v c r a) rest
  end.

(* does the handler wait for the state watcher's timeout (10 s) with the machine mutex held?  It does
   when it reaches stateWatcher.Await and no matching proposal arrives. *)
Definition waits (v : variant) (c : chanctx) (r : req) : bool :=
  let m := cx_mach c in
  let u := req_upd r in
  negb (cx_stuck c) && negb (cx_vmatch c) &&
  match snd (step m (OCheckUpdate (u_st u) (u_actor u) (u_sig u) (peer_idx m))), current m with
  | OK, Some ct =>
      let reaches (x : vres) : bool :=
        match x with
        | VOk => true
        | VErr => negb (fix_vc_return v)      (* rs0: the first rejection never blocks *)
        | VPanic => false
        end in
      match r with
      | RUpdate _ => false
      | RVFund _ init imap => reaches (validate_vfund v (tx_st ct) u init imap)
      | RVSettle _ fin => reaches (validate_vsettle v (tx_st ct) u fin)
      end
  | _, _ => false
  end.

(* ---------- proposal.go: the parent lock of handleChannelProposal ---------- *)
(* prepareChannelOpening locks the machine mutex of the proposal's parent channel (sub-channel and
   virtual channel proposals; looked up from the proposal's Parent field); the user's handler runs; the
   deferred cleanupChannelOpening looks the parent up again from the same field and unlocks it.
   Several proposals are in flight at once (one goroutine each, the user answers when he likes). *)
Record pmsg := mkPM { pm_id : bytes (* ProposalID, chosen by the proposer *); pm_parent : option bytes }.
Inductive pev :=
| PArrive (p : pmsg)     (* prepareChannelOpening has returned: the lock is taken, the handler is called *)
| PReturn (p : pmsg).    (* the handler has returned: cleanupChannelOpening *)
Inductive pres := PLocks (locked : list bytes) | PWait | PPanic.
Definition id_in (x : bytes) (l : list bytes) : bool := existsb (bytes_eqb x) l.
Fixpoint remove1 (x : bytes) (l : list bytes) : option (list bytes) :=
  match l with
  | [] => None
  | y :: r => if bytes_eqb x y then Some r
              else match remove1 x r with Some r' => Some (y :: r') | None => None end
  end.
(* known: the channels of the client *)
Definition pstep (known locked : list bytes) (e : pev) : pres :=
  match e with
  | PArrive p =>
      match pm_parent p with
      | None => PLocks locked
      | Some par =>
          if id_in par known
          then if id_in par locked then PWait (* TryLockCtx waits for the holder *) else PLocks (par :: locked)
          else PLocks locked        (* "referenced parent channel not found": dropped, no clean-up *)
      end
  | PReturn p =>
      match pm_parent p with
      | None => PLocks locked
      | Some par =>
          if id_in par known
          then match remove1 par locked with
               | Some l => PLocks l
               | None => PPanic     (* tried to unlock unlocked mutex *)
               end
          else PLocks locked
      end
  end.
Fixpoint prun (known locked : list bytes) (evs : list pev) : pres :=
  match evs with
  | [] => PLocks locked
  | e :: r => match pstep known locked e with
              | PLocks l => prun known l r
              | x => x
              end
  end.
(* every return belongs to a proposal that arrived and has not returned yet *)
Definition pmsg_eqb (a b : pmsg) : bool :=
  bytes_eqb (pm_id a) (pm_id b) &&
  match pm_parent a, pm_parent b with
  | Some x, Some y => bytes_eqb x y
  | None, None => true
  | _, _ => false
  end.
Fixpoint remove_pm (p : pmsg) (l : list pmsg) : option (list pmsg) :=
  match l with
  | [] => None
  | q :: r => if pmsg_eqb p q then Some r
              else match remove_pm p r with Some r' => Some (q :: r') | None => None end
  end.
Fixpoint in_flight (infl : list pmsg) (evs : list pev) : option (list pmsg) :=
  match evs with
  | [] => Some infl
  | PArrive p :: r => in_flight (p :: infl) r
  | PReturn p :: r => match remove_pm p infl with Some i => in_flight i r | None => None end
  end.
