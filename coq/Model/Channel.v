(* channel values: allocation.go, state.go, transaction.go, params.go, wallet/address.go, wallet/sig.go
   Equality, validity, encoders and decoders.  Definitions only (no proofs). *)
From V Require Export Model.Wire.
Open Scope N_scope.

Definition MaxNumAssets : N := Generated.MaxNumAssets.
Definition MaxNumParts : N := Generated.MaxNumParts.
Definition MaxNumSubAllocations : N := Generated.MaxNumSubAllocations.
Definition MaxNonceLen : N := Generated.MaxNonceLen.
Definition MinNumParts : N := Generated.MinNumParts.

(* sim backend: the only backend that can be registered offline has id 0 *)
Definition known_backend (b : N) : bool := b =? 0.
Definition addr_len : nat := 64.   (* sim wallet address: X||Y, 32 bytes each *)
Definition asset_len : nat := 8.   (* sim asset: uint64 big endian *)
Definition sig_len : nat := 64.    (* sim signature r||s *)

Record suballoc := mkSA { sa_id : bytes; sa_bals : list Z; sa_imap : list N }.
Record alloc := mkAlloc {
  al_backends : list N;            (* wallet.BackendID per asset *)
  al_assets : list N;              (* sim asset id (uint64) *)
  al_bals : list (list Z);         (* [asset][participant] *)
  al_locked : list suballoc }.
(* app: None = NoApp, Some def = app with that 64-byte definition address.
   data: the MarshalBinary image of State.Data ([] for NoData) *)
Record state := mkState {
  st_id : bytes; st_ver : N; st_alloc : alloc;
  st_app : option bytes; st_data : bytes; st_final : bool }.

(* ---------- equality (the Go Equal methods, field by field) ---------- *)
Definition zlist_eqb := list_eqb Z.eqb.
Definition nlist_eqb := list_eqb N.eqb.
Definition balances_equal (a b : list (list Z)) : bool := list_eqb zlist_eqb a b.
Definition suballoc_equal (s t : suballoc) : bool :=
  bytes_eqb (sa_id s) (sa_id t) && zlist_eqb (sa_bals s) (sa_bals t)
  && nlist_eqb (sa_imap s) (sa_imap t).
Definition suballocs_equal := list_eqb suballoc_equal.
Definition alloc_equal (a b : alloc) : bool :=
  nlist_eqb (al_backends a) (al_backends b) && nlist_eqb (al_assets a) (al_assets b)
  && balances_equal (al_bals a) (al_bals b) && suballocs_equal (al_locked a) (al_locked b).
Definition app_should_equal (e a : option bytes) : bool :=
  match e, a with
  | None, None => true
  | Some x, Some y => bytes_eqb x y
  | _, _ => false
  end.
Definition state_equal (s t : state) : bool :=
  bytes_eqb (st_id s) (st_id t) && (st_ver s =? st_ver t)
  && app_should_equal (st_app s) (st_app t) && alloc_equal (st_alloc s) (st_alloc t)
  && bytes_eqb (st_data s) (st_data t) && Bool.eqb (st_final s) (st_final t).

(* ---------- validity ---------- *)
Definition len {A} (l : list A) : N := N.of_nat (length l).
Definition nonneg (l : list Z) : bool := forallb (fun z => (0 <=? z)%Z) l.
Definition suballoc_valid (s : suballoc) : bool :=
  (len (sa_bals s) <=? MaxNumAssets) && nonneg (sa_bals s).
Definition num_parts (b : list (list Z)) : N := match b with [] => 0 | r :: _ => len r end.
Definition alloc_valid (a : alloc) : bool :=
  let n := len (al_assets a) in
  negb (n =? 0) && negb (len (al_bals a) =? 0)
  && (n <=? MaxNumAssets) && (len (al_locked a) <=? MaxNumSubAllocations)
  && (len (al_bals a) =? n)
  && negb (num_parts (al_bals a) =? 0) && (num_parts (al_bals a) <=? MaxNumParts)
  && forallb (fun r => (len r =? num_parts (al_bals a)) && nonneg r) (al_bals a)
  && forallb (fun l => suballoc_valid l && (len (sa_bals l) =? n)) (al_locked a).

(* per asset: sum of participant balances plus locked amounts *)
Definition zsum (l : list Z) : Z := fold_right Z.add 0%Z l.
Fixpoint add_vec (a b : list Z) : list Z :=     (* totals[i] += bal, for i in range of b *)
  match a, b with
  | x :: a', y :: b' => (x + y)%Z :: add_vec a' b'
  | _, [] => a
  | [], _ => []       (* Go would index out of range; excluded by alloc_valid *)
  end.
Definition alloc_sum (a : alloc) : list Z :=
  fold_left (fun t l => add_vec t (sa_bals l)) (al_locked a) (map zsum (al_bals a)).

(* ---------- encoders ---------- *)
Definition cat {A} (f : A -> bytes) (l : list A) : bytes := concat (map f l).
Definition enc_asset (a : N) : bytes := enc_marsh (enc_u64be a).
Definition enc_suballoc (s : suballoc) : bytes :=
  sa_id s ++ enc_u16 (len (sa_bals s)) ++ cat enc_bigint (sa_bals s)
  ++ enc_u16 (len (sa_imap s)) ++ cat enc_u16 (sa_imap s).
Definition enc_balances (b : list (list Z)) : bytes :=
  enc_u16 (len b) ++ enc_u16 (num_parts b) ++ cat (cat enc_bigint) b.
Definition enc_alloc (a : alloc) : bytes :=
  enc_u16 (len (al_assets a)) ++ enc_u16 (num_parts (al_bals a)) ++ enc_u16 (len (al_locked a))
  ++ cat (fun p => enc_u32 (fst p) ++ enc_asset (snd p)) (combine (al_backends a) (al_assets a))
  ++ enc_balances (al_bals a) ++ cat enc_suballoc (al_locked a).
Definition enc_optapp (a : option bytes) : bytes :=
  match a with None => enc_bool false | Some d => enc_bool true ++ enc_marsh d end.
Definition enc_state (s : state) : bytes :=
  st_id s ++ enc_u64 (st_ver s) ++ enc_alloc (st_alloc s) ++ enc_bool (st_final s)
  ++ enc_optapp (st_app s) ++ enc_marsh (st_data s).

(* the value envelope inside which the encoders are meant to be used *)
Definition bigints_ok (l : list Z) : bool := forallb bigint_encodable l.
Definition suballoc_wf (s : suballoc) : bool :=
  (length (sa_id s) =? 32)%nat && (len (sa_bals s) <=? MaxNumAssets) && bigints_ok (sa_bals s)
  && (len (sa_imap s) <? 65536) && forallb (fun x => x <? 65536) (sa_imap s).
Definition balances_wf (b : list (list Z)) : bool :=
  (len b <=? MaxNumAssets) && (num_parts b <=? MaxNumParts)
  && forallb (fun r => (len r =? num_parts b) && bigints_ok r) b.
Definition alloc_wf (a : alloc) : bool :=
  alloc_valid a && (len (al_backends a) =? len (al_assets a))
  && forallb known_backend (al_backends a)
  && forallb (fun x => x <? 18446744073709551616) (al_assets a)
  && balances_wf (al_bals a) && forallb suballoc_wf (al_locked a).
Definition state_wf (s : state) : bool :=
  (length (st_id s) =? 32)%nat && (st_ver s <? 18446744073709551616) && alloc_wf (st_alloc s)
  && match st_app s with None => true | Some d => (length d =? addr_len)%nat end
  && (len (st_data s) <? 65536).

(* ---------- decoders (Allocation.Decode, Balances.Decode, SubAlloc.Decode, State.Decode) ---------- *)
Inductive appkind := KPay | KMock.     (* the registered state apps: payment (NoData), MockApp (MockOp data) *)
Definition resolver := bytes -> option appkind.

Definition dec_asset : prog N :=       (* sim Asset.UnmarshalBinary: exactly 8 bytes, big endian *)
  bs <- dec_marsh ;; if (length bs =? asset_len)%nat then Ret (dec_be bs) else Fail.

Definition dec_suballoc : prog suballoc :=
  id <- dec_fixed 32 ;;
  n <- dec_u16 ;;
  if MaxNumAssets <? n then Fail else
  Alloc n (
  bals <- dec_n (N.to_nat n) dec_bigint ;;
  l <- dec_u16 ;;
  Alloc l (
  im <- dec_n (N.to_nat l) dec_u16 ;;
  let s := mkSA id bals im in
  if suballoc_valid s then Ret s else Fail)).

Definition dec_balances : prog (list (list Z)) :=
  na <- dec_u16 ;;
  np <- dec_u16 ;;
  if MaxNumAssets <? na then Fail else
  if MaxNumParts <? np then Fail else
  Alloc (na * np) (dec_n (N.to_nat na) (dec_n (N.to_nat np) dec_bigint)).

Definition dec_alloc : prog alloc :=
  na <- dec_u16 ;;
  np <- dec_u16 ;;
  nl <- dec_u16 ;;
  if (MaxNumAssets <? na) || (MaxNumParts <? np) || (MaxNumSubAllocations <? nl) then Fail else
  Alloc na (
  pairs <- dec_n (N.to_nat na)
             (b <- dec_u32 ;; if known_backend b then a <- dec_asset ;; Ret (b, a) else Fail) ;;
  bals <- dec_balances ;;
  Alloc nl (
  locked <- dec_n (N.to_nat nl) dec_suballoc ;;
  let a := mkAlloc (map fst pairs) (map snd pairs) bals locked in
  if alloc_valid a then Ret a else Fail)).

(* OptAppDec: flag, then the app definition (sim address: 64 bytes), then Resolve *)
Definition dec_optapp (rs : resolver) : prog (option (bytes * appkind)) :=
  has <- dec_bool ;;
  if negb has then Ret None else
  d <- dec_marsh ;;
  if negb (length d =? addr_len)%nat then Fail else
  match rs d with Some k => Ret (Some (d, k)) | None => Fail end.

(* Data: NewData() of the resolved app, then UnmarshalBinary of the marshaled bytes:
   NoData ignores its input; MockOp wants exactly 8 bytes *)
Definition dec_data (k : option appkind) : prog bytes :=
  bs <- dec_marsh ;;
  match k with
  | Some KMock => if (length bs =? 8)%nat then Ret bs else Fail
  | _ => Ret []
  end.

Definition dec_state (rs : resolver) : prog state :=
  id <- dec_fixed 32 ;;
  v <- dec_u64 ;;
  a <- dec_alloc ;;
  f <- dec_bool ;;
  app <- dec_optapp rs ;;
  d <- dec_data (option_map snd app) ;;
  Ret (mkState id v a (option_map fst app) d f).

(* data is what the app's Data type can carry *)
Definition data_ok (rs : resolver) (app : option bytes) (d : bytes) : bool :=
  match app with
  | None => match d with [] => true | _ => false end
  | Some def =>
      (length def =? addr_len)%nat &&
      match rs def with
      | Some KMock => (length d =? 8)%nat
      | Some KPay => match d with [] => true | _ => false end
      | None => false
      end
  end.
Definition state_wf_rs (rs : resolver) (s : state) : bool :=
  state_wf s && data_ok rs (st_app s) (st_data s).

(* ---------- address maps (wallet/address.go, wire/address.go) ---------- *)
(* a Go map[BackendID]Address as an association list sorted by key; values are the marshaled address *)
Definition amap := list (Z * bytes).
Fixpoint amap_insert (k : Z) (v : bytes) (m : amap) : amap :=
  match m with
  | [] => [(k, v)]
  | (k', v') :: r =>
      if (k <? k')%Z then (k, v) :: m
      else if (k =? k')%Z then (k, v) :: r
      else (k', v') :: amap_insert k v r
  end.
Definition amap_of_list (es : list (Z * bytes)) : amap :=
  fold_left (fun m e => amap_insert (fst e) (snd e) m) es [].

(* counts that are int32/uint32 on the wire: the loop runs `l` times; the model unrolls at most
   `many_cap` iterations and fails afterwards (equivalent on every input with fewer entries than
   that; see DESIGN.md, trusted base) *)
Definition many_cap : N := 70000.
Definition dec_many {A} (l : N) (d : prog A) : prog (list A) :=
  xs <- dec_n (N.to_nat (N.min l many_cap)) d ;; if many_cap <? l then Fail else Ret xs.

Definition enc_amap (m : amap) : bytes :=
  enc_i32 (Z.of_nat (length m)) ++ cat (fun p => enc_i32 (fst p) ++ enc_marsh (snd p)) m.
Definition known_backend_z (z : Z) : bool := (z =? 0)%Z.

(* wallet.AddressDecMap: NewAddress(idx) must know the backend; sim address = exactly 64 bytes *)
Definition dec_waddr_entry : prog (Z * bytes) :=
  idx <- dec_i32 ;;
  if negb (known_backend_z idx) then Fail else
  bs <- dec_marsh ;; if (length bs =? addr_len)%nat then Ret (idx, bs) else Fail.
Definition dec_wamap : prog amap :=
  l <- dec_i32 ;;
  if (l <? 0)%Z then Fail else
  es <- dec_many (Z.to_N l) dec_waddr_entry ;; Ret (amap_of_list es).
Definition enc_wamaps (l : list amap) : bytes := enc_i32 (Z.of_nat (length l)) ++ cat enc_amap l.
Definition dec_wamaps : prog (list amap) :=
  l <- dec_i32 ;;
  if (l <? 0)%Z then Fail else dec_many (Z.to_N l) dec_wamap.

(* wire.AddressDecMap: wire.NewAddress() regardless of the index; sim wire address: copy into 32 bytes *)
Definition wire_addr_len : nat := 32.
Definition pad_to (n : nat) (bs : bytes) : bytes := firstn n (bs ++ repeat Byte.x00 n).
Definition dec_raddr_entry : prog (Z * bytes) :=
  idx <- dec_i32 ;; bs <- dec_marsh ;; Ret (idx, pad_to wire_addr_len bs).
Definition dec_ramap : prog amap :=
  l <- dec_i32 ;;
  if (l <? 0)%Z then Fail else
  es <- dec_many (Z.to_N l) dec_raddr_entry ;; Ret (amap_of_list es).
Definition dec_ramaps : prog (list amap) :=
  l <- dec_i32 ;;
  if (l <? 0)%Z then Fail else dec_many (Z.to_N l) dec_ramap.

(* single-backend maps: the configuration the repository can build offline *)
Definition wamap_wf (m : amap) : bool :=
  match m with [(k, a)] => (k =? 0)%Z && (length a =? addr_len)%nat | _ => false end.
Definition ramap_wf (m : amap) : bool :=
  match m with
  | [(k, a)] => (-2147483648 <=? k)%Z && (k <? 2147483648)%Z && (length a =? wire_addr_len)%nat
  | _ => false end.

(* ---------- signatures (wallet/sig.go) ---------- *)
(* sparse signatures: a bit mask of ceil(n/8) bytes (bit i%8 of byte i/8 = slot i present), then the
   present signatures in order *)
Definition sigs := list (option bytes).
Definition mask_bits (l : sigs) : list bool := map (fun o => match o with Some _ => true | None => false end) l.
Fixpoint bits_byte (bs : list bool) (k : nat) : N :=        (* little end first *)
  match k, bs with
  | S k', b :: r => (if b then 1 else 0) + 2 * bits_byte r k'
  | _, _ => 0
  end.
Definition byte_of_bits (c : list bool) : byte := byte_of_N (bits_byte c 8).
Definition bits_of_byte (b : byte) : list bool := map (N.testbit (Byte.to_N b)) [0; 1; 2; 3; 4; 5; 6; 7].
Fixpoint chunks8 (fuel : nat) (l : list bool) : list (list bool) :=
  match fuel with
  | O => []
  | S f => match l with [] => [] | _ => firstn 8 l :: chunks8 f (skipn 8 l) end
  end.
Definition enc_mask (bits : list bool) : bytes := map byte_of_bits (chunks8 (length bits) bits).
Definition enc_sigs (l : sigs) : bytes :=
  enc_mask (mask_bits l) ++ cat (fun o => match o with Some s => s | None => [] end) l.
Definition mask_len (n : nat) : nat := (n + 7) / 8.
Fixpoint dec_sig_slots (bits : list bool) : prog sigs :=
  match bits with
  | [] => Ret []
  | true :: r => s <- dec_fixed sig_len ;; rest <- dec_sig_slots r ;; Ret (Some s :: rest)
  | false :: r => rest <- dec_sig_slots r ;; Ret (None :: rest)
  end.
Definition dec_sigs (n : nat) : prog sigs :=
  mask <- dec_fixed (mask_len n) ;; dec_sig_slots (firstn n (flat_map bits_of_byte mask)).
Definition sigs_wf (l : sigs) : bool :=
  forallb (fun o => match o with Some s => (length s =? sig_len)%nat | None => true end) l.

(* ---------- transaction (channel/transaction.go) ---------- *)
Definition txv := option (state * sigs).      (* None: State == nil *)
Definition enc_tx (t : txv) : bytes :=
  match t with
  | None => enc_u8 0
  | Some (s, sg) => enc_u8 1 ++ enc_state s ++ enc_sigs sg
  end.
Definition dec_tx (rs : resolver) : prog txv :=
  b <- dec_u8 ;;
  if b =? 0 then Ret None
  else if b =? 1 then
    s <- dec_state rs ;;
    sg <- dec_sigs (N.to_nat (num_parts (al_bals (st_alloc s)))) ;; Ret (Some (s, sg))
  else Fail.
Definition tx_wf (rs : resolver) (t : txv) : bool :=
  match t with
  | None => true
  | Some (s, sg) => state_wf_rs rs s && (len sg =? num_parts (al_bals (st_alloc s))) && sigs_wf sg
  end.

(* ---------- parameters (channel/params.go) ---------- *)
Record params := mkParams {
  p_cd : N; p_parts : list amap; p_app : option bytes; p_nonce : Z;
  p_ledger : bool; p_virtual : bool; p_aux : bytes }.
Definition enc_params (p : params) : bytes :=
  enc_u64 (p_cd p) ++ enc_wamaps (p_parts p) ++ enc_optapp (p_app p) ++ enc_bigint (p_nonce p)
  ++ enc_bool (p_ledger p) ++ enc_bool (p_virtual p) ++ p_aux p.
(* what backend/sim/channel.CalcID feeds to SHA-256 *)
Definition id_preimage (p : params) : bytes :=
  enc_wamaps (p_parts p) ++ enc_bigint (p_nonce p) ++ enc_u64 (p_cd p) ++ enc_optapp (p_app p)
  ++ enc_bool (p_ledger p) ++ enc_bool (p_virtual p).
(* NewParams / ValidateParameters *)
Definition nonce_ok (z : Z) : bool := (0 <=? z)%Z && (N.of_nat (nbytes (Z.to_N z)) <=? MaxNonceLen).
Definition new_params_ok (p : params) : bool :=
  negb (p_cd p =? 0) && (MinNumParts <=? len (p_parts p)) && (len (p_parts p) <=? MaxNumParts)
  && nonce_ok (p_nonce p)
  && forallb (fun m => negb (len m =? 0) && forallb (fun e => known_backend_z (fst e)) m) (p_parts p).
Definition dec_params (rs : resolver) : prog params :=
  cd <- dec_u64 ;;
  parts <- dec_wamaps ;;
  app <- dec_optapp rs ;;
  nonce <- dec_bigint ;;
  ledger <- dec_bool ;;
  virt <- dec_bool ;;
  aux <- dec_fixed 256 ;;
  let p := mkParams cd parts (option_map fst app) nonce ledger virt aux in
  if new_params_ok p then Ret p else Fail.
Definition params_wf (rs : resolver) (p : params) : bool :=
  new_params_ok p && (p_cd p <? 18446744073709551616) && forallb wamap_wf (p_parts p)
  && match p_app p with None => true
     | Some d => (length d =? addr_len)%nat && match rs d with Some _ => true | None => false end end
  && (length (p_aux p) =? 256)%nat.
