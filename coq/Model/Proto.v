(* The protobuf serializer (wire/protobuf/{serializer,proposalmsgs,updatemsgs,syncmsgs,controlmsgs}.go).

   (a) the message tree of the generated Go structs (wire.pb.go);
   (b) the conversions From* (domain value -> tree) and To* (tree -> domain value), mirrored function
       by function over the model types of Model/Channel.v and Model/Msgs.v, with every Go panic site
       as `Panic` and every returned error as `Err`;
   (c) the frame: 2-byte big-endian length, then the payload, as a `prog`.
   The protobuf byte format (proto.Marshal / proto.Unmarshal) is NOT modelled: it is a pair of section
   variables; the only fact used about it is  unmarshal (marshal m) = Some (norm m)  (Proofs/ProtoP.v).

   Conventions of the tree:
   * an optional sub-message field `*T` is `option T` (None = nil pointer);
   * a repeated message field `[]*T` is `list (option T)`: a tree built directly as Go structs may hold
     nil elements (after Unmarshal there are none);
   * `bytes`/`string` fields are byte lists: Go's nil and empty slice are the same list (the
     conversions only use len/copy/range on them), likewise nil and empty repeated fields;
   * uint64/uint32 fields are N (the Go type bounds them), int64 is Z; a proto3 scalar that is absent
     on the wire reads as its zero value, so the tree simply carries the value;
   * a message with one field is represented by that field (PingMsg = its int64, Balance = its
     [][]byte, Balances, Address, IndexMap = their repeated field);
   * the oneof wrapper (a pointer to Envelope_XxxMsg) is non-nil, its inner pointer may be nil.  (A typed-nil
     wrapper cannot come out of Unmarshal and marshals as "no message"; it is outside the tree.)
   All generated getters are nil-safe: reading a field of a nil message gives the zero value - `og`.

   The model mirrors the REPAIRED code (fix: commits db19d12, 2e6bf0f, cd1c178, 8481c0f, 129bafa,
   e65197d, c9b3ae4, b6732bb, 953c29f in /repo); the code as it was before is kept in Module Legacy for the refutation witnesses.
   Definitions only. *)
From V Require Export Model.Msgs.
Open Scope N_scope.

(* ---------- result monad ---------- *)
Notation "x <~ r ;; k" := (res_bind r (fun x => k)) (at level 61, r at next level, right associativity).
(* `for i := range l { y, err := f(l[i]); if err != nil { return err }; out[i] = y }` *)
Fixpoint mapM {A B} (f : A -> res B) (l : list A) : res (list B) :=
  match l with
  | [] => Ok []
  | x :: r => y <~ f x ;; ys <~ mapM f r ;; Ok (y :: ys)
  end.
Definition og {A} (d : A) (o : option A) : A := match o with Some x => x | None => d end.
Definition of_res {A} (r : res A) : prog A := match r with Ok a => Ret a | Err => Fail | Panic => Crash end.

(* ---------- the message tree ---------- *)
Record pAddrMapping := mkPAM { pam_key : bytes; pam_addr : bytes }.
Definition pAddress := list (option pAddrMapping).        (* Address{AddressMapping []*AddressMapping} *)
Definition pBalance := list bytes.                         (* Balance{Balance [][]byte} *)
Definition pBalances := list (option pBalance).            (* Balances{Balances []*Balance} *)
Definition pIndexMap := list N.                            (* IndexMap{IndexMap []uint32} *)
Record pSubAlloc := mkPSA { psa_id : bytes; psa_bals : option pBalance; psa_imap : option pIndexMap }.
Record pAllocation := mkPAl {
  pal_backends : list bytes; pal_assets : list bytes;
  pal_balances : option pBalances; pal_locked : list (option pSubAlloc) }.
Record pBaseProp := mkPBP {
  pbp_id : bytes; pbp_cd : N; pbp_nonce : bytes; pbp_app : bytes; pbp_data : bytes;
  pbp_bals : option pAllocation; pbp_fa : option pBalances; pbp_aux : bytes }.
Record pBaseAcc := mkPBA { pba_id : bytes; pba_nonce : bytes }.
Record pParams := mkPP {
  pp_id : bytes; pp_cd : N; pp_parts : list (option pAddress); pp_app : bytes; pp_nonce : bytes;
  pp_ledger : bool; pp_virtual : bool; pp_aux : bytes }.
Record pState := mkPSt {
  pst_id : bytes; pst_ver : N; pst_app : bytes; pst_alloc : option pAllocation; pst_data : bytes;
  pst_final : bool }.
Record pTx := mkPTx { ptx_state : option pState; ptx_sigs : list bytes }.
Record pSigned := mkPSS { pss_params : option pParams; pss_state : option pState; pss_sigs : list bytes }.
Record pChUpdate := mkPCU { pcu_state : option pState; pcu_actor : N }.
Record pUpdateMsg := mkPUM { pum_update : option pChUpdate; pum_sig : bytes }.
Record pLedgerProp := mkPLP {
  plp_base : option pBaseProp; plp_part : option pAddress; plp_peers : list (option pAddress) }.
Record pLedgerAcc := mkPLA { pla_base : option pBaseAcc; pla_part : option pAddress }.
Record pSubProp := mkPSP { psp_base : option pBaseProp; psp_parent : bytes }.
Record pVirtProp := mkPVP {
  pvp_base : option pBaseProp; pvp_proposer : option pAddress; pvp_peers : list (option pAddress);
  pvp_parents : list bytes; pvp_imaps : list (option pIndexMap) }.
Record pVirtAcc := mkPVA { pva_base : option pBaseAcc; pva_resp : option pAddress }.
Record pPropRej := mkPPR { ppr_id : bytes; ppr_reason : bytes }.
Record pVFund := mkPVF {
  pvf_update : option pUpdateMsg; pvf_initial : option pSigned; pvf_imap : option pIndexMap }.
Record pVSettle := mkPVS { pvs_update : option pUpdateMsg; pvs_final : option pSigned }.
Record pUpdateAcc := mkPUA { pua_id : bytes; pua_ver : N; pua_sig : bytes }.
Record pUpdateRej := mkPUR { pur_id : bytes; pur_ver : N; pur_reason : bytes }.
Record pSync := mkPSy { psy_phase : N; psy_tx : option pTx }.

(* Envelope.Msg (oneof): the argument is the inner pointer of the wrapper *)
Inductive pmsg :=
| PPing (m : option Z) | PPong (m : option Z)              (* PingMsg{Created int64} *)
| PShutdown (m : option bytes)                              (* ShutdownMsg{Reason string} *)
| PAuthResponse (m : option bytes)                          (* AuthResponseMsg{Signature []byte} *)
| PLedgerProp (m : option pLedgerProp) | PLedgerAcc (m : option pLedgerAcc)
| PSubProp (m : option pSubProp)
| PSubAcc (m : option (option pBaseAcc))                    (* SubChannelProposalAccMsg{*BaseChannelProposalAcc} *)
| PVirtProp (m : option pVirtProp) | PVirtAcc (m : option pVirtAcc) | PPropRej (m : option pPropRej)
| PUpdate (m : option pUpdateMsg) | PVFund (m : option pVFund) | PVSettle (m : option pVSettle)
| PUpdateAcc (m : option pUpdateAcc) | PUpdateRej (m : option pUpdateRej) | PSync (m : option pSync).
Record penv := mkPEnv { pe_sender : option pAddress; pe_recipient : option pAddress; pe_msg : option pmsg }.

(* zero values (what the getters return on a nil message) *)
Definition zPAM := mkPAM [] [].
Definition zPSA := mkPSA [] None None.
Definition zPAl := mkPAl [] [] None [].
Definition zPBP := mkPBP [] 0 [] [] [] None None [].
Definition zPBA := mkPBA [] [].
Definition zPP := mkPP [] 0 [] [] [] false false [].
Definition zPSt := mkPSt [] 0 [] None [] false.
Definition zPTx := mkPTx None [].
Definition zPSS := mkPSS None None [].
Definition zPCU := mkPCU None 0.
Definition zPUM := mkPUM None [].
Definition zPLP := mkPLP None None [].
Definition zPLA := mkPLA None None.
Definition zPSP := mkPSP None [].
Definition zPVP := mkPVP None None [] [] [].
Definition zPVA := mkPVA None None.
Definition zPPR := mkPPR [] [].
Definition zPVF := mkPVF None None None.
Definition zPVS := mkPVS None None.
Definition zPUA := mkPUA [] 0 [].
Definition zPUR := mkPUR [] 0 [].
Definition zPSy := mkPSy 0 None.

(* ---------- what proto.Marshal followed by proto.Unmarshal does to a tree ----------
   `norm`: a nil element of a repeated message field comes back as the empty message; the nil inner
   message of a set oneof comes back as the empty message; a nil optional sub-message stays nil and a
   present empty one stays present; scalars, bytes and strings are unchanged (in this representation,
   where nil/empty slices are identified and scalars carry their zero value).  Unknown fields do not
   exist in a tree.  Checked against the real library by the harness on every generated tree. *)
Definition norm_list {A} (z : A) (f : A -> A) (l : list (option A)) : list (option A) :=
  map (fun o => Some (f (og z o))) l.
Definition idf {A} (x : A) : A := x.
Definition norm_addr (a : pAddress) : pAddress := norm_list zPAM idf a.
Definition norm_balances (b : pBalances) : pBalances := norm_list [] idf b.
Definition norm_alloc (a : pAllocation) : pAllocation :=
  mkPAl (pal_backends a) (pal_assets a) (option_map norm_balances (pal_balances a))
        (norm_list zPSA idf (pal_locked a)).
Definition norm_baseprop (b : pBaseProp) : pBaseProp :=
  mkPBP (pbp_id b) (pbp_cd b) (pbp_nonce b) (pbp_app b) (pbp_data b)
        (option_map norm_alloc (pbp_bals b)) (option_map norm_balances (pbp_fa b)) (pbp_aux b).
Definition norm_params (p : pParams) : pParams :=
  mkPP (pp_id p) (pp_cd p) (norm_list [] norm_addr (pp_parts p)) (pp_app p) (pp_nonce p)
       (pp_ledger p) (pp_virtual p) (pp_aux p).
Definition norm_state (s : pState) : pState :=
  mkPSt (pst_id s) (pst_ver s) (pst_app s) (option_map norm_alloc (pst_alloc s)) (pst_data s) (pst_final s).
Definition norm_tx (t : pTx) : pTx := mkPTx (option_map norm_state (ptx_state t)) (ptx_sigs t).
Definition norm_signed (s : pSigned) : pSigned :=
  mkPSS (option_map norm_params (pss_params s)) (option_map norm_state (pss_state s)) (pss_sigs s).
Definition norm_chupdate (u : pChUpdate) : pChUpdate :=
  mkPCU (option_map norm_state (pcu_state u)) (pcu_actor u).
Definition norm_update (u : pUpdateMsg) : pUpdateMsg :=
  mkPUM (option_map norm_chupdate (pum_update u)) (pum_sig u).
Definition norm_inner {A} (z : A) (f : A -> A) (o : option A) : option A := Some (f (og z o)).
Definition norm_msg (m : pmsg) : pmsg :=
  match m with
  | PPing o => PPing (norm_inner 0%Z idf o)
  | PPong o => PPong (norm_inner 0%Z idf o)
  | PShutdown o => PShutdown (norm_inner [] idf o)
  | PAuthResponse o => PAuthResponse (norm_inner [] idf o)
  | PLedgerProp o => PLedgerProp (norm_inner zPLP (fun p =>
      mkPLP (option_map norm_baseprop (plp_base p)) (option_map norm_addr (plp_part p))
            (norm_list [] norm_addr (plp_peers p))) o)
  | PLedgerAcc o => PLedgerAcc (norm_inner zPLA (fun p =>
      mkPLA (pla_base p) (option_map norm_addr (pla_part p))) o)
  | PSubProp o => PSubProp (norm_inner zPSP (fun p =>
      mkPSP (option_map norm_baseprop (psp_base p)) (psp_parent p)) o)
  | PSubAcc o => PSubAcc (norm_inner None idf o)
  | PVirtProp o => PVirtProp (norm_inner zPVP (fun p =>
      mkPVP (option_map norm_baseprop (pvp_base p)) (option_map norm_addr (pvp_proposer p))
            (norm_list [] norm_addr (pvp_peers p)) (pvp_parents p) (norm_list [] idf (pvp_imaps p))) o)
  | PVirtAcc o => PVirtAcc (norm_inner zPVA (fun p =>
      mkPVA (pva_base p) (option_map norm_addr (pva_resp p))) o)
  | PPropRej o => PPropRej (norm_inner zPPR idf o)
  | PUpdate o => PUpdate (norm_inner zPUM norm_update o)
  | PVFund o => PVFund (norm_inner zPVF (fun p =>
      mkPVF (option_map norm_update (pvf_update p)) (option_map norm_signed (pvf_initial p)) (pvf_imap p)) o)
  | PVSettle o => PVSettle (norm_inner zPVS (fun p =>
      mkPVS (option_map norm_update (pvs_update p)) (option_map norm_signed (pvs_final p))) o)
  | PUpdateAcc o => PUpdateAcc (norm_inner zPUA idf o)
  | PUpdateRej o => PUpdateRej (norm_inner zPUR idf o)
  | PSync o => PSync (norm_inner zPSy (fun p => mkPSy (psy_phase p) (option_map norm_tx (psy_tx p))) o)
  end.
Definition norm_env (e : penv) : penv :=
  mkPEnv (option_map norm_addr (pe_sender e)) (option_map norm_addr (pe_recipient e))
         (option_map norm_msg (pe_msg e)).

(* ---------- integers ---------- *)
Definition s64_of_u64 (n : N) : Z :=
  if n <? 9223372036854775808 then Z.of_N n else (Z.of_N n - 18446744073709551616)%Z.
Definition u64_of_s64 (z : Z) : N := Z.to_N (z mod 18446744073709551616).
(* binary.Read(bytes.NewReader(b), binary.BigEndian, &int32): needs 4 bytes (io.EOF /
   io.ErrUnexpectedEOF otherwise), ignores what follows *)
Definition be_i32 (b : bytes) : res Z :=
  if (length b <? 4)%nat then Err else Ok (s32_of_u32 (dec_be (firstn 4 b))).
(* copy(dst[:], src) into a zeroed array of n bytes *)
Definition copy_to (n : nat) (src : bytes) : bytes := pad_to n src.
Definition bigint_of_bytes (b : bytes) : Z := Z.of_N (dec_be b).   (* new(big.Int).SetBytes(b) *)
Definition bytes_of_bigint (z : Z) : bytes := be_min (Z.abs_N z).   (* z.Bytes(): magnitude, minimal *)

(* ============================ To*: tree -> domain value ============================ *)

(* ToWalletAddr: per mapping read the key, wallet.NewAddress(key) (nil for an unknown backend: an error
   since cd1c178), sim Address.UnmarshalBinary wants exactly 64 bytes; later entries overwrite *)
Definition to_wamap (a : option pAddress) : res amap :=
  es <~ mapM (fun om => let m := og zPAM om in
          k <~ be_i32 (pam_key m) ;;
          if negb (known_backend_z k) then Err
          else if (length (pam_addr m) =? addr_len)%nat then Ok (k, pam_addr m) else Err) (og [] a) ;;
  Ok (amap_of_list es).
(* ToWireAddr: wire.NewAddress() whatever the key; sim wire Address.UnmarshalBinary copies into 32 bytes *)
Definition to_ramap (a : option pAddress) : res amap :=
  es <~ mapM (fun om => let m := og zPAM om in
          k <~ be_i32 (pam_key m) ;; Ok (k, copy_to wire_addr_len (pam_addr m))) (og [] a) ;;
  Ok (amap_of_list es).
Definition to_wamaps (l : list (option pAddress)) : res (list amap) := mapM to_wamap l.
Definition to_ramaps (l : list (option pAddress)) : res (list amap) := mapM to_ramap l.

(* ToIndexMap *)
Definition to_index_map (l : pIndexMap) : res (list N) :=
  mapM (fun x => if 65535 <? x then Err else Ok x) l.
(* ToBalance / ToBalances: no error result, no limit of their own *)
Definition to_balance (o : option pBalance) : list Z := map bigint_of_bytes (og [] o).
Definition to_balances (o : option pBalances) : list (list Z) := map to_balance (og [] o).
(* checkBalanceLengths (c9b3ae4): len(b.Bytes()) <= perunio.MaxBigIntLength for every amount; the callers
   that can return an error apply it *)
Definition balance_lengths_ok (l : list Z) : bool := bigints_ok l.
(* ToSubAlloc *)
Definition to_suballoc (o : option pSubAlloc) : res suballoc :=
  let s := og zPSA o in
  let bals := to_balance (psa_bals s) in
  if negb (balance_lengths_ok bals) then Err else
  if negb (length (psa_id s) =? 32)%nat then Err else
  im <~ to_index_map (og [] (psa_imap s)) ;;
  Ok (mkSA (psa_id s) bals im).
(* ToIntSlice *)
Definition to_int_slice (bs : list bytes) : res (list Z) :=
  mapM (fun b => if (length b =? 4)%nat then Ok (s32_of_u32 (dec_be b)) else Err) bs.
(* ToAllocation: backends; as many backends as assets (2e6bf0f); per asset channel.NewAsset(backend)
   (nil for an unknown backend: error since cd1c178) and sim Asset.UnmarshalBinary (exactly 8 bytes);
   sub-allocations; balances with their length check (c9b3ae4); Valid() (8481c0f) *)
Definition to_alloc (o : option pAllocation) : res alloc :=
  let a := og zPAl o in
  backends <~ to_int_slice (pal_backends a) ;;
  if negb (length backends =? length (pal_assets a))%nat then Err else
  assets <~ mapM (fun p : Z * bytes =>
              if negb (known_backend_z (fst p)) then Err
              else if (length (snd p) =? asset_len)%nat then Ok (dec_be (snd p)) else Err)
            (combine backends (pal_assets a)) ;;
  locked <~ mapM to_suballoc (pal_locked a) ;;
  let bals := to_balances (pal_balances a) in
  if negb (forallb balance_lengths_ok bals) then Err else
  let al := mkAlloc (map Z.to_N backends) assets bals locked in
  if alloc_valid al then Ok al else Err.

(* ToApp / ToAppAndData: empty app = NoApp; else sim AppID (a sim address: 64 bytes), Resolve,
   app.NewData().UnmarshalBinary(data) *)
Definition to_app (rs : resolver) (app : bytes) : res (option bytes) :=
  match app with
  | [] => Ok None
  | _ => if negb (length app =? addr_len)%nat then Err
         else match rs app with Some _ => Ok (Some app) | None => Err end
  end.
Definition to_app_and_data (rs : resolver) (app data : bytes) : res (option bytes * bytes) :=
  match app with
  | [] => Ok (None, [])
  | _ => if negb (length app =? addr_len)%nat then Err
         else match rs app with
              | None => Err
              | Some KMock => if (length data =? 8)%nat then Ok (Some app, data) else Err
              | Some KPay => Ok (Some app, [])
              end
  end.
(* ToState *)
Definition to_state (rs : resolver) (o : option pState) : res state :=
  let s := og zPSt o in
  a <~ to_alloc (pst_alloc s) ;;
  ad <~ to_app_and_data rs (pst_app s) (pst_data s) ;;
  Ok (mkState (copy_to 32 (pst_id s)) (pst_ver s) a (fst ad) (snd ad) (pst_final s)).
(* ToParams: channel.NewParams (129bafa) *)
Definition to_params (rs : resolver) (o : option pParams) : res params :=
  let p := og zPP o in
  app <~ to_app rs (pp_app p) ;;
  parts <~ to_wamaps (pp_parts p) ;;
  let pr := mkParams (pp_cd p) parts app (bigint_of_bytes (pp_nonce p)) (pp_ledger p) (pp_virtual p)
                     (copy_to 256 (pp_aux p)) in
  if new_params_ok pr then Ok pr else Err.
(* signatures: an empty entry is an absent signature and stays nil (e65197d) *)
Definition to_sigs (l : list bytes) : sigs := map (fun s => match s with [] => None | _ => Some s end) l.
(* ToSignedState *)
Definition to_signed (rs : resolver) (o : option pSigned) : res (params * state * sigs) :=
  let s := og zPSS o in
  p <~ to_params rs (pss_params s) ;;
  st <~ to_state rs (pss_state s) ;;
  Ok (p, st, to_sigs (pss_sigs s)).
(* ToChannelUpdate *)
Definition to_update (rs : resolver) (o : option pUpdateMsg) : res (state * N * bytes) :=
  let u := og zPUM o in
  let cu := og zPCU (pum_update u) in
  if 65535 <? pcu_actor cu then Err else
  s <~ to_state rs (pcu_state cu) ;;
  Ok (s, pcu_actor cu, pum_sig u).
(* ToBaseChannelProposal / ToBaseChannelProposalAcc: the funding agreement is held to the limits of
   the native Balances.Decode (b6732bb) and to the length check of its amounts (c9b3ae4) *)
Definition fa_dims_ok (fa : list (list Z)) : bool :=
  (len fa <=? MaxNumAssets) && forallb (fun r => len r <=? MaxNumParts) fa.
Definition to_baseprop (rs : resolver) (o : option pBaseProp) : res baseprop :=
  let b := og zPBP o in
  bals <~ to_alloc (pbp_bals b) ;;
  let fa := to_balances (pbp_fa b) in
  if negb (fa_dims_ok fa) then Err else
  if negb (forallb balance_lengths_ok fa) then Err else
  ad <~ to_app_and_data rs (pbp_app b) (pbp_data b) ;;
  Ok (mkBP (copy_to 32 (pbp_id b)) (pbp_cd b) (copy_to 32 (pbp_nonce b)) (fst ad) (snd ad) bals fa
           (copy_to 256 (pbp_aux b))).
Definition to_baseacc (o : option pBaseAcc) : bytes * bytes :=
  let a := og zPBA o in (copy_to 32 (pba_id a), copy_to 32 (pba_nonce a)).

(* the 17 conversions of serializer.Decode's switch *)
Definition to_msg (rs : resolver) (m : pmsg) : res msg :=
  match m with
  | PPing o => Ok (MPing (u64_of_s64 (og 0%Z o)))
  | PPong o => Ok (MPong (u64_of_s64 (og 0%Z o)))
  | PShutdown o => Ok (MShutdown (og [] o))
  | PAuthResponse o => Ok (MAuthResponse (og [] o))
  | PLedgerProp o =>
      let p := og zPLP o in
      b <~ to_baseprop rs (plp_base p) ;;
      part <~ to_wamap (plp_part p) ;;
      peers <~ to_ramaps (plp_peers p) ;;
      (* 953c29f: the range of the native assertValidNumParts *)
      if (len peers <? MinNumParts) || (MaxNumParts <? len peers) then Err else
      Ok (MLedgerProp b part peers)
  | PLedgerAcc o =>
      let p := og zPLA o in
      let a := to_baseacc (pla_base p) in
      part <~ to_wamap (pla_part p) ;;
      Ok (MLedgerAcc (fst a) (snd a) part)
  | PSubProp o =>
      let p := og zPSP o in
      b <~ to_baseprop rs (psp_base p) ;;
      Ok (MSubProp b (copy_to 32 (psp_parent p)))
  | PSubAcc o => let a := to_baseacc (og None o) in Ok (MSubAcc (fst a) (snd a))
  | PVirtProp o =>
      let p := og zPVP o in
      b <~ to_baseprop rs (pvp_base p) ;;
      pr <~ to_wamap (pvp_proposer p) ;;
      let parents := map (copy_to 32) (pvp_parents p) in
      imaps <~ mapM (fun om => to_index_map (og [] om)) (pvp_imaps p) ;;
      peers <~ to_ramaps (pvp_peers p) ;;
      if MaxNumParts <? len peers then Err else              (* 953c29f *)
      Ok (MVirtProp b pr peers parents imaps)
  | PVirtAcc o =>
      let p := og zPVA o in
      let a := to_baseacc (pva_base p) in
      r <~ to_wamap (pva_resp p) ;;
      Ok (MVirtAcc (fst a) (snd a) r)
  | PPropRej o => let p := og zPPR o in Ok (MPropRej (copy_to 32 (ppr_id p)) (ppr_reason p))
  | PUpdate o => u <~ to_update rs o ;; Ok (MUpdate (fst (fst u)) (snd (fst u)) (snd u))
  | PVFund o =>
      let p := og zPVF o in
      i <~ to_signed rs (pvf_initial p) ;;
      im <~ to_index_map (og [] (pvf_imap p)) ;;
      u <~ to_update rs (pvf_update p) ;;
      Ok (MVFund (fst (fst u)) (snd (fst u)) (snd u) (fst (fst i)) (snd (fst i)) im (snd i))
  | PVSettle o =>
      let p := og zPVS o in
      f <~ to_signed rs (pvs_final p) ;;
      u <~ to_update rs (pvs_update p) ;;
      Ok (MVSettle (fst (fst u)) (snd (fst u)) (snd u) (fst (fst f)) (snd (fst f)) (snd f))
  | PUpdateAcc o => let p := og zPUA o in Ok (MUpdateAcc (copy_to 32 (pua_id p)) (pua_ver p) (pua_sig p))
  | PUpdateRej o => let p := og zPUR o in Ok (MUpdateRej (copy_to 32 (pur_id p)) (pur_ver p) (pur_reason p))
  | PSync o =>
      let p := og zPSy o in
      if 255 <? psy_phase p then Err else
      let tx := og zPTx (psy_tx p) in
      s <~ to_state rs (ptx_state tx) ;;
      Ok (MSync (psy_phase p) (Some (s, to_sigs (ptx_sigs tx))))
  end.
(* serializer.Decode after readEnvelope: sender, recipient, then the message (nil oneof: "unknown
   message type") *)
Definition to_envelope (rs : resolver) (e : penv) : res envelope :=
  s <~ to_ramap (pe_sender e) ;;
  r <~ to_ramap (pe_recipient e) ;;
  match pe_msg e with
  | None => Err
  | Some m => x <~ to_msg rs m ;; Ok (mkEnv s r x)
  end.

(* ============================ From*: domain value -> tree ============================ *)

(* FromWalletAddr / FromWireAddr (same code): panic("Key exceeds uint32 range") for a negative key;
   the entries in map iteration order (a single entry in the configurations the theorems cover) *)
Definition from_key (k : Z) : res bytes :=
  if (k <? 0)%Z || (4294967295 <? k)%Z then Panic else Ok (enc_be 4 (Z.to_N k)).
Definition from_amap (m : amap) : res pAddress :=
  mapM (fun e : Z * bytes => kb <~ from_key (fst e) ;; Ok (Some (mkPAM kb (snd e)))) m.
Definition from_amaps (l : list amap) : res (list (option pAddress)) :=
  mapM (fun m => a <~ from_amap m ;; Ok (Some a)) l.
(* FromBalance / FromBalances: a negative amount is an error *)
Definition from_balance (l : list Z) : res pBalance :=
  mapM (fun z => if (z <? 0)%Z then Err else Ok (bytes_of_bigint z)) l.
Definition from_balances (b : list (list Z)) : res pBalances :=
  mapM (fun r => x <~ from_balance r ;; Ok (Some x)) b.
(* FromSubAlloc *)
Definition from_suballoc (s : suballoc) : res pSubAlloc :=
  b <~ from_balance (sa_bals s) ;; Ok (mkPSA (sa_id s) (Some b) (Some (sa_imap s))).
(* FromAllocation: panic("BackendID exceeds uint32 range"); sim Asset.MarshalBinary = 8 bytes big
   endian; the sub-allocations are assigned (db19d12) *)
Definition from_alloc (a : alloc) : res pAllocation :=
  backends <~ mapM (fun b => if 4294967295 <? b then Panic else Ok (enc_be 4 b)) (al_backends a) ;;
  let assets := map enc_u64be (al_assets a) in
  locked <~ mapM (fun s => x <~ from_suballoc s ;; Ok (Some x)) (al_locked a) ;;
  bals <~ from_balances (al_bals a) ;;
  Ok (mkPAl backends assets (Some bals) locked).
(* FromApp / FromAppAndData *)
Definition from_app (app : option bytes) : bytes := match app with None => [] | Some d => d end.
Definition from_app_and_data (app : option bytes) (data : bytes) : bytes * bytes :=
  match app with None => ([], []) | Some d => (d, data) end.
(* FromState *)
Definition from_state (s : state) : res pState :=
  a <~ from_alloc (st_alloc s) ;;
  let ad := from_app_and_data (st_app s) (st_data s) in
  Ok (mkPSt (st_id s) (st_ver s) (fst ad) (Some a) (snd ad) (st_final s)).
(* FromParams (the Id field is never set) *)
Definition from_params (p : params) : res pParams :=
  parts <~ from_amaps (p_parts p) ;;
  Ok (mkPP [] (p_cd p) parts (from_app (p_app p)) (bytes_of_bigint (p_nonce p)) (p_ledger p)
           (p_virtual p) (p_aux p)).
Definition from_sigs (g : sigs) : list bytes := map (fun o => match o with Some s => s | None => [] end) g.
(* FromSignedState *)
Definition from_signed (p : params) (s : state) (g : sigs) : res pSigned :=
  pp <~ from_params p ;; st <~ from_state s ;; Ok (mkPSS (Some pp) (Some st) (from_sigs g)).
(* FromChannelUpdate *)
Definition from_update (s : state) (actor : N) (sg : bytes) : res pUpdateMsg :=
  st <~ from_state s ;; Ok (mkPUM (Some (mkPCU (Some st) actor)) sg).
(* FromBaseChannelProposal / FromBaseChannelProposalAcc *)
Definition from_baseprop (b : baseprop) : res pBaseProp :=
  bals <~ from_alloc (bp_bals b) ;;
  fa <~ from_balances (bp_fa b) ;;
  let ad := from_app_and_data (bp_app b) (bp_data b) in
  Ok (mkPBP (bp_id b) (bp_cd b) (bp_nonce b) (fst ad) (snd ad) (Some bals) (Some fa) (bp_aux b)).
Definition from_baseacc (pid nonce : bytes) : pBaseAcc := mkPBA pid nonce.

(* the 17 conversions of serializer.Encode's switch.  fromChannelSyncMsg calls FromState on
   CurrentTX.State: a nil state is a nil dereference *)
Definition from_msg (m : msg) : res pmsg :=
  match m with
  | MPing t => Ok (PPing (Some (s64_of_u64 t)))
  | MPong t => Ok (PPong (Some (s64_of_u64 t)))
  | MShutdown r => Ok (PShutdown (Some r))
  | MAuthResponse sg => Ok (PAuthResponse (Some sg))
  | MLedgerProp b part peers =>
      pb <~ from_baseprop b ;; pa <~ from_amap part ;; pp <~ from_amaps peers ;;
      Ok (PLedgerProp (Some (mkPLP (Some pb) (Some pa) pp)))
  | MLedgerAcc pid nonce part =>
      pa <~ from_amap part ;; Ok (PLedgerAcc (Some (mkPLA (Some (from_baseacc pid nonce)) (Some pa))))
  | MSubProp b parent => pb <~ from_baseprop b ;; Ok (PSubProp (Some (mkPSP (Some pb) parent)))
  | MSubAcc pid nonce => Ok (PSubAcc (Some (Some (from_baseacc pid nonce))))
  | MVirtProp b pr peers parents imaps =>
      pb <~ from_baseprop b ;; pa <~ from_amap pr ;; pp <~ from_amaps peers ;;
      Ok (PVirtProp (Some (mkPVP (Some pb) (Some pa) pp parents (map Some imaps))))
  | MVirtAcc pid nonce resp =>
      pa <~ from_amap resp ;; Ok (PVirtAcc (Some (mkPVA (Some (from_baseacc pid nonce)) (Some pa))))
  | MPropRej pid r => Ok (PPropRej (Some (mkPPR pid r)))
  | MUpdate s a sg => u <~ from_update s a sg ;; Ok (PUpdate (Some u))
  | MVFund s a sg ip ist imap isigs =>
      i <~ from_signed ip ist isigs ;; u <~ from_update s a sg ;;
      Ok (PVFund (Some (mkPVF (Some u) (Some i) (Some imap))))
  | MVSettle s a sg fp fs fsigs =>
      u <~ from_update s a sg ;; f <~ from_signed fp fs fsigs ;;
      Ok (PVSettle (Some (mkPVS (Some u) (Some f))))
  | MUpdateAcc id v sg => Ok (PUpdateAcc (Some (mkPUA id v sg)))
  | MUpdateRej id v r => Ok (PUpdateRej (Some (mkPUR id v r)))
  | MSync ph None => Panic
  | MSync ph (Some (s, g)) =>
      st <~ from_state s ;; Ok (PSync (Some (mkPSy ph (Some (mkPTx (Some st) (from_sigs g))))))
  end.
Definition from_envelope (e : envelope) : res penv :=
  m <~ from_msg (e_msg e) ;;
  s <~ from_amap (e_sender e) ;;
  r <~ from_amap (e_recipient e) ;;
  Ok (mkPEnv (Some s) (Some r) (Some m)).

(* what the protobuf serializer can carry in addition to the native envelope of the format: map keys
   that fit FromWireAddr, a sync message that has a state (the encoder dereferences it), at most
   MaxNumParts peers in a virtual channel proposal (the native decoder has no such check) *)
Definition keys_nonneg (m : amap) : bool := forallb (fun e : Z * bytes => (0 <=? fst e)%Z) m.
Definition msg_pwf (m : msg) : bool :=
  match m with
  | MLedgerProp _ _ peers => forallb keys_nonneg peers
  | MVirtProp _ _ peers _ _ => forallb keys_nonneg peers && (len peers <=? MaxNumParts)
  | MSync _ None => false
  | _ => true
  end.
Definition envelope_pwf (e : envelope) : bool :=
  keys_nonneg (e_sender e) && keys_nonneg (e_recipient e) && msg_pwf (e_msg e).

(* ============================ the frame ============================ *)
Section Frame.
  (* proto.Marshal (None: an error, e.g. a string field that is not UTF-8) and proto.Unmarshal *)
  Variable marshal : penv -> option bytes.
  Variable unmarshal : bytes -> option penv.

  (* writeEnvelope *)
  Definition enc_pframe (data : bytes) : res bytes :=
    if 65535 <? len data then Err else Ok (enc_be 2 (len data) ++ data).
  (* serializer.Encode *)
  Definition encode_proto (e : envelope) : res bytes :=
    pe <~ from_envelope e ;;
    match marshal pe with None => Err | Some d => enc_pframe d end.
  (* readEnvelope (binary.Read of the uint16, make, io.ReadFull since bfef08b) + the rest of Decode *)
  Definition dec_pframe (rs : resolver) : prog envelope :=
    Read true 2 (fun lb =>
      let n := dec_be lb in
      Alloc n (Read true (N.to_nat n) (fun data =>
        match unmarshal data with
        | None => Fail
        | Some pe => of_res (to_envelope rs pe)
        end))).
End Frame.

(* ============================ decidable equality of trees ============================ *)
Definition opt_eqb {A} (eqb : A -> A -> bool) (a b : option A) : bool :=
  match a, b with Some x, Some y => eqb x y | None, None => true | _, _ => false end.
Definition blist_eqb := list_eqb bytes_eqb.
Definition pam_eqb (a b : pAddrMapping) : bool :=
  bytes_eqb (pam_key a) (pam_key b) && bytes_eqb (pam_addr a) (pam_addr b).
Definition paddr_eqb : pAddress -> pAddress -> bool := list_eqb (opt_eqb pam_eqb).
Definition paddrs_eqb := list_eqb (opt_eqb paddr_eqb).
Definition pbals_eqb : pBalances -> pBalances -> bool := list_eqb (opt_eqb blist_eqb).
Definition psa_eqb (a b : pSubAlloc) : bool :=
  bytes_eqb (psa_id a) (psa_id b) && opt_eqb blist_eqb (psa_bals a) (psa_bals b)
  && opt_eqb nlist_eqb (psa_imap a) (psa_imap b).
Definition pal_eqb (a b : pAllocation) : bool :=
  blist_eqb (pal_backends a) (pal_backends b) && blist_eqb (pal_assets a) (pal_assets b)
  && opt_eqb pbals_eqb (pal_balances a) (pal_balances b)
  && list_eqb (opt_eqb psa_eqb) (pal_locked a) (pal_locked b).
Definition pbp_eqb (a b : pBaseProp) : bool :=
  bytes_eqb (pbp_id a) (pbp_id b) && (pbp_cd a =? pbp_cd b) && bytes_eqb (pbp_nonce a) (pbp_nonce b)
  && bytes_eqb (pbp_app a) (pbp_app b) && bytes_eqb (pbp_data a) (pbp_data b)
  && opt_eqb pal_eqb (pbp_bals a) (pbp_bals b) && opt_eqb pbals_eqb (pbp_fa a) (pbp_fa b)
  && bytes_eqb (pbp_aux a) (pbp_aux b).
Definition pba_eqb (a b : pBaseAcc) : bool :=
  bytes_eqb (pba_id a) (pba_id b) && bytes_eqb (pba_nonce a) (pba_nonce b).
Definition pp_eqb (a b : pParams) : bool :=
  bytes_eqb (pp_id a) (pp_id b) && (pp_cd a =? pp_cd b) && paddrs_eqb (pp_parts a) (pp_parts b)
  && bytes_eqb (pp_app a) (pp_app b) && bytes_eqb (pp_nonce a) (pp_nonce b)
  && Bool.eqb (pp_ledger a) (pp_ledger b) && Bool.eqb (pp_virtual a) (pp_virtual b)
  && bytes_eqb (pp_aux a) (pp_aux b).
Definition pst_eqb (a b : pState) : bool :=
  bytes_eqb (pst_id a) (pst_id b) && (pst_ver a =? pst_ver b) && bytes_eqb (pst_app a) (pst_app b)
  && opt_eqb pal_eqb (pst_alloc a) (pst_alloc b) && bytes_eqb (pst_data a) (pst_data b)
  && Bool.eqb (pst_final a) (pst_final b).
Definition ptx_eqb (a b : pTx) : bool :=
  opt_eqb pst_eqb (ptx_state a) (ptx_state b) && blist_eqb (ptx_sigs a) (ptx_sigs b).
Definition pss_eqb (a b : pSigned) : bool :=
  opt_eqb pp_eqb (pss_params a) (pss_params b) && opt_eqb pst_eqb (pss_state a) (pss_state b)
  && blist_eqb (pss_sigs a) (pss_sigs b).
Definition pcu_eqb (a b : pChUpdate) : bool :=
  opt_eqb pst_eqb (pcu_state a) (pcu_state b) && (pcu_actor a =? pcu_actor b).
Definition pum_eqb (a b : pUpdateMsg) : bool :=
  opt_eqb pcu_eqb (pum_update a) (pum_update b) && bytes_eqb (pum_sig a) (pum_sig b).
Definition pmsg_eqb (a b : pmsg) : bool :=
  match a, b with
  | PPing x, PPing y | PPong x, PPong y => opt_eqb Z.eqb x y
  | PShutdown x, PShutdown y | PAuthResponse x, PAuthResponse y => opt_eqb bytes_eqb x y
  | PLedgerProp x, PLedgerProp y => opt_eqb (fun p q =>
      opt_eqb pbp_eqb (plp_base p) (plp_base q) && opt_eqb paddr_eqb (plp_part p) (plp_part q)
      && paddrs_eqb (plp_peers p) (plp_peers q)) x y
  | PLedgerAcc x, PLedgerAcc y => opt_eqb (fun p q =>
      opt_eqb pba_eqb (pla_base p) (pla_base q) && opt_eqb paddr_eqb (pla_part p) (pla_part q)) x y
  | PSubProp x, PSubProp y => opt_eqb (fun p q =>
      opt_eqb pbp_eqb (psp_base p) (psp_base q) && bytes_eqb (psp_parent p) (psp_parent q)) x y
  | PSubAcc x, PSubAcc y => opt_eqb (opt_eqb pba_eqb) x y
  | PVirtProp x, PVirtProp y => opt_eqb (fun p q =>
      opt_eqb pbp_eqb (pvp_base p) (pvp_base q) && opt_eqb paddr_eqb (pvp_proposer p) (pvp_proposer q)
      && paddrs_eqb (pvp_peers p) (pvp_peers q) && blist_eqb (pvp_parents p) (pvp_parents q)
      && list_eqb (opt_eqb nlist_eqb) (pvp_imaps p) (pvp_imaps q)) x y
  | PVirtAcc x, PVirtAcc y => opt_eqb (fun p q =>
      opt_eqb pba_eqb (pva_base p) (pva_base q) && opt_eqb paddr_eqb (pva_resp p) (pva_resp q)) x y
  | PPropRej x, PPropRej y => opt_eqb (fun p q =>
      bytes_eqb (ppr_id p) (ppr_id q) && bytes_eqb (ppr_reason p) (ppr_reason q)) x y
  | PUpdate x, PUpdate y => opt_eqb pum_eqb x y
  | PVFund x, PVFund y => opt_eqb (fun p q =>
      opt_eqb pum_eqb (pvf_update p) (pvf_update q) && opt_eqb pss_eqb (pvf_initial p) (pvf_initial q)
      && opt_eqb nlist_eqb (pvf_imap p) (pvf_imap q)) x y
  | PVSettle x, PVSettle y => opt_eqb (fun p q =>
      opt_eqb pum_eqb (pvs_update p) (pvs_update q) && opt_eqb pss_eqb (pvs_final p) (pvs_final q)) x y
  | PUpdateAcc x, PUpdateAcc y => opt_eqb (fun p q =>
      bytes_eqb (pua_id p) (pua_id q) && (pua_ver p =? pua_ver q) && bytes_eqb (pua_sig p) (pua_sig q)) x y
  | PUpdateRej x, PUpdateRej y => opt_eqb (fun p q =>
      bytes_eqb (pur_id p) (pur_id q) && (pur_ver p =? pur_ver q) && bytes_eqb (pur_reason p) (pur_reason q)) x y
  | PSync x, PSync y => opt_eqb (fun p q =>
      (psy_phase p =? psy_phase q) && opt_eqb ptx_eqb (psy_tx p) (psy_tx q)) x y
  | _, _ => false
  end.
Definition penv_eqb (a b : penv) : bool :=
  opt_eqb paddr_eqb (pe_sender a) (pe_sender b) && opt_eqb paddr_eqb (pe_recipient a) (pe_recipient b)
  && opt_eqb pmsg_eqb (pe_msg a) (pe_msg b).


(* ============================ the code before the repairs ============================ *)
Module Legacy.
  (* FromAllocation built `locked` and never assigned it *)
  Definition from_alloc (a : alloc) : res pAllocation :=
    backends <~ mapM (fun b => if 4294967295 <? b then Panic else Ok (enc_be 4 b)) (al_backends a) ;;
    let assets := map enc_u64be (al_assets a) in
    _locked <~ mapM (fun s => x <~ from_suballoc s ;; Ok (Some x)) (al_locked a) ;;
    bals <~ from_balances (al_bals a) ;;
    Ok (mkPAl backends assets (Some bals) []).
  (* ToWalletAddr: method call on the nil address of an unknown backend *)
  Definition to_wamap (a : option pAddress) : res amap :=
    es <~ mapM (fun om => let m := og zPAM om in
            k <~ be_i32 (pam_key m) ;;
            if negb (known_backend_z k) then Panic
            else if (length (pam_addr m) =? addr_len)%nat then Ok (k, pam_addr m) else Err) (og [] a) ;;
    Ok (amap_of_list es).
  (* ToAllocation: alloc.Backends[i] per asset, method call on a nil asset, no Valid() *)
  Fixpoint to_assets (backends : list Z) (i : nat) (assets : list bytes) : res (list N) :=
    match assets with
    | [] => Ok []
    | x :: r =>
        match nth_error backends i with
        | None => Panic
        | Some b =>
            if negb (known_backend_z b) then Panic
            else if (length x =? asset_len)%nat
                 then ys <~ to_assets backends (S i) r ;; Ok (dec_be x :: ys) else Err
        end
    end.
  Definition to_alloc (o : option pAllocation) : res alloc :=
    let a := og zPAl o in
    backends <~ to_int_slice (pal_backends a) ;;
    assets <~ to_assets backends 0 (pal_assets a) ;;
    locked <~ mapM to_suballoc (pal_locked a) ;;
    Ok (mkAlloc (map Z.to_N backends) assets (to_balances (pal_balances a)) locked).
  (* ToParams: NewParamsUnsafe -> CalcID: Parts[0]; no address in Parts[0] -> "no valid ID found" ->
     log.Panicf; sim CalcID encodes the nonce with perunio (longer than MaxBigIntLength: error ->
     log.Panicf); nothing else is checked *)
  Definition to_params (rs : resolver) (o : option pParams) : res params :=
    let p := og zPP o in
    app <~ to_app rs (pp_app p) ;;
    parts <~ mapM to_wamap (pp_parts p) ;;
    let nonce := bigint_of_bytes (pp_nonce p) in
    match parts with
    | [] => Panic
    | [] :: _ => Panic
    | _ => if bigint_encodable nonce
           then Ok (mkParams (pp_cd p) parts app nonce (pp_ledger p) (pp_virtual p) (copy_to 256 (pp_aux p)))
           else Panic
    end.
  (* before c9b3ae4: amounts of any length *)
  Definition to_alloc_anylen (o : option pAllocation) : res alloc :=
    let a := og zPAl o in
    backends <~ to_int_slice (pal_backends a) ;;
    if negb (length backends =? length (pal_assets a))%nat then Err else
    assets <~ mapM (fun p : Z * bytes =>
                if negb (known_backend_z (fst p)) then Err
                else if (length (snd p) =? asset_len)%nat then Ok (dec_be (snd p)) else Err)
              (combine backends (pal_assets a)) ;;
    locked <~ mapM to_suballoc (pal_locked a) ;;
    let al := mkAlloc (map Z.to_N backends) assets (to_balances (pal_balances a)) locked in
    if alloc_valid al then Ok al else Err.
  (* before b6732bb: a funding agreement of any dimension *)
  Definition to_baseprop (rs : resolver) (o : option pBaseProp) : res baseprop :=
    let b := og zPBP o in
    bals <~ Proto.to_alloc (pbp_bals b) ;;
    let fa := to_balances (pbp_fa b) in
    ad <~ to_app_and_data rs (pbp_app b) (pbp_data b) ;;
    Ok (mkBP (copy_to 32 (pbp_id b)) (pbp_cd b) (copy_to 32 (pbp_nonce b)) (fst ad) (snd ad) bals fa
             (copy_to 256 (pbp_aux b))).
  (* before 953c29f: any number of peers *)
  Definition to_ledger_prop (rs : resolver) (o : option pLedgerProp) : res msg :=
    let p := og zPLP o in
    b <~ Proto.to_baseprop rs (plp_base p) ;;
    part <~ Proto.to_wamap (plp_part p) ;;
    peers <~ to_ramaps (plp_peers p) ;;
    Ok (MLedgerProp b part peers).
  (* absent signatures came back as empty non-nil slices *)
  Definition to_sigs (l : list bytes) : sigs := map Some l.
  (* readEnvelope called r.Read(data) once (before bfef08b) *)
  Definition dec_pframe (unmarshal : bytes -> option penv) (rs : resolver) : prog envelope :=
    Read true 2 (fun lb =>
      let n := dec_be lb in
      Alloc n (Read false (N.to_nat n) (fun data =>        (* the unread tail of the buffer stays zero *)
        match unmarshal (pad_to (N.to_nat n) data) with
        | None => Fail
        | Some pe => of_res (to_envelope rs pe)
        end))).
End Legacy.
