(* Ideal signature scheme.  Theorems are quantified over any scheme satisfying the two laws;
   the token scheme below is the instance used when the models are executed. *)
From V Require Export Base.Bytes.

Record sigscheme := mkScheme {
  skey : Type; saddr : Type; ssig : Type;
  spub : skey -> saddr;
  ssign : skey -> bytes -> ssig;
  sverify : saddr -> bytes -> ssig -> bool;
  sverify_sign : forall k m, sverify (spub k) m (ssign k m) = true;
  sunforgeable : forall p m' k m, sverify p m' (ssign k m) = true -> p = spub k /\ m' = m }.

(* token scheme: a signature is the pair (signer, message) or junk *)
Inductive sigtok := SigOf (signer : N) (msg : bytes) | Junk (n : N).
Definition tok_verify (a : N) (m : bytes) (s : sigtok) : bool :=
  match s with SigOf k m' => (a =? k)%N && bytes_eqb m m' | Junk _ => false end.
Lemma tok_verify_sign k m : tok_verify k m (SigOf k m) = true.
Proof. cbn. rewrite N.eqb_refl. apply bytes_eqb_eq. reflexivity. Qed.
Lemma tok_unforgeable p m' k m : tok_verify p m' (SigOf k m) = true -> p = k /\ m' = m.
Proof. cbn. intro H. apply andb_true_iff in H as [H1 H2]. apply N.eqb_eq in H1. apply bytes_eqb_eq in H2. auto. Qed.
Definition tok_scheme : sigscheme :=
  mkScheme N N sigtok (fun k => k) SigOf tok_verify tok_verify_sign tok_unforgeable.
