(* C19 — Go values as trees whose mutable nodes carry a heap location; generic deep copy; the Go
   Clone methods of go-perun re-stated statement by statement over an allocation counter.
   Definitions only (proofs: Proofs/HeapP.v). *)
From Coq Require Import Arith PeanoNat.
From V Require Export Base.Bytes.
Local Open Scope nat_scope.

(* ------------------------------------------------------------------------------------------
   1. Values.  A located node is one Go allocation that can be written through a reference:
      GInt   l z     the word array of a big.Int (the *big.Int pointer itself is a GPtr around it)
      GBytes l b     a []byte and its backing array
      GPtr   l v     a pointer to an allocation holding v (struct, big.Int header, app data)
      GSlice l xs    a slice and its backing array
      GMap   l ks vs a map (keys sorted by the renderer)
      GStruct fs     a struct held by value: its memory belongs to the enclosing allocation
      GNum/GLit      scalars and byte arrays held by value
      GShared id     the documented exceptions that clones share: app definitions, asset identifiers,
                     signing accounts (and the process-wide logger / elliptic curve singletons)
      GNil           nil pointer / slice / map / interface *)
Inductive gv :=
| GNil
| GNum (z : Z)
| GLit (b : bytes)
| GShared (id : nat)
| GInt (l : nat) (z : Z)
| GBytes (l : nat) (b : bytes)
| GPtr (l : nat) (v : gv)
| GSlice (l : nat) (xs : list gv)
| GMap (l : nat) (ks : list Z) (vs : list gv)
| GStruct (fs : list gv).

(* state-threading map *)
Section MapS.
  Context {A B S : Type} (f : A -> S -> B * S).
  Fixpoint mapS (xs : list A) (s : S) : list B * S :=
    match xs with
    | [] => ([], s)
    | x :: r => let (y, s1) := f x s in let (ys, s2) := mapS r s1 in (y :: ys, s2)
    end.
End MapS.

(* the generic deep copy: every located node is re-allocated from the counter (pre-order),
   GShared is kept *)
Fixpoint clone (v : gv) (n : nat) : gv * nat :=
  match v with
  | GNil | GNum _ | GLit _ | GShared _ => (v, n)
  | GInt _ z => (GInt n z, S n)
  | GBytes _ b => (GBytes n b, S n)
  | GPtr _ x => let (x', m) := clone x (S n) in (GPtr n x', m)
  | GSlice _ xs => let (xs', m) := mapS clone xs (S n) in (GSlice n xs', m)
  | GMap _ ks vs => let (vs', m) := mapS clone vs (S n) in (GMap n ks vs', m)
  | GStruct fs => let (fs', m) := mapS clone fs n in (GStruct fs', m)
  end.

Fixpoint locs (v : gv) : list nat :=
  match v with
  | GNil | GNum _ | GLit _ | GShared _ => []
  | GInt l _ | GBytes l _ => [l]
  | GPtr l x => l :: locs x
  | GSlice l xs => l :: flat_map locs xs
  | GMap l _ vs => l :: flat_map locs vs
  | GStruct fs => flat_map locs fs
  end.

(* forget the locations.  The erased tree is the value up to go-perun equality: a nil and an empty
   slice (or map) are the same value (Equal and the encodings do not tell them apart), a nil and an
   empty []byte are different (a nil signature is an absent signature). *)
Fixpoint erase (v : gv) : gv :=
  match v with
  | GNil | GNum _ | GLit _ | GShared _ => v
  | GInt _ z => GInt 0 z
  | GBytes _ b => GBytes 0 b
  | GPtr _ x => GPtr 0 (erase x)
  | GSlice _ xs => match xs with [] => GNil | _ => GSlice 0 (map erase xs) end
  | GMap _ ks vs => match vs with [] => GNil | _ => GMap 0 ks (map erase vs) end
  | GStruct fs => GStruct (map erase fs)
  end.

(* a store to location l: every node allocated at l is replaced by w *)
Fixpoint write (l : nat) (w : gv) (v : gv) : gv :=
  match v with
  | GNil | GNum _ | GLit _ | GShared _ => v
  | GInt l' _ | GBytes l' _ => if l' =? l then w else v
  | GPtr l' x => if l' =? l then w else GPtr l' (write l w x)
  | GSlice l' xs => if l' =? l then w else GSlice l' (map (write l w) xs)
  | GMap l' ks vs => if l' =? l then w else GMap l' ks (map (write l w) vs)
  | GStruct fs => GStruct (map (write l w) fs)
  end.

Definition below (v : gv) (n : nat) : Prop := forall l, In l (locs v) -> l < n.

(* v' is a deep copy of v allocated in [n, n'): same value, every node a distinct fresh allocation *)
Definition fr (L : list nat) (n n' : nat) : Prop := NoDup L /\ (forall l, In l L -> n <= l < n') /\ n <= n'.
Definition deep (v v' : gv) (n n' : nat) : Prop := erase v' = erase v /\ fr (locs v') n n'.

(* Two holders of values in one heap.  A write by side s targets a location s can reach in its own
   value and stores a value built from locations s can reach or allocates now ([lim, lim')).
   Every write hits the one shared heap, i.e. both views. *)
Inductive side := SideL | SideR.
Definition wstep := (side * nat * gv * nat)%type.

Fixpoint legal (lim : nat) (a b : gv) (ws : list wstep) : Prop :=
  match ws with
  | [] => True
  | (s, l, w, lim') :: r =>
      let own := match s with SideL => a | SideR => b end in
      In l (locs own) /\ lim <= lim' /\
      (forall x, In x (locs w) -> In x (locs own) \/ lim <= x < lim') /\
      legal lim' (write l w a) (write l w b) r
  end.

Fixpoint run2 (a b : gv) (ws : list wstep) : gv * gv :=
  match ws with
  | [] => (a, b)
  | (_, l, w, _) :: r => run2 (write l w a) (write l w b) r
  end.

(* what one side does on its own *)
Fixpoint own_writes (s : side) (ws : list wstep) (v : gv) : gv :=
  match ws with
  | [] => v
  | (s', l, w, _) :: r =>
      match s, s' with
      | SideL, SideL | SideR, SideR => own_writes s r (write l w v)
      | _, _ => own_writes s r v
      end
  end.

(* ------------------------------------------------------------------------------------------
   2. Decidable versions (used by the correspondence on observed heaps) *)
Section Forall2b.
  Context {A : Type} (f : A -> A -> bool).
  Fixpoint forall2b (xs ys : list A) : bool :=
    match xs, ys with
    | [], [] => true
    | x :: xr, y :: yr => f x y && forall2b xr yr
    | _, _ => false
    end.
End Forall2b.

Fixpoint gv_eqb (a b : gv) : bool :=
  match a, b with
  | GNil, GNil => true
  | GNum x, GNum y => Z.eqb x y
  | GLit x, GLit y => bytes_eqb x y
  | GShared x, GShared y => x =? y
  | GInt l x, GInt m y => (l =? m) && Z.eqb x y
  | GBytes l x, GBytes m y => (l =? m) && bytes_eqb x y
  | GPtr l x, GPtr m y => (l =? m) && gv_eqb x y
  | GSlice l xs, GSlice m ys => (l =? m) && forall2b gv_eqb xs ys
  | GMap l ks xs, GMap m ks' ys => (l =? m) && forall2b Z.eqb ks ks' && forall2b gv_eqb xs ys
  | GStruct xs, GStruct ys => forall2b gv_eqb xs ys
  | _, _ => false
  end.

Fixpoint memb (x : nat) (l : list nat) : bool :=
  match l with [] => false | y :: r => (x =? y) || memb x r end.
Fixpoint nodupb (l : list nat) : bool :=
  match l with [] => true | x :: r => negb (memb x r) && nodupb r end.

(* cl is a deep copy of orig allocated at or above n (orig lives below n) *)
Definition deepb (orig cl : gv) (n : nat) : bool :=
  gv_eqb (erase cl) (erase orig) && nodupb (locs cl) && forallb (fun l => n <=? l) (locs cl)
  && forallb (fun l => l <? n) (locs orig).

(* ------------------------------------------------------------------------------------------
   3. The Go Clone methods, over an allocation counter.  None = Go panics (nil dereference). *)
Definition M (A : Type) := nat -> option (A * nat).
Definition ret {A} (a : A) : M A := fun n => Some (a, n).
Definition bind {A B} (c : M A) (k : A -> M B) : M B :=
  fun n => match c n with Some (a, m) => k a m | None => None end.
Definition fresh : M nat := fun n => Some (n, S n).      (* new / make / composite literal that escapes *)
Definition panic {A} : M A := fun _ => None.
Notation "x <- c ;; k" := (bind c (fun x => k)) (at level 61, c at next level, right associativity).
Fixpoint mapM {A B} (f : A -> M B) (xs : list A) : M (list B) :=
  match xs with
  | [] => ret []
  | x :: r => y <- f x ;; ys <- mapM f r ;; ret (y :: ys)
  end.

(* typed heap values: None is Go's nil *)
Record hint := mkInt { i_ptr : nat; i_arr : nat; i_val : Z }.       (* *big.Int: header and word array *)
Definition bal := option hint.
Definition hslice (A : Type) := option (nat * list A).              (* backing array, elements *)

Record hsub := mkSub { sb_id : bytes; sb_bals : hslice bal; sb_imap : hslice Z }.
Record halloc := mkAlloc {
  al_bals : hslice (hslice bal); al_backends : hslice Z; al_assets : hslice (option nat);
  al_locked : hslice hsub }.
Inductive hdata := DNil | DNoData (l : nat) | DMock (l : nat) (op : Z).
Record hstate := mkState {
  st_alloc : halloc; st_id : bytes; st_version : Z; st_app : option nat; st_data : hdata; st_final : Z }.
Definition hstateptr := option (nat * hstate).
Definition hsig := option (nat * bytes).
Record htx := mkTx { tx_state : hstateptr; tx_sigs : hslice hsig }.
Record haddr := mkAddr { ad_ptr : nat; ad_curve : option nat; ad_x : bal; ad_y : bal }.   (* *sim.Address *)
Definition haddrmap := option (nat * list (Z * option haddr)).      (* map[BackendID]Address, keys sorted *)
Record hparams := mkParams {
  pa_id : bytes; pa_cd : Z; pa_parts : hslice haddrmap; pa_app : option nat; pa_nonce : bal;
  pa_ledger : Z; pa_virtual : Z; pa_aux : bytes }.
Record hmachine := mkMach {
  ma_log : option nat; ma_phase : Z; ma_acc : option nat; ma_idx : Z; ma_params : hparams;
  ma_staging : htx; ma_current : htx; ma_prev : hslice htx }.
Record hsm := mkSM { sm_ptr : nat; sm_mptr : nat; sm_mach : hmachine; sm_app : option nat }.
Record ham := mkAM { am_ptr : nat; am_mptr : nat; am_mach : hmachine; am_app : option nat;
                     am_actions : hslice hdata }.
Record hsource := mkSource {
  so_idx : Z; so_params : option (nat * hparams); so_staging : htx; so_current : htx; so_phase : Z }.

(* the elliptic curve singleton of the sim wallet: the renderer registers it as shared object 0 *)
Definition sim_curve : nat := 0.

(* `if x == nil { return nil }; c := make(len(x)); for i := range x { c[i] = f(x[i]) }` *)
Definition clone_slice {A} (f : A -> M A) (o : hslice A) : M (hslice A) :=
  match o with
  | None => ret None
  | Some (_, xs) => l <- fresh ;; ys <- mapM f xs ;; ret (Some (l, ys))
  end.
(* `c := make(len(x)); for ...` without the nil test: a nil slice becomes an empty one *)
Definition elems {A} (o : hslice A) : list A := match o with None => [] | Some (_, xs) => xs end.
Definition remake_slice {A} (f : A -> M A) (o : hslice A) : M (hslice A) :=
  l <- fresh ;; ys <- mapM f (elems o) ;; ret (Some (l, ys)).

(* --- rendering of typed values as trees (field order of the Go structs) *)
Definition opt_gv {A} (f : A -> gv) (o : option A) : gv := match o with None => GNil | Some a => f a end.
Definition slice_gv {A} (f : A -> gv) (s : hslice A) : gv := opt_gv (fun p => GSlice (fst p) (map f (snd p))) s.
Definition shared_gv (o : option nat) : gv := opt_gv GShared o.
Definition int_gv (b : bal) : gv := opt_gv (fun i => GPtr (i_ptr i) (GInt (i_arr i) (i_val i))) b.
Definition bals_gv : hslice bal -> gv := slice_gv int_gv.
Definition balances_gv : hslice (hslice bal) -> gv := slice_gv bals_gv.
Definition imap_gv : hslice Z -> gv := slice_gv GNum.
Definition sub_gv (s : hsub) : gv := GStruct [GLit (sb_id s); bals_gv (sb_bals s); imap_gv (sb_imap s)].
Definition alloc_gv (a : halloc) : gv :=
  GStruct [balances_gv (al_bals a); slice_gv GNum (al_backends a); slice_gv shared_gv (al_assets a);
           slice_gv sub_gv (al_locked a)].
Definition data_gv (d : hdata) : gv :=
  match d with DNil => GNil | DNoData l => GPtr l (GStruct []) | DMock l op => GPtr l (GNum op) end.
Definition state_gv (s : hstate) : gv :=
  GStruct [alloc_gv (st_alloc s); GLit (st_id s); GNum (st_version s); shared_gv (st_app s);
           data_gv (st_data s); GNum (st_final s)].
Definition stateptr_gv (p : hstateptr) : gv := opt_gv (fun q => GPtr (fst q) (state_gv (snd q))) p.
Definition sig_gv (s : hsig) : gv := opt_gv (fun p => GBytes (fst p) (snd p)) s.
Definition sigs_gv : hslice hsig -> gv := slice_gv sig_gv.
Definition tx_gv (t : htx) : gv := GStruct [stateptr_gv (tx_state t); sigs_gv (tx_sigs t)].
Definition addr_gv (o : option haddr) : gv :=
  opt_gv (fun a => GPtr (ad_ptr a) (GStruct [shared_gv (ad_curve a); int_gv (ad_x a); int_gv (ad_y a)])) o.
Definition addrmap_gv (m : haddrmap) : gv :=
  opt_gv (fun p => GMap (fst p) (map fst (snd p)) (map (fun kv => addr_gv (snd kv)) (snd p))) m.
Definition parts_gv : hslice haddrmap -> gv := slice_gv addrmap_gv.
Definition params_gv (p : hparams) : gv :=
  GStruct [GLit (pa_id p); GNum (pa_cd p); parts_gv (pa_parts p); shared_gv (pa_app p); int_gv (pa_nonce p);
           GNum (pa_ledger p); GNum (pa_virtual p); GLit (pa_aux p)].
Definition paramsptr_gv (p : option (nat * hparams)) : gv := opt_gv (fun q => GPtr (fst q) (params_gv (snd q))) p.
Definition machine_gv (m : hmachine) : gv :=
  GStruct [GStruct [shared_gv (ma_log m)]; GNum (ma_phase m); shared_gv (ma_acc m); GNum (ma_idx m);
           params_gv (ma_params m); tx_gv (ma_staging m); tx_gv (ma_current m); slice_gv tx_gv (ma_prev m)].
Definition sm_gv (m : hsm) : gv :=
  GPtr (sm_ptr m) (GStruct [GPtr (sm_mptr m) (machine_gv (sm_mach m)); shared_gv (sm_app m)]).
Definition am_gv (m : ham) : gv :=
  GPtr (am_ptr m) (GStruct [GPtr (am_mptr m) (machine_gv (am_mach m)); shared_gv (am_app m);
                            slice_gv data_gv (am_actions m)]).
Definition source_gv (s : hsource) : gv :=
  GStruct [GNum (so_idx s); paramsptr_gv (so_params s); tx_gv (so_staging s); tx_gv (so_current s);
           GNum (so_phase s)].

(* --- channel/allocation.go *)
(* new(big.Int).Set(x): a nil x is dereferenced *)
Definition clone_int (b : bal) : M bal :=
  match b with
  | None => panic
  | Some i => p <- fresh ;; w <- fresh ;; ret (Some (mkInt p w (i_val i)))
  end.

(* CloneBals: nil stays nil; make([]Bal, len); every entry through new(big.Int).Set *)
Definition clone_bals : hslice bal -> M (hslice bal) := clone_slice clone_int.

(* Balances.Clone: nil stays nil; make([][]Bal, len); every row through CloneBals *)
Definition clone_balances : hslice (hslice bal) -> M (hslice (hslice bal)) := clone_slice clone_bals.

(* `if x != nil { c = make(len(x)); copy(c, x) }`: CloneIndexMap, Backends, Assets (elements copied as they are) *)
Definition copy_slice {A} : hslice A -> M (hslice A) := clone_slice (fun x => ret x).
Definition clone_index_map : hslice Z -> M (hslice Z) := copy_slice.

(* NewSubAlloc: a nil index map becomes []Index{}; the SubAlloc is stored by value *)
Definition new_sub_alloc (id : bytes) (bals : hslice bal) (imap : hslice Z) : M hsub :=
  im <- match imap with None => (l <- fresh ;; ret (Some (l, []))) | Some _ => ret imap end ;;
  ret (mkSub id bals im).

Definition clone_sub (s : hsub) : M hsub :=
  b <- clone_bals (sb_bals s) ;; im <- clone_index_map (sb_imap s) ;; new_sub_alloc (sb_id s) b im.

(* Allocation.Clone: Backends, Assets, Balances, Locked in this order *)
Definition clone_alloc (a : halloc) : M halloc :=
  be <- copy_slice (al_backends a) ;;
  ass <- copy_slice (al_assets a) ;;
  bs <- clone_balances (al_bals a) ;;
  lk <- clone_slice clone_sub (al_locked a) ;;
  ret (mkAlloc bs be ass lk).

(* --- channel/state.go *)
(* Data.Clone of the two Data types of the tree: noData.Clone returns NoData(), MockOp.Clone returns &o;
   a nil Data is a nil interface method call *)
Definition clone_data (d : hdata) : M hdata :=
  match d with
  | DNil => panic
  | DNoData _ => l <- fresh ;; ret (DNoData l)
  | DMock _ op => l <- fresh ;; ret (DMock l op)
  end.

(* State.Clone: nil stays nil; clone := *s (escapes); Allocation.Clone; Data.Clone; App copied as it is *)
Definition clone_state (s : hstate) : M hstate :=
  a <- clone_alloc (st_alloc s) ;; d <- clone_data (st_data s) ;;
  ret (mkState a (st_id s) (st_version s) (st_app s) d (st_final s)).
Definition clone_stateptr (p : hstateptr) : M hstateptr :=
  match p with
  | None => ret None
  | Some (_, s) => l <- fresh ;; s' <- clone_state s ;; ret (Some (l, s'))
  end.

(* --- wallet/sig.go CloneSigs: nil stays nil; make; nil entries stay nil, others bytes.Repeat(sig, 1) *)
Definition clone_sig (s : hsig) : M hsig :=
  match s with None => ret None | Some (_, b) => l <- fresh ;; ret (Some (l, b)) end.
Definition clone_sigs : hslice hsig -> M (hslice hsig) := clone_slice clone_sig.

(* --- channel/transaction.go *)
Definition clone_tx (t : htx) : M htx :=
  s <- clone_stateptr (tx_state t) ;; g <- clone_sigs (tx_sigs t) ;; ret (mkTx s g).

(* --- wallet/address.go *)
(* CloneAddress (sim backend): MarshalBinary reads X and Y (nil: panic; nil interface: panic);
   NewAddress allocates; UnmarshalBinary sets X, Y to new big.Ints and Curve to the singleton *)
Definition clone_addr (o : option haddr) : M (option haddr) :=
  match o with
  | None => panic
  | Some a =>
      match ad_x a, ad_y a with
      | Some x, Some y =>
          p <- fresh ;; xp <- fresh ;; xw <- fresh ;; yp <- fresh ;; yw <- fresh ;;
          ret (Some (mkAddr p (Some sim_curve) (Some (mkInt xp xw (i_val x))) (Some (mkInt yp yw (i_val y)))))
      | _, _ => panic
      end
  end.
Definition clone_addr_entry (kv : Z * option haddr) : M (Z * option haddr) :=
  a <- clone_addr (snd kv) ;; ret (fst kv, a).
(* CloneAddressesMap: make(map) also for a nil map *)
Definition clone_addrmap (m : haddrmap) : M haddrmap :=
  l <- fresh ;;
  es <- mapM clone_addr_entry (match m with None => [] | Some (_, es) => es end) ;;
  ret (Some (l, es)).
(* wallet.CloneAddresses: make([]Address, 0, len(as)) also for nil *)
Definition clone_addrs : hslice (option haddr) -> M (hslice (option haddr)) := remake_slice clone_addr.

(* --- channel/params.go *)
(* channel.CloneAddresses: make([]map, len(as)) also for nil *)
Definition clone_parts : hslice haddrmap -> M (hslice haddrmap) := remake_slice clone_addrmap.

(* Params.Clone: &Params{id, ChallengeDuration, CloneAddresses(Parts), App, new(big.Int).Set(Nonce), ...} *)
Definition clone_params (p : hparams) : M (nat * hparams) :=
  parts <- clone_parts (pa_parts p) ;; nonce <- clone_int (pa_nonce p) ;; l <- fresh ;;
  ret (l, mkParams (pa_id p) (pa_cd p) parts (pa_app p) nonce (pa_ledger p) (pa_virtual p) (pa_aux p)).

(* --- channel/machine.go machine.Clone: prevTXs first (nil stays nil), then the literal:
   *m.params.Clone() (the cloned Params header is dropped), stagingTX.Clone(), currentTX.Clone();
   phase, acc, idx, Embedding copied as they are *)
Definition clone_machine (m : hmachine) : M hmachine :=
  prev <- clone_slice clone_tx (ma_prev m) ;;
  ps <- clone_params (ma_params m) ;;
  stg <- clone_tx (ma_staging m) ;;
  cur <- clone_tx (ma_current m) ;;
  ret (mkMach (ma_log m) (ma_phase m) (ma_acc m) (ma_idx m) (snd ps) stg cur prev).

(* --- channel/statemachine.go *)
Definition clone_sm (m : hsm) : M hsm :=
  mm <- clone_machine (sm_mach m) ;; mp <- fresh ;; p <- fresh ;; ret (mkSM p mp mm (sm_app m)).

(* --- channel/actionmachine.go: make([]Action, N()); every non-nil staged action through
   MarshalBinary / app.NewAction / UnmarshalBinary (MockApp: a new MockOp); more staged actions than
   participants is an index out of range *)
Definition clone_action (d : hdata) : M hdata :=
  match d with
  | DNil => ret DNil
  | DNoData _ => panic             (* not an Action of the tree *)
  | DMock _ op => l <- fresh ;; ret (DMock l op)
  end.
Fixpoint pad_actions (n : nat) (xs : list hdata) : option (list hdata) :=
  match n, xs with
  | _, [] => Some (repeat DNil n)
  | O, _ :: _ => None
  | S k, x :: r => match pad_actions k r with Some l => Some (x :: l) | None => None end
  end.
Definition num_parts (m : hmachine) : nat := length (elems (pa_parts (ma_params m))).
Definition clone_am (m : ham) : M ham :=
  l <- fresh ;;
  acts <- match pad_actions (num_parts (am_mach m)) (elems (am_actions m)) with
          | None => panic
          | Some xs => mapM clone_action xs
          end ;;
  mm <- clone_machine (am_mach m) ;; mp <- fresh ;; p <- fresh ;;
  ret (mkAM p mp mm (am_app m) (Some (l, acts))).

(* --- channel/persistence/persistence.go *)
(* CloneSource: &chSource{Idx, Params().Clone(), StagingTX().Clone(), CurrentTX().Clone(), Phase};
   a nil Params() is dereferenced *)
Definition clone_source (s : hsource) : M (nat * hsource) :=
  match so_params s with
  | None => panic
  | Some (_, p) =>
      ps <- clone_params p ;; stg <- clone_tx (so_staging s) ;; cur <- clone_tx (so_current s) ;; l <- fresh ;;
      ret (l, mkSource (so_idx s) (Some ps) stg cur (so_phase s))
  end.
(* FromSource: the same snapshot; peers and parent are stored as passed (by reference) *)
Definition from_source (s : hsource) (peers parent : gv) : M (nat * hsource * gv * gv) :=
  r <- clone_source s ;; ret (r, peers, parent).
Definition channel_gv (c : nat * hsource * gv * gv) : gv :=
  match c with (l, s, peers, parent) => GPtr l (GStruct [source_gv s; peers; parent]) end.

(* --- when the Clone methods do not panic *)
Definition isSome {A} (o : option A) : bool := match o with Some _ => true | None => false end.
Definition slice_all {A} (f : A -> bool) (s : hslice A) : bool :=
  match s with None => true | Some (_, xs) => forallb f xs end.
Definition bals_wf : hslice bal -> bool := slice_all isSome.
Definition sub_wf (s : hsub) : bool := bals_wf (sb_bals s).
Definition alloc_wf (a : halloc) : bool := slice_all bals_wf (al_bals a) && slice_all sub_wf (al_locked a).
Definition data_wf (d : hdata) : bool := match d with DNil => false | _ => true end.
Definition state_wf (s : hstate) : bool := alloc_wf (st_alloc s) && data_wf (st_data s).
Definition stateptr_wf (p : hstateptr) : bool := match p with None => true | Some (_, s) => state_wf s end.
Definition tx_wf (t : htx) : bool := stateptr_wf (tx_state t).
Definition addr_wf (o : option haddr) : bool :=
  match o with
  | None => false
  | Some a => isSome (ad_x a) && isSome (ad_y a) && match ad_curve a with Some c => c =? sim_curve | None => false end
  end.
Definition addrmap_wf (m : haddrmap) : bool :=
  match m with None => true | Some (_, es) => forallb (fun kv => addr_wf (snd kv)) es end.
Definition params_wf (p : hparams) : bool := slice_all addrmap_wf (pa_parts p) && isSome (pa_nonce p).
Definition machine_wf (m : hmachine) : bool :=
  params_wf (ma_params m) && tx_wf (ma_staging m) && tx_wf (ma_current m) && slice_all tx_wf (ma_prev m).
Definition source_wf (s : hsource) : bool :=
  match so_params s with None => false | Some (_, p) => params_wf p end && tx_wf (so_staging s) && tx_wf (so_current s).
Definition action_wf (d : hdata) : bool := match d with DNoData _ => false | _ => true end.
Definition am_wf (m : ham) : bool :=
  machine_wf (am_mach m) &&
  match am_actions m with
  | None => false
  | Some (_, xs) => (length xs =? num_parts (am_mach m)) && forallb action_wf xs
  end.
