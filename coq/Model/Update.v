(* C06 — the two-party channel update protocol of client/update.go as a labelled transition system.
   Definitions only (no proofs inside).

   Two honest parties PA (participant index 0) and PB (index 1) of ONE channel.  Each party is
   - a channel state machine (Model/Machine.v; the persistence.StateMachine wrapper forwards to it),
   - the machine mutex Channel.machMtx.  It is taken by Channel.Update (TryLockCtx) for the whole
     proposer run (stage, sign, send, wait for the response, add signature, enable / discard) and by
     Channel.handleUpdateReq (Lock) for the whole responder run (check, user handler, and inside
     UpdateResponder.Accept: stage, add signature, sign, send, enable; or Reject: send).  In the model
     the mutex is the control state [ctl]: the mutex is held iff [ctl <> Idle], and the control state
     says which run holds it and where that run stands;
   - the pending-request bookkeeping: [PWait s] is the response receiver subscribed for version
     [st_ver s] (channelconn.NewUpdateResRecv);
   - ghost data used only by the theorems: [flog], the states whose staged transaction became fully
     signed in this party's machine, newest first.
   The network [net] is the multiset of messages that are in flight or sit in the recipient's relay
   cache (newChannelConn caches all update responses until a receiver subscribes; requests wait in the
   client's request receiver until a handler goroutine owns the machine mutex).
   [done] (ghost) lists the completed Channel.Update calls with their return value, newest first.

   One label = one operation on the machine under the machine mutex, or one send.  There is no
   timeout step: the property excludes runs with timeouts (except for the fully-signed invariant).
   Sub-channel / virtual-channel interceptors are not part of this model (ledger channels only). *)
From V Require Export Model.Machine.
Open Scope N_scope.

Inductive pid := PA | PB.
Definition other (p : pid) : pid := match p with PA => PB | PB => PA end.
Definition pidx (p : pid) : N := match p with PA => 0 | PB => 1 end.
Definition pid_eqb (p q : pid) : bool :=
  match p, q with PA, PA | PB, PB => true | _, _ => false end.

(* ChannelUpdateMsg, ChannelUpdateAccMsg, ChannelUpdateRejMsg (the channel id is implicit: one channel) *)
Inductive msg :=
| MReq (from : pid) (s : state) (actor : N) (g : sigtok)
| MAcc (from : pid) (ver : N) (g : sigtok)
| MRej (from : pid) (ver : N).

(* return value of Channel.Update: nil, PeerRejectedError, any other error *)
Inductive result := RSuccess | RRejected | RError.

Inductive pc :=
| Idle                                          (* mutex free *)
(* Channel.Update / updateGeneric *)
| PStaged (s : state)                           (* machine.Update done *)
| PSigned (s : state) (g : sigtok)              (* machine.Sig done *)
| PWait (s : state)                             (* receiver subscribed, request sent, awaiting the response *)
| PAcc (s : state) (g : sigtok)                 (* ChannelUpdateAcc received *)
| PAdded (s : state)                            (* peer's signature added *)
| PFail (s : state) (r : result)                (* an error occurred after staging: checkUpdateError will discard *)
(* Channel.handleUpdateReq / acceptUpdate / rejectUpdate *)
| RGot (s : state) (actor : N) (g : sigtok)     (* handler goroutine owns the mutex *)
| RChecked (s : state) (actor : N) (g : sigtok) (* CheckUpdate and validTwoPartyUpdate passed, user handler runs *)
| RAccept (s : state) (actor : N) (g : sigtok)  (* user called Accept *)
| RReject (s : state)                           (* user called Reject *)
| RStaged (s : state) (g : sigtok)              (* machine.Update done *)
| RAdded (s : state)                            (* proposer's signature added *)
| RSigned (s : state) (g : sigtok)              (* machine.Sig done *)
| RSent (s : state)                             (* ChannelUpdateAcc sent, enable pending *)
| RFail                                         (* an error occurred after staging: acceptUpdate will discard *)
| Crashed.                                      (* a Go panic *)

Definition mutex_held (c : pc) : bool := match c with Idle => false | _ => true end.

Record party := mkParty { mc : mach; ctl : pc; flog : list state }.
Record sys := mkSys { pa : party; pb : party; net : list msg; done : list (pid * state * result) }.

Definition getp (s : sys) (p : pid) : party := match p with PA => pa s | PB => pb s end.
Definition setp (s : sys) (p : pid) (x : party) : sys :=
  match p with
  | PA => mkSys x (pb s) (net s) (done s)
  | PB => mkSys (pa s) x (net s) (done s)
  end.
Definition with_net (s : sys) (n : list msg) : sys := mkSys (pa s) (pb s) n (done s).
Definition with_done (s : sys) (d : list (pid * state * result)) : sys := mkSys (pa s) (pb s) (net s) d.

(* ghost: remember a staged transaction that just became fully signed *)
Definition note_full (m : mach) (l : list state) : list state :=
  match staging m with
  | Some t => if all_some (tx_sigs t) then tx_st t :: l else l
  | None => l
  end.

(* take the first message satisfying f out of the network *)
Fixpoint remove_first (f : msg -> bool) (l : list msg) : option (msg * list msg) :=
  match l with
  | [] => None
  | m :: r => if f m then Some (m, r)
              else match remove_first f r with
                   | Some (x, r') => Some (x, m :: r')
                   | None => None
                   end
  end.
Definition is_req_from (q : pid) (m : msg) : bool :=
  match m with MReq f _ _ _ => pid_eqb f q | _ => false end.
Definition is_acc_from (q : pid) (v : N) (m : msg) : bool :=
  match m with MAcc f v' _ => pid_eqb f q && (v' =? v) | _ => false end.
Definition is_rej_from (q : pid) (v : N) (m : msg) : bool :=
  match m with MRej f v' => pid_eqb f q && (v' =? v) | _ => false end.

(* enableNotifyUpdate: EnableFinal if the staged state is final, else EnableUpdate *)
Definition enable_op (m : mach) : op :=
  match staging m with
  | Some t => if st_final (tx_st t) then OEnableFinal else OEnableUpdate
  | None => OEnableUpdate          (* Go dereferences the nil staging state: enable_staged answers PANIC *)
  end.

(* client.validTwoPartyUpdate: actor = signer, sub-allocations unchanged *)
Definition two_party_ok (m : mach) (s : state) (actor signer : N) : out :=
  match current m with
  | None => PANIC
  | Some c => if (actor =? signer) && suballocs_equal (al_locked (st_alloc (tx_st c))) (al_locked (st_alloc s))
              then OK else ERR
  end.

(* control state after a machine operation with outcome o *)
Definition on_out (o : out) (ok err : pc) : pc :=
  match o with OK | OKSig _ => ok | ERR => err | PANIC => Crashed end.

Inductive label :=
| LStage (p : pid) (s : state)      (* Channel.Update: lock, validTwoPartyUpdateState, machine.Update succeed *)
| LStageBad (p : pid) (s : state)   (* Channel.Update: lock, the proposed state is refused, unlock, error returned *)
| LSign (p : pid)                   (* proposer: machine.Sig *)
| LSendReq (p : pid)                (* proposer: NewUpdateResRecv, conn.Send(ChannelUpdateMsg) *)
| LDeliver (p : pid)                (* handleUpdateReq takes the mutex for the peer's request *)
| LCheck (p : pid)                  (* machine.CheckUpdate, validTwoPartyUpdate; on error: log, unlock *)
| LDecide (p : pid) (accept : bool) (* the user handler calls Accept / Reject *)
| LRStage (p : pid)                 (* responder: machine.Update *)
| LRAddSig (p : pid)                (* responder: machine.AddSig(proposer's signature) *)
| LRSign (p : pid)                  (* responder: machine.Sig *)
| LRSendAcc (p : pid)               (* responder: conn.Send(ChannelUpdateAccMsg) *)
| LREnable (p : pid)                (* responder: enableNotifyUpdate, unlock *)
| LRSendRej (p : pid)               (* responder: conn.Send(ChannelUpdateRejMsg), unlock *)
| LRecvAcc (p : pid)                (* proposer: resRecv.Next returns the acceptance *)
| LRecvRej (p : pid)                (* proposer: resRecv.Next returns the rejection *)
| LPAddSig (p : pid)                (* proposer: machine.AddSig(peer's signature) *)
| LPEnable (p : pid)                (* proposer: enableNotifyUpdate, unlock, return nil *)
| LDiscard (p : pid).               (* checkUpdateError / acceptUpdate's deferred DiscardUpdate, unlock, return the error *)

Definition label_party (l : label) : pid :=
  match l with
  | LStage p _ | LStageBad p _ | LSign p | LSendReq p | LDeliver p | LCheck p | LDecide p _
  | LRStage p | LRAddSig p | LRSign p | LRSendAcc p | LREnable p | LRSendRej p
  | LRecvAcc p | LRecvRej p | LPAddSig p | LPEnable p | LDiscard p => p
  end.

(* the proposed state is accepted by the proposer's own checks *)
Definition stage_out (m : mach) (p : pid) (s : state) : mach * out :=
  match two_party_ok m s (pidx p) (pidx p) with
  | OK => step m (OUpdate s (pidx p))
  | r => (m, r)
  end.

(* machine of p replaced, control state replaced, ghost log extended if the staging tx became full *)
Definition upd (s : sys) (p : pid) (m : mach) (c : pc) : sys :=
  setp s p (mkParty m c (flog (getp s p))).
Definition upd_full (s : sys) (p : pid) (m : mach) (c : pc) : sys :=
  setp s p (mkParty m c (note_full m (flog (getp s p)))).
Definition finish (s : sys) (p : pid) (st : state) (r : result) : sys :=
  with_done s ((p, st, r) :: done s).

Definition lstep (s : sys) (l : label) : option sys :=
  let x := getp s (label_party l) in
  let m := mc x in
  match l with
  | LStage p st =>
      match ctl x with
      | Idle => match stage_out m p st with
                | (m', OK) => Some (upd s p m' (PStaged st))
                | _ => None
                end
      | _ => None
      end
  | LStageBad p st =>
      match ctl x with
      | Idle => match stage_out m p st with
                | (_, OK) => None
                | (m', o) => Some (finish (upd s p m' (on_out o Idle Idle)) p st RError)
                end
      | _ => None
      end
  | LSign p =>
      match ctl x with
      | PStaged st =>
          match step m OSig with
          | (m', OKSig g) => Some (upd_full s p m' (PSigned st g))
          | (m', o) => Some (upd s p m' (on_out o Crashed (PFail st RError)))
          end
      | _ => None
      end
  | LSendReq p =>
      match ctl x with
      | PSigned st g => Some (with_net (upd s p m (PWait st)) (MReq p st (pidx p) g :: net s))
      | _ => None
      end
  | LDeliver p =>
      match ctl x with
      | Idle => match remove_first (is_req_from (other p)) (net s) with
                | Some (MReq _ st a g, n') => Some (with_net (upd s p m (RGot st a g)) n')
                | _ => None
                end
      | _ => None
      end
  | LCheck p =>
      match ctl x with
      | RGot st a g =>
          match snd (step m (OCheckUpdate st a g (pidx (other p)))) with
          | OK => Some (upd s p m (on_out (two_party_ok m st a (pidx (other p))) (RChecked st a g) Idle))
          | o => Some (upd s p m (on_out o Idle Idle))
          end
      | _ => None
      end
  | LDecide p b =>
      match ctl x with
      | RChecked st a g => Some (upd s p m (if b then RAccept st a g else RReject st))
      | _ => None
      end
  | LRStage p =>
      match ctl x with
      | RAccept st a g =>
          let (m', o) := step m (OUpdate st a) in Some (upd s p m' (on_out o (RStaged st g) Idle))
      | _ => None
      end
  | LRAddSig p =>
      match ctl x with
      | RStaged st g =>
          let (m', o) := step m (OAddSig (pidx (other p)) g) in
          Some (upd_full s p m' (on_out o (RAdded st) RFail))
      | _ => None
      end
  | LRSign p =>
      match ctl x with
      | RAdded st =>
          match step m OSig with
          | (m', OKSig g) => Some (upd_full s p m' (RSigned st g))
          | (m', o) => Some (upd s p m' (on_out o Crashed RFail))
          end
      | _ => None
      end
  | LRSendAcc p =>
      match ctl x with
      | RSigned st g => Some (with_net (upd s p m (RSent st)) (MAcc p (st_ver st) g :: net s))
      | _ => None
      end
  | LREnable p =>
      match ctl x with
      | RSent st =>
          let (m', o) := step m (enable_op m) in Some (upd s p m' (on_out o Idle RFail))
      | _ => None
      end
  | LRSendRej p =>
      match ctl x with
      | RReject st => Some (with_net (upd s p m Idle) (MRej p (st_ver st) :: net s))
      | _ => None
      end
  | LRecvAcc p =>
      match ctl x with
      | PWait st => match remove_first (is_acc_from (other p) (st_ver st)) (net s) with
                    | Some (MAcc _ _ g, n') => Some (with_net (upd s p m (PAcc st g)) n')
                    | _ => None
                    end
      | _ => None
      end
  | LRecvRej p =>
      match ctl x with
      | PWait st => match remove_first (is_rej_from (other p) (st_ver st)) (net s) with
                    | Some (_, n') => Some (with_net (upd s p m (PFail st RRejected)) n')
                    | None => None
                    end
      | _ => None
      end
  | LPAddSig p =>
      match ctl x with
      | PAcc st g =>
          let (m', o) := step m (OAddSig (pidx (other p)) g) in
          Some (upd_full s p m' (on_out o (PAdded st) (PFail st RError)))
      | _ => None
      end
  | LPEnable p =>
      match ctl x with
      | PAdded st =>
          match step m (enable_op m) with
          | (m', OK) => Some (finish (upd s p m' Idle) p st RSuccess)
          | (m', o) => Some (upd s p m' (on_out o Crashed (PFail st RError)))
          end
      | _ => None
      end
  | LDiscard p =>
      match ctl x with
      | PFail st r => Some (finish (upd s p (fst (step m ODiscard)) Idle) p st r)
      | RFail => Some (upd s p (fst (step m ODiscard)) Idle)
      | _ => None
      end
  end.

(* all runs: every finite sequence of labels (every program of proposals from either side, every
   accept/reject decision, every interleaving) *)
Fixpoint lrun (s : sys) (ls : list label) : option sys :=
  match ls with
  | [] => Some s
  | l :: r => match lstep s l with Some s' => lrun s' r | None => None end
  end.

(* the state after the channel has been opened and funded: both machines in Acting with the same
   fully signed transaction *)
Definition init_party (P : mparams) (i : N) (t : tx) : party :=
  mkParty (mkMach Acting i P None (Some t)) Idle [tx_st t].
Definition init_sys (P : mparams) (t : tx) : sys :=
  mkSys (init_party P 0 t) (init_party P 1 t) [] [].

Definition cur_state (s : sys) (p : pid) : option state := option_map tx_st (current (mc (getp s p))).
Definition cur_ver (s : sys) (p : pid) : N :=
  match cur_state s p with Some c => st_ver c | None => 0 end.

(* several channels of the same pair of clients: independent instances (separate machines, mutexes,
   response relays); the bus is shared but messages carry the channel id *)
Definition msys := list sys.
Fixpoint mstep (ms : msys) (i : nat) (l : label) : option msys :=
  match ms, i with
  | [], _ => None
  | s :: r, O => match lstep s l with Some s' => Some (s' :: r) | None => None end
  | s :: r, S i' => match mstep r i' l with Some r' => Some (s :: r') | None => None end
  end.
Fixpoint mrun (ms : msys) (ls : list (nat * label)) : option msys :=
  match ls with
  | [] => Some ms
  | (i, l) :: r => match mstep ms i l with Some ms' => mrun ms' r | None => None end
  end.
