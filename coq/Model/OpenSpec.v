(* Declarative side of C08: what a proposal must satisfy to be shown to the user (the list of the
   property text), written without reference to the validation functions of Model/Open.v. *)
From V Require Export Model.Open.
Open Scope N_scope.

(* two address maps denote the same peer: same number of entries, every entry of a is an entry of b *)
Definition WireEq (a b : amap) : Prop :=
  length a = length b /\ forall k v, In (k, v) a -> amap_get k b = Some v.

(* a valid initial allocation for n participants without pre-locked funds: at least one and at most
   MaxNumAssets assets, one balance row per asset, n non-negative balances per row, nothing locked *)
Record GoodAlloc (a : alloc) (n : nat) : Prop := mkGoodAlloc {
  ga_assets : al_assets a <> [] /\ len (al_assets a) <= MaxNumAssets;
  ga_rows : length (al_bals a) = length (al_assets a);
  ga_row : Forall (fun r => length r = n /\ Forall (fun z => (0 <= z)%Z) r) (al_bals a);
  ga_nolock : al_locked a = [] }.

(* sub-channel: per asset and participant not more than the parent holds (same dimensions) *)
Definition Within (parent sub : list (list Z)) : Prop :=
  Forall2 (Forall2 (fun pb sb => (sb <= pb)%Z)) parent sub.

(* virtual channel: per asset, participant p of the virtual channel asks for not more than the
   participant im[p] of the parent channel holds *)
Definition VirtWithin (parent virt : list (list Z)) (im : list N) : Prop :=
  Forall2 (fun prow vrow => forall p q v, nth_error im p = Some q -> nth_error vrow p = Some v ->
                            exists w, nth_error prow (N.to_nat q) = Some w /\ (v <= w)%Z) parent virt.

Definition GoodProposal (ctx : octx) (sender : amap) (p : proposal) : Prop :=
  exists a n,
    pb_bals (base p) = Some a
    /\ pb_cd (base p) <> 0                                      (* challenge duration *)
    /\ pb_app (base p) <> ANil
    /\ (2 <= n)%nat /\ N.of_nat n <= MaxNumParts                (* at least two participants *)
    /\ GoodAlloc a n                                            (* valid, not pre-locked allocation *)
    /\ (exists s r, proposal_peers ctx p = Some [s; r] /\ length [s; r] = n
                    /\ WireEq s sender /\ WireEq r (cx_addr ctx))     (* peers = (sender, receiver) *)
    /\ match p with
       | PLedger _ part _ => part <> None
       | PSub _ parent =>
           exists c, find_chan ctx parent = Some c                            (* known parent *)
             /\ al_assets (ci_alloc c) = al_assets a /\ al_backends (ci_alloc c) = al_backends a
             /\ Within (al_bals (ci_alloc c)) (al_bals a)
       | PVirt b _ _ parents imaps =>
           length parents = n /\ length imaps = n                             (* one parent, one index map each *)
           /\ pb_fa b = al_bals a                                             (* funding agreement = balances *)
           /\ exists pid c im,
                nth_error parents 1 = Some pid /\ find_chan ctx pid = Some c  (* known parent of the receiver *)
                /\ al_assets (ci_alloc c) = al_assets a /\ al_backends (ci_alloc c) = al_backends a
                /\ nth_error imaps 1 = Some im
                /\ length im = n /\ Forall (fun q => (N.to_nat q < n)%nat) im /\ NoDup im
                /\ VirtWithin (al_bals (ci_alloc c)) (al_bals a) im
       end.

(* what a client maintains about its registered channels: their states have at least two
   participant columns (channels are opened for >= 2 participants and C02 keeps the dimension) *)
Definition ctx_ok (ctx : octx) : bool :=
  forallb (fun c => match num_peers (ci_alloc c) with Some n => 2 <=? n | None => false end) (cx_chans ctx).

(* the parent of a sub-channel proposal is the same channel on both sides *)
Definition same_parent (ctxP ctxR : octx) (p : proposal) : Prop :=
  match p with
  | PSub _ parent => forall cP cR, find_chan ctxP parent = Some cP -> find_chan ctxR parent = Some cR ->
                                   ci_parts cP = ci_parts cR
  | _ => True
  end.

(* a parent found when the proposal arrived is still registered when its mutex is obtained *)
Definition parent_stays (ctx0 ctx1 : octx) (p : proposal) : Prop :=
  match p with
  | PSub _ parent => find_chan ctx0 parent <> None -> find_chan ctx1 parent <> None
  | _ => True
  end.
