(* Channel opening: client/proposal.go (handleChannelProposal, prepareChannelOpening, proposalParent,
   validTwoPartyProposal, validSubChannelProposal, validVirtualChannelProposal, validChannelProposalAcc,
   completeCPP, mpcppParts, calcNonce), client/proposalmsgs.go (BaseChannelProposal.Valid, NumPeers,
   LedgerChannelProposalMsg.Valid, proposalPeers, Matches), client/virtual_channel_util.go
   (transformBalances), client/channel.go (init, initExchangeSigsAndEnable).  Definitions only.

   The model follows the code line by line.  The five places where the code was repaired are switches
   of a `fixes` record: `repaired` (all on) is the code as it is now, `original` (all off) the code as
   it was; the property theorems are about `repaired`, the `_refuted` witnesses turn one switch off. *)
From V Require Export Model.Msgs Model.Machine.
Open Scope N_scope.

Inductive outcome := Dropped | HandlerCalled | Panic.

Record fixes := mkFixes {
  fx_fa : bool;           (* unequal funding agreement: errors.New instead of errors.WithMessage(nil, ..) *)
  fx_parent_idx : bool;   (* proposalParent: bounds check before Parents[partIdx] *)
  fx_valid_order : bool;  (* BaseChannelProposal.Valid: InitBals.Valid() before NumPeers() *)
  fx_imap_len : bool;     (* validVirtualChannelProposal: len(indexMap) == numPeers *)
  fx_imap_dup : bool }.   (* validVirtualChannelProposal: no duplicate index map entries *)
Definition repaired : fixes := mkFixes true true true true true.
Definition original : fixes := mkFixes false false false false false.

(* ---------- proposals as they are in memory ---------- *)
(* App: a nil interface, NoApp, or an app with a definition.  InitBals is a pointer (None = nil),
   the ledger proposal's Participant a map (None = nil map).  A decoder never produces the nil forms. *)
Inductive papp := ANil | ANoApp | ADef (d : bytes).
Record pbase := mkPB {
  pb_id : bytes; pb_cd : N; pb_nonce : bytes; pb_app : papp; pb_data : bytes;
  pb_bals : option alloc; pb_fa : list (list Z); pb_aux : bytes }.
Inductive proposal :=
| PLedger (b : pbase) (part : option amap) (peers : list amap)
| PSub (b : pbase) (parent : bytes)
| PVirt (b : pbase) (proposer : amap) (peers : list amap) (parents : list bytes) (imaps : list (list N)).
Definition base (p : proposal) : pbase :=
  match p with PLedger b _ _ | PSub b _ | PVirt b _ _ _ _ => b end.

Inductive accept :=
| ALedger (pid nonce : bytes) (part : amap)
| ASub (pid nonce : bytes)
| AVirt (pid nonce : bytes) (resp : amap).
Definition acc_pid (a : accept) : bytes := match a with ALedger p _ _ | ASub p _ | AVirt p _ _ => p end.
Definition acc_nonce (a : accept) : bytes := match a with ALedger _ n _ | ASub _ n | AVirt _ n _ => n end.

(* what the wire decoders deliver *)
Definition papp_of (a : option bytes) : papp := match a with None => ANoApp | Some d => ADef d end.
Definition pbase_of (b : baseprop) : pbase :=
  mkPB (bp_id b) (bp_cd b) (bp_nonce b) (papp_of (bp_app b)) (bp_data b) (Some (bp_bals b)) (bp_fa b) (bp_aux b).
Definition proposal_of_msg (m : msg) : option proposal :=
  match m with
  | MLedgerProp b part peers => Some (PLedger (pbase_of b) (Some part) peers)
  | MSubProp b parent => Some (PSub (pbase_of b) parent)
  | MVirtProp b pr peers parents imaps => Some (PVirt (pbase_of b) pr peers parents imaps)
  | _ => None
  end.
Definition accept_of_msg (m : msg) : option accept :=
  match m with
  | MLedgerAcc pid n part => Some (ALedger pid n part)
  | MSubAcc pid n => Some (ASub pid n)
  | MVirtAcc pid n r => Some (AVirt pid n r)
  | _ => None
  end.

(* ---------- the receiver's situation ---------- *)
(* one registered channel: Params().ID(), Params().Parts, Peers(), Idx(), the allocation of state() *)
Record chaninfo := mkCI { ci_id : bytes; ci_parts : list amap; ci_peers : list amap; ci_idx : N; ci_alloc : alloc }.
(* own wire address, the addresses the wallet can unlock, the channel registry *)
Record octx := mkCtx { cx_addr : amap; cx_wallet : list bytes; cx_chans : list chaninfo }.
Definition find_chan (ctx : octx) (id : bytes) : option chaninfo :=
  find (fun c => bytes_eqb (ci_id c) id) (cx_chans ctx).

(* Go map lookup *)
Definition amap_get (k : Z) (m : amap) : option bytes :=
  option_map snd (find (fun e => (fst e =? k)%Z) m).
(* channel.EqualWireMaps: same size, every entry of a found in b (Equal(nil) is false) *)
Definition equal_wire_maps (a b : amap) : bool :=
  (length a =? length b)%nat
  && forallb (fun e => match amap_get (fst e) b with Some v => bytes_eqb (snd e) v | None => false end) a.

Inductive vres := VOk | VErr | VPanic.

(* ---------- proposalParent ---------- *)
Inductive pres := PPanic | PErr | PNone | PSome (c : chaninfo).
Definition proposal_parent (fx : fixes) (ctx : octx) (p : proposal) (idx : nat) : pres :=
  match p with
  | PLedger _ _ _ => PNone
  | PSub _ parent => match find_chan ctx parent with Some c => PSome c | None => PErr end
  | PVirt _ _ _ parents _ =>
      match nth_error parents idx with
      | None => if fx_parent_idx fx then PErr else PPanic      (* &prop.Parents[partIdx] *)
      | Some id => match find_chan ctx id with Some c => PSome c | None => PErr end
      end
  end.

(* ---------- BaseChannelProposal.Valid ---------- *)
(* NumPeers(): len(InitBals.Balances[0]) *)
Definition num_peers (a : alloc) : option N :=
  match al_bals a with [] => None | r :: _ => Some (len r) end.
(* channel.ValidateProposalParameters; every registered app is a StateApp *)
Definition validate_proposal_parameters (cd np : N) (app : papp) : bool :=
  negb (cd =? 0) && (MinNumParts <=? np) && (np <=? MaxNumParts)
  && match app with ANil => false | _ => true end.
Definition no_locked (a : alloc) : bool := match al_locked a with [] => true | _ => false end.
Definition base_valid (fx : fixes) (b : pbase) : vres :=
  match pb_bals b with
  | None => VErr
  | Some a =>
      if fx_valid_order fx then
        if negb (alloc_valid a) then VErr else
        match num_peers a with
        | None => VPanic
        | Some np =>
            if negb (validate_proposal_parameters (pb_cd b) np (pb_app b)) then VErr
            else if negb (no_locked a) then VErr else VOk
        end
      else
        match num_peers a with
        | None => VPanic                                        (* Balances[0] of an empty list *)
        | Some np =>
            if negb (validate_proposal_parameters (pb_cd b) np (pb_app b)) then VErr
            else if negb (alloc_valid a) then VErr
            else if negb (no_locked a) then VErr else VOk
        end
  end.
(* proposal.Valid(): the ledger proposal also refuses a nil participant *)
Definition proposal_valid (fx : fixes) (p : proposal) : vres :=
  match base_valid fx (base p) with
  | VOk => match p with PLedger _ None _ => VErr | _ => VOk end
  | r => r
  end.

(* ---------- proposalPeers ---------- *)
Definition proposal_peers (ctx : octx) (p : proposal) : option (list amap) :=
  match p with
  | PLedger _ _ peers => Some peers
  | PSub _ parent => option_map ci_peers (find_chan ctx parent)     (* None: log.Panic *)
  | PVirt _ _ peers _ _ => Some peers
  end.

(* ---------- sub-channel and virtual channel checks ---------- *)
(* Balances.AssertGreaterOrEqual: same dimensions, b[i][j] >= bals[i][j] *)
Definition row_ge (b bals : list Z) : bool := list_eqb (fun x y => (y <=? x)%Z) b bals.
Definition bals_ge (b bals : list (list Z)) : bool := list_eqb row_ge b bals.

Definition valid_sub (ctx : octx) (a : alloc) (parent : bytes) : vres :=
  match find_chan ctx parent with
  | None => VErr
  | Some c =>
      let ps := ci_alloc c in
      if negb (nlist_eqb (al_assets ps) (al_assets a)) then VErr
      else if negb (nlist_eqb (al_backends ps) (al_backends a)) then VErr
      else if negb (bals_ge (al_bals ps) (al_bals a)) then VErr
      else VOk
  end.

(* transformBalances: one row; `_b[a][_p] = b[a][p]` for p, _p := range indexMap *)
Fixpoint fill (row : list Z) (im : list N) (p : nat) (acc : list Z) : option (list Z) :=
  match im with
  | [] => Some acc
  | q :: r =>
      match nth_error row p with
      | None => None                                            (* b[a][p] out of range *)
      | Some v =>
          if (N.to_nat q <? length acc)%nat then fill row r (S p) (set_nth (N.to_nat q) v acc)
          else None                                             (* _b[a][_p] out of range *)
      end
  end.
Definition transform_row (num_parts : nat) (im : list N) (row : list Z) : option (list Z) :=
  fill row im 0 (repeat 0%Z num_parts).
Fixpoint map_opt {A B} (f : A -> option B) (l : list A) : option (list B) :=
  match l with
  | [] => Some []
  | x :: r => match f x, map_opt f r with Some y, Some ys => Some (y :: ys) | _, _ => None end
  end.
Definition transform_balances (b : list (list Z)) (num_parts : nat) (im : list N) : option (list (list Z)) :=
  map_opt (transform_row num_parts im) b.

Fixpoint has_dup (l : list N) : bool :=
  match l with [] => false | x :: r => existsb (N.eqb x) r || has_dup r end.

Definition valid_virt (fx : fixes) (ctx : octx) (b : pbase) (a : alloc)
    (parents : list bytes) (imaps : list (list N)) (our_idx : nat) : vres :=
  match num_peers a with
  | None => VPanic
  | Some np =>
  if negb (len parents =? np) then VErr else
  match nth_error parents our_idx with
  | None => VPanic
  | Some pid =>
  match find_chan ctx pid with
  | None => VErr
  | Some c =>
      let ps := ci_alloc c in
      if negb (nlist_eqb (al_assets ps) (al_assets a)) then VErr
      else if negb (nlist_eqb (al_backends ps) (al_backends a)) then VErr
      else if negb (balances_equal (al_bals a) (pb_fa b)) then
        (if fx_fa fx then VErr else VOk)                        (* errors.WithMessage(nil, ..) = nil *)
      else if negb (len imaps =? np) then VErr
      else
      match nth_error imaps our_idx with
      | None => VPanic
      | Some im =>
          if fx_imap_len fx && negb (len im =? np) then VErr
          else if existsb (fun q => np <=? q) im then VErr
          else if fx_imap_dup fx && has_dup im then VErr
          else
          match num_peers ps with
          | None => VPanic                                      (* parentState.NumParts() *)
          | Some nparts =>
              match transform_balances (al_bals a) (N.to_nat nparts) im with
              | None => VPanic
              | Some vb => if bals_ge (al_bals ps) vb then VOk else VErr
              end
          end
      end
  end end end.

(* ---------- validTwoPartyProposal ---------- *)
(* multi.IsMultiLedgerAssets: sim assets are not multi-ledger assets, the check never fires *)
Definition valid_two_party (fx : fixes) (ctx : octx) (p : proposal) (our_idx : nat) (peer : amap) : vres :=
  match proposal_valid fx p with
  | VOk =>
      match pb_bals (base p) with
      | None => VPanic                                          (* unreachable after Valid *)
      | Some a =>
      match proposal_peers ctx p with
      | None => VPanic
      | Some peers =>
      match num_peers a with
      | None => VPanic
      | Some np =>
          if negb (np =? len peers) then VErr
          else if negb (len peers =? 2) then VErr
          else if negb ((our_idx =? 0)%nat || (our_idx =? 1)%nat) then VErr
          else
          match nth_error peers (1 - our_idx), nth_error peers our_idx with
          | Some pp, Some po =>
              if negb (equal_wire_maps pp peer) then VErr
              else if negb (equal_wire_maps po (cx_addr ctx)) then VErr
              else
              match p with
              | PLedger _ _ _ => VOk
              | PSub _ parent => valid_sub ctx a parent
              | PVirt b _ _ parents imaps => valid_virt fx ctx b a parents imaps our_idx
              end
          | _, _ => VPanic
          end
      end end end
  | r => r
  end.

(* ---------- handleChannelProposal ---------- *)
(* prepareChannelOpening (proposalParent with our index 1, lock the parent), validTwoPartyProposal,
   then the user's handler; cleanupChannelOpening unlocks the parent on every path *)
Definition handle_proposal_gen (fx : fixes) (ctx : octx) (sender : amap) (p : proposal) : outcome :=
  match proposal_parent fx ctx p 1 with
  | PPanic => Panic
  | PErr => Dropped
  | _ =>
      match valid_two_party fx ctx p 1 sender with
      | VOk => HandlerCalled
      | VErr => Dropped
      | VPanic => Panic
      end
  end.
Definition handle_proposal : octx -> amap -> proposal -> outcome := handle_proposal_gen repaired.

(* handleChannelProposal in time.  ctx0 is the receiver's situation when the message arrives:
   proposalParent (inside prepareChannelOpening) looks the parent up, then the goroutine waits for the
   parent's machine mutex (an update in flight holds it).  ctx1 is the situation when the mutex has
   been obtained: validTwoPartyProposal reads the parent's state under the lock, and the handler
   runs before the lock is released.  `handle_proposal ctx` is the case ctx0 = ctx1 = ctx. *)
Definition handle_proposal_locked (fx : fixes) (ctx0 ctx1 : octx) (sender : amap) (p : proposal) : outcome :=
  match proposal_parent fx ctx0 p 1 with
  | PPanic => Panic
  | PErr => Dropped
  | _ =>
      match valid_two_party fx ctx1 p 1 sender with
      | VOk => HandlerCalled
      | VErr => Dropped
      | VPanic => Panic
      end
  end.
(* a variant that validates on arrival, before the lock is obtained (not what the code does) *)
Definition handle_proposal_early (fx : fixes) (ctx0 ctx1 : octx) (sender : amap) (p : proposal) : outcome :=
  handle_proposal_gen fx ctx0 sender p.

(* ---------- validChannelProposalAcc ---------- *)
Definition matches (p : proposal) (a : accept) : bool :=
  match p, a with
  | PLedger _ _ _, ALedger _ _ _ | PSub _ _, ASub _ _ | PVirt _ _ _ _ _, AVirt _ _ _ => true
  | _, _ => false
  end.
Definition valid_acc (p : proposal) (a : accept) : bool :=
  matches p a && bytes_eqb (pb_id (base p)) (acc_pid a).

(* ---------- completeCPP ---------- *)
Inductive cres (A : Type) := COk (a : A) | CErr | CPanic.
Arguments COk {A} a. Arguments CErr {A}. Arguments CPanic {A}.

(* channel parameters with the nonce as its hash pre-image *)
Record cparams := mkCP {
  cp_cd : N; cp_parts : list amap; cp_app : option bytes; cp_nonce_pre : bytes;
  cp_ledger : bool; cp_virtual : bool; cp_aux : bytes }.

(* calcNonce hashes share_proposer ++ share_responder *)
Definition nonce_preimage (share_proposer share_responder : bytes) : bytes := share_proposer ++ share_responder.

(* mpcppParts *)
Definition mpcpp_parts (ctx : octx) (p : proposal) (a : accept) : cres (list amap) :=
  match p, a with
  | PLedger _ part _, ALedger _ _ part' => COk [match part with Some m => m | None => [] end; part']
  | PSub _ parent, _ => match find_chan ctx parent with Some c => COk (ci_parts c) | None => CPanic end
  | PVirt _ proposer _ _ _, AVirt _ _ resp => COk [proposer; resp]
  | _, _ => CPanic                                              (* log.Panicf: unexpected message type *)
  end.

Definition is_ledger (p : proposal) : bool := match p with PLedger _ _ _ => true | _ => false end.
Definition is_virtual (p : proposal) : bool := match p with PVirt _ _ _ _ _ => true | _ => false end.
Definition is_sub (p : proposal) : bool := match p with PSub _ _ => true | _ => false end.

(* wallet.IndexOfAddrs: the first participant sharing an address with ours *)
Definition shares_addr (own part : amap) : bool :=
  existsb (fun e => match amap_get (fst e) own with Some v => bytes_eqb (snd e) v | None => false end) part.
Fixpoint index_of_addrs (parts : list amap) (own : amap) (i : N) : option N :=
  match parts with
  | [] => None
  | m :: r => if shares_addr own m then Some i else index_of_addrs r own (i + 1)
  end.

Section Hashes.
(* SHA3-256 of the nonce pre-image as a big-endian integer, SHA-256 of the ID pre-image, the key
   token of a participant address (ideal signatures), the registered apps.  Nothing is assumed about
   them in this file. *)
Variable hnonce : bytes -> Z.
Variable hid : bytes -> bytes.
Variable tok : amap -> N.
Variable rs : resolver.

Definition params_of (c : cparams) : params :=
  mkParams (cp_cd c) (cp_parts c) (cp_app c) (hnonce (cp_nonce_pre c)) (cp_ledger c) (cp_virtual c) (cp_aux c).
Definition chan_id_preimage (c : cparams) : bytes := id_preimage (params_of c).
Definition chan_id (c : cparams) : bytes := hid (chan_id_preimage c).

(* what completeCPP has built when it reaches ch.init *)
Record setup := mkSetup {
  s_params : cparams; s_id : bytes; s_me : N; s_peers : list amap;
  s_parent : option bytes; s_mach : mach }.

Definition mparams_of (c : cparams) : mparams :=
  mkMP (chan_id c) (map tok (cp_parts c)) (cp_app c)
       (match cp_app c with None => None | Some d => rs d end).

Definition complete_cpp (fx : fixes) (ctx : octx) (p : proposal) (a : accept) (part_idx : nat) : cres setup :=
  let b := base p in
  match mpcpp_parts ctx p a with
  | CPanic => CPanic | CErr => CErr
  | COk parts =>
  match pb_app b with
  | ANil => CPanic                                              (* CalcID encodes a nil App *)
  | app =>
      let c := mkCP (pb_cd b) parts (match app with ADef d => Some d | _ => None end)
                    (nonce_preimage (pb_nonce b) (acc_nonce a)) (is_ledger p) (is_virtual p) (pb_aux b) in
      if existsb (fun ch => bytes_eqb (ci_id ch) (chan_id c)) (cx_chans ctx) then CErr   (* channel already exists *)
      else
      match nth_error parts part_idx with
      | None => CPanic                                          (* params.Parts[partIdx] *)
      | Some own =>
      match amap_get 0 own with
      | None => CPanic                                          (* Unlock(nil) *)
      | Some addr =>
          if negb (existsb (bytes_eqb addr) (cx_wallet ctx)) then CErr        (* unlocking account *)
          else
          match proposal_parent fx ctx p part_idx with
          | PPanic => CPanic
          | PErr => CErr
          | par =>
              match proposal_peers ctx p with
              | None => CPanic
              | Some peers =>
                  match cp_app c, mparams_of c with
                  | Some _, mkMP _ _ _ None => CErr             (* app must be StateApp *)
                  | _, mp =>
                      match index_of_addrs parts own 0 with
                      | None => CErr                            (* account not part of participant set *)
                      | Some me =>
                          COk (mkSetup c (chan_id c) me peers
                                 (match par with PSome ch => Some (ci_id ch) | _ => None end)
                                 (new_machine mp me))
                      end
                  end
              end
          end
      end end
  end end.

(* ch.init + the first half of initExchangeSigsAndEnable: Init, Sig *)
Definition local_init (s : setup) (a : alloc) (d : bytes) : cres (mach * sigtok) :=
  match step (s_mach s) (OInit a d) with
  | (m1, OK) =>
      match step m1 OSig with
      | (m2, OKSig sg) => COk (m2, sg)
      | (_, PANIC) => CPanic
      | _ => CErr
      end
  | (_, PANIC) => CPanic
  | _ => CErr
  end.
(* the second half: AddSig(pidx, peer's signature), EnableInit *)
Definition finish_init (m : mach) (pidx : N) (sg : sigtok) : cres mach :=
  match step m (OAddSig pidx sg) with
  | (m3, OK) =>
      match step m3 OEnableInit with
      | (m4, OK) => COk m4
      | (_, PANIC) => CPanic
      | _ => CErr
      end
  | (_, PANIC) => CPanic
  | _ => CErr
  end.

(* both sides of one opening: the proposer (index 0, registry ctxP) and the responder (index 1,
   registry ctxR) complete the protocol from the same (proposal, accept) and exchange signatures *)
Definition open_both (fx : fixes) (ctxP ctxR : octx) (p : proposal) (a : accept) : cres (setup * mach * (setup * mach)) :=
  match pb_bals (base p) with
  | None => CPanic                                              (* *initBals of a nil pointer *)
  | Some al =>
  match complete_cpp fx ctxP p a 0, complete_cpp fx ctxR p a 1 with
  | COk sP, COk sR =>
      match local_init sP al (pb_data (base p)), local_init sR al (pb_data (base p)) with
      | COk (mP, sgP), COk (mR, sgR) =>
          match finish_init mP 1 sgR, finish_init mR 0 sgP with
          | COk mP', COk mR' => COk (sP, mP', (sR, mR'))
          | CPanic, _ | _, CPanic => CPanic
          | _, _ => CErr
          end
      | CPanic, _ | _, CPanic => CPanic
      | _, _ => CErr
      end
  | CPanic, _ | _, CPanic => CPanic
  | _, _ => CErr
  end end.

(* the initial state both machines are meant to hold *)
Definition init_state (c : cparams) (al : alloc) (d : bytes) : state :=
  mkState (chan_id c) 0 al (cp_app c) d false.

End Hashes.
