(* C19 — proofs about Model/Heap.v: the generic deep copy, independence of deep copies under arbitrary
   interleaved writes, soundness of the decidable check, and that every code-shaped Clone is deep. *)
From Coq Require Import Arith PeanoNat ZifyN ZifyNat ZifyBool.
From V Require Import Model.Heap.
Local Open Scope nat_scope.

(* ---------------------------------------------------------------- induction over trees *)
Section GvInd.
  Variable P : gv -> Prop.
  Hypothesis HNil : P GNil.
  Hypothesis HNum : forall z, P (GNum z).
  Hypothesis HLit : forall b, P (GLit b).
  Hypothesis HShared : forall i, P (GShared i).
  Hypothesis HInt : forall l z, P (GInt l z).
  Hypothesis HBytes : forall l b, P (GBytes l b).
  Hypothesis HPtr : forall l v, P v -> P (GPtr l v).
  Hypothesis HSlice : forall l xs, Forall P xs -> P (GSlice l xs).
  Hypothesis HMap : forall l ks vs, Forall P vs -> P (GMap l ks vs).
  Hypothesis HStruct : forall fs, Forall P fs -> P (GStruct fs).
  Fixpoint gv_ind' (v : gv) : P v :=
    let fix go (xs : list gv) : Forall P xs :=
      match xs with
      | [] => Forall_nil P
      | x :: r => Forall_cons x (gv_ind' x) (go r)
      end in
    match v with
    | GNil => HNil
    | GNum z => HNum z
    | GLit b => HLit b
    | GShared i => HShared i
    | GInt l z => HInt l z
    | GBytes l b => HBytes l b
    | GPtr l x => HPtr l x (gv_ind' x)
    | GSlice l xs => HSlice l xs (go xs)
    | GMap l ks vs => HMap l ks vs (go vs)
    | GStruct fs => HStruct fs (go fs)
    end.
End GvInd.

(* ---------------------------------------------------------------- erase congruences *)
Lemma erase_slice_congr l l' xs xs' :
  map erase xs' = map erase xs -> erase (GSlice l' xs') = erase (GSlice l xs).
Proof.
  intro H. destruct xs as [|x xs], xs' as [|y ys]; cbn [erase]; try discriminate; [reflexivity|].
  cbn [map] in *. congruence.
Qed.
Lemma erase_map_congr l l' ks vs vs' :
  map erase vs' = map erase vs -> erase (GMap l' ks vs') = erase (GMap l ks vs).
Proof.
  intro H. destruct vs as [|x xs], vs' as [|y ys]; cbn [erase]; try discriminate; [reflexivity|].
  cbn [map] in *. congruence.
Qed.
Lemma erase_nil_empty_slice l : erase (GSlice l []) = erase GNil.
Proof. reflexivity. Qed.

(* ---------------------------------------------------------------- the generic clone *)
Definition cspec (x : gv) : Prop := forall n,
  erase (fst (clone x n)) = erase x /\
  locs (fst (clone x n)) = seq n (snd (clone x n) - n) /\ n <= snd (clone x n).

Lemma mapS_clone_spec xs : Forall cspec xs -> forall n,
  map erase (fst (mapS clone xs n)) = map erase xs /\
  flat_map locs (fst (mapS clone xs n)) = seq n (snd (mapS clone xs n) - n) /\
  n <= snd (mapS clone xs n).
Proof.
  induction 1 as [|x r Hx _ IH]; intro n.
  - cbn [mapS fst snd map flat_map]. rewrite Nat.sub_diag. cbn [seq]. auto.
  - cbn [mapS]. destruct (Hx n) as (E1 & L1 & M1).
    destruct (clone x n) as [y s1] eqn:C. cbn [fst snd] in *.
    destruct (IH s1) as (E2 & L2 & M2).
    destruct (mapS clone r s1) as [ys s2] eqn:C2. cbn [fst snd map flat_map] in *.
    split; [congruence|]. split; [|lia].
    rewrite L1, L2.
    replace (s2 - n) with ((s1 - n) + (s2 - s1)) by lia.
    rewrite seq_app. replace (n + (s1 - n)) with s1 by lia. reflexivity.
Qed.

Lemma clone_spec : forall v, cspec v.
Proof.
  induction v using gv_ind'; intro n; cbn [clone].
  1-4: cbn [fst snd erase locs]; rewrite Nat.sub_diag; cbn [seq]; auto.
  - cbn [fst snd erase locs]. replace (S n - n) with 1 by lia. cbn [seq]. auto.
  - cbn [fst snd erase locs]. replace (S n - n) with 1 by lia. cbn [seq]. auto.
  - destruct (IHv (S n)) as (E & L & M). destruct (clone v (S n)) as [x' m]. cbn [fst snd erase locs] in *.
    split; [congruence|]. split; [|lia].
    rewrite L. replace (m - n) with (S (m - S n)) by lia. reflexivity.
  - destruct (mapS_clone_spec xs H (S n)) as (E & L & M).
    destruct (mapS clone xs (S n)) as [xs' m]. cbn [fst snd locs] in *.
    split; [apply erase_slice_congr; exact E|]. split; [|lia].
    rewrite L. replace (m - n) with (S (m - S n)) by lia. reflexivity.
  - destruct (mapS_clone_spec vs H (S n)) as (E & L & M).
    destruct (mapS clone vs (S n)) as [vs' m]. cbn [fst snd locs] in *.
    split; [apply erase_map_congr; exact E|]. split; [|lia].
    rewrite L. replace (m - n) with (S (m - S n)) by lia. reflexivity.
  - destruct (mapS_clone_spec fs H n) as (E & L & M).
    destruct (mapS clone fs n) as [fs' m]. cbn [fst snd locs erase] in *.
    split; [congruence|]. split; [exact L|lia].
Qed.

Lemma clone_erase v n : erase (fst (clone v n)) = erase v.
Proof. apply clone_spec. Qed.

Lemma clone_locs_seq v n : locs (fst (clone v n)) = seq n (snd (clone v n) - n).
Proof. apply clone_spec. Qed.

Lemma clone_mono v n : n <= snd (clone v n).
Proof. apply clone_spec. Qed.

Lemma clone_deep v n : deep v (fst (clone v n)) n (snd (clone v n)).
Proof.
  split; [apply clone_erase|]. unfold fr. rewrite clone_locs_seq. pose proof (clone_mono v n).
  split; [apply seq_NoDup|]. split; [|assumption].
  intros l Hl. apply in_seq in Hl. lia.
Qed.

(* ---------------------------------------------------------------- deep copies are disjoint *)
Lemma deep_disjoint v v' n n' : deep v v' n n' -> below v n ->
  forall l, In l (locs v') -> ~ In l (locs v).
Proof.
  intros (_ & _ & R & _) B l Hl Hv. apply R in Hl. apply B in Hv. lia.
Qed.

Lemma clone_disjoint v n : below v n -> forall l, In l (locs (fst (clone v n))) -> ~ In l (locs v).
Proof. intro B. exact (deep_disjoint _ _ _ _ (clone_deep v n) B). Qed.

(* ---------------------------------------------------------------- writes *)
Lemma map_id_Forall {A} (f : A -> A) xs : Forall (fun x => f x = x) xs -> map f xs = xs.
Proof. induction 1; cbn [map]; congruence. Qed.

Lemma write_notin l w : forall v, ~ In l (locs v) -> write l w v = v.
Proof.
  induction v using gv_ind'; intro N; cbn [write locs] in *; try reflexivity.
  - destruct (Nat.eqb_spec l0 l); [exfalso; apply N; left; assumption|reflexivity].
  - destruct (Nat.eqb_spec l0 l); [exfalso; apply N; left; assumption|reflexivity].
  - destruct (Nat.eqb_spec l0 l); [exfalso; apply N; left; assumption|].
    rewrite IHv; [reflexivity|]. intro K; apply N; right; exact K.
  - destruct (Nat.eqb_spec l0 l); [exfalso; apply N; left; assumption|].
    f_equal. apply map_id_Forall. rewrite Forall_forall in *. intros x Hx. apply H; [exact Hx|].
    intro K. apply N. right. apply in_flat_map. eauto.
  - destruct (Nat.eqb_spec l0 l); [exfalso; apply N; left; assumption|].
    f_equal. apply map_id_Forall. rewrite Forall_forall in *. intros x Hx. apply H; [exact Hx|].
    intro K. apply N. right. apply in_flat_map. eauto.
  - f_equal. apply map_id_Forall. rewrite Forall_forall in *. intros x Hx. apply H; [exact Hx|].
    intro K. apply N. apply in_flat_map. eauto.
Qed.

Lemma locs_write_list l w xs :
  Forall (fun v => forall x, In x (locs (write l w v)) -> In x (locs v) \/ In x (locs w)) xs ->
  forall x, In x (flat_map locs (map (write l w) xs)) -> In x (flat_map locs xs) \/ In x (locs w).
Proof.
  intros F x Hx. apply in_flat_map in Hx as (y & Hy & Hxy). apply in_map_iff in Hy as (z & <- & Hz).
  rewrite Forall_forall in F. destruct (F z Hz x Hxy) as [K|K]; [left|right; exact K].
  apply in_flat_map. eauto.
Qed.

Lemma locs_write l w : forall v x, In x (locs (write l w v)) -> In x (locs v) \/ In x (locs w).
Proof.
  induction v using gv_ind'; intros x Hx; cbn [write locs] in *; auto.
  - destruct (l0 =? l); auto.
  - destruct (l0 =? l); auto.
  - destruct (l0 =? l); auto. cbn [locs] in Hx. destruct Hx as [Hx|Hx]; [left; left; exact Hx|].
    destruct (IHv x Hx); auto. left; right; assumption.
  - destruct (l0 =? l); auto. cbn [locs] in Hx. destruct Hx as [Hx|Hx]; [left; left; exact Hx|].
    destruct (locs_write_list l w xs H x Hx); auto. left; right; assumption.
  - destruct (l0 =? l); auto. cbn [locs] in Hx. destruct Hx as [Hx|Hx]; [left; left; exact Hx|].
    destruct (locs_write_list l w vs H x Hx); auto. left; right; assumption.
  - apply (locs_write_list l w fs H x Hx).
Qed.

(* ---------------------------------------------------------------- non-interference *)
Definition disjoint (a b : gv) : Prop := forall x, In x (locs a) -> ~ In x (locs b).

Theorem independent_views : forall ws lim a b,
  disjoint a b -> below a lim -> below b lim -> legal lim a b ws ->
  run2 a b ws = (own_writes SideL ws a, own_writes SideR ws b).
Proof.
  induction ws as [|[[[s l] w] lim'] r IH]; intros lim a b D Ba Bb L; [reflexivity|].
  cbn [legal] in L. destruct L as (Hl & Hle & Hw & L). cbn [run2 own_writes].
  destruct s.
  - assert (Eb : write l w b = b) by (apply write_notin; apply D; exact Hl).
    rewrite Eb in *. apply (IH lim'); [| | |exact L].
    + intros x Hx Hb. apply locs_write in Hx as [Hx|Hx]; [exact (D x Hx Hb)|].
      destruct (Hw x Hx) as [K|K]; [exact (D x K Hb)|]. apply Bb in Hb. lia.
    + intros x Hx. apply locs_write in Hx as [Hx|Hx]; [apply Ba in Hx; lia|].
      destruct (Hw x Hx) as [K|K]; [apply Ba in K; lia|lia].
    + intros x Hx. apply Bb in Hx. lia.
  - assert (Ea : write l w a = a) by (apply write_notin; intro K; exact (D l K Hl)).
    rewrite Ea in *. apply (IH lim'); [| | |exact L].
    + intros x Ha Hx. apply locs_write in Hx as [Hx|Hx]; [exact (D x Ha Hx)|].
      destruct (Hw x Hx) as [K|K]; [exact (D x Ha K)|]. apply Ba in Ha. lia.
    + intros x Hx. apply Ba in Hx. lia.
    + intros x Hx. apply locs_write in Hx as [Hx|Hx]; [apply Bb in Hx; lia|].
      destruct (Hw x Hx) as [K|K]; [apply Bb in K; lia|lia].
Qed.

Theorem deep_independent v v' n n' ws :
  deep v v' n n' -> below v n -> legal n' v v' ws ->
  run2 v v' ws = (own_writes SideL ws v, own_writes SideR ws v').
Proof.
  intros D B L. destruct D as (E & ND & R & Le).
  apply (independent_views ws n'); [| | |exact L].
  - intros x Hx Hx'. apply B in Hx. apply R in Hx'. lia.
  - intros x Hx. apply B in Hx. lia.
  - intros x Hx. apply R in Hx. lia.
Qed.

(* one side alone *)
Definition only (s : side) (ws : list wstep) : Prop :=
  Forall (fun st => match st with (s', _, _, _) => s' = s end) ws.

Lemma own_writes_none_L ws v : only SideR ws -> own_writes SideL ws v = v.
Proof.
  induction 1 as [|[[[s l] w] k] r H _ IH]; [reflexivity|]. subst s. cbn [own_writes]. exact IH.
Qed.
Lemma own_writes_none_R ws v : only SideL ws -> own_writes SideR ws v = v.
Proof.
  induction 1 as [|[[[s l] w] k] r H _ IH]; [reflexivity|]. subst s. cbn [own_writes]. exact IH.
Qed.

Theorem deep_no_observation v v' n n' ws :
  deep v v' n n' -> below v n -> legal n' v v' ws ->
  (only SideL ws -> snd (run2 v v' ws) = v' /\ erase (snd (run2 v v' ws)) = erase v) /\
  (only SideR ws -> fst (run2 v v' ws) = v).
Proof.
  intros D B L. rewrite (deep_independent _ _ _ _ ws D B L). cbn [fst snd]. split; intro O.
  - rewrite own_writes_none_R by exact O. split; [reflexivity|apply D].
  - apply own_writes_none_L; exact O.
Qed.

(* ---------------------------------------------------------------- the decidable check is sound *)
Lemma forall2b_eq {A} (f : A -> A -> bool) xs :
  Forall (fun x => forall y, f x y = true -> x = y) xs -> forall ys, forall2b f xs ys = true -> xs = ys.
Proof.
  induction 1 as [|x r Hx _ IH]; intros [|y ys] E; cbn [forall2b] in E; try discriminate; [reflexivity|].
  apply andb_true_iff in E as [E1 E2]. f_equal; [apply Hx; exact E1|apply IH; exact E2].
Qed.

Lemma gv_eqb_eq : forall a b, gv_eqb a b = true -> a = b.
Proof.
  induction a using gv_ind'; intros [] E; cbn [gv_eqb] in E; try discriminate; try reflexivity.
  - apply Z.eqb_eq in E. congruence.
  - apply bytes_eqb_eq in E. congruence.
  - apply Nat.eqb_eq in E. congruence.
  - apply andb_true_iff in E as [E1 E2]. apply Nat.eqb_eq in E1. apply Z.eqb_eq in E2. congruence.
  - apply andb_true_iff in E as [E1 E2]. apply Nat.eqb_eq in E1. apply bytes_eqb_eq in E2. congruence.
  - apply andb_true_iff in E as [E1 E2]. apply Nat.eqb_eq in E1. apply IHa in E2. congruence.
  - apply andb_true_iff in E as [E1 E2]. apply Nat.eqb_eq in E1. apply (forall2b_eq _ _ H) in E2. congruence.
  - apply andb_true_iff in E as [E1 E3]. apply andb_true_iff in E1 as [E1 E2].
    apply Nat.eqb_eq in E1. apply (forall2b_eq _ _ H) in E3.
    apply forall2b_eq in E2; [congruence|]. apply Forall_forall. intros x _ y K. apply Z.eqb_eq. exact K.
  - apply (forall2b_eq _ _ H) in E. congruence.
Qed.

Lemma memb_In x l : memb x l = true <-> In x l.
Proof.
  induction l as [|y r IH]; cbn [memb In]; [split; [discriminate|tauto]|].
  rewrite orb_true_iff, IH, Nat.eqb_eq. split; intros [K|K]; auto.
Qed.

Lemma nodupb_NoDup l : nodupb l = true -> NoDup l.
Proof.
  induction l as [|x r IH]; cbn [nodupb]; intro E; constructor.
  - apply andb_true_iff in E as [E _]. intro K. apply memb_In in K. rewrite K in E. discriminate.
  - apply IH. apply andb_true_iff in E as [_ E]. exact E.
Qed.

Theorem deepb_sound orig cl n : deepb orig cl n = true ->
  below orig n /\ exists n', deep orig cl n n'.
Proof.
  unfold deepb. intro E. apply andb_true_iff in E as [E E4]. apply andb_true_iff in E as [E E3].
  apply andb_true_iff in E as [E1 E2].
  rewrite forallb_forall in E3, E4. split.
  - intros l Hl. apply E4 in Hl. apply Nat.ltb_lt in Hl. exact Hl.
  - exists (S (list_max (n :: locs cl))). split; [apply gv_eqb_eq; exact E1|].
    split; [apply nodupb_NoDup; exact E2|].
    pose proof (list_max_le (n :: locs cl) (list_max (n :: locs cl))) as [K _].
    specialize (K (Nat.le_refl _)). rewrite Forall_forall in K. split.
    + intros l Hl. split; [apply Nat.leb_le; apply E3; exact Hl|].
      specialize (K l (or_intror Hl)). lia.
    + specialize (K n (or_introl eq_refl)). lia.
Qed.

(* ================================================================ the code-shaped Clone methods *)
Lemma NoDup_app_disj {A} (l1 l2 : list A) :
  NoDup l1 -> NoDup l2 -> (forall x, In x l1 -> In x l2 -> False) -> NoDup (l1 ++ l2).
Proof.
  induction 1 as [|x r Hx _ IH]; intros N2 D; cbn [app]; [exact N2|]. constructor.
  - intro K. apply in_app_or in K as [K|K]; [exact (Hx K)|]. exact (D x (or_introl eq_refl) K).
  - apply IH; [exact N2|]. intros y Hy. apply D. right. exact Hy.
Qed.

Ltac in_tac H :=
  lazymatch type of H with
  | In _ [] => destruct H
  | In _ (_ :: _) => destruct H as [H|H]; [|in_tac H]
  | In _ (_ ++ _) => apply in_app_or in H; destruct H as [H|H]; in_tac H
  | In _ ?L => try (match goal with R : forall l, In l L -> _ |- _ => apply R in H end)
  | _ => idtac
  end.

Ltac nodup_tac :=
  lazymatch goal with
  | |- NoDup [] => constructor
  | |- NoDup (_ :: _) => constructor; [let H := fresh "H" in intro H; in_tac H; lia | nodup_tac]
  | |- NoDup (_ ++ _) =>
      apply NoDup_app_disj;
      [nodup_tac | nodup_tac
       | let H1 := fresh "H" in let H2 := fresh "H" in intros ? H1 H2; in_tac H1; in_tac H2; lia]
  | |- NoDup _ => assumption
  end.

(* goal: fr L n n' where L is built from ::, ++ and pieces whose fr facts are in the context (destructed) *)
Ltac fr_tac :=
  split; [nodup_tac | split; [let H := fresh "H" in intros ? H; in_tac H; lia | lia]].

Lemma bind_some {A B} (c : M A) (k : A -> M B) n a m : c n = Some (a, m) -> bind c k n = k a m.
Proof. unfold bind. intros ->. reflexivity. Qed.
Lemma bind_fresh {B} (k : nat -> M B) n : bind fresh k n = k n (S n).
Proof. reflexivity. Qed.
Lemma bind_ret {A B} (a : A) (k : A -> M B) n : bind (ret a) k n = k a n.
Proof. reflexivity. Qed.

(* c does not panic and returns a deep copy of src *)
Definition okM {A} (c : M A) (tg : A -> gv) (src : gv) : Prop :=
  forall n, exists a n', c n = Some (a, n') /\ deep src (tg a) n n'.

Lemma locs_shared o : locs (shared_gv o) = [].
Proof. destruct o; reflexivity. Qed.

Lemma mapM_deep {A} (f : A -> M A) (tg : A -> gv) (wf : A -> bool) :
  (forall x, wf x = true -> okM (f x) tg (tg x)) ->
  forall xs, forallb wf xs = true -> forall n, exists ys n', mapM f xs n = Some (ys, n') /\
    map erase (map tg ys) = map erase (map tg xs) /\ fr (flat_map locs (map tg ys)) n n'.
Proof.
  intros Hf. induction xs as [|x r IH]; cbn [forallb]; intros W n.
  - exists [], n. split; [reflexivity|]. split; [reflexivity|]. cbn [map flat_map]. fr_tac.
  - apply andb_true_iff in W as [Wx Wr].
    destruct (Hf x Wx n) as (y & n1 & E1 & X1 & N1 & R1 & L1).
    destruct (IH Wr n1) as (ys & n2 & E2 & X2 & N2 & R2 & L2).
    exists (y :: ys), n2. split.
    + cbn [mapM]. rewrite (bind_some _ _ _ _ _ E1), (bind_some _ _ _ _ _ E2). reflexivity.
    + split; [cbn [map]; congruence|]. cbn [map flat_map]. fr_tac.
Qed.

Lemma clone_slice_deep {A} (f : A -> M A) (tg : A -> gv) (wf : A -> bool) :
  (forall x, wf x = true -> okM (f x) tg (tg x)) ->
  forall o, slice_all wf o = true -> okM (clone_slice f o) (slice_gv tg) (slice_gv tg o).
Proof.
  intros Hf [[l xs]|] W n; cbn [slice_all] in W.
  - destruct (mapM_deep f tg wf Hf xs W (S n)) as (ys & n' & E & X & N & R & L).
    exists (Some (n, ys)), n'. split.
    + unfold clone_slice. rewrite bind_fresh, (bind_some _ _ _ _ _ E). reflexivity.
    + split; [cbn [slice_gv opt_gv fst snd]; apply erase_slice_congr; exact X|].
      cbn [slice_gv opt_gv fst snd locs]. fr_tac.
  - exists None, n. split; [reflexivity|]. split; [reflexivity|]. cbn [slice_gv opt_gv locs]. fr_tac.
Qed.

Lemma remake_slice_deep {A} (f : A -> M A) (tg : A -> gv) (wf : A -> bool) :
  (forall x, wf x = true -> okM (f x) tg (tg x)) ->
  forall o, slice_all wf o = true -> okM (remake_slice f o) (slice_gv tg) (slice_gv tg o).
Proof.
  intros Hf o W n.
  assert (W' : forallb wf (elems o) = true) by (destruct o as [[l xs]|]; [exact W|reflexivity]).
  destruct (mapM_deep f tg wf Hf (elems o) W' (S n)) as (ys & n' & E & X & N & R & L).
  exists (Some (n, ys)), n'. split.
  - unfold remake_slice. rewrite bind_fresh, (bind_some _ _ _ _ _ E). reflexivity.
  - split; [|cbn [slice_gv opt_gv fst snd locs]; fr_tac].
    destruct o as [[l xs]|]; cbn [slice_gv opt_gv fst snd elems] in *.
    + apply erase_slice_congr; exact X.
    + destruct ys; [reflexivity|discriminate].
Qed.

Lemma forallb_true {A} (xs : list A) : forallb (fun _ => true) xs = true.
Proof. induction xs; cbn [forallb]; auto. Qed.

Lemma copy_slice_deep {A} (tg : A -> gv) : (forall x, locs (tg x) = []) ->
  forall o, okM (copy_slice o) (slice_gv tg) (slice_gv tg o).
Proof.
  intros Hl o. apply (clone_slice_deep _ tg (fun _ => true)).
  - intros x _ n. exists x, n. split; [reflexivity|]. split; [reflexivity|]. rewrite Hl. fr_tac.
  - destruct o as [[l xs]|]; [apply forallb_true|reflexivity].
Qed.

(* --- allocation.go *)
Lemma clone_int_deep b : isSome b = true -> okM (clone_int b) int_gv (int_gv b).
Proof.
  destruct b as [i|]; [|discriminate]. intros _ n. eexists _, _. split; [reflexivity|].
  split; [reflexivity|]. cbn [int_gv opt_gv i_ptr i_arr locs]. fr_tac.
Qed.

Lemma clone_bals_deep o : bals_wf o = true -> okM (clone_bals o) bals_gv (bals_gv o).
Proof. apply (clone_slice_deep clone_int int_gv isSome clone_int_deep). Qed.

Lemma clone_balances_deep o :
  slice_all bals_wf o = true -> okM (clone_balances o) balances_gv (balances_gv o).
Proof. apply (clone_slice_deep clone_bals bals_gv bals_wf clone_bals_deep). Qed.

Lemma clone_index_map_deep o : okM (clone_index_map o) imap_gv (imap_gv o).
Proof. apply (copy_slice_deep GNum). reflexivity. Qed.

Lemma clone_sub_deep s : sub_wf s = true -> okM (clone_sub s) sub_gv (sub_gv s).
Proof.
  intros W n. unfold sub_wf in W.
  destruct (clone_bals_deep _ W n) as (b & n1 & E1 & X1 & N1 & R1 & L1).
  destruct (clone_index_map_deep (sb_imap s) n1) as (im & n2 & E2 & X2 & N2 & R2 & L2).
  unfold clone_sub. rewrite (bind_some _ _ _ _ _ E1), (bind_some _ _ _ _ _ E2).
  unfold new_sub_alloc. destruct im as [p|].
  - eexists _, _. split; [reflexivity|]. split.
    + cbn [sub_gv erase map sb_id sb_bals sb_imap]. congruence.
    + cbn [sub_gv locs flat_map sb_id sb_bals sb_imap app]. fr_tac.
  - eexists _, _. split; [reflexivity|]. split.
    + cbn [sub_gv erase map sb_id sb_bals sb_imap]. cbn [imap_gv slice_gv opt_gv fst snd map] in *.
      rewrite erase_nil_empty_slice. congruence.
    + cbn [sub_gv locs flat_map sb_id sb_bals sb_imap app imap_gv slice_gv opt_gv fst snd map]. fr_tac.
Qed.

Lemma clone_alloc_deep a : alloc_wf a = true -> okM (clone_alloc a) alloc_gv (alloc_gv a).
Proof.
  intros W n. unfold alloc_wf in W. apply andb_true_iff in W as [W1 W2].
  destruct (copy_slice_deep GNum (fun _ => eq_refl) (al_backends a) n) as (be & n1 & E1 & X1 & N1 & R1 & L1).
  destruct (copy_slice_deep shared_gv locs_shared (al_assets a) n1) as (ass & n2 & E2 & X2 & N2 & R2 & L2).
  destruct (clone_balances_deep _ W1 n2) as (bs & n3 & E3 & X3 & N3 & R3 & L3).
  destruct (clone_slice_deep clone_sub sub_gv sub_wf clone_sub_deep _ W2 n3) as (lk & n4 & E4 & X4 & N4 & R4 & L4).
  eexists _, _. split.
  - unfold clone_alloc.
    rewrite (bind_some _ _ _ _ _ E1), (bind_some _ _ _ _ _ E2), (bind_some _ _ _ _ _ E3), (bind_some _ _ _ _ _ E4).
    reflexivity.
  - split.
    + cbn [alloc_gv erase map al_bals al_backends al_assets al_locked]. congruence.
    + cbn [alloc_gv locs flat_map al_bals al_backends al_assets al_locked]. fr_tac.
Qed.

(* --- state.go *)
Lemma clone_data_deep d : data_wf d = true -> okM (clone_data d) data_gv (data_gv d).
Proof.
  destruct d; [discriminate| |]; intros _ n; eexists _, _; (split; [reflexivity|]);
    (split; [reflexivity|]); cbn [data_gv locs flat_map]; fr_tac.
Qed.

Lemma clone_state_deep s : state_wf s = true -> okM (clone_state s) state_gv (state_gv s).
Proof.
  intros W n. unfold state_wf in W. apply andb_true_iff in W as [W1 W2].
  destruct (clone_alloc_deep _ W1 n) as (a & n1 & E1 & X1 & N1 & R1 & L1).
  destruct (clone_data_deep _ W2 n1) as (d & n2 & E2 & X2 & N2 & R2 & L2).
  eexists _, _. split.
  - unfold clone_state. rewrite (bind_some _ _ _ _ _ E1), (bind_some _ _ _ _ _ E2). reflexivity.
  - split.
    + cbn [state_gv erase map st_alloc st_id st_version st_app st_data st_final]. congruence.
    + cbn [state_gv locs flat_map st_alloc st_id st_version st_app st_data st_final app].
      rewrite locs_shared. cbn [app]. fr_tac.
Qed.

Lemma clone_stateptr_deep p : stateptr_wf p = true -> okM (clone_stateptr p) stateptr_gv (stateptr_gv p).
Proof.
  destruct p as [[l s]|]; cbn [stateptr_wf]; intros W n.
  - destruct (clone_state_deep _ W (S n)) as (s' & n1 & E1 & X1 & N1 & R1 & L1).
    eexists _, _. split.
    + unfold clone_stateptr. rewrite bind_fresh, (bind_some _ _ _ _ _ E1). reflexivity.
    + split; [cbn [stateptr_gv opt_gv fst snd erase]; congruence|].
      cbn [stateptr_gv opt_gv fst snd locs]. fr_tac.
  - exists None, n. split; [reflexivity|]. split; [reflexivity|]. cbn [stateptr_gv opt_gv locs]. fr_tac.
Qed.

(* --- sig.go, transaction.go *)
Lemma clone_sig_deep s : okM (clone_sig s) sig_gv (sig_gv s).
Proof.
  destruct s as [[l b]|]; intro n; eexists _, _; (split; [reflexivity|]); (split; [reflexivity|]);
    cbn [sig_gv opt_gv fst snd locs]; fr_tac.
Qed.

Lemma clone_sigs_deep o : okM (clone_sigs o) sigs_gv (sigs_gv o).
Proof.
  apply (clone_slice_deep clone_sig sig_gv (fun _ => true)); [intros x _; apply clone_sig_deep|].
  destruct o as [[l xs]|]; [apply forallb_true|reflexivity].
Qed.

Lemma clone_tx_deep t : tx_wf t = true -> okM (clone_tx t) tx_gv (tx_gv t).
Proof.
  intros W n. unfold tx_wf in W.
  destruct (clone_stateptr_deep _ W n) as (s & n1 & E1 & X1 & N1 & R1 & L1).
  destruct (clone_sigs_deep (tx_sigs t) n1) as (g & n2 & E2 & X2 & N2 & R2 & L2).
  eexists _, _. split.
  - unfold clone_tx. rewrite (bind_some _ _ _ _ _ E1), (bind_some _ _ _ _ _ E2). reflexivity.
  - split; [cbn [tx_gv erase map tx_state tx_sigs]; congruence|].
    cbn [tx_gv locs flat_map tx_state tx_sigs]. fr_tac.
Qed.

(* --- address.go, params.go *)
Lemma clone_addr_deep o : addr_wf o = true -> okM (clone_addr o) addr_gv (addr_gv o).
Proof.
  destruct o as [[p c [x|] [y|]]|]; cbn [addr_wf ad_x ad_y ad_curve isSome andb]; try discriminate.
  destruct c as [c|]; [|discriminate]. intros W n. apply Nat.eqb_eq in W. subst c.
  eexists _, _. split; [reflexivity|]. split; [reflexivity|].
  cbn [addr_gv opt_gv ad_ptr ad_curve ad_x ad_y int_gv i_ptr i_arr locs flat_map shared_gv app]. fr_tac.
Qed.

Lemma mapM_entry_keys es : forall n ys n',
  mapM clone_addr_entry es n = Some (ys, n') -> map fst ys = map fst es.
Proof.
  induction es as [|[k a] r IH]; intros n0 ys n' E.
  - cbn [mapM] in E. injection E as <- _. reflexivity.
  - cbn [mapM] in E. unfold bind at 1 in E.
    destruct (clone_addr_entry (k, a) n0) as [[[k' a'] m0]|] eqn:C; [|discriminate].
    unfold bind at 1 in E. destruct (mapM clone_addr_entry r m0) as [[ys0 m1]|] eqn:C2; [|discriminate].
    injection E as <- _. cbn [map fst]. f_equal.
    + unfold clone_addr_entry, bind in C. cbn [fst snd] in C.
      destruct (clone_addr a n0) as [[a0 m2]|]; [|discriminate].
      injection C as <- _ _. reflexivity.
    + exact (IH m0 ys0 m1 C2).
Qed.

Lemma clone_addrmap_deep m : addrmap_wf m = true -> okM (clone_addrmap m) addrmap_gv (addrmap_gv m).
Proof.
  intros W n.
  set (es := match m with None => [] | Some (_, es) => es end).
  assert (W' : forallb (fun kv => addr_wf (snd kv)) es = true) by (destruct m as [[l e]|]; [exact W|reflexivity]).
  assert (Hf : forall kv : Z * option haddr, addr_wf (snd kv) = true ->
            okM (clone_addr_entry kv) (fun kv => addr_gv (snd kv)) (addr_gv (snd kv))).
  { intros [k a] Wa n0. cbn [snd] in *. destruct (clone_addr_deep a Wa n0) as (a' & n1 & E & D).
    exists (k, a'), n1. split; [|exact D]. unfold clone_addr_entry. cbn [fst snd].
    rewrite (bind_some _ _ _ _ _ E). reflexivity. }
  destruct (mapM_deep clone_addr_entry (fun kv => addr_gv (snd kv)) _ Hf es W' (S n)) as (ys & n' & E & X & N & R & L).
  pose proof (mapM_entry_keys es _ _ _ E) as K.
  exists (Some (n, ys)), n'. split.
  - unfold clone_addrmap. fold es. rewrite bind_fresh, (bind_some _ _ _ _ _ E). reflexivity.
  - split; [|cbn [addrmap_gv opt_gv fst snd locs]; fr_tac].
    destruct m as [[l e]|]; cbn [addrmap_gv opt_gv fst snd] in *.
    + rewrite K. apply erase_map_congr. exact X.
    + subst es. destruct ys; [reflexivity|discriminate].
Qed.

Lemma clone_parts_deep o : slice_all addrmap_wf o = true -> okM (clone_parts o) parts_gv (parts_gv o).
Proof. apply (remake_slice_deep clone_addrmap addrmap_gv addrmap_wf clone_addrmap_deep). Qed.

Lemma clone_addrs_deep o :
  slice_all addr_wf o = true -> okM (clone_addrs o) (slice_gv addr_gv) (slice_gv addr_gv o).
Proof. apply (remake_slice_deep clone_addr addr_gv addr_wf clone_addr_deep). Qed.

(* Params.Clone returns a pointer to a fresh Params; the struct behind it is a deep copy *)
Lemma clone_params_deep p : params_wf p = true -> forall n, exists l p',
  clone_params p n = Some ((l, p'), S l) /\ deep (params_gv p) (params_gv p') n l.
Proof.
  intros W n. unfold params_wf in W. apply andb_true_iff in W as [W1 W2].
  destruct (clone_parts_deep _ W1 n) as (parts & n1 & E1 & X1 & N1 & R1 & L1).
  destruct (clone_int_deep _ W2 n1) as (nonce & n2 & E2 & X2 & N2 & R2 & L2).
  eexists _, _. split.
  - unfold clone_params. rewrite (bind_some _ _ _ _ _ E1), (bind_some _ _ _ _ _ E2), bind_fresh. reflexivity.
  - split.
    + cbn [params_gv erase map pa_id pa_cd pa_parts pa_app pa_nonce pa_ledger pa_virtual pa_aux]. congruence.
    + cbn [params_gv locs flat_map pa_id pa_cd pa_parts pa_app pa_nonce pa_ledger pa_virtual pa_aux app].
      rewrite locs_shared. cbn [app]. fr_tac.
Qed.

Lemma clone_paramsptr_deep l0 p : params_wf p = true ->
  okM (clone_params p) (fun q => paramsptr_gv (Some q)) (paramsptr_gv (Some (l0, p))).
Proof.
  intros W n. destruct (clone_params_deep p W n) as (l & p' & E & X & N & R & L).
  exists (l, p'), (S l). split; [exact E|]. split.
  - cbn [paramsptr_gv opt_gv fst snd erase]. congruence.
  - cbn [paramsptr_gv opt_gv fst snd locs]. fr_tac.
Qed.

(* --- machine.go, statemachine.go *)
Lemma clone_machine_deep m : machine_wf m = true -> okM (clone_machine m) machine_gv (machine_gv m).
Proof.
  intros W n. unfold machine_wf in W. apply andb_true_iff in W as [W W4]. apply andb_true_iff in W as [W W3].
  apply andb_true_iff in W as [W1 W2].
  destruct (clone_slice_deep clone_tx tx_gv tx_wf clone_tx_deep _ W4 n) as (prev & n1 & E1 & X1 & N1 & R1 & L1).
  destruct (clone_params_deep _ W1 n1) as (pl & ps & E2 & X2 & N2 & R2 & L2).
  destruct (clone_tx_deep _ W2 (S pl)) as (stg & n3 & E3 & X3 & N3 & R3 & L3).
  destruct (clone_tx_deep _ W3 n3) as (cur & n4 & E4 & X4 & N4 & R4 & L4).
  eexists _, _. split.
  - unfold clone_machine.
    rewrite (bind_some _ _ _ _ _ E1), (bind_some _ _ _ _ _ E2), (bind_some _ _ _ _ _ E3), (bind_some _ _ _ _ _ E4).
    reflexivity.
  - cbn [snd]. split.
    + cbn [machine_gv erase map ma_log ma_phase ma_acc ma_idx ma_params ma_staging ma_current ma_prev]. congruence.
    + cbn [machine_gv locs flat_map ma_log ma_phase ma_acc ma_idx ma_params ma_staging ma_current ma_prev app].
      rewrite !locs_shared. cbn [app]. fr_tac.
Qed.

Lemma clone_sm_deep m : machine_wf (sm_mach m) = true -> okM (clone_sm m) sm_gv (sm_gv m).
Proof.
  intros W n.
  destruct (clone_machine_deep _ W n) as (mm & n1 & E1 & X1 & N1 & R1 & L1).
  eexists _, _. split.
  - unfold clone_sm. rewrite (bind_some _ _ _ _ _ E1), !bind_fresh. reflexivity.
  - split.
    + cbn [sm_gv erase map sm_ptr sm_mptr sm_mach sm_app]. congruence.
    + cbn [sm_gv locs flat_map sm_ptr sm_mptr sm_mach sm_app app]. rewrite locs_shared. cbn [app]. fr_tac.
Qed.

(* --- persistence.go *)
Lemma clone_source_deep s : source_wf s = true -> forall n, exists l s',
  clone_source s n = Some ((l, s'), S l) /\ deep (source_gv s) (source_gv s') n l.
Proof.
  intros W n. unfold source_wf in W. destruct (so_params s) as [[l0 p]|] eqn:P; [|discriminate].
  apply andb_true_iff in W as [W W3]. apply andb_true_iff in W as [W1 W2].
  destruct (clone_params_deep _ W1 n) as (pl & ps & E1 & X1 & N1 & R1 & L1).
  destruct (clone_tx_deep _ W2 (S pl)) as (stg & n2 & E2 & X2 & N2 & R2 & L2).
  destruct (clone_tx_deep _ W3 n2) as (cur & n3 & E3 & X3 & N3 & R3 & L3).
  eexists _, _. split.
  - unfold clone_source. rewrite P.
    rewrite (bind_some _ _ _ _ _ E1), (bind_some _ _ _ _ _ E2), (bind_some _ _ _ _ _ E3), bind_fresh. reflexivity.
  - split.
    + cbn [source_gv erase map so_idx so_params so_staging so_current so_phase].
      rewrite P. cbn [paramsptr_gv opt_gv fst snd erase]. congruence.
    + cbn [source_gv locs flat_map so_idx so_params so_staging so_current so_phase paramsptr_gv opt_gv fst snd app].
      fr_tac.
Qed.

Lemma from_source_deep s peers parent : source_wf s = true -> forall n, exists l s',
  from_source s peers parent n = Some ((l, s', peers, parent), S l) /\ deep (source_gv s) (source_gv s') n l.
Proof.
  intros W n. destruct (clone_source_deep s W n) as (l & s' & E & D).
  exists l, s'. split; [|exact D]. unfold from_source. rewrite (bind_some _ _ _ _ _ E). reflexivity.
Qed.

(* --- actionmachine.go *)
Lemma pad_actions_exact xs : pad_actions (length xs) xs = Some xs.
Proof. induction xs as [|x r IH]; cbn [length pad_actions]; [reflexivity|]. rewrite IH. reflexivity. Qed.

Lemma clone_action_deep d : action_wf d = true -> okM (clone_action d) data_gv (data_gv d).
Proof.
  destruct d; [|discriminate|]; intros _ n; eexists _, _; (split; [reflexivity|]);
    (split; [reflexivity|]); cbn [data_gv locs flat_map]; fr_tac.
Qed.

Lemma clone_am_deep m : am_wf m = true -> okM (clone_am m) am_gv (am_gv m).
Proof.
  intros W n. unfold am_wf in W. apply andb_true_iff in W as [W1 W2].
  destruct (am_actions m) as [[l0 xs]|] eqn:A; [|discriminate].
  apply andb_true_iff in W2 as [W2 W3]. apply Nat.eqb_eq in W2.
  destruct (mapM_deep clone_action data_gv action_wf clone_action_deep xs W3 (S n)) as (ys & n1 & E1 & X1 & N1 & R1 & L1).
  destruct (clone_machine_deep _ W1 n1) as (mm & n2 & E2 & X2 & N2 & R2 & L2).
  eexists _, _. split.
  - unfold clone_am. rewrite bind_fresh, A. cbn [elems]. rewrite <- W2, pad_actions_exact.
    rewrite (bind_some _ _ _ _ _ E1), (bind_some _ _ _ _ _ E2), !bind_fresh. reflexivity.
  - split.
    + pose proof (erase_slice_congr l0 n _ _ X1) as X3.
      unfold am_gv. cbn [am_ptr am_mptr am_mach am_app am_actions]. rewrite A. cbn [slice_gv opt_gv fst snd].
      remember (GSlice n (map data_gv ys)) as sa. remember (GSlice l0 (map data_gv xs)) as sb.
      cbn [erase map]. congruence.
    + cbn [am_gv locs flat_map am_ptr am_mptr am_mach am_app am_actions app slice_gv opt_gv fst snd].
      rewrite locs_shared. cbn [app]. fr_tac.
Qed.

(* --- the panic sites: a nil big integer, nonce, app data, address or Params() is dereferenced *)
Lemma clone_int_nil n : clone_int None n = None.
Proof. reflexivity. Qed.
Lemma clone_data_nil n : clone_data DNil n = None.
Proof. reflexivity. Qed.
Lemma clone_addr_nil n : clone_addr None n = None.
Proof. reflexivity. Qed.
Lemma clone_source_nil_params i stg cur ph n : clone_source (mkSource i None stg cur ph) n = None.
Proof. reflexivity. Qed.
Lemma clone_params_nil_nonce p n : pa_nonce p = None -> clone_params p n = None.
Proof.
  intro H. unfold clone_params, bind. destruct (clone_parts (pa_parts p) n) as [[parts m]|]; [|reflexivity].
  rewrite H. reflexivity.
Qed.

(* ================================================================ what a deep copy buys *)
Definition independent (src cp : gv) (lim : nat) : Prop :=
  erase cp = erase src /\
  (forall l, In l (locs cp) -> ~ In l (locs src)) /\
  forall ws, legal lim src cp ws ->
    run2 src cp ws = (own_writes SideL ws src, own_writes SideR ws cp) /\
    (only SideL ws -> snd (run2 src cp ws) = cp) /\
    (only SideR ws -> fst (run2 src cp ws) = src).

Lemma deep_is_independent v v' n n' : deep v v' n n' -> below v n -> independent v v' n'.
Proof.
  intros D B. split; [apply D|]. split; [exact (deep_disjoint _ _ _ _ D B)|].
  intros ws L. split; [exact (deep_independent _ _ _ _ ws D B L)|].
  destruct (deep_no_observation _ _ _ _ ws D B L) as [H1 H2]. split; [intro O; apply H1; exact O|exact H2].
Qed.

Lemma okM_independent {A} (c : M A) (tg : A -> gv) (src : gv) : okM c tg src ->
  forall n, below src n -> exists a n', c n = Some (a, n') /\ independent src (tg a) n'.
Proof.
  intros H n B. destruct (H n) as (a & n' & E & D). exists a, n'. split; [exact E|].
  exact (deep_is_independent _ _ _ _ D B).
Qed.

Lemma clone_independent v n : below v n -> independent v (fst (clone v n)) (snd (clone v n)).
Proof. intro B. exact (deep_is_independent _ _ _ _ (clone_deep v n) B). Qed.

Lemma observed_independent orig cl n : deepb orig cl n = true -> exists lim, independent orig cl lim.
Proof.
  intro E. destruct (deepb_sound _ _ _ E) as (B & n' & D). exists n'. exact (deep_is_independent _ _ _ _ D B).
Qed.

(* ================================================================ statements used by Props/C19.v *)
Lemma clone_no_observation v n ws : below v n -> legal (snd (clone v n)) v (fst (clone v n)) ws ->
  run2 v (fst (clone v n)) ws = (own_writes SideL ws v, own_writes SideR ws (fst (clone v n))) /\
  (only SideL ws -> snd (run2 v (fst (clone v n)) ws) = fst (clone v n)
                    /\ erase (snd (run2 v (fst (clone v n)) ws)) = erase v) /\
  (only SideR ws -> fst (run2 v (fst (clone v n)) ws) = v /\ erase (fst (run2 v (fst (clone v n)) ws)) = erase (fst (clone v n))).
Proof.
  intros B L. pose proof (clone_deep v n) as D. split; [exact (deep_independent _ _ _ _ ws D B L)|].
  destruct (deep_no_observation _ _ _ _ ws D B L) as [H1 H2]. split; [exact H1|].
  intro O. rewrite (H2 O). split; [reflexivity|]. symmetry. apply clone_erase.
Qed.

Section TypedIndependence.
  Context {A : Type} (c : A -> M A) (tg : A -> gv) (wf : A -> bool).
  Hypothesis Hdeep : forall x, wf x = true -> okM (c x) tg (tg x).
  Lemma typed_independent : forall x, wf x = true -> forall n, below (tg x) n ->
    exists x' n', c x n = Some (x', n') /\ independent (tg x) (tg x') n'.
  Proof. intros x W n B. exact (okM_independent _ _ _ (Hdeep x W) n B). Qed.
End TypedIndependence.

Lemma params_clone_independent p : params_wf p = true -> forall l0 n, below (paramsptr_gv (Some (l0, p))) n ->
  exists q n', clone_params p n = Some (q, n') /\ independent (paramsptr_gv (Some (l0, p))) (paramsptr_gv (Some q)) n'.
Proof. intros W l0 n B. exact (okM_independent _ _ _ (clone_paramsptr_deep l0 p W) n B). Qed.

Lemma source_clone_independent s : source_wf s = true -> forall n, below (source_gv s) n ->
  exists l s', clone_source s n = Some ((l, s'), S l) /\ independent (source_gv s) (source_gv s') l.
Proof.
  intros W n B. destruct (clone_source_deep s W n) as (l & s' & E & D). exists l, s'. split; [exact E|].
  exact (deep_is_independent _ _ _ _ D B).
Qed.

Lemma from_source_independent s peers parent : source_wf s = true -> forall n, below (source_gv s) n ->
  exists l s', from_source s peers parent n = Some ((l, s', peers, parent), S l) /\
               independent (source_gv s) (source_gv s') l.
Proof.
  intros W n B. destruct (from_source_deep s peers parent W n) as (l & s' & E & D). exists l, s'. split; [exact E|].
  exact (deep_is_independent _ _ _ _ D B).
Qed.

(* ================================================================ exact agreement with the generic clone
   Where the Go method allocates in pre-order and preserves nil (CloneBals, Balances.Clone, CloneSigs),
   the code-shaped function IS the generic clone, location for location. *)
Definition exactM {A} (f : A -> M A) (tg : A -> gv) (wf : A -> bool) : Prop :=
  forall x, wf x = true -> forall n, exists y,
    f x n = Some (y, snd (clone (tg x) n)) /\ tg y = fst (clone (tg x) n).

Lemma mapM_exact {A} (f : A -> M A) (tg : A -> gv) (wf : A -> bool) : exactM f tg wf ->
  forall xs, forallb wf xs = true -> forall n, exists ys,
    mapM f xs n = Some (ys, snd (mapS clone (map tg xs) n)) /\ map tg ys = fst (mapS clone (map tg xs) n).
Proof.
  intros Hf. induction xs as [|x r IH]; cbn [forallb]; intros W n.
  - exists []. split; reflexivity.
  - apply andb_true_iff in W as [Wx Wr].
    destruct (Hf x Wx n) as (y & E1 & T1).
    destruct (IH Wr (snd (clone (tg x) n))) as (ys & E2 & T2).
    exists (y :: ys). cbn [map mapS].
    destruct (clone (tg x) n) as [cx s1]. cbn [fst snd] in *.
    destruct (mapS clone (map tg r) s1) as [cr s2]. cbn [fst snd] in *.
    split; [|cbn [map]; congruence].
    cbn [mapM]. rewrite (bind_some _ _ _ _ _ E1), (bind_some _ _ _ _ _ E2). reflexivity.
Qed.

Lemma clone_slice_exact {A} (f : A -> M A) (tg : A -> gv) (wf : A -> bool) : exactM f tg wf ->
  exactM (clone_slice f) (slice_gv tg) (slice_all wf).
Proof.
  intros Hf [[l xs]|] W n; cbn [slice_all] in W.
  - destruct (mapM_exact f tg wf Hf xs W (S n)) as (ys & E & T).
    exists (Some (n, ys)). cbn [slice_gv opt_gv fst snd clone].
    destruct (mapS clone (map tg xs) (S n)) as [cr s2]. cbn [fst snd] in *.
    split; [|congruence].
    unfold clone_slice. rewrite bind_fresh, (bind_some _ _ _ _ _ E). reflexivity.
  - exists None. split; reflexivity.
Qed.

Lemma clone_int_exact : exactM clone_int int_gv isSome.
Proof. intros [i|] W n; [|discriminate]. eexists. split; reflexivity. Qed.

Lemma clone_bals_exact : exactM clone_bals bals_gv bals_wf.
Proof. exact (clone_slice_exact _ _ _ clone_int_exact). Qed.

Lemma clone_balances_exact : exactM clone_balances balances_gv (slice_all bals_wf).
Proof. exact (clone_slice_exact _ _ _ clone_bals_exact). Qed.

Lemma clone_sig_exact : exactM clone_sig sig_gv (fun _ => true).
Proof. intros [[l b]|] _ n; eexists; split; reflexivity. Qed.

Lemma clone_sigs_exact : exactM clone_sigs sigs_gv (slice_all (fun _ => true)).
Proof. exact (clone_slice_exact _ _ _ clone_sig_exact). Qed.
