(* C06: theorems about the update protocol LTS (Model/Update.v): all runs, all interleavings. *)
From Coq Require Import Arith PeanoNat ZifyN ZifyNat ZifyBool Lia.
From V Require Import Model.Update Proofs.ChannelP Proofs.MachineP.
Open Scope N_scope.

(* ---------- accessors ---------- *)
Lemma getp_setp_same s p x : getp (setp s p x) p = x.
Proof. destruct p; reflexivity. Qed.
Lemma getp_setp_other s p x : getp (setp s p x) (other p) = getp s (other p).
Proof. destruct p; reflexivity. Qed.
Lemma other_other p : other (other p) = p.
Proof. destruct p; reflexivity. Qed.
Lemma other_neq p : other p <> p.
Proof. destruct p; discriminate. Qed.
Lemma pid_cases p q : q = p \/ q = other p.
Proof. destruct p, q; auto. Qed.
Lemma pid_eqb_refl p : pid_eqb p p = true.
Proof. destruct p; reflexivity. Qed.
Lemma pid_eqb_other p : pid_eqb p (other p) = false.
Proof. destruct p; reflexivity. Qed.
Lemma pid_eqb_other' p : pid_eqb (other p) p = false.
Proof. destruct p; reflexivity. Qed.
Lemma pid_eqb_eq p q : pid_eqb p q = true <-> p = q.
Proof. destruct p, q; cbn; split; intro H; try discriminate; reflexivity. Qed.

(* ---------- the network: removing the first message that satisfies a predicate ---------- *)
Lemma remove_first_spec f l m l' :
  remove_first f l = Some (m, l') ->
  f m = true /\ exists l1 l2, l = l1 ++ m :: l2 /\ l' = l1 ++ l2.
Proof.
  revert l'; induction l as [|x r IH]; intros l' H; cbn in H; [discriminate|].
  destruct (f x) eqn:Fx.
  - injection H as <- <-. split; [exact Fx|]. exists [], r. split; reflexivity.
  - destruct (remove_first f r) as [[y r']|] eqn:E; [|discriminate].
    injection H as <- <-. destruct (IH r' eq_refl) as (Fm & l1 & l2 & -> & ->).
    split; [exact Fm|]. exists (x :: l1), l2. split; reflexivity.
Qed.

Lemma filter_app_singleton {A} (g : A -> bool) l1 m l2 x :
  filter g (l1 ++ m :: l2) = [x] -> g m = true -> m = x /\ filter g (l1 ++ l2) = [].
Proof.
  rewrite !filter_app. cbn [filter]. intros H Gm. rewrite Gm in H.
  destruct (filter g l1) as [|a r1]; cbn in H.
  - injection H as -> H. split; [reflexivity|]. exact H.
  - injection H as -> H. destruct r1; discriminate H.
Qed.
Lemma filter_app_skip {A} (g : A -> bool) l1 (m : A) l2 :
  g m = false -> filter g (l1 ++ m :: l2) = filter g (l1 ++ l2).
Proof. intro Gm. rewrite !filter_app. cbn [filter]. rewrite Gm. reflexivity. Qed.

(* ---------- currents change only by enabling ---------- *)
Ltac break_match :=
  repeat match goal with
         | |- context [match ?x with _ => _ end] => destruct x eqn:?
         end.

Lemma step_current_unchanged m o :
  (forall s, o <> OSetProgressed s) -> o <> OEnableInit -> o <> OEnableUpdate -> o <> OEnableFinal ->
  current (fst (step m o)) = current m.
Proof.
  intros H1 H2 H3 H4. destruct o; try (elim H2; reflexivity); try (elim H3; reflexivity);
    try (elim H4; reflexivity); try (elim (H1 s); reflexivity);
    cbn [step]; unfold simple_transition; break_match; reflexivity.
Qed.

(* ---------- machines of the two parties of one channel ---------- *)
Section Channel.
  Variable P : mparams.
  Variables k0 k1 : N.
  Hypothesis HP : mp_parts P = [k0; k1].

  Definition key (p : pid) : N := match p with PA => k0 | PB => k1 end.
  Definition sigs2 (p : pid) (own oth : option sigtok) : list (option sigtok) :=
    match p with PA => [own; oth] | PB => [oth; own] end.
  Definition sigof (p : pid) (st : state) : sigtok := SigOf (key p) (enc_state st).
  Definition sig_ok (p : pid) (st : state) (g : sigtok) : Prop := verify_state (key p) st g = Some true.

  (* the machine of party p: phase, staging, current *)
  Definition mkm (p : pid) (f : phase) (stg : option tx) (c : tx) : mach := mkMach f (pidx p) P stg (Some c).
  Definition stx (p : pid) (st : state) (own oth : option sigtok) : option tx := Some (mkTx st (sigs2 p own oth)).

  (* both signatures present and valid *)
  Definition fs2 (t : tx) : Prop :=
    exists g0 g1, tx_sigs t = [Some g0; Some g1] /\ sig_ok PA (tx_st t) g0 /\ sig_ok PB (tx_st t) g1.

  Lemma fs2_fully_signed p f stg c t : fs2 t -> fully_signed (mkm p f stg c) t.
  Proof.
    intros (g0 & g1 & E & V0 & V1). split; [split|].
    - rewrite E. unfold n_of, mkm. cbn [ps]. rewrite HP. reflexivity.
    - intros i g Hi. rewrite E in Hi. unfold slot_ok, mkm. cbn [ps]. rewrite HP.
      destruct i as [|[|i]]; cbn in Hi.
      + injection Hi as <-. exists k0. split; [reflexivity|exact V0].
      + injection Hi as <-. exists k1. split; [reflexivity|exact V1].
      + destruct i; discriminate Hi.
    - rewrite E. reflexivity.
  Qed.

  Lemma sigof_ok p st : state_encodable st = true -> sig_ok p st (sigof p st).
  Proof. intro E. apply own_sig_verifies. unfold sign_state. rewrite E. reflexivity. Qed.
  Lemma sig_ok_encodable p st g : sig_ok p st g -> state_encodable st = true.
  Proof. unfold sig_ok, verify_state. destruct (state_encodable st); [reflexivity|discriminate]. Qed.

  (* validity of a successor depends only on the parameters and the current state *)
  Definition vtc (c : tx) (st : state) (a : N) : out := valid_transition (mkMach Acting 0 P None (Some c)) st a.
  Lemma vt_mkm p f stg c st a : valid_transition (mkm p f stg c) st a = vtc c st a.
  Proof. reflexivity. Qed.
  Lemma vtc_ext c c' st a : tx_st c = tx_st c' -> vtc c st a = vtc c' st a.
  Proof. unfold vtc, valid_transition. cbn [current nparts ps]. intros ->. reflexivity. Qed.

  Definition succ (c : tx) (st : state) : Prop :=
    st_final (tx_st c) = false /\ st_ver st = wrap64 (st_ver (tx_st c) + 1).
  Lemma vtc_ok_succ c st a : vtc c st a = OK -> succ c st.
  Proof.
    unfold vtc, valid_transition. cbn [current].
    destruct (nparts _ <=? a); [discriminate|].
    destruct (generic_valid _ (tx_st c) st) eqn:G; [|discriminate]. intros _.
    unfold generic_valid in G. split_and. split.
    - match goal with H : negb (st_final _) = true |- _ => apply negb_true_iff in H; exact H end.
    - match goal with H : (wrap64 _ =? _) = true |- _ => apply N.eqb_eq in H; symmetry; exact H end.
  Qed.
  Lemma succ_ver_lt c st : succ c st -> st_ver st < 18446744073709551616.
  Proof. intros [_ ->]. unfold wrap64. apply N.mod_lt. discriminate. Qed.

  Definition locked_same (c : tx) (st : state) : Prop :=
    suballocs_equal (al_locked (st_alloc (tx_st c))) (al_locked (st_alloc st)) = true.
  Lemma two_party_mkm p f stg c st a b :
    two_party_ok (mkm p f stg c) st a b =
    if (a =? b) && suballocs_equal (al_locked (st_alloc (tx_st c))) (al_locked (st_alloc st)) then OK else ERR.
  Proof. reflexivity. Qed.

  (* ----- the machine operations of the protocol on these machines ----- *)
  Lemma expect_AS p stg c : expect (mkm p Acting stg c) Acting Signing = true.
  Proof. reflexivity. Qed.
  Lemma nth_parts p : nth_error (mp_parts P) (N.to_nat (pidx p)) = Some (key p).
  Proof. rewrite HP. destruct p; reflexivity. Qed.
  Lemma nparts_mkm p f stg c : nparts (mkm p f stg c) = 2.
  Proof. unfold nparts, mkm. cbn [ps]. rewrite HP. reflexivity. Qed.

  Lemma op_update p c st a :
    vtc c st a = OK ->
    step (mkm p Acting None c) (OUpdate st a) = (mkm p Signing (stx p st None None) c, OK).
  Proof.
    intro V. cbn [step]. rewrite expect_AS. cbn [negb]. rewrite vt_mkm, V.
    unfold set_staging, new_tx. rewrite nparts_mkm. destruct p; reflexivity.
  Qed.
  Lemma op_update_gen p c st a :
    step (mkm p Acting None c) (OUpdate st a) =
    match vtc c st a with
    | OK => (mkm p Signing (stx p st None None) c, OK)
    | r => (mkm p Acting None c, r)
    end.
  Proof.
    destruct (vtc c st a) eqn:V; [apply op_update; exact V| | |];
      cbn [step]; rewrite expect_AS; cbn [negb]; rewrite vt_mkm, V; reflexivity.
  Qed.
  Lemma op_update_final p c st a : step (mkm p Final None c) (OUpdate st a) = (mkm p Final None c, ERR).
  Proof. reflexivity. Qed.
  Lemma vtc_no_sig c st a g : vtc c st a <> OKSig g.
  Proof. apply vt_no_sig. Qed.

  Lemma op_update_not_ok m st a : snd (step m (OUpdate st a)) <> OK -> fst (step m (OUpdate st a)) = m.
  Proof.
    intro H. destruct (snd (step m (OUpdate st a))) eqn:E.
    - elim H; reflexivity.
    - exfalso. revert E. cbn [step]. break_match; cbn [snd]; try discriminate;
        intro E; first [eapply vt_no_sig; eassumption | discriminate E].
    - apply step_fail_noop. auto.
    - apply step_fail_noop. auto.
  Qed.

  Lemma nth_sigs2_own p own oth : nth_error (sigs2 p own oth) (N.to_nat (pidx p)) = Some own.
  Proof. destruct p; reflexivity. Qed.
  Lemma nth_sigs2_oth p own oth : nth_error (sigs2 p own oth) (N.to_nat (pidx (other p))) = Some oth.
  Proof. destruct p; reflexivity. Qed.
  Lemma set_sigs2_own p own oth x : set_nth (N.to_nat (pidx p)) x (sigs2 p own oth) = sigs2 p x oth.
  Proof. destruct p; reflexivity. Qed.
  Lemma set_sigs2_oth p own oth x : set_nth (N.to_nat (pidx (other p))) x (sigs2 p own oth) = sigs2 p own x.
  Proof. destruct p; reflexivity. Qed.
  Lemma nth_parts_other p : nth_error (mp_parts P) (N.to_nat (pidx (other p))) = Some (key (other p)).
  Proof. apply nth_parts. Qed.

  Lemma signing_Signing : signing_phase Signing = true.
  Proof. reflexivity. Qed.

  Lemma op_sig p c st oth :
    state_encodable st = true ->
    step (mkm p Signing (stx p st None oth) c) OSig =
    (mkm p Signing (stx p st (Some (sigof p st)) oth) c, OKSig (sigof p st)).
  Proof.
    intro E. cbn [step mkm ph staging stx tx_sigs tx_st me ps current]. rewrite signing_Signing. cbn [negb].
    rewrite nth_sigs2_own, nth_parts. unfold sign_state. rewrite E.
    rewrite set_sigs2_own. reflexivity.
  Qed.
  Lemma op_sig_unencodable p c st oth :
    state_encodable st = false ->
    step (mkm p Signing (stx p st None oth) c) OSig = (mkm p Signing (stx p st None oth) c, ERR).
  Proof.
    intro E. cbn [step mkm ph staging stx tx_sigs tx_st me ps current]. rewrite signing_Signing. cbn [negb].
    rewrite nth_sigs2_own, nth_parts. unfold sign_state. rewrite E. reflexivity.
  Qed.

  Lemma op_addsig p c st own g :
    sig_ok (other p) st g ->
    step (mkm p Signing (stx p st own None) c) (OAddSig (pidx (other p)) g) =
    (mkm p Signing (stx p st own (Some g)) c, OK).
  Proof.
    intro V. cbn [step mkm ph staging stx tx_sigs tx_st me ps current]. rewrite signing_Signing. cbn [negb].
    rewrite nth_sigs2_oth, nth_parts_other. unfold sig_ok in V. rewrite V.
    rewrite set_sigs2_oth. reflexivity.
  Qed.

  Definition after (st : state) : phase := if st_final st then Final else Acting.
  Lemma op_enable p c st a b :
    step (mkm p Signing (stx p st (Some a) (Some b)) c)
         (enable_op (mkm p Signing (stx p st (Some a) (Some b)) c)) =
    (mkm p (after st) None (mkTx st (sigs2 p (Some a) (Some b))), OK).
  Proof.
    unfold enable_op, after. cbn [staging mkm stx tx_st].
    destruct (st_final st) eqn:F; cbn [step]; unfold enable_staged;
      cbn [staging mkm stx tx_st tx_sigs]; rewrite F; destruct p; reflexivity.
  Qed.

  Lemma op_discard p c stg : step (mkm p Signing stg c) ODiscard = (mkm p Acting None c, OK).
  Proof. reflexivity. Qed.

  Lemma op_check p c f st a g :
    vtc c st a = OK -> sig_ok (other p) st g ->
    snd (step (mkm p f None c) (OCheckUpdate st a g (pidx (other p)))) = OK.
  Proof.
    intros V S. cbn [step]. rewrite vt_mkm, V. cbn [mkm ps]. rewrite nth_parts_other.
    unfold sig_ok in S. rewrite S. reflexivity.
  Qed.
  Lemma op_check_inv p c f st a g :
    snd (step (mkm p f None c) (OCheckUpdate st a g (pidx (other p)))) = OK ->
    vtc c st a = OK /\ sig_ok (other p) st g.
  Proof.
    cbn [step]. rewrite vt_mkm. destruct (vtc c st a) eqn:V; cbn [snd]; try discriminate.
    cbn [mkm ps]. rewrite nth_parts_other. unfold sig_ok.
    destruct (verify_state (key (other p)) st g) as [[|]|]; cbn [snd]; try discriminate. auto.
  Qed.

  Lemma all_some_sigs2 p a b : all_some (sigs2 p a b) = match a, b with Some _, Some _ => true | _, _ => false end.
  Proof. destruct p, a, b; reflexivity. Qed.

  Lemma fs2_enabled p st g :
    state_encodable st = true -> sig_ok (other p) st g ->
    fs2 (mkTx st (sigs2 p (Some (sigof p st)) (Some g))).
  Proof.
    intros E V. pose proof (sigof_ok p st E) as V'. unfold fs2. cbn [tx_sigs tx_st].
    destruct p; cbn [sigs2 other] in *; eexists; eexists; (split; [reflexivity|]); split; assumption.
  Qed.
End Channel.
