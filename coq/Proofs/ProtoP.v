(* The protobuf serializer (Model/Proto.v): round trips of the conversions (C14), invariance of To* under
   the normalisation protobuf performs, absence of panics and the limits on the protobuf path (C13), the
   frame decoder: full reads only, chunking invariance, streams of frames (C16), agreement with the
   native serializer (C14), and the witnesses against the code before the repairs. *)
From Coq Require Import Arith PeanoNat ZifyN ZifyNat ZifyBool.
From V Require Import Model.Proto Proofs.WireP Proofs.ChannelP Proofs.CodecP Proofs.SafeP.
Open Scope N_scope.

(* ================= generic facts about res / mapM ================= *)
Lemma bind_ok_inv {A B} (r : res A) (k : A -> res B) b :
  res_bind r k = Ok b -> exists a, r = Ok a /\ k a = Ok b.
Proof. destruct r; cbn [res_bind]; intro H; try discriminate. eauto. Qed.

Lemma bind_np {A B} (r : res A) (k : A -> res B) :
  r <> Panic -> (forall a, k a <> Panic) -> res_bind r k <> Panic.
Proof. intros Hr Hk. destruct r; cbn [res_bind]; auto; discriminate. Qed.

Lemma mapM_np {A B} (f : A -> res B) l : (forall x, f x <> Panic) -> mapM f l <> Panic.
Proof.
  intro Hf. induction l as [|x l IH]; cbn [mapM]; [discriminate|].
  apply bind_np; [apply Hf|]. intro y. apply bind_np; [exact IH|]. intros; discriminate.
Qed.

Lemma mapM_rt {A B} (f : A -> res B) (g : B -> res A) (P : A -> Prop) :
  (forall x, P x -> exists y, f x = Ok y /\ g y = Ok x) ->
  forall l, Forall P l -> exists l', mapM f l = Ok l' /\ mapM g l' = Ok l.
Proof.
  intros H l Hl. induction Hl as [|x l Hx Hl IH]; cbn [mapM].
  - exists []. split; reflexivity.
  - destruct (H x Hx) as (y & Hf & Hg). destruct IH as (l' & Hf' & Hg').
    exists (y :: l'). rewrite Hf, Hf'. cbn [res_bind mapM]. rewrite Hg, Hg'. split; reflexivity.
Qed.

Lemma mapM_pure_rt {A B} (f : A -> res B) (g : B -> A) (P : A -> Prop) :
  (forall x, P x -> exists y, f x = Ok y /\ g y = x) ->
  forall l, Forall P l -> exists l', mapM f l = Ok l' /\ map g l' = l.
Proof.
  intros H l Hl. induction Hl as [|x l Hx Hl IH]; cbn [mapM].
  - exists []. split; reflexivity.
  - destruct (H x Hx) as (y & Hf & Hg). destruct IH as (l' & Hf' & Hg').
    exists (y :: l'). rewrite Hf, Hf'. cbn [res_bind map]. rewrite Hg, Hg'. split; reflexivity.
Qed.

Lemma mapM_ext {A B} (f g : A -> res B) l : (forall x, f x = g x) -> mapM f l = mapM g l.
Proof. intro H. induction l as [|x l IH]; cbn [mapM]; [reflexivity|]. rewrite H, IH. reflexivity. Qed.

Lemma mapM_map {A B C} (f : B -> res C) (h : A -> B) l : mapM f (map h l) = mapM (fun x => f (h x)) l.
Proof. induction l as [|x l IH]; cbn [mapM map]; [reflexivity|]. rewrite IH. reflexivity. Qed.

Lemma mapM_ok_Forall {A B} (f : A -> res B) (Q : B -> Prop) :
  (forall x y, f x = Ok y -> Q y) -> forall l l', mapM f l = Ok l' -> Forall Q l'.
Proof.
  intros H l. induction l as [|x l IH]; cbn [mapM]; intros l' E.
  - injection E as <-. constructor.
  - apply bind_ok_inv in E as (y & Hy & E). apply bind_ok_inv in E as (ys & Hys & E).
    injection E as <-. constructor; [eapply H; exact Hy|apply IH; exact Hys].
Qed.

Lemma mapM_ok_length {A B} (f : A -> res B) l l' : mapM f l = Ok l' -> length l' = length l.
Proof.
  revert l'. induction l as [|x l IH]; cbn [mapM]; intros l' E.
  - injection E as <-. reflexivity.
  - apply bind_ok_inv in E as (y & Hy & E). apply bind_ok_inv in E as (ys & Hys & E).
    injection E as <-. cbn [length]. f_equal. apply IH. exact Hys.
Qed.

(* ================= basic facts ================= *)
Lemma copy_to_exact n b : length b = n -> copy_to n b = b.
Proof. intro H. unfold copy_to, pad_to. subst n. apply firstn_app_exact. Qed.

Lemma dec_be_min n : dec_be (be_min n) = n.
Proof. unfold be_min. apply dec_enc_be. apply nbytes_bound. Qed.

Lemma bigint_rt z : (0 <= z)%Z -> bigint_of_bytes (bytes_of_bigint z) = z.
Proof.
  intro H. unfold bigint_of_bytes, bytes_of_bigint. rewrite dec_be_min.
  rewrite N2Z.inj_abs_N. apply Z.abs_eq. exact H.
Qed.

Lemma u64_s64_rt t : t < 18446744073709551616 -> u64_of_s64 (s64_of_u64 t) = t.
Proof.
  intro H. unfold u64_of_s64, s64_of_u64.
  destruct (N.ltb_spec t 9223372036854775808).
  - rewrite Z.mod_small by lia. lia.
  - replace (Z.of_N t - 18446744073709551616)%Z with (Z.of_N t + (-1) * 18446744073709551616)%Z by lia.
    rewrite Z.mod_add by lia. rewrite Z.mod_small by lia. lia.
Qed.

Lemma firstn_exact {A} (l : list A) n : length l = n -> firstn n l = l.
Proof. intro H. subst n. apply firstn_all. Qed.

Lemma key_rt k : (0 <= k < 2147483648)%Z ->
  from_key k = Ok (enc_be 4 (Z.to_N k)) /\ be_i32 (enc_be 4 (Z.to_N k)) = Ok k.
Proof.
  intro H. unfold from_key, be_i32. split.
  - destruct (Z.ltb_spec k 0); [lia|]. destruct (Z.ltb_spec 4294967295 k); [lia|]. reflexivity.
  - rewrite enc_be_length. change (4 <? 4)%nat with false. cbv iota.
    rewrite (firstn_exact _ 4) by apply enc_be_length.
    rewrite dec_enc_be by (change (256 ^ N.of_nat 4) with 4294967296; lia).
    unfold s32_of_u32. destruct (N.ltb_spec (Z.to_N k) 2147483648); [|lia]. f_equal. lia.
Qed.

(* ================= round trips: to_X (from_X v) = Ok v ================= *)
Lemma balance_rt l : nonneg l = true ->
  exists t, from_balance l = Ok t /\ to_balance (Some t) = l.
Proof.
  intro H. unfold from_balance, to_balance. cbn [og].
  apply (mapM_pure_rt _ bigint_of_bytes (fun z => (0 <= z)%Z)).
  - intros z Hz. destruct (Z.ltb_spec z 0); [lia|]. eexists; split; [reflexivity|apply bigint_rt; exact Hz].
  - apply forallb_Forall in H. eapply Forall_impl; [|exact H]. intros z Hz. cbv beta in Hz. lia.
Qed.

Lemma balances_rt b : forallb nonneg b = true ->
  exists t, from_balances b = Ok t /\ to_balances (Some t) = b.
Proof.
  intro H. unfold from_balances, to_balances. cbn [og].
  apply (mapM_pure_rt _ to_balance (fun r => nonneg r = true)).
  - intros r Hr. destruct (balance_rt r Hr) as (t & Hf & Ht). rewrite Hf. cbn [res_bind].
    eexists; split; [reflexivity|exact Ht].
  - apply forallb_Forall. exact H.
Qed.

Lemma index_map_rt l : forallb (fun x => x <? 65536) l = true -> to_index_map l = Ok l.
Proof.
  intro H. unfold to_index_map. induction l as [|x l IH]; cbn [mapM]; [reflexivity|].
  cbn [forallb] in H. apply andb_true_iff in H as [Hx Hl]. apply N.ltb_lt in Hx.
  destruct (N.ltb_spec 65535 x); [lia|]. cbn [res_bind]. rewrite (IH Hl). reflexivity.
Qed.

Lemma suballoc_rt s : suballoc_wf s = true ->
  exists t, from_suballoc s = Ok t /\ to_suballoc (Some t) = Ok s.
Proof.
  unfold suballoc_wf. intro H. split_and.
  match goal with H : bigints_ok _ = true |- _ => pose proof (bigints_ok_nonneg _ H) as Hb; rename H into Hl end.
  destruct (balance_rt _ Hb) as (t & Hf & Ht).
  unfold from_suballoc. rewrite Hf. cbn [res_bind]. eexists; split; [reflexivity|].
  unfold to_suballoc. cbn [og psa_id psa_bals psa_imap]. cbv zeta. rewrite Ht.
  unfold balance_lengths_ok. rewrite Hl. cbn [negb].
  match goal with H : (length (sa_id s) =? 32)%nat = true |- _ => rewrite H end. cbn [negb].
  rewrite index_map_rt by assumption. cbn [res_bind]. destruct s; reflexivity.
Qed.

Lemma balances_wf_nonneg b : balances_wf b = true -> forallb nonneg b = true.
Proof.
  unfold balances_wf. intro H. split_and. apply forallb_forall. intros r Hr.
  match goal with H : forallb _ b = true |- _ => rewrite forallb_forall in H; specialize (H r Hr) end.
  split_and. apply bigints_ok_nonneg. assumption.
Qed.

Lemma balances_wf_lengths b : balances_wf b = true -> forallb balance_lengths_ok b = true.
Proof.
  unfold balances_wf. intro H. split_and. apply forallb_forall. intros r Hr.
  match goal with H : forallb _ b = true |- _ => rewrite forallb_forall in H; specialize (H r Hr) end.
  split_and. assumption.
Qed.

Lemma balances_wf_dims b : balances_wf b = true -> fa_dims_ok b = true.
Proof.
  unfold balances_wf, fa_dims_ok. intro H. split_and. apply andb_true_iff; split; [assumption|].
  apply forallb_forall. intros r Hr.
  match goal with H : forallb _ b = true |- _ => rewrite forallb_forall in H; specialize (H r Hr) end.
  split_and. match goal with H : (len r =? _) = true |- _ => apply N.eqb_eq in H; rewrite H end. assumption.
Qed.

Lemma backends_rt l : forallb known_backend l = true ->
  mapM (fun b => if 4294967295 <? b then Panic else Ok (enc_be 4 b)) l = Ok (map (enc_be 4) l)
  /\ to_int_slice (map (enc_be 4) l) = Ok (map Z.of_N l) /\ map Z.to_N (map Z.of_N l) = l
  /\ Forall (fun z => known_backend_z z = true) (map Z.of_N l).
Proof.
  unfold to_int_slice. induction l as [|b l IH]; cbn [forallb mapM map]; intro H.
  - repeat split; constructor.
  - apply andb_true_iff in H as [Hb Hl]. unfold known_backend in Hb. apply N.eqb_eq in Hb. subst b.
    destruct (IH Hl) as (E1 & E2 & E3 & E4). rewrite E1, E2, E3.
    repeat split; try reflexivity. constructor; [reflexivity|exact E4].
Qed.

Lemma assets_rt backends assets :
  length backends = length assets ->
  Forall (fun z => known_backend_z z = true) backends ->
  forallb (fun x => x <? 18446744073709551616) assets = true ->
  mapM (fun p : Z * bytes =>
          if negb (known_backend_z (fst p)) then Err
          else if (length (snd p) =? asset_len)%nat then Ok (dec_be (snd p)) else Err)
       (combine backends (map enc_u64be assets)) = Ok assets.
Proof.
  revert assets. induction backends as [|b bs IH]; intros [|a as_] L Hb Ha; try discriminate.
  - reflexivity.
  - cbn [map combine mapM fst snd]. inversion Hb as [|? ? Hb1 Hb2]; subst.
    cbn [forallb] in Ha. apply andb_true_iff in Ha as [Ha1 Ha2]. apply N.ltb_lt in Ha1.
    rewrite Hb1. cbn [negb]. unfold enc_u64be. rewrite enc_be_length.
    change (8 =? asset_len)%nat with true. cbv iota.
    rewrite dec_enc_be by (change (256 ^ N.of_nat 8) with 18446744073709551616; exact Ha1).
    cbn [res_bind]. rewrite IH; [reflexivity| |exact Hb2|exact Ha2].
    cbn [length] in L. lia.
Qed.

Lemma alloc_rt a : alloc_wf a = true ->
  exists t, from_alloc a = Ok t /\ to_alloc (Some t) = Ok a.
Proof.
  unfold alloc_wf. intro H. split_and.
  match goal with H : forallb known_backend _ = true |- _ => destruct (backends_rt _ H) as (B1 & B2 & B3 & B4) end.
  match goal with H : forallb suballoc_wf _ = true |- _ =>
    destruct (mapM_rt (fun s => x <~ from_suballoc s ;; Ok (Some x)) to_suballoc
                (fun s => suballoc_wf s = true)
                ltac:(intros s Hs; destruct (suballoc_rt s Hs) as (t & Hf & Ht); rewrite Hf; cbn [res_bind]; eauto)
                _ (forallb_Forall _ _ H)) as (lk & L1 & L2) end.
  match goal with H : balances_wf _ = true |- _ =>
    destruct (balances_rt _ (balances_wf_nonneg _ H)) as (bt & F1 & F2) end.
  unfold from_alloc. rewrite B1. cbn [res_bind]. rewrite L1. cbn [res_bind]. rewrite F1. cbn [res_bind].
  eexists; split; [reflexivity|].
  unfold to_alloc. cbn [og pal_backends pal_assets pal_balances pal_locked].
  rewrite B2. cbn [res_bind]. rewrite !map_length.
  match goal with H : (len (al_backends a) =? len (al_assets a)) = true |- _ =>
    apply N.eqb_eq in H; unfold len in H; apply Nat2N.inj in H; rename H into HL end.
  rewrite HL, Nat.eqb_refl. cbn [negb].
  rewrite assets_rt; [|rewrite map_length; exact HL|exact B4|assumption].
  cbn [res_bind]. rewrite L2. cbn [res_bind]. rewrite B3, F2.
  rewrite balances_wf_lengths by assumption. cbn [negb].
  replace (mkAlloc (al_backends a) (al_assets a) (al_bals a) (al_locked a)) with a by (destruct a; reflexivity).
  match goal with H : alloc_valid a = true |- _ => rewrite H end. reflexivity.
Qed.

Lemma app_data_rt rs app d : data_ok rs app d = true ->
  to_app_and_data rs (fst (from_app_and_data app d)) (snd (from_app_and_data app d)) = Ok (app, d).
Proof.
  unfold data_ok, from_app_and_data, to_app_and_data. destruct app as [def|]; cbn [fst snd].
  - intro H. split_and. destruct def as [|x def]; [discriminate|].
    match goal with H : (length (x :: def) =? addr_len)%nat = true |- _ => rewrite H end. cbn [negb].
    destruct (rs (x :: def)) as [[|]|]; try discriminate.
    + destruct d; [reflexivity|discriminate].
    + match goal with H : (length d =? 8)%nat = true |- _ => rewrite H end. reflexivity.
  - destruct d; [reflexivity|discriminate].
Qed.

Lemma state_rt rs s : state_wf_rs rs s = true ->
  exists t, from_state s = Ok t /\ to_state rs (Some t) = Ok s.
Proof.
  unfold state_wf_rs, state_wf. intro H. split_and.
  match goal with H : alloc_wf _ = true |- _ => destruct (alloc_rt _ H) as (t & Hf & Ht) end.
  unfold from_state. rewrite Hf. cbn [res_bind]. eexists; split; [reflexivity|].
  unfold to_state. cbn [og pst_id pst_ver pst_app pst_alloc pst_data pst_final].
  rewrite Ht. cbn [res_bind]. rewrite app_data_rt by assumption. cbn [res_bind fst snd].
  rewrite copy_to_exact by (apply Nat.eqb_eq; assumption). destruct s; reflexivity.
Qed.

(* address maps: single entry (the configuration covered), key that FromWalletAddr/FromWireAddr accept *)
Lemma wamap_rt m : wamap_wf m = true ->
  exists t, from_amap m = Ok t /\ to_wamap (Some t) = Ok m.
Proof.
  unfold wamap_wf. destruct m as [|[k a] [|? ?]]; try discriminate. intro H. split_and.
  match goal with H : (k =? 0)%Z = true |- _ => apply Z.eqb_eq in H; subst k end.
  eexists; split; [reflexivity|].
  unfold to_wamap. cbn [og mapM pam_key pam_addr]. change (be_i32 (enc_be 4 (Z.to_N 0))) with (Ok 0%Z).
  cbn [res_bind known_backend_z Z.eqb negb fst snd].
  match goal with H : (length a =? addr_len)%nat = true |- _ => rewrite H end. reflexivity.
Qed.

Lemma ramap_rt m : ramap_wf m = true -> keys_nonneg m = true ->
  exists t, from_amap m = Ok t /\ to_ramap (Some t) = Ok m.
Proof.
  unfold ramap_wf, keys_nonneg. destruct m as [|[k a] [|? ?]]; try discriminate. intros H K. split_and.
  cbn [forallb fst] in K. rewrite andb_true_r in K.
  repeat match goal with
         | H : (_ <=? _)%Z = true |- _ => apply Z.leb_le in H
         | H : (_ <? _)%Z = true |- _ => apply Z.ltb_lt in H
         end.
  destruct (key_rt k ltac:(lia)) as [K1 K2].
  unfold from_amap. cbn [mapM fst snd]. rewrite K1. cbn [res_bind]. eexists; split; [reflexivity|].
  unfold to_ramap. cbn [og mapM pam_key pam_addr]. rewrite K2. cbn [res_bind].
  rewrite copy_to_exact by (apply Nat.eqb_eq; assumption). reflexivity.
Qed.

Lemma wamaps_rt l : forallb wamap_wf l = true ->
  exists t, from_amaps l = Ok t /\ to_wamaps t = Ok l.
Proof.
  intro H. unfold from_amaps, to_wamaps.
  apply (mapM_rt _ to_wamap (fun m => wamap_wf m = true)); [|apply forallb_Forall; exact H].
  intros m Hm. destruct (wamap_rt m Hm) as (t & Hf & Ht). rewrite Hf. cbn [res_bind]. eauto.
Qed.

Lemma ramaps_rt l : forallb ramap_wf l = true -> forallb keys_nonneg l = true ->
  exists t, from_amaps l = Ok t /\ to_ramaps t = Ok l.
Proof.
  intros H K. unfold from_amaps, to_ramaps.
  apply (mapM_rt _ to_ramap (fun m => ramap_wf m = true /\ keys_nonneg m = true)).
  - intros m [Hm Km]. destruct (ramap_rt m Hm Km) as (t & Hf & Ht). rewrite Hf. cbn [res_bind]. eauto.
  - apply Forall_forall. intros m Hm. rewrite forallb_forall in H, K. auto.
Qed.

Lemma app_rt rs app :
  match app with None => True
  | Some d => (length d =? addr_len)%nat && match rs d with Some _ => true | None => false end = true end ->
  to_app rs (from_app app) = Ok app.
Proof.
  unfold to_app, from_app. destruct app as [d|]; [|reflexivity]. intro H. split_and.
  destruct d as [|x d]; [discriminate|].
  match goal with H : (length (x :: d) =? addr_len)%nat = true |- _ => rewrite H end. cbn [negb].
  destruct (rs (x :: d)); [reflexivity|discriminate].
Qed.

Lemma params_rt rs p : params_wf rs p = true ->
  exists t, from_params p = Ok t /\ to_params rs (Some t) = Ok p.
Proof.
  unfold params_wf. intro H. split_and.
  match goal with H : forallb wamap_wf _ = true |- _ => destruct (wamaps_rt _ H) as (t & Hf & Ht) end.
  unfold from_params. rewrite Hf. cbn [res_bind]. eexists; split; [reflexivity|].
  unfold to_params. cbn [og pp_cd pp_parts pp_app pp_nonce pp_ledger pp_virtual pp_aux].
  rewrite app_rt by (destruct (p_app p); [assumption|exact I]). cbn [res_bind]. rewrite Ht. cbn [res_bind].
  assert (N0 : (0 <= p_nonce p)%Z).
  { match goal with H : new_params_ok p = true |- _ => unfold new_params_ok, nonce_ok in H end.
    split_and. apply Z.leb_le. assumption. }
  rewrite bigint_rt by exact N0. rewrite copy_to_exact by (apply Nat.eqb_eq; assumption).
  replace (mkParams _ _ _ _ _ _ _) with p by (destruct p; reflexivity).
  match goal with H : new_params_ok p = true |- _ => rewrite H end. reflexivity.
Qed.

Lemma sigs_rt g : sigs_wf g = true -> to_sigs (from_sigs g) = g.
Proof.
  unfold sigs_wf, to_sigs, from_sigs. induction g as [|o g IH]; cbn [forallb map]; intro H; [reflexivity|].
  apply andb_true_iff in H as [Ho Hg]. rewrite (IH Hg). f_equal.
  destruct o as [s|]; [|reflexivity]. destruct s; [discriminate|reflexivity].
Qed.

Lemma signed_rt rs p s g : params_wf rs p = true -> state_wf_rs rs s = true -> sigs_wf g = true ->
  exists t, from_signed p s g = Ok t /\ to_signed rs (Some t) = Ok (p, s, g).
Proof.
  intros Hp Hs Hg. destruct (params_rt rs p Hp) as (tp & P1 & P2). destruct (state_rt rs s Hs) as (ts & S1 & S2).
  unfold from_signed. rewrite P1, S1. cbn [res_bind]. eexists; split; [reflexivity|].
  unfold to_signed. cbn [og pss_params pss_state pss_sigs]. rewrite P2, S2. cbn [res_bind].
  rewrite sigs_rt by exact Hg. reflexivity.
Qed.

Lemma update_rt rs s a sg : update_wf rs s a sg = true ->
  exists t, from_update s a sg = Ok t /\ to_update rs (Some t) = Ok (s, a, sg).
Proof.
  unfold update_wf. intro H. split_and.
  match goal with H : state_wf_rs rs s = true |- _ => destruct (state_rt rs s H) as (ts & S1 & S2) end.
  unfold from_update. rewrite S1. cbn [res_bind]. eexists; split; [reflexivity|].
  unfold to_update. cbn [og pum_update pum_sig pcu_state pcu_actor].
  match goal with H : (a <? 65536) = true |- _ => apply N.ltb_lt in H end.
  destruct (N.ltb_spec 65535 a); [lia|]. rewrite S2. reflexivity.
Qed.

Lemma baseprop_rt rs b : baseprop_wf rs b = true ->
  exists t, from_baseprop b = Ok t /\ to_baseprop rs (Some t) = Ok b.
Proof.
  unfold baseprop_wf, id32. intro H. split_and.
  match goal with H : alloc_wf _ = true |- _ => destruct (alloc_rt _ H) as (ta & A1 & A2) end.
  match goal with H : balances_wf _ = true |- _ =>
    destruct (balances_rt _ (balances_wf_nonneg _ H)) as (tf & F1 & F2) end.
  unfold from_baseprop. rewrite A1. cbn [res_bind]. rewrite F1. cbn [res_bind]. eexists; split; [reflexivity|].
  unfold to_baseprop. cbn [og pbp_id pbp_cd pbp_nonce pbp_app pbp_data pbp_bals pbp_fa pbp_aux].
  rewrite A2. cbn [res_bind]. rewrite F2.
  rewrite balances_wf_dims, balances_wf_lengths by assumption. cbn [negb].
  rewrite app_data_rt by assumption. cbn [res_bind fst snd].
  rewrite !copy_to_exact by (apply Nat.eqb_eq; assumption). destruct b; reflexivity.
Qed.

Lemma ids_rt l : forallb id32 l = true -> map (copy_to 32) l = l.
Proof.
  induction l as [|x l IH]; cbn [forallb map]; intro H; [reflexivity|].
  apply andb_true_iff in H as [Hx Hl]. rewrite (IH Hl), copy_to_exact; [reflexivity|].
  apply Nat.eqb_eq. exact Hx.
Qed.

Lemma imaps_rt l : forallb imap_ok l = true ->
  mapM (fun om => to_index_map (og [] om)) (map Some l) = Ok l.
Proof.
  induction l as [|x l IH]; cbn [forallb map mapM]; intro H; [reflexivity|].
  apply andb_true_iff in H as [Hx Hl]. unfold imap_ok in Hx. apply andb_true_iff in Hx as [_ Hx].
  cbn [og]. rewrite (index_map_rt x Hx). cbn [res_bind]. rewrite (IH Hl). reflexivity.
Qed.

Ltac use_rt :=
  repeat match goal with
         | H : baseprop_wf ?rs ?b = true |- _ =>
             let t := fresh "tb" in let F := fresh "F" in let T := fresh "T" in
             destruct (baseprop_rt rs b H) as (t & F & T); clear H
         | H : wamap_wf ?m = true |- _ =>
             let t := fresh "tw" in let F := fresh "F" in let T := fresh "T" in
             destruct (wamap_rt m H) as (t & F & T); clear H
         | H : update_wf ?rs ?s ?a ?g = true |- _ =>
             let t := fresh "tu" in let F := fresh "F" in let T := fresh "T" in
             destruct (update_rt rs s a g H) as (t & F & T); clear H
         end.

Lemma msg_rt rs m : msg_wf rs m = true -> msg_pwf m = true ->
  exists t, from_msg m = Ok t /\ to_msg rs t = Ok m.
Proof.
  destruct m; cbn [msg_wf msg_pwf]; intros H K; split_and; unfold u64_ok, id32 in *.
  - (* ping *) eexists; split; [reflexivity|]. cbn [to_msg og]. rewrite u64_s64_rt by (apply N.ltb_lt; assumption). reflexivity.
  - eexists; split; [reflexivity|]. cbn [to_msg og]. rewrite u64_s64_rt by (apply N.ltb_lt; assumption). reflexivity.
  - eexists; split; reflexivity.
  - eexists; split; reflexivity.
  - (* ledger proposal *)
    match goal with H : ramaps_wf _ = true |- _ => unfold ramaps_wf in H end. split_and.
    match goal with H : forallb ramap_wf ?l = true |- _ => destruct (ramaps_rt l H K) as (tp & P1 & P2) end.
    use_rt. cbn [from_msg]. rewrite F, F0, P1. cbn [res_bind]. eexists; split; [reflexivity|].
    cbn [to_msg og plp_base plp_part plp_peers]. rewrite T, T0, P2. cbn [res_bind].
    repeat match goal with H : (_ <=? _) = true |- _ => apply N.leb_le in H end.
    change MinNumParts with 2.
    destruct (N.ltb_spec (len peers) 2); [lia|]. destruct (N.ltb_spec MaxNumParts (len peers)); [lia|]. reflexivity.
  - (* ledger acc *)
    use_rt. cbn [from_msg]. rewrite F. cbn [res_bind]. eexists; split; [reflexivity|].
    cbn [to_msg og pla_base pla_part to_baseacc from_baseacc pba_id pba_nonce fst snd]. rewrite T. cbn [res_bind].
    rewrite !copy_to_exact by (apply Nat.eqb_eq; assumption). reflexivity.
  - (* sub proposal *)
    use_rt. cbn [from_msg]. rewrite F. cbn [res_bind]. eexists; split; [reflexivity|].
    cbn [to_msg og psp_base psp_parent]. rewrite T. cbn [res_bind].
    rewrite copy_to_exact by (apply Nat.eqb_eq; assumption). reflexivity.
  - (* sub acc *)
    eexists; split; [reflexivity|]. cbn [to_msg og to_baseacc from_baseacc pba_id pba_nonce fst snd].
    rewrite !copy_to_exact by (apply Nat.eqb_eq; assumption). reflexivity.
  - (* virtual proposal *)
    match goal with H : ramaps_wf _ = true |- _ => unfold ramaps_wf in H end. split_and.
    match goal with H : forallb ramap_wf ?l = true, K : forallb keys_nonneg ?l = true |- _ =>
      destruct (ramaps_rt l H K) as (tp & P1 & P2) end.
    use_rt. cbn [from_msg]. rewrite F, F0, P1. cbn [res_bind]. eexists; split; [reflexivity|].
    cbn [to_msg og pvp_base pvp_proposer pvp_peers pvp_parents pvp_imaps]. rewrite T, T0. cbn [res_bind].
    rewrite imaps_rt by assumption. cbn [res_bind]. rewrite P2. cbn [res_bind].
    match goal with H : (len peers <=? MaxNumParts) = true |- _ => apply N.leb_le in H end.
    destruct (N.ltb_spec MaxNumParts (len peers)); [lia|].
    rewrite ids_rt by assumption. reflexivity.
  - (* virtual acc *)
    use_rt. cbn [from_msg]. rewrite F. cbn [res_bind]. eexists; split; [reflexivity|].
    cbn [to_msg og pva_base pva_resp to_baseacc from_baseacc pba_id pba_nonce fst snd]. rewrite T. cbn [res_bind].
    rewrite !copy_to_exact by (apply Nat.eqb_eq; assumption). reflexivity.
  - (* proposal rej *)
    eexists; split; [reflexivity|]. cbn [to_msg og ppr_id ppr_reason].
    rewrite copy_to_exact by (apply Nat.eqb_eq; assumption). reflexivity.
  - (* update *)
    use_rt. cbn [from_msg]. rewrite F. cbn [res_bind]. eexists; split; [reflexivity|].
    cbn [to_msg]. rewrite T. reflexivity.
  - (* virtual funding *)
    match goal with Hp : params_wf rs ?p = true, Hs : state_wf_rs rs ?s = true, Hg : sigs_wf ?g = true |- _ =>
      destruct (signed_rt rs p s g Hp Hs Hg) as (ti & I1 & I2) end.
    use_rt. cbn [from_msg]. rewrite I1, F. cbn [res_bind]. eexists; split; [reflexivity|].
    cbn [to_msg og pvf_update pvf_initial pvf_imap]. rewrite I2. cbn [res_bind].
    match goal with H : imap_ok _ = true |- _ => unfold imap_ok in H; apply andb_true_iff in H as [_ H];
      rewrite (index_map_rt _ H) end.
    cbn [res_bind]. rewrite T. reflexivity.
  - (* virtual settlement *)
    match goal with Hp : params_wf rs ?p = true, Hs : state_wf_rs rs ?s = true, Hg : sigs_wf ?g = true |- _ =>
      destruct (signed_rt rs p s g Hp Hs Hg) as (ti & I1 & I2) end.
    use_rt. cbn [from_msg]. rewrite F, I1. cbn [res_bind]. eexists; split; [reflexivity|].
    cbn [to_msg og pvs_update pvs_final]. rewrite I2. cbn [res_bind]. rewrite T. reflexivity.
  - (* update acc *)
    eexists; split; [reflexivity|]. cbn [to_msg og pua_id pua_ver pua_sig].
    rewrite copy_to_exact by (apply Nat.eqb_eq; assumption). reflexivity.
  - (* update rej *)
    eexists; split; [reflexivity|]. cbn [to_msg og pur_id pur_ver pur_reason].
    rewrite copy_to_exact by (apply Nat.eqb_eq; assumption). reflexivity.
  - (* sync *)
    destruct t as [[s g]|]; [|discriminate]. cbn [tx_wf] in *. split_and.
    match goal with H : state_wf_rs rs s = true |- _ => destruct (state_rt rs s H) as (ts & S1 & S2) end.
    cbn [from_msg]. rewrite S1. cbn [res_bind]. eexists; split; [reflexivity|].
    cbn [to_msg og psy_phase psy_tx ptx_state ptx_sigs].
    match goal with H : (phase <? 256) = true |- _ => apply N.ltb_lt in H end.
    destruct (N.ltb_spec 255 phase); [lia|]. rewrite S2. cbn [res_bind]. rewrite sigs_rt by assumption. reflexivity.
Qed.

Lemma envelope_rt rs e : envelope_wf rs e = true -> envelope_pwf e = true ->
  exists t, from_envelope e = Ok t /\ to_envelope rs t = Ok e.
Proof.
  unfold envelope_wf, envelope_pwf. intros H K. split_and.
  match goal with H : msg_wf rs _ = true, K : msg_pwf _ = true |- _ => destruct (msg_rt rs _ H K) as (tm & M1 & M2) end.
  match goal with H : ramap_wf (e_sender e) = true, K : keys_nonneg (e_sender e) = true |- _ =>
    destruct (ramap_rt _ H K) as (ts & S1 & S2) end.
  match goal with H : ramap_wf (e_recipient e) = true, K : keys_nonneg (e_recipient e) = true |- _ =>
    destruct (ramap_rt _ H K) as (tr & R1 & R2) end.
  unfold from_envelope. rewrite M1, S1, R1. cbn [res_bind]. eexists; split; [reflexivity|].
  unfold to_envelope. cbn [pe_sender pe_recipient pe_msg]. rewrite S2, R2. cbn [res_bind]. rewrite M2. cbn [res_bind].
  destruct e; reflexivity.
Qed.

(* ================= To* does not see the normalisation: to_X (norm t) = to_X t ================= *)
Lemma mapM_norm_list {A B} (f : option A -> res B) (z : A) (n : A -> A) l :
  (forall o, f (Some (n (og z o))) = f o) -> mapM f (norm_list z n l) = mapM f l.
Proof. intro H. unfold norm_list. rewrite mapM_map. apply mapM_ext. exact H. Qed.

Lemma map_norm_list {A B} (f : option A -> B) (z : A) (n : A -> A) l :
  (forall o, f (Some (n (og z o))) = f o) -> map f (norm_list z n l) = map f l.
Proof. intro H. unfold norm_list. rewrite map_map. apply map_ext. exact H. Qed.

Lemma to_wamap_norm o : to_wamap (option_map norm_addr o) = to_wamap o.
Proof.
  unfold to_wamap. destruct o as [a|]; cbn [option_map og]; [|reflexivity].
  unfold norm_addr. rewrite mapM_norm_list; [reflexivity|]. intros [m|]; reflexivity.
Qed.
Lemma to_ramap_norm o : to_ramap (option_map norm_addr o) = to_ramap o.
Proof.
  unfold to_ramap. destruct o as [a|]; cbn [option_map og]; [|reflexivity].
  unfold norm_addr. rewrite mapM_norm_list; [reflexivity|]. intros [m|]; reflexivity.
Qed.
Lemma to_wamap_norm_elem o : to_wamap (Some (norm_addr (og [] o))) = to_wamap o.
Proof. destruct o as [a|]; [apply (to_wamap_norm (Some a))|reflexivity]. Qed.
Lemma to_ramap_norm_elem o : to_ramap (Some (norm_addr (og [] o))) = to_ramap o.
Proof. destruct o as [a|]; [apply (to_ramap_norm (Some a))|reflexivity]. Qed.
Lemma to_wamaps_norm l : to_wamaps (norm_list [] norm_addr l) = to_wamaps l.
Proof. unfold to_wamaps. apply mapM_norm_list. exact to_wamap_norm_elem. Qed.
Lemma to_ramaps_norm l : to_ramaps (norm_list [] norm_addr l) = to_ramaps l.
Proof. unfold to_ramaps. apply mapM_norm_list. exact to_ramap_norm_elem. Qed.

Lemma to_balances_norm o : to_balances (option_map norm_balances o) = to_balances o.
Proof.
  unfold to_balances. destruct o as [b|]; cbn [option_map og]; [|reflexivity].
  unfold norm_balances. apply map_norm_list. intros [r|]; reflexivity.
Qed.

Lemma to_alloc_norm o : to_alloc (option_map norm_alloc o) = to_alloc o.
Proof.
  destruct o as [a|]; cbn [option_map]; [|reflexivity].
  unfold to_alloc. cbn [og norm_alloc pal_backends pal_assets pal_balances pal_locked].
  rewrite to_balances_norm. rewrite (mapM_norm_list to_suballoc zPSA idf); [reflexivity|].
  intros [s|]; reflexivity.
Qed.

Lemma to_state_norm rs o : to_state rs (option_map norm_state o) = to_state rs o.
Proof.
  destruct o as [s|]; cbn [option_map]; [|reflexivity].
  unfold to_state. cbn [og norm_state pst_id pst_ver pst_app pst_alloc pst_data pst_final].
  rewrite to_alloc_norm. reflexivity.
Qed.

Lemma to_params_norm rs o : to_params rs (option_map norm_params o) = to_params rs o.
Proof.
  destruct o as [p|]; cbn [option_map]; [|reflexivity].
  unfold to_params. cbn [og norm_params pp_cd pp_parts pp_app pp_nonce pp_ledger pp_virtual pp_aux].
  rewrite to_wamaps_norm. reflexivity.
Qed.

Lemma to_signed_norm rs o : to_signed rs (option_map norm_signed o) = to_signed rs o.
Proof.
  destruct o as [s|]; cbn [option_map]; [|reflexivity].
  unfold to_signed. cbn [og norm_signed pss_params pss_state pss_sigs].
  rewrite to_params_norm, to_state_norm. reflexivity.
Qed.

Lemma to_update_norm rs o : to_update rs (option_map norm_update o) = to_update rs o.
Proof.
  destruct o as [u|]; cbn [option_map]; [|reflexivity].
  unfold to_update. cbn [og norm_update pum_update pum_sig].
  destruct (pum_update u) as [cu|]; cbn [option_map og norm_chupdate pcu_state pcu_actor]; [|reflexivity].
  rewrite to_state_norm. reflexivity.
Qed.

Lemma to_baseprop_norm rs o : to_baseprop rs (option_map norm_baseprop o) = to_baseprop rs o.
Proof.
  destruct o as [b|]; cbn [option_map]; [|reflexivity].
  unfold to_baseprop. cbn [og norm_baseprop pbp_id pbp_cd pbp_nonce pbp_app pbp_data pbp_bals pbp_fa pbp_aux].
  rewrite to_alloc_norm, to_balances_norm. reflexivity.
Qed.

Lemma to_msg_norm rs m : to_msg rs (norm_msg m) = to_msg rs m.
Proof.
  destruct m as [o|o|o|o|o|o|o|o|o|o|o|o|o|o|o|o|o]; cbn [norm_msg norm_inner to_msg og idf].
  - destruct o; reflexivity.
  - destruct o; reflexivity.
  - destruct o; reflexivity.
  - destruct o; reflexivity.
  - cbn [plp_base plp_part plp_peers]. rewrite to_baseprop_norm, to_wamap_norm, to_ramaps_norm.
    destruct o; reflexivity.
  - cbn [pla_base pla_part]. rewrite to_wamap_norm. destruct o; reflexivity.
  - cbn [psp_base psp_parent]. rewrite to_baseprop_norm. destruct o; reflexivity.
  - destruct o; reflexivity.
  - cbn [pvp_base pvp_proposer pvp_peers pvp_parents pvp_imaps].
    rewrite to_baseprop_norm, to_wamap_norm, to_ramaps_norm.
    rewrite (mapM_norm_list (fun om => to_index_map (og [] om)) [] idf) by (intros [x|]; reflexivity).
    destruct o; reflexivity.
  - cbn [pva_base pva_resp]. rewrite to_wamap_norm. destruct o; reflexivity.
  - destruct o; reflexivity.
  - unfold norm_inner. change (Some (norm_update (og zPUM o))) with (option_map norm_update (Some (og zPUM o))).
    rewrite to_update_norm. destruct o; reflexivity.
  - cbn [pvf_update pvf_initial pvf_imap]. rewrite to_signed_norm, to_update_norm. destruct o; reflexivity.
  - cbn [pvs_update pvs_final]. rewrite to_signed_norm, to_update_norm. destruct o; reflexivity.
  - destruct o; reflexivity.
  - destruct o; reflexivity.
  - cbn [psy_phase psy_tx]. destruct (psy_tx (og zPSy o)) as [tx|]; cbn [option_map og norm_tx ptx_state ptx_sigs].
    + rewrite to_state_norm. destruct o; reflexivity.
    + destruct o; reflexivity.
Qed.

Lemma to_envelope_norm rs e : to_envelope rs (norm_env e) = to_envelope rs e.
Proof.
  unfold to_envelope, norm_env. cbn [pe_sender pe_recipient pe_msg].
  rewrite !to_ramap_norm. destruct (pe_msg e) as [m|]; cbn [option_map]; [|reflexivity].
  rewrite to_msg_norm. reflexivity.
Qed.

(* trees produced by From* are already normal *)

(* ================= C13: no conversion panics, whatever the tree ================= *)
Create HintDb np.
Ltac np_step :=
  match goal with
  | |- res_bind _ _ <> Panic => apply bind_np; [|intro]
  | |- mapM _ _ <> Panic => apply mapM_np; intro
  | |- Ok _ <> Panic => discriminate
  | |- Err <> Panic => discriminate
  | |- (if ?c then _ else _) <> Panic => destruct c
  | |- (match ?x with _ => _ end) <> Panic => destruct x
  | |- _ <> Panic => solve [auto with np]
  end.
Ltac np := cbv zeta; repeat np_step.

Lemma be_i32_np b : be_i32 b <> Panic. Proof. unfold be_i32. np. Qed.
#[export] Hint Resolve be_i32_np : np.
Lemma to_wamap_np o : to_wamap o <> Panic. Proof. unfold to_wamap. np. Qed.
Lemma to_ramap_np o : to_ramap o <> Panic. Proof. unfold to_ramap. np. Qed.
#[export] Hint Resolve to_wamap_np to_ramap_np : np.
Lemma to_wamaps_np l : to_wamaps l <> Panic. Proof. unfold to_wamaps. np. Qed.
Lemma to_ramaps_np l : to_ramaps l <> Panic. Proof. unfold to_ramaps. np. Qed.
Lemma to_index_map_np l : to_index_map l <> Panic. Proof. unfold to_index_map. np. Qed.
#[export] Hint Resolve to_wamaps_np to_ramaps_np to_index_map_np : np.
Lemma to_suballoc_np o : to_suballoc o <> Panic. Proof. unfold to_suballoc. np. Qed.
Lemma to_int_slice_np l : to_int_slice l <> Panic. Proof. unfold to_int_slice. np. Qed.
#[export] Hint Resolve to_suballoc_np to_int_slice_np : np.
Lemma to_alloc_np o : to_alloc o <> Panic. Proof. unfold to_alloc. np. Qed.
Lemma to_app_np rs a : to_app rs a <> Panic. Proof. unfold to_app. np. Qed.
Lemma to_app_and_data_np rs a d : to_app_and_data rs a d <> Panic. Proof. unfold to_app_and_data. np. Qed.
#[export] Hint Resolve to_alloc_np to_app_np to_app_and_data_np : np.
Lemma to_state_np rs o : to_state rs o <> Panic. Proof. unfold to_state. np. Qed.
Lemma to_params_np rs o : to_params rs o <> Panic. Proof. unfold to_params. np. Qed.
#[export] Hint Resolve to_state_np to_params_np : np.
Lemma to_signed_np rs o : to_signed rs o <> Panic. Proof. unfold to_signed. np. Qed.
Lemma to_update_np rs o : to_update rs o <> Panic. Proof. unfold to_update. np. Qed.
Lemma to_baseprop_np rs o : to_baseprop rs o <> Panic. Proof. unfold to_baseprop. np. Qed.
#[export] Hint Resolve to_signed_np to_update_np to_baseprop_np : np.
Lemma to_msg_np rs m : to_msg rs m <> Panic. Proof. destruct m; cbn [to_msg]; np. Qed.
#[export] Hint Resolve to_msg_np : np.
Lemma to_envelope_np rs e : to_envelope rs e <> Panic. Proof. unfold to_envelope. np. Qed.

(* ================= C13: what is accepted is within the documented limits ================= *)
Ltac inv_ok H :=
  repeat match type of H with
         | res_bind _ _ = Ok _ =>
             let x := fresh "x" in let E := fresh "E" in apply bind_ok_inv in H as (x & E & H)
         | (if negb ?c then _ else _) = Ok _ =>
             let V := fresh "V" in destruct c eqn:V; cbn [negb] in H; [|discriminate]
         | (if ?c then Err else _) = Ok _ => let V := fresh "V" in destruct c eqn:V; [discriminate|]
         | (if ?c then _ else Err) = Ok _ => let V := fresh "V" in destruct c eqn:V; [|discriminate]
         end.

Lemma to_suballoc_amounts o s : to_suballoc o = Ok s -> bigints_ok (sa_bals s) = true.
Proof.
  unfold to_suballoc. cbv zeta. intro H. inv_ok H. injection H as <-. cbn [sa_bals]. assumption.
Qed.

(* amounts no longer than MaxBigIntLength, in the balances and in the sub-allocations *)
Definition alloc_amounts_ok (a : alloc) : bool :=
  forallb bigints_ok (al_bals a) && forallb (fun l => bigints_ok (sa_bals l)) (al_locked a).

Lemma to_alloc_valid o a : to_alloc o = Ok a -> alloc_valid a = true.
Proof. unfold to_alloc. cbv zeta. intro H. inv_ok H. injection H as <-. assumption. Qed.

Lemma to_alloc_amounts o a : to_alloc o = Ok a -> alloc_amounts_ok a = true.
Proof.
  unfold to_alloc. cbv zeta. intro H. inv_ok H. injection H as <-.
  unfold alloc_amounts_ok. cbn [al_bals al_locked]. apply andb_true_iff; split; [assumption|].
  apply forallb_forall. apply Forall_forall.
  eapply (mapM_ok_Forall to_suballoc (fun s => bigints_ok (sa_bals s) = true)); [|eassumption].
  intros sx sy Hsx. eapply to_suballoc_amounts; exact Hsx.
Qed.

Lemma to_state_valid rs o s : to_state rs o = Ok s -> alloc_valid (st_alloc s) = true.
Proof.
  unfold to_state. cbv zeta. intro H. apply bind_ok_inv in H as (a & Ha & H).
  apply bind_ok_inv in H as (ad & _ & H). injection H as <-. cbn [st_alloc]. eapply to_alloc_valid; exact Ha.
Qed.

Lemma to_params_ok rs o p : to_params rs o = Ok p -> new_params_ok p = true.
Proof.
  unfold to_params. cbv zeta. intro H. apply bind_ok_inv in H as (app & _ & H).
  apply bind_ok_inv in H as (parts & _ & H).
  match type of H with (if ?c then _ else _) = _ => destruct c eqn:V; [|discriminate] end.
  injection H as <-. exact V.
Qed.

Lemma to_baseprop_valid rs o b : to_baseprop rs o = Ok b -> alloc_valid (bp_bals b) = true.
Proof.
  unfold to_baseprop. cbv zeta. intro H. inv_ok H. injection H as <-. cbn [bp_bals].
  eapply to_alloc_valid; eassumption.
Qed.

Lemma to_baseprop_fa rs o b : to_baseprop rs o = Ok b ->
  fa_dims_ok (bp_fa b) = true /\ forallb bigints_ok (bp_fa b) = true /\ alloc_amounts_ok (bp_bals b) = true.
Proof.
  unfold to_baseprop. cbv zeta. intro H. inv_ok H. injection H as <-. cbn [bp_fa bp_bals].
  repeat split; try assumption. eapply to_alloc_amounts; eassumption.
Qed.

Lemma to_state_amounts rs o s : to_state rs o = Ok s -> alloc_amounts_ok (st_alloc s) = true.
Proof.
  unfold to_state. cbv zeta. intro H. inv_ok H. injection H as <-. cbn [st_alloc].
  eapply to_alloc_amounts; eassumption.
Qed.

Lemma to_update_valid rs o s a g : to_update rs o = Ok (s, a, g) -> alloc_valid (st_alloc s) = true /\ a < 65536.
Proof.
  unfold to_update. cbv zeta. intro H.
  destruct (N.ltb_spec 65535 (pcu_actor (og zPCU (pum_update (og zPUM o))))); [discriminate|].
  apply bind_ok_inv in H as (s' & Hs & H). injection H as <- <- <-. split; [eapply to_state_valid; exact Hs|lia].
Qed.

Lemma to_signed_valid rs o p s g : to_signed rs o = Ok (p, s, g) ->
  new_params_ok p = true /\ alloc_valid (st_alloc s) = true.
Proof.
  unfold to_signed. cbv zeta. intro H. apply bind_ok_inv in H as (p' & Hp & H).
  apply bind_ok_inv in H as (s' & Hs & H). injection H as <- <- <-.
  split; [eapply to_params_ok; exact Hp|eapply to_state_valid; exact Hs].
Qed.

(* the allocations and parameters a message carries *)
Definition msg_allocs (m : msg) : list alloc :=
  match m with
  | MLedgerProp b _ _ | MSubProp b _ | MVirtProp b _ _ _ _ => [bp_bals b]
  | MUpdate s _ _ => [st_alloc s]
  | MVFund s _ _ _ ist _ _ | MVSettle s _ _ _ ist _ => [st_alloc s; st_alloc ist]
  | MSync _ (Some (s, _)) => [st_alloc s]
  | _ => []
  end.
Definition msg_params (m : msg) : list params :=
  match m with
  | MVFund _ _ _ p _ _ _ | MVSettle _ _ _ p _ _ => [p]
  | _ => []
  end.

Lemma to_msg_limits rs t m : to_msg rs t = Ok m ->
  Forall (fun a => alloc_valid a = true) (msg_allocs m) /\ Forall (fun p => new_params_ok p = true) (msg_params m).
Proof.
  destruct t; cbn [to_msg]; cbv zeta; intro H;
    repeat match type of H with
           | res_bind _ _ = Ok _ => let x := fresh "x" in let E := fresh "E" in apply bind_ok_inv in H as (x & E & H)
           | (if ?c then _ else _) = Ok _ => destruct c; [discriminate|]
           end;
    try (injection H as <-; cbn [msg_allocs msg_params]; split; repeat constructor;
         try (eapply to_baseprop_valid; eassumption)).
  - (* update *) destruct x as [[s a] g]. apply to_update_valid in E as [V _]. exact V.
  - (* funding *) destruct x as [[p s] g]. destruct x1 as [[s' a] g']. cbn [fst snd].
    apply to_update_valid in E1 as [V _]. exact V.
  - destruct x as [[p s] g]. cbn [fst snd]. apply to_signed_valid in E as [_ V]. exact V.
  - destruct x as [[p s] g]. cbn [fst snd]. apply to_signed_valid in E as [V _]. exact V.
  - (* settlement *) destruct x0 as [[s' a] g']. cbn [fst snd]. apply to_update_valid in E0 as [V _]. exact V.
  - destruct x as [[p s] g]. cbn [fst snd]. apply to_signed_valid in E as [_ V]. exact V.
  - destruct x as [[p s] g]. cbn [fst snd]. apply to_signed_valid in E as [V _]. exact V.
  - (* sync *) eapply to_state_valid; eassumption.
Qed.

Lemma to_envelope_limits rs t e : to_envelope rs t = Ok e ->
  Forall (fun a => alloc_valid a = true) (msg_allocs (e_msg e))
  /\ Forall (fun p => new_params_ok p = true) (msg_params (e_msg e)).
Proof.
  unfold to_envelope. intro H. apply bind_ok_inv in H as (s & _ & H). apply bind_ok_inv in H as (r & _ & H).
  destruct (pe_msg t) as [m|]; [|discriminate]. apply bind_ok_inv in H as (x & Hx & H). injection H as <-.
  cbn [e_msg]. eapply to_msg_limits; exact Hx.
Qed.

(* ================= the frame decoder (C16, C14) ================= *)
Lemma of_res_full_only {A} (r : res A) : full_only (of_res r).
Proof. destruct r; constructor. Qed.

Lemma fo_dec_pframe unm rs : full_only (dec_pframe unm rs).
Proof.
  unfold dec_pframe. constructor. intro lb. constructor. constructor. intro data.
  destruct (unm data); [apply of_res_full_only|constructor].
Qed.

Lemma safe_dec_pframe unm rs : safe (dec_pframe unm rs).
Proof.
  unfold dec_pframe. constructor. intro lb. constructor. constructor. intro data.
  destruct (unm data) as [pe|]; [|constructor].
  pose proof (to_envelope_np rs pe) as N. destruct (to_envelope rs pe); cbn [of_res]; try constructor.
  elim N; reflexivity.
Qed.

Lemma run_flat_alloc {A} n (k : prog A) bs : run_flat (Alloc n k) bs = run_flat k bs.
Proof. reflexivity. Qed.

(* chunks left over by a full-read decoder are again non-empty chunks *)
Lemma run_chunked_nonempty {A} (p : prog A) : full_only p ->
  forall cs a r, Forall nonempty cs -> run_chunked p cs = Ok (a, r) -> Forall nonempty r.
Proof.
  intro Hp; induction Hp as [x| | |n k Hk IH|n k Hk IH|n k Hn Hk IH]; intros cs a r Hne E; cbn [run_chunked] in E;
    try discriminate.
  - injection E as <- <-. exact Hne.
  - eapply IH; eassumption.
  - pose proof (take_full_spec n cs Hne) as S. destruct (take_full n cs) as [[b r0]|]; [|discriminate].
    destruct S as (_ & _ & _ & S). eapply IH; eassumption.
  - pose proof (take_once_spec n cs Hn Hne) as S. destruct (take_once n cs) as [[b r0]|]; [|discriminate].
    destruct S as (_ & _ & _ & S). eapply IH; eassumption.
Qed.

(* decoding until the chunks are used up *)
Fixpoint dec_all_chunked {A} (d : prog A) (fuel : nat) (cs : list bytes) : option (list A) :=
  match fuel with
  | O => None
  | S f => match cs with
           | [] => Some []
           | _ => match run_chunked d cs with
                  | Ok (a, r) => option_map (cons a) (dec_all_chunked d f r)
                  | _ => None
                  end
           end
  end.

Lemma dec_all_chunked_S {A} (d : prog A) f cs :
  dec_all_chunked d (S f) cs = match cs with
                               | [] => Some []
                               | _ => match run_chunked d cs with
                                      | Ok (a, r) => option_map (cons a) (dec_all_chunked d f r)
                                      | _ => None
                                      end
                               end.
Proof. reflexivity. Qed.

Lemma concat_nil_nonempty cs : Forall nonempty cs -> concat cs = [] -> cs = [].
Proof.
  intros H E. destruct cs as [|c cs]; [reflexivity|]. inversion H as [|? ? Hc _]; subst.
  cbn [concat] in E. apply app_eq_nil in E as [E _]. elim Hc. exact E.
Qed.

Section Frame.
  Variable marshal : penv -> option bytes.
  Variable unmarshal : bytes -> option penv.
  (* the trusted protobuf library: what was marshalled unmarshals to the normalised tree *)
  Hypothesis marshal_unmarshal : forall m bs, marshal m = Some bs -> unmarshal bs = Some (norm_env m).
  Variable rs : resolver.

  Definition sent (e : envelope) (fr : bytes) : Prop :=
    envelope_wf rs e = true /\ envelope_pwf e = true /\ encode_proto marshal e = Ok fr.

  Lemma encode_proto_shape e fr : encode_proto marshal e = Ok fr ->
    exists pe d, from_envelope e = Ok pe /\ marshal pe = Some d /\ len d <= 65535
                 /\ fr = enc_be 2 (len d) ++ d.
  Proof.
    unfold encode_proto. intro H. apply bind_ok_inv in H as (pe & F & H).
    destruct (marshal pe) as [d|] eqn:M; [|discriminate]. unfold enc_pframe in H.
    destruct (N.ltb_spec 65535 (len d)); [discriminate|]. injection H as <-. eauto 8.
  Qed.

  Lemma frame_nonempty e fr : encode_proto marshal e = Ok fr -> fr <> [].
  Proof.
    intro H. apply encode_proto_shape in H as (pe & d & _ & _ & _ & ->). intro E.
    apply (f_equal (@length byte)) in E. rewrite app_length, enc_be_length in E. cbn [length] in E. lia.
  Qed.

  (* C14 on the protobuf path: equal value, exactly the frame's bytes *)
  Lemma pframe_rt e fr rest : sent e fr ->
    run_flat (dec_pframe unmarshal rs) (fr ++ rest) = Ok (e, rest).
  Proof.
    intros (W & PW & E). destruct (envelope_rt rs e W PW) as (t & F & T).
    apply encode_proto_shape in E as (pe & d & F' & M & L & ->). rewrite F in F'. injection F' as <-.
    unfold dec_pframe. rewrite <- app_assoc.
    rewrite read_full_exact by (rewrite enc_be_length; reflexivity).
    rewrite dec_enc_be by (change (256 ^ N.of_nat 2) with 65536; lia).
    rewrite run_flat_alloc. rewrite read_full_exact by (unfold len; rewrite Nat2N.id; reflexivity).
    rewrite (marshal_unmarshal _ _ M), to_envelope_norm, T. reflexivity.
  Qed.

  Lemma pstream_rt es frs : Forall2 sent es frs ->
    dec_all (dec_pframe unmarshal rs) (S (length es)) (concat frs) = Some es.
  Proof.
    induction 1 as [|e fr es frs S _ IH]; [reflexivity|].
    cbn [length concat]. rewrite dec_all_S. destruct (fr ++ concat frs) eqn:E.
    - exfalso. apply app_eq_nil in E as [E _]. destruct S as (_ & _ & S). exact (frame_nonempty e fr S E).
    - rewrite <- E. rewrite (pframe_rt e fr _ S). rewrite IH. reflexivity.
  Qed.

  (* C16: any partition of the stream into non-empty chunks *)
  Lemma pframe_any_chunking e fr rest cs : sent e fr -> Forall nonempty cs -> concat cs = fr ++ rest ->
    flatten_res (run_chunked (dec_pframe unmarshal rs) cs) = Ok (e, rest).
  Proof.
    intros S Hne Hc. rewrite (chunk_invariant _ (fo_dec_pframe unmarshal rs) cs Hne), Hc.
    apply pframe_rt. exact S.
  Qed.

  Lemma pstream_any_chunking es frs : Forall2 sent es frs ->
    forall cs, Forall nonempty cs -> concat cs = concat frs ->
    dec_all_chunked (dec_pframe unmarshal rs) (S (length es)) cs = Some es.
  Proof.
    induction 1 as [|e fr es frs S _ IH]; intros cs Hne Hc.
    - cbn [concat] in Hc. rewrite (concat_nil_nonempty cs Hne Hc). reflexivity.
    - cbn [length concat] in *.
      destruct cs as [|c cs'].
      + exfalso. cbn [concat] in Hc. symmetry in Hc. apply app_eq_nil in Hc as [Hc _].
        destruct S as (_ & _ & S). exact (frame_nonempty e fr S Hc).
      + pose proof (pframe_any_chunking e fr (concat frs) (c :: cs') S Hne Hc) as R.
        rewrite dec_all_chunked_S.
        destruct (run_chunked (dec_pframe unmarshal rs) (c :: cs')) as [[a r]| |] eqn:E;
          cbn [flatten_res res_map] in R; try discriminate.
        injection R as -> Hr.
        pose proof (run_chunked_nonempty _ (fo_dec_pframe unmarshal rs) (c :: cs') e r Hne E) as Hr'.
        rewrite (IH r Hr' Hr). reflexivity.
  Qed.

  (* C14: the two serializers agree on the decoded message *)
  Lemma serializers_agree e fr : sent e fr ->
    run_flat (dec_pframe unmarshal rs) fr = Ok (e, []) /\ run_flat (dec_envelope rs) (enc_envelope e) = Ok (e, []).
  Proof.
    intro S. split.
    - rewrite <- (app_nil_r fr). apply pframe_rt. exact S.
    - rewrite <- (app_nil_r (enc_envelope e)). apply dec_envelope_rt. destruct S as (W & _). exact W.
  Qed.
End Frame.

(* ================= witnesses: the code before the repairs, and what is still not enforced ================= *)
Definition w_id : bytes := repeat Byte.x01 32.
Definition w_alloc : alloc := mkAlloc [0] [5] [[1%Z; 2%Z]] [mkSA w_id [3%Z] [1]].

(* db19d12: FromAllocation dropped the sub-allocations *)
Lemma legacy_locked_dropped :
  alloc_wf w_alloc = true /\ (t <~ Legacy.from_alloc w_alloc ;; to_alloc (Some t)) <> Ok w_alloc
  /\ (t <~ from_alloc w_alloc ;; to_alloc (Some t)) = Ok w_alloc.
Proof. vm_compute. split; [reflexivity|split; [discriminate|reflexivity]]. Qed.

(* 2e6bf0f, cd1c178, 8481c0f: ToAllocation *)
Lemma legacy_to_alloc_panics :
  Legacy.to_alloc (Some (mkPAl [] [enc_u64be 1] None [])) = Panic
  /\ Legacy.to_alloc (Some (mkPAl [enc_be 4 7] [enc_u64be 1] None [])) = Panic
  /\ Legacy.to_wamap (Some [Some (mkPAM (enc_be 4 7) (repeat Byte.x00 64))]) = Panic.
Proof. vm_compute. repeat split; reflexivity. Qed.
Lemma legacy_to_alloc_unvalidated :
  exists a, Legacy.to_alloc None = Ok a /\ alloc_valid a = false.
Proof. eexists. vm_compute. split; reflexivity. Qed.

(* 129bafa: ToParams *)
Lemma legacy_to_params_panics rs :
  Legacy.to_params rs None = Panic
  /\ Legacy.to_params rs (Some (mkPP [] 1 [Some []] [] [] false false [])) = Panic
  /\ Legacy.to_params rs (Some (mkPP [] 1 [Some [Some (mkPAM (enc_be 4 0) (repeat Byte.x00 64))]] []
                                     (repeat Byte.xff 129) false false [])) = Panic.
Proof. vm_compute. repeat split; reflexivity. Qed.

(* e65197d: absent signatures *)
Lemma legacy_sigs_not_nil : Legacy.to_sigs (from_sigs [None]) <> [None] /\ to_sigs (from_sigs [None]) = [None].
Proof. vm_compute. split; [discriminate|reflexivity]. Qed.

(* bfef08b: a frame delivered in two chunks *)
Definition w_unm (b : bytes) : option penv :=
  if bytes_eqb b [Byte.x01; Byte.x02; Byte.x03] then Some (mkPEnv None None (Some (PPing None))) else None.
Definition w_chunks : list bytes := [[Byte.x00; Byte.x03; Byte.x01]; [Byte.x02; Byte.x03]].
Lemma legacy_single_read_refuted rs :
  Forall nonempty w_chunks
  /\ flatten_res (run_chunked (Legacy.dec_pframe w_unm rs) w_chunks) = Err
  /\ run_flat (Legacy.dec_pframe w_unm rs) (concat w_chunks) = Ok (mkEnv [] [] (MPing 0), [])
  /\ flatten_res (run_chunked (dec_pframe w_unm rs) w_chunks) = Ok (mkEnv [] [] (MPing 0), []).
Proof. split; [repeat constructor; discriminate|]. vm_compute. repeat split; reflexivity. Qed.

(* c9b3ae4, b6732bb, 953c29f: the limits that the protobuf path did not enforce - the same trees are
   accepted by the code as it was and rejected by the repaired conversions *)
Definition w_palloc : pAllocation :=
  mkPAl [enc_be 4 0] [enc_u64be 5] (Some [Some [[Byte.x01]; [Byte.x02]]]) [].
Definition w_fa_tree : pBaseProp := mkPBP [] 1 [] [] [] (Some w_palloc) (Some (repeat None 1025)) [].
Lemma legacy_funding_agreement_unbounded rs :
  (exists b, Legacy.to_baseprop rs (Some w_fa_tree) = Ok b /\ MaxNumAssets < len (bp_fa b))
  /\ to_baseprop rs (Some w_fa_tree) = Err.
Proof. split; [eexists; split; vm_compute; reflexivity|vm_compute; reflexivity]. Qed.
Definition w_big_tree : pAllocation := mkPAl [enc_be 4 0] [enc_u64be 5] (Some [Some [repeat Byte.xff 129]]) [].
Lemma legacy_bigint_unbounded :
  (exists a, Legacy.to_alloc_anylen (Some w_big_tree) = Ok a /\ forallb bigints_ok (al_bals a) = false)
  /\ to_alloc (Some w_big_tree) = Err.
Proof. split; [eexists; split; vm_compute; reflexivity|vm_compute; reflexivity]. Qed.
Definition w_peers_tree : pLedgerProp :=
  mkPLP (Some (mkPBP [] 1 [] [] [] (Some w_palloc) None [])) None (repeat None 1025).
Lemma legacy_peers_unbounded rs :
  (exists b part peers, Legacy.to_ledger_prop rs (Some w_peers_tree) = Ok (MLedgerProp b part peers)
                        /\ MaxNumParts < len peers)
  /\ to_msg rs (PLedgerProp (Some w_peers_tree)) = Err.
Proof. split; [do 3 eexists; split; vm_compute; reflexivity|vm_compute; reflexivity]. Qed.

(* every message: amounts, funding agreements and peers within the limits *)
Definition fa_ok (b : baseprop) : bool := fa_dims_ok (bp_fa b) && forallb bigints_ok (bp_fa b).
Definition msg_extra_ok (m : msg) : bool :=
  match m with
  | MLedgerProp b _ peers => fa_ok b && (MinNumParts <=? len peers) && (len peers <=? MaxNumParts)
  | MSubProp b _ => fa_ok b
  | MVirtProp b _ peers _ _ => fa_ok b && (len peers <=? MaxNumParts)
  | _ => true
  end.

Lemma to_update_amounts rs o s a g : to_update rs o = Ok (s, a, g) -> alloc_amounts_ok (st_alloc s) = true.
Proof.
  unfold to_update. cbv zeta. intro H. inv_ok H. injection H as <- <- <-. eapply to_state_amounts; eassumption.
Qed.
Lemma to_signed_amounts rs o p s g : to_signed rs o = Ok (p, s, g) -> alloc_amounts_ok (st_alloc s) = true.
Proof.
  unfold to_signed. cbv zeta. intro H. inv_ok H. injection H as <- <- <-. eapply to_state_amounts; eassumption.
Qed.

Lemma to_msg_limits2 rs t m : to_msg rs t = Ok m ->
  Forall (fun a => alloc_amounts_ok a = true) (msg_allocs m) /\ msg_extra_ok m = true.
Proof.
  destruct t; cbn [to_msg]; cbv zeta; intro H; inv_ok H;
    try (injection H as <-; cbn [msg_allocs msg_extra_ok]; split; [repeat constructor|try reflexivity]).
  all: repeat match goal with
              | E : to_baseprop _ _ = Ok _ |- _ => apply to_baseprop_fa in E as (? & ? & ?)
              | E : to_update _ _ = Ok (?s, ?a, ?g) |- _ => apply to_update_amounts in E
              | E : to_signed _ _ = Ok (?p, ?s, ?g) |- _ => apply to_signed_amounts in E
              | E : to_state _ _ = Ok _ |- _ => apply to_state_amounts in E
              | x : (_ * _)%type |- _ => destruct x
              end; cbn [fst snd] in *; try assumption.
  all: unfold fa_ok; repeat match goal with |- _ && _ = true => apply andb_true_iff; split end; try assumption.
  all: try (apply N.leb_le; match goal with V : (_ || _) = false |- _ => apply orb_false_iff in V as [V1 V2];
            apply N.ltb_ge in V1; apply N.ltb_ge in V2; assumption end).
  all: try (apply N.leb_le; match goal with V : (_ <? _) = false |- _ => apply N.ltb_ge in V; assumption end).
Qed.

Lemma to_envelope_limits2 rs t e : to_envelope rs t = Ok e ->
  Forall (fun a => alloc_amounts_ok a = true) (msg_allocs (e_msg e)) /\ msg_extra_ok (e_msg e) = true.
Proof.
  unfold to_envelope. intro H. apply bind_ok_inv in H as (s & _ & H). apply bind_ok_inv in H as (r & _ & H).
  destruct (pe_msg t) as [m|]; [|discriminate]. apply bind_ok_inv in H as (x & Hx & H). injection H as <-.
  cbn [e_msg]. eapply to_msg_limits2; exact Hx.
Qed.

(* ================= statement forms: to_T (norm (from_T v)) = Ok v ================= *)
Lemma rt_form {A T} (from : A -> res T) (to : T -> res A) (n : T -> T) v :
  (exists t, from v = Ok t /\ to t = Ok v) -> (forall t, to (n t) = to t) ->
  (t <~ from v ;; to (n t)) = Ok v.
Proof. intros (t & F & T') N. rewrite F. cbn [res_bind]. rewrite N. exact T'. Qed.

Lemma alloc_rt_norm a : alloc_wf a = true -> (t <~ from_alloc a ;; to_alloc (Some (norm_alloc t))) = Ok a.
Proof.
  intro H. apply (rt_form from_alloc (fun t => to_alloc (Some t)) norm_alloc); [apply alloc_rt; exact H|].
  intro t. apply (to_alloc_norm (Some t)).
Qed.
Lemma state_rt_norm rs s : state_wf_rs rs s = true ->
  (t <~ from_state s ;; to_state rs (Some (norm_state t))) = Ok s.
Proof.
  intro H. apply (rt_form from_state (fun t => to_state rs (Some t)) norm_state); [apply state_rt; exact H|].
  intro t. apply (to_state_norm rs (Some t)).
Qed.
Lemma params_rt_norm rs p : params_wf rs p = true ->
  (t <~ from_params p ;; to_params rs (Some (norm_params t))) = Ok p.
Proof.
  intro H. apply (rt_form from_params (fun t => to_params rs (Some t)) norm_params); [apply params_rt; exact H|].
  intro t. apply (to_params_norm rs (Some t)).
Qed.
Lemma balances_rt_norm b : balances_wf b = true ->
  (t <~ from_balances b ;; Ok (to_balances (Some (norm_balances t)))) = Ok b.
Proof.
  intro H. destruct (balances_rt b (balances_wf_nonneg b H)) as (t & F & T). rewrite F. cbn [res_bind].
  change (Some (norm_balances t)) with (option_map norm_balances (Some t)).
  rewrite to_balances_norm, T. reflexivity.
Qed.
Lemma wamap_rt_norm m : wamap_wf m = true -> (t <~ from_amap m ;; to_wamap (Some (norm_addr t))) = Ok m.
Proof.
  intro H. apply (rt_form from_amap (fun t => to_wamap (Some t)) norm_addr); [apply wamap_rt; exact H|].
  intro t. apply (to_wamap_norm (Some t)).
Qed.
Lemma ramap_rt_norm m : ramap_wf m = true -> keys_nonneg m = true ->
  (t <~ from_amap m ;; to_ramap (Some (norm_addr t))) = Ok m.
Proof.
  intros H K. apply (rt_form from_amap (fun t => to_ramap (Some t)) norm_addr); [apply ramap_rt; assumption|].
  intro t. apply (to_ramap_norm (Some t)).
Qed.
Lemma baseprop_rt_norm rs b : baseprop_wf rs b = true ->
  (t <~ from_baseprop b ;; to_baseprop rs (Some (norm_baseprop t))) = Ok b.
Proof.
  intro H. apply (rt_form from_baseprop (fun t => to_baseprop rs (Some t)) norm_baseprop); [apply baseprop_rt; exact H|].
  intro t. apply (to_baseprop_norm rs (Some t)).
Qed.
Lemma msg_rt_norm rs m : msg_wf rs m = true -> msg_pwf m = true ->
  (t <~ from_msg m ;; to_msg rs (norm_msg t)) = Ok m.
Proof. intros H K. apply rt_form; [apply msg_rt; assumption|apply to_msg_norm]. Qed.
Lemma envelope_rt_norm rs e : envelope_wf rs e = true -> envelope_pwf e = true ->
  (t <~ from_envelope e ;; to_envelope rs (norm_env t)) = Ok e.
Proof. intros H K. apply rt_form; [apply envelope_rt; assumption|apply to_envelope_norm]. Qed.

(* ================= declared counts above the limits are rejected ================= *)
Lemma not_ok_not_panic {A} (r : res A) : (forall a, r <> Ok a) -> r <> Panic -> r = Err.
Proof. destruct r; intros H N; [elim (H a); reflexivity|reflexivity|elim N; reflexivity]. Qed.

Lemma to_alloc_dims o a : to_alloc o = Ok a ->
  length (al_assets a) = length (pal_assets (og zPAl o))
  /\ al_bals a = to_balances (pal_balances (og zPAl o))
  /\ length (al_locked a) = length (pal_locked (og zPAl o)).
Proof.
  unfold to_alloc. cbv zeta. intro H. apply bind_ok_inv in H as (bk & _ & H).
  destruct (length bk =? length (pal_assets (og zPAl o)))%nat eqn:L; cbn [negb] in H; [|discriminate].
  apply Nat.eqb_eq in L.
  apply bind_ok_inv in H as (as_ & Ha & H). apply bind_ok_inv in H as (lk & Hl & H).
  inv_ok H.
  injection H as <-. cbn [al_assets al_bals al_locked]. repeat split.
  - apply mapM_ok_length in Ha. rewrite Ha, combine_length, L. apply Nat.min_id.
  - apply mapM_ok_length in Hl. exact Hl.
Qed.

Lemma alloc_valid_dims a : alloc_valid a = true ->
  len (al_assets a) <= MaxNumAssets /\ len (al_locked a) <= MaxNumSubAllocations
  /\ Forall (fun r => len r <= MaxNumParts) (al_bals a).
Proof.
  unfold alloc_valid. cbv zeta. intro H. split_and.
  repeat match goal with H : (_ <=? _) = true |- _ => apply N.leb_le in H end.
  repeat split; try assumption.
  apply Forall_forall. intros r Hr.
  match goal with H : forallb _ (al_bals a) = true |- _ => rewrite forallb_forall in H; specialize (H r Hr) end.
  split_and. match goal with H : (len r =? _) = true |- _ => apply N.eqb_eq in H; rewrite H end. assumption.
Qed.

Lemma to_alloc_over_limit_rejected t :
  MaxNumAssets < len (pal_assets t) \/ MaxNumSubAllocations < len (pal_locked t)
  \/ Exists (fun row => MaxNumParts < len (to_balance row)) (og [] (pal_balances t)) ->
  to_alloc (Some t) = Err.
Proof.
  intro H. apply not_ok_not_panic; [|apply to_alloc_np]. intros a E.
  pose proof (to_alloc_dims _ _ E) as (D1 & D2 & D3). cbn [og] in D1, D2, D3.
  pose proof (alloc_valid_dims a (to_alloc_valid _ _ E)) as (V1 & V2 & V3).
  unfold len in *. destruct H as [H|[H|H]]; [lia|lia|].
  rewrite D2 in V3. unfold to_balances in V3. rewrite Forall_map in V3.
  apply Exists_exists in H as (row & Hin & Hrow). rewrite Forall_forall in V3. specialize (V3 row Hin). lia.
Qed.

Lemma to_params_over_limit_rejected rs t :
  MaxNumParts < len (pp_parts t) \/ len (pp_parts t) < MinNumParts \/ pp_cd t = 0
  \/ MaxNonceLen < N.of_nat (nbytes (dec_be (pp_nonce t))) ->
  to_params rs (Some t) = Err.
Proof.
  intro H. apply not_ok_not_panic; [|apply to_params_np]. intros p E.
  pose proof (to_params_ok _ _ _ E) as V. revert E. unfold to_params. cbv zeta. cbn [og]. intro E.
  apply bind_ok_inv in E as (app & _ & E). apply bind_ok_inv in E as (parts & Hp & E).
  match type of E with (if ?c then _ else _) = _ => destruct c; [|discriminate] end. injection E as <-.
  apply mapM_ok_length in Hp. unfold new_params_ok, nonce_ok in V. cbn [p_cd p_parts p_nonce] in V. split_and.
  repeat match goal with
         | H : (_ <=? _) = true |- _ => apply N.leb_le in H
         | H : negb (_ =? _) = true |- _ => apply negb_true_iff in H; apply N.eqb_neq in H
         end.
  unfold len in *. unfold bigint_of_bytes in *. rewrite N2Z.id in *.
  destruct H as [H|[H|[H|H]]]; lia.
Qed.

Lemma dec_pframe_ok_inv unm rs bs e r : run_flat (dec_pframe unm rs) bs = Ok (e, r) ->
  exists pe, to_envelope rs pe = Ok e.
Proof.
  unfold dec_pframe. cbn [run_flat]. destruct (2 <=? length bs)%nat; [|discriminate].
  match goal with |- context [(?n <=? ?m)%nat] => destruct (n <=? m)%nat end; [|discriminate].
  match goal with |- context [unm ?d] => destruct (unm d) as [pe|] end; [|discriminate].
  destruct (to_envelope rs pe) as [e'| |] eqn:E; cbn [of_res run_flat]; try discriminate.
  intro H. injection H as <- _. eauto.
Qed.

(* ================= decidable equality of trees; a tiny protobuf library (non-vacuity) ================= *)
Lemma opt_eqb_ok {A} (eqb : A -> A -> bool) : (forall x y, eqb x y = true -> x = y) ->
  forall a b, opt_eqb eqb a b = true -> a = b.
Proof. intros H [x|] [y|]; cbn [opt_eqb]; intro E; try discriminate; [f_equal; apply H; exact E|reflexivity]. Qed.
Lemma list_eqb_ok {A} (eqb : A -> A -> bool) : (forall x y, eqb x y = true -> x = y) ->
  forall a b, list_eqb eqb a b = true -> a = b.
Proof.
  intros H a. induction a as [|x a IH]; intros [|y b]; cbn [list_eqb]; intro E; try discriminate; [reflexivity|].
  apply andb_true_iff in E as [E1 E2]. f_equal; [apply H; exact E1|apply IH; exact E2].
Qed.
Lemma bytes_eqb_ok a b : bytes_eqb a b = true -> a = b. Proof. apply bytes_eqb_eq. Qed.
Lemma Neqb_ok a b : (a =? b) = true -> a = b. Proof. apply N.eqb_eq. Qed.
Lemma Zeqb_ok a b : (a =? b)%Z = true -> a = b. Proof. apply Z.eqb_eq. Qed.
Lemma booleqb_ok a b : Bool.eqb a b = true -> a = b. Proof. apply Bool.eqb_prop. Qed.
Lemma blist_eqb_ok a b : blist_eqb a b = true -> a = b. Proof. apply list_eqb_ok, bytes_eqb_ok. Qed.
Lemma nlist_eqb_ok a b : nlist_eqb a b = true -> a = b. Proof. apply list_eqb_ok, Neqb_ok. Qed.
Create HintDb eqok.
#[export] Hint Resolve bytes_eqb_ok Neqb_ok Zeqb_ok booleqb_ok blist_eqb_ok nlist_eqb_ok : eqok.
Ltac eq_side :=
  first [solve [auto with eqok] | solve [apply opt_eqb_ok; auto with eqok]
        | solve [apply list_eqb_ok; auto with eqok] | solve [apply opt_eqb_ok; apply opt_eqb_ok; auto with eqok]
        | solve [apply list_eqb_ok; apply opt_eqb_ok; auto with eqok]].
Ltac eqok a b :=
  intro H; split_and;
  repeat match goal with
         | H : opt_eqb _ _ _ = true |- _ => apply opt_eqb_ok in H; [|eq_side]
         | H : list_eqb _ _ _ = true |- _ => apply list_eqb_ok in H; [|eq_side]
         | H : _ = true |- _ => first [apply bytes_eqb_ok in H | apply Neqb_ok in H | apply Zeqb_ok in H
                                       | apply booleqb_ok in H | apply blist_eqb_ok in H | apply nlist_eqb_ok in H
                                       | match type of H with
                                         | ?f ?x ?y = true =>
                                             let E := fresh "E" in
                                             assert (E : x = y) by (solve [auto with eqok]); clear H
                                         end]
         end;
  destruct a, b; cbn in *; subst; reflexivity.
Lemma pam_eqb_ok a b : pam_eqb a b = true -> a = b.
Proof. unfold pam_eqb; eqok a b. Qed.
#[export] Hint Resolve pam_eqb_ok : eqok.
Lemma paddr_eqb_ok a b : paddr_eqb a b = true -> a = b.
Proof. apply list_eqb_ok, opt_eqb_ok, pam_eqb_ok. Qed.
#[export] Hint Resolve paddr_eqb_ok : eqok.
Lemma paddrs_eqb_ok a b : paddrs_eqb a b = true -> a = b.
Proof. apply list_eqb_ok, opt_eqb_ok, paddr_eqb_ok. Qed.
Lemma pbals_eqb_ok a b : pbals_eqb a b = true -> a = b.
Proof. apply list_eqb_ok, opt_eqb_ok, blist_eqb_ok. Qed.
#[export] Hint Resolve paddrs_eqb_ok pbals_eqb_ok : eqok.
Lemma psa_eqb_ok a b : psa_eqb a b = true -> a = b.
Proof. unfold psa_eqb; eqok a b. Qed.
#[export] Hint Resolve psa_eqb_ok : eqok.
Lemma pal_eqb_ok a b : pal_eqb a b = true -> a = b.
Proof. unfold pal_eqb; eqok a b. Qed.
#[export] Hint Resolve pal_eqb_ok : eqok.
Lemma pbp_eqb_ok a b : pbp_eqb a b = true -> a = b.
Proof. unfold pbp_eqb; eqok a b. Qed.
Lemma pba_eqb_ok a b : pba_eqb a b = true -> a = b.
Proof. unfold pba_eqb; eqok a b. Qed.
Lemma pp_eqb_ok a b : pp_eqb a b = true -> a = b.
Proof. unfold pp_eqb; eqok a b. Qed.
Lemma pst_eqb_ok a b : pst_eqb a b = true -> a = b.
Proof. unfold pst_eqb; eqok a b. Qed.
#[export] Hint Resolve pbp_eqb_ok pba_eqb_ok pp_eqb_ok pst_eqb_ok : eqok.
Lemma ptx_eqb_ok a b : ptx_eqb a b = true -> a = b.
Proof. unfold ptx_eqb; eqok a b. Qed.
Lemma pss_eqb_ok a b : pss_eqb a b = true -> a = b.
Proof. unfold pss_eqb; eqok a b. Qed.
Lemma pcu_eqb_ok a b : pcu_eqb a b = true -> a = b.
Proof. unfold pcu_eqb; eqok a b. Qed.
#[export] Hint Resolve ptx_eqb_ok pss_eqb_ok pcu_eqb_ok : eqok.
Lemma pum_eqb_ok a b : pum_eqb a b = true -> a = b.
Proof. unfold pum_eqb; eqok a b. Qed.
#[export] Hint Resolve pum_eqb_ok : eqok.
Lemma pmsg_eqb_ok a b : pmsg_eqb a b = true -> a = b.
Proof.
  destruct a as [x|x|x|x|x|x|x|x|x|x|x|x|x|x|x|x|x], b as [y|y|y|y|y|y|y|y|y|y|y|y|y|y|y|y|y];
    cbn [pmsg_eqb]; try discriminate; intro H; f_equal; revert H; apply opt_eqb_ok;
    try eq_side; intros p q; eqok p q.
Qed.
Lemma penv_eqb_ok a b : penv_eqb a b = true -> a = b.
Proof.
  unfold penv_eqb. intro H. split_and.
  repeat match goal with H : opt_eqb _ _ _ = true |- _ => apply opt_eqb_ok in H; [|first [eq_side | exact pmsg_eqb_ok]] end.
  destruct a, b; cbn in *; subst. reflexivity.
Qed.

(* a protobuf library that knows one message: enough to show that the hypothesis on Marshal/Unmarshal
   and the premises of the frame theorems can be met *)
Definition toy_marshal (t0 : penv) (b0 : bytes) (m : penv) : option bytes :=
  if penv_eqb m t0 then Some b0 else None.
Definition toy_unmarshal (t0 : penv) (b0 : bytes) (bs : bytes) : option penv :=
  if bytes_eqb bs b0 then Some (norm_env t0) else None.
Lemma toy_library t0 b0 m bs : toy_marshal t0 b0 m = Some bs -> toy_unmarshal t0 b0 bs = Some (norm_env m).
Proof.
  unfold toy_marshal, toy_unmarshal. destruct (penv_eqb m t0) eqn:E; [|discriminate].
  intro H. injection H as <-. apply penv_eqb_ok in E. subst m.
  replace (bytes_eqb b0 b0) with true by (symmetry; apply bytes_eqb_eq; reflexivity). reflexivity.
Qed.

(* ================= the limits repaired by c9b3ae4, b6732bb, 953c29f: over the limit = rejected ================= *)
Lemma to_alloc_long_amount_rejected t :
  forallb bigints_ok (to_balances (pal_balances t)) = false -> to_alloc (Some t) = Err.
Proof.
  intro H. apply not_ok_not_panic; [|apply to_alloc_np]. intros a E.
  pose proof (to_alloc_amounts _ _ E) as A. apply to_alloc_dims in E as (_ & D & _). cbn [og] in D.
  unfold alloc_amounts_ok in A. apply andb_true_iff in A as [A _]. rewrite D, H in A. discriminate.
Qed.

Lemma to_suballoc_long_amount_rejected t :
  bigints_ok (to_balance (psa_bals t)) = false -> to_suballoc (Some t) = Err.
Proof.
  intro H. unfold to_suballoc. cbn [og]. cbv zeta. unfold balance_lengths_ok. rewrite H. reflexivity.
Qed.

Lemma to_baseprop_fa_rejected rs t :
  fa_dims_ok (to_balances (pbp_fa t)) = false \/ forallb bigints_ok (to_balances (pbp_fa t)) = false ->
  to_baseprop rs (Some t) = Err.
Proof.
  intro H. apply not_ok_not_panic; [|apply to_baseprop_np]. intros b E.
  pose proof (to_baseprop_fa _ _ _ E) as (F1 & F2 & _).
  revert E. unfold to_baseprop. cbn [og]. cbv zeta. intro E. inv_ok E. injection E as <-. cbn [bp_fa] in F1, F2.
  destruct H as [H|H]; [rewrite H in F1|rewrite H in F2]; discriminate.
Qed.

Lemma to_ledger_peers_rejected rs p :
  len (plp_peers p) < MinNumParts \/ MaxNumParts < len (plp_peers p) -> to_msg rs (PLedgerProp (Some p)) = Err.
Proof.
  intro H. apply not_ok_not_panic; [|apply to_msg_np]. intros m E. cbn [to_msg og] in E. cbv zeta in E. inv_ok E.
  match goal with E : to_ramaps _ = Ok _ |- _ => apply mapM_ok_length in E end.
  match goal with V : (_ || _) = false |- _ => apply orb_false_iff in V as [V1 V2]; apply N.ltb_ge in V1, V2 end.
  unfold len in *. destruct H; lia.
Qed.

Lemma to_virtual_peers_rejected rs p :
  MaxNumParts < len (pvp_peers p) -> to_msg rs (PVirtProp (Some p)) = Err.
Proof.
  intro H. apply not_ok_not_panic; [|apply to_msg_np]. intros m E. cbn [to_msg og] in E. cbv zeta in E. inv_ok E.
  match goal with E : to_ramaps _ = Ok _ |- _ => apply mapM_ok_length in E end.
  match goal with V : (_ <? _) = false |- _ => apply N.ltb_ge in V end.
  unfold len in *. lia.
Qed.
