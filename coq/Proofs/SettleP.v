(* Proofs about the settlement / dispute LTS of Model/Settle.v (C03, C04). *)
From Coq Require Import Arith PeanoNat ZifyN ZifyNat ZifyBool Lia.
From V Require Import Model.Settle Proofs.ChannelP Proofs.MachineP Proofs.C02P Proofs.LedgerP.
Open Scope N_scope.

(* ================= projections of the state constructors ================= *)
Definition side (i : N) : bool := i =? 0.
Lemma get_set_same st i P : get_party (set_party st i P) i = P.
Proof. unfold get_party, set_party. destruct (i =? 0); reflexivity. Qed.
Lemma get_set_other st i j P : side i <> side j -> get_party (set_party st i P) j = get_party st j.
Proof. unfold side, get_party, set_party. destruct (i =? 0), (j =? 0); intro H; try reflexivity; contradiction. Qed.
Lemma get_set_side st i j P : side i = side j -> get_party (set_party st i P) j = P.
Proof. unfold side, get_party, set_party. destruct (i =? 0), (j =? 0); intro H; try reflexivity; discriminate. Qed.
Lemma get_party_side st i j : side i = side j -> get_party st i = get_party st j.
Proof. unfold side, get_party. intro H. rewrite H. reflexivity. Qed.
Lemma sL_set_party st i P : s_L (set_party st i P) = s_L st.
Proof. unfold set_party. destruct (i =? 0); reflexivity. Qed.
Lemma sroot_set_party st i P : s_root (set_party st i P) = s_root st.
Proof. unfold set_party. destruct (i =? 0); reflexivity. Qed.
Lemma sassets_set_party st i P : s_assets (set_party st i P) = s_assets st.
Proof. unfold set_party. destruct (i =? 0); reflexivity. Qed.
Lemma sagree_set_party st i P : s_agree (set_party st i P) = s_agree st.
Proof. unfold set_party. destruct (i =? 0); reflexivity. Qed.
Lemma saccts_set_party st i P : s_accts (set_party st i P) = s_accts st.
Proof. unfold set_party. destruct (i =? 0); reflexivity. Qed.
Lemma rootid_set_party st i P : rootid (set_party st i P) = rootid st.
Proof. unfold rootid. rewrite sroot_set_party. reflexivity. Qed.
Lemma get_set_ledger st L i : get_party (set_ledger st L) i = get_party st i.
Proof. reflexivity. Qed.
Lemma sL_set_ledger st L : s_L (set_ledger st L) = L.
Proof. reflexivity. Qed.
Lemma rootid_set_ledger st L : rootid (set_ledger st L) = rootid st.
Proof. reflexivity. Qed.
Lemma funded_set_party st i P : funded (set_party st i P) = funded st.
Proof. unfold funded. rewrite sL_set_party, rootid_set_party. reflexivity. Qed.

(* static part of the state *)
Definition same_static (a b : sstate) : Prop :=
  s_root a = s_root b /\ s_assets a = s_assets b /\ s_agree a = s_agree b /\ s_accts a = s_accts b.
Lemma same_static_refl a : same_static a a.
Proof. repeat split. Qed.
Lemma same_static_set_party st i P : same_static (set_party st i P) st.
Proof. unfold same_static. rewrite sroot_set_party, sassets_set_party, sagree_set_party, saccts_set_party. repeat split. Qed.
Lemma same_static_set_ledger st L : same_static (set_ledger st L) st.
Proof. repeat split. Qed.
Lemma same_static_trans a b c : same_static a b -> same_static b c -> same_static a c.
Proof. unfold same_static. intuition congruence. Qed.

(* ================= a uniform description of the steps ================= *)
Definition after (st : sstate) (o : lop) : sstate := set_ledger st (fst (step (s_L st) o)).
Definition result (st : sstate) (o : lop) : lout := snd (step (s_L st) o).
Definition raise (st : sstate) (i : N) (cf wf : bool) : sstate :=
  set_party st i (mkParty (pt_nodes (get_party st i)) (pt_concl (get_party st i) || cf) (pt_wd (get_party st i) || wf)).

Lemma apply_ledger_eq st o : apply_ledger st o = (after st o, result st o).
Proof. unfold apply_ledger, after, result. destruct (step (s_L st) o); reflexivity. Qed.

Ltac break_if H :=
  repeat match type of H with
         | (if ?b then _ else _) = Some _ => let E := fresh "B" in destruct b eqn:E; [|try discriminate H]
         | match ?x with Some _ => _ | None => _ end = Some _ => let E := fresh "O" in destruct x eqn:E; [|try discriminate H]
         end.

Definition conclude_op (st : sstate) (tr : state * list (lparams * state)) : lop :=
  let rs := fst tr in
  if st_final rs && (length (al_locked (st_alloc rs)) =? 0)%nat
     && match bfind (l_disp (s_L st)) (rootid st) with None => true | Some _ => false end
  then LConcludeFinal (s_root st) (signed (s_root st) rs)
  else LConclude (s_root st) rs (map snd (snd tr)).
Definition withdraw_op (st : sstate) (i : N) : lop :=
  LWithdraw (s_root st) i (nth (N.to_nat i) (lp_parts (s_root st)) 0) (nth (N.to_nat i) (s_accts st) 0).
Definition fund_op (st : sstate) (i : N) : lop :=
  LDeposit (s_root st) (s_assets st) i (nth (N.to_nat i) (s_accts st) 0) (col (s_agree st) (N.to_nat i)).

(* the steps, declaratively *)
Definition step_spec (st : sstate) (e : sevent) (st' : sstate) : Prop :=
  match e with
  | SOpen i p s =>
      i < 2 /\ bfind (pt_nodes (get_party st i)) (lp_id p) = None
      /\ state_ok p s = true /\ st_ver s = 0 /\ al_locked (st_alloc s) = [] /\ 1 <= lp_cd p
      /\ length (lp_parts p) = 2%nat /\ al_assets (st_alloc s) = s_assets st
      /\ (if bytes_eqb (lp_id p) (rootid st)
          then lparams_eqb p (s_root st) = true /\ lp_ledger p = true
               /\ agreement_ok (al_bals (st_alloc s)) (s_agree st) = true
          else lp_ledger p = false)
      /\ st' = set_party st i (upd_node (get_party st i) (lp_id p) (mkNode p [s] false))
  | SEnable i s =>
      i < 2 /\ exists n cur rest,
        bfind (pt_nodes (get_party st i)) (st_id s) = Some n /\ n_hist n = cur :: rest
        /\ n_frozen n = false /\ funded st = true /\ good_succ (n_params n) cur s = true
        /\ (if bytes_eqb (st_id s) (rootid st)
            then root_succ_ok (pt_nodes (get_party st i)) (l_disp (s_L st)) cur s = true
            else al_locked (st_alloc s) = [])
        /\ st' = set_party st i (upd_node (get_party st i) (st_id s) (mkNode (n_params n) (s :: n_hist n) false))
  | SFreeze i c =>
      i < 2 /\ exists n, bfind (pt_nodes (get_party st i)) c = Some n
        /\ st' = set_party st i (upd_node (get_party st i) c (mkNode (n_params n) (n_hist n) true))
  | SFund i => i < 2 /\ st' = after st (fund_op st i)
  | SReact i rs subs =>
      i < 2 /\ known_signed (pt_nodes (get_party st i)) (s_root st) rs = true
      /\ forallb (fun e => known_signed (pt_nodes (get_party st i)) (fst e) (snd e)) subs = true
      /\ st' = after st (register_op st (rs, subs))
  | SRegister i =>
      i < 2 /\ exists tr, newest_tree st i = Some tr
        /\ tree_frozen (pt_nodes (get_party st i)) (rootid st) (fst tr) = true
        /\ st' = after st (register_op st tr)
  | SConclude i =>
      i < 2 /\ exists tr, newest_tree st i = Some tr
        /\ tree_frozen (pt_nodes (get_party st i)) (rootid st) (fst tr) = true
        /\ st' = (if is_ok (result st (conclude_op st tr)) then raise (after st (conclude_op st tr)) i true false
                  else after st (conclude_op st tr))
  | SWithdraw i =>
      i < 2 /\ pt_concl (get_party st i) = true
      /\ st' = (if is_ok (result st (withdraw_op st i)) then raise (after st (withdraw_op st i)) i false true
                else after st (withdraw_op st i))
  | SAdvRegister h t subs =>
      h < 2 /\ known_signed (pt_nodes (get_party st h)) (s_root st) (tx_st t) = true
      /\ forallb (fun e => known_signed (pt_nodes (get_party st h)) (fst e) (tx_st (snd e))) subs = true
      /\ st' = after st (LRegister (s_root st) t subs)
  | SAdvConclude s subs => st' = after st (LConclude (s_root st) s subs)
  | SAdvConcludeFinal h t =>
      h < 2 /\ known_signed (pt_nodes (get_party st h)) (s_root st) (tx_st t) = true
      /\ st' = after st (LConcludeFinal (s_root st) t)
  | SAdvWithdraw h => h < 2 /\ st' = after st (withdraw_op st (1 - h))
  | STick => tick_ok st = true /\ st' = after st (LTick 1)
  end.

Lemma sstep_spec st e st' r : sstep st e = Some (st', r) -> step_spec st e st'.
Proof.
  destruct e; cbn [sstep step_spec]; intro H.
  - (* open *)
    destruct (i <? 2) eqn:Ei; cbn [negb] in H; [|discriminate]. apply N.ltb_lt in Ei.
    destruct (bfind (pt_nodes (get_party st i)) (lp_id p)) eqn:Ef; [discriminate|].
    break_if H. injection H as <- _. split_and.
    repeat match goal with X : (_ =? _)%nat = true |- _ => apply Nat.eqb_eq in X end.
    match goal with X : (st_ver s =? 0) = true |- _ => apply N.eqb_eq in X end.
    match goal with X : (1 <=? lp_cd p) = true |- _ => apply N.leb_le in X end.
    match goal with X : length (al_locked _) = 0%nat |- _ => apply length_zero_iff_nil in X end.
    assert (Ha : al_assets (st_alloc s) = s_assets st /\
                 (if bytes_eqb (lp_id p) (rootid st)
                  then lparams_eqb p (s_root st) = true /\ lp_ledger p = true
                       /\ agreement_ok (al_bals (st_alloc s)) (s_agree st) = true
                  else lp_ledger p = false)).
    { destruct (bytes_eqb (lp_id p) (rootid st)); split_and.
      - match goal with X : nlist_eqb _ _ = true |- _ => apply nlist_eqb_eq in X end. auto.
      - match goal with X : nlist_eqb _ _ = true |- _ => apply nlist_eqb_eq in X end.
        match goal with X : negb _ = true |- _ => apply negb_true_iff in X end. auto. }
    destruct Ha as [Ha1 Ha2]. splits; auto.
  - (* enable *)
    destruct (i <? 2) eqn:Ei; cbn [negb] in H; [|discriminate]. apply N.ltb_lt in Ei.
    destruct (bfind (pt_nodes (get_party st i)) (st_id s)) as [n|] eqn:Ef; [|discriminate].
    destruct (n_hist n) as [|cur rest] eqn:Eh; [discriminate|].
    break_if H. injection H as <- _. split_and. split; [exact Ei|]. exists n, cur, rest. rewrite Eh.
    match goal with X : negb (n_frozen n) = true |- _ => apply negb_true_iff in X end.
    splits; auto.
    destruct (bytes_eqb (st_id s) (rootid st)); [assumption|].
    match goal with X : (_ =? _)%nat = true |- _ => apply Nat.eqb_eq in X; apply length_zero_iff_nil in X; exact X end.
  - (* freeze *)
    destruct (i <? 2) eqn:Ei; cbn [negb] in H; [|discriminate]. apply N.ltb_lt in Ei.
    destruct (bfind (pt_nodes (get_party st i)) c) as [n|] eqn:Ef; [|discriminate].
    injection H as <- _. split; [exact Ei|]. exists n. split; reflexivity.
  - (* fund *)
    destruct (i <? 2) eqn:Ei; cbn [negb] in H; [|discriminate]. apply N.ltb_lt in Ei.
    rewrite apply_ledger_eq in H. injection H as <- _. split; [exact Ei|reflexivity].
  - (* react *)
    break_if H. rewrite apply_ledger_eq in H. injection H as <- _. split_and.
    match goal with X : (i <? 2) = true |- _ => apply N.ltb_lt in X end. repeat split; auto.
  - (* register *)
    destruct (i <? 2) eqn:Ei; cbn [negb] in H; [|discriminate]. apply N.ltb_lt in Ei.
    break_if H. rewrite apply_ledger_eq in H. injection H as <- _. split; [exact Ei|]. eexists. repeat split; eauto.
  - (* conclude *)
    destruct (i <? 2) eqn:Ei; cbn [negb] in H; [|discriminate]. apply N.ltb_lt in Ei.
    break_if H. fold (conclude_op st p) in H. rewrite apply_ledger_eq in H. injection H as <- _.
    split; [exact Ei|]. exists p. unfold raise. rewrite orb_true_r, orb_false_r. splits; auto.
  - (* withdraw *)
    destruct (i <? 2) eqn:Ei; cbn [negb] in H; [|discriminate]. apply N.ltb_lt in Ei.
    break_if H. fold (withdraw_op st i) in H. rewrite apply_ledger_eq in H. injection H as <- _.
    unfold raise. rewrite orb_true_r, orb_false_r. splits; auto.
  - (* adv register *)
    break_if H. rewrite apply_ledger_eq in H. injection H as <- _. split_and.
    match goal with X : (h <? 2) = true |- _ => apply N.ltb_lt in X end. repeat split; auto.
  - rewrite apply_ledger_eq in H. injection H as <- _. reflexivity.
  - break_if H. rewrite apply_ledger_eq in H. injection H as <- _. split_and.
    match goal with X : (h <? 2) = true |- _ => apply N.ltb_lt in X end. repeat split; auto.
  - destruct (h <? 2) eqn:Ei; cbn [negb] in H; [|discriminate]. apply N.ltb_lt in Ei.
    fold (withdraw_op st (1 - h)) in H. rewrite apply_ledger_eq in H. injection H as <- _. split; [exact Ei|reflexivity].
  - break_if H. rewrite apply_ledger_eq in H. injection H as <- _. split; reflexivity.
Qed.

(* ================= what the steps leave alone ================= *)
Lemma nodes_after st o j : pt_nodes (get_party (after st o) j) = pt_nodes (get_party st j).
Proof. reflexivity. Qed.
Lemma sL_after st o : s_L (after st o) = fst (step (s_L st) o).
Proof. reflexivity. Qed.
Lemma nodes_raise st i cf wf j : pt_nodes (get_party (raise st i cf wf) j) = pt_nodes (get_party st j).
Proof.
  unfold raise. destruct (Bool.bool_dec (side i) (side j)) as [E|E].
  - rewrite (get_set_side _ _ _ _ E). cbn [pt_nodes]. rewrite (get_party_side st i j E). reflexivity.
  - rewrite (get_set_other _ _ _ _ E). reflexivity.
Qed.
Lemma sL_raise st i cf wf : s_L (raise st i cf wf) = s_L st.
Proof. unfold raise. apply sL_set_party. Qed.
Lemma static_raise st i cf wf : same_static (raise st i cf wf) st.
Proof. unfold raise. apply same_static_set_party. Qed.
Lemma static_after st o : same_static (after st o) st.
Proof. repeat split. Qed.

Lemma step_static st e st' : step_spec st e st' -> same_static st' st.
Proof.
  destruct e; cbn [step_spec]; intro H.
  - destruct H as (_ & _ & _ & _ & _ & _ & _ & _ & _ & ->). apply same_static_set_party.
  - destruct H as (_ & n & cur & rest & _ & _ & _ & _ & _ & _ & ->). apply same_static_set_party.
  - destruct H as (_ & n & _ & ->). apply same_static_set_party.
  - destruct H as (_ & ->). apply static_after.
  - destruct H as (_ & _ & _ & ->). apply static_after.
  - destruct H as (_ & tr & _ & _ & ->). apply static_after.
  - destruct H as (_ & tr & _ & _ & ->). destruct (is_ok _); [|apply static_after].
    eapply same_static_trans; [apply static_raise|apply static_after].
  - destruct H as (_ & _ & ->). destruct (is_ok _); [|apply static_after].
    eapply same_static_trans; [apply static_raise|apply static_after].
  - destruct H as (_ & _ & _ & ->). apply static_after.
  - subst. apply static_after.
  - destruct H as (_ & _ & ->). apply static_after.
  - destruct H as (_ & ->). apply static_after.
  - destruct H as (_ & ->). apply static_after.
Qed.

(* the ledger operation of a step, if any *)
Definition step_op (st : sstate) (e : sevent) : option lop :=
  match e with
  | SOpen _ _ _ | SEnable _ _ | SFreeze _ _ => None
  | SFund i => Some (fund_op st i)
  | SReact i rs subs => Some (register_op st (rs, subs))
  | SRegister i => option_map (register_op st) (newest_tree st i)
  | SConclude i => option_map (conclude_op st) (newest_tree st i)
  | SWithdraw i => Some (withdraw_op st i)
  | SAdvRegister _ t subs => Some (LRegister (s_root st) t subs)
  | SAdvConclude s subs => Some (LConclude (s_root st) s subs)
  | SAdvConcludeFinal _ t => Some (LConcludeFinal (s_root st) t)
  | SAdvWithdraw h => Some (withdraw_op st (1 - h))
  | STick => Some (LTick 1)
  end.
Lemma step_ledger st e st' : step_spec st e st' ->
  s_L st' = match step_op st e with Some o => fst (step (s_L st) o) | None => s_L st end.
Proof.
  destruct e; cbn [step_spec step_op]; intro H.
  - destruct H as (_ & _ & _ & _ & _ & _ & _ & _ & _ & ->). apply sL_set_party.
  - destruct H as (_ & n & cur & rest & _ & _ & _ & _ & _ & _ & ->). apply sL_set_party.
  - destruct H as (_ & n & _ & ->). apply sL_set_party.
  - destruct H as (_ & ->). reflexivity.
  - destruct H as (_ & _ & _ & ->). reflexivity.
  - destruct H as (_ & tr & -> & _ & ->). reflexivity.
  - destruct H as (_ & tr & -> & _ & ->). cbn [option_map]. destruct (is_ok _); [rewrite sL_raise|]; reflexivity.
  - destruct H as (_ & _ & ->). destruct (is_ok _); [rewrite sL_raise|]; reflexivity.
  - destruct H as (_ & _ & _ & ->). reflexivity.
  - subst. reflexivity.
  - destruct H as (_ & _ & ->). reflexivity.
  - destruct H as (_ & ->). reflexivity.
  - destruct H as (_ & ->). reflexivity.
Qed.

(* the nodes of participant j after a step *)
Lemma step_nodes st e st' j : step_spec st e st' ->
  pt_nodes (get_party st' j) = pt_nodes (get_party st j)
  \/ exists i c n, side i = side j /\ pt_nodes (get_party st' j) = bput (pt_nodes (get_party st j)) c n.
Proof.
  destruct e; cbn [step_spec]; intro H;
    try (left;
         first [ destruct H as (_ & ->) | destruct H as (_ & _ & ->) | destruct H as (_ & _ & _ & ->)
               | destruct H as (_ & tr & _ & _ & ->) | subst ];
         repeat match goal with |- context[if ?b then _ else _] => destruct b end;
         rewrite ?nodes_raise, ?nodes_after; reflexivity).
  - destruct H as (_ & _ & _ & _ & _ & _ & _ & _ & _ & ->).
    destruct (Bool.bool_dec (side i) (side j)) as [E|E].
    + right. exists i, (lp_id p), (mkNode p [s] false). rewrite (get_set_side _ _ _ _ E).
      cbn [upd_node pt_nodes]. rewrite (get_party_side st i j E). split; [exact E|reflexivity].
    + left. rewrite (get_set_other _ _ _ _ E). reflexivity.
  - destruct H as (_ & n & cur & rest & _ & _ & _ & _ & _ & _ & ->).
    destruct (Bool.bool_dec (side i) (side j)) as [E|E].
    + right. exists i, (st_id s), (mkNode (n_params n) (s :: n_hist n) false). rewrite (get_set_side _ _ _ _ E).
      cbn [upd_node pt_nodes]. rewrite (get_party_side st i j E). split; [exact E|reflexivity].
    + left. rewrite (get_set_other _ _ _ _ E). reflexivity.
  - destruct H as (_ & n & _ & ->).
    destruct (Bool.bool_dec (side i) (side j)) as [E|E].
    + right. exists i, c, (mkNode (n_params n) (n_hist n) true). rewrite (get_set_side _ _ _ _ E).
      cbn [upd_node pt_nodes]. rewrite (get_party_side st i j E). split; [exact E|reflexivity].
    + left. rewrite (get_set_other _ _ _ _ E). reflexivity.
Qed.

Definition is_local (e : sevent) : bool :=
  match e with SOpen _ _ _ | SEnable _ _ | SFreeze _ _ => true | _ => false end.
Lemma step_nodes_ledger st e st' j : step_spec st e st' -> is_local e = false ->
  pt_nodes (get_party st' j) = pt_nodes (get_party st j).
Proof.
  destruct e; cbn [step_spec is_local]; intros H L; try discriminate;
    first [ destruct H as (_ & ->) | destruct H as (_ & _ & ->) | destruct H as (_ & _ & _ & ->)
          | destruct H as (_ & tr & _ & _ & ->) | subst ];
    repeat match goal with |- context[if ?b then _ else _] => destruct b end;
    rewrite ?nodes_raise, ?nodes_after; reflexivity.
Qed.

(* ================= histories ================= *)
Fixpoint hist_chain (p : lparams) (h : list state) : Prop :=
  match h with
  | [] => False
  | s :: r => match r with
              | [] => state_ok p s = true /\ st_ver s = 0 /\ al_locked (st_alloc s) = []
              | cur :: _ => good_succ p cur s = true /\ hist_chain p r
              end
  end.

Lemma good_succ_facts p cur s : good_succ p cur s = true ->
  state_ok p s = true /\ st_ver s = st_ver cur + 1 /\ st_final cur = false
  /\ al_assets (st_alloc cur) = al_assets (st_alloc s) /\ alloc_sum (st_alloc cur) = alloc_sum (st_alloc s).
Proof.
  unfold good_succ. intro H. split_and.
  match goal with X : (_ =? _) = true |- _ => apply N.eqb_eq in X end.
  match goal with X : negb _ = true |- _ => apply negb_true_iff in X end.
  match goal with X : nlist_eqb _ _ = true |- _ => apply nlist_eqb_eq in X end.
  match goal with X : zlist_eqb _ _ = true |- _ => apply zlist_eqb_eq in X end.
  auto.
Qed.

Lemma chain_state_ok p h : hist_chain p h -> forall x, In x h -> state_ok p x = true.
Proof.
  induction h as [|s r IH]; cbn [hist_chain]; [contradiction|]. destruct r as [|cur r'].
  - intros [H _] x [<-|[]]. exact H.
  - intros [G C] x [<-|Hx]; [apply (good_succ_facts _ _ _ G)|apply IH; assumption].
Qed.
Lemma chain_tail p s cur r : hist_chain p (s :: cur :: r) -> good_succ p cur s = true /\ hist_chain p (cur :: r).
Proof. cbn [hist_chain]. auto. Qed.
Lemma chain_below p h : hist_chain p h -> forall s r, h = s :: r ->
  forall x, In x r -> st_ver x < st_ver s /\ st_final x = false.
Proof.
  induction h as [|s0 r0 IH]; intros C s r E; [discriminate|]. injection E as -> ->.
  destruct r as [|cur r']; [intros x []|]. destruct (chain_tail _ _ _ _ C) as [G C'].
  destruct (good_succ_facts _ _ _ G) as (_ & Hv & Hf & _).
  intros x [<-|Hx]; [split; [lia|exact Hf]|].
  destruct (IH C' cur r' eq_refl x Hx) as [Lt Nf]. split; [lia|exact Nf].
Qed.
Lemma chain_version_inj p h : hist_chain p h -> forall a b, In a h -> In b h -> st_ver a = st_ver b -> a = b.
Proof.
  induction h as [|s r IH]; intros C a b Ha Hb E; [destruct Ha|].
  assert (Hr : r <> [] -> hist_chain p r).
  { destruct r as [|cur r']; [congruence|]. intros _. apply (chain_tail _ _ _ _ C). }
  destruct Ha as [<-|Ha], Hb as [<-|Hb]; try reflexivity.
  - destruct (chain_below _ _ C _ _ eq_refl b Hb). lia.
  - destruct (chain_below _ _ C _ _ eq_refl a Ha). lia.
  - apply IH; auto. apply Hr. intro X. subst r. destruct Ha.
Qed.
Lemma chain_final_head p s r x : hist_chain p (s :: r) -> In x (s :: r) -> st_final x = true -> x = s.
Proof.
  intros C [<-|Hx] F; [reflexivity|]. destruct (chain_below _ _ C _ _ eq_refl x Hx) as [_ Nf]. congruence.
Qed.
Lemma chain_head_max p s r x : hist_chain p (s :: r) -> In x (s :: r) -> st_ver x <= st_ver s.
Proof.
  intros C [<-|Hx]; [lia|]. destruct (chain_below _ _ C _ _ eq_refl x Hx). lia.
Qed.

Lemma appkind_eqb_eq a b : appkind_eqb a b = true -> a = b.
Proof. destruct a as [[|]|], b as [[|]|]; cbn; intro H; try discriminate; reflexivity. Qed.
Lemma lparams_eqb_eq p q : lparams_eqb p q = true -> p = q.
Proof.
  unfold lparams_eqb. destruct p as [i a c k l], q as [i' a' c' k' l']; cbn [lp_id lp_parts lp_cd lp_app lp_ledger].
  intro H. split_and.
  match goal with X : bytes_eqb _ _ = true |- _ => apply bytes_eqb_eq in X end.
  match goal with X : nlist_eqb _ _ = true |- _ => apply nlist_eqb_eq in X end.
  match goal with X : (_ =? _) = true |- _ => apply N.eqb_eq in X end.
  match goal with X : appkind_eqb _ _ = true |- _ => apply appkind_eqb_eq in X end.
  match goal with X : Bool.eqb _ _ = true |- _ => apply Bool.eqb_prop in X end.
  congruence.
Qed.

Definition node_ok (st : sstate) (c : bytes) (n : node) : Prop :=
  lp_id (n_params n) = c /\ hist_chain (n_params n) (n_hist n) /\ 1 <= lp_cd (n_params n)
  /\ length (lp_parts (n_params n)) = 2%nat
  /\ (forall x, In x (n_hist n) -> al_assets (st_alloc x) = s_assets st)
  /\ (if bytes_eqb c (rootid st)
      then n_params n = s_root st /\ lp_ledger (n_params n) = true
           /\ (forall x, In x (n_hist n) -> alloc_sum (st_alloc x) = map zsum (s_agree st))
           /\ (forall x l, In x (n_hist n) -> In l (al_locked (st_alloc x)) -> sa_id l <> rootid st)
      else lp_ledger (n_params n) = false
           /\ forall x, In x (n_hist n) -> al_locked (st_alloc x) = []).
Definition nodes_ok (st : sstate) (j : N) : Prop :=
  forall c n, bfind (pt_nodes (get_party st j)) c = Some n -> node_ok st c n.

Lemma node_ok_static st st' c n : same_static st' st -> node_ok st c n -> node_ok st' c n.
Proof.
  intros (Hr & Ha & Hg & _). unfold node_ok, rootid. rewrite Hr, Ha, Hg. auto.
Qed.

Lemma nodes_ok_step st e st' j : nodes_ok st j -> step_spec st e st' -> nodes_ok st' j.
Proof.
  intros Ok H. pose proof (step_static _ _ _ H) as St.
  destruct (is_local e) eqn:El.
  2:{ intros c n Hf. rewrite (step_nodes_ledger _ _ _ j H El) in Hf. apply (node_ok_static _ _ _ _ St). apply Ok. exact Hf. }
  destruct e; try discriminate El; cbn [step_spec] in H.
  - (* open *)
    destruct H as (Hi & Hnone & Hok & Hv & Hl & Hcd & Hp & Has & Hroot & ->).
    intros c n Hf. destruct (Bool.bool_dec (side i) (side j)) as [E|E].
    2:{ rewrite (get_set_other _ _ _ _ E) in Hf. apply (node_ok_static _ _ _ _ St). apply Ok. exact Hf. }
    rewrite (get_set_side _ _ _ _ E) in Hf. cbn [upd_node pt_nodes] in Hf. rewrite bfind_bput in Hf.
    destruct (bytes_eqb c (lp_id p)) eqn:Ec.
    2:{ apply (node_ok_static _ _ _ _ St). apply Ok. rewrite <- (get_party_side st i j E). exact Hf. }
    apply bytes_eqb_eq in Ec. subst c. injection Hf as <-. unfold node_ok. cbn [n_params n_hist].
    rewrite rootid_set_party, sassets_set_party, sagree_set_party, sroot_set_party.
    split; [reflexivity|]. split; [cbn [hist_chain]; auto|]. split; [exact Hcd|]. split; [exact Hp|].
    split; [intros x [<-|[]]; exact Has|].
    destruct (bytes_eqb (lp_id p) (rootid st)).
    + destruct Hroot as (Hq & Hled & Hag). split; [apply lparams_eqb_eq; exact Hq|]. split; [exact Hled|]. split.
      * intros x [<-|[]]. unfold alloc_sum. rewrite Hl. cbn [fold_left].
        unfold agreement_ok in Hag. apply andb_true_iff in Hag as [Hag _]. apply zlist_eqb_eq in Hag. exact Hag.
      * intros x l [<-|[]] Hin. rewrite Hl in Hin. destruct Hin.
    + split; [exact Hroot|]. intros x [<-|[]]. exact Hl.
  - (* enable *)
    destruct H as (Hi & n0 & cur & rest & Hf0 & Hh & Hfr & Hfu & Hg & Hr & ->).
    intros c n Hf. destruct (Bool.bool_dec (side i) (side j)) as [E|E].
    2:{ rewrite (get_set_other _ _ _ _ E) in Hf. apply (node_ok_static _ _ _ _ St). apply Ok. exact Hf. }
    rewrite (get_set_side _ _ _ _ E) in Hf. cbn [upd_node pt_nodes] in Hf. rewrite bfind_bput in Hf.
    destruct (bytes_eqb c (st_id s)) eqn:Ec.
    2:{ apply (node_ok_static _ _ _ _ St). apply Ok. rewrite <- (get_party_side st i j E). exact Hf. }
    apply bytes_eqb_eq in Ec. subst c. injection Hf as <-.
    rewrite (get_party_side st i j E) in Hf0. pose proof (Ok _ _ Hf0) as (K1 & K2 & K3 & K4 & K5 & K6).
    destruct (good_succ_facts _ _ _ Hg) as (G1 & G2 & G3 & G4 & G5).
    apply (node_ok_static _ _ _ _ St). unfold node_ok. cbn [n_params n_hist]. rewrite Hh in *.
    split; [exact K1|]. split; [cbn [hist_chain]; split; [exact Hg|exact K2]|]. split; [exact K3|]. split; [exact K4|].
    split.
    { intros x [<-|Hx]; [|apply K5; exact Hx]. rewrite <- G4. apply K5. left. reflexivity. }
    destruct (bytes_eqb (st_id s) (rootid st)) eqn:Eroot.
    + destruct K6 as (K6 & K6l & K7 & K8). split; [exact K6|]. split; [exact K6l|]. split.
      * intros x [<-|Hx]; [|apply K7; exact Hx]. rewrite <- G5. apply K7. left. reflexivity.
      * intros x l [<-|Hx] Hin; [|eapply K8; eauto].
        intro Eq. apply bytes_eqb_eq in Eroot.
        unfold root_succ_ok in Hr. rewrite forallb_forall in Hr. specialize (Hr _ Hin).
        apply andb_true_iff in Hr as [Hb _]. unfold suballoc_backed in Hb.
        rewrite (get_party_side st i j E) in Hb. rewrite Eq, <- Eroot, Hf0 in Hb. rewrite K6l in Hb. discriminate Hb.
    + destruct K6 as [K6 K7]. split; [exact K6|]. intros x [<-|Hx]; [exact Hr|apply K7; exact Hx].
  - (* freeze *)
    destruct H as (Hi & n0 & Hf0 & ->).
    intros c' n Hf. destruct (Bool.bool_dec (side i) (side j)) as [E|E].
    2:{ rewrite (get_set_other _ _ _ _ E) in Hf. apply (node_ok_static _ _ _ _ St). apply Ok. exact Hf. }
    rewrite (get_set_side _ _ _ _ E) in Hf. cbn [upd_node pt_nodes] in Hf. rewrite bfind_bput in Hf.
    destruct (bytes_eqb c' c) eqn:Ec.
    2:{ apply (node_ok_static _ _ _ _ St). apply Ok. rewrite <- (get_party_side st i j E). exact Hf. }
    apply bytes_eqb_eq in Ec. subst c'. injection Hf as <-.
    rewrite (get_party_side st i j E) in Hf0. apply (node_ok_static _ _ _ _ St). exact (Ok _ _ Hf0).
Qed.

(* ================= what honest participants and the adversary can present ================= *)
Definition known (st : sstate) (k : N) (p : lparams) (s : state) : Prop :=
  exists n, bfind (pt_nodes (get_party st k)) (st_id s) = Some n /\ p = n_params n /\ In s (n_hist n).

Lemma in_hist_In s h : in_hist s h = true -> In s h.
Proof.
  unfold in_hist. intro H. apply existsb_exists in H as [x [Hx E]]. apply state_equal_eq in E. subst. exact Hx.
Qed.
Lemma known_signed_known st k p s : known_signed (pt_nodes (get_party st k)) p s = true -> known st k p s.
Proof.
  unfold known_signed, known. destruct (bfind _ (st_id s)) as [n|]; [|discriminate].
  intro H. apply andb_true_iff in H as [H1 H2]. exists n. split; [reflexivity|].
  split; [apply lparams_eqb_eq; exact H1|apply in_hist_In; exact H2].
Qed.

Lemma collect_Forall2 {A B} (f : A -> option B) l ys : collect f l = Some ys -> Forall2 (fun x y => f x = Some y) l ys.
Proof.
  revert ys; induction l as [|x l IH]; intros ys H; cbn [collect] in H.
  - injection H as <-. constructor.
  - destruct (f x) as [y|] eqn:E; [|discriminate]. destruct (collect f l) as [ys'|]; [|discriminate].
    injection H as <-. constructor; [exact E|apply IH; reflexivity].
Qed.

Lemma Forall2_imp {A B} (P Q : A -> B -> Prop) l m : (forall a b, P a b -> Q a b) -> Forall2 P l m -> Forall2 Q l m.
Proof. intros H F. induction F; constructor; auto. Qed.
Lemma Forall2_In_r {A B} (P : A -> B -> Prop) l m : Forall2 P l m -> forall b, In b m -> exists a, In a l /\ P a b.
Proof.
  intro F. induction F as [|a b l m Hab F IH]; intros y Hy; [destruct Hy|].
  destruct Hy as [<-|Hy]; [exists a; split; [left; reflexivity|exact Hab]|].
  destruct (IH _ Hy) as [x [Hx Px]]. exists x. split; [right; exact Hx|exact Px].
Qed.
Lemma Forall2_In_l {A B} (P : A -> B -> Prop) l m : Forall2 P l m -> forall a, In a l -> exists b, In b m /\ P a b.
Proof.
  intro F. induction F as [|a b l m Hab F IH]; intros y Hy; [destruct Hy|].
  destruct Hy as [<-|Hy]; [exists b; split; [left; reflexivity|exact Hab]|].
  destruct (IH _ Hy) as [x [Hx Px]]. exists x. split; [right; exact Hx|exact Px].
Qed.

Definition tree_shape (nodes : bmap node) (root : bytes) (tr : state * list (lparams * state)) : Prop :=
  (exists rn, bfind nodes root = Some rn /\ newest rn = Some (fst tr))
  /\ Forall2 (fun l e => exists n, bfind nodes (sa_id l) = Some n /\ fst e = n_params n /\ newest n = Some (snd e))
             (al_locked (st_alloc (fst tr))) (snd tr).
Lemma tree_by_newest nodes root tr : tree_by newest nodes root = Some tr -> tree_shape nodes root tr.
Proof.
  unfold tree_by, tree_shape. destruct (bfind nodes root) as [rn|]; [|discriminate].
  destruct (newest rn) as [rs|] eqn:En; [|discriminate].
  destruct (collect _ (al_locked (st_alloc rs))) as [subs|] eqn:Ec; [|discriminate].
  intro H. injection H as <-. cbn [fst snd]. split; [exists rn; auto|].
  apply collect_Forall2 in Ec. eapply Forall2_imp; [|exact Ec].
  intros l e H. cbn beta in H. destruct (bfind nodes (sa_id l)) as [n|]; [|discriminate].
  destruct (newest n) as [t|] eqn:Et; [|discriminate]. cbn [option_map] in H. injection H as <-.
  exists n. cbn [fst snd]. auto.
Qed.
Lemma newest_In n t : newest n = Some t -> In t (n_hist n).
Proof. unfold newest. destruct (n_hist n); cbn [hd_error]; [discriminate|]. intro H. injection H as <-. left. reflexivity. Qed.

Lemma tx_st_signed p s : tx_st (signed p s) = s.
Proof. reflexivity. Qed.

(* the parameters and states a register / conclude-final operation presents are known to participant k *)
Definition presented (st : sstate) (k : N) (o : lop) : Prop :=
  match o with
  | LRegister p t m =>
      p = s_root st /\ known st k p (tx_st t) /\ forall e, In e m -> known st k (fst e) (tx_st (snd e))
  | LConcludeFinal p t => p = s_root st /\ known st k p (tx_st t)
  | _ => True
  end.

Lemma node_key_state st k c n x : nodes_ok st k -> bfind (pt_nodes (get_party st k)) c = Some n -> In x (n_hist n) ->
  st_id x = c /\ state_ok (n_params n) x = true.
Proof.
  intros Ok Hf Hx. destruct (Ok _ _ Hf) as (K1 & K2 & _).
  pose proof (chain_state_ok _ _ K2 _ Hx) as S. split; [|exact S].
  unfold state_ok in S. apply andb_true_iff in S as [S _]. apply andb_true_iff in S as [S _].
  apply bytes_eqb_eq in S. congruence.
Qed.

Lemma tree_presented st k tr : nodes_ok st k -> tree_shape (pt_nodes (get_party st k)) (rootid st) tr ->
  presented st k (register_op st tr).
Proof.
  intros Ok [[rn [Hr Hn]] Hs]. unfold register_op, presented. rewrite tx_st_signed.
  split; [reflexivity|]. split.
  - pose proof (newest_In _ _ Hn) as Hin. destruct (node_key_state _ _ _ _ _ Ok Hr Hin) as [Hid _].
    exists rn. rewrite Hid. split; [exact Hr|]. split; [|exact Hin].
    destruct (Ok _ _ Hr) as (_ & _ & _ & _ & _ & K6). unfold rootid in K6 at 1. rewrite bytes_eqb_refl in K6.
    symmetry. apply K6.
  - intros e He. apply in_map_iff in He as [[p s] [<- He]]. cbn [fst snd]. rewrite tx_st_signed.
    destruct (Forall2_In_r _ _ _ Hs _ He) as [l [_ [n [Hf [Hp Hnw]]]]]. cbn [fst snd] in Hp, Hnw.
    pose proof (newest_In _ _ Hnw) as Hin. destruct (node_key_state _ _ _ _ _ Ok Hf Hin) as [Hid _].
    exists n. rewrite Hid. auto.
Qed.

(* what being known to a participant with well-formed histories gives about a state *)
Definition entry_good (st : sstate) (p : lparams) (s : state) : Prop :=
  st_id s = lp_id p /\ state_ok p s = true /\ 1 <= lp_cd p
  /\ (if bytes_eqb (st_id s) (rootid st)
      then p = s_root st /\ alloc_sum (st_alloc s) = map zsum (s_agree st)
           /\ al_assets (st_alloc s) = s_assets st
           /\ (forall l, In l (al_locked (st_alloc s)) -> sa_id l <> rootid st)
      else al_locked (st_alloc s) = [] /\ lp_ledger p = false).
Lemma known_good st k p s : nodes_ok st k -> known st k p s -> entry_good st p s.
Proof.
  intros Ok (n & Hf & -> & Hin). destruct (node_key_state _ _ _ _ _ Ok Hf Hin) as [_ Hs].
  destruct (Ok _ _ Hf) as (K1 & K2 & K3 & K4 & K5 & K6). unfold entry_good.
  split; [congruence|]. split; [exact Hs|]. split; [exact K3|].
  destruct (bytes_eqb (st_id s) (rootid st)).
  - destruct K6 as (K6 & _ & K7 & K8). splits; auto. intros l Hl. eapply K8; eauto.
  - destruct K6 as [K6 K7]. auto.
Qed.

Lemma step_presented st e st' : step_spec st e st' -> nodes_ok st 0 -> nodes_ok st 1 ->
  forall o, step_op st e = Some o -> exists k, nodes_ok st k /\ presented st k o.
Proof.
  intros H Ok0 Ok1 o Ho.
  assert (Oki : forall i, nodes_ok st i).
  { intros i c n. unfold get_party. destruct (i =? 0); [apply Ok0|apply Ok1]. }
  destruct e; cbn [step_op] in Ho; try discriminate; cbn [step_spec] in H.
  - injection Ho as <-. exists 0. split; [exact Ok0|exact I].
  - injection Ho as <-. destruct H as (_ & Hk & Hks & _). exists i. split; [apply Oki|].
    unfold register_op, presented. cbn [fst snd]. rewrite tx_st_signed. split; [reflexivity|].
    split; [apply known_signed_known; exact Hk|].
    intros e He. apply in_map_iff in He as [[p s] [<- He]]. cbn [fst snd]. rewrite tx_st_signed.
    rewrite forallb_forall in Hks. apply known_signed_known. apply (Hks _ He).
  - destruct H as (_ & tr & Htr & _ & _). rewrite Htr in Ho. injection Ho as <-. exists i. split; [apply Oki|].
    apply tree_presented; [apply Oki|]. apply tree_by_newest. exact Htr.
  - destruct H as (_ & tr & Htr & _ & _). rewrite Htr in Ho. injection Ho as <-. exists i. split; [apply Oki|].
    unfold conclude_op.
    destruct (st_final (fst tr) && _ && _); [|exact I]. unfold presented. rewrite tx_st_signed.
    split; [reflexivity|].
    destruct (tree_by_newest _ _ _ Htr) as [[rn [Hr Hn]] _].
    pose proof (newest_In _ _ Hn) as Hin. destruct (node_key_state _ _ _ _ _ (Oki i) Hr Hin) as [Hid _].
    exists rn. rewrite Hid. split; [exact Hr|]. split; [|exact Hin].
    destruct (Oki i _ _ Hr) as (_ & _ & _ & _ & _ & K6). unfold rootid in K6 at 1. rewrite bytes_eqb_refl in K6.
    symmetry. apply K6.
  - injection Ho as <-. exists 0. split; [exact Ok0|exact I].
  - injection Ho as <-. destruct H as (_ & Hk & Hks & _). exists h. split; [apply Oki|].
    unfold presented. split; [reflexivity|]. split; [apply known_signed_known; exact Hk|].
    intros e He. rewrite forallb_forall in Hks. apply known_signed_known. apply (Hks _ He).
  - injection Ho as <-. exists 0. split; [exact Ok0|exact I].
  - injection Ho as <-. destruct H as (_ & Hk & _). exists h. split; [apply Oki|].
    unfold presented. split; [reflexivity|]. apply known_signed_known. exact Hk.
  - injection Ho as <-. exists 0. split; [exact Ok0|exact I].
  - injection Ho as <-. exists 0. split; [exact Ok0|exact I].
Qed.

(* ================= invariants of the dispute table (all runs) ================= *)
Definition disp_entry_ok (st : sstate) (now : N) (id : bytes) (d : dispute) : Prop :=
  st_id (d_state d) = id
  /\ (d_phase d = DConcluded -> d_timeout d <= now)
  /\ entry_good st (d_params d) (d_state d).
Definition disp_ok_at (st : sstate) (now : N) (D : disputes) : Prop :=
  forall id d, bfind D id = Some d -> disp_entry_ok st now id d.
Definition disp_ok (st : sstate) : Prop := disp_ok_at st (l_clock (s_L st)) (l_disp (s_L st)).

Lemma entry_good_static st st' p s : same_static st' st -> entry_good st p s -> entry_good st' p s.
Proof. intros (Hr & Ha & Hg & _). unfold entry_good, rootid. rewrite Hr, Ha, Hg. auto. Qed.

Lemma disp_ok_register st now D p t m D' evs out fuel :
  disp_ok_at st now D ->
  entry_good st p (tx_st t) -> (forall e, In e m -> entry_good st (fst e) (tx_st (snd e))) ->
  register_rec fuel now D p t m = ROk (D', evs, out) -> disp_ok_at st now D'.
Proof.
  intros Hd Hp Hm Hr.
  apply (register_rec_preserves now m (disp_ok_at st now) (fun p t => entry_good st p (tx_st t)))
    with (fuel := fuel) (D := D) (p := p) (t := t) (evs := evs) (out := out); auto.
  clear. intros D p t D' evs Hg Hd Hs.
  destruct (register_single_cases _ _ _ _ _ _ Hs) as [_ [(-> & _)|(_ & to & -> & _ & _)]]; [exact Hd|].
  intros id d. rewrite bfind_bput. destruct (bytes_eqb id (st_id (tx_st t))) eqn:Ei; [|apply Hd].
  apply bytes_eqb_eq in Ei. subst id. intro X. injection X as <-. unfold disp_entry_ok. cbn [d_state d_phase d_params].
  split; [reflexivity|]. split; [discriminate|exact Hg].
Qed.

Definition op_good (st : sstate) (o : lop) : Prop :=
  match o with
  | LRegister p t m => entry_good st p (tx_st t) /\ forall e, In e m -> entry_good st (fst e) (tx_st (snd e))
  | LConcludeFinal p t => entry_good st p (tx_st t)
  | LProgress _ _ _ _ _ => False
  | _ => True
  end.

Lemma upto_disp_ok st now D D' : upto now D D' -> disp_ok_at st now D -> disp_ok_at st now D'.
Proof.
  intros U Hd id d' Hf. specialize (U id). rewrite Hf in U. destruct U as (d & Ed & P1 & S1 & T1 & Ph).
  destruct (Hd _ _ Ed) as (A1 & A2 & A3). unfold disp_entry_ok. rewrite P1, S1, T1.
  split; [exact A1|]. split; [|exact A3].
  intro C. destruct Ph as [Ph|[_ Le]]; [apply A2; congruence|exact Le].
Qed.

Lemma disp_ok_ledger st L o :
  disp_ok_at st (l_clock L) (l_disp L) -> op_good st o ->
  disp_ok_at st (l_clock (fst (step L o))) (l_disp (fst (step L o))).
Proof.
  intros Hd Hg. destruct o; cbn [op_good] in Hg.
  - destruct (deposit_disp L p assets idx from amts) as [-> ->]. exact Hd.
  - destruct Hg as [Hp Hm].
    destruct (register_step L p t subs) as [->|(D & evs & out & Hr & _ & ->)]; [exact Hd|].
    cbn [with_disp l_clock l_disp]. eapply disp_ok_register; eauto.
  - contradiction.
  - destruct (conclude_step' L p s subs) as [->|[evs E]]; [exact Hd|].
    destruct (conclude_step _ _ _ _ _ _ E) as (_ & _ & D & out & Hc & -> & _ & -> & _).
    destruct (conclude_rec_spec _ _ _ _ _ _ _ _ Hc) as (U & _). eapply upto_disp_ok; eauto.
  - destruct (concludefinal_step L p t) as [->|H]; [exact Hd|]. cbv zeta in H.
    destruct H as (_ & _ & _ & _ & _ & _ & ->). cbn [l_clock l_disp].
    intros id d. rewrite bfind_bput. destruct (bytes_eqb id (lp_id p)) eqn:Ei; [|apply Hd].
    apply bytes_eqb_eq in Ei. subst id. intro X. injection X as <-. unfold disp_entry_ok. cbn [d_state d_phase d_params d_timeout].
    destruct Hg as (G1 & G2). split; [exact G1|]. split; [intros _; lia|]. split; auto.
  - destruct (withdraw_disp L p idx signer to) as [-> ->]. exact Hd.
  - rewrite tick_step. cbn [l_clock l_disp]. intros id d Hf. destruct (Hd _ _ Hf) as (A1 & A2 & A3).
    split; [exact A1|]. split; [|exact A3]. intro C. specialize (A2 C). lia.
Qed.

Lemma presented_good st k o : nodes_ok st k -> presented st k o -> (forall p a b c d, o <> LProgress p a b c d) -> op_good st o.
Proof.
  intros Ok Hp Np. destruct o; cbn [presented op_good] in *; auto.
  - destruct Hp as (_ & Hk & Hm). split; [eapply known_good; eauto|]. intros e He. eapply known_good; eauto.
  - exfalso. eapply Np. reflexivity.
  - destruct Hp as (_ & Hk). eapply known_good; eauto.
Qed.

Lemma step_op_not_progress st e o : step_op st e = Some o -> forall p a b c d, o <> LProgress p a b c d.
Proof.
  destruct e; cbn [step_op]; intros H; try discriminate; try (injection H as <-; discriminate).
  - destruct (newest_tree st i); [|discriminate]. injection H as <-. discriminate.
  - destruct (newest_tree st i); [|discriminate]. injection H as <-. unfold conclude_op.
    destruct (_ && _ && _); discriminate.
Qed.

Lemma disp_ok_static st st' now D : same_static st' st -> disp_ok_at st now D -> disp_ok_at st' now D.
Proof.
  intros St Hd id d Hf. destruct (Hd _ _ Hf) as (A1 & A2 & A3). split; [exact A1|]. split; [exact A2|].
  eapply entry_good_static; eauto.
Qed.

Lemma disp_ok_step st e st' : disp_ok st -> nodes_ok st 0 -> nodes_ok st 1 -> step_spec st e st' -> disp_ok st'.
Proof.
  intros Hd Ok0 Ok1 H. unfold disp_ok. rewrite (step_ledger _ _ _ H).
  apply (disp_ok_static _ _ _ _ (step_static _ _ _ H)).
  destruct (step_op st e) as [o|] eqn:Eo; [|exact Hd].
  destruct (step_presented _ _ _ H Ok0 Ok1 _ Eo) as (k & Okk & Hp).
  apply disp_ok_ledger; [exact Hd|]. eapply presented_good; eauto. eapply step_op_not_progress; eauto.
Qed.

(* ================= the honest participant against the adversary (C04) ================= *)
Definition adv_event (h : N) (e : sevent) : bool :=
  match e with
  | SAdvRegister h' _ _ | SAdvConcludeFinal h' _ | SAdvWithdraw h' => h' =? h
  | SAdvConclude _ _ | STick | SFund _ => true
  | _ => match honest_actor e with Some i => i =? h | None => false end
  end.
Lemma adversarial_run_forall h es : adversarial_run h es = forallb (adv_event h) es.
Proof. reflexivity. Qed.

Lemma step_presented_h st e st' h : step_spec st e st' -> adv_event h e = true -> nodes_ok st h ->
  forall o, step_op st e = Some o -> presented st h o.
Proof.
  intros H Ha Ok o Ho.
  destruct e; cbn [step_op] in Ho; try discriminate; cbn [step_spec] in H; cbn [adv_event honest_actor] in Ha;
    try (apply N.eqb_eq in Ha; subst); try (injection Ho as <-; exact I).
  - injection Ho as <-. destruct H as (_ & Hk & Hks & _).
    unfold register_op, presented. cbn [fst snd]. rewrite tx_st_signed. split; [reflexivity|].
    split; [apply known_signed_known; exact Hk|].
    intros e He. apply in_map_iff in He as [[p s] [<- He]]. cbn [fst snd]. rewrite tx_st_signed.
    rewrite forallb_forall in Hks. apply known_signed_known. apply (Hks _ He).
  - destruct H as (_ & tr & Htr & _ & _). rewrite Htr in Ho. injection Ho as <-.
    apply tree_presented; [exact Ok|]. apply tree_by_newest. exact Htr.
  - destruct H as (_ & tr & Htr & _ & _). rewrite Htr in Ho. injection Ho as <-. unfold conclude_op.
    destruct (st_final (fst tr) && _ && _); [|exact I]. unfold presented. rewrite tx_st_signed.
    split; [reflexivity|].
    destruct (tree_by_newest _ _ _ Htr) as [[rn [Hr Hn]] _].
    pose proof (newest_In _ _ Hn) as Hin. destruct (node_key_state _ _ _ _ _ Ok Hr Hin) as [Hid _].
    exists rn. rewrite Hid. split; [exact Hr|]. split; [|exact Hin].
    destruct (Ok _ _ Hr) as (_ & _ & _ & _ & _ & K6). unfold rootid in K6 at 1. rewrite bytes_eqb_refl in K6.
    symmetry. apply K6.
  - injection Ho as <-. destruct H as (_ & Hk & Hks & _).
    unfold presented. split; [reflexivity|]. split; [apply known_signed_known; exact Hk|].
    intros e He. rewrite forallb_forall in Hks. apply known_signed_known. apply (Hks _ He).
  - injection Ho as <-. destruct H as (_ & Hk & _).
    unfold presented. split; [reflexivity|]. apply known_signed_known. exact Hk.
Qed.

(* what a participant knows only grows *)
Lemma known_step st e st' k p s : nodes_ok st k -> step_spec st e st' -> known st k p s -> known st' k p s.
Proof.
  intros Ok H (n & Hf & Hp & Hin). unfold known.
  destruct (is_local e) eqn:El.
  2:{ rewrite (step_nodes_ledger _ _ _ k H El). exists n. auto. }
  destruct e; try discriminate El; cbn [step_spec] in H.
  - destruct H as (_ & Hnone & _ & _ & _ & _ & _ & _ & _ & ->).
    destruct (Bool.bool_dec (side i) (side k)) as [E|E].
    2:{ rewrite (get_set_other _ _ _ _ E). exists n. auto. }
    rewrite (get_set_side _ _ _ _ E). cbn [upd_node pt_nodes]. rewrite bfind_bput.
    destruct (bytes_eqb (st_id s) (lp_id p0)) eqn:Ec.
    + apply bytes_eqb_eq in Ec. rewrite (get_party_side st i k E), <- Ec, Hf in Hnone. discriminate.
    + exists n. rewrite (get_party_side st i k E). auto.
  - destruct H as (_ & n0 & cur & rest & Hf0 & Hh & _ & _ & _ & _ & ->).
    destruct (Bool.bool_dec (side i) (side k)) as [E|E].
    2:{ rewrite (get_set_other _ _ _ _ E). exists n. auto. }
    rewrite (get_set_side _ _ _ _ E). cbn [upd_node pt_nodes]. rewrite bfind_bput.
    rewrite (get_party_side st i k E) in *.
    destruct (bytes_eqb (st_id s) (st_id s0)) eqn:Ec.
    + apply bytes_eqb_eq in Ec. rewrite <- Ec, Hf in Hf0. injection Hf0 as <-.
      eexists. split; [reflexivity|]. cbn [n_params n_hist]. split; [exact Hp|right; exact Hin].
    + exists n. auto.
  - destruct H as (_ & n0 & Hf0 & ->).
    destruct (Bool.bool_dec (side i) (side k)) as [E|E].
    2:{ rewrite (get_set_other _ _ _ _ E). exists n. auto. }
    rewrite (get_set_side _ _ _ _ E). cbn [upd_node pt_nodes]. rewrite bfind_bput.
    rewrite (get_party_side st i k E) in *.
    destruct (bytes_eqb (st_id s) c) eqn:Ec.
    + apply bytes_eqb_eq in Ec. rewrite <- Ec, Hf in Hf0. injection Hf0 as <-.
      eexists. split; [reflexivity|]. cbn [n_params n_hist]. auto.
    + exists n. auto.
Qed.

(* I2: everything registered is known to the honest participant *)
Definition disp_known_at (st : sstate) (h : N) (D : disputes) : Prop :=
  forall id d, bfind D id = Some d -> known st h (d_params d) (d_state d).
Definition disp_known (st : sstate) (h : N) : Prop := disp_known_at st h (l_disp (s_L st)).

Lemma disp_known_ledger st h L o :
  disp_known_at st h (l_disp L) -> presented st h o -> (forall p a b c d, o <> LProgress p a b c d) ->
  disp_known_at st h (l_disp (fst (step L o))).
Proof.
  intros Hd Hp Np. destruct o; cbn [presented] in Hp.
  - destruct (deposit_disp L p assets idx from amts) as [-> _]. exact Hd.
  - destruct Hp as (_ & Hk & Hm).
    destruct (register_step L p t subs) as [->|(D & evs & out & Hr & _ & ->)]; [exact Hd|].
    cbn [with_disp l_disp].
    apply (register_rec_preserves (l_clock L) subs (disp_known_at st h) (fun p t => known st h p (tx_st t)))
      with (fuel := S (length subs)) (D := l_disp L) (p := p) (t := t) (evs := evs) (out := out); auto.
    clear. intros D p t D' evs Hg Hd Hs.
    destruct (register_single_cases _ _ _ _ _ _ Hs) as [_ [(-> & _)|(_ & to & -> & _ & _)]]; [exact Hd|].
    intros id d. rewrite bfind_bput. destruct (bytes_eqb id (st_id (tx_st t))); [|apply Hd].
    intro X. injection X as <-. exact Hg.
  - exfalso. eapply Np. reflexivity.
  - destruct (conclude_step' L p s subs) as [->|[evs E]]; [exact Hd|].
    destruct (conclude_step _ _ _ _ _ _ E) as (_ & _ & D & out & Hc & -> & _).
    destruct (conclude_rec_spec _ _ _ _ _ _ _ _ Hc) as (U & _).
    intros id d' Hf. specialize (U id). rewrite Hf in U. destruct U as (d & Ed & P1 & S1 & _).
    rewrite P1, S1. apply (Hd _ _ Ed).
  - destruct Hp as (_ & Hk).
    destruct (concludefinal_step L p t) as [->|H]; [exact Hd|]. cbv zeta in H.
    destruct H as (_ & _ & _ & _ & _ & _ & ->). cbn [l_disp].
    intros id d. rewrite bfind_bput. destruct (bytes_eqb id (lp_id p)); [|apply Hd].
    intro X. injection X as <-. exact Hk.
  - destruct (withdraw_disp L p idx signer to) as [-> _]. exact Hd.
  - exact Hd.
Qed.

Lemma disp_known_step st e st' h :
  disp_known st h -> nodes_ok st h -> adv_event h e = true -> step_spec st e st' -> disp_known st' h.
Proof.
  intros Hd Ok Ha H. unfold disp_known. rewrite (step_ledger _ _ _ H).
  assert (Mono : forall D, disp_known_at st h D -> disp_known_at st' h D).
  { intros D HD id d Hf. eapply known_step; eauto. }
  apply Mono. destruct (step_op st e) as [o|] eqn:Eo; [|exact Hd].
  apply disp_known_ledger; [exact Hd| |eapply step_op_not_progress; eauto].
  eapply step_presented_h; eauto.
Qed.

(* I3: when the refutation window of a channel that matters is closed, the newest state is registered and
   the history cannot grow any more *)
Definition no_more (n : node) (t : state) : Prop := n_frozen n = true \/ st_final t = true.
Definition finished_at (st : sstate) (h : N) (now : N) (D : disputes) : Prop :=
  forall c n d t, bfind (pt_nodes (get_party st h)) c = Some n -> relevant st h c = true ->
    bfind D c = Some d -> d_timeout d <= now -> newest n = Some t -> d_state d = t /\ no_more n t.
Definition finished (st : sstate) (h : N) : Prop := finished_at st h (l_clock (s_L st)) (l_disp (s_L st)).

Lemma bfind_In {A} (m : bmap A) k v : bfind m k = Some v -> In (k, v) m.
Proof.
  induction m as [|[k' v'] m IH]; cbn [bfind]; [discriminate|].
  destruct (bytes_eqb k k') eqn:E.
  - apply bytes_eqb_eq in E. subst. intro H. injection H as <-. left. reflexivity.
  - intro H. right. apply IH. exact H.
Qed.

Lemma newest_head n t : newest n = Some t -> exists r, n_hist n = t :: r.
Proof. unfold newest. destruct (n_hist n) as [|x r]; cbn [hd_error]; [discriminate|]. intro H. injection H as <-. eauto. Qed.

Lemma final_known_is_newest st h c n s t :
  nodes_ok st h -> bfind (pt_nodes (get_party st h)) c = Some n -> In s (n_hist n) -> st_final s = true ->
  newest n = Some t -> s = t.
Proof.
  intros Ok Hf Hin Fin Hn. destruct (newest_head _ _ Hn) as [r Hr]. destruct (Ok _ _ Hf) as (_ & K2 & _).
  rewrite Hr in K2, Hin. eapply chain_final_head; eauto.
Qed.

Lemma finished_register st h now D p t D' evs :
  nodes_ok st h -> known st h p (tx_st t) -> finished_at st h now D ->
  register_single now D p t = ROk (D', evs) -> finished_at st h now D'.
Proof.
  intros Ok Hk Hfin Hs.
  destruct (register_single_cases _ _ _ _ _ _ Hs) as [_ [(-> & _)|(_ & to & -> & _ & Hto)]]; [exact Hfin|].
  intros c n d x Hf Hrel Hd Hle Hn. rewrite bfind_bput in Hd.
  destruct (bytes_eqb c (st_id (tx_st t))) eqn:Ec; [|eapply Hfin; eauto].
  apply bytes_eqb_eq in Ec. subst c. injection Hd as <-. cbn [d_state d_timeout] in *.
  destruct (known_good _ _ _ _ Ok Hk) as (_ & _ & Hcd & _).
  destruct Hk as (n' & Hf' & _ & Hin). rewrite Hf in Hf'. injection Hf' as <-.
  assert (Fin : st_final (tx_st t) = true).
  { destruct (st_final (tx_st t)) eqn:F; [reflexivity|exfalso].
    destruct Hto as [(_ & ->)|(d0 & _ & _ & _ & _ & Hlt & ->)].
    - unfold new_timeout in Hle. rewrite F in Hle. lia.
    - lia. }
  pose proof (final_known_is_newest _ _ _ _ _ _ Ok Hf Hin Fin Hn) as <-.
  split; [reflexivity|right; exact Fin].
Qed.

Lemma finished_ledger st h L o :
  nodes_ok st h -> finished_at st h (l_clock L) (l_disp L) -> presented st h o ->
  (forall p a b c d, o <> LProgress p a b c d) ->
  (forall n, o = LTick n -> n = 1 /\ forall c nd, bfind (pt_nodes (get_party st h)) c = Some nd ->
       relevant st h c = true -> window_closing L c = true -> settled_business L nd = true) ->
  finished_at st h (l_clock (fst (step L o))) (l_disp (fst (step L o))).
Proof.
  intros Ok Hfin Hp Np Htick. destruct o; cbn [presented] in Hp.
  - destruct (deposit_disp L p assets idx from amts) as [-> ->]. exact Hfin.
  - destruct Hp as (_ & Hk & Hm).
    destruct (register_step L p t subs) as [->|(D & evs & out & Hr & _ & ->)]; [exact Hfin|].
    cbn [with_disp l_disp l_clock].
    apply (register_rec_preserves (l_clock L) subs (finished_at st h (l_clock L)) (fun p t => known st h p (tx_st t)))
      with (fuel := S (length subs)) (D := l_disp L) (p := p) (t := t) (evs := evs) (out := out); auto.
    intros D0 p0 t0 D' evs0 Hg Hd Hs. eapply finished_register; eauto.
  - exfalso. eapply Np. reflexivity.
  - destruct (conclude_step' L p s subs) as [->|[evs E]]; [exact Hfin|].
    destruct (conclude_step _ _ _ _ _ _ E) as (_ & _ & D & out & Hc & -> & _ & -> & _).
    destruct (conclude_rec_spec _ _ _ _ _ _ _ _ Hc) as (U & _).
    intros c n d' x Hf Hrel Hd Hle Hn. specialize (U c). rewrite Hd in U. destruct U as (d & Ed & _ & S1 & T1 & _).
    rewrite S1. eapply Hfin; eauto. rewrite <- T1. exact Hle.
  - destruct Hp as (_ & Hk).
    destruct (concludefinal_step L p t) as [->|H]; [exact Hfin|]. cbv zeta in H.
    destruct H as (_ & Hok & Fin & _ & _ & _ & ->). cbn [l_disp l_clock].
    intros c n d x Hf Hrel Hd Hle Hn. rewrite bfind_bput in Hd.
    destruct (bytes_eqb c (lp_id p)) eqn:Ec; [|eapply Hfin; eauto].
    apply bytes_eqb_eq in Ec. subst c. injection Hd as <-. cbn [d_state].
    destruct (known_good _ _ _ _ Ok Hk) as (Hid & _).
    destruct Hk as (n' & Hf' & _ & Hin). rewrite Hid, Hf in Hf'. injection Hf' as <-.
    pose proof (final_known_is_newest _ _ _ _ _ _ Ok Hf Hin Fin Hn) as <-.
    split; [reflexivity|right; exact Fin].
  - destruct (withdraw_disp L p idx signer to) as [-> ->]. exact Hfin.
  - destruct (Htick n eq_refl) as [-> Hg]. rewrite tick_step. cbn [l_clock l_disp].
    intros c nd d x Hf Hrel Hd Hle Hn.
    assert (W : window_closing L c = true).
    { unfold window_closing. rewrite Hd. apply N.leb_le. exact Hle. }
    specialize (Hg _ _ Hf Hrel W). unfold settled_business in Hg. rewrite Hn in Hg.
    destruct (newest_head _ _ Hn) as [r Hr].
    assert (Hin : In x (n_hist nd)) by (rewrite Hr; left; reflexivity).
    destruct (node_key_state _ _ _ _ _ Ok Hf Hin) as [Hid _]. rewrite Hid, Hd in Hg.
    apply andb_true_iff in Hg as [G1 G2]. apply state_equal_eq in G1. split; [exact G1|left; exact G2].
Qed.

Lemma relevant_nodes st st' h c :
  rootid st' = rootid st ->
  option_map newest (bfind (pt_nodes (get_party st' h)) (rootid st)) =
  option_map newest (bfind (pt_nodes (get_party st h)) (rootid st)) ->
  relevant st' h c = relevant st h c.
Proof.
  intros Hr Hn. unfold relevant. rewrite Hr.
  destruct (bfind (pt_nodes (get_party st' h)) (rootid st)) as [a|], (bfind (pt_nodes (get_party st h)) (rootid st)) as [b|];
    cbn [option_map] in Hn; try discriminate; [|reflexivity].
  injection Hn as ->. reflexivity.
Qed.

Lemma locks_exists s c : locks s c = true -> exists l, In l (al_locked (st_alloc s)) /\ sa_id l = c.
Proof.
  unfold locks. intro H. apply existsb_exists in H as [l [Hl E]]. apply bytes_eqb_eq in E. eauto.
Qed.

Lemma finished_step st e st' h :
  finished st h -> nodes_ok st h -> disp_ok st -> disp_known st h -> adv_event h e = true ->
  step_spec st e st' -> finished st' h.
Proof.
  intros Hfin Ok Hdo Hdk Ha H. unfold finished. rewrite (step_ledger _ _ _ H).
  destruct (is_local e) eqn:El.
  2:{ (* ledger steps: nodes and relevance unchanged *)
    assert (Hn : pt_nodes (get_party st' h) = pt_nodes (get_party st h)) by (eapply step_nodes_ledger; eauto).
    assert (Hr : rootid st' = rootid st) by (unfold rootid; destruct (step_static _ _ _ H) as (-> & _); reflexivity).
    assert (Tr : forall now D, finished_at st h now D -> finished_at st' h now D).
    { intros now D HD c n d t Hf Hrel. rewrite Hn in Hf.
      rewrite (relevant_nodes st st' h c Hr) in Hrel by (rewrite Hn; reflexivity). eapply HD; eauto. }
    apply Tr. destruct (step_op st e) as [o|] eqn:Eo; [|exact Hfin].
    apply finished_ledger; auto.
    - eapply step_presented_h; eauto.
    - eapply step_op_not_progress; eauto.
    - intros n ->. destruct e; cbn [step_op] in Eo; try discriminate;
        try (destruct (newest_tree st i); discriminate);
        try (destruct (newest_tree st i); [injection Eo as Eo; unfold conclude_op in Eo; destruct (_ && _ && _); discriminate|discriminate]).
      injection Eo as <-. split; [reflexivity|]. cbn [step_spec] in H. destruct H as (Ht & _).
      intros c nd Hf Hrel Hw. unfold tick_ok in Ht. apply andb_true_iff in Ht as [T0 T1].
      assert (Th : party_tick_ok st h = true).
      { destruct (h =? 0) eqn:E0.
        - apply N.eqb_eq in E0. subst h. exact T0.
        - rewrite <- T1. unfold party_tick_ok, relevant.
          rewrite (get_party_side st h 1) by (unfold side; rewrite E0; reflexivity). reflexivity. }
      unfold party_tick_ok in Th. rewrite forallb_forall in Th. specialize (Th _ (bfind_In _ _ _ Hf)).
      cbn [fst snd] in Th. rewrite Hrel, Hw in Th. cbn [negb orb] in Th. exact Th. }
  assert (HL : match step_op st e with Some o => fst (step (s_L st) o) | None => s_L st end = s_L st).
  { destruct e; try discriminate El; reflexivity. }
  rewrite HL.
  assert (Hroot : rootid st' = rootid st) by (unfold rootid; destruct (step_static _ _ _ H) as (-> & _); reflexivity).
  destruct e; try discriminate El; cbn [step_spec] in H; cbn [adv_event honest_actor] in Ha; apply N.eqb_eq in Ha; subst i.
  - (* open *)
    destruct H as (_ & Hnone & _ & _ & Hl & _ & _ & _ & _ & ->).
    intros c n d t Hf Hrel Hd Hle Hn. rewrite get_set_same in Hf. cbn [upd_node pt_nodes] in Hf.
    rewrite bfind_bput in Hf. destruct (bytes_eqb c (lp_id p)) eqn:Ec.
    + exfalso. apply bytes_eqb_eq in Ec. subst c.
      destruct (Hdk _ _ Hd) as (n' & Hf' & _). destruct (Hdo _ _ Hd) as (Hk & _).
      rewrite Hk, Hnone in Hf'. discriminate.
    + assert (Hrel' : relevant st h c = true).
      { revert Hrel. unfold relevant. rewrite rootid_set_party, get_set_same. cbn [upd_node pt_nodes].
        rewrite bfind_bput. destruct (bytes_eqb (rootid st) (lp_id p)) eqn:Er; [|auto].
        apply bytes_eqb_eq in Er. cbn [newest n_hist hd_error]. unfold locks. rewrite Hl. cbn [existsb].
        rewrite orb_false_r. intro X. apply bytes_eqb_eq in X. subst c. rewrite Er, bytes_eqb_refl in Ec. discriminate. }
      eapply Hfin; eauto.
  - (* enable *)
    destruct H as (_ & n0 & cur & rest & Hf0 & Hh & Hfr & _ & Hg & Hr & ->).
    destruct (good_succ_facts _ _ _ Hg) as (_ & _ & Nf & _).
    intros c n d t Hf Hrel Hd Hle Hn. rewrite get_set_same in Hf. cbn [upd_node pt_nodes] in Hf.
    rewrite bfind_bput in Hf.
    assert (RelOld : forall c',
              relevant (set_party st h (upd_node (get_party st h) (st_id s) (mkNode (n_params n0) (s :: n_hist n0) false))) h c' = true ->
              relevant st h c' = true \/ bfind (l_disp (s_L st)) c' = None).
    { intros c'. unfold relevant. rewrite rootid_set_party, get_set_same. cbn [upd_node pt_nodes].
      rewrite bfind_bput. destruct (bytes_eqb c' (rootid st)) eqn:Ecr; [auto|]. cbn [orb].
      destruct (bytes_eqb (rootid st) (st_id s)) eqn:Er; [|auto].
      apply bytes_eqb_eq in Er. cbn [newest n_hist hd_error]. intro Lk.
      rewrite <- Er in Hf0. rewrite Hf0. unfold newest. rewrite Hh. cbn [hd_error].
      destruct (locks cur c') eqn:Lc; [auto|]. right.
      rewrite <- Er, bytes_eqb_refl in Hr. unfold root_succ_ok in Hr. rewrite forallb_forall in Hr.
      destruct (locks_exists _ _ Lk) as (l & Hl & <-). specialize (Hr _ Hl).
      apply andb_true_iff in Hr as [_ Hr]. unfold fresh_lock_ok in Hr. rewrite Lc in Hr. cbn [orb] in Hr.
      destruct (bfind (l_disp (s_L st)) (sa_id l)); [discriminate|reflexivity]. }
    destruct (bytes_eqb c (st_id s)) eqn:Ec.
    + (* the node that grew: its window cannot be closed *)
      exfalso. apply bytes_eqb_eq in Ec. subst c. injection Hf as <-.
      destruct (RelOld (st_id s) Hrel) as [Hrel'|Hno]; [|rewrite Hno in Hd; discriminate].
      assert (Hn0 : newest n0 = Some cur) by (unfold newest; rewrite Hh; reflexivity).
      destruct (Hfin _ _ _ _ Hf0 Hrel' Hd Hle Hn0) as (_ & [Fr|Fi]); congruence.
    + destruct (RelOld c Hrel) as [Hrel'|Hno];
        [eapply Hfin; eauto|rewrite Hno in Hd; discriminate].
  - (* freeze *)
    destruct H as (_ & n0 & Hf0 & ->).
    intros c' n d t Hf Hrel Hd Hle Hn. rewrite get_set_same in Hf. cbn [upd_node pt_nodes] in Hf.
    rewrite bfind_bput in Hf.
    assert (Hrel' : relevant st h c' = true).
    { revert Hrel. unfold relevant. rewrite rootid_set_party, get_set_same. cbn [upd_node pt_nodes].
      rewrite bfind_bput. destruct (bytes_eqb (rootid st) c) eqn:Er; [|auto].
      apply bytes_eqb_eq in Er. subst c. rewrite Hf0. auto. }
    destruct (bytes_eqb c' c) eqn:Ec.
    + apply bytes_eqb_eq in Ec. subst c'. injection Hf as <-.
      destruct (Hfin _ _ _ _ Hf0 Hrel' Hd Hle Hn) as (E1 & _). split; [exact E1|left; reflexivity].
    + eapply Hfin; eauto.
Qed.

(* I8: a concluded ledger channel has all sub-channels of the concluded state concluded *)
Lemma step_op_root st e o : step_op st e = Some o ->
  (forall p s m, o = LConclude p s m -> lp_id p = rootid st) /\ (forall p t, o = LConcludeFinal p t -> lp_id p = rootid st).
Proof.
  intro H. destruct e; cbn [step_op] in H; try discriminate;
    try (injection H as <-; split; intros; try discriminate; match goal with X : _ = _ |- _ => injection X as <-; reflexivity end).
  - destruct (newest_tree st i); [|discriminate]. injection H as <-. split; intros; discriminate.
  - destruct (newest_tree st i) as [tr|]; [|discriminate]. injection H as <-. unfold conclude_op.
    destruct (_ && _ && _); split; intros; try discriminate;
      match goal with X : _ = _ |- _ => injection X as <-; reflexivity end.
Qed.

Lemma tree_concluded_sstep st e st' :
  tree_concluded (l_disp (s_L st)) (rootid st) -> step_spec st e st' ->
  tree_concluded (l_disp (s_L st')) (rootid st').
Proof.
  intros Ht H. rewrite (step_ledger _ _ _ H).
  assert (Hr : rootid st' = rootid st) by (unfold rootid; destruct (step_static _ _ _ H) as (-> & _); reflexivity).
  rewrite Hr. destruct (step_op st e) as [o|] eqn:Eo; [|exact Ht].
  destruct (step_op_root _ _ _ Eo) as [R1 R2].
  apply tree_concluded_step; auto. eapply step_op_not_progress; eauto.
Qed.

(* ================= runs ================= *)
Record inv04 (st : sstate) (h : N) : Prop := mkInv04 {
  i_ok0 : nodes_ok st 0; i_ok1 : nodes_ok st 1; i_disp : disp_ok st; i_known : disp_known st h;
  i_fin : finished st h; i_tree : tree_concluded (l_disp (s_L st)) (rootid st) }.

Lemma nodes_ok_any st i : nodes_ok st 0 -> nodes_ok st 1 -> nodes_ok st i.
Proof. intros Ok0 Ok1 c n. unfold get_party. destruct (i =? 0); [apply Ok0|apply Ok1]. Qed.

Lemma inv04_step st e st' r h : inv04 st h -> adv_event h e = true -> sstep st e = Some (st', r) -> inv04 st' h.
Proof.
  intros [Ok0 Ok1 Hd Hk Hf Ht] Ha H. apply sstep_spec in H.
  pose proof (nodes_ok_any st h Ok0 Ok1) as Okh.
  constructor.
  - eapply nodes_ok_step; eauto.
  - eapply nodes_ok_step; eauto.
  - eapply disp_ok_step; eauto.
  - eapply disp_known_step; eauto.
  - eapply finished_step; eauto.
  - eapply tree_concluded_sstep; eauto.
Qed.

Lemma inv04_init rootp assets agree accts acc h : inv04 (sinit rootp assets agree accts acc) h.
Proof.
  constructor.
  - intros c n H. cbn in H. discriminate H.
  - intros c n H. cbn in H. discriminate H.
  - intros id d H. cbn in H. discriminate H.
  - intros id d H. cbn in H. discriminate H.
  - intros c n d t H. unfold get_party, sinit in H. destruct (h =? 0); cbn in H; discriminate H.
  - intros d H. cbn in H. discriminate H.
Qed.

Lemma inv04_run h : forall es st st', inv04 st h -> adversarial_run h es = true -> srun st es = Some st' -> inv04 st' h.
Proof.
  induction es as [|e es IH]; intros st st' Hi Ha Hr; cbn [srun] in Hr.
  - injection Hr as <-. exact Hi.
  - rewrite adversarial_run_forall in Ha. cbn [forallb] in Ha. apply andb_true_iff in Ha as [Ha1 Ha2].
    destruct (sstep st e) as [[st1 r]|] eqn:E; [|discriminate].
    eapply IH; [eapply inv04_step; eauto|exact Ha2|exact Hr].
Qed.

(* ================= C04, the dispute part ================= *)
(* (1) when the refutation window of a channel that matters to the honest participant h is closed, the state
   registered for it is h's newest agreed state of that channel, and h agrees to no further state of it *)
Theorem refutation_in_time rootp assets agree accts acc h es st :
  adversarial_run h es = true -> srun (sinit rootp assets agree accts acc) es = Some st ->
  forall c n d t, bfind (pt_nodes (get_party st h)) c = Some n -> relevant st h c = true ->
    bfind (l_disp (s_L st)) c = Some d -> d_timeout d <= l_clock (s_L st) -> newest n = Some t ->
    d_state d = t /\ (n_frozen n = true \/ st_final t = true).
Proof.
  intros Ha Hr. pose proof (inv04_run h es _ _ (inv04_init _ _ _ _ _ h) Ha Hr) as I. exact (i_fin _ _ I).
Qed.

Lemma node_has_newest st k c n : nodes_ok st k -> bfind (pt_nodes (get_party st k)) c = Some n -> exists t, newest n = Some t.
Proof.
  intros Ok Hf. destruct (Ok _ _ Hf) as (_ & K2 & _). unfold newest.
  destruct (n_hist n) as [|x r]; [destruct K2|]. cbn [hd_error]. eauto.
Qed.

(* (2) whatever the ledger channel is concluded on is h's newest tree: the newest ledger state and, for every
   sub-allocation locked in it, the newest state of that sub-channel, registered and concluded together *)
Theorem concluded_is_newest rootp assets agree accts acc h es st :
  adversarial_run h es = true -> srun (sinit rootp assets agree accts acc) es = Some st ->
  forall d, bfind (l_disp (s_L st)) (rootid st) = Some d -> d_phase d = DConcluded ->
  exists rn, bfind (pt_nodes (get_party st h)) (rootid st) = Some rn /\ newest rn = Some (d_state d)
    /\ (n_frozen rn = true \/ st_final (d_state d) = true)
    /\ forall l, In l (al_locked (st_alloc (d_state d))) ->
         exists n dl, bfind (pt_nodes (get_party st h)) (sa_id l) = Some n
           /\ bfind (l_disp (s_L st)) (sa_id l) = Some dl /\ d_phase dl = DConcluded
           /\ newest n = Some (d_state dl) /\ (n_frozen n = true \/ st_final (d_state dl) = true).
Proof.
  intros Ha Hr d Hd Hc.
  pose proof (inv04_run h es _ _ (inv04_init _ _ _ _ _ h) Ha Hr) as [Ok0 Ok1 Hdo Hdk Hfin Htr].
  pose proof (nodes_ok_any st h Ok0 Ok1) as Okh.
  destruct (Hdk _ _ Hd) as (rn & Hrn & _ & _). destruct (Hdo _ _ Hd) as (Hid & Hto & _). rewrite Hid in Hrn.
  destruct (node_has_newest _ _ _ _ Okh Hrn) as [t Ht].
  assert (Rel : relevant st h (rootid st) = true) by (unfold relevant; rewrite bytes_eqb_refl; reflexivity).
  destruct (Hfin _ _ _ _ Hrn Rel Hd (Hto Hc) Ht) as (E & Nm). subst t.
  exists rn. split; [exact Hrn|]. split; [exact Ht|]. split; [exact Nm|].
  intros l Hl. destruct (Htr _ Hd Hc _ Hl) as (dl & Hdl & Hcl).
  destruct (Hdk _ _ Hdl) as (n & Hn & _ & _). destruct (Hdo _ _ Hdl) as (Hidl & Htol & _). rewrite Hidl in Hn.
  destruct (node_has_newest _ _ _ _ Okh Hn) as [tl Htl].
  assert (Rell : relevant st h (sa_id l) = true).
  { unfold relevant. rewrite Hrn, Ht. unfold locks. apply orb_true_iff. right.
    apply existsb_exists. exists l. split; [exact Hl|apply bytes_eqb_refl]. }
  destruct (Hfin _ _ _ _ Hn Rell Hdl (Htol Hcl) Htl) as (El & Nml). subst tl.
  exists n, dl. auto.
Qed.

(* ================= a participant whose own Conclude succeeded (C03) ================= *)
Lemma frozen_node_stays st e st' k c n :
  bfind (pt_nodes (get_party st k)) c = Some n -> n_frozen n = true -> step_spec st e st' ->
  exists n', bfind (pt_nodes (get_party st' k)) c = Some n' /\ n_hist n' = n_hist n /\ n_frozen n' = true
             /\ n_params n' = n_params n.
Proof.
  intros Hf Fr H. destruct (is_local e) eqn:El.
  2:{ rewrite (step_nodes_ledger _ _ _ k H El). eauto. }
  destruct e; try discriminate El; cbn [step_spec] in H.
  - destruct H as (_ & Hnone & _ & _ & _ & _ & _ & _ & _ & ->).
    destruct (Bool.bool_dec (side i) (side k)) as [E|E].
    2:{ rewrite (get_set_other _ _ _ _ E). eauto. }
    rewrite (get_set_side _ _ _ _ E). cbn [upd_node pt_nodes]. rewrite bfind_bput.
    rewrite (get_party_side st i k E) in *.
    destruct (bytes_eqb c (lp_id p)) eqn:Ec; [|eauto].
    apply bytes_eqb_eq in Ec. subst c. congruence.
  - destruct H as (_ & n0 & cur & rest & Hf0 & _ & Hfr & _ & _ & _ & ->).
    destruct (Bool.bool_dec (side i) (side k)) as [E|E].
    2:{ rewrite (get_set_other _ _ _ _ E). eauto. }
    rewrite (get_set_side _ _ _ _ E). cbn [upd_node pt_nodes]. rewrite bfind_bput.
    rewrite (get_party_side st i k E) in *.
    destruct (bytes_eqb c (st_id s)) eqn:Ec; [|eauto].
    apply bytes_eqb_eq in Ec. subst c. congruence.
  - destruct H as (_ & n0 & Hf0 & ->).
    destruct (Bool.bool_dec (side i) (side k)) as [E|E].
    2:{ rewrite (get_set_other _ _ _ _ E). eauto. }
    rewrite (get_set_side _ _ _ _ E). cbn [upd_node pt_nodes]. rewrite bfind_bput.
    rewrite (get_party_side st i k E) in *.
    destruct (bytes_eqb c c0) eqn:Ec; [|eauto].
    apply bytes_eqb_eq in Ec. subst c0. rewrite Hf in Hf0. injection Hf0 as <-.
    eexists. split; [reflexivity|]. cbn [n_hist n_frozen n_params]. auto.
Qed.

(* the ledger channel is concluded on exactly the tree participant k holds as newest, all of it frozen *)
Definition settled_on (st : sstate) (k : N) : Prop :=
  exists rn d, bfind (pt_nodes (get_party st k)) (rootid st) = Some rn /\ n_frozen rn = true
    /\ bfind (l_disp (s_L st)) (rootid st) = Some d /\ d_phase d = DConcluded /\ newest rn = Some (d_state d)
    /\ forall l, In l (al_locked (st_alloc (d_state d))) ->
         exists n dl, bfind (pt_nodes (get_party st k)) (sa_id l) = Some n /\ n_frozen n = true
           /\ bfind (l_disp (s_L st)) (sa_id l) = Some dl /\ d_phase dl = DConcluded
           /\ newest n = Some (d_state dl).

Lemma newest_hist n n' : n_hist n' = n_hist n -> newest n' = newest n.
Proof. unfold newest. intros ->. reflexivity. Qed.

Lemma settled_on_step st e st' k : settled_on st k -> step_spec st e st' -> settled_on st' k.
Proof.
  intros (rn & d & Hrn & Frn & Hd & Hc & Hn & Hl) H.
  assert (Hr : rootid st' = rootid st) by (unfold rootid; destruct (step_static _ _ _ H) as (-> & _); reflexivity).
  assert (Keep : forall id x, bfind (l_disp (s_L st)) id = Some x -> d_phase x = DConcluded ->
            exists x', bfind (l_disp (s_L st')) id = Some x' /\ d_state x' = d_state x /\ d_phase x' = DConcluded).
  { intros id x Hx Hcx. rewrite (step_ledger _ _ _ H). destruct (step_op st e) as [o|] eqn:Eo; [|eauto].
    apply concluded_stays; auto. eapply step_op_not_progress; eauto. }
  destruct (frozen_node_stays _ _ _ _ _ _ Hrn Frn H) as (rn' & Hrn' & Hh & Fr' & _).
  destruct (Keep _ _ Hd Hc) as (d' & Hd' & Sd & Cd).
  exists rn', d'. rewrite Hr. split; [exact Hrn'|]. split; [exact Fr'|]. split; [exact Hd'|]. split; [exact Cd|].
  split; [rewrite Sd, (newest_hist _ _ Hh); exact Hn|].
  rewrite Sd. intros l Hin. destruct (Hl _ Hin) as (n & dl & Hfn & Frl & Hdl & Hcl & Hnl).
  destruct (frozen_node_stays _ _ _ _ _ _ Hfn Frl H) as (n' & Hn' & Hh' & Fr'' & _).
  destruct (Keep _ _ Hdl Hcl) as (dl' & Hdl' & Sdl & Cdl).
  exists n', dl'. split; [exact Hn'|]. split; [exact Fr''|]. split; [exact Hdl'|]. split; [exact Cdl|].
  rewrite Sdl, (newest_hist _ _ Hh'). exact Hnl.
Qed.

(* looking a sub-channel up by id in the list of a tree finds that sub-channel's newest state *)
Lemma tree_find st k tr : nodes_ok st k -> tree_shape (pt_nodes (get_party st k)) (rootid st) tr ->
  forall l, In l (al_locked (st_alloc (fst tr))) ->
    exists n t, bfind (pt_nodes (get_party st k)) (sa_id l) = Some n /\ newest n = Some t
      /\ find_st (map snd (snd tr)) (sa_id l) = Some t.
Proof.
  intros Ok [_ F]. revert F. generalize (al_locked (st_alloc (fst tr))) (snd tr).
  intros ls subs F. induction F as [|l0 e ls subs (n0 & Hf0 & Hp0 & Hn0) F IH]; intros l Hin; [destruct Hin|].
  pose proof (newest_In _ _ Hn0) as Hin0. destruct (node_key_state _ _ _ _ _ Ok Hf0 Hin0) as [Hid0 _].
  cbn [map find_st find]. fold (find_st (map snd subs) (sa_id l)).
  destruct (bytes_eqb (st_id (snd e)) (sa_id l)) eqn:Eb.
  - apply bytes_eqb_eq in Eb. rewrite Hid0 in Eb. exists n0, (snd e). rewrite <- Eb. auto.
  - destruct Hin as [<-|Hin]; [rewrite Hid0, bytes_eqb_refl in Eb; discriminate|]. apply IH. exact Hin.
Qed.

Lemma tree_frozen_facts nodes root rs : tree_frozen nodes root rs = true ->
  (forall rn, bfind nodes root = Some rn -> n_frozen rn = true)
  /\ forall l n, In l (al_locked (st_alloc rs)) -> bfind nodes (sa_id l) = Some n -> n_frozen n = true.
Proof.
  unfold tree_frozen. intro H. apply andb_true_iff in H as [H1 H2]. split.
  - intros rn E. rewrite E in H1. exact H1.
  - intros l n Hl E. rewrite forallb_forall in H2. specialize (H2 _ Hl). rewrite E in H2. exact H2.
Qed.

Lemma conclude_success_settled st k tr L' evs :
  nodes_ok st k -> newest_tree st k = Some tr ->
  tree_frozen (pt_nodes (get_party st k)) (rootid st) (fst tr) = true ->
  step_res (s_L st) (conclude_op st tr) = ROk (L', evs) ->
  settled_on (set_ledger st L') k.
Proof.
  intros Ok Htr Hfr Hres. pose proof (tree_by_newest _ _ _ Htr) as Sh.
  destruct Sh as [[rn [Hrn Hn]] F]. destruct (tree_frozen_facts _ _ _ Hfr) as [Fr1 Fr2].
  pose proof (newest_In _ _ Hn) as Hin. destruct (node_key_state _ _ _ _ _ Ok Hrn Hin) as [Hid _].
  unfold settled_on. rewrite rootid_set_ledger, sL_set_ledger. cbn [get_party set_ledger].
  change (pt_nodes (if k =? 0 then s_p0 st else s_p1 st)) with (pt_nodes (get_party st k)).
  unfold conclude_op in Hres.
  destruct (st_final (fst tr) && (length (al_locked (st_alloc (fst tr))) =? 0)%nat
            && match bfind (l_disp (s_L st)) (rootid st) with None => true | Some _ => false end) eqn:Ecase.
  - (* conclude final *)
    apply andb_true_iff in Ecase as [Ecase Enone]. apply andb_true_iff in Ecase as [_ El].
    apply Nat.eqb_eq in El. apply length_zero_iff_nil in El.
    destruct (bfind (l_disp (s_L st)) (rootid st)) eqn:Ed; [discriminate|].
    cbn [step_res] in Hres. guards. unfold rootid in Ed. rewrite Ed in Hres. guards. injection Hres as <- _.
    cbn [l_disp]. exists rn. eexists. split; [exact Hrn|]. split; [apply Fr1; exact Hrn|].
    split; [unfold rootid; apply bfind_bput_same|]. cbn [d_phase d_state]. rewrite ?tx_st_signed.
    split; [reflexivity|]. split; [exact Hn|]. rewrite El. intros l [].
  - (* conclude *)
    destruct (conclude_step _ _ _ _ _ _ Hres) as (_ & _ & D & out & Hc & -> & _).
    destruct (conclude_rec_spec _ _ _ _ _ _ _ _ Hc) as (_ & _ & (d & Ed & Sd & Pd) & Fs & _).
    rewrite Hid in Ed. exists rn, d. split; [exact Hrn|]. split; [apply Fr1; exact Hrn|].
    split; [exact Ed|]. split; [exact Pd|]. split; [rewrite Sd; exact Hn|].
    rewrite Sd. intros l Hl. rewrite Forall_forall in Fs. destruct (Fs _ Hl) as (sub & Hfs & _ & (dl & Edl & Sdl & Pdl)).
    destruct (tree_find _ _ _ Ok (conj (ex_intro _ rn (conj Hrn Hn)) F) _ Hl) as (n & t & Hfn & Hnt & Hft).
    rewrite Hft in Hfs. injection Hfs as <-. rewrite (find_st_id _ _ _ Hft) in Edl.
    exists n, dl. split; [exact Hfn|]. split; [eapply Fr2; eauto|]. split; [exact Edl|]. split; [exact Pdl|].
    rewrite Sdl. exact Hnt.
Qed.

Lemma settled_on_raise st i cf wf k : settled_on st k -> settled_on (raise st i cf wf) k.
Proof.
  unfold settled_on. rewrite sL_raise. unfold rootid. destruct (static_raise st i cf wf) as (-> & _).
  rewrite !nodes_raise. auto.
Qed.
Lemma is_ok_step L o : is_ok (snd (step L o)) = true -> exists evs, step_res L o = ROk (fst (step L o), evs).
Proof. unfold step. destruct (step_res L o) as [[L' evs]|e]; cbn [fst snd is_ok]; [eauto|discriminate]. Qed.

Lemma flags_raise st i cf wf k :
  pt_concl (get_party (raise st i cf wf) k) = (pt_concl (get_party st k) || (cf && Bool.eqb (side i) (side k)))
  /\ pt_wd (get_party (raise st i cf wf) k) = (pt_wd (get_party st k) || (wf && Bool.eqb (side i) (side k))).
Proof.
  unfold raise. destruct (Bool.bool_dec (side i) (side k)) as [E|E].
  - rewrite (get_set_side _ _ _ _ E). cbn [pt_concl pt_wd]. rewrite (get_party_side st i k E), E.
    rewrite Bool.eqb_reflx, !andb_true_r. auto.
  - rewrite (get_set_other _ _ _ _ E). apply Bool.eqb_false_iff in E. rewrite E, !andb_false_r, !orb_false_r. auto.
Qed.

Record inv03 (st : sstate) : Prop := mkInv03 {
  j_ok0 : nodes_ok st 0; j_ok1 : nodes_ok st 1;
  j_set : forall k, pt_concl (get_party st k) = true -> settled_on st k }.

Lemma concl_local st i P k : pt_concl P = pt_concl (get_party st i) ->
  pt_concl (get_party (set_party st i P) k) = pt_concl (get_party st k).
Proof.
  intro E. destruct (Bool.bool_dec (side i) (side k)) as [S|S].
  - rewrite (get_set_side _ _ _ _ S), E, (get_party_side st i k S). reflexivity.
  - rewrite (get_set_other _ _ _ _ S). reflexivity.
Qed.

Lemma inv03_step st e st' r : inv03 st -> sstep st e = Some (st', r) -> inv03 st'.
Proof.
  intros [Ok0 Ok1 Hs] H. apply sstep_spec in H. constructor.
  - eapply nodes_ok_step; eauto.
  - eapply nodes_ok_step; eauto.
  - intros k Hc.
    assert (Old : pt_concl (get_party st k) = true -> settled_on st' k).
    { intro X. eapply settled_on_step; eauto. }
    destruct e; cbn [step_spec] in H.
    + destruct H as (_ & _ & _ & _ & _ & _ & _ & _ & _ & ->). apply Old. rewrite concl_local in Hc; auto.
    + destruct H as (_ & n & cur & rest & _ & _ & _ & _ & _ & _ & ->). apply Old. rewrite concl_local in Hc; auto.
    + destruct H as (_ & n & _ & ->). apply Old. rewrite concl_local in Hc; auto.
    + destruct H as (_ & ->). apply Old. exact Hc.
    + destruct H as (_ & _ & _ & ->). apply Old. exact Hc.
    + destruct H as (_ & tr & _ & _ & ->). apply Old. exact Hc.
    + destruct H as (Hi & tr & Htr & Hfr & E). subst st'.
      destruct (is_ok (result st (conclude_op st tr))) eqn:Eok.
      * destruct (flags_raise (after st (conclude_op st tr)) i true false k) as [Fc _]. rewrite Fc in Hc.
        apply orb_true_iff in Hc as [Hc|Hc].
        -- apply Old. exact Hc.
        -- cbn [andb] in Hc. apply Bool.eqb_prop in Hc.
           apply settled_on_raise. destruct (is_ok_step _ _ Eok) as [evs Hres].
           assert (Htr' : newest_tree st k = Some tr).
           { unfold newest_tree in *. rewrite <- (get_party_side st i k Hc). exact Htr. }
           rewrite (get_party_side st i k Hc) in Hfr.
           unfold after. eapply conclude_success_settled; eauto. apply nodes_ok_any; auto.
      * apply Old. exact Hc.
    + destruct H as (_ & _ & E). subst st'. destruct (is_ok (result st (withdraw_op st i))).
      * destruct (flags_raise (after st (withdraw_op st i)) i false true k) as [Fc _]. rewrite Fc in Hc.
        cbn [andb] in Hc. rewrite orb_false_r in Hc. apply Old. exact Hc.
      * apply Old. exact Hc.
    + destruct H as (_ & _ & _ & ->). apply Old. exact Hc.
    + subst st'. apply Old. exact Hc.
    + destruct H as (_ & _ & ->). apply Old. exact Hc.
    + destruct H as (_ & ->). apply Old. exact Hc.
    + destruct H as (_ & ->). apply Old. exact Hc.
Qed.

Lemma inv03_init rootp assets agree accts acc : inv03 (sinit rootp assets agree accts acc).
Proof.
  constructor.
  - intros c n H. cbn in H. discriminate H.
  - intros c n H. cbn in H. discriminate H.
  - intros k H. unfold get_party, sinit in H. destruct (k =? 0); cbn in H; discriminate H.
Qed.

Lemma inv03_run : forall es st st', inv03 st -> srun st es = Some st' -> inv03 st'.
Proof.
  induction es as [|e es IH]; intros st st' Hi Hr; cbn [srun] in Hr.
  - injection Hr as <-. exact Hi.
  - destruct (sstep st e) as [[st1 r]|] eqn:E; [|discriminate]. eapply IH; [eapply inv03_step; eauto|exact Hr].
Qed.

(* C03, agreement part: when both participants' own Conclude went through, the ledger channel is concluded
   on the state both hold as their newest agreed state, and the same holds for every sub-channel locked in
   it: "the last state both signed" is one well-defined tree. Holds for every run of the LTS. *)
Theorem both_settled_same_tree rootp assets agree accts acc es st :
  srun (sinit rootp assets agree accts acc) es = Some st ->
  pt_concl (s_p0 st) = true -> pt_concl (s_p1 st) = true ->
  exists d rn0 rn1, bfind (l_disp (s_L st)) (rootid st) = Some d /\ d_phase d = DConcluded
    /\ bfind (pt_nodes (s_p0 st)) (rootid st) = Some rn0 /\ newest rn0 = Some (d_state d)
    /\ bfind (pt_nodes (s_p1 st)) (rootid st) = Some rn1 /\ newest rn1 = Some (d_state d)
    /\ forall l, In l (al_locked (st_alloc (d_state d))) ->
         exists dl n0 n1, bfind (l_disp (s_L st)) (sa_id l) = Some dl /\ d_phase dl = DConcluded
           /\ bfind (pt_nodes (s_p0 st)) (sa_id l) = Some n0 /\ newest n0 = Some (d_state dl)
           /\ bfind (pt_nodes (s_p1 st)) (sa_id l) = Some n1 /\ newest n1 = Some (d_state dl).
Proof.
  intros Hr C0 C1. pose proof (inv03_run es _ _ (inv03_init _ _ _ _ _) Hr) as [_ _ Hs].
  destruct (Hs 0 C0) as (rn0 & d & Hrn0 & _ & Hd & Hc & Hn0 & Hl0).
  destruct (Hs 1 C1) as (rn1 & d' & Hrn1 & _ & Hd' & _ & Hn1 & Hl1).
  rewrite Hd in Hd'. injection Hd' as <-.
  exists d, rn0, rn1. split; [exact Hd|]. split; [exact Hc|]. split; [exact Hrn0|]. split; [exact Hn0|].
  split; [exact Hrn1|]. split; [exact Hn1|].
  intros l Hl. destruct (Hl0 _ Hl) as (n0 & dl & Hf0 & _ & Hdl & Hcl & Hnl0).
  destruct (Hl1 _ Hl) as (n1 & dl' & Hf1 & _ & Hdl' & _ & Hnl1). rewrite Hdl in Hdl'. injection Hdl' as <-.
  exists dl, n0, n1. auto 10.
Qed.

(* ================= funding, holdings and accounts (all runs) ================= *)
Definition acct (st : sstate) (i : nat) : N := nth i (s_accts st) 0.
Definition dcol (st : sstate) (i : nat) (x : N) : Z := sum_for x (combine (s_assets st) (col (s_agree st) i)).
Definition ocol (st : sstate) (out : list (list Z)) (i : nat) (x : N) : Z := sum_for x (combine (s_assets st) (col out i)).
Definition zeros (A : list (list Z)) : list Z := map (fun _ => 0%Z) A.

Record static_ok (st : sstate) : Prop := mkSO {
  so_accts : length (s_accts st) = 2%nat;
  so_distinct : nth 0 (s_accts st) 0 <> nth 1 (s_accts st) 0;
  so_parts : length (lp_parts (s_root st)) = 2%nat;
  so_agree_len : length (s_agree st) = length (s_assets st);
  so_agree_rows : Forall (fun r => length r = 2%nat) (s_agree st) }.

Definition unsettled_inv (st : sstate) (L : lstate) (acc0 : accounts) (f : fund) : Prop :=
  (forall i, (i < 2)%nat -> nth i (f_wd f) true = false)
  /\ (forall i, (i < 2)%nat -> col (f_hold f) i = if nth i (f_dep f) false then col (s_agree st) i else zeros (s_agree st))
  /\ (forall i x, (i < 2)%nat -> acc_get (l_acc L) (acct st i, x)
        = (acc_get acc0 (acct st i, x) - (if nth i (f_dep f) false then dcol st i x else 0))%Z).
Definition paid_inv (st : sstate) (L : lstate) (acc0 : accounts) (f : fund) (out : list (list Z)) : Prop :=
  forall i, (i < 2)%nat ->
    (nth i (f_wd f) true = false ->
       col (f_hold f) i = col out i
       /\ forall x, acc_get (l_acc L) (acct st i, x) = (acc_get acc0 (acct st i, x) - dcol st i x)%Z)
    /\ (nth i (f_wd f) true = true ->
       col (f_hold f) i = zeros (f_hold f)
       /\ forall x, acc_get (l_acc L) (acct st i, x) = (acc_get acc0 (acct st i, x) - dcol st i x + ocol st out i x)%Z).
Definition all_dep (f : fund) : bool := forallb (fun b => b) (f_dep f).
Definition fund_inv_at (st : sstate) (L : lstate) (acc0 : accounts) : Prop :=
  match bfind (l_funds L) (rootid st) with
  | None => forall i x, (i < 2)%nat -> acc_get (l_acc L) (acct st i, x) = acc_get acc0 (acct st i, x)
  | Some f =>
      f_assets f = s_assets st /\ fund_dims_ok f = true /\ length (f_dep f) = 2%nat
      /\ (f_settled f = false -> unsettled_inv st L acc0 f)
      /\ (f_settled f = true ->
            is_concluded (l_disp L) (rootid st) = true
            /\ (all_dep f = true -> exists out, ledger_outcome (l_disp L) (rootid st) = ROk out /\ paid_inv st L acc0 f out))
  end.
Definition fund_inv (st : sstate) (acc0 : accounts) : Prop := fund_inv_at st (s_L st) acc0.

Lemma fund_inv_at_static st st' L acc0 : same_static st' st -> fund_inv_at st L acc0 -> fund_inv_at st' L acc0.
Proof.
  intros (Hr & Ha & Hg & Hc). unfold fund_inv_at, unsettled_inv, paid_inv, acct, dcol, ocol, rootid.
  rewrite Hr, Ha, Hg, Hc. auto.
Qed.

(* the shape of the ledger operations of the LTS *)
Definition op_shape (st : sstate) (o : lop) : Prop :=
  match o with
  | LDeposit p assets idx from amts =>
      p = s_root st /\ assets = s_assets st /\ idx < 2 /\ from = acct st (N.to_nat idx)
      /\ amts = col (s_agree st) (N.to_nat idx)
  | LWithdraw p idx signer to => p = s_root st /\ idx < 2 /\ to = acct st (N.to_nat idx)
  | LConclude p _ _ => p = s_root st
  | LConcludeFinal p _ => p = s_root st
  | LRegister p _ _ => p = s_root st
  | LProgress _ _ _ _ _ => False
  | LTick _ => True
  end.
Lemma step_op_shape st e st' o : step_spec st e st' -> step_op st e = Some o -> op_shape st o.
Proof.
  intros H Ho. destruct e; cbn [step_op] in Ho; try discriminate; cbn [step_spec] in H.
  - injection Ho as <-. destruct H as (Hi & _). unfold fund_op, op_shape, acct. auto.
  - injection Ho as <-. reflexivity.
  - destruct (newest_tree st i); [|discriminate]. injection Ho as <-. reflexivity.
  - destruct (newest_tree st i); [|discriminate]. injection Ho as <-. unfold conclude_op.
    destruct (_ && _ && _); reflexivity.
  - injection Ho as <-. destruct H as (Hi & _). unfold withdraw_op, op_shape, acct. auto.
  - injection Ho as <-. reflexivity.
  - injection Ho as <-. reflexivity.
  - injection Ho as <-. reflexivity.
  - injection Ho as <-. destruct H as (Hi & _). unfold withdraw_op, op_shape, acct. splits; [reflexivity| |reflexivity].
    change (1 - h < 2). clear -Hi. lia.
  - injection Ho as <-. exact I.
Qed.

(* ---- small facts used below ---- *)
Lemma lt2 i : (i < 2)%nat -> i = 0%nat \/ i = 1%nat.
Proof. lia. Qed.
Lemma acct_inj st i j : static_ok st -> (i < 2)%nat -> (j < 2)%nat -> acct st i = acct st j -> i = j.
Proof.
  intros So Hi Hj E. pose proof (so_distinct _ So) as D. unfold acct in E.
  destruct (lt2 _ Hi) as [->| ->], (lt2 _ Hj) as [->| ->]; congruence.
Qed.
Lemma matrix2_eq (h a : list (list Z)) :
  length h = length a -> Forall (fun r => length r = 2%nat) h -> Forall (fun r => length r = 2%nat) a ->
  col h 0 = col a 0 -> col h 1 = col a 1 -> h = a.
Proof.
  revert a; induction h as [|r h IH]; intros [|s a] L Fh Fa C0 C1; cbn [length] in L; try lia; [reflexivity|].
  inversion Fh as [|? ? Hr Fh']; inversion Fa as [|? ? Hs Fa']; subst.
  unfold col in C0, C1. cbn [map] in C0, C1. injection C0 as E0 C0. injection C1 as E1 C1.
  f_equal; [|apply IH; auto; lia].
  destruct r as [|x [|y [|z r]]], s as [|x' [|y' [|z' s]]]; cbn [length] in *; try lia. cbn [nth] in E0, E1. congruence.
Qed.
Lemma state_ok_rows p s : state_ok p s = true ->
  Forall (fun r => length r = length (lp_parts p)) (al_bals (st_alloc s))
  /\ length (al_bals (st_alloc s)) = length (al_assets (st_alloc s)).
Proof.
  unfold state_ok. intro H. apply andb_true_iff in H as [H Hn]. apply andb_true_iff in H as [_ Hv].
  apply N.eqb_eq in Hn. unfold alloc_valid in Hv. split_and.
  match goal with X : (len (al_bals _) =? len (al_assets _)) = true |- _ => apply N.eqb_eq in X; rename X into HL end.
  match goal with X : forallb _ (al_bals _) = true |- _ => rename X into HR end.
  split.
  - apply Forall_forall. intros r Hr. rewrite forallb_forall in HR. specialize (HR r Hr).
    apply andb_true_iff in HR as [HR _]. apply N.eqb_eq in HR. unfold nparts_of, len in *. lia.
  - unfold len in HL. lia.
Qed.
Lemma zeros_length (A B : list (list Z)) : length A = length B -> zeros A = zeros B.
Proof.
  unfold zeros. revert B; induction A as [|a A IH]; intros [|b B] L; cbn [length] in L; try lia; [reflexivity|].
  cbn [map]. f_equal. apply IH. lia.
Qed.
Lemma zero_col_length h i : length (zero_col h i) = length h.
Proof. unfold zero_col. apply map_length. Qed.
Lemma col_repeat0 n k i : col (repeat (repeat 0%Z k) n) i = repeat 0%Z n.
Proof.
  unfold col. induction n as [|n IH]; cbn [repeat map]; [reflexivity|]. rewrite IH. f_equal.
  clear IH. revert i; induction k as [|k IHk]; intros [|i]; cbn [repeat nth]; auto.
Qed.
Lemma zeros_repeat (A : list (list Z)) : zeros A = repeat 0%Z (length A).
Proof. unfold zeros. induction A; cbn [map length repeat]; [reflexivity|]. f_equal. assumption. Qed.
Lemma all_dep_nth f i : all_dep f = true -> length (f_dep f) = 2%nat -> (i < 2)%nat -> nth i (f_dep f) false = true.
Proof.
  unfold all_dep. intros H L Hi. rewrite forallb_forall in H. apply H. apply nth_In. lia.
Qed.
Lemma nth_default_irrel (l : list bool) i a b : (i < length l)%nat -> nth i l a = nth i l b.
Proof. intro H. apply nth_indep. exact H. Qed.
Lemma fund_dims_facts f : fund_dims_ok f = true ->
  length (f_hold f) = length (f_assets f) /\ length (f_wd f) = length (f_dep f)
  /\ Forall (fun r => length r = length (f_dep f)) (f_hold f).
Proof.
  unfold fund_dims_ok. intro H. split_and. repeat match goal with X : (_ =? _)%nat = true |- _ => apply Nat.eqb_eq in X end.
  splits; auto. apply Forall_forall. intros r Hr.
  match goal with X : forallb _ (f_hold f) = true |- _ => rewrite forallb_forall in X; specialize (X r Hr); apply Nat.eqb_eq in X; exact X end.
Qed.
Lemma fund_dims_intro assets hold dep st wd :
  length hold = length assets -> length wd = length dep -> Forall (fun r => length r = length dep) hold ->
  fund_dims_ok (mkFund assets hold dep st wd) = true.
Proof.
  intros H1 H2 H3. unfold fund_dims_ok. cbn [f_hold f_assets f_wd f_dep].
  rewrite H1, H2, !Nat.eqb_refl. cbn [andb]. apply forallb_forall. intros r Hr.
  rewrite Forall_forall in H3. apply Nat.eqb_eq. apply H3. exact Hr.
Qed.

Lemma add_col_rows hold i amts c : Forall (fun r => length r = c) hold -> Forall (fun r => length r = c) (add_col hold i amts).
Proof.
  revert amts; induction hold as [|r h IH]; intros [|m am] F; cbn [add_col]; auto.
  inversion F as [|? ? Hr F']; subst. constructor; [rewrite set_nth_length; reflexivity|apply IH; exact F'].
Qed.

Lemma fund_inv_deposit st L acc0 idx :
  static_ok st -> fund_inv_at st L acc0 -> idx < 2 ->
  fund_inv_at st (fst (step L (fund_op st idx))) acc0.
Proof.
  intros So FI Hi. unfold step. destruct (step_res L (fund_op st idx)) as [[L' evs]|e] eqn:E; cbn [fst]; [|exact FI].
  unfold fund_op in E. destruct (deposit_step _ _ _ _ _ _ _ _ E) as (acc' & Hdeb & -> & Has & Hdim & Hlen & Hns & Hnd & Hlt & Hla).
  set (i := N.to_nat idx) in *. rewrite (so_parts _ So) in *.
  set (f0 := match bfind (l_funds L) (lp_id (s_root st)) with Some f => f | None => new_fund (s_assets st) 2 end) in *.
  (* the record before the deposit satisfies the unsettled invariant *)
  assert (U0 : unsettled_inv st L acc0 f0).
  { unfold fund_inv_at, rootid in FI. subst f0. destruct (bfind (l_funds L) (lp_id (s_root st))) as [f|] eqn:Ef.
    - destruct FI as (_ & _ & _ & FU & _). apply FU. exact Hns.
    - unfold unsettled_inv, new_fund. cbn [f_wd f_hold f_dep]. splits.
      + intros j Hj. destruct (lt2 _ Hj) as [->| ->]; reflexivity.
      + intros j Hj. rewrite col_repeat0, zeros_repeat, (so_agree_len _ So).
        destruct (lt2 _ Hj) as [->| ->]; reflexivity.
      + intros j x Hj. rewrite (FI j x Hj). destruct (lt2 _ Hj) as [->| ->]; cbn [repeat nth]; lia. }
  destruct U0 as (U1 & U2 & U3). destruct (fund_dims_facts _ Hdim) as (D1 & D2 & D3).
  unfold fund_inv_at, rootid. cbn [with_acc_funds l_funds l_acc l_disp]. rewrite bfind_bput_same.
  cbn [f_assets f_settled f_hold f_dep f_wd].
  assert (Hrows : forallb (fun r => (i <? length r)%nat) (f_hold f0) = true).
  { apply forallb_forall. intros r Hr. rewrite Forall_forall in D3. specialize (D3 r Hr). apply Nat.ltb_lt. lia. }
  assert (Hla' : length (col (s_agree st) i) = length (f_hold f0)).
  { rewrite col_length, D1, Has. apply (so_agree_len _ So). }
  split; [exact Has|]. split.
  { apply fund_dims_intro.
    - rewrite add_col_length by exact Hla'. congruence.
    - rewrite set_nth_length. exact D2.
    - rewrite set_nth_length. apply add_col_rows. exact D3. }
  split; [rewrite set_nth_length; exact Hlen|]. split; [|discriminate].
  intros _. unfold unsettled_inv. cbn [f_wd f_hold f_dep with_acc_funds l_acc]. splits.
  - exact U1.
  - intros j Hj. rewrite col_add_col by assumption.
    rewrite (nth_set_nth i j true false) by lia.
    destruct (j =? i)%nat eqn:Eji; [|apply U2; exact Hj].
    apply Nat.eqb_eq in Eji. subst j. rewrite (U2 i Hj).
    rewrite (nth_default_irrel _ i false true) by lia. rewrite Hnd.
    apply add_vec_zeros. rewrite col_length. reflexivity.
  - intros j x Hj. rewrite (debit_all_get _ _ _ _ (acct st j, x) Hdeb). cbn [fst snd].
    rewrite (U3 j x Hj). rewrite (nth_set_nth i j true false) by lia.
    destruct (j =? i)%nat eqn:Eji.
    + apply Nat.eqb_eq in Eji. subst j. unfold acct at 2. fold i. rewrite N.eqb_refl.
      rewrite (nth_default_irrel _ i false true) by lia. rewrite Hnd. unfold dcol. lia.
    + assert (Ne : N.eqb (acct st j) (nth i (s_accts st) 0) = false).
      { apply N.eqb_neq. intro X. apply Nat.eqb_neq in Eji. apply Eji. apply (acct_inj st j i So Hj Hlt X). }
      rewrite Ne. lia.
Qed.

Lemma zero_col_rows h i c : Forall (fun r => length r = c) h -> Forall (fun r => length r = c) (zero_col h i).
Proof.
  unfold zero_col. intro F. apply Forall_forall. intros r Hr. apply in_map_iff in Hr as [r0 [<- Hr0]].
  rewrite set_nth_length. rewrite Forall_forall in F. apply F. exact Hr0.
Qed.

Lemma fund_inv_withdraw st L acc0 idx signer :
  static_ok st -> fund_inv_at st L acc0 -> idx < 2 ->
  fund_inv_at st (fst (step L (LWithdraw (s_root st) idx signer (acct st (N.to_nat idx))))) acc0.
Proof.
  intros So FI Hi. unfold step.
  destruct (step_res L (LWithdraw (s_root st) idx signer (acct st (N.to_nat idx)))) as [[L' evs]|e] eqn:E; cbn [fst]; [|exact FI].
  destruct (L_payout_withdraw _ _ _ _ _ _ _ E) as (f & Ef & Sf & _ & Hlt & Hwd & Hacc & Ef' & _ & Hd & _).
  set (i := N.to_nat idx) in *. rewrite (so_parts _ So) in Hlt.
  unfold fund_inv_at, rootid in *. rewrite Ef in FI. rewrite Ef'. destruct FI as (F1 & F2 & F3 & _ & FS).
  destruct (FS Sf) as (Hc & Hp). destruct (fund_dims_facts _ F2) as (D1 & D2 & D3).
  cbn [f_assets f_settled f_hold f_dep f_wd]. split; [exact F1|]. split.
  { apply fund_dims_intro; [rewrite zero_col_length; exact D1|rewrite set_nth_length; exact D2|apply zero_col_rows; exact D3]. }
  split; [exact F3|]. split; [discriminate|]. intros _. rewrite Hd. split; [exact Hc|].
  unfold all_dep. cbn [f_dep]. intro Ad. destruct (Hp Ad) as (out & Ho & P). exists out. split; [exact Ho|].
  intros j Hj. cbn [f_wd f_hold]. rewrite (nth_set_nth i j true true) by lia. rewrite col_zero_col.
  rewrite (zeros_length (zero_col (f_hold f) i) (f_hold f)) by apply zero_col_length.
  destruct (P j Hj) as (P1 & P2).
  destruct (j =? i)%nat eqn:Eji.
  - apply Nat.eqb_eq in Eji. subst j. split; [discriminate|]. intros _. split; [reflexivity|].
    intro x. rewrite Hacc. cbn [fst snd]. rewrite N.eqb_refl. destruct (P1 Hwd) as (C1 & A1).
    rewrite A1, C1, F1. unfold ocol. lia.
  - assert (Ne : forall x, acc_get (l_acc L') (acct st j, x) = acc_get (l_acc L) (acct st j, x)).
    { intro x. rewrite Hacc. cbn [fst snd].
      assert (Ne : N.eqb (acct st j) (acct st i) = false).
      { apply N.eqb_neq. intro X. apply Nat.eqb_neq in Eji. apply Eji. apply (acct_inj st j i So Hj Hlt X). }
      rewrite Ne. lia. }
    split.
    + intro W. destruct (P1 W) as (C1 & A1). split; [exact C1|]. intro x. rewrite Ne. apply A1.
    + intro W. destruct (P2 W) as (C1 & A1). split; [exact C1|]. intro x. rewrite Ne. apply A1.
Qed.

(* the step that concludes the ledger channel *)
Lemma fund_inv_settle st L acc0 D' out clock' :
  static_ok st -> fund_inv_at st L acc0 -> is_concluded (l_disp L) (rootid st) = false ->
  is_concluded D' (rootid st) = true -> ledger_outcome D' (rootid st) = ROk out ->
  map zsum out = map zsum (s_agree st) -> Forall (fun r => length r = 2%nat) out ->
  length out = length (s_assets st) ->
  fund_inv_at st (mkL clock' (l_acc L) (set_outcome (l_funds L) (rootid st) out) D') acc0.
Proof.
  intros So FI Nc Hc Ho Hz Hr Hl. unfold fund_inv_at in *. cbn [l_funds l_acc l_disp].
  destruct (bfind (l_funds L) (rootid st)) as [f|] eqn:Ef.
  2:{ rewrite (set_outcome_none _ _ _ Ef), Ef. exact FI. }
  destruct FI as (F1 & F2 & F3 & FU & FS).
  destruct (f_settled f) eqn:Sf.
  { destruct (FS eq_refl) as (X & _). congruence. }
  destruct (FU eq_refl) as (U1 & U2 & U3). destruct (fund_dims_facts _ F2) as (D1 & D2 & D3).
  unfold set_outcome. rewrite Ef, Sf, bfind_bput_same. cbn [f_assets f_settled f_hold f_dep f_wd].
  split; [exact F1|].
  set (h := if fund_dims_ok f && outcome_fits f out then out else f_hold f).
  assert (Hh : length h = length (f_assets f) /\ Forall (fun r => length r = length (f_dep f)) h).
  { subst h. destruct (fund_dims_ok f && outcome_fits f out) eqn:Eb; [|auto].
    rewrite F1, F3. auto. }
  split; [apply fund_dims_intro; [apply Hh|exact D2|apply Hh]|]. split; [exact F3|]. split; [discriminate|].
  intros _. split; [exact Hc|]. unfold all_dep. cbn [f_dep]. intro Ad. exists out. split; [exact Ho|].
  (* exactly funded: the holdings are the agreement *)
  assert (Hhold : f_hold f = s_agree st).
  { apply matrix2_eq.
    - rewrite D1, F1. symmetry. apply (so_agree_len _ So).
    - rewrite <- F3. exact D3.
    - apply (so_agree_rows _ So).
    - rewrite (U2 0%nat) by lia. rewrite (all_dep_nth f 0 Ad F3) by lia. reflexivity.
    - rewrite (U2 1%nat) by lia. rewrite (all_dep_nth f 1 Ad F3) by lia. reflexivity. }
  assert (Fit : outcome_fits f out = true).
  { unfold outcome_fits. rewrite Hl, D1, F1, Nat.eqb_refl, Hhold. cbn [andb].
    apply andb_true_iff. split; [|apply zlist_eqb_eq; exact Hz].
    apply forallb_forall. intros r Hin. rewrite Forall_forall in Hr. apply Nat.eqb_eq. rewrite F3. apply Hr. exact Hin. }
  subst h. rewrite F2, Fit. cbn [andb].
  intros i Hi. cbn [f_wd f_hold l_acc]. split.
  - intros _. split; [reflexivity|]. intro x. rewrite (U3 i x Hi), (all_dep_nth f i Ad F3 Hi). reflexivity.
  - intro W. rewrite (U1 i Hi) in W. discriminate.
Qed.

Lemma is_concluded_true D id : is_concluded D id = true <-> exists d, bfind D id = Some d /\ d_phase d = DConcluded.
Proof.
  unfold is_concluded. destruct (bfind D id) as [d|]; split.
  - intro H. exists d. split; [reflexivity|]. unfold dphase_eqb in H. apply N.eqb_eq in H.
    destruct (d_phase d); cbn in H; try discriminate; reflexivity.
  - intros (d' & E & P). injection E as <-. rewrite P. reflexivity.
  - discriminate.
  - intros (d' & E & _). discriminate.
Qed.

Lemma fund_inv_at_ext st L1 L2 acc0 :
  l_funds L1 = l_funds L2 -> l_acc L1 = l_acc L2 -> l_disp L1 = l_disp L2 ->
  fund_inv_at st L1 acc0 -> fund_inv_at st L2 acc0.
Proof.
  intros Ef Ea Ed. unfold fund_inv_at, unsettled_inv, paid_inv. rewrite Ef, Ea, Ed. auto.
Qed.

(* only the dispute table changes, by an operation that leaves concluded entries alone *)
Lemma fund_inv_disp st L acc0 o :
  fund_inv_at st L acc0 -> tree_concluded (l_disp L) (rootid st) ->
  (forall p a b c e, o <> LProgress p a b c e) ->
  l_funds (fst (step L o)) = l_funds L -> l_acc (fst (step L o)) = l_acc L ->
  fund_inv_at st (fst (step L o)) acc0.
Proof.
  intros FI Ht Np Ef Ea. unfold fund_inv_at in *. rewrite Ef.
  destruct (bfind (l_funds L) (rootid st)) as [f|]; [|rewrite Ea; exact FI].
  destruct FI as (F1 & F2 & F3 & FU & FS). split; [exact F1|]. split; [exact F2|]. split; [exact F3|]. split.
  - intro Sf. destruct (FU Sf) as (U1 & U2 & U3). unfold unsettled_inv. rewrite Ea. auto.
  - intro Sf. destruct (FS Sf) as (Hcon & Hp).
    destruct (proj1 (is_concluded_true _ _) Hcon) as (d & Hd & Hc). split.
    + destruct (concluded_stays L o _ d Hd Hc Np) as (d' & Hd' & _ & Hc'). apply is_concluded_true. eauto.
    + intro Ad. destruct (Hp Ad) as (out & Ho & P).
      exists out. split; [rewrite (ledger_outcome_stable L o _ d Hd Hc Ht Np); exact Ho|].
      unfold paid_inv. rewrite Ea. exact P.
Qed.

Lemma fund_inv_ledger st L acc0 o :
  static_ok st -> fund_inv_at st L acc0 -> disp_ok_at st (l_clock L) (l_disp L) -> op_good st o -> op_shape st o ->
  tree_concluded (l_disp L) (rootid st) ->
  fund_inv_at st (fst (step L o)) acc0.
Proof.
  intros So FI Hdo Hg Hs Ht.
  pose proof (disp_ok_ledger st L o Hdo Hg) as Hdo'.
  destruct o; cbn [op_shape] in Hs.
  - (* deposit *)
    destruct Hs as (-> & -> & Hi & -> & ->). apply (fund_inv_deposit st L acc0 idx So FI Hi).
  - (* register *)
    destruct (register_clock L p t subs) as (_ & Ef & Ea). apply fund_inv_disp; auto. discriminate.
  - contradiction.
  - (* conclude *)
    subst p. destruct (conclude_step' L (s_root st) s subs) as [->|[evs E]]; [exact FI|].
    destruct (conclude_step _ _ _ _ _ _ E) as (_ & Hid & D & out & Hc & HD & HA & HC & HF).
    fold (rootid st) in Hid, HF.
    destruct (is_concluded (l_disp L) (rootid st)) eqn:Was.
    + apply fund_inv_disp; auto. discriminate.
    + destruct (conclude_rec_spec _ _ _ _ _ _ _ _ Hc) as (_ & _ & (d & Ed & Sd & Pd) & _ & Hout).
      rewrite Hid in Ed. rewrite HD in Hdo'. destruct (Hdo' _ _ Ed) as (_ & _ & Eg). unfold entry_good in Eg.
      rewrite Sd, Hid, bytes_eqb_refl in Eg. destruct Eg as (_ & Hok & _ & Hp & Hsum & Has & Hnr).
      destruct (state_ok_rows _ _ Hok) as (Hrows & Hlen). rewrite Hp, (so_parts _ So) in Hrows.
      destruct (outcome_rec_dims _ _ _ _ 2%nat Hout Hrows) as (Orows & Olen).
      apply (fund_inv_at_ext st (mkL (l_clock L) (l_acc L) (set_outcome (l_funds L) (rootid st) out) D)); auto.
      apply fund_inv_settle; auto.
      * apply is_concluded_true. eauto.
      * rewrite <- Hid. apply (conclude_outcome_ledger _ _ _ _ _ _ _ Hc).
        intros l dl Hl Hdl. destruct (Hdo' _ _ Hdl) as (Hk & _ & Egl). unfold entry_good in Egl.
        rewrite Hk in Egl. destruct (bytes_eqb (sa_id l) (rootid st)) eqn:Er.
        -- apply bytes_eqb_eq in Er. exfalso. eapply Hnr; eauto.
        -- apply Egl.
      * rewrite (outcome_rec_sums _ _ _ _ Hout). exact Hsum.
      * rewrite Olen, Hlen, Has. reflexivity.
  - (* conclude final *)
    subst p. destruct (concludefinal_step L (s_root st) t) as [->|H]; [exact FI|]. cbv zeta in H.
    destruct H as (_ & Hok & _ & Hl0 & _ & Hnc & HL).
    unfold op_good, entry_good in Hg. destruct Hg as (Hid & _ & _ & Hrt). fold (rootid st) in Hid, HL, Hnc.
    rewrite Hid, bytes_eqb_refl in Hrt. destruct Hrt as (_ & Hsum & Has & _).
    destruct (state_ok_rows _ _ Hok) as (Hrows & Hlen). rewrite (so_parts _ So) in Hrows.
    rewrite HL. apply fund_inv_settle; auto.
    + destruct (bfind (l_disp L) (rootid st)) as [d|] eqn:Ed.
      * unfold is_concluded. rewrite Ed. unfold dphase_eqb. destruct (d_phase d); try reflexivity. contradiction.
      * unfold is_concluded. rewrite Ed. reflexivity.
    + apply is_concluded_true. eexists. split; [apply bfind_bput_same|reflexivity].
    + unfold ledger_outcome. rewrite bfind_bput_same. cbn [d_state]. unfold flat_outcome. rewrite Hl0. reflexivity.
    + rewrite <- Hsum. unfold alloc_sum. rewrite Hl0. reflexivity.
    + rewrite Hlen, Has. reflexivity.
  - (* withdraw *)
    destruct Hs as (-> & Hi & ->). apply (fund_inv_withdraw st L acc0 idx signer So FI Hi).
  - rewrite tick_step. eapply fund_inv_at_ext; [| | |exact FI]; reflexivity.
Qed.

(* ================= the global invariant of all runs ================= *)
Definition pidx (k : N) : nat := if k =? 0 then 0%nat else 1%nat.
Definition wd_flag_inv (st : sstate) : Prop :=
  forall k, pt_wd (get_party st k) = true ->
    exists f, bfind (l_funds (s_L st)) (rootid st) = Some f /\ f_settled f = true /\ nth (pidx k) (f_wd f) true = true.

Record ginv (st : sstate) (acc0 : accounts) : Prop := mkG {
  g_ok0 : nodes_ok st 0; g_ok1 : nodes_ok st 1; g_disp : disp_ok st;
  g_tree : tree_concluded (l_disp (s_L st)) (rootid st);
  g_static : static_ok st; g_fund : fund_inv st acc0; g_wd : wd_flag_inv st;
  g_set : forall k, pt_concl (get_party st k) = true -> settled_on st k }.

Lemma static_ok_static st st' : same_static st' st -> static_ok st -> static_ok st'.
Proof. intros (Hr & Ha & Hg & Hc) [A B C D E]. constructor; rewrite ?Hr, ?Ha, ?Hg, ?Hc; assumption. Qed.

Lemma wd_flag_step st e st' : wd_flag_inv st -> step_spec st e st' -> wd_flag_inv st'.
Proof.
  intros Hw H k Hk.
  assert (Hr : rootid st' = rootid st) by (unfold rootid; destruct (step_static _ _ _ H) as (-> & _); reflexivity).
  rewrite Hr, (step_ledger _ _ _ H).
  assert (Old : pt_wd (get_party st k) = true ->
     exists f, bfind (l_funds (match step_op st e with Some o => fst (step (s_L st) o) | None => s_L st end)) (rootid st) = Some f
               /\ f_settled f = true /\ nth (pidx k) (f_wd f) true = true).
  { intro X. destruct (Hw k X) as (f & Ef & Sf & Wf). destruct (step_op st e) as [o|]; [|eauto].
    apply (L_withdrawn_stays _ o _ _ _ Ef Sf Wf). }
  destruct e; cbn [step_spec] in H.
  - destruct H as (_ & _ & _ & _ & _ & _ & _ & _ & _ & ->). apply Old.
    destruct (Bool.bool_dec (side i) (side k)) as [S|S];
      [rewrite (get_set_side _ _ _ _ S) in Hk; cbn [upd_node pt_wd] in Hk; rewrite <- (get_party_side st i k S); exact Hk
      |rewrite (get_set_other _ _ _ _ S) in Hk; exact Hk].
  - destruct H as (_ & n & cur & rest & _ & _ & _ & _ & _ & _ & ->). apply Old.
    destruct (Bool.bool_dec (side i) (side k)) as [S|S];
      [rewrite (get_set_side _ _ _ _ S) in Hk; cbn [upd_node pt_wd] in Hk; rewrite <- (get_party_side st i k S); exact Hk
      |rewrite (get_set_other _ _ _ _ S) in Hk; exact Hk].
  - destruct H as (_ & n & _ & ->). apply Old.
    destruct (Bool.bool_dec (side i) (side k)) as [S|S];
      [rewrite (get_set_side _ _ _ _ S) in Hk; cbn [upd_node pt_wd] in Hk; rewrite <- (get_party_side st i k S); exact Hk
      |rewrite (get_set_other _ _ _ _ S) in Hk; exact Hk].
  - destruct H as (_ & ->). apply Old. exact Hk.
  - destruct H as (_ & _ & _ & ->). apply Old. exact Hk.
  - destruct H as (_ & tr & _ & _ & ->). apply Old. exact Hk.
  - destruct H as (_ & tr & _ & _ & ->). apply Old. destruct (is_ok _); [|exact Hk].
    destruct (flags_raise (after st (conclude_op st tr)) i true false k) as [_ Fw]. rewrite Fw in Hk.
    cbn [andb] in Hk. rewrite orb_false_r in Hk. exact Hk.
  - destruct H as (Hi & _ & ->). cbn [step_op]. destruct (is_ok (result st (withdraw_op st i))) eqn:Eok; [|apply Old; exact Hk].
    destruct (flags_raise (after st (withdraw_op st i)) i false true k) as [_ Fw]. rewrite Fw in Hk.
    apply orb_true_iff in Hk as [Hk|Hk]; [apply Old; exact Hk|].
    cbn [andb] in Hk. apply Bool.eqb_prop in Hk.
    destruct (is_ok_step _ _ Eok) as [evs Hres]. unfold withdraw_op in Hres.
    destruct (L_payout_withdraw _ _ _ _ _ _ _ Hres) as (f & Ef & Sf & _ & Hlt & _ & _ & Ef' & _).
    fold (rootid st) in Ef, Ef'. unfold withdraw_op. rewrite Ef'. eexists. split; [reflexivity|].
    cbn [f_settled f_wd]. split; [reflexivity|].
    assert (Epi : pidx k = N.to_nat i).
    { unfold pidx, side in *. destruct (k =? 0) eqn:Ek.
      - destruct (i =? 0) eqn:Ei0; [apply N.eqb_eq in Ei0; subst; reflexivity|discriminate].
      - destruct (i =? 0) eqn:Ei0; [discriminate|]. apply N.eqb_neq in Ei0. lia. }
    rewrite Epi. cbn [step_res] in Hres. pose proof Ef as Ef0. unfold rootid in Ef0. rewrite Ef0 in Hres. guards. split_and.
    match goal with X : (length (f_wd f) =? _)%nat = true |- _ => apply Nat.eqb_eq in X; rename X into Lw end.
    rewrite (nth_set_nth (N.to_nat i) (N.to_nat i) true true) by lia. rewrite Nat.eqb_refl. reflexivity.
  - destruct H as (_ & _ & _ & ->). apply Old. exact Hk.
  - subst st'. apply Old. exact Hk.
  - destruct H as (_ & _ & ->). apply Old. exact Hk.
  - destruct H as (_ & ->). apply Old. exact Hk.
  - destruct H as (_ & ->). apply Old. exact Hk.
Qed.

Lemma fund_inv_step st e st' acc0 :
  static_ok st -> fund_inv st acc0 -> nodes_ok st 0 -> nodes_ok st 1 -> disp_ok st ->
  tree_concluded (l_disp (s_L st)) (rootid st) -> step_spec st e st' -> fund_inv st' acc0.
Proof.
  intros So FI Ok0 Ok1 Hdo Ht H. unfold fund_inv. rewrite (step_ledger _ _ _ H).
  apply (fund_inv_at_static _ _ _ _ (step_static _ _ _ H)).
  destruct (step_op st e) as [o|] eqn:Eo; [|exact FI].
  destruct (step_presented _ _ _ H Ok0 Ok1 _ Eo) as (k & Okk & Hp).
  apply fund_inv_ledger; auto.
  - eapply presented_good; eauto. eapply step_op_not_progress; eauto.
  - eapply step_op_shape; eauto.
Qed.

Lemma ginv_step st e st' r acc0 : ginv st acc0 -> sstep st e = Some (st', r) -> ginv st' acc0.
Proof.
  intros [Ok0 Ok1 Hd Ht So FI Hw Hs] H.
  assert (I3 : inv03 st) by (constructor; assumption).
  destruct (inv03_step _ _ _ _ I3 H) as [Ok0' Ok1' Hs'].
  apply sstep_spec in H. constructor; auto.
  - eapply disp_ok_step; eauto.
  - eapply tree_concluded_sstep; eauto.
  - eapply static_ok_static; [eapply step_static; eauto|exact So].
  - eapply fund_inv_step; eauto.
  - eapply wd_flag_step; eauto.
Qed.

Lemma ginv_run acc0 : forall es st st', ginv st acc0 -> srun st es = Some st' -> ginv st' acc0.
Proof.
  induction es as [|e es IH]; intros st st' Hi Hr; cbn [srun] in Hr.
  - injection Hr as <-. exact Hi.
  - destruct (sstep st e) as [[st1 r]|] eqn:E; [|discriminate]. eapply IH; [eapply ginv_step; eauto|exact Hr].
Qed.

Lemma ginv_init rootp assets agree accts acc :
  static_ok (sinit rootp assets agree accts acc) -> ginv (sinit rootp assets agree accts acc) acc.
Proof.
  intro So. constructor; auto.
  - intros c n H. cbn in H. discriminate H.
  - intros c n H. cbn in H. discriminate H.
  - intros id d H. cbn in H. discriminate H.
  - intros d H. cbn in H. discriminate H.
  - unfold fund_inv, fund_inv_at. cbn. auto.
  - intros k H. unfold get_party, sinit in H. destruct (k =? 0); cbn in H; discriminate H.
  - intros k H. unfold get_party, sinit in H. destruct (k =? 0); cbn in H; discriminate H.
Qed.

(* ================= from the concluded tree on the ledger to the participants' newest trees ================= *)
Lemma collect_build {A B} (f : A -> option B) l : (forall x, In x l -> exists y, f x = Some y) -> exists ys, collect f l = Some ys.
Proof.
  induction l as [|x l IH]; intro H; cbn [collect]; [eauto|].
  destruct (H x (or_introl eq_refl)) as [y Ey]. rewrite Ey.
  destruct IH as [ys Eys]; [intros z Hz; apply H; right; exact Hz|]. rewrite Eys. eauto.
Qed.

Lemma tree_by_build nodes root rn rs :
  bfind nodes root = Some rn -> newest rn = Some rs ->
  (forall l, In l (al_locked (st_alloc rs)) -> exists n t, bfind nodes (sa_id l) = Some n /\ newest n = Some t) ->
  exists subs, tree_by newest nodes root = Some (rs, subs).
Proof.
  intros Hr Hn Hl. unfold tree_by. rewrite Hr, Hn.
  destruct (collect_build (fun l => match bfind nodes (sa_id l) with
                                    | Some n => option_map (fun t => (n_params n, t)) (newest n)
                                    | None => None end) (al_locked (st_alloc rs))) as [subs Es].
  { intros l Hin. destruct (Hl l Hin) as (n & t & Hf & Ht). rewrite Hf, Ht. cbn [option_map]. eauto. }
  rewrite Es. eauto.
Qed.

Lemma Forall2_length {A B} (P : A -> B -> Prop) l m : Forall2 P l m -> length l = length m.
Proof. intro F. induction F; cbn [length]; auto. Qed.

(* the outcome of a participant's newest tree is the outcome of the registered tree when the registered
   states are the participant's newest ones *)
Lemma tree_outcome_ledger st k tr d :
  nodes_ok st k -> newest_tree st k = Some tr ->
  bfind (l_disp (s_L st)) (rootid st) = Some d -> d_state d = fst tr ->
  (forall l, In l (al_locked (st_alloc (fst tr))) ->
     exists n dl, bfind (pt_nodes (get_party st k)) (sa_id l) = Some n
       /\ bfind (l_disp (s_L st)) (sa_id l) = Some dl /\ newest n = Some (d_state dl)) ->
  tree_outcome tr = ledger_outcome (l_disp (s_L st)) (rootid st).
Proof.
  intros Ok Htr Hd Sd Hl. pose proof (tree_by_newest _ _ _ Htr) as Sh.
  pose proof Sh as [[rn [Hrn Hn]] F].
  unfold tree_outcome, ledger_outcome. rewrite Hd, Sd.
  assert (Agree : forall l, In l (al_locked (st_alloc (fst tr))) ->
            find_st (map snd (snd tr)) (sa_id l) = reg_state (l_disp (s_L st)) (sa_id l)).
  { intros l Hin. destruct (tree_find _ _ _ Ok Sh _ Hin) as (n & t & Hfn & Hnt & Hft).
    destruct (Hl _ Hin) as (n' & dl & Hfn' & Hdl & Hn'). rewrite Hfn in Hfn'. injection Hfn' as <-.
    unfold reg_state. rewrite Hdl, Hft. cbn [option_map]. congruence. }
  destruct (al_locked (st_alloc (fst tr))) as [|l0 ls] eqn:El.
  - apply outcome_rec_nolock_flat. exact El.
  - pose proof (Forall2_length _ _ _ F) as Len.
    destruct (snd tr) as [|e subs] eqn:Es; [cbn [length] in Len; discriminate|]. cbn [length].
    rewrite outcome_rec_is_flat.
    + apply flat_outcome_ext. rewrite El. exact Agree.
    + rewrite El. intros l sub Hin Hfs.
      destruct (tree_find _ _ _ Ok Sh l) as (n & t & Hfn & Hnt & Hft); [rewrite El; exact Hin|].
      rewrite Es in Hft. rewrite Hft in Hfs. injection Hfs as <-.
      pose proof (newest_In _ _ Hn) as Hinr.
      destruct (Ok _ _ Hrn) as (_ & _ & _ & _ & _ & K6). unfold rootid in K6 at 1. rewrite bytes_eqb_refl in K6.
      destruct K6 as (_ & _ & _ & K8).
      assert (Nr : sa_id l <> rootid st) by (eapply K8; [exact Hinr|rewrite El; exact Hin]).
      destruct (Ok _ _ Hfn) as (_ & _ & _ & _ & _ & K6'). apply bytes_eqb_false in Nr. rewrite Nr in K6'.
      apply K6'. apply newest_In. exact Hnt.
Qed.

(* conservation along every run *)
Lemma run_total a : forall es st st', srun st es = Some st' -> ledger_total a (s_L st') = ledger_total a (s_L st).
Proof.
  induction es as [|e es IH]; intros st st' Hr; cbn [srun] in Hr.
  - injection Hr as <-. reflexivity.
  - destruct (sstep st e) as [[st1 r]|] eqn:E; [|discriminate]. rewrite (IH _ _ Hr).
    apply sstep_spec in E. rewrite (step_ledger _ _ _ E). destruct (step_op st e); [apply step_conserves|reflexivity].
Qed.

Lemma wd_concl_step st e st' :
  (forall k, pt_wd (get_party st k) = true -> pt_concl (get_party st k) = true) -> step_spec st e st' ->
  forall k, pt_wd (get_party st' k) = true -> pt_concl (get_party st' k) = true.
Proof.
  intros Hw H k Hk.
  assert (Loc : forall i c n, pt_wd (get_party (set_party st i (upd_node (get_party st i) c n)) k) = true ->
                 pt_concl (get_party (set_party st i (upd_node (get_party st i) c n)) k) = true).
  { intros i c n X. destruct (Bool.bool_dec (side i) (side k)) as [S|S].
    - rewrite (get_set_side _ _ _ _ S) in *. cbn [upd_node pt_wd pt_concl] in *. rewrite (get_party_side st i k S) in *. auto.
    - rewrite (get_set_other _ _ _ _ S) in *. auto. }
  destruct e; cbn [step_spec] in H.
  - destruct H as (_ & _ & _ & _ & _ & _ & _ & _ & _ & ->). apply Loc. exact Hk.
  - destruct H as (_ & n & cur & rest & _ & _ & _ & _ & _ & _ & ->). apply Loc. exact Hk.
  - destruct H as (_ & n & _ & ->). apply Loc. exact Hk.
  - destruct H as (_ & ->). apply Hw. exact Hk.
  - destruct H as (_ & _ & _ & ->). apply Hw. exact Hk.
  - destruct H as (_ & tr & _ & _ & ->). apply Hw. exact Hk.
  - destruct H as (_ & tr & _ & _ & ->). destruct (is_ok _); [|apply Hw; exact Hk].
    destruct (flags_raise (after st (conclude_op st tr)) i true false k) as [Fc Fw]. rewrite Fw in Hk. rewrite Fc.
    cbn [andb] in Hk. rewrite orb_false_r in Hk. apply orb_true_iff. left. apply Hw. exact Hk.
  - destruct H as (_ & Hc & ->). destruct (is_ok _); [|apply Hw; exact Hk].
    destruct (flags_raise (after st (withdraw_op st i)) i false true k) as [Fc Fw]. rewrite Fw in Hk. rewrite Fc.
    cbn [andb]. rewrite orb_false_r. apply orb_true_iff in Hk as [Hk|Hk]; [apply Hw; exact Hk|].
    cbn [andb] in Hk. apply Bool.eqb_prop in Hk. change (pt_concl (get_party st k) = true).
    rewrite <- (get_party_side st i k Hk). exact Hc.
  - destruct H as (_ & _ & _ & ->). apply Hw. exact Hk.
  - subst st'. apply Hw. exact Hk.
  - destruct H as (_ & _ & ->). apply Hw. exact Hk.
  - destruct H as (_ & ->). apply Hw. exact Hk.
  - destruct H as (_ & ->). apply Hw. exact Hk.
Qed.
Lemma wd_concl_run : forall es st st',
  (forall k, pt_wd (get_party st k) = true -> pt_concl (get_party st k) = true) -> srun st es = Some st' ->
  forall k, pt_wd (get_party st' k) = true -> pt_concl (get_party st' k) = true.
Proof.
  induction es as [|e es IH]; intros st st' Hi Hr; cbn [srun] in Hr.
  - injection Hr as <-. exact Hi.
  - destruct (sstep st e) as [[st1 r]|] eqn:E; [|discriminate]. apply sstep_spec in E.
    eapply IH; [eapply wd_concl_step; eauto|exact Hr].
Qed.

Lemma funded_all_dep st f : funded st = true -> bfind (l_funds (s_L st)) (rootid st) = Some f -> all_dep f = true.
Proof. unfold funded, all_dep. intros H E. rewrite E in H. apply andb_true_iff in H as [H _]. exact H. Qed.

Lemma subs_states (nodes : bmap node) (D : disputes) (d0 : state) : forall ls (subs : list (lparams * state)),
  Forall2 (fun l e => exists n, bfind nodes (sa_id l) = Some n /\ fst e = n_params n /\ newest n = Some (snd e)) ls subs ->
  (forall l, In l ls -> exists n dl, bfind nodes (sa_id l) = Some n /\ bfind D (sa_id l) = Some dl /\ newest n = Some (d_state dl)) ->
  map snd subs = map (fun l => match reg_state D (sa_id l) with Some s => s | None => d0 end) ls.
Proof.
  intros ls subs F. induction F as [|l e ls subs (n & Hfn & _ & Hne) F IH]; intro Hl; [reflexivity|].
  cbn [map]. f_equal.
  - destruct (Hl l (or_introl eq_refl)) as (n' & dl & Hfn' & Hdl & Hnl).
    rewrite Hfn in Hfn'. injection Hfn' as <-. unfold reg_state. rewrite Hdl. cbn [option_map]. congruence.
  - apply IH. intros l' Hin. apply Hl. right. exact Hin.
Qed.

(* a participant that is settled on the ledger's tree holds it as its newest tree, with the ledger's outcome *)
Lemma settled_tree st k :
  nodes_ok st k -> settled_on st k ->
  exists tr d, newest_tree st k = Some tr /\ bfind (l_disp (s_L st)) (rootid st) = Some d /\ fst tr = d_state d
    /\ map snd (snd tr) = map (fun l => match reg_state (l_disp (s_L st)) (sa_id l) with Some s => s | None => d_state d end)
                              (al_locked (st_alloc (d_state d)))
    /\ tree_outcome tr = ledger_outcome (l_disp (s_L st)) (rootid st).
Proof.
  intros Ok (rn & d & Hrn & _ & Hd & _ & Hn & Hl).
  destruct (tree_by_build _ _ _ _ Hrn Hn) as [subs Htr].
  { intros l Hin. destruct (Hl _ Hin) as (n & dl & Hfn & _ & _ & _ & Hnl). eauto. }
  exists (d_state d, subs), d. split; [exact Htr|]. split; [exact Hd|]. split; [reflexivity|]. split.
  - destruct (tree_by_newest _ _ _ Htr) as [_ F]. cbn [fst snd] in F |- *.
    apply (subs_states _ _ _ _ _ F). intros l Hin.
    destruct (Hl _ Hin) as (n & dl & Hfn & _ & Hdl & _ & Hnl). eauto.
  - apply (tree_outcome_ledger st k _ d Ok Htr Hd eq_refl). cbn [fst].
    intros l Hin. destruct (Hl _ Hin) as (n & dl & Hfn & _ & Hdl & _ & Hnl). eauto.
Qed.

Lemma init_total a acc : ledger_total a (init_ledger acc) = acc_total a acc.
Proof. unfold ledger_total, init_ledger. cbn [l_acc l_funds]. unfold funds_total. cbn [map]. rewrite zsum_nil. lia. Qed.

(* ================= C03 ================= *)
Theorem honest_settlement rootp assets agree accts acc0 es st :
  static_ok (sinit rootp assets agree accts acc0) ->
  srun (sinit rootp assets agree accts acc0) es = Some st ->
  funded st = true -> pt_wd (s_p0 st) = true -> pt_wd (s_p1 st) = true ->
  exists tr0 tr1 out,
    newest_tree st 0 = Some tr0 /\ newest_tree st 1 = Some tr1
    /\ fst tr0 = fst tr1 /\ map snd (snd tr0) = map snd (snd tr1)
    /\ tree_outcome tr0 = ROk out
    /\ (forall i x, (i < 2)%nat ->
          acc_get (l_acc (s_L st)) (acct st i, x) = (acc_get acc0 (acct st i, x) - dcol st i x + ocol st out i x)%Z)
    /\ (forall x, ledger_total x (s_L st) = acc_total x acc0)
    /\ exists f, bfind (l_funds (s_L st)) (rootid st) = Some f /\ f_settled f = true
         /\ forall i, (i < 2)%nat -> col (f_hold f) i = zeros (f_hold f).
Proof.
  intros So Hr Fu W0 W1.
  pose proof (ginv_run acc0 es _ _ (ginv_init _ _ _ _ _ So) Hr) as [Ok0 Ok1 Hd Ht So' FI Hw Hs].
  assert (Wc : forall k, pt_wd (get_party st k) = true -> pt_concl (get_party st k) = true).
  { apply (wd_concl_run es (sinit rootp assets agree accts acc0) st); [|exact Hr].
    intros k X. unfold get_party, sinit in X. destruct (k =? 0); cbn in X; discriminate X. }
  destruct (settled_tree st 0 Ok0 (Hs 0 (Wc 0 W0))) as (tr0 & d & T0 & Hd0 & F0 & M0 & O0).
  destruct (settled_tree st 1 Ok1 (Hs 1 (Wc 1 W1))) as (tr1 & d' & T1 & Hd1 & F1 & M1 & O1).
  rewrite Hd0 in Hd1. injection Hd1 as <-.
  destruct (Hw 0 W0) as (f & Ef & Sf & Wf0). destruct (Hw 1 W1) as (f' & Ef' & _ & Wf1).
  rewrite Ef in Ef'. injection Ef' as <-. cbn [pidx N.eqb] in Wf0, Wf1.
  unfold fund_inv, fund_inv_at in FI. rewrite Ef in FI. destruct FI as (_ & _ & _ & _ & FS).
  destruct (FS Sf) as (_ & Hp). destruct (Hp (funded_all_dep _ _ Fu Ef)) as (out & Ho & P).
  exists tr0, tr1, out. split; [exact T0|]. split; [exact T1|]. split; [congruence|]. split; [congruence|].
  split; [rewrite O0; exact Ho|]. split.
  - intros i x Hi. destruct (P i Hi) as (_ & P2). destruct (lt2 _ Hi) as [->| ->]; [apply (P2 Wf0)|apply (P2 Wf1)].
  - split; [intro x; rewrite (run_total x es _ _ Hr); apply init_total|].
    exists f. split; [exact Ef|]. split; [exact Sf|].
    intros i Hi. destruct (P i Hi) as (_ & P2). destruct (lt2 _ Hi) as [->| ->]; [apply (P2 Wf0)|apply (P2 Wf1)].
Qed.

(* ================= C04, the payout ================= *)
Lemma get_party_pidx st h : h < 2 -> get_party st h = (if h =? 0 then s_p0 st else s_p1 st).
Proof. reflexivity. Qed.

Theorem honest_payout rootp assets agree accts acc0 h es st :
  static_ok (sinit rootp assets agree accts acc0) ->
  adversarial_run h es = true -> srun (sinit rootp assets agree accts acc0) es = Some st ->
  funded st = true -> pt_wd (get_party st h) = true ->
  exists tr out d,
    newest_tree st h = Some tr /\ tree_outcome tr = ROk out
    /\ bfind (l_disp (s_L st)) (rootid st) = Some d /\ d_phase d = DConcluded /\ d_state d = fst tr
    /\ forall x, acc_get (l_acc (s_L st)) (acct st (pidx h), x)
                 = (acc_get acc0 (acct st (pidx h), x) - dcol st (pidx h) x + ocol st out (pidx h) x)%Z.
Proof.
  intros So Ha Hr Fu W.
  pose proof (ginv_run acc0 es _ _ (ginv_init _ _ _ _ _ So) Hr) as [Ok0 Ok1 Hd Ht So' FI Hw Hs].
  pose proof (nodes_ok_any st h Ok0 Ok1) as Okh.
  destruct (Hw h W) as (f & Ef & Sf & Wf).
  unfold fund_inv, fund_inv_at in FI. rewrite Ef in FI. destruct FI as (_ & _ & _ & _ & FS).
  destruct (FS Sf) as (Hcon & Hp). destruct (Hp (funded_all_dep _ _ Fu Ef)) as (out & Ho & P).
  destruct (proj1 (is_concluded_true _ _) Hcon) as (d & Hdd & Hc).
  destruct (concluded_is_newest _ _ _ _ _ h es st Ha Hr d Hdd Hc) as (rn & Hrn & Hn & _ & Hl).
  destruct (tree_by_build _ _ _ _ Hrn Hn) as [subs Htr].
  { intros l Hin. destruct (Hl _ Hin) as (n & dl & Hfn & _ & _ & Hnl & _). eauto. }
  exists (d_state d, subs), out, d. split; [exact Htr|]. split.
  - rewrite (tree_outcome_ledger st h _ d Okh Htr Hdd eq_refl); [exact Ho|]. cbn [fst].
    intros l Hin. destruct (Hl _ Hin) as (n & dl & Hfn & Hdl & _ & Hnl & _). eauto.
  - split; [exact Hdd|]. split; [exact Hc|]. split; [reflexivity|].
    assert (Hi : (pidx h < 2)%nat) by (unfold pidx; destruct (h =? 0); lia).
    destruct (P _ Hi) as (_ & P2). apply (P2 Wf).
Qed.

(* without locked sub-channels the outcome is the balance matrix of the state *)
Lemma tree_outcome_nolock tr out : tree_outcome tr = ROk out -> al_locked (st_alloc (fst tr)) = [] ->
  out = al_bals (st_alloc (fst tr)).
Proof. unfold tree_outcome. intros H E. rewrite (outcome_rec_flat _ _ _ E) in H. injection H as <-. reflexivity. Qed.

(* the explicit content of the urgency assumption: a tick is only taken when, for each participant and each
   of its channels that matters and whose refutation window the tick closes (or has closed), the newest state
   is the registered one and the machine is frozen *)
Theorem tick_needs_urgency st st' r : sstep st STick = Some (st', r) ->
  forall i c n, i < 2 -> bfind (pt_nodes (get_party st i)) c = Some n -> relevant st i c = true ->
    window_closing (s_L st) c = true -> settled_business (s_L st) n = true.
Proof.
  intros H i c n Hi Hf Hrel Hw. apply sstep_spec in H. cbn [step_spec] in H. destruct H as (Ht & _).
  unfold tick_ok in Ht. apply andb_true_iff in Ht as [T0 T1].
  assert (Th : party_tick_ok st i = true).
  { destruct (i =? 0) eqn:E0.
    - apply N.eqb_eq in E0. subst i. exact T0.
    - rewrite <- T1. unfold party_tick_ok, relevant.
      rewrite (get_party_side st i 1) by (unfold side; rewrite E0; reflexivity). reflexivity. }
  unfold party_tick_ok in Th. rewrite forallb_forall in Th. specialize (Th _ (bfind_In _ _ _ Hf)).
  cbn [fst snd] in Th. rewrite Hrel, Hw in Th. exact Th.
Qed.
