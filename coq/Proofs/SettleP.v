(* Proofs about the settlement / dispute LTS of Model/Settle.v (C03, C04). *)
From Coq Require Import Arith PeanoNat ZifyN ZifyNat ZifyBool Lia.
From V Require Import Model.Settle Proofs.ChannelP Proofs.MachineP Proofs.C02P Proofs.LedgerP.
Open Scope N_scope.

(* ================= projections of the state constructors ================= *)
Definition side (i : N) : bool := i =? 0.
Lemma get_set_same st i P : get_party (set_party st i P) i = P.
Proof. unfold get_party, set_party. destruct (i =? 0); reflexivity. Qed.
Lemma get_set_other st i j P : side i <> side j -> get_party (set_party st i P) j = get_party st j.
Proof. unfold side, get_party, set_party. destruct (i =? 0), (j =? 0); intro H; try reflexivity; contradiction. Qed.
Lemma get_set_side st i j P : side i = side j -> get_party (set_party st i P) j = P.
Proof. unfold side, get_party, set_party. destruct (i =? 0), (j =? 0); intro H; try reflexivity; discriminate. Qed.
Lemma get_party_side st i j : side i = side j -> get_party st i = get_party st j.
Proof. unfold side, get_party. intro H. rewrite H. reflexivity. Qed.
Lemma sL_set_party st i P : s_L (set_party st i P) = s_L st.
Proof. unfold set_party. destruct (i =? 0); reflexivity. Qed.
Lemma sroot_set_party st i P : s_root (set_party st i P) = s_root st.
Proof. unfold set_party. destruct (i =? 0); reflexivity. Qed.
Lemma sassets_set_party st i P : s_assets (set_party st i P) = s_assets st.
Proof. unfold set_party. destruct (i =? 0); reflexivity. Qed.
Lemma sagree_set_party st i P : s_agree (set_party st i P) = s_agree st.
Proof. unfold set_party. destruct (i =? 0); reflexivity. Qed.
Lemma saccts_set_party st i P : s_accts (set_party st i P) = s_accts st.
Proof. unfold set_party. destruct (i =? 0); reflexivity. Qed.
Lemma rootid_set_party st i P : rootid (set_party st i P) = rootid st.
Proof. unfold rootid. rewrite sroot_set_party. reflexivity. Qed.
Lemma get_set_ledger st L i : get_party (set_ledger st L) i = get_party st i.
Proof. reflexivity. Qed.
Lemma sL_set_ledger st L : s_L (set_ledger st L) = L.
Proof. reflexivity. Qed.
Lemma rootid_set_ledger st L : rootid (set_ledger st L) = rootid st.
Proof. reflexivity. Qed.
Lemma funded_set_party st i P : funded (set_party st i P) = funded st.
Proof. unfold funded. rewrite sL_set_party, rootid_set_party. reflexivity. Qed.

(* static part of the state *)
Definition same_static (a b : sstate) : Prop :=
  s_root a = s_root b /\ s_assets a = s_assets b /\ s_agree a = s_agree b /\ s_accts a = s_accts b.
Lemma same_static_refl a : same_static a a.
Proof. repeat split. Qed.
Lemma same_static_set_party st i P : same_static (set_party st i P) st.
Proof. unfold same_static. rewrite sroot_set_party, sassets_set_party, sagree_set_party, saccts_set_party. repeat split. Qed.
Lemma same_static_set_ledger st L : same_static (set_ledger st L) st.
Proof. repeat split. Qed.
Lemma same_static_trans a b c : same_static a b -> same_static b c -> same_static a c.
Proof. unfold same_static. intuition congruence. Qed.

(* ================= a uniform description of the steps ================= *)
Definition after (st : sstate) (o : lop) : sstate := set_ledger st (fst (step (s_L st) o)).
Definition result (st : sstate) (o : lop) : lout := snd (step (s_L st) o).
Definition raise (st : sstate) (i : N) (cf wf : bool) : sstate :=
  set_party st i (mkParty (pt_nodes (get_party st i)) (pt_concl (get_party st i) || cf) (pt_wd (get_party st i) || wf)).

Lemma apply_ledger_eq st o : apply_ledger st o = (after st o, result st o).
Proof. unfold apply_ledger, after, result. destruct (step (s_L st) o); reflexivity. Qed.

Ltac break_if H :=
  repeat match type of H with
         | (if ?b then _ else _) = Some _ => let E := fresh "B" in destruct b eqn:E; [|try discriminate H]
         | match ?x with Some _ => _ | None => _ end = Some _ => let E := fresh "O" in destruct x eqn:E; [|try discriminate H]
         end.

Definition conclude_op (st : sstate) (tr : state * list (lparams * state)) : lop :=
  let rs := fst tr in
  if st_final rs && (length (al_locked (st_alloc rs)) =? 0)%nat
     && match bfind (l_disp (s_L st)) (rootid st) with None => true | Some _ => false end
  then LConcludeFinal (s_root st) (signed (s_root st) rs)
  else LConclude (s_root st) rs (map snd (snd tr)).
Definition withdraw_op (st : sstate) (i : N) : lop :=
  LWithdraw (s_root st) i (nth (N.to_nat i) (lp_parts (s_root st)) 0) (nth (N.to_nat i) (s_accts st) 0).
Definition fund_op (st : sstate) (i : N) : lop :=
  LDeposit (s_root st) (s_assets st) i (nth (N.to_nat i) (s_accts st) 0) (col (s_agree st) (N.to_nat i)).

(* the steps, declaratively *)
Definition step_spec (st : sstate) (e : sevent) (st' : sstate) : Prop :=
  match e with
  | SOpen i p s =>
      i < 2 /\ bfind (pt_nodes (get_party st i)) (lp_id p) = None
      /\ state_ok p s = true /\ st_ver s = 0 /\ al_locked (st_alloc s) = [] /\ 1 <= lp_cd p
      /\ length (lp_parts p) = 2%nat /\ al_assets (st_alloc s) = s_assets st
      /\ (if bytes_eqb (lp_id p) (rootid st)
          then lparams_eqb p (s_root st) = true /\ lp_ledger p = true
               /\ agreement_ok (al_bals (st_alloc s)) (s_agree st) = true
          else lp_ledger p = false)
      /\ st' = set_party st i (upd_node (get_party st i) (lp_id p) (mkNode p [s] false))
  | SEnable i s =>
      i < 2 /\ exists n cur rest,
        bfind (pt_nodes (get_party st i)) (st_id s) = Some n /\ n_hist n = cur :: rest
        /\ n_frozen n = false /\ funded st = true /\ good_succ (n_params n) cur s = true
        /\ (if bytes_eqb (st_id s) (rootid st)
            then root_succ_ok (pt_nodes (get_party st i)) (l_disp (s_L st)) cur s = true
            else al_locked (st_alloc s) = [])
        /\ st' = set_party st i (upd_node (get_party st i) (st_id s) (mkNode (n_params n) (s :: n_hist n) false))
  | SFreeze i c =>
      i < 2 /\ exists n, bfind (pt_nodes (get_party st i)) c = Some n
        /\ st' = set_party st i (upd_node (get_party st i) c (mkNode (n_params n) (n_hist n) true))
  | SFund i => i < 2 /\ st' = after st (fund_op st i)
  | SReact i rs subs =>
      i < 2 /\ known_signed (pt_nodes (get_party st i)) (s_root st) rs = true
      /\ forallb (fun e => known_signed (pt_nodes (get_party st i)) (fst e) (snd e)) subs = true
      /\ st' = after st (register_op st (rs, subs))
  | SRegister i =>
      i < 2 /\ exists tr, newest_tree st i = Some tr
        /\ tree_frozen (pt_nodes (get_party st i)) (rootid st) (fst tr) = true
        /\ st' = after st (register_op st tr)
  | SConclude i =>
      i < 2 /\ exists tr, newest_tree st i = Some tr
        /\ tree_frozen (pt_nodes (get_party st i)) (rootid st) (fst tr) = true
        /\ st' = (if is_ok (result st (conclude_op st tr)) then raise (after st (conclude_op st tr)) i true false
                  else after st (conclude_op st tr))
  | SWithdraw i =>
      i < 2 /\ pt_concl (get_party st i) = true
      /\ st' = (if is_ok (result st (withdraw_op st i)) then raise (after st (withdraw_op st i)) i false true
                else after st (withdraw_op st i))
  | SAdvRegister h t subs =>
      h < 2 /\ known_signed (pt_nodes (get_party st h)) (s_root st) (tx_st t) = true
      /\ forallb (fun e => known_signed (pt_nodes (get_party st h)) (fst e) (tx_st (snd e))) subs = true
      /\ st' = after st (LRegister (s_root st) t subs)
  | SAdvConclude s subs => st' = after st (LConclude (s_root st) s subs)
  | SAdvConcludeFinal h t =>
      h < 2 /\ known_signed (pt_nodes (get_party st h)) (s_root st) (tx_st t) = true
      /\ st' = after st (LConcludeFinal (s_root st) t)
  | SAdvWithdraw h => h < 2 /\ st' = after st (withdraw_op st (1 - h))
  | STick => tick_ok st = true /\ st' = after st (LTick 1)
  end.

Lemma sstep_spec st e st' r : sstep st e = Some (st', r) -> step_spec st e st'.
Proof.
  destruct e; cbn [sstep step_spec]; intro H.
  - (* open *)
    destruct (i <? 2) eqn:Ei; cbn [negb] in H; [|discriminate]. apply N.ltb_lt in Ei.
    destruct (bfind (pt_nodes (get_party st i)) (lp_id p)) eqn:Ef; [discriminate|].
    break_if H. injection H as <- _. split_and.
    repeat match goal with X : (_ =? _)%nat = true |- _ => apply Nat.eqb_eq in X end.
    match goal with X : (st_ver s =? 0) = true |- _ => apply N.eqb_eq in X end.
    match goal with X : (1 <=? lp_cd p) = true |- _ => apply N.leb_le in X end.
    match goal with X : length (al_locked _) = 0%nat |- _ => apply length_zero_iff_nil in X end.
    assert (Ha : al_assets (st_alloc s) = s_assets st /\
                 (if bytes_eqb (lp_id p) (rootid st)
                  then lparams_eqb p (s_root st) = true /\ lp_ledger p = true
                       /\ agreement_ok (al_bals (st_alloc s)) (s_agree st) = true
                  else lp_ledger p = false)).
    { destruct (bytes_eqb (lp_id p) (rootid st)); split_and.
      - match goal with X : nlist_eqb _ _ = true |- _ => apply nlist_eqb_eq in X end. auto.
      - match goal with X : nlist_eqb _ _ = true |- _ => apply nlist_eqb_eq in X end.
        match goal with X : negb _ = true |- _ => apply negb_true_iff in X end. auto. }
    destruct Ha as [Ha1 Ha2]. splits; auto.
  - (* enable *)
    destruct (i <? 2) eqn:Ei; cbn [negb] in H; [|discriminate]. apply N.ltb_lt in Ei.
    destruct (bfind (pt_nodes (get_party st i)) (st_id s)) as [n|] eqn:Ef; [|discriminate].
    destruct (n_hist n) as [|cur rest] eqn:Eh; [discriminate|].
    break_if H. injection H as <- _. split_and. split; [exact Ei|]. exists n, cur, rest. rewrite Eh.
    match goal with X : negb (n_frozen n) = true |- _ => apply negb_true_iff in X end.
    splits; auto.
    destruct (bytes_eqb (st_id s) (rootid st)); [assumption|].
    match goal with X : (_ =? _)%nat = true |- _ => apply Nat.eqb_eq in X; apply length_zero_iff_nil in X; exact X end.
  - (* freeze *)
    destruct (i <? 2) eqn:Ei; cbn [negb] in H; [|discriminate]. apply N.ltb_lt in Ei.
    destruct (bfind (pt_nodes (get_party st i)) c) as [n|] eqn:Ef; [|discriminate].
    injection H as <- _. split; [exact Ei|]. exists n. split; reflexivity.
  - (* fund *)
    destruct (i <? 2) eqn:Ei; cbn [negb] in H; [|discriminate]. apply N.ltb_lt in Ei.
    rewrite apply_ledger_eq in H. injection H as <- _. split; [exact Ei|reflexivity].
  - (* react *)
    break_if H. rewrite apply_ledger_eq in H. injection H as <- _. split_and.
    match goal with X : (i <? 2) = true |- _ => apply N.ltb_lt in X end. repeat split; auto.
  - (* register *)
    destruct (i <? 2) eqn:Ei; cbn [negb] in H; [|discriminate]. apply N.ltb_lt in Ei.
    break_if H. rewrite apply_ledger_eq in H. injection H as <- _. split; [exact Ei|]. eexists. repeat split; eauto.
  - (* conclude *)
    destruct (i <? 2) eqn:Ei; cbn [negb] in H; [|discriminate]. apply N.ltb_lt in Ei.
    break_if H. fold (conclude_op st p) in H. rewrite apply_ledger_eq in H. injection H as <- _.
    split; [exact Ei|]. exists p. unfold raise. rewrite orb_true_r, orb_false_r. splits; auto.
  - (* withdraw *)
    destruct (i <? 2) eqn:Ei; cbn [negb] in H; [|discriminate]. apply N.ltb_lt in Ei.
    break_if H. fold (withdraw_op st i) in H. rewrite apply_ledger_eq in H. injection H as <- _.
    unfold raise. rewrite orb_true_r, orb_false_r. splits; auto.
  - (* adv register *)
    break_if H. rewrite apply_ledger_eq in H. injection H as <- _. split_and.
    match goal with X : (h <? 2) = true |- _ => apply N.ltb_lt in X end. repeat split; auto.
  - rewrite apply_ledger_eq in H. injection H as <- _. reflexivity.
  - break_if H. rewrite apply_ledger_eq in H. injection H as <- _. split_and.
    match goal with X : (h <? 2) = true |- _ => apply N.ltb_lt in X end. repeat split; auto.
  - destruct (h <? 2) eqn:Ei; cbn [negb] in H; [|discriminate]. apply N.ltb_lt in Ei.
    fold (withdraw_op st (1 - h)) in H. rewrite apply_ledger_eq in H. injection H as <- _. split; [exact Ei|reflexivity].
  - break_if H. rewrite apply_ledger_eq in H. injection H as <- _. split; reflexivity.
Qed.

(* ================= what the steps leave alone ================= *)
Lemma nodes_after st o j : pt_nodes (get_party (after st o) j) = pt_nodes (get_party st j).
Proof. reflexivity. Qed.
Lemma sL_after st o : s_L (after st o) = fst (step (s_L st) o).
Proof. reflexivity. Qed.
Lemma nodes_raise st i cf wf j : pt_nodes (get_party (raise st i cf wf) j) = pt_nodes (get_party st j).
Proof.
  unfold raise. destruct (Bool.bool_dec (side i) (side j)) as [E|E].
  - rewrite (get_set_side _ _ _ _ E). cbn [pt_nodes]. rewrite (get_party_side st i j E). reflexivity.
  - rewrite (get_set_other _ _ _ _ E). reflexivity.
Qed.
Lemma sL_raise st i cf wf : s_L (raise st i cf wf) = s_L st.
Proof. unfold raise. apply sL_set_party. Qed.
Lemma static_raise st i cf wf : same_static (raise st i cf wf) st.
Proof. unfold raise. apply same_static_set_party. Qed.
Lemma static_after st o : same_static (after st o) st.
Proof. repeat split. Qed.

Lemma step_static st e st' : step_spec st e st' -> same_static st' st.
Proof.
  destruct e; cbn [step_spec]; intro H.
  - destruct H as (_ & _ & _ & _ & _ & _ & _ & _ & _ & ->). apply same_static_set_party.
  - destruct H as (_ & n & cur & rest & _ & _ & _ & _ & _ & _ & ->). apply same_static_set_party.
  - destruct H as (_ & n & _ & ->). apply same_static_set_party.
  - destruct H as (_ & ->). apply static_after.
  - destruct H as (_ & _ & _ & ->). apply static_after.
  - destruct H as (_ & tr & _ & _ & ->). apply static_after.
  - destruct H as (_ & tr & _ & _ & ->). destruct (is_ok _); [|apply static_after].
    eapply same_static_trans; [apply static_raise|apply static_after].
  - destruct H as (_ & _ & ->). destruct (is_ok _); [|apply static_after].
    eapply same_static_trans; [apply static_raise|apply static_after].
  - destruct H as (_ & _ & _ & ->). apply static_after.
  - subst. apply static_after.
  - destruct H as (_ & _ & ->). apply static_after.
  - destruct H as (_ & ->). apply static_after.
  - destruct H as (_ & ->). apply static_after.
Qed.

(* the ledger operation of a step, if any *)
Definition step_op (st : sstate) (e : sevent) : option lop :=
  match e with
  | SOpen _ _ _ | SEnable _ _ | SFreeze _ _ => None
  | SFund i => Some (fund_op st i)
  | SReact i rs subs => Some (register_op st (rs, subs))
  | SRegister i => option_map (register_op st) (newest_tree st i)
  | SConclude i => option_map (conclude_op st) (newest_tree st i)
  | SWithdraw i => Some (withdraw_op st i)
  | SAdvRegister _ t subs => Some (LRegister (s_root st) t subs)
  | SAdvConclude s subs => Some (LConclude (s_root st) s subs)
  | SAdvConcludeFinal _ t => Some (LConcludeFinal (s_root st) t)
  | SAdvWithdraw h => Some (withdraw_op st (1 - h))
  | STick => Some (LTick 1)
  end.
Lemma step_ledger st e st' : step_spec st e st' ->
  s_L st' = match step_op st e with Some o => fst (step (s_L st) o) | None => s_L st end.
Proof.
  destruct e; cbn [step_spec step_op]; intro H.
  - destruct H as (_ & _ & _ & _ & _ & _ & _ & _ & _ & ->). apply sL_set_party.
  - destruct H as (_ & n & cur & rest & _ & _ & _ & _ & _ & _ & ->). apply sL_set_party.
  - destruct H as (_ & n & _ & ->). apply sL_set_party.
  - destruct H as (_ & ->). reflexivity.
  - destruct H as (_ & _ & _ & ->). reflexivity.
  - destruct H as (_ & tr & -> & _ & ->). reflexivity.
  - destruct H as (_ & tr & -> & _ & ->). cbn [option_map]. destruct (is_ok _); [rewrite sL_raise|]; reflexivity.
  - destruct H as (_ & _ & ->). destruct (is_ok _); [rewrite sL_raise|]; reflexivity.
  - destruct H as (_ & _ & _ & ->). reflexivity.
  - subst. reflexivity.
  - destruct H as (_ & _ & ->). reflexivity.
  - destruct H as (_ & ->). reflexivity.
  - destruct H as (_ & ->). reflexivity.
Qed.

(* the nodes of participant j after a step *)
Lemma step_nodes st e st' j : step_spec st e st' ->
  pt_nodes (get_party st' j) = pt_nodes (get_party st j)
  \/ exists i c n, side i = side j /\ pt_nodes (get_party st' j) = bput (pt_nodes (get_party st j)) c n.
Proof.
  destruct e; cbn [step_spec]; intro H;
    try (left;
         first [ destruct H as (_ & ->) | destruct H as (_ & _ & ->) | destruct H as (_ & _ & _ & ->)
               | destruct H as (_ & tr & _ & _ & ->) | subst ];
         repeat match goal with |- context[if ?b then _ else _] => destruct b end;
         rewrite ?nodes_raise, ?nodes_after; reflexivity).
  - destruct H as (_ & _ & _ & _ & _ & _ & _ & _ & _ & ->).
    destruct (Bool.bool_dec (side i) (side j)) as [E|E].
    + right. exists i, (lp_id p), (mkNode p [s] false). rewrite (get_set_side _ _ _ _ E).
      cbn [upd_node pt_nodes]. rewrite (get_party_side st i j E). split; [exact E|reflexivity].
    + left. rewrite (get_set_other _ _ _ _ E). reflexivity.
  - destruct H as (_ & n & cur & rest & _ & _ & _ & _ & _ & _ & ->).
    destruct (Bool.bool_dec (side i) (side j)) as [E|E].
    + right. exists i, (st_id s), (mkNode (n_params n) (s :: n_hist n) false). rewrite (get_set_side _ _ _ _ E).
      cbn [upd_node pt_nodes]. rewrite (get_party_side st i j E). split; [exact E|reflexivity].
    + left. rewrite (get_set_other _ _ _ _ E). reflexivity.
  - destruct H as (_ & n & _ & ->).
    destruct (Bool.bool_dec (side i) (side j)) as [E|E].
    + right. exists i, c, (mkNode (n_params n) (n_hist n) true). rewrite (get_set_side _ _ _ _ E).
      cbn [upd_node pt_nodes]. rewrite (get_party_side st i j E). split; [exact E|reflexivity].
    + left. rewrite (get_set_other _ _ _ _ E). reflexivity.
Qed.

Definition is_local (e : sevent) : bool :=
  match e with SOpen _ _ _ | SEnable _ _ | SFreeze _ _ => true | _ => false end.
Lemma step_nodes_ledger st e st' j : step_spec st e st' -> is_local e = false ->
  pt_nodes (get_party st' j) = pt_nodes (get_party st j).
Proof.
  destruct e; cbn [step_spec is_local]; intros H L; try discriminate;
    first [ destruct H as (_ & ->) | destruct H as (_ & _ & ->) | destruct H as (_ & _ & _ & ->)
          | destruct H as (_ & tr & _ & _ & ->) | subst ];
    repeat match goal with |- context[if ?b then _ else _] => destruct b end;
    rewrite ?nodes_raise, ?nodes_after; reflexivity.
Qed.

(* ================= histories ================= *)
Fixpoint hist_chain (p : lparams) (h : list state) : Prop :=
  match h with
  | [] => False
  | s :: r => match r with
              | [] => state_ok p s = true /\ st_ver s = 0 /\ al_locked (st_alloc s) = []
              | cur :: _ => good_succ p cur s = true /\ hist_chain p r
              end
  end.

Lemma good_succ_facts p cur s : good_succ p cur s = true ->
  state_ok p s = true /\ st_ver s = st_ver cur + 1 /\ st_final cur = false
  /\ al_assets (st_alloc cur) = al_assets (st_alloc s) /\ alloc_sum (st_alloc cur) = alloc_sum (st_alloc s).
Proof.
  unfold good_succ. intro H. split_and.
  match goal with X : (_ =? _) = true |- _ => apply N.eqb_eq in X end.
  match goal with X : negb _ = true |- _ => apply negb_true_iff in X end.
  match goal with X : nlist_eqb _ _ = true |- _ => apply nlist_eqb_eq in X end.
  match goal with X : zlist_eqb _ _ = true |- _ => apply zlist_eqb_eq in X end.
  auto.
Qed.

Lemma chain_state_ok p h : hist_chain p h -> forall x, In x h -> state_ok p x = true.
Proof.
  induction h as [|s r IH]; cbn [hist_chain]; [contradiction|]. destruct r as [|cur r'].
  - intros [H _] x [<-|[]]. exact H.
  - intros [G C] x [<-|Hx]; [apply (good_succ_facts _ _ _ G)|apply IH; assumption].
Qed.
Lemma chain_tail p s cur r : hist_chain p (s :: cur :: r) -> good_succ p cur s = true /\ hist_chain p (cur :: r).
Proof. cbn [hist_chain]. auto. Qed.
Lemma chain_below p h : hist_chain p h -> forall s r, h = s :: r ->
  forall x, In x r -> st_ver x < st_ver s /\ st_final x = false.
Proof.
  induction h as [|s0 r0 IH]; intros C s r E; [discriminate|]. injection E as -> ->.
  destruct r as [|cur r']; [intros x []|]. destruct (chain_tail _ _ _ _ C) as [G C'].
  destruct (good_succ_facts _ _ _ G) as (_ & Hv & Hf & _).
  intros x [<-|Hx]; [split; [lia|exact Hf]|].
  destruct (IH C' cur r' eq_refl x Hx) as [Lt Nf]. split; [lia|exact Nf].
Qed.
Lemma chain_version_inj p h : hist_chain p h -> forall a b, In a h -> In b h -> st_ver a = st_ver b -> a = b.
Proof.
  induction h as [|s r IH]; intros C a b Ha Hb E; [destruct Ha|].
  assert (Hr : r <> [] -> hist_chain p r).
  { destruct r as [|cur r']; [congruence|]. intros _. apply (chain_tail _ _ _ _ C). }
  destruct Ha as [<-|Ha], Hb as [<-|Hb]; try reflexivity.
  - destruct (chain_below _ _ C _ _ eq_refl b Hb). lia.
  - destruct (chain_below _ _ C _ _ eq_refl a Ha). lia.
  - apply IH; auto. apply Hr. intro X. subst r. destruct Ha.
Qed.
Lemma chain_final_head p s r x : hist_chain p (s :: r) -> In x (s :: r) -> st_final x = true -> x = s.
Proof.
  intros C [<-|Hx] F; [reflexivity|]. destruct (chain_below _ _ C _ _ eq_refl x Hx) as [_ Nf]. congruence.
Qed.
Lemma chain_head_max p s r x : hist_chain p (s :: r) -> In x (s :: r) -> st_ver x <= st_ver s.
Proof.
  intros C [<-|Hx]; [lia|]. destruct (chain_below _ _ C _ _ eq_refl x Hx). lia.
Qed.

Lemma appkind_eqb_eq a b : appkind_eqb a b = true -> a = b.
Proof. destruct a as [[|]|], b as [[|]|]; cbn; intro H; try discriminate; reflexivity. Qed.
Lemma lparams_eqb_eq p q : lparams_eqb p q = true -> p = q.
Proof.
  unfold lparams_eqb. destruct p as [i a c k l], q as [i' a' c' k' l']; cbn [lp_id lp_parts lp_cd lp_app lp_ledger].
  intro H. split_and.
  match goal with X : bytes_eqb _ _ = true |- _ => apply bytes_eqb_eq in X end.
  match goal with X : nlist_eqb _ _ = true |- _ => apply nlist_eqb_eq in X end.
  match goal with X : (_ =? _) = true |- _ => apply N.eqb_eq in X end.
  match goal with X : appkind_eqb _ _ = true |- _ => apply appkind_eqb_eq in X end.
  match goal with X : Bool.eqb _ _ = true |- _ => apply Bool.eqb_prop in X end.
  congruence.
Qed.

Definition node_ok (st : sstate) (c : bytes) (n : node) : Prop :=
  lp_id (n_params n) = c /\ hist_chain (n_params n) (n_hist n) /\ 1 <= lp_cd (n_params n)
  /\ length (lp_parts (n_params n)) = 2%nat
  /\ (forall x, In x (n_hist n) -> al_assets (st_alloc x) = s_assets st)
  /\ (if bytes_eqb c (rootid st)
      then n_params n = s_root st
           /\ forall x, In x (n_hist n) -> alloc_sum (st_alloc x) = map zsum (s_agree st)
      else lp_ledger (n_params n) = false
           /\ forall x, In x (n_hist n) -> al_locked (st_alloc x) = []).
Definition nodes_ok (st : sstate) (j : N) : Prop :=
  forall c n, bfind (pt_nodes (get_party st j)) c = Some n -> node_ok st c n.

Lemma node_ok_static st st' c n : same_static st' st -> node_ok st c n -> node_ok st' c n.
Proof.
  intros (Hr & Ha & Hg & _). unfold node_ok, rootid. rewrite Hr, Ha, Hg. auto.
Qed.

Lemma nodes_ok_step st e st' j : nodes_ok st j -> step_spec st e st' -> nodes_ok st' j.
Proof.
  intros Ok H. pose proof (step_static _ _ _ H) as St.
  destruct (is_local e) eqn:El.
  2:{ intros c n Hf. rewrite (step_nodes_ledger _ _ _ j H El) in Hf. apply (node_ok_static _ _ _ _ St). apply Ok. exact Hf. }
  destruct e; try discriminate El; cbn [step_spec] in H.
  - (* open *)
    destruct H as (Hi & Hnone & Hok & Hv & Hl & Hcd & Hp & Has & Hroot & ->).
    intros c n Hf. destruct (Bool.bool_dec (side i) (side j)) as [E|E].
    2:{ rewrite (get_set_other _ _ _ _ E) in Hf. apply (node_ok_static _ _ _ _ St). apply Ok. exact Hf. }
    rewrite (get_set_side _ _ _ _ E) in Hf. cbn [upd_node pt_nodes] in Hf. rewrite bfind_bput in Hf.
    destruct (bytes_eqb c (lp_id p)) eqn:Ec.
    2:{ apply (node_ok_static _ _ _ _ St). apply Ok. rewrite <- (get_party_side st i j E). exact Hf. }
    apply bytes_eqb_eq in Ec. subst c. injection Hf as <-. unfold node_ok. cbn [n_params n_hist].
    rewrite rootid_set_party, sassets_set_party, sagree_set_party, sroot_set_party.
    split; [reflexivity|]. split; [cbn [hist_chain]; auto|]. split; [exact Hcd|]. split; [exact Hp|].
    split; [intros x [<-|[]]; exact Has|].
    destruct (bytes_eqb (lp_id p) (rootid st)).
    + destruct Hroot as (Hq & _ & Hag). split; [apply lparams_eqb_eq; exact Hq|].
      intros x [<-|[]]. unfold alloc_sum. rewrite Hl. cbn [fold_left].
      unfold agreement_ok in Hag. apply andb_true_iff in Hag as [Hag _]. apply zlist_eqb_eq in Hag. exact Hag.
    + split; [exact Hroot|]. intros x [<-|[]]. exact Hl.
  - (* enable *)
    destruct H as (Hi & n0 & cur & rest & Hf0 & Hh & Hfr & Hfu & Hg & Hr & ->).
    intros c n Hf. destruct (Bool.bool_dec (side i) (side j)) as [E|E].
    2:{ rewrite (get_set_other _ _ _ _ E) in Hf. apply (node_ok_static _ _ _ _ St). apply Ok. exact Hf. }
    rewrite (get_set_side _ _ _ _ E) in Hf. cbn [upd_node pt_nodes] in Hf. rewrite bfind_bput in Hf.
    destruct (bytes_eqb c (st_id s)) eqn:Ec.
    2:{ apply (node_ok_static _ _ _ _ St). apply Ok. rewrite <- (get_party_side st i j E). exact Hf. }
    apply bytes_eqb_eq in Ec. subst c. injection Hf as <-.
    rewrite (get_party_side st i j E) in Hf0. pose proof (Ok _ _ Hf0) as (K1 & K2 & K3 & K4 & K5 & K6).
    destruct (good_succ_facts _ _ _ Hg) as (G1 & G2 & G3 & G4 & G5).
    apply (node_ok_static _ _ _ _ St). unfold node_ok. cbn [n_params n_hist]. rewrite Hh in *.
    split; [exact K1|]. split; [cbn [hist_chain]; split; [exact Hg|exact K2]|]. split; [exact K3|]. split; [exact K4|].
    split.
    { intros x [<-|Hx]; [|apply K5; exact Hx]. rewrite <- G4. apply K5. left. reflexivity. }
    destruct (bytes_eqb (st_id s) (rootid st)).
    + destruct K6 as [K6 K7]. split; [exact K6|]. intros x [<-|Hx]; [|apply K7; exact Hx].
      rewrite <- G5. apply K7. left. reflexivity.
    + destruct K6 as [K6 K7]. split; [exact K6|]. intros x [<-|Hx]; [exact Hr|apply K7; exact Hx].
  - (* freeze *)
    destruct H as (Hi & n0 & Hf0 & ->).
    intros c' n Hf. destruct (Bool.bool_dec (side i) (side j)) as [E|E].
    2:{ rewrite (get_set_other _ _ _ _ E) in Hf. apply (node_ok_static _ _ _ _ St). apply Ok. exact Hf. }
    rewrite (get_set_side _ _ _ _ E) in Hf. cbn [upd_node pt_nodes] in Hf. rewrite bfind_bput in Hf.
    destruct (bytes_eqb c' c) eqn:Ec.
    2:{ apply (node_ok_static _ _ _ _ St). apply Ok. rewrite <- (get_party_side st i j E). exact Hf. }
    apply bytes_eqb_eq in Ec. subst c'. injection Hf as <-.
    rewrite (get_party_side st i j E) in Hf0. apply (node_ok_static _ _ _ _ St). exact (Ok _ _ Hf0).
Qed.

(* ================= what honest participants and the adversary can present ================= *)
Definition known (st : sstate) (k : N) (p : lparams) (s : state) : Prop :=
  exists n, bfind (pt_nodes (get_party st k)) (st_id s) = Some n /\ p = n_params n /\ In s (n_hist n).

Lemma in_hist_In s h : in_hist s h = true -> In s h.
Proof.
  unfold in_hist. intro H. apply existsb_exists in H as [x [Hx E]]. apply state_equal_eq in E. subst. exact Hx.
Qed.
Lemma known_signed_known st k p s : known_signed (pt_nodes (get_party st k)) p s = true -> known st k p s.
Proof.
  unfold known_signed, known. destruct (bfind _ (st_id s)) as [n|]; [|discriminate].
  intro H. apply andb_true_iff in H as [H1 H2]. exists n. split; [reflexivity|].
  split; [apply lparams_eqb_eq; exact H1|apply in_hist_In; exact H2].
Qed.

Lemma collect_Forall2 {A B} (f : A -> option B) l ys : collect f l = Some ys -> Forall2 (fun x y => f x = Some y) l ys.
Proof.
  revert ys; induction l as [|x l IH]; intros ys H; cbn [collect] in H.
  - injection H as <-. constructor.
  - destruct (f x) as [y|] eqn:E; [|discriminate]. destruct (collect f l) as [ys'|]; [|discriminate].
    injection H as <-. constructor; [exact E|apply IH; reflexivity].
Qed.

Lemma Forall2_imp {A B} (P Q : A -> B -> Prop) l m : (forall a b, P a b -> Q a b) -> Forall2 P l m -> Forall2 Q l m.
Proof. intros H F. induction F; constructor; auto. Qed.
Lemma Forall2_In_r {A B} (P : A -> B -> Prop) l m : Forall2 P l m -> forall b, In b m -> exists a, In a l /\ P a b.
Proof.
  intro F. induction F as [|a b l m Hab F IH]; intros y Hy; [destruct Hy|].
  destruct Hy as [<-|Hy]; [exists a; split; [left; reflexivity|exact Hab]|].
  destruct (IH _ Hy) as [x [Hx Px]]. exists x. split; [right; exact Hx|exact Px].
Qed.
Lemma Forall2_In_l {A B} (P : A -> B -> Prop) l m : Forall2 P l m -> forall a, In a l -> exists b, In b m /\ P a b.
Proof.
  intro F. induction F as [|a b l m Hab F IH]; intros y Hy; [destruct Hy|].
  destruct Hy as [<-|Hy]; [exists b; split; [left; reflexivity|exact Hab]|].
  destruct (IH _ Hy) as [x [Hx Px]]. exists x. split; [right; exact Hx|exact Px].
Qed.

Definition tree_shape (nodes : bmap node) (root : bytes) (tr : state * list (lparams * state)) : Prop :=
  (exists rn, bfind nodes root = Some rn /\ newest rn = Some (fst tr))
  /\ Forall2 (fun l e => exists n, bfind nodes (sa_id l) = Some n /\ fst e = n_params n /\ newest n = Some (snd e))
             (al_locked (st_alloc (fst tr))) (snd tr).
Lemma tree_by_newest nodes root tr : tree_by newest nodes root = Some tr -> tree_shape nodes root tr.
Proof.
  unfold tree_by, tree_shape. destruct (bfind nodes root) as [rn|]; [|discriminate].
  destruct (newest rn) as [rs|] eqn:En; [|discriminate].
  destruct (collect _ (al_locked (st_alloc rs))) as [subs|] eqn:Ec; [|discriminate].
  intro H. injection H as <-. cbn [fst snd]. split; [exists rn; auto|].
  apply collect_Forall2 in Ec. eapply Forall2_imp; [|exact Ec].
  intros l e H. cbn beta in H. destruct (bfind nodes (sa_id l)) as [n|]; [|discriminate].
  destruct (newest n) as [t|] eqn:Et; [|discriminate]. cbn [option_map] in H. injection H as <-.
  exists n. cbn [fst snd]. auto.
Qed.
Lemma newest_In n t : newest n = Some t -> In t (n_hist n).
Proof. unfold newest. destruct (n_hist n); cbn [hd_error]; [discriminate|]. intro H. injection H as <-. left. reflexivity. Qed.

Lemma tx_st_signed p s : tx_st (signed p s) = s.
Proof. reflexivity. Qed.

(* the parameters and states a register / conclude-final operation presents are known to participant k *)
Definition presented (st : sstate) (k : N) (o : lop) : Prop :=
  match o with
  | LRegister p t m =>
      p = s_root st /\ known st k p (tx_st t) /\ forall e, In e m -> known st k (fst e) (tx_st (snd e))
  | LConcludeFinal p t => p = s_root st /\ known st k p (tx_st t)
  | _ => True
  end.

Lemma node_key_state st k c n x : nodes_ok st k -> bfind (pt_nodes (get_party st k)) c = Some n -> In x (n_hist n) ->
  st_id x = c /\ state_ok (n_params n) x = true.
Proof.
  intros Ok Hf Hx. destruct (Ok _ _ Hf) as (K1 & K2 & _).
  pose proof (chain_state_ok _ _ K2 _ Hx) as S. split; [|exact S].
  unfold state_ok in S. apply andb_true_iff in S as [S _]. apply andb_true_iff in S as [S _].
  apply bytes_eqb_eq in S. congruence.
Qed.

Lemma tree_presented st k tr : nodes_ok st k -> tree_shape (pt_nodes (get_party st k)) (rootid st) tr ->
  presented st k (register_op st tr).
Proof.
  intros Ok [[rn [Hr Hn]] Hs]. unfold register_op, presented. rewrite tx_st_signed.
  split; [reflexivity|]. split.
  - pose proof (newest_In _ _ Hn) as Hin. destruct (node_key_state _ _ _ _ _ Ok Hr Hin) as [Hid _].
    exists rn. rewrite Hid. split; [exact Hr|]. split; [|exact Hin].
    destruct (Ok _ _ Hr) as (_ & _ & _ & _ & _ & K6). unfold rootid in K6 at 1. rewrite bytes_eqb_refl in K6.
    symmetry. apply K6.
  - intros e He. apply in_map_iff in He as [[p s] [<- He]]. cbn [fst snd]. rewrite tx_st_signed.
    destruct (Forall2_In_r _ _ _ Hs _ He) as [l [_ [n [Hf [Hp Hnw]]]]]. cbn [fst snd] in Hp, Hnw.
    pose proof (newest_In _ _ Hnw) as Hin. destruct (node_key_state _ _ _ _ _ Ok Hf Hin) as [Hid _].
    exists n. rewrite Hid. auto.
Qed.
