(* Round-trip / safety lemmas for the perunio primitives. *)
From Coq Require Import Arith PeanoNat ZifyN ZifyNat ZifyBool.
From V Require Import Model.Wire.
Open Scope N_scope.

Lemma firstn_app_exact {A} (a b : list A) : firstn (length a) (a ++ b) = a.
Proof. rewrite firstn_app, Nat.sub_diag, firstn_O, app_nil_r. apply firstn_all. Qed.
Lemma skipn_app_exact {A} (a b : list A) : skipn (length a) (a ++ b) = b.
Proof. rewrite skipn_app, Nat.sub_diag, skipn_O, skipn_all. reflexivity. Qed.

Lemma read_full_exact {A} (k : bytes -> prog A) (a rest : bytes) n :
  n = length a -> run_flat (Read true n k) (a ++ rest) = run_flat (k a) rest.
Proof.
  intros ->. cbn [run_flat]. rewrite app_length.
  destruct (Nat.leb_spec (length a) (length a + length rest)); [|lia].
  rewrite firstn_app_exact, skipn_app_exact. reflexivity.
Qed.

Lemma dec_uint_rt k n rest : n < 256 ^ N.of_nat k ->
  run_flat (dec_uint k) (enc_le k n ++ rest) = Ok (n, rest).
Proof.
  intro H. unfold dec_uint. rewrite read_full_exact by (symmetry; apply enc_le_length).
  cbn [run_flat]. rewrite dec_enc_le by exact H. reflexivity.
Qed.

Lemma dec_u8_rt n rest : n < 256 -> run_flat dec_u8 (enc_u8 n ++ rest) = Ok (n, rest).
Proof. intro H. apply dec_uint_rt. exact H. Qed.
Lemma dec_u16_rt n rest : n < 65536 -> run_flat dec_u16 (enc_u16 n ++ rest) = Ok (n, rest).
Proof. intro H. apply dec_uint_rt. exact H. Qed.
Lemma dec_u32_rt n rest : n < 4294967296 -> run_flat dec_u32 (enc_u32 n ++ rest) = Ok (n, rest).
Proof. intro H. apply dec_uint_rt. exact H. Qed.
Lemma dec_u64_rt n rest : n < 18446744073709551616 -> run_flat dec_u64 (enc_u64 n ++ rest) = Ok (n, rest).
Proof. intro H. apply dec_uint_rt. exact H. Qed.

Lemma dec_i32_rt z rest : (-2147483648 <= z < 2147483648)%Z ->
  run_flat dec_i32 (enc_i32 z ++ rest) = Ok (z, rest).
Proof.
  intro H. unfold dec_i32, enc_i32. rewrite read_full_exact by (symmetry; apply enc_le_length).
  cbn [run_flat]. rewrite dec_enc_le.
  - rewrite s32_u32 by exact H. reflexivity.
  - unfold u32_of_s32. change (256 ^ N.of_nat 4) with 4294967296. lia.
Qed.

Lemma dec_u32be_rt n rest : n < 4294967296 ->
  run_flat dec_u32be (enc_u32be n ++ rest) = Ok (n, rest).
Proof.
  intro H. unfold dec_u32be, enc_u32be. rewrite read_full_exact by (symmetry; apply enc_be_length).
  cbn [run_flat]. rewrite dec_enc_be by exact H. reflexivity.
Qed.

Lemma dec_bool_rt b rest : run_flat dec_bool (enc_bool b ++ rest) = Ok (b, rest).
Proof.
  unfold dec_bool, enc_bool, enc_u8. rewrite read_full_exact by (symmetry; apply enc_le_length).
  cbn [run_flat]. rewrite dec_enc_le by (destruct b; cbn; lia). destruct b; reflexivity.
Qed.

Lemma dec_fixed_rt n a rest : length a = n -> run_flat (dec_fixed n) (a ++ rest) = Ok (a, rest).
Proof. intro H. unfold dec_fixed. rewrite read_full_exact by (symmetry; exact H). reflexivity. Qed.

(* big integers *)
Lemma pow256 k : 256 ^ k = 2 ^ (8 * k).
Proof. change 256 with (2 ^ 8). rewrite <- N.pow_mul_r. reflexivity. Qed.

Lemma nbytes_bound n : n < 256 ^ N.of_nat (nbytes n).
Proof.
  unfold nbytes. destruct (N.eqb_spec n 0) as [->|Hn]; [cbn; lia|].
  rewrite N2Nat.id, pow256.
  assert (H1 : n < 2 ^ N.succ (N.log2 n)) by (apply N.log2_spec; lia).
  eapply N.lt_le_trans; [exact H1|]. apply N.pow_le_mono_r; [lia|].
  pose proof (N.div_mod' (N.log2 n) 8). pose proof (N.mod_lt (N.log2 n) 8). lia.
Qed.

Lemma be_min_length n : length (be_min n) = nbytes n.
Proof. unfold be_min. apply enc_be_length. Qed.

Lemma read_once_1 {A} (k : bytes -> prog A) (b : byte) rest :
  run_flat (Read false 1 k) (b :: rest) = run_flat (k [b]) rest.
Proof. reflexivity. Qed.

Lemma dec_bigint_rt z rest : bigint_encodable z = true ->
  run_flat dec_bigint (enc_bigint z ++ rest) = Ok (z, rest).
Proof.
  unfold bigint_encodable. intro H. apply andb_true_iff in H as [Hz Hl].
  apply Z.leb_le in Hz. apply N.leb_le in Hl.
  unfold dec_bigint, enc_bigint. rewrite be_min_length.
  unfold enc_u8. cbn [enc_le app]. rewrite read_once_1.
  cbn [dec_le]. rewrite to_of_N, N.mul_0_r, N.add_0_r.
  unfold MaxBigIntLength, Generated.MaxBigIntLength in *.
  rewrite N.mod_small by lia.
  destruct (N.ltb_spec 128 (N.of_nat (nbytes (Z.to_N z)))) as [Hlt|_]; [lia|].
  rewrite Nat2N.id.
  rewrite read_full_exact by (symmetry; apply be_min_length).
  cbn [run_flat]. unfold be_min. rewrite dec_enc_be by apply nbytes_bound.
  rewrite Z2N.id by exact Hz. reflexivity.
Qed.

Lemma dec_marsh_rt data rest : N.of_nat (length data) < 65536 ->
  run_flat dec_marsh (enc_marsh data ++ rest) = Ok (data, rest).
Proof.
  intro H. unfold dec_marsh, enc_marsh. rewrite <- app_assoc, run_flat_bind, dec_u16_rt by exact H.
  cbn [run_flat]. rewrite Nat2N.id.
  destruct (Nat.leb_spec (length data) (length (data ++ rest))) as [_|C];
    [|rewrite app_length in C; lia].
  rewrite firstn_app_exact, skipn_app_exact. reflexivity.
Qed.

Lemma dec_string_rt s rest : N.of_nat (length s) < 65536 ->
  run_flat dec_string (enc_string s ++ rest) = Ok (s, rest).
Proof.
  intro H. unfold dec_string, enc_string. rewrite <- app_assoc, run_flat_bind, dec_u16_rt by exact H.
  cbn [run_flat]. rewrite Nat2N.id.
  destruct (Nat.leb_spec (length s) (length (s ++ rest))) as [_|C];
    [|rewrite app_length in C; lia].
  rewrite firstn_app_exact, skipn_app_exact. reflexivity.
Qed.

Lemma dec_n_rt {A} (d : prog A) (e : A -> bytes) (P : A -> Prop) :
  (forall a rest, P a -> run_flat d (e a ++ rest) = Ok (a, rest)) ->
  forall l rest, Forall P l ->
  run_flat (dec_n (length l) d) (concat (map e l) ++ rest) = Ok (l, rest).
Proof.
  intros Hd l; induction l as [|a l IH]; intros rest Hl; cbn [length dec_n map concat].
  - reflexivity.
  - inversion Hl as [|? ? Ha Hl']; subst.
    rewrite <- app_assoc, run_flat_bind, Hd by exact Ha.
    rewrite run_flat_bind, IH by exact Hl'. reflexivity.
Qed.

(* safety / full-read-only / allocation bounds of the primitives *)
Lemma safe_dec_uint k : safe (dec_uint k).            Proof. repeat constructor. Qed.
Lemma safe_dec_i32 : safe dec_i32.                    Proof. repeat constructor. Qed.
Lemma safe_dec_u32be : safe dec_u32be.                Proof. repeat constructor. Qed.
Lemma safe_dec_bool : safe dec_bool.                  Proof. repeat constructor. Qed.
Lemma safe_dec_fixed n : safe (dec_fixed n).          Proof. repeat constructor. Qed.
Lemma safe_dec_bigint : safe dec_bigint.
Proof. constructor; intro bs. cbv zeta. destruct (MaxBigIntLength <? dec_le bs); repeat (constructor; intros). Qed.
Lemma safe_dec_marsh : safe dec_marsh.
Proof. apply safe_bind; [apply safe_dec_uint|]. intro l. repeat constructor. Qed.
Lemma safe_dec_string : safe dec_string.
Proof. apply safe_bind; [apply safe_dec_uint|]. intro l. repeat constructor. Qed.
Lemma safe_dec_n {A} n (d : prog A) : safe d -> safe (dec_n n d).
Proof.
  intro H; induction n as [|n IH]; cbn [dec_n]; [constructor|].
  apply safe_bind; [exact H|]. intro x. apply safe_bind; [exact IH|]. intro xs. constructor.
Qed.

Lemma fo_dec_uint k : full_only (dec_uint k).         Proof. repeat constructor. Qed.
Lemma fo_dec_i32 : full_only dec_i32.                 Proof. repeat constructor. Qed.
Lemma fo_dec_u32be : full_only dec_u32be.             Proof. repeat constructor. Qed.
Lemma fo_dec_bool : full_only dec_bool.               Proof. repeat constructor. Qed.
Lemma fo_dec_fixed n : full_only (dec_fixed n).       Proof. repeat constructor. Qed.
Lemma fo_dec_bigint : full_only dec_bigint.
Proof. constructor; [lia|]. intro bs. cbv zeta. destruct (MaxBigIntLength <? dec_le bs); repeat (constructor; intros). Qed.
Lemma fo_dec_marsh : full_only dec_marsh.
Proof. apply full_only_bind; [apply fo_dec_uint|]. intro l. repeat constructor. Qed.
Lemma fo_dec_string : full_only dec_string.
Proof. apply full_only_bind; [apply fo_dec_uint|]. intro l. repeat constructor. Qed.
Lemma fo_dec_n {A} n (d : prog A) : full_only d -> full_only (dec_n n d).
Proof.
  intro H; induction n as [|n IH]; cbn [dec_n]; [constructor|].
  apply full_only_bind; [exact H|]. intro x. apply full_only_bind; [exact IH|]. intro xs. constructor.
Qed.
