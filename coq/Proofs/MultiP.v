(* Lemmas about Model/Multi.v (property C20). *)
From Coq Require Import Arith PeanoNat ZifyN ZifyNat ZifyBool Permutation.
From V Require Import Model.Multi.
Open Scope nat_scope.

(* ---------- keys ---------- *)

Lemma key_eqb_eq (a b : key) : key_eqb a b = true <-> a = b.
Proof.
  destruct a as [a1 a2], b as [b1 b2]. unfold key_eqb. cbn [fst snd].
  rewrite andb_true_iff, N.eqb_eq, String.eqb_eq. split.
  - intros [-> ->]. reflexivity.
  - intro H. injection H as -> ->. split; reflexivity.
Qed.

Lemma key_eqb_refl (a : key) : key_eqb a a = true.
Proof. apply key_eqb_eq. reflexivity. Qed.

Lemma key_eqb_neq (a b : key) : key_eqb a b = false <-> a <> b.
Proof.
  split.
  - intros H E. apply key_eqb_eq in E. congruence.
  - intro H. destruct (key_eqb a b) eqn:E; [|reflexivity]. apply key_eqb_eq in E. contradiction.
Qed.

Lemma key_eqb_sym (a b : key) : key_eqb a b = key_eqb b a.
Proof.
  destruct (key_eqb a b) eqn:E; symmetry.
  - apply key_eqb_eq in E. subst. apply key_eqb_refl.
  - apply key_eqb_neq. apply key_eqb_neq in E. congruence.
Qed.

Lemma key_dec (a b : key) : {a = b} + {a <> b}.
Proof.
  destruct (key_eqb a b) eqn:E; [left; apply key_eqb_eq; exact E|right; apply key_eqb_neq; exact E].
Qed.

Lemma kmem_In (k : key) (l : list key) : kmem k l = true <-> In k l.
Proof.
  unfold kmem. rewrite existsb_exists. split.
  - intros [x [Hin He]]. apply key_eqb_eq in He. subst. exact Hin.
  - intro H. exists k. split; [exact H|apply key_eqb_refl].
Qed.

Lemma kmem_not_In (k : key) (l : list key) : kmem k l = false <-> ~ In k l.
Proof.
  split.
  - intros H Hin. apply kmem_In in Hin. congruence.
  - intro H. destruct (kmem k l) eqn:E; [|reflexivity]. apply kmem_In in E. contradiction.
Qed.

(* ---------- assets.LedgerIDs ---------- *)

Lemma ledger_ids_loop_spec (a : list asset) : forall seen ids out,
  ledger_ids_loop a seen ids = Ok out ->
  out = ids ++ dedup_acc seen (asset_keys a) /\ forallb is_multi a = true.
Proof.
  induction a as [|x a IH]; intros seen ids out H; cbn [ledger_ids_loop] in H.
  - injection H as <-. cbn [asset_keys flat_map dedup_acc forallb]. rewrite app_nil_r. split; reflexivity.
  - destruct x as [k| |]; try discriminate.
    cbn [asset_keys flat_map app forallb is_multi andb]. fold (asset_keys a). cbn [dedup_acc].
    destruct (kmem k seen) eqn:E.
    + apply IH in H. exact H.
    + apply IH in H. destruct H as [-> H2]. split; [|exact H2].
      rewrite <- app_assoc. reflexivity.
Qed.

Lemma ledger_ids_loop_multi (a : list asset) : forall seen ids,
  forallb is_multi a = true ->
  ledger_ids_loop a seen ids = Ok (ids ++ dedup_acc seen (asset_keys a)).
Proof.
  induction a as [|x a IH]; intros seen ids H; cbn [ledger_ids_loop].
  - cbn [asset_keys flat_map dedup_acc]. rewrite app_nil_r. reflexivity.
  - destruct x as [k| |]; cbn [forallb is_multi andb] in H; try discriminate.
    cbn [asset_keys flat_map app]. fold (asset_keys a). cbn [dedup_acc].
    destruct (kmem k seen) eqn:E.
    + apply IH. exact H.
    + rewrite IH by exact H. rewrite <- app_assoc. reflexivity.
Qed.

Lemma ledger_ids_dedup (a : list asset) (ids : list key) :
  ledger_ids a = Ok ids <-> (forallb is_multi a = true /\ ids = dedup_acc [] (asset_keys a)).
Proof.
  unfold ledger_ids. split.
  - intro H. apply ledger_ids_loop_spec in H. destruct H as [H1 H2]. split; assumption.
  - intros [H1 ->]. rewrite ledger_ids_loop_multi by exact H1. reflexivity.
Qed.

Lemma dedup_acc_In (l : list key) : forall seen k,
  In k (dedup_acc seen l) <-> (In k l /\ ~ In k seen).
Proof.
  induction l as [|x l IH]; intros seen k; cbn [dedup_acc].
  - cbn [In]. tauto.
  - destruct (kmem x seen) eqn:E.
    + rewrite IH. cbn [In]. apply kmem_In in E. split.
      * intros [H1 H2]. split; [right; exact H1|exact H2].
      * intros [[->|H1] H2]; [contradiction|split; assumption].
    + apply kmem_not_In in E. cbn [In]. rewrite IH. cbn [In]. split.
      * intros [<-|[H1 H2]]; [split; [left; reflexivity|exact E]|].
        split; [right; exact H1|]. intro H3. apply H2. right. exact H3.
      * intros [[->|H1] H2]; [left; reflexivity|].
        destruct (key_dec x k) as [->|N]; [left; reflexivity|].
        right. split; [exact H1|]. intros [H3|H3]; [contradiction|contradiction].
Qed.

Lemma dedup_acc_NoDup (l : list key) : forall seen, NoDup (dedup_acc seen l).
Proof.
  induction l as [|x l IH]; intro seen; cbn [dedup_acc]; [constructor|].
  destruct (kmem x seen); [apply IH|].
  constructor; [|apply IH]. rewrite dedup_acc_In. intros [_ H]. apply H. left. reflexivity.
Qed.

Lemma first_index_head k l : first_index k (k :: l) = 0.
Proof. cbn [first_index]. rewrite key_eqb_refl. reflexivity. Qed.

Lemma first_index_tail k x l : k <> x -> first_index k (x :: l) = S (first_index k l).
Proof. intro H. cbn [first_index]. apply key_eqb_neq in H. rewrite H. reflexivity. Qed.

Lemma dedup_acc_order (l : list key) : forall seen k1 k2,
  In k1 (dedup_acc seen l) -> In k2 (dedup_acc seen l) ->
  (first_index k1 (dedup_acc seen l) < first_index k2 (dedup_acc seen l)
   <-> first_index k1 l < first_index k2 l).
Proof.
  induction l as [|x l IH]; intros seen k1 k2 H1 H2.
  - cbn [dedup_acc] in H1. contradiction.
  - cbn [dedup_acc] in *. destruct (kmem x seen) eqn:E.
    + apply kmem_In in E.
      assert (N1 : k1 <> x) by (intros ->; apply dedup_acc_In in H1; tauto).
      assert (N2 : k2 <> x) by (intros ->; apply dedup_acc_In in H2; tauto).
      rewrite (first_index_tail k1 x l N1), (first_index_tail k2 x l N2).
      pose proof (IH seen k1 k2 H1 H2). lia.
    + destruct (key_dec k1 x) as [->|N1]; destruct (key_dec k2 x) as [->|N2].
      * rewrite !first_index_head. lia.
      * rewrite !first_index_head, !(first_index_tail k2 x _ N2). lia.
      * rewrite !first_index_head, !(first_index_tail k1 x _ N1). lia.
      * rewrite !(first_index_tail k1 x _ N1), !(first_index_tail k2 x _ N2).
        destruct H1 as [H1|H1]; [congruence|]. destruct H2 as [H2|H2]; [congruence|].
        pose proof (IH (x :: seen) k1 k2 H1 H2). lia.
Qed.

Lemma asset_keys_In (a : list asset) (k : key) : In k (asset_keys a) <-> In (AMulti k) a.
Proof.
  unfold asset_keys. rewrite in_flat_map. split.
  - intros [x [Hx Hk]]. destruct x as [k'| |]; cbn [In] in Hk; try contradiction.
    destruct Hk as [->|[]]. exact Hx.
  - intro H. exists (AMulti k). split; [exact H|left; reflexivity].
Qed.

(* ledger ids: no duplicates, exactly the ledgers of the assets, in first-occurrence order *)
Lemma ledger_ids_spec (a : list asset) (ids : list key) :
  ledger_ids a = Ok ids ->
  NoDup ids /\
  (forall k, In k ids <-> In (AMulti k) a) /\
  (forall k1 k2, In k1 ids -> In k2 ids ->
     (first_index k1 ids < first_index k2 ids <-> first_index k1 (asset_keys a) < first_index k2 (asset_keys a))).
Proof.
  intro H. apply ledger_ids_dedup in H. destruct H as [_ ->]. split; [apply dedup_acc_NoDup|]. split.
  - intro k. rewrite dedup_acc_In, asset_keys_In. cbn [In]. tauto.
  - intros k1 k2 H1 H2. apply dedup_acc_order; assumption.
Qed.

(* when LedgerIDs succeeds, fails, panics *)
Lemma ledger_ids_ok_iff (a : list asset) :
  (exists ids, ledger_ids a = Ok ids) <-> forallb is_multi a = true.
Proof.
  split.
  - intros [ids H]. apply ledger_ids_dedup in H. tauto.
  - intro H. exists (dedup_acc [] (asset_keys a)). apply ledger_ids_dedup. split; [exact H|reflexivity].
Qed.

Lemma ledger_ids_loop_err (a : list asset) : forall seen ids,
  In APlain a -> ~ In ANilId a -> ledger_ids_loop a seen ids = Err.
Proof.
  induction a as [|x a IH]; intros seen ids H1 H2; [contradiction|].
  cbn [ledger_ids_loop]. destruct x as [k| |].
  - assert (In APlain a) by (destruct H1 as [H1|H1]; [discriminate|exact H1]).
    assert (~ In ANilId a) by (intro; apply H2; right; assumption).
    destruct (kmem k seen); apply IH; assumption.
  - reflexivity.
  - exfalso. apply H2. left. reflexivity.
Qed.

Lemma ledger_ids_err (a : list asset) : In APlain a -> ~ In ANilId a -> ledger_ids a = Err.
Proof. apply ledger_ids_loop_err. Qed.

(* ---------- counting ---------- *)

Lemma countb_app {A} (p : A -> bool) l1 l2 : countb p (l1 ++ l2) = countb p l1 + countb p l2.
Proof. unfold countb. rewrite filter_app, app_length. reflexivity. Qed.

Lemma countb_perm {A} (p : A -> bool) l1 l2 : Permutation l1 l2 -> countb p l1 = countb p l2.
Proof.
  unfold countb. induction 1 as [|x l l' _ IH|x y l|l l' l'' _ IH1 _ IH2]; cbn [filter].
  - reflexivity.
  - destruct (p x); cbn [length]; rewrite IH; reflexivity.
  - destruct (p x), (p y); reflexivity.
  - rewrite IH1. exact IH2.
Qed.

Lemma countb_nil {A} (p : A -> bool) : countb p [] = 0.
Proof. reflexivity. Qed.

Lemma countb_cons {A} (p : A -> bool) x l : countb p (x :: l) = (if p x then 1 else 0) + countb p l.
Proof. unfold countb. cbn [filter]. destruct (p x); reflexivity. Qed.

Lemma countb_zero {A} (p : A -> bool) l : (forall x, In x l -> p x = false) -> countb p l = 0.
Proof.
  induction l as [|x l IH]; intro H; [reflexivity|].
  rewrite countb_cons, H by (left; reflexivity). rewrite IH; [reflexivity|].
  intros y Hy. apply H. right. exact Hy.
Qed.

(* ---------- extract ---------- *)

Lemma extract_some k l t l' : extract k l = Some (t, l') -> Permutation l (t :: l') /\ fst t = k.
Proof.
  revert t l'. induction l as [|x l IH]; intros t l' H; cbn [extract] in H; [discriminate|].
  destruct (key_eqb k (fst x)) eqn:E.
  - injection H as <- <-. apply key_eqb_eq in E. split; [apply Permutation_refl|symmetry; exact E].
  - destruct (extract k l) as [[y r]|] eqn:E2; [|discriminate].
    injection H as <- <-. destruct (IH y r eq_refl) as [P F]. split; [|exact F].
    rewrite P. apply perm_swap.
Qed.

Lemma extract_none k l : extract k l = None -> forall t, In t l -> fst t <> k.
Proof.
  induction l as [|x l IH]; intros H t Hin; [contradiction|]. cbn [extract] in H.
  destruct (key_eqb k (fst x)) eqn:E; [discriminate|].
  destruct (extract k l) as [[y r]|] eqn:E2; [discriminate|].
  destruct Hin as [<-|Hin].
  - apply key_eqb_neq in E. congruence.
  - apply IH; [reflexivity|exact Hin].
Qed.

(* ---------- tasks ---------- *)

Lemma tres_none v t : tres v t = None <-> exists h, snd t = Some h /\ v h = true.
Proof.
  unfold tres. destruct (snd t) as [h|].
  - destruct (v h) eqn:E; split; intro H; try discriminate.
    + exists h. split; [reflexivity|exact E].
    + reflexivity.
    + destruct H as [h' [H1 H2]]. injection H1 as <-. congruence.
  - split; [discriminate|]. intros [h [H _]]. discriminate.
Qed.

Lemma tres_some v t e : tres v t = Some e ->
  (snd t = None /\ e = ENotFound (fst t)) \/ (exists h, snd t = Some h /\ v h = false /\ e = ECall h).
Proof.
  unfold tres. destruct (snd t) as [h|].
  - destruct (v h) eqn:E; [discriminate|]. intro H. injection H as <-. right. exists h. auto.
  - intro H. injection H as <-. left. auto.
Qed.

Lemma tasks_of_In reg ids t : In t (tasks_of reg ids) <-> (In (fst t) ids /\ snd t = reg_lookup reg (fst t)).
Proof.
  unfold tasks_of. rewrite in_map_iff. split.
  - intros [k [<- Hk]]. cbn [fst snd]. split; [exact Hk|reflexivity].
  - intros [H1 H2]. exists (fst t). split; [|exact H1]. destruct t as [k o]. cbn [fst snd] in *. congruence.
Qed.

Lemma tasks_of_length reg ids : length (tasks_of reg ids) = length ids.
Proof. unfold tasks_of. apply map_length. Qed.

Lemma creg_tasks_of reg ids k : NoDup ids ->
  creg k (tasks_of reg ids) = if kmem k ids && registered reg k then 1 else 0.
Proof.
  unfold creg. induction ids as [|x ids IH]; intro ND.
  - reflexivity.
  - inversion ND as [|? ? Hx ND']; subst. cbn [tasks_of map]. fold (tasks_of reg ids).
    rewrite countb_cons, (IH ND'). cbn [fst snd]. unfold kmem. cbn [existsb]. fold (kmem k ids).
    destruct (key_eqb k x) eqn:E.
    + apply key_eqb_eq in E. subst x. cbn [orb andb].
      assert (kmem k ids = false) as -> by (apply kmem_not_In; exact Hx).
      unfold registered. cbn [andb]. destruct (is_some (reg_lookup reg k)); reflexivity.
    + cbn [andb orb]. reflexivity.
Qed.

Lemma creg_zero k l : (forall t, In t l -> fst t <> k) -> creg k l = 0.
Proof.
  intro H. unfold creg. apply countb_zero. intros t Ht. apply H in Ht.
  assert (key_eqb k (fst t) = false) as -> by (apply key_eqb_neq; congruence). reflexivity.
Qed.

(* ---------- the invariant of dispatch / fundLedgers ---------- *)

Section Dispatch.
  Variable m : method.
  Variable v : hid -> bool.
  Variable ts : list task.          (* the goroutines started by this dispatch *)

  Record dinv (s : dstate) : Prop := mkDinv {
    di_perm : Permutation (d_new s ++ d_run s ++ d_done s) ts;
    di_run : Forall (fun t => snd t <> None) (d_run s);
    di_chan : exists c, c ++ d_queue s = map (tres v) (d_done s) /\
              match d_ret s with
              | None => Forall (eq None) c /\ length c + d_left s = length ts
              | Some None => Forall (eq None) c /\ length c = length ts
              | Some (Some e) => In (Some e) c
              end }.

  Lemma dinv_step s l : dinv s -> dinv (fst (dstep m v s l)).
  Proof.
    intros [HP HR [c [HC HRet]]]. destruct l as [k|k|]; cbn [dstep].
    - (* SGo *)
      destruct (extract k (d_new s)) as [[t new']|] eqn:E; [|cbn [fst]; constructor; eauto].
      destruct (extract_some _ _ _ _ E) as [PE _].
      destruct (snd t) as [h|] eqn:Eh; cbn [fst]; constructor; cbn [d_new d_run d_done d_queue d_left d_ret].
      + rewrite <- HP, PE. cbn [app]. rewrite <- app_assoc. cbn [app].
        symmetry. rewrite (app_assoc new' (d_run s) (t :: d_done s)).
        apply Permutation_cons_app. rewrite app_assoc. reflexivity.
      + apply Forall_app. split; [exact HR|]. constructor; [congruence|constructor].
      + exists c. split; [exact HC|exact HRet].
      + rewrite <- HP, PE. cbn [app]. rewrite !app_assoc. symmetry. apply Permutation_cons_append.
      + exact HR.
      + exists c. split; [|exact HRet]. rewrite map_app, app_assoc, HC. reflexivity.
    - (* SFin *)
      destruct (extract k (d_run s)) as [[t run']|] eqn:E; [|cbn [fst]; constructor; eauto].
      destruct (extract_some _ _ _ _ E) as [PE _].
      cbn [fst]; constructor; cbn [d_new d_run d_done d_queue d_left d_ret].
      + rewrite <- HP, PE. apply Permutation_app_head. cbn [app]. rewrite app_assoc.
        symmetry. apply Permutation_cons_append.
      + assert (F : Forall (fun t => snd t <> None) (t :: run')).
        { eapply Permutation_Forall; [exact PE|exact HR]. }
        inversion F; assumption.
      + exists c. split; [|exact HRet]. rewrite map_app, app_assoc, HC. reflexivity.
    - (* SRecv *)
      destruct (d_ret s) as [r|] eqn:ER.
      + cbn [fst]. constructor; eauto. exists c. rewrite ER. split; assumption.
      + destruct HRet as [HF HL]. destruct (d_left s) as [|n] eqn:EL.
        * cbn [fst]. constructor; cbn [d_new d_run d_done d_queue d_left d_ret]; eauto.
          exists c. split; [exact HC|]. split; [exact HF|lia].
        * destruct (d_queue s) as [|[e|] q] eqn:EQ; cbn [fst].
          -- constructor; eauto. exists c. rewrite ER, EQ, EL. auto.
          -- constructor; cbn [d_new d_run d_done d_queue d_left d_ret]; eauto.
             exists (c ++ [Some e]). split; [rewrite <- app_assoc; exact HC|].
             apply in_or_app. right. left. reflexivity.
          -- constructor; cbn [d_new d_run d_done d_queue d_left d_ret]; eauto.
             exists (c ++ [None]). split; [rewrite <- app_assoc; exact HC|]. split.
             ++ apply Forall_app. split; [exact HF|]. constructor; [reflexivity|constructor].
             ++ rewrite app_length. cbn [length]. lia.
  Qed.

  Lemma dinv_lengths s : dinv s ->
    length (d_new s) + length (d_run s) + length (d_done s) = length ts.
  Proof.
    intros [HP _ _]. apply Permutation_length in HP. rewrite !app_length in HP. lia.
  Qed.

  (* dispatch returned nil: every goroutine has finished and every result was nil *)
  Lemma dinv_ret_ok s : dinv s -> d_ret s = Some None ->
    d_new s = [] /\ d_run s = [] /\ d_queue s = [] /\ Permutation (d_done s) ts /\
    Forall (fun t => tres v t = None) ts.
  Proof.
    intros I ER. pose proof (dinv_lengths s I) as HL. destruct I as [HP _ [c [HC HRet]]].
    rewrite ER in HRet. destruct HRet as [HF HLc].
    assert (HL2 : length c + length (d_queue s) = length (d_done s)).
    { rewrite <- app_length, HC, map_length. reflexivity. }
    assert (N : d_new s = []) by (apply length_zero_iff_nil; lia).
    assert (R : d_run s = []) by (apply length_zero_iff_nil; lia).
    assert (Q : d_queue s = []) by (apply length_zero_iff_nil; lia).
    rewrite N, R in HP. cbn [app] in HP. rewrite Q, app_nil_r in HC. subst c.
    repeat split; try assumption.
    eapply Permutation_Forall; [exact HP|]. rewrite Forall_map in HF.
    eapply Forall_impl; [|exact HF]. cbn beta. intros t Ht. symmetry. exact Ht.
  Qed.

  (* dispatch returned an error: it is the result of one of the goroutines *)
  Lemma dinv_ret_err s e : dinv s -> d_ret s = Some (Some e) ->
    exists t, In t ts /\ In t (d_done s) /\ tres v t = Some e.
  Proof.
    intros [HP _ [c [HC HRet]]] ER. rewrite ER in HRet.
    assert (H : In (Some e) (map (tres v) (d_done s))).
    { rewrite <- HC. apply in_or_app. left. exact HRet. }
    apply in_map_iff in H. destruct H as [t [Ht Hin]]. exists t. split; [|split; assumption].
    eapply Permutation_in; [exact HP|]. apply in_or_app. right. apply in_or_app. right. exact Hin.
  Qed.

  Lemma dinv_in s t : dinv s -> In t (d_new s ++ d_run s ++ d_done s) -> In t ts.
  Proof. intros [HP _ _] H. eapply Permutation_in; [exact HP|exact H]. Qed.

  (* ---- one step: events and counters ---- *)

  Lemma dstep_starts s l k :
    count_start k (snd (dstep m v s l)) + creg k (d_run s ++ d_done s)
    = creg k (d_run (fst (dstep m v s l)) ++ d_done (fst (dstep m v s l))).
  Proof.
    destruct l as [k0|k0|]; cbn [dstep].
    - destruct (extract k0 (d_new s)) as [[t new']|] eqn:E; [|reflexivity].
      destruct (snd t) as [h|] eqn:Eh; cbn [fst snd d_run d_done].
      + unfold creg at 2. rewrite <- app_assoc, !countb_app. fold (creg k (d_run s)) (creg k (d_done s)).
        unfold creg at 1. rewrite countb_app. fold (creg k (d_run s)) (creg k (d_done s)).
        unfold count_start. rewrite !countb_cons, !countb_nil. cbn [is_start_of fst snd].
        rewrite Eh. cbn [is_some]. rewrite andb_true_r. lia.
      + unfold creg at 2. rewrite app_assoc, countb_app. rewrite countb_cons, countb_nil.
        rewrite Eh. cbn [is_some]. rewrite andb_false_r. unfold count_start. rewrite countb_nil.
        unfold creg. lia.
    - destruct (extract k0 (d_run s)) as [[t run']|] eqn:E; [|reflexivity].
      destruct (extract_some _ _ _ _ E) as [PE _]. cbn [fst snd d_run d_done].
      assert (C : count_start k (match snd t with Some h => [EEnd m (fst t) h (v h)] | None => [] end) = 0).
      { destruct (snd t); reflexivity. }
      rewrite C. cbn [plus]. unfold creg. apply countb_perm.
      rewrite PE. cbn [app]. rewrite app_assoc. apply Permutation_cons_append.
    - destruct (d_ret s); [reflexivity|]. destruct (d_left s); [reflexivity|].
      destruct (d_queue s) as [|[e|] q]; reflexivity.
  Qed.

  Lemma dstep_ends s l k :
    count_end k (snd (dstep m v s l)) + creg k (d_done s) = creg k (d_done (fst (dstep m v s l))).
  Proof.
    destruct l as [k0|k0|]; cbn [dstep].
    - destruct (extract k0 (d_new s)) as [[t new']|] eqn:E; [|reflexivity].
      destruct (snd t) as [h|] eqn:Eh; cbn [fst snd d_run d_done]; [reflexivity|].
      unfold creg. rewrite countb_app, countb_cons, countb_nil, Eh. cbn [is_some].
      rewrite andb_false_r. unfold count_end. rewrite countb_nil. lia.
    - destruct (extract k0 (d_run s)) as [[t run']|] eqn:E; [|reflexivity].
      cbn [fst snd d_run d_done]. unfold creg. rewrite countb_app, countb_cons, countb_nil.
      destruct (snd t) as [h|] eqn:Eh; cbn [is_some].
      + unfold count_end. rewrite countb_cons, countb_nil. cbn [is_end_of]. rewrite andb_true_r. lia.
      + unfold count_end. rewrite countb_nil, andb_false_r. lia.
    - destruct (d_ret s); [reflexivity|]. destruct (d_left s); [reflexivity|].
      destruct (d_queue s) as [|[e|] q]; reflexivity.
  Qed.

  (* the events of a step: at most one, never a return, and a call of a goroutine of ts *)
  Definition dev_ok (s : dstate) (e : event) : Prop :=
    match e with
    | EStart m' k h => m' = m /\ In (k, Some h) (d_new s)
    | EEnd m' k h ok => m' = m /\ In (k, Some h) (d_run s) /\ ok = v h
    | ERet _ => False
    end.

  Lemma dstep_events s l :
    snd (dstep m v s l) = [] \/ exists e, snd (dstep m v s l) = [e] /\ dev_ok s e.
  Proof.
    destruct l as [k0|k0|]; cbn [dstep].
    - destruct (extract k0 (d_new s)) as [[t new']|] eqn:E; [|left; reflexivity].
      destruct (extract_some _ _ _ _ E) as [PE _].
      destruct (snd t) as [h|] eqn:Eh; cbn [snd]; [|left; reflexivity].
      right. eexists. split; [reflexivity|]. cbn [dev_ok]. split; [reflexivity|].
      eapply Permutation_in; [symmetry; exact PE|]. left. destruct t; cbn [fst snd] in *. congruence.
    - destruct (extract k0 (d_run s)) as [[t run']|] eqn:E; [|left; reflexivity].
      destruct (extract_some _ _ _ _ E) as [PE _]. cbn [snd].
      destruct (snd t) as [h|] eqn:Eh; [|left; reflexivity].
      right. eexists. split; [reflexivity|]. cbn [dev_ok]. split; [reflexivity|]. split; [|reflexivity].
      eapply Permutation_in; [symmetry; exact PE|]. left. destruct t; cbn [fst snd] in *. congruence.
    - left. destruct (d_ret s); [reflexivity|]. destruct (d_left s); [reflexivity|].
      destruct (d_queue s) as [|[e|] q]; reflexivity.
  Qed.

  (* finished registered calls have their EEnd in the trace *)
  Definition done_logged (s : dstate) (tr : list event) : Prop :=
    forall k h, In (k, Some h) (d_done s) -> In (EEnd m k h (v h)) tr.

  Lemma done_logged_step s l tr :
    done_logged s tr -> done_logged (fst (dstep m v s l)) (tr ++ snd (dstep m v s l)).
  Proof.
    intros H k h Hin. destruct l as [k0|k0|]; cbn [dstep] in *.
    - destruct (extract k0 (d_new s)) as [[t new']|] eqn:E; [|cbn [fst snd] in *; rewrite app_nil_r; auto].
      destruct (snd t) as [h'|] eqn:Eh; cbn [fst snd d_done] in *.
      + apply in_or_app. left. auto.
      + rewrite app_nil_r. apply in_app_or in Hin. destruct Hin as [Hin|[Ht|[]]]; [auto|].
        subst t. cbn [snd] in Eh. discriminate.
    - destruct (extract k0 (d_run s)) as [[t run']|] eqn:E; [|cbn [fst snd] in *; rewrite app_nil_r; auto].
      cbn [fst snd d_done] in *. apply in_or_app. apply in_app_or in Hin.
      destruct Hin as [Hin|[Ht|[]]]; [left; auto|]. subst t. right. cbn [fst snd]. left. reflexivity.
    - assert (E : d_done (fst (match d_ret s with
        | Some _ => (s, [])
        | None => match d_left s with
            | 0 => (mkD (d_new s) (d_run s) (d_done s) (d_queue s) 0 (Some None), [])
            | S n => match d_queue s with
                | [] => (s, [])
                | None :: q => (mkD (d_new s) (d_run s) (d_done s) q n None, [])
                | Some e :: q => (mkD (d_new s) (d_run s) (d_done s) q n (Some (Some e)), [])
                end end end : dstate * list event)) = d_done s).
      { destruct (d_ret s); [reflexivity|]. destruct (d_left s); [reflexivity|].
        destruct (d_queue s) as [|[e|] q]; reflexivity. }
      rewrite E in Hin. apply in_or_app. left. auto.
  Qed.

  (* SRecv changes neither the goroutines nor produces events *)
  Lemma dstep_recv_tasks s :
    d_new (fst (dstep m v s SRecv)) = d_new s /\ d_run (fst (dstep m v s SRecv)) = d_run s /\
    d_done (fst (dstep m v s SRecv)) = d_done s /\ snd (dstep m v s SRecv) = [].
  Proof.
    cbn [dstep]. destruct (d_ret s); [auto|]. destruct (d_left s); [auto|].
    destruct (d_queue s) as [|[e|] q]; auto.
  Qed.

  (* a task step does not touch the return value *)
  Lemma dstep_task_ret s l : l <> SRecv -> d_ret (fst (dstep m v s l)) = d_ret s.
  Proof.
    destruct l as [k0|k0|]; intro H; [| |congruence]; cbn [dstep].
    - destruct (extract k0 (d_new s)) as [[t new']|]; [|reflexivity]. destruct (snd t); reflexivity.
    - destruct (extract k0 (d_run s)) as [[t run']|]; reflexivity.
  Qed.

  (* once returned, the return value never changes *)
  Lemma dstep_ret_stable s l r : d_ret s = Some r -> d_ret (fst (dstep m v s l)) = Some r.
  Proof.
    intro H. destruct l as [k0|k0|].
    - rewrite dstep_task_ret by discriminate. exact H.
    - rewrite dstep_task_ret by discriminate. exact H.
    - cbn [dstep]. rewrite H. exact H.
  Qed.
End Dispatch.

(* ---------- generic facts about runs and traces ---------- *)

Lemma run_inv {S L : Type} (step : S -> L -> S * list event) (P : S -> list event -> Prop) :
  (forall s tr l, P s tr -> P (fst (step s l)) (tr ++ snd (step s l))) ->
  forall ls s tr, P s tr -> P (fst (run step (s, tr) ls)) (snd (run step (s, tr) ls)).
Proof.
  intro HS. induction ls as [|l ls IH]; intros s tr HP; [exact HP|].
  unfold run. cbn [fold_left fst snd]. specialize (HS s tr l HP).
  destruct (step s l) as [s' ev]. cbn [fst snd] in HS. apply (IH s' (tr ++ ev) HS).
Qed.

Lemma app_single_split {A} (tr pre post : list A) (e x : A) :
  tr ++ [e] = pre ++ x :: post ->
  (post = [] /\ pre = tr /\ x = e) \/ (exists post', post = post' ++ [e] /\ tr = pre ++ x :: post').
Proof.
  intro H. destruct post as [|y post0].
  - left. apply app_inj_tail in H. destruct H as [-> ->]. auto.
  - right. destruct (@exists_last _ (y :: post0)) as [post' [z Hz]]; [discriminate|].
    rewrite Hz in *. replace (pre ++ x :: post' ++ [z]) with ((pre ++ x :: post') ++ [z]) in H
      by (rewrite <- app_assoc; reflexivity).
    apply app_inj_tail in H. destruct H as [-> ->]. exists post'. auto.
Qed.

Lemma count_start_ret k o : count_start k [ERet o] = 0. Proof. reflexivity. Qed.
Lemma count_end_ret k o : count_end k [ERet o] = 0. Proof. reflexivity. Qed.

Lemma dlabel_eq_recv (l : dlabel) : {l = SRecv} + {l <> SRecv}.
Proof. destruct l; [right; discriminate|right; discriminate|left; reflexivity]. Qed.

(* ---------- Adjudicator.Register / Progress / Withdraw ---------- *)

Section Adjudicator.
  Variable m : method.
  Variable v : hid -> bool.
  Variable reg : registry.
  Variable ids : list key.
  Hypothesis ids_nodup : NoDup ids.
  Let ts := tasks_of reg ids.

  Lemma astep_fst s l : fst (astep m v s l) = fst (dstep m v s l).
  Proof.
    destruct l; cbn [astep]; try reflexivity.
    destruct (d_ret s); destruct (d_ret (fst (dstep m v s SRecv))); reflexivity.
  Qed.

  Lemma astep_snd_task s l : l <> SRecv -> snd (astep m v s l) = snd (dstep m v s l).
  Proof. destruct l; intro H; try reflexivity. congruence. Qed.

  Lemma astep_snd_recv s :
    snd (astep m v s SRecv) =
    match d_ret s, d_ret (fst (dstep m v s SRecv)) with
    | None, Some r => [ERet (out_of r)]
    | _, _ => []
    end.
  Proof.
    cbn [astep]. destruct (d_ret s); destruct (d_ret (fst (dstep m v s SRecv))); reflexivity.
  Qed.

  Lemma task_lookup k h : In (k, Some h) ts -> In k ids /\ reg_lookup reg k = Some h.
  Proof. intro H. apply tasks_of_In in H. cbn [fst snd] in H. destruct H. split; congruence. Qed.

  Lemma dev_ok_legit s e : dinv v ts s -> dev_ok m v s e -> ev_legit m reg v ids e.
  Proof.
    intros I H. destruct e as [m' k h|m' k h ok|o]; cbn [dev_ok ev_legit] in *.
    - destruct H as [-> H]. split; [reflexivity|]. apply task_lookup. eapply dinv_in; [exact I|].
      apply in_or_app. left. exact H.
    - destruct H as [-> [H ->]]. split; [reflexivity|].
      assert (In (k, Some h) ts) as Hin.
      { eapply dinv_in; [exact I|]. apply in_or_app. right. apply in_or_app. left. exact H. }
      apply task_lookup in Hin. destruct Hin. auto.
    - contradiction.
  Qed.

  Record ainv (s : dstate) (tr : list event) : Prop := mkAinv {
    ai_d : dinv v ts s;
    ai_starts : forall k, count_start k tr = creg k (d_run s ++ d_done s);
    ai_ends : forall k, count_end k tr = creg k (d_done s);
    ai_legit : Forall (ev_legit m reg v ids) tr;
    ai_logged : done_logged m v s tr;
    ai_nret : countb is_ret tr = if d_ret s then 1 else 0;
    ai_ret : forall o, In (ERet o) tr -> exists r, d_ret s = Some r /\ o = out_of r;
    ai_sync : forall pre post, tr = pre ++ ERet OOk :: post ->
              forall k, In k ids -> exists h, reg_lookup reg k = Some h /\ v h = true /\ In (EEnd m k h true) pre }.

  Lemma ainv_init : ainv (d_init reg ids) [].
  Proof.
    constructor; cbn [d_init d_new d_run d_done d_ret app].
    - constructor; cbn [d_init d_new d_run d_done d_ret d_queue d_left app].
      + rewrite app_nil_r. apply Permutation_refl.
      + constructor.
      + exists []. split; [reflexivity|]. split; [constructor|]. unfold ts. rewrite tasks_of_length. reflexivity.
    - reflexivity.
    - reflexivity.
    - constructor.
    - intros k h [].
    - reflexivity.
    - intros o [].
    - intros pre post H. destruct pre; discriminate.
  Qed.

  Lemma ok_all s tr : dinv v ts s -> done_logged m v s tr -> d_ret s = Some None ->
    forall k, In k ids -> exists h, reg_lookup reg k = Some h /\ v h = true /\ In (EEnd m k h true) tr.
  Proof.
    intros I HL ER k Hk. destruct (dinv_ret_ok v ts s I ER) as [_ [_ [_ [HP HF]]]].
    assert (Hin : In (k, reg_lookup reg k) ts) by (apply tasks_of_In; cbn [fst snd]; auto).
    rewrite Forall_forall in HF. specialize (HF _ Hin). apply tres_none in HF.
    destruct HF as [h [Hh Hv]]. cbn [snd] in Hh. exists h. split; [exact Hh|]. split; [exact Hv|].
    rewrite <- Hv. apply HL. rewrite <- Hh. eapply Permutation_in; [symmetry; exact HP|exact Hin].
  Qed.

  Lemma ainv_step s tr l : ainv s tr -> ainv (fst (astep m v s l)) (tr ++ snd (astep m v s l)).
  Proof.
    intros [ID HS HE HLg HLog HN HR HSy].
    assert (ID' : dinv v ts (fst (dstep m v s l))) by (apply dinv_step; exact ID).
    destruct (dlabel_eq_recv l) as [->|NR].
    - (* SRecv *)
      rewrite astep_fst, astep_snd_recv.
      destruct (dstep_recv_tasks m v s) as [E1 [E2 [E3 E4]]].
      set (s' := fst (dstep m v s SRecv)) in *.
      assert (HLog' : done_logged m v s' tr) by (unfold done_logged; rewrite E3; exact HLog).
      destruct (d_ret s) as [r|] eqn:ER.
      + (* already returned *)
        assert (ER' : d_ret s' = Some r) by (apply dstep_ret_stable; exact ER).
        rewrite app_nil_r. constructor; try assumption.
        * intro k. rewrite E2, E3. apply HS.
        * intro k. rewrite E3. apply HE.
        * rewrite ER'. exact HN.
        * intros o Ho. rewrite ER'. apply HR. exact Ho.
      + destruct (d_ret s') as [r'|] eqn:ER'.
        * (* returns now *)
          constructor; try assumption.
          -- intro k. unfold count_start. rewrite countb_app. fold (count_start k tr) (count_start k [ERet (out_of r')]).
             rewrite count_start_ret, E2, E3, HS. lia.
          -- intro k. unfold count_end. rewrite countb_app. fold (count_end k tr) (count_end k [ERet (out_of r')]).
             rewrite count_end_ret, E3, HE. lia.
          -- apply Forall_app. split; [exact HLg|]. constructor; [exact I|constructor].
          -- intros k h Hin. apply in_or_app. left. apply HLog'. exact Hin.
          -- rewrite countb_app, HN, ER'. reflexivity.
          -- intros o Ho. apply in_app_or in Ho. destruct Ho as [Ho|[Ho|[]]].
             ++ apply HR in Ho. destruct Ho as [r0 [Hr0 _]]. discriminate.
             ++ injection Ho as <-. exists r'. auto.
          -- intros pre post Hsp k Hk. apply app_single_split in Hsp.
             destruct Hsp as [[_ [-> Ho]]|[post' [_ Htr]]].
             ++ injection Ho as Ho. destruct r' as [e|]; [discriminate|].
                apply (ok_all s' tr ID' HLog' ER' k Hk).
             ++ apply (HSy pre post' Htr k Hk).
        * rewrite app_nil_r. constructor; try assumption.
          -- intro k. rewrite E2, E3. apply HS.
          -- intro k. rewrite E3. apply HE.
          -- rewrite ER'. exact HN.
          -- intros o Ho. apply HR in Ho. destruct Ho as [r0 [Hr0 _]]. discriminate.
    - (* a goroutine step *)
      rewrite astep_fst, astep_snd_task by exact NR.
      pose proof (dstep_task_ret m v s l NR) as ER.
      constructor.
      + exact ID'.
      + intro k. unfold count_start. rewrite countb_app. fold (count_start k tr).
        fold (count_start k (snd (dstep m v s l))). rewrite <- (dstep_starts m v s l k), HS. lia.
      + intro k. unfold count_end. rewrite countb_app. fold (count_end k tr).
        fold (count_end k (snd (dstep m v s l))). rewrite <- (dstep_ends m v s l k), HE. lia.
      + apply Forall_app. split; [exact HLg|].
        destruct (dstep_events m v s l) as [->|[e [-> He]]]; [constructor|].
        constructor; [|constructor]. exact (dev_ok_legit s e ID He).
      + apply done_logged_step. exact HLog.
      + rewrite countb_app, HN, ER.
        destruct (dstep_events m v s l) as [->|[e [-> He]]]; [rewrite countb_nil; lia|].
        rewrite countb_cons, countb_nil. destruct e; cbn [dev_ok] in He; [| |contradiction]; cbn [is_ret]; lia.
      + intros o Ho. rewrite ER. apply in_app_or in Ho. destruct Ho as [Ho|Ho]; [apply HR; exact Ho|].
        destruct (dstep_events m v s l) as [E|[e [E He]]]; rewrite E in Ho; [contradiction|].
        destruct Ho as [->|[]]. cbn [dev_ok] in He. contradiction.
      + intros pre post Hsp k Hk.
        destruct (dstep_events m v s l) as [E|[e [E He]]]; rewrite E in Hsp.
        * rewrite app_nil_r in Hsp. apply (HSy pre post Hsp k Hk).
        * apply app_single_split in Hsp. destruct Hsp as [[_ [_ Ho]]|[post' [_ Htr]]].
          -- subst e. cbn [dev_ok] in He. contradiction.
          -- apply (HSy pre post' Htr k Hk).
  Qed.

  Lemma adj_run_inv sched :
    ainv (fst (adj_run m reg v ids sched)) (snd (adj_run m reg v ids sched)).
  Proof.
    unfold adj_run. apply (run_inv (astep m v) ainv).
    - intros s tr l H. apply ainv_step. exact H.
    - apply ainv_init.
  Qed.

  (* -- consequences -- *)

  Lemma creg_le s k : dinv v ts s ->
    creg k (d_run s ++ d_done s) <= if kmem k ids && registered reg k then 1 else 0.
  Proof.
    intros [HP _ _]. rewrite <- (creg_tasks_of reg ids k ids_nodup). fold ts.
    unfold creg. rewrite <- (countb_perm _ _ _ HP), !countb_app. apply Nat.le_add_l.
  Qed.

  Lemma creg_complete s k : dinv v ts s -> d_new s = [] ->
    creg k (d_run s ++ d_done s) = if kmem k ids && registered reg k then 1 else 0.
  Proof.
    intros [HP _ _] HN. rewrite <- (creg_tasks_of reg ids k ids_nodup). fold ts.
    unfold creg. rewrite <- (countb_perm _ _ _ HP), HN. reflexivity.
  Qed.

  (* safety, under every schedule and at every moment: at most one call per ledger, only on
     registered ledgers of the asset list, with the right method and handler *)
  Lemma adj_calls_safe sched s tr : adj_run m reg v ids sched = (s, tr) ->
    (forall k, count_start k tr <= if kmem k ids && registered reg k then 1 else 0) /\
    (forall k, count_end k tr <= count_start k tr) /\
    Forall (ev_legit m reg v ids) tr.
  Proof.
    intro H. pose proof (adj_run_inv sched) as I. rewrite H in I. cbn [fst snd] in I.
    destruct I as [ID HS HE HLg _ _ _ _]. split; [|split].
    - intro k. rewrite HS. apply creg_le. exact ID.
    - intro k. rewrite HS, HE. unfold creg. rewrite countb_app. lia.
    - exact HLg.
  Qed.

  (* once everything has finished: exactly one call, started and ended, per registered distinct ledger *)
  Lemma adj_calls_exact sched s tr : adj_run m reg v ids sched = (s, tr) -> d_complete s ->
    forall k, count_start k tr = (if kmem k ids && registered reg k then 1 else 0) /\
              count_end k tr = (if kmem k ids && registered reg k then 1 else 0).
  Proof.
    intros H [CN [CR _]] k. pose proof (adj_run_inv sched) as I. rewrite H in I. cbn [fst snd] in I.
    destruct I as [ID HS HE _ _ _ _ _].
    rewrite HS, HE. rewrite <- (creg_complete s k ID CN). rewrite CR. split; reflexivity.
  Qed.

  Lemma all_ok_iff : Forall (fun t => tres v t = None) ts <-> forallb (ledger_ok reg v) ids = true.
  Proof.
    rewrite forallb_forall, Forall_forall. split.
    - intros H k Hk. assert (Hin : In (k, reg_lookup reg k) ts) by (apply tasks_of_In; cbn [fst snd]; auto).
      apply H in Hin. apply tres_none in Hin. destruct Hin as [h [Hh Hv]]. cbn [snd] in Hh.
      unfold ledger_ok. rewrite Hh. exact Hv.
    - intros H t Ht. apply tasks_of_In in Ht. destruct Ht as [Hk Hs]. apply H in Hk.
      unfold ledger_ok in Hk. apply tres_none. rewrite Hs.
      destruct (reg_lookup reg (fst t)) as [h|]; [|discriminate]. exists h. auto.
  Qed.

  Lemma tres_failing t e : In t ts -> tres v t = Some e -> failing reg v ids e.
  Proof.
    intros Ht He. apply tasks_of_In in Ht. destruct Ht as [Hk Hs].
    apply tres_some in He. destruct He as [[Hn ->]|[h [Hh [Hv ->]]]]; cbn [failing].
    - split; [exact Hk|congruence].
    - exists (fst t). split; [exact Hk|]. split; [congruence|exact Hv].
  Qed.

  Lemma failing_not_ok e : failing reg v ids e -> forallb (ledger_ok reg v) ids = false.
  Proof.
    intro H. destruct (forallb (ledger_ok reg v) ids) eqn:E; [|reflexivity].
    rewrite forallb_forall in E. destruct e as [k|h]; cbn [failing] in H.
    - destruct H as [Hk Hn]. apply E in Hk. unfold ledger_ok in Hk. rewrite Hn in Hk. discriminate.
    - destruct H as [k [Hk [Hh Hv]]]. apply E in Hk. unfold ledger_ok in Hk. rewrite Hh in Hk. congruence.
  Qed.

  (* the result, under every schedule: nil iff every distinct ledger is registered and every call
     succeeded; an error is the error of a ledger that really failed *)
  Lemma adj_result sched s tr : adj_run m reg v ids sched = (s, tr) ->
    forall r, d_ret s = Some r ->
    (r = None <-> forallb (ledger_ok reg v) ids = true) /\
    (forall e, r = Some e -> failing reg v ids e).
  Proof.
    intros H r ER. pose proof (adj_run_inv sched) as I. rewrite H in I. cbn [fst snd] in I.
    destruct I as [ID _ _ _ _ _ _ _]. destruct r as [e|].
    - destruct (dinv_ret_err v ts s e ID ER) as [t [Ht [_ He]]].
      pose proof (tres_failing t e Ht He) as HF. split.
      + split; [discriminate|]. intro HA. rewrite (failing_not_ok e HF) in HA. discriminate.
      + intros e' He'. injection He' as <-. exact HF.
    - destruct (dinv_ret_ok v ts s ID ER) as [_ [_ [_ [_ HA]]]]. split.
      + split; [intros _; apply all_ok_iff; exact HA|reflexivity].
      + intros e He. discriminate.
  Qed.

  (* a nil return happens after every sub-call has returned successfully *)
  Lemma adj_ok_after_all sched s tr : adj_run m reg v ids sched = (s, tr) ->
    forall pre post, tr = pre ++ ERet OOk :: post ->
    forall k, In k ids -> exists h, reg_lookup reg k = Some h /\ v h = true /\ In (EEnd m k h true) pre.
  Proof.
    intro H. pose proof (adj_run_inv sched) as I. rewrite H in I. cbn [fst snd] in I.
    destruct I as [_ _ _ _ _ _ _ HSy]. exact HSy.
  Qed.

  (* the method returns at most once and the ERet event carries the returned value *)
  Lemma adj_ret_event sched s tr : adj_run m reg v ids sched = (s, tr) ->
    countb is_ret tr = (if d_ret s then 1 else 0) /\
    (forall o, In (ERet o) tr -> exists r, d_ret s = Some r /\ o = out_of r).
  Proof.
    intro H. pose proof (adj_run_inv sched) as I. rewrite H in I. cbn [fst snd] in I.
    destruct I as [_ _ _ _ _ HN HR _]. split; assumption.
  Qed.
End Adjudicator.

(* ---------- facts used by the funder ---------- *)

Lemma dinv_init v reg ids : dinv v (tasks_of reg ids) (d_init reg ids).
Proof.
  constructor; cbn [d_init d_new d_run d_done d_ret d_queue d_left app].
  - rewrite app_nil_r. apply Permutation_refl.
  - constructor.
  - exists []. split; [reflexivity|]. split; [constructor|]. rewrite tasks_of_length. reflexivity.
Qed.

Lemma done_logged_mono m v s tr ev : done_logged m v s tr -> done_logged m v s (tr ++ ev).
Proof. intros H k h Hin. apply in_or_app. left. apply H. exact Hin. Qed.

Lemma ev_legit_incl m reg v ids1 ids2 ev : incl ids1 ids2 -> ev_legit m reg v ids1 ev -> ev_legit m reg v ids2 ev.
Proof.
  intros HI H. destruct ev as [m' k h|m' k h ok|o]; cbn [ev_legit] in *.
  - destruct H as [H1 [H2 H3]]. auto.
  - destruct H as [H1 [H2 [H3 H4]]]. auto.
  - exact H.
Qed.

Lemma failing_incl reg v ids1 ids2 e : incl ids1 ids2 -> failing reg v ids1 e -> failing reg v ids2 e.
Proof.
  intros HI H. destruct e as [k|h]; cbn [failing] in *.
  - destruct H. auto.
  - destruct H as [k [H1 H2]]. exists k. auto.
Qed.

Lemma creg_tasks_app reg l1 l2 k : creg k (tasks_of reg (l1 ++ l2)) = creg k (tasks_of reg l1) + creg k (tasks_of reg l2).
Proof. unfold tasks_of, creg. rewrite map_app, countb_app. reflexivity. Qed.

(* ---------- the split of Fund ---------- *)

Definition shift_ego (ego : option Z) (i : Z) : option Z :=
  match ego with Some x => Some (x - i)%Z | None => None end.

Lemma split_loop_spec ego : forall ids i e0 ne0,
  split_loop ego i ids e0 ne0 = (e0 ++ ego_sel (shift_ego ego i) ids, ne0 ++ ego_rest (shift_ego ego i) ids).
Proof.
  induction ids as [|l r IH]; intros i e0 ne0; cbn [split_loop].
  - destruct ego as [x|]; cbn [shift_ego ego_sel ego_rest].
    + destruct (0 <=? x - i)%Z.
      * destruct (Z.to_nat (x - i)); cbn [nth_error firstn skipn app]; rewrite !app_nil_r; reflexivity.
      * rewrite !app_nil_r. reflexivity.
    + rewrite !app_nil_r. reflexivity.
  - destruct ego as [x|]; cbn [shift_ego ego_sel ego_rest].
    + destruct (Z.eqb_spec x i) as [->|N].
      * rewrite IH. cbn [shift_ego ego_sel ego_rest].
        replace (i - i)%Z with 0%Z by lia. replace (i - (i + 1))%Z with (-1)%Z by lia.
        cbn [Z.leb Z.compare Z.to_nat nth_error firstn skipn app]. rewrite <- !app_assoc. reflexivity.
      * rewrite IH. cbn [shift_ego ego_sel ego_rest].
        destruct (0 <=? x - i)%Z eqn:E1.
        -- assert (E2 : (0 <=? x - (i + 1))%Z = true) by lia. rewrite E2.
           assert (E3 : Z.to_nat (x - i) = S (Z.to_nat (x - (i + 1)))) by lia. rewrite E3.
           cbn [nth_error firstn skipn app]. rewrite <- !app_assoc. reflexivity.
        -- assert (E2 : (0 <=? x - (i + 1))%Z = false) by lia. rewrite E2.
           rewrite <- !app_assoc. reflexivity.
    + rewrite IH. cbn [shift_ego ego_sel ego_rest]. rewrite <- !app_assoc. reflexivity.
Qed.

Lemma fund_split_spec ego ids : fund_split ego ids = (ego_sel ego ids, ego_rest ego ids).
Proof.
  unfold fund_split. rewrite split_loop_spec. cbn [app].
  destruct ego as [x|]; cbn [shift_ego]; [|reflexivity]. rewrite Z.sub_0_r. reflexivity.
Qed.

Lemma ego_split_perm ego ids : Permutation (ego_sel ego ids ++ ego_rest ego ids) ids.
Proof.
  destruct ego as [x|]; cbn [ego_sel ego_rest]; [|apply Permutation_refl].
  destruct (0 <=? x)%Z; [|apply Permutation_refl].
  destruct (nth_error ids (Z.to_nat x)) as [k|] eqn:E.
  - apply nth_error_split in E. destruct E as [l1 [l2 [-> HL]]].
    rewrite <- HL. rewrite firstn_app, Nat.sub_diag, firstn_all. cbn [firstn]. rewrite app_nil_r.
    replace (S (length l1)) with (length l1 + 1) by lia.
    rewrite skipn_app. replace (length l1 + 1 - length l1) with 1 by lia.
    rewrite skipn_all2 by lia. cbn [skipn app].
    apply Permutation_middle.
  - apply nth_error_None in E. rewrite firstn_all2 by lia. rewrite skipn_all2 by lia.
    cbn [app]. rewrite app_nil_r. apply Permutation_refl.
Qed.

Lemma ego_sel_cases ego ids :
  ego_sel ego ids = [] \/ exists k, ego_sel ego ids = [k] /\ In k ids.
Proof.
  destruct ego as [x|]; cbn [ego_sel]; [|left; reflexivity].
  destruct (0 <=? x)%Z; [|left; reflexivity].
  destruct (nth_error ids (Z.to_nat x)) as [k|] eqn:E; [|left; reflexivity].
  right. exists k. split; [reflexivity|]. eapply nth_error_In. exact E.
Qed.

(* ---------- Funder.Fund ---------- *)

Section Funder.
  Variable v : hid -> bool.
  Variable reg : registry.
  Variables e ne : list key.       (* egoisticLedgers, nonEgoisticLedgers *)
  Hypothesis nd : NoDup (e ++ ne).
  Let ts1 := tasks_of reg ne.
  Let ts2 := tasks_of reg e.

  Lemma e_ne_disjoint k : In k e -> In k ne -> False.
  Proof.
    intros H1 H2. clear ts1 ts2. induction e as [|x e' IH]; [contradiction|].
    cbn [app] in nd. inversion nd as [|? ? Hx ND]; subst. destruct H1 as [->|H1].
    - apply Hx. apply in_or_app. right. exact H2.
    - apply IH; assumption.
  Qed.

  Definition c2s (k : key) (s : fstate) : nat :=
    match f_p2 s with None => 0 | Some p2 => creg k (d_run p2 ++ d_done p2) end.
  Definition c2e (k : key) (s : fstate) : nat :=
    match f_p2 s with None => 0 | Some p2 => creg k (d_done p2) end.

  Definition all_ended (ks : list key) (tr : list event) : Prop :=
    forall k, In k ks -> exists h, reg_lookup reg k = Some h /\ v h = true /\ In (EEnd MFund k h true) tr.

  Record finv (s : fstate) (tr : list event) : Prop := mkFinv {
    fi_d1 : dinv v ts1 (f_p1 s);
    fi_d2 : match f_p2 s with None => True | Some p2 => dinv v ts2 p2 /\ d_ret (f_p1 s) = Some None end;
    fi_ret : match f_ret s with
             | None => match f_p2 s with None => d_ret (f_p1 s) = None | Some p2 => d_ret p2 = None end
             | Some OOk => exists p2, f_p2 s = Some p2 /\ d_ret p2 = Some None
             | Some (OErr er) => (f_p2 s = None /\ d_ret (f_p1 s) = Some (Some er)) \/
                                 (exists p2, f_p2 s = Some p2 /\ d_ret p2 = Some (Some er))
             | Some _ => False
             end;
    fi_starts : forall k, count_start k tr = creg k (d_run (f_p1 s) ++ d_done (f_p1 s)) + c2s k s;
    fi_ends : forall k, count_end k tr = creg k (d_done (f_p1 s)) + c2e k s;
    fi_legit : Forall (ev_legit MFund reg v (e ++ ne)) tr;
    fi_log1 : done_logged MFund v (f_p1 s) tr;
    fi_log2 : match f_p2 s with None => True | Some p2 => done_logged MFund v p2 tr end;
    fi_nret : countb is_ret tr = if f_ret s then 1 else 0;
    fi_retev : forall o, In (ERet o) tr -> f_ret s = Some o;
    fi_ego : forall pre post m' k h, tr = pre ++ EStart m' k h :: post -> In k e -> all_ended ne pre;
    fi_sync : forall pre post, tr = pre ++ ERet OOk :: post -> all_ended (e ++ ne) pre }.

  Lemma finv_init : finv (f_init reg ne) [].
  Proof.
    unfold f_init. constructor; cbn [f_p1 f_p2 f_ret d_init d_new d_run d_done d_ret app].
    - apply dinv_init.
    - exact I.
    - reflexivity.
    - intro k. reflexivity.
    - intro k. reflexivity.
    - constructor.
    - intros k h [].
    - exact I.
    - reflexivity.
    - intros o [].
    - intros pre post m' k h H. destruct pre; discriminate.
    - intros pre post H. destruct pre; discriminate.
  Qed.

  Lemma fstep_F1_task s l : l <> SRecv ->
    fstep v reg e s (F1 l) =
    (mkF (fst (dstep MFund v (f_p1 s) l)) (f_p2 s) (f_ret s), snd (dstep MFund v (f_p1 s) l)).
  Proof.
    intro H. destruct l; [| |congruence]; cbn [fstep]; destruct (dstep MFund v (f_p1 s) _); reflexivity.
  Qed.

  Lemma fstep_F2_task s l : l <> SRecv ->
    fstep v reg e s (F2 l) =
    match f_p2 s with
    | None => (s, [])
    | Some p2 => (mkF (f_p1 s) (Some (fst (dstep MFund v p2 l))) (f_ret s), snd (dstep MFund v p2 l))
    end.
  Proof.
    intro H. destruct l; [| |congruence]; cbn [fstep]; destruct (f_p2 s) as [p2|]; try reflexivity;
      destruct (dstep MFund v p2 _); reflexivity.
  Qed.

  Lemma ne_all_ended p1 tr : dinv v ts1 p1 -> done_logged MFund v p1 tr -> d_ret p1 = Some None ->
    all_ended ne tr.
  Proof. intros ID HL ER k Hk. exact (ok_all MFund v reg ne p1 tr ID HL ER k Hk). Qed.

  Lemma e_all_ended p2 tr : dinv v ts2 p2 -> done_logged MFund v p2 tr -> d_ret p2 = Some None ->
    all_ended e tr.
  Proof. intros ID HL ER k Hk. exact (ok_all MFund v reg e p2 tr ID HL ER k Hk). Qed.

  Lemma dev_ok_in_new ids p x : dinv v (tasks_of reg ids) p -> dev_ok MFund v p x ->
    ev_legit MFund reg v ids x /\ (forall m' k h, x = EStart m' k h -> In k ids) /\ is_ret x = false.
  Proof.
    intros ID H. split; [exact (dev_ok_legit MFund v reg ids p x ID H)|]. split.
    - intros m' k h ->. pose proof (dev_ok_legit MFund v reg ids p _ ID H) as HL.
      cbn [ev_legit] in HL. tauto.
    - destruct x; cbn [dev_ok] in H; [reflexivity|reflexivity|contradiction].
  Qed.

  (* a step of a goroutine of phase 1 *)
  Lemma finv_F1_task s tr l : l <> SRecv -> finv s tr ->
    finv (fst (fstep v reg e s (F1 l))) (tr ++ snd (fstep v reg e s (F1 l))).
  Proof.
    intros NR [D1 D2 FR HS HE HLg L1 L2 HN HRe HEgo HSy]. rewrite (fstep_F1_task s l NR). cbn [fst snd].
    pose proof (dstep_task_ret MFund v (f_p1 s) l NR) as ER.
    pose proof (dstep_events MFund v (f_p1 s) l) as HEV.
    set (p1' := fst (dstep MFund v (f_p1 s) l)) in *. set (ev := snd (dstep MFund v (f_p1 s) l)) in *.
    constructor; cbn [f_p1 f_p2 f_ret]; unfold c2s, c2e; cbn [f_p2].
    - apply dinv_step. exact D1.
    - destruct (f_p2 s) as [p2|]; [|exact I]. rewrite ER. exact D2.
    - rewrite ER. exact FR.
    - intro k. unfold count_start. rewrite countb_app. fold (count_start k tr) (count_start k ev).
      unfold ev, p1'. rewrite <- (dstep_starts MFund v (f_p1 s) l k), HS. unfold c2s. lia.
    - intro k. unfold count_end. rewrite countb_app. fold (count_end k tr) (count_end k ev).
      unfold ev, p1'. rewrite <- (dstep_ends MFund v (f_p1 s) l k), HE. unfold c2e. lia.
    - apply Forall_app. split; [exact HLg|]. destruct HEV as [->|[x [-> Hx]]]; [constructor|].
      constructor; [|constructor]. apply (ev_legit_incl MFund reg v ne); [apply incl_appr, incl_refl|].
      exact (proj1 (dev_ok_in_new ne _ x D1 Hx)).
    - apply done_logged_step. exact L1.
    - destruct (f_p2 s) as [p2|]; [|exact I]. apply done_logged_mono. exact L2.
    - rewrite countb_app, HN. destruct HEV as [->|[x [-> Hx]]]; [rewrite countb_nil; lia|].
      rewrite countb_cons, countb_nil. rewrite (proj2 (proj2 (dev_ok_in_new ne _ x D1 Hx))). lia.
    - intros o Ho. apply in_app_or in Ho. destruct Ho as [Ho|Ho]; [auto|].
      destruct HEV as [E|[x [E Hx]]]; rewrite E in Ho; [contradiction|]. destruct Ho as [->|[]].
      pose proof (proj2 (proj2 (dev_ok_in_new ne _ _ D1 Hx))). discriminate.
    - intros pre post m' k h Hsp Hk. destruct HEV as [E|[x [E Hx]]]; rewrite E in Hsp.
      + rewrite app_nil_r in Hsp. eapply HEgo; eassumption.
      + apply app_single_split in Hsp. destruct Hsp as [[_ [_ Hx']]|[post' [_ Htr]]].
        * exfalso. apply (e_ne_disjoint k Hk).
          exact (proj1 (proj2 (dev_ok_in_new ne _ x D1 Hx)) m' k h (eq_sym Hx')).
        * eapply HEgo; eassumption.
    - intros pre post Hsp. destruct HEV as [E|[x [E Hx]]]; rewrite E in Hsp.
      + rewrite app_nil_r in Hsp. eapply HSy; eassumption.
      + apply app_single_split in Hsp. destruct Hsp as [[_ [_ Hx']]|[post' [_ Htr]]].
        * pose proof (proj2 (proj2 (dev_ok_in_new ne _ x D1 Hx))) as Hr. rewrite <- Hx' in Hr. discriminate.
        * eapply HSy; eassumption.
  Qed.

  (* a step of a goroutine of phase 2 *)
  Lemma finv_F2_task s tr l : l <> SRecv -> finv s tr ->
    finv (fst (fstep v reg e s (F2 l))) (tr ++ snd (fstep v reg e s (F2 l))).
  Proof.
    intros NR IV. rewrite (fstep_F2_task s l NR).
    destruct (f_p2 s) as [p2|] eqn:EP; [|cbn [fst snd]; rewrite app_nil_r; exact IV].
    destruct IV as [D1 D2 FR HS HE HLg L1 L2 HN HRe HEgo HSy]. rewrite EP in *. cbn [fst snd].
    destruct D2 as [D2 R1].
    pose proof (dstep_task_ret MFund v p2 l NR) as ER.
    pose proof (dstep_events MFund v p2 l) as HEV.
    set (p2' := fst (dstep MFund v p2 l)) in *. set (ev := snd (dstep MFund v p2 l)) in *.
    constructor; cbn [f_p1 f_p2 f_ret]; unfold c2s, c2e; cbn [f_p2].
    - exact D1.
    - split; [apply dinv_step; exact D2|exact R1].
    - rewrite ER. destruct (f_ret s) as [[| | |er|]|]; try assumption.
      + destruct FR as [q [Hq1 Hq2]]. injection Hq1 as <-. exists p2'. split; [reflexivity|]. rewrite ER. exact Hq2.
      + destruct FR as [[Hq _]|[q [Hq1 Hq2]]]; [discriminate|]. injection Hq1 as <-.
        right. exists p2'. split; [reflexivity|]. rewrite ER. exact Hq2.
    - intro k. unfold count_start. rewrite countb_app. fold (count_start k tr) (count_start k ev).
      unfold ev, p2'. rewrite <- (dstep_starts MFund v p2 l k), HS. unfold c2s. rewrite EP. lia.
    - intro k. unfold count_end. rewrite countb_app. fold (count_end k tr) (count_end k ev).
      unfold ev, p2'. rewrite <- (dstep_ends MFund v p2 l k), HE. unfold c2e. rewrite EP. lia.
    - apply Forall_app. split; [exact HLg|]. destruct HEV as [->|[x [-> Hx]]]; [constructor|].
      constructor; [|constructor]. apply (ev_legit_incl MFund reg v e); [apply incl_appl, incl_refl|].
      exact (proj1 (dev_ok_in_new e _ x D2 Hx)).
    - apply done_logged_mono. exact L1.
    - apply done_logged_step. exact L2.
    - rewrite countb_app, HN. destruct HEV as [->|[x [-> Hx]]]; [rewrite countb_nil; lia|].
      rewrite countb_cons, countb_nil. rewrite (proj2 (proj2 (dev_ok_in_new e _ x D2 Hx))). lia.
    - intros o Ho. apply in_app_or in Ho. destruct Ho as [Ho|Ho]; [auto|].
      destruct HEV as [E|[x [E Hx]]]; rewrite E in Ho; [contradiction|]. destruct Ho as [->|[]].
      pose proof (proj2 (proj2 (dev_ok_in_new e _ _ D2 Hx))). discriminate.
    - intros pre post m' k h Hsp Hk. destruct HEV as [E|[x [E Hx]]]; rewrite E in Hsp.
      + rewrite app_nil_r in Hsp. eapply HEgo; eassumption.
      + apply app_single_split in Hsp. destruct Hsp as [[_ [-> _]]|[post' [_ Htr]]].
        * exact (ne_all_ended (f_p1 s) tr D1 L1 R1).
        * eapply HEgo; eassumption.
    - intros pre post Hsp. destruct HEV as [E|[x [E Hx]]]; rewrite E in Hsp.
      + rewrite app_nil_r in Hsp. eapply HSy; eassumption.
      + apply app_single_split in Hsp. destruct Hsp as [[_ [_ Hx']]|[post' [_ Htr]]].
        * pose proof (proj2 (proj2 (dev_ok_in_new e _ x D2 Hx))) as Hr. rewrite <- Hx' in Hr. discriminate.
        * eapply HSy; eassumption.
  Qed.

  Lemma ret_ev_tail (tr : list event) (o : outcome) :
    (forall k, count_start k (tr ++ [ERet o]) = count_start k tr) /\
    (forall k, count_end k (tr ++ [ERet o]) = count_end k tr) /\
    countb is_ret (tr ++ [ERet o]) = countb is_ret tr + 1.
  Proof.
    split; [|split]; intros; unfold count_start, count_end; rewrite countb_app, countb_cons, countb_nil;
      cbn [is_start_of is_end_of is_ret]; lia.
  Qed.

  (* an iteration of the collecting loop of phase 1 (incl. the start of phase 2 / the error return) *)
  Lemma finv_F1_recv s tr : finv s tr ->
    finv (fst (fstep v reg e s (F1 SRecv))) (tr ++ snd (fstep v reg e s (F1 SRecv))).
  Proof.
    intro IV. cbn [fstep].
    destruct (f_ret s) as [o|] eqn:EF; [cbn [fst snd]; rewrite app_nil_r; exact IV|].
    destruct (f_p2 s) as [p2|] eqn:EP; [cbn [fst snd]; rewrite app_nil_r; exact IV|].
    destruct IV as [D1 D2 FR HS HE HLg L1 L2 HN HRe HEgo HSy].
    unfold c2s, c2e in HS, HE. rewrite EP in HS, HE, FR. rewrite EF in FR, HN. clear D2 L2.
    destruct (dstep_recv_tasks MFund v (f_p1 s)) as [E1 [E2 [E3 E4]]].
    pose proof (dinv_step MFund v ts1 (f_p1 s) SRecv D1) as D1'.
    set (p1' := fst (dstep MFund v (f_p1 s) SRecv)) in *.
    assert (L1' : done_logged MFund v p1' tr) by (unfold done_logged; rewrite E3; exact L1).
    destruct (d_ret p1') as [[er|]|] eqn:ER'; cbn [fst snd].
    - (* return err *)
      destruct (ret_ev_tail tr (OErr er)) as [TS [TE TR]].
      constructor; cbn [f_p1 f_p2 f_ret]; unfold c2s, c2e; cbn [f_p2].
      + exact D1'.
      + exact I.
      + left. split; [reflexivity|exact ER'].
      + intro k. rewrite TS, E2, E3. apply HS.
      + intro k. rewrite TE, E3. apply HE.
      + apply Forall_app. split; [exact HLg|]. constructor; [exact I|constructor].
      + apply done_logged_mono. exact L1'.
      + exact I.
      + rewrite TR, HN. reflexivity.
      + intros o Ho. apply in_app_or in Ho. destruct Ho as [Ho|[Ho|[]]].
        * apply HRe in Ho. congruence.
        * injection Ho as <-. reflexivity.
      + intros pre post m' k h Hsp Hk. apply app_single_split in Hsp.
        destruct Hsp as [[_ [_ Hx]]|[post' [_ Htr]]]; [discriminate|]. eapply HEgo; eassumption.
      + intros pre post Hsp. apply app_single_split in Hsp.
        destruct Hsp as [[_ [_ Hx]]|[post' [_ Htr]]]; [discriminate|]. eapply HSy; eassumption.
    - (* return nil: phase 2 starts *)
      rewrite app_nil_r. constructor; cbn [f_p1 f_p2 f_ret]; unfold c2s, c2e; cbn [f_p2].
      + exact D1'.
      + split; [apply dinv_init|exact ER'].
      + reflexivity.
      + intro k. rewrite E2, E3, HS. reflexivity.
      + intro k. rewrite E3, HE. reflexivity.
      + exact HLg.
      + exact L1'.
      + intros k h [].
      + exact HN.
      + intros o Ho. apply HRe in Ho. congruence.
      + exact HEgo.
      + exact HSy.
    - (* a nil received, or blocked *)
      rewrite app_nil_r. constructor; cbn [f_p1 f_p2 f_ret]; unfold c2s, c2e; cbn [f_p2].
      + exact D1'.
      + exact I.
      + exact ER'.
      + intro k. rewrite E2, E3, HS. reflexivity.
      + intro k. rewrite E3, HE. reflexivity.
      + exact HLg.
      + exact L1'.
      + exact I.
      + exact HN.
      + intros o Ho. apply HRe in Ho. congruence.
      + exact HEgo.
      + exact HSy.
  Qed.

  (* an iteration of the collecting loop of phase 2 (incl. the return of Fund) *)
  Lemma finv_F2_recv s tr : finv s tr ->
    finv (fst (fstep v reg e s (F2 SRecv))) (tr ++ snd (fstep v reg e s (F2 SRecv))).
  Proof.
    intro IV. cbn [fstep].
    destruct (f_ret s) as [o|] eqn:EF; [cbn [fst snd]; rewrite app_nil_r; exact IV|].
    destruct (f_p2 s) as [p2|] eqn:EP; [|cbn [fst snd]; rewrite app_nil_r; exact IV].
    destruct IV as [D1 D2 FR HS HE HLg L1 L2 HN HRe HEgo HSy].
    unfold c2s, c2e in HS, HE. rewrite EP in HS, HE, FR, D2, L2. rewrite EF in FR, HN.
    destruct D2 as [D2 R1].
    destruct (dstep_recv_tasks MFund v p2) as [E1 [E2 [E3 E4]]].
    pose proof (dinv_step MFund v ts2 p2 SRecv D2) as D2'.
    set (p2' := fst (dstep MFund v p2 SRecv)) in *.
    assert (L2' : done_logged MFund v p2' tr) by (unfold done_logged; rewrite E3; exact L2).
    destruct (d_ret p2') as [[er|]|] eqn:ER'; cbn [fst snd].
    - (* return err *)
      destruct (ret_ev_tail tr (OErr er)) as [TS [TE TR]].
      constructor; cbn [f_p1 f_p2 f_ret]; unfold c2s, c2e; cbn [f_p2].
      + exact D1.
      + split; [exact D2'|exact R1].
      + right. exists p2'. split; [reflexivity|exact ER'].
      + intro k. rewrite TS, E2, E3. apply HS.
      + intro k. rewrite TE, E3. apply HE.
      + apply Forall_app. split; [exact HLg|]. constructor; [exact I|constructor].
      + apply done_logged_mono. exact L1.
      + apply done_logged_mono. exact L2'.
      + rewrite TR, HN. reflexivity.
      + intros o Ho. apply in_app_or in Ho. destruct Ho as [Ho|[Ho|[]]].
        * apply HRe in Ho. congruence.
        * injection Ho as <-. reflexivity.
      + intros pre post m' k h Hsp Hk. apply app_single_split in Hsp.
        destruct Hsp as [[_ [_ Hx]]|[post' [_ Htr]]]; [discriminate|]. eapply HEgo; eassumption.
      + intros pre post Hsp. apply app_single_split in Hsp.
        destruct Hsp as [[_ [_ Hx]]|[post' [_ Htr]]]; [discriminate|]. eapply HSy; eassumption.
    - (* return nil *)
      destruct (ret_ev_tail tr OOk) as [TS [TE TR]].
      constructor; cbn [f_p1 f_p2 f_ret]; unfold c2s, c2e; cbn [f_p2].
      + exact D1.
      + split; [exact D2'|exact R1].
      + exists p2'. split; [reflexivity|exact ER'].
      + intro k. rewrite TS, E2, E3. apply HS.
      + intro k. rewrite TE, E3. apply HE.
      + apply Forall_app. split; [exact HLg|]. constructor; [exact I|constructor].
      + apply done_logged_mono. exact L1.
      + apply done_logged_mono. exact L2'.
      + rewrite TR, HN. reflexivity.
      + intros o Ho. apply in_app_or in Ho. destruct Ho as [Ho|[Ho|[]]].
        * apply HRe in Ho. congruence.
        * injection Ho as <-. reflexivity.
      + intros pre post m' k h Hsp Hk. apply app_single_split in Hsp.
        destruct Hsp as [[_ [_ Hx]]|[post' [_ Htr]]]; [discriminate|]. eapply HEgo; eassumption.
      + intros pre post Hsp. apply app_single_split in Hsp.
        destruct Hsp as [[_ [-> _]]|[post' [_ Htr]]]; [|eapply HSy; eassumption].
        intros k Hk. apply in_app_or in Hk. destruct Hk as [Hk|Hk].
        * exact (e_all_ended p2' tr D2' L2' ER' k Hk).
        * exact (ne_all_ended (f_p1 s) tr D1 L1 R1 k Hk).
    - rewrite app_nil_r. constructor; cbn [f_p1 f_p2 f_ret]; unfold c2s, c2e; cbn [f_p2].
      + exact D1.
      + split; [exact D2'|exact R1].
      + exact ER'.
      + intro k. rewrite E2, E3. apply HS.
      + intro k. rewrite E3. apply HE.
      + exact HLg.
      + exact L1.
      + exact L2'.
      + exact HN.
      + intros o Ho. apply HRe in Ho. congruence.
      + exact HEgo.
      + exact HSy.
  Qed.

  Lemma finv_step s tr l : finv s tr ->
    finv (fst (fstep v reg e s l)) (tr ++ snd (fstep v reg e s l)).
  Proof.
    intro IV. destruct l as [l|l]; destruct (dlabel_eq_recv l) as [->|NR].
    - apply finv_F1_recv. exact IV.
    - apply finv_F1_task; assumption.
    - apply finv_F2_recv. exact IV.
    - apply finv_F2_task; assumption.
  Qed.

  Lemma fund_run_inv sched :
    finv (fst (fund_run reg v e ne sched)) (snd (fund_run reg v e ne sched)).
  Proof.
    unfold fund_run. apply (run_inv (fstep v reg e) finv).
    - intros s tr l H. apply finv_step. exact H.
    - apply finv_init.
  Qed.
End Funder.

(* ---------- consequences for Fund ---------- *)

Lemma creg_le_ts v ts s k : dinv v ts s -> creg k (d_run s ++ d_done s) <= creg k ts.
Proof.
  intros [HP _ _]. unfold creg. rewrite <- (countb_perm _ _ _ HP), !countb_app. apply Nat.le_add_l.
Qed.

Lemma creg_eq_ts v ts s k : dinv v ts s -> d_new s = [] -> creg k (d_run s ++ d_done s) = creg k ts.
Proof.
  intros [HP _ _] HN. unfold creg. rewrite <- (countb_perm _ _ _ HP), HN. reflexivity.
Qed.

Lemma kmem_ext k l1 l2 : (forall x, In x l1 <-> In x l2) -> kmem k l1 = kmem k l2.
Proof.
  intro H. destruct (kmem k l2) eqn:E.
  - apply kmem_In. apply H. apply kmem_In. exact E.
  - apply kmem_not_In. intro Hin. apply H in Hin. apply kmem_In in Hin. congruence.
Qed.

Lemma forallb_in_ext {A} (f : A -> bool) l1 l2 : (forall x, In x l1 <-> In x l2) -> forallb f l1 = forallb f l2.
Proof.
  intro H. destruct (forallb f l2) eqn:E.
  - rewrite forallb_forall in *. intros x Hx. apply E. apply H. exact Hx.
  - destruct (forallb f l1) eqn:E1; [|reflexivity]. rewrite <- E. symmetry.
    rewrite forallb_forall in *. intros x Hx. apply E1. apply H. exact Hx.
Qed.

Section FunderResults.
  Variable v : hid -> bool.
  Variable reg : registry.
  Variable ego : option Z.
  Variable ids : list key.
  Hypothesis ids_nodup : NoDup ids.
  Let e := ego_sel ego ids.
  Let ne := ego_rest ego ids.

  Lemma nd_split : NoDup (e ++ ne).
  Proof. eapply Permutation_NoDup; [symmetry; apply ego_split_perm|exact ids_nodup]. Qed.

  Lemma in_split k : In k (e ++ ne) <-> In k ids.
  Proof.
    split; intro H.
    - eapply Permutation_in; [apply ego_split_perm|exact H].
    - eapply Permutation_in; [symmetry; apply ego_split_perm|exact H].
  Qed.

  Lemma creg_split k :
    creg k (tasks_of reg ne) + creg k (tasks_of reg e) = if kmem k ids && registered reg k then 1 else 0.
  Proof.
    rewrite Nat.add_comm, <- creg_tasks_app, (creg_tasks_of reg (e ++ ne) k nd_split).
    rewrite (kmem_ext k (e ++ ne) ids in_split). reflexivity.
  Qed.

  Lemma creg_only_ne k : In k ne -> creg k (tasks_of reg e) = 0.
  Proof.
    intro H. apply creg_zero. intros t Ht Hk. apply tasks_of_In in Ht. destruct Ht as [Ht _].
    rewrite Hk in Ht. exact (e_ne_disjoint e ne nd_split k Ht H).
  Qed.

  Lemma creg_only_e k : In k e -> creg k (tasks_of reg ne) = 0.
  Proof.
    intro H. apply creg_zero. intros t Ht Hk. apply tasks_of_In in Ht. destruct Ht as [Ht _].
    rewrite Hk in Ht. exact (e_ne_disjoint e ne nd_split k H Ht).
  Qed.

  Lemma c2s_le s tr k : finv v reg e ne s tr -> c2s k s <= creg k (tasks_of reg e).
  Proof.
    intros [_ D2 _ _ _ _ _ _ _ _ _ _]. unfold c2s. destruct (f_p2 s) as [p2|]; [|lia].
    destruct D2 as [D2 _]. apply (creg_le_ts v _ p2 k D2).
  Qed.

  (* safety under every schedule, at every moment *)
  Lemma fund_calls_safe sched s tr : fund_run reg v e ne sched = (s, tr) ->
    (forall k, count_start k tr <= if kmem k ids && registered reg k then 1 else 0) /\
    (forall k, count_end k tr <= count_start k tr) /\
    Forall (ev_legit MFund reg v ids) tr.
  Proof.
    intro H. pose proof (fund_run_inv v reg e ne nd_split sched) as IV. rewrite H in IV. cbn [fst snd] in IV.
    pose proof IV as [D1 D2 _ HS HE HLg _ _ _ _ _ _]. split; [|split].
    - intro k. rewrite HS, <- creg_split.
      pose proof (creg_le_ts v _ (f_p1 s) k D1). pose proof (c2s_le s tr k IV). lia.
    - intro k. rewrite HS, HE. unfold c2s, c2e, creg. rewrite countb_app.
      destruct (f_p2 s) as [p2|]; [rewrite countb_app|]; lia.
    - eapply Forall_impl; [|exact HLg]. intros x Hx.
      eapply ev_legit_incl; [|exact Hx]. intros k Hk. apply in_split. exact Hk.
  Qed.

  (* phase 2 was started iff phase 1 returned nil, i.e. all other ledgers are registered and succeeded *)
  Lemma p2_started_ok s tr p2 : finv v reg e ne s tr -> f_p2 s = Some p2 ->
    forallb (ledger_ok reg v) ne = true.
  Proof.
    intros [D1 D2 _ _ _ _ _ _ _ _ _ _] EP. rewrite EP in D2. destruct D2 as [_ R1].
    destruct (dinv_ret_ok v _ (f_p1 s) D1 R1) as [_ [_ [_ [_ HA]]]].
    apply (all_ok_iff v reg ne). exact HA.
  Qed.

  Lemma p2_not_started_failed s tr : finv v reg e ne s tr -> f_p2 s = None -> f_ret s <> None ->
    forallb (ledger_ok reg v) ne = false.
  Proof.
    intros [D1 _ FR _ _ _ _ _ _ _ _ _] EP HR. destruct (f_ret s) as [o|]; [|congruence].
    destruct o as [| | |er|]; try contradiction.
    - destruct FR as [p2 [Hp _]]. congruence.
    - destruct FR as [[_ R1]|[p2 [Hp _]]]; [|congruence].
      destruct (dinv_ret_err v _ (f_p1 s) er D1 R1) as [t [Ht [_ He]]].
      apply (failing_not_ok v reg ne er). exact (tres_failing v reg ne t er Ht He).
  Qed.

  (* exact counts once everything has finished *)
  Lemma fund_calls_exact sched s tr : fund_run reg v e ne sched = (s, tr) -> f_complete s ->
    (forall k, In k ne -> count_start k tr = if registered reg k then 1 else 0) /\
    (forall k, In k e -> count_start k tr = if registered reg k && forallb (ledger_ok reg v) ne then 1 else 0) /\
    (forall k, ~ In k ids -> count_start k tr = 0) /\
    (forall k, count_end k tr = count_start k tr).
  Proof.
    intros H [CR [CN1 [CR1 C2]]].
    pose proof (fund_run_inv v reg e ne nd_split sched) as IV. rewrite H in IV. cbn [fst snd] in IV.
    pose proof IV as [D1 D2 _ HS HE _ _ _ _ _ _ _]. repeat split.
    - intros k Hk. rewrite HS. rewrite (creg_eq_ts v _ (f_p1 s) k D1 CN1).
      pose proof (c2s_le s tr k IV) as H2. rewrite (creg_only_ne k Hk) in H2.
      pose proof (creg_split k) as H3. rewrite (creg_only_ne k Hk) in H3.
      assert (HM : kmem k ids = true) by (apply kmem_In, in_split, in_or_app; right; exact Hk).
      rewrite HM in H3. cbn [andb] in H3. lia.
    - intros k Hk. rewrite HS.
      pose proof (creg_le_ts v _ (f_p1 s) k D1) as H1. rewrite (creg_only_e k Hk) in H1.
      pose proof (creg_split k) as H3. rewrite (creg_only_e k Hk) in H3.
      assert (HM : kmem k ids = true) by (apply kmem_In, in_split, in_or_app; left; exact Hk).
      rewrite HM in H3. cbn [andb] in H3.
      unfold c2s. destruct (f_p2 s) as [p2|] eqn:EP.
      + rewrite (p2_started_ok s tr p2 IV EP), andb_true_r. destruct D2 as [D2 _]. destruct C2 as [CN2 _].
        rewrite (creg_eq_ts v _ p2 k D2 CN2). lia.
      + rewrite (p2_not_started_failed s tr IV EP CR), andb_false_r. lia.
    - intros k Hk. pose proof (fund_calls_safe sched s tr H) as [HSafe _]. specialize (HSafe k).
      assert (HM : kmem k ids = false) by (apply kmem_not_In; exact Hk). rewrite HM in HSafe.
      cbn [andb] in HSafe. lia.
    - intro k. rewrite HS, HE, CR1. cbn [app]. unfold c2s, c2e.
      destruct (f_p2 s) as [p2|]; [|reflexivity]. destruct C2 as [_ CR2]. rewrite CR2. reflexivity.
  Qed.

  (* the result under every schedule *)
  Lemma fund_result sched s tr o : fund_run reg v e ne sched = (s, tr) -> f_ret s = Some o ->
    (o = OOk <-> forallb (ledger_ok reg v) ids = true) /\
    (forall er, o = OErr er -> failing reg v ids er) /\
    (o = OOk \/ exists er, o = OErr er).
  Proof.
    intros H ER.
    pose proof (fund_run_inv v reg e ne nd_split sched) as IV. rewrite H in IV. cbn [fst snd] in IV.
    pose proof IV as [D1 D2 FR _ _ _ _ _ _ _ _ _]. rewrite ER in FR.
    rewrite <- (forallb_in_ext (ledger_ok reg v) (e ++ ne) ids in_split), forallb_app.
    destruct o as [| | |er|]; try contradiction.
    - destruct FR as [p2 [EP R2]]. rewrite EP in D2. destruct D2 as [D2 R1].
      destruct (dinv_ret_ok v _ p2 D2 R2) as [_ [_ [_ [_ HA2]]]].
      apply (all_ok_iff v reg e) in HA2. rewrite HA2, (p2_started_ok s tr p2 IV EP).
      split; [split; reflexivity|]. split; [discriminate|left; reflexivity].
    - assert (HF : failing reg v (e ++ ne) er).
      { destruct FR as [[EP R1]|[p2 [EP R2]]].
        - destruct (dinv_ret_err v _ (f_p1 s) er D1 R1) as [t [Ht [_ He]]].
          apply (failing_incl reg v ne); [apply incl_appr, incl_refl|].
          exact (tres_failing v reg ne t er Ht He).
        - rewrite EP in D2. destruct D2 as [D2 _].
          destruct (dinv_ret_err v _ p2 er D2 R2) as [t [Ht [_ He]]].
          apply (failing_incl reg v e); [apply incl_appl, incl_refl|].
          exact (tres_failing v reg e t er Ht He). }
      split; [|split].
      + split; [discriminate|]. intro HA. rewrite <- forallb_app in HA.
        rewrite (failing_not_ok v reg (e ++ ne) er HF) in HA. discriminate.
      + intros er' Her. injection Her as <-.
        eapply failing_incl; [|exact HF]. intros k Hk. apply in_split. exact Hk.
      + right. exists er. reflexivity.
  Qed.

  (* the selected ledger's funder is entered only after the funders of all other ledgers have returned nil *)
  Lemma fund_ego_order sched s tr : fund_run reg v e ne sched = (s, tr) ->
    forall pre post m' k h, tr = pre ++ EStart m' k h :: post -> In k e ->
    forall k', In k' ne -> exists h', reg_lookup reg k' = Some h' /\ v h' = true /\ In (EEnd MFund k' h' true) pre.
  Proof.
    intro H. pose proof (fund_run_inv v reg e ne nd_split sched) as IV. rewrite H in IV. cbn [fst snd] in IV.
    destruct IV as [_ _ _ _ _ _ _ _ _ _ HEgo _]. intros pre post m' k h Hsp Hk. exact (HEgo pre post m' k h Hsp Hk).
  Qed.

  Lemma fund_ok_after_all sched s tr : fund_run reg v e ne sched = (s, tr) ->
    forall pre post, tr = pre ++ ERet OOk :: post ->
    forall k, In k ids -> exists h, reg_lookup reg k = Some h /\ v h = true /\ In (EEnd MFund k h true) pre.
  Proof.
    intro H. pose proof (fund_run_inv v reg e ne nd_split sched) as IV. rewrite H in IV. cbn [fst snd] in IV.
    destruct IV as [_ _ _ _ _ _ _ _ _ _ _ HSy]. intros pre post Hsp k Hk.
    apply (HSy pre post Hsp k). apply in_split. exact Hk.
  Qed.

  Lemma fund_ret_event sched s tr : fund_run reg v e ne sched = (s, tr) ->
    countb is_ret tr = (if f_ret s then 1 else 0) /\ (forall o, In (ERet o) tr -> f_ret s = Some o).
  Proof.
    intro H. pose proof (fund_run_inv v reg e ne nd_split sched) as IV. rewrite H in IV. cbn [fst snd] in IV.
    destruct IV as [_ _ _ _ _ _ _ _ HN HR _ _]. split; assumption.
  Qed.
End FunderResults.

(* ---------- statements over asset lists (used by Props/C20.v) ---------- *)

Lemma ids_keys_in a ids : ledger_ids a = Ok ids -> forall k, In k ids <-> In k (asset_keys a).
Proof.
  intros H k. destruct (ledger_ids_spec a ids H) as [_ [HI _]]. rewrite HI, asset_keys_In. reflexivity.
Qed.

Lemma ids_all_ok a ids reg v : ledger_ids a = Ok ids ->
  (forallb (ledger_ok reg v) ids = true <-> all_ledgers_ok a reg v).
Proof.
  intro H. destruct (ledger_ids_spec a ids H) as [_ [HI _]]. rewrite forallb_forall. unfold all_ledgers_ok.
  split; intros HA k Hk; apply HA; apply HI; exact Hk.
Qed.

Lemma calls_expected_ids a ids reg k : ledger_ids a = Ok ids ->
  (if kmem k ids && registered reg k then 1 else 0) = calls_expected a reg k.
Proof.
  intro H. unfold calls_expected. rewrite (kmem_ext k ids (asset_keys a) (ids_keys_in a ids H)). reflexivity.
Qed.

Lemma legit_keys m reg v a ids tr : ledger_ids a = Ok ids ->
  Forall (ev_legit m reg v ids) tr -> Forall (ev_legit m reg v (asset_keys a)) tr.
Proof.
  intros H HF. eapply Forall_impl; [|exact HF]. intros x Hx. eapply ev_legit_incl; [|exact Hx].
  intros k Hk. apply (ids_keys_in a ids H). exact Hk.
Qed.

Lemma c20_adj_calls m reg v a ids sched s tr :
  ledger_ids a = Ok ids -> adj_run m reg v ids sched = (s, tr) ->
  (forall k, count_start k tr <= calls_expected a reg k) /\
  (forall k, count_end k tr <= count_start k tr) /\
  Forall (ev_legit m reg v (asset_keys a)) tr /\
  (d_complete s -> forall k, count_start k tr = calls_expected a reg k /\ count_end k tr = calls_expected a reg k).
Proof.
  intros H HR. destruct (ledger_ids_spec a ids H) as [ND _].
  destruct (adj_calls_safe m v reg ids ND sched s tr HR) as [H1 [H2 H3]]. split; [|split; [|split]].
  - intro k. rewrite <- (calls_expected_ids a ids reg k H). apply H1.
  - exact H2.
  - exact (legit_keys m reg v a ids tr H H3).
  - intros C k. rewrite <- (calls_expected_ids a ids reg k H).
    exact (adj_calls_exact m v reg ids ND sched s tr HR C k).
Qed.

Lemma c20_adj_result m reg v a ids sched s tr r :
  ledger_ids a = Ok ids -> adj_run m reg v ids sched = (s, tr) -> d_ret s = Some r ->
  (r = None <-> all_ledgers_ok a reg v) /\
  (forall e, r = Some e -> failing reg v (asset_keys a) e).
Proof.
  intros H HR ER. destruct (adj_result m v reg ids sched s tr HR r ER) as [H1 H2]. split.
  - rewrite H1. apply ids_all_ok. exact H.
  - intros e He. eapply failing_incl; [|exact (H2 e He)]. intros k Hk. apply (ids_keys_in a ids H). exact Hk.
Qed.

Lemma c20_adj_order_independent m reg v a ids sched1 sched2 s1 tr1 s2 tr2 :
  ledger_ids a = Ok ids ->
  adj_run m reg v ids sched1 = (s1, tr1) -> adj_run m reg v ids sched2 = (s2, tr2) ->
  d_complete s1 -> d_complete s2 ->
  (d_ret s1 = Some None <-> d_ret s2 = Some None) /\
  (forall k, count_start k tr1 = count_start k tr2 /\ count_end k tr1 = count_end k tr2).
Proof.
  intros H R1 R2 C1 C2. split.
  - destruct C1 as [_ [_ N1]], C2 as [_ [_ N2]].
    destruct (d_ret s1) as [r1|] eqn:E1; [|congruence]. destruct (d_ret s2) as [r2|] eqn:E2; [|congruence].
    destruct (c20_adj_result m reg v a ids sched1 s1 tr1 r1 H R1 E1) as [A1 _].
    destruct (c20_adj_result m reg v a ids sched2 s2 tr2 r2 H R2 E2) as [A2 _].
    split; intro HH; injection HH as ->; f_equal; [apply A2, A1|apply A1, A2]; reflexivity.
  - intro k. destruct (c20_adj_calls m reg v a ids sched1 s1 tr1 H R1) as [_ [_ [_ X1]]].
    destruct (c20_adj_calls m reg v a ids sched2 s2 tr2 H R2) as [_ [_ [_ X2]]].
    destruct (X1 C1 k) as [-> ->]. destruct (X2 C2 k) as [-> ->]. split; reflexivity.
Qed.

Lemma c20_adj_ok_after_all m reg v a ids sched s tr :
  ledger_ids a = Ok ids -> adj_run m reg v ids sched = (s, tr) ->
  forall pre post, tr = pre ++ ERet OOk :: post ->
  forall k, In (AMulti k) a -> exists h, reg_lookup reg k = Some h /\ v h = true /\ In (EEnd m k h true) pre.
Proof.
  intros H HR pre post Hsp k Hk. destruct (ledger_ids_spec a ids H) as [_ [HI _]].
  apply (adj_ok_after_all m v reg ids sched s tr HR pre post Hsp k). apply HI. exact Hk.
Qed.

(* the exported methods in terms of the runs *)
Lemma adj_call_run m reg v a ids sched : ledger_ids a = Ok ids ->
  adj_call m reg v a sched =
  (snd (adj_run m reg v ids sched), option_map out_of (d_ret (fst (adj_run m reg v ids sched)))).
Proof. intro H. unfold adj_call. rewrite H. destruct (adj_run m reg v ids sched). reflexivity. Qed.

Lemma adj_call_no_ids m reg v a sched : (forall ids, ledger_ids a <> Ok ids) ->
  exists o, adj_call m reg v a sched = ([ERet o], Some o) /\ (o = OErrAsset \/ o = OPanic).
Proof.
  intro H. unfold adj_call. destruct (ledger_ids a) as [ids| |].
  - exfalso. apply (H ids). reflexivity.
  - exists OErrAsset. auto.
  - exists OPanic. auto.
Qed.

Lemma fund_call_run reg ego v a ids sched : ledger_ids a = Ok ids ->
  fund_call reg ego false v a sched =
  (snd (fund_run reg v (ego_sel ego ids) (ego_rest ego ids) sched),
   f_ret (fst (fund_run reg v (ego_sel ego ids) (ego_rest ego ids) sched))).
Proof.
  intro H. unfold fund_call. rewrite H, fund_split_spec.
  destruct (fund_run reg v (ego_sel ego ids) (ego_rest ego ids) sched). reflexivity.
Qed.

Lemma fund_call_no_ids reg ego too_long v a sched : too_long = true \/ (forall ids, ledger_ids a <> Ok ids) ->
  exists o, fund_call reg ego too_long v a sched = ([ERet o], Some o) /\ (o = OErrDuration \/ o = OErrAsset \/ o = OPanic).
Proof.
  intro H. unfold fund_call. destruct too_long; [exists OErrDuration; auto|].
  destruct H as [H|H]; [discriminate|]. destruct (ledger_ids a) as [ids| |].
  - exfalso. apply (H ids). reflexivity.
  - exists OErrAsset. auto.
  - exists OPanic. auto.
Qed.

Lemma c20_fund_calls reg ego v a ids sched s tr :
  ledger_ids a = Ok ids -> fund_run reg v (ego_sel ego ids) (ego_rest ego ids) sched = (s, tr) ->
  (forall k, count_start k tr <= calls_expected a reg k) /\
  (forall k, count_end k tr <= count_start k tr) /\
  Forall (ev_legit MFund reg v (asset_keys a)) tr /\
  (f_complete s ->
     (forall k, In k (ego_rest ego ids) -> count_start k tr = if registered reg k then 1 else 0) /\
     (forall k, In k (ego_sel ego ids) ->
        count_start k tr = if registered reg k && forallb (ledger_ok reg v) (ego_rest ego ids) then 1 else 0) /\
     (forall k, ~ In (AMulti k) a -> count_start k tr = 0) /\
     (forall k, count_end k tr = count_start k tr)).
Proof.
  intros H HR. destruct (ledger_ids_spec a ids H) as [ND [HI _]].
  destruct (fund_calls_safe v reg ego ids ND sched s tr HR) as [H1 [H2 H3]]. split; [|split; [|split]].
  - intro k. rewrite <- (calls_expected_ids a ids reg k H). apply H1.
  - exact H2.
  - exact (legit_keys MFund reg v a ids tr H H3).
  - intro C. destruct (fund_calls_exact v reg ego ids ND sched s tr HR C) as [X1 [X2 [X3 X4]]].
    split; [exact X1|]. split; [exact X2|]. split; [|exact X4].
    intros k Hk. apply X3. intro Hin. apply Hk. apply HI. exact Hin.
Qed.

Lemma c20_fund_result reg ego v a ids sched s tr o :
  ledger_ids a = Ok ids -> fund_run reg v (ego_sel ego ids) (ego_rest ego ids) sched = (s, tr) ->
  f_ret s = Some o ->
  (o = OOk <-> all_ledgers_ok a reg v) /\
  (forall er, o = OErr er -> failing reg v (asset_keys a) er) /\
  (o = OOk \/ exists er, o = OErr er).
Proof.
  intros H HR ER. destruct (ledger_ids_spec a ids H) as [ND _].
  destruct (fund_result v reg ego ids ND sched s tr o HR ER) as [H1 [H2 H3]]. split; [|split].
  - rewrite H1. apply ids_all_ok. exact H.
  - intros er He. eapply failing_incl; [|exact (H2 er He)]. intros k Hk. apply (ids_keys_in a ids H). exact Hk.
  - exact H3.
Qed.

Lemma c20_fund_order_independent reg ego v a ids sched1 sched2 s1 tr1 s2 tr2 :
  ledger_ids a = Ok ids ->
  fund_run reg v (ego_sel ego ids) (ego_rest ego ids) sched1 = (s1, tr1) ->
  fund_run reg v (ego_sel ego ids) (ego_rest ego ids) sched2 = (s2, tr2) ->
  f_complete s1 -> f_complete s2 ->
  (f_ret s1 = Some OOk <-> f_ret s2 = Some OOk) /\
  (forall k, count_start k tr1 = count_start k tr2 /\ count_end k tr1 = count_end k tr2).
Proof.
  intros H R1 R2 C1 C2. split.
  - destruct C1 as [N1 _], C2 as [N2 _].
    destruct (f_ret s1) as [o1|] eqn:E1; [|congruence]. destruct (f_ret s2) as [o2|] eqn:E2; [|congruence].
    destruct (c20_fund_result reg ego v a ids sched1 s1 tr1 o1 H R1 E1) as [A1 _].
    destruct (c20_fund_result reg ego v a ids sched2 s2 tr2 o2 H R2 E2) as [A2 _].
    split; intro HH; injection HH as ->; f_equal; [apply A2, A1|apply A1, A2]; reflexivity.
  - destruct (ledger_ids_spec a ids H) as [ND [HI _]].
    destruct (fund_calls_exact v reg ego ids ND sched1 s1 tr1 R1 C1) as [X1 [X2 [X3 X4]]].
    destruct (fund_calls_exact v reg ego ids ND sched2 s2 tr2 R2 C2) as [Y1 [Y2 [Y3 Y4]]].
    intro k. rewrite X4, Y4. assert (E : count_start k tr1 = count_start k tr2); [|split; exact E].
    destruct (in_dec key_dec k ids) as [Hin|Hout].
    + apply (in_split ego ids) in Hin. apply in_app_or in Hin. destruct Hin as [Hin|Hin].
      * rewrite (X2 k Hin), (Y2 k Hin). reflexivity.
      * rewrite (X1 k Hin), (Y1 k Hin). reflexivity.
    + rewrite (X3 k Hout), (Y3 k Hout). reflexivity.
Qed.

Lemma c20_egoistic_order reg ego v a ids sched s tr :
  ledger_ids a = Ok ids -> fund_run reg v (ego_sel ego ids) (ego_rest ego ids) sched = (s, tr) ->
  forall pre post m' k h, tr = pre ++ EStart m' k h :: post -> In k (ego_sel ego ids) ->
  forall k', In k' (ego_rest ego ids) ->
  exists h', reg_lookup reg k' = Some h' /\ v h' = true /\ In (EEnd MFund k' h' true) pre.
Proof.
  intros H HR. destruct (ledger_ids_spec a ids H) as [ND _].
  exact (fund_ego_order v reg ego ids ND sched s tr HR).
Qed.

Lemma c20_fund_ok_after_all reg ego v a ids sched s tr :
  ledger_ids a = Ok ids -> fund_run reg v (ego_sel ego ids) (ego_rest ego ids) sched = (s, tr) ->
  forall pre post, tr = pre ++ ERet OOk :: post ->
  forall k, In (AMulti k) a -> exists h, reg_lookup reg k = Some h /\ v h = true /\ In (EEnd MFund k h true) pre.
Proof.
  intros H HR pre post Hsp k Hk. destruct (ledger_ids_spec a ids H) as [ND [HI _]].
  apply (fund_ok_after_all v reg ego ids ND sched s tr HR pre post Hsp k). apply HI. exact Hk.
Qed.

(* the selected ledger: position x of the distinct ledger ids, if there is one *)
Lemma c20_ego_sel ego ids :
  fund_split ego ids = (ego_sel ego ids, ego_rest ego ids) /\
  Permutation (ego_sel ego ids ++ ego_rest ego ids) ids /\
  (forall x, ego = Some x -> (0 <= x)%Z -> forall k, nth_error ids (Z.to_nat x) = Some k -> ego_sel ego ids = [k]) /\
  (ego = None -> ego_sel ego ids = [] /\ ego_rest ego ids = ids).
Proof.
  split; [apply fund_split_spec|]. split; [apply ego_split_perm|]. split.
  - intros x -> Hx k Hk. cbn [ego_sel]. assert (E : (0 <=? x)%Z = true) by lia. rewrite E, Hk. reflexivity.
  - intros ->. split; reflexivity.
Qed.

(* ---------- non-vacuity: concrete runs ---------- *)

Definition ex_ka : key := (1%N, "eth"%string).
Definition ex_kb : key := (1%N, "dot"%string).
Definition ex_kc : key := (2%N, "eth"%string).    (* same ledger string, other backend: a different ledger *)
Definition ex_kd : key := (7%N, "x"%string).      (* never registered *)
(* b is registered twice: the later registration (handler 12) wins *)
Definition ex_reg : registry := reg_of_ops [(ex_ka, 10%N); (ex_kb, 11%N); (ex_kb, 12%N); (ex_kc, 13%N)].
Definition ex_assets := [AMulti ex_kb; AMulti ex_ka; AMulti ex_kb; AMulti ex_kc; AMulti ex_ka].
Definition ex_ids := [ex_kb; ex_ka; ex_kc].
Definition ex_v_ok (h : hid) : bool := true.
Definition ex_v_fail (h : hid) : bool := negb (N.eqb h 10%N).     (* the call on ledger a fails *)
(* an interleaving that is not the canonical one: c is started late, returns are out of order *)
Definition ex_sched : list dlabel :=
  [SGo ex_ka; SGo ex_kb; SFin ex_kb; SRecv; SGo ex_kc; SFin ex_kc; SFin ex_ka; SRecv; SRecv; SRecv; SRecv].

Example ex_ledger_ids : ledger_ids ex_assets = Ok ex_ids.
Proof. vm_compute. reflexivity. Qed.

Example ex_adj_complete_ok :
  d_completeb (fst (adj_run MRegister ex_reg ex_v_ok ex_ids ex_sched)) = true /\
  d_ret (fst (adj_run MRegister ex_reg ex_v_ok ex_ids ex_sched)) = Some None.
Proof. vm_compute. split; reflexivity. Qed.

Example ex_adj_complete_fail :
  d_completeb (fst (adj_run MWithdraw ex_reg ex_v_fail ex_ids ex_sched)) = true /\
  d_ret (fst (adj_run MWithdraw ex_reg ex_v_fail ex_ids ex_sched)) = Some (Some (ECall 10%N)).
Proof. vm_compute. split; reflexivity. Qed.

(* an unregistered ledger among the assets: the other ledgers are still called *)
Example ex_adj_unregistered :
  let a := ex_assets ++ [AMulti ex_kd] in
  let r := adj_run MProgress ex_reg ex_v_ok (ex_ids ++ [ex_kd]) (canon_sched (ex_ids ++ [ex_kd]) ex_ids) in
  ledger_ids a = Ok (ex_ids ++ [ex_kd]) /\ d_completeb (fst r) = true /\
  d_ret (fst r) = Some (Some (ENotFound ex_kd)) /\
  count_start ex_ka (snd r) = 1 /\ count_start ex_kb (snd r) = 1 /\ count_start ex_kc (snd r) = 1 /\
  count_start ex_kd (snd r) = 0.
Proof. vm_compute. repeat split; reflexivity. Qed.

Lemma d_completeb_true s : d_completeb s = true -> d_complete s.
Proof.
  unfold d_completeb, d_complete. destruct (d_new s); [|discriminate]. destruct (d_run s); [|discriminate].
  destruct (d_ret s); [|discriminate]. intros _. repeat split; discriminate.
Qed.

Lemma f_completeb_true s : f_completeb s = true -> f_complete s.
Proof.
  unfold f_completeb, f_complete. destruct (f_ret s); [|discriminate].
  destruct (d_new (f_p1 s)); [|discriminate]. destruct (d_run (f_p1 s)); [|discriminate].
  destruct (f_p2 s) as [p2|].
  - destruct (d_new p2); [|discriminate]. destruct (d_run p2); [|discriminate]. intros _.
    repeat split; discriminate.
  - intros _. repeat split; discriminate.
Qed.

(* egoistic funding on position 1 (= ledger a) of the distinct ids [b; a; c] *)
Definition ex_ego : option Z := Some 1%Z.
Definition ex_fsched : list flabel := canon_fsched ex_ids [ex_kc; ex_kb; ex_ka].

Example ex_fund_split : fund_split ex_ego ex_ids = ([ex_ka], [ex_kb; ex_kc]).
Proof. vm_compute. reflexivity. Qed.

Example ex_fund_ok :
  let r := fund_run ex_reg ex_v_ok (ego_sel ex_ego ex_ids) (ego_rest ex_ego ex_ids) ex_fsched in
  f_completeb (fst r) = true /\ f_ret (fst r) = Some OOk /\
  snd r = [EStart MFund ex_kb 12%N; EStart MFund ex_kc 13%N] ++
          [EEnd MFund ex_kc 13%N true; EEnd MFund ex_kb 12%N true] ++
          EStart MFund ex_ka 10%N :: [EEnd MFund ex_ka 10%N true; ERet OOk].
Proof. vm_compute. repeat split; reflexivity. Qed.

(* a non-egoistic ledger fails: the selected ledger is never funded *)
Example ex_fund_fail :
  let v := fun h => negb (N.eqb h 13%N) in
  let r := fund_run ex_reg v (ego_sel ex_ego ex_ids) (ego_rest ex_ego ex_ids) ex_fsched in
  f_completeb (fst r) = true /\ f_ret (fst r) = Some (OErr (ECall 13%N)) /\
  count_start ex_ka (snd r) = 0 /\ count_start ex_kb (snd r) = 1 /\ count_start ex_kc (snd r) = 1.
Proof. vm_compute. repeat split; reflexivity. Qed.

(* ---------- liveness: the canonical schedules let every goroutine finish and the call return ---------- *)

Definition dexec (m : method) (v : hid -> bool) (s : dstate) (ls : list dlabel) : dstate :=
  fold_left (fun s l => fst (dstep m v s l)) ls s.

Lemma dexec_app m v s l1 l2 : dexec m v s (l1 ++ l2) = dexec m v (dexec m v s l1) l2.
Proof. unfold dexec. apply fold_left_app. Qed.

Lemma dexec_dinv m v ts ls : forall s, dinv v ts s -> dinv v ts (dexec m v s ls).
Proof.
  induction ls as [|l ls IH]; intros s H; [exact H|]. cbn [dexec fold_left]. apply IH. apply dinv_step. exact H.
Qed.

Lemma run_astep_fst m v ls : forall s tr, fst (run (astep m v) (s, tr) ls) = dexec m v s ls.
Proof.
  induction ls as [|l ls IH]; intros s tr; [reflexivity|].
  unfold run. cbn [fold_left fst snd dexec]. pose proof (astep_fst m v s l) as E.
  destruct (astep m v s l) as [s' ev]. cbn [fst] in E. subst s'. apply IH.
Qed.

Definition tkeys (l : list task) : list key := map fst l.

Lemma tkeys_tasks_of reg l : tkeys (tasks_of reg l) = l.
Proof. unfold tkeys, tasks_of. rewrite map_map. cbn [fst]. apply map_id. Qed.

Lemma extract_keys k l t l' : extract k l = Some (t, l') -> NoDup (tkeys l) ->
  ~ In k (tkeys l') /\ incl (tkeys l') (tkeys l) /\ NoDup (tkeys l').
Proof.
  intros E ND. destruct (extract_some _ _ _ _ E) as [P F].
  assert (P' : Permutation (tkeys l) (k :: tkeys l')).
  { unfold tkeys. rewrite <- F. change (fst t :: map fst l') with (map fst (t :: l')). apply Permutation_map. exact P. }
  pose proof (Permutation_NoDup P' ND) as ND'. inversion ND' as [|? ? H1 H2]; subst.
  split; [exact H1|]. split; [|exact H2].
  intros x Hx. eapply Permutation_in; [symmetry; exact P'|]. right. exact Hx.
Qed.

Lemma extract_none_keys k l : extract k l = None -> ~ In k (tkeys l).
Proof.
  intros E Hin. unfold tkeys in Hin. apply in_map_iff in Hin. destruct Hin as [t [Ht Hin]].
  exact (extract_none k l E t Hin Ht).
Qed.

(* goroutines never come back: the keys of d_new only shrink; SGo k removes k *)
Lemma dstep_new_shrinks m v s l : NoDup (tkeys (d_new s)) ->
  incl (tkeys (d_new (fst (dstep m v s l)))) (tkeys (d_new s)) /\
  NoDup (tkeys (d_new (fst (dstep m v s l)))) /\
  (forall k, l = SGo k -> ~ In k (tkeys (d_new (fst (dstep m v s l))))).
Proof.
  intro ND. destruct l as [k|k|]; cbn [dstep].
  - destruct (extract k (d_new s)) as [[t new']|] eqn:E.
    + destruct (extract_keys _ _ _ _ E ND) as [H1 [H2 H3]].
      destruct (snd t); cbn [fst d_new]; (split; [exact H2|split; [exact H3|]]); intros k' Hk; injection Hk as <-; exact H1.
    + cbn [fst]. split; [apply incl_refl|split; [exact ND|]]. intros k' Hk. injection Hk as <-.
      apply extract_none_keys. exact E.
  - destruct (extract k (d_run s)) as [[t run']|]; cbn [fst d_new];
      (split; [apply incl_refl|split; [exact ND|discriminate]]).
  - destruct (dstep_recv_tasks m v s) as [E _]. cbn [dstep] in E. rewrite E.
    split; [apply incl_refl|split; [exact ND|discriminate]].
Qed.

Lemma dexec_new_shrinks m v ls : forall s, NoDup (tkeys (d_new s)) ->
  incl (tkeys (d_new (dexec m v s ls))) (tkeys (d_new s)) /\ NoDup (tkeys (d_new (dexec m v s ls))).
Proof.
  induction ls as [|l ls IH]; intros s ND; [split; [apply incl_refl|exact ND]|].
  cbn [dexec fold_left]. destruct (dstep_new_shrinks m v s l ND) as [H1 [H2 _]].
  destruct (IH _ H2) as [H3 H4]. split; [|exact H4]. eapply incl_tran; eassumption.
Qed.

Lemma go_all m v l : forall s, NoDup (tkeys (d_new s)) ->
  forall k, In k l -> ~ In k (tkeys (d_new (dexec m v s (map SGo l)))).
Proof.
  induction l as [|k0 l IH]; intros s ND k Hk; [contradiction|].
  cbn [map dexec fold_left]. destruct (dstep_new_shrinks m v s (SGo k0) ND) as [_ [H2 H3]].
  destruct Hk as [<-|Hk].
  - intro Hin. apply (H3 k0 eq_refl). apply (proj1 (dexec_new_shrinks m v (map SGo l) _ H2)). exact Hin.
  - apply IH; assumption.
Qed.

Lemma nil_of_no_keys (l : list task) : (forall k, In k (tkeys l) -> False) -> l = [].
Proof. destruct l as [|t l]; [reflexivity|]. intro H. exfalso. apply (H (fst t)). left. reflexivity. Qed.

(* with no goroutine left to start, the running ones only finish; SFin k finishes k *)
Lemma dstep_run_shrinks m v s l : d_new s = [] -> NoDup (tkeys (d_run s)) ->
  d_new (fst (dstep m v s l)) = [] /\
  incl (tkeys (d_run (fst (dstep m v s l)))) (tkeys (d_run s)) /\
  NoDup (tkeys (d_run (fst (dstep m v s l)))) /\
  (forall k, l = SFin k -> ~ In k (tkeys (d_run (fst (dstep m v s l))))).
Proof.
  intros HN ND. destruct l as [k|k|]; cbn [dstep].
  - rewrite HN. cbn [extract fst]. split; [exact HN|]. split; [apply incl_refl|]. split; [exact ND|discriminate].
  - destruct (extract k (d_run s)) as [[t run']|] eqn:E.
    + destruct (extract_keys _ _ _ _ E ND) as [H1 [H2 H3]]. cbn [fst d_new d_run].
      split; [exact HN|]. split; [exact H2|]. split; [exact H3|]. intros k' Hk. injection Hk as <-. exact H1.
    + cbn [fst]. split; [exact HN|]. split; [apply incl_refl|]. split; [exact ND|].
      intros k' Hk. injection Hk as <-. apply extract_none_keys. exact E.
  - destruct (dstep_recv_tasks m v s) as [E1 [E2 _]]. cbn [dstep] in E1, E2. rewrite E1, E2.
    split; [exact HN|]. split; [apply incl_refl|]. split; [exact ND|discriminate].
Qed.

Lemma dexec_run_shrinks m v ls : forall s, d_new s = [] -> NoDup (tkeys (d_run s)) ->
  d_new (dexec m v s ls) = [] /\ incl (tkeys (d_run (dexec m v s ls))) (tkeys (d_run s)) /\
  NoDup (tkeys (d_run (dexec m v s ls))).
Proof.
  induction ls as [|l ls IH]; intros s HN ND; [split; [exact HN|split; [apply incl_refl|exact ND]]|].
  cbn [dexec fold_left]. destruct (dstep_run_shrinks m v s l HN ND) as [H1 [H2 [H3 _]]].
  destruct (IH _ H1 H3) as [H4 [H5 H6]]. split; [exact H4|]. split; [|exact H6]. eapply incl_tran; eassumption.
Qed.

Definition fin3 (k : key) : list dlabel := [SFin k; SRecv; SRecv].

Lemma fin_all m v order : forall s, d_new s = [] -> NoDup (tkeys (d_run s)) ->
  forall k, In k order -> ~ In k (tkeys (d_run (dexec m v s (flat_map fin3 order)))).
Proof.
  induction order as [|k0 order IH]; intros s HN ND k Hk; [contradiction|].
  cbn [flat_map]. rewrite dexec_app.
  destruct (dstep_run_shrinks m v s (SFin k0) HN ND) as [A1 [A2 [A3 A4]]].
  destruct (dexec_run_shrinks m v [SRecv; SRecv] _ A1 A3) as [B1 [B2 B3]].
  assert (E : dexec m v s (fin3 k0) = dexec m v (fst (dstep m v s (SFin k0))) [SRecv; SRecv]) by reflexivity.
  rewrite E. destruct Hk as [<-|Hk].
  - intro Hin. apply (A4 k0 eq_refl). apply B2.
    apply (proj1 (proj2 (dexec_run_shrinks m v (flat_map fin3 order) _ B1 B3))). exact Hin.
  - apply IH; assumption.
Qed.

(* the collecting loop: while it has not returned, d_left counts exactly the results still to come *)
Lemma dinv_left v ts s : dinv v ts s -> d_ret s = None ->
  d_left s = length (d_new s) + length (d_run s) + length (d_queue s).
Proof.
  intros I ER. pose proof (dinv_lengths v ts s I) as HL. destruct I as [_ _ [c [HC HR]]].
  rewrite ER in HR. destruct HR as [_ HLc].
  assert (H : length c + length (d_queue s) = length (d_done s)) by (rewrite <- app_length, HC, map_length; reflexivity).
  lia.
Qed.

Lemma dinv_queue_le v ts s : dinv v ts s -> length (d_queue s) <= length ts.
Proof.
  intro I. pose proof (dinv_lengths v ts s I) as HL. destruct I as [_ _ [c [HC _]]].
  assert (H : length c + length (d_queue s) = length (d_done s)) by (rewrite <- app_length, HC, map_length; reflexivity).
  lia.
Qed.

Definition idle (s : dstate) : Prop := d_ret s <> None \/ (d_queue s = [] /\ d_left s > 0).

Lemma idle_recv m v s : idle s -> idle (fst (dstep m v s SRecv)).
Proof.
  intros [H|[HQ HL]].
  - left. destruct (d_ret s) as [r|] eqn:E; [|congruence]. rewrite (dstep_ret_stable m v s SRecv r E). discriminate.
  - cbn [dstep]. destruct (d_ret s) eqn:ER; [left; cbn [fst]; congruence|].
    destruct (d_left s) as [|n] eqn:EL; [lia|]. rewrite HQ. cbn [fst]. right. split; [exact HQ|lia].
Qed.

Lemma idle_recvs m v j : forall s, idle s -> idle (dexec m v s (repeat SRecv j)).
Proof.
  induction j as [|j IH]; intros s H; [exact H|]. cbn [repeat dexec fold_left]. apply IH. apply idle_recv. exact H.
Qed.

Lemma drain m v ts j : forall s, dinv v ts s -> length (d_queue s) < j -> idle (dexec m v s (repeat SRecv j)).
Proof.
  induction j as [|j IH]; intros s I HQ; [lia|]. cbn [repeat dexec fold_left].
  pose proof (dinv_step m v ts s SRecv I) as I'. revert I'. cbn [dstep].
  destruct (d_ret s) as [r|] eqn:ER.
  - intros _. cbn [fst]. apply idle_recvs. left. congruence.
  - destruct (d_left s) as [|n] eqn:EL.
    + intros _. cbn [fst]. apply idle_recvs. left. cbn [d_ret]. discriminate.
    + destruct (d_queue s) as [|[e|] q] eqn:EQ.
      * intros _. cbn [fst]. apply idle_recvs. right. split; [exact EQ|lia].
      * intros _. cbn [fst]. apply idle_recvs. left. cbn [d_ret]. discriminate.
      * intro I'. cbn [fst] in *. apply IH; [exact I'|]. cbn [d_queue length] in *. lia.
Qed.

Lemma fin_queue m v s k : length (d_queue (fst (dstep m v s (SFin k)))) <= S (length (d_queue s)).
Proof.
  cbn [dstep]. destruct (extract k (d_run s)) as [[t run']|]; cbn [fst d_queue]; [rewrite app_length; cbn [length]|]; lia.
Qed.

Lemma fin_ret m v s k : d_ret (fst (dstep m v s (SFin k))) = d_ret s.
Proof. apply dstep_task_ret. discriminate. Qed.

Lemma idle_fin3 m v ts s k : dinv v ts s -> idle s -> idle (dexec m v s (fin3 k)).
Proof.
  intros I H. change (dexec m v s (fin3 k)) with (dexec m v (fst (dstep m v s (SFin k))) (repeat SRecv 2)).
  destruct H as [H|[HQ _]].
  - apply idle_recvs. left. rewrite fin_ret. exact H.
  - apply (drain m v ts); [apply dinv_step; exact I|]. pose proof (fin_queue m v s k). rewrite HQ in H. cbn [length] in H. lia.
Qed.

Lemma idle_fin_all m v ts order : forall s, dinv v ts s -> idle s -> idle (dexec m v s (flat_map fin3 order)).
Proof.
  induction order as [|k order IH]; intros s I H; [exact H|]. cbn [flat_map]. rewrite dexec_app.
  apply IH; [apply dexec_dinv; exact I|apply (idle_fin3 m v ts); assumption].
Qed.

Lemma nodup_app_l {A} (l1 l2 : list A) : NoDup (l1 ++ l2) -> NoDup l1.
Proof.
  induction l1 as [|x l1 IH]; intro H; [constructor|]. cbn [app] in H. inversion H as [|? ? Hx Hr]; subst.
  constructor; [|apply IH; exact Hr]. intro Hin. apply Hx. apply in_or_app. left. exact Hin.
Qed.

Lemma nodup_app_r {A} (l1 l2 : list A) : NoDup (l1 ++ l2) -> NoDup l2.
Proof.
  induction l1 as [|x l1 IH]; intro H; [exact H|]. cbn [app] in H. inversion H; subst. apply IH. assumption.
Qed.

Lemma dinv_run_nodup v reg l s : NoDup l -> dinv v (tasks_of reg l) s ->
  NoDup (tkeys (d_new s)) /\ NoDup (tkeys (d_run s)).
Proof.
  intros ND [HP _ _]. assert (P : Permutation (tkeys (d_new s) ++ tkeys (d_run s) ++ tkeys (d_done s)) l).
  { rewrite <- (tkeys_tasks_of reg l). unfold tkeys. rewrite <- !map_app. apply Permutation_map. exact HP. }
  pose proof (Permutation_NoDup (Permutation_sym P) ND) as N. split.
  - apply nodup_app_l in N. exact N.
  - apply nodup_app_r in N. apply nodup_app_l in N. exact N.
Qed.

(* the goroutines of the ledgers l (a sub-list of ids), driven by the canonical schedule of ids *)
Lemma canon_complete m v reg l ids order :
  NoDup l -> incl l ids -> (forall k, In k l -> registered reg k = true -> In k order) ->
  d_complete (dexec m v (d_init reg l) (canon_sched ids order)).
Proof.
  intros ND HI HO. unfold canon_sched. rewrite !dexec_app. fold fin3.
  set (ts := tasks_of reg l). set (s0 := d_init reg l).
  assert (I0 : dinv v ts s0) by apply dinv_init.
  set (sA := dexec m v s0 (map SGo ids)).
  assert (IA : dinv v ts sA) by (apply dexec_dinv; exact I0).
  assert (N0 : NoDup (tkeys (d_new s0))) by (unfold s0, d_init; cbn [d_new]; fold (tasks_of reg l); rewrite tkeys_tasks_of; exact ND).
  assert (NA : d_new sA = []).
  { apply nil_of_no_keys. intros k Hk.
    assert (Hl : In k l).
    { apply (proj1 (dexec_new_shrinks m v (map SGo ids) s0 N0)) in Hk.
      unfold s0, d_init in Hk. cbn [d_new] in Hk. fold (tasks_of reg l) in Hk. rewrite tkeys_tasks_of in Hk. exact Hk. }
    exact (go_all m v ids s0 N0 k (HI k Hl) Hk). }
  set (sB := dexec m v sA (repeat SRecv (S (length ids)))).
  assert (IB : dinv v ts sB) by (apply dexec_dinv; exact IA).
  assert (LB : idle sB).
  { apply (drain m v ts); [exact IA|]. pose proof (dinv_queue_le v ts sA IA) as H. unfold ts in H.
    rewrite tasks_of_length in H. pose proof (NoDup_incl_length ND HI). lia. }
  destruct (dinv_run_nodup v reg l sA ND IA) as [_ RA].
  destruct (dexec_run_shrinks m v (repeat SRecv (S (length ids))) sA NA RA) as [NB [_ RB]]. fold sB in NB, RB.
  set (sC := dexec m v sB (flat_map fin3 order)).
  assert (IC : dinv v ts sC) by (apply dexec_dinv; exact IB).
  assert (LC : idle sC) by (apply (idle_fin_all m v ts); assumption).
  destruct (dexec_run_shrinks m v (flat_map fin3 order) sB NB RB) as [NC _]. fold sC in NC.
  assert (RC : d_run sC = []).
  { apply nil_of_no_keys. intros k Hk. unfold tkeys in Hk. apply in_map_iff in Hk. destruct Hk as [t [Hf Ht]].
    assert (Hts : In t ts).
    { eapply dinv_in; [exact IC|]. apply in_or_app. right. apply in_or_app. left. exact Ht. }
    apply tasks_of_In in Hts. destruct Hts as [Hl Hs].
    assert (Hreg : registered reg (fst t) = true).
    { destruct IC as [_ HR _]. rewrite Forall_forall in HR. specialize (HR t Ht). unfold registered.
      rewrite <- Hs. destruct (snd t); [reflexivity|congruence]. }
    apply (fin_all m v order sB NB RB (fst t) (HO _ Hl Hreg)).
    unfold tkeys. apply in_map. exact Ht. }
  split; [exact NC|]. split; [exact RC|].
  destruct LC as [H|[HQ HL]]; [exact H|]. intro ER.
  pose proof (dinv_left v ts sC IC ER) as H. rewrite NC, RC, HQ in H. cbn [length] in H. lia.
Qed.

Lemma adj_canon_complete m reg v ids order : NoDup ids ->
  (forall k, In k ids -> registered reg k = true -> In k order) ->
  d_complete (fst (adj_run m reg v ids (canon_sched ids order))).
Proof.
  intros ND HO. unfold adj_run. rewrite run_astep_fst. apply canon_complete; [exact ND|apply incl_refl|exact HO].
Qed.

Section FunderLive.
  Variable v : hid -> bool.
  Variable reg : registry.
  Variables e ne : list key.
  Hypothesis nd : NoDup (e ++ ne).

  Definition fexec (s : fstate) (ls : list flabel) : fstate :=
    fold_left (fun s l => fst (fstep v reg e s l)) ls s.

  Lemma fexec_app s l1 l2 : fexec s (l1 ++ l2) = fexec (fexec s l1) l2.
  Proof. unfold fexec. apply fold_left_app. Qed.

  Lemma run_fstep_fst ls : forall s tr, fst (run (fstep v reg e) (s, tr) ls) = fexec s ls.
  Proof.
    induction ls as [|l ls IH]; intros s tr; [reflexivity|].
    unfold run. cbn [fold_left fst snd fexec]. destruct (fstep v reg e s l) as [s' ev]. cbn [fst]. apply IH.
  Qed.

  Lemma fexec_finv ls : forall s tr, finv v reg e ne s tr -> exists tr', finv v reg e ne (fexec s ls) tr'.
  Proof.
    induction ls as [|l ls IH]; intros s tr H; [exists tr; exact H|]. cbn [fexec fold_left].
    apply (IH _ (tr ++ snd (fstep v reg e s l))). apply finv_step; assumption.
  Qed.

  Lemma dstep_recv_noop m s : d_ret s <> None -> fst (dstep m v s SRecv) = s.
  Proof. intro H. cbn [dstep]. destruct (d_ret s); [reflexivity|congruence]. Qed.

  Lemma finv_p1_ret s tr : finv v reg e ne s tr -> f_ret s <> None \/ f_p2 s <> None -> d_ret (f_p1 s) <> None.
  Proof.
    intros [_ D2 FR _ _ _ _ _ _ _ _ _] H.
    destruct (f_p2 s) as [p2|] eqn:EP; [destruct D2 as [_ R]; congruence|].
    destruct H as [H|H]; [|congruence]. destruct (f_ret s) as [o|]; [|congruence].
    destruct o as [| | |er|]; try contradiction.
    - destruct FR as [p2 [Hp _]]. discriminate.
    - destruct FR as [[_ R]|[p2 [Hp _]]]; [congruence|discriminate].
  Qed.

  Lemma finv_p2_ret s tr p2 : finv v reg e ne s tr -> f_ret s <> None -> f_p2 s = Some p2 -> d_ret p2 <> None.
  Proof.
    intros [_ _ FR _ _ _ _ _ _ _ _ _] H EP. destruct (f_ret s) as [o|]; [|congruence].
    destruct o as [| | |er|]; try contradiction.
    - destruct FR as [q [Hq R]]. rewrite EP in Hq. injection Hq as <-. congruence.
    - destruct FR as [[Hn _]|[q [Hq R]]]; [congruence|]. rewrite EP in Hq. injection Hq as <-. congruence.
  Qed.

  Lemma fstep_F1_p1 s tr l : finv v reg e ne s tr ->
    f_p1 (fst (fstep v reg e s (F1 l))) = fst (dstep MFund v (f_p1 s) l).
  Proof.
    intro IV. destruct (dlabel_eq_recv l) as [->|NR]; [|rewrite (fstep_F1_task v reg e s l NR); reflexivity].
    cbn [fstep]. destruct (f_ret s) as [o|] eqn:EF.
    - cbn [fst]. symmetry. apply dstep_recv_noop. apply (finv_p1_ret s tr IV). left. congruence.
    - destruct (f_p2 s) as [p2|] eqn:EP.
      + cbn [fst]. symmetry. apply dstep_recv_noop. apply (finv_p1_ret s tr IV). right. congruence.
      + destruct (d_ret (fst (dstep MFund v (f_p1 s) SRecv))) as [[er|]|]; reflexivity.
  Qed.

  Definition p2_fresh (s : fstate) : Prop := f_p2 s = None \/ f_p2 s = Some (d_init reg e).

  Lemma fstep_F1_p2 s l : p2_fresh s -> p2_fresh (fst (fstep v reg e s (F1 l))).
  Proof.
    intro H. destruct (dlabel_eq_recv l) as [->|NR]; [|rewrite (fstep_F1_task v reg e s l NR); exact H].
    cbn [fstep]. destruct (f_ret s); [exact H|]. destruct (f_p2 s); [exact H|].
    destruct (d_ret (fst (dstep MFund v (f_p1 s) SRecv))) as [[er|]|]; cbn [fst]; unfold p2_fresh; cbn [f_p2]; auto.
  Qed.

  Lemma fexec_F1 ls : forall s tr, finv v reg e ne s tr -> p2_fresh s ->
    f_p1 (fexec s (map F1 ls)) = dexec MFund v (f_p1 s) ls /\ p2_fresh (fexec s (map F1 ls)).
  Proof.
    induction ls as [|l ls IH]; intros s tr IV HF; [split; [reflexivity|exact HF]|].
    cbn [map fexec fold_left dexec].
    rewrite <- (fstep_F1_p1 s tr l IV).
    apply (IH _ (tr ++ snd (fstep v reg e s (F1 l)))); [apply finv_step; assumption|apply fstep_F1_p2; exact HF].
  Qed.

  Lemma fstep_F2_none s l : f_p2 s = None -> fst (fstep v reg e s (F2 l)) = s.
  Proof.
    intro H. destruct (dlabel_eq_recv l) as [->|NR].
    - cbn [fstep]. rewrite H. destruct (f_ret s); reflexivity.
    - rewrite (fstep_F2_task v reg e s l NR), H. reflexivity.
  Qed.

  Lemma fexec_F2_none ls : forall s, f_p2 s = None -> fexec s (map F2 ls) = s.
  Proof.
    induction ls as [|l ls IH]; intros s H; [reflexivity|]. cbn [map fexec fold_left].
    rewrite (fstep_F2_none s l H). apply IH. exact H.
  Qed.

  Lemma fstep_F2_some s tr l p2 : finv v reg e ne s tr -> f_p2 s = Some p2 ->
    f_p2 (fst (fstep v reg e s (F2 l))) = Some (fst (dstep MFund v p2 l)) /\
    f_p1 (fst (fstep v reg e s (F2 l))) = f_p1 s.
  Proof.
    intros IV EP. destruct (dlabel_eq_recv l) as [->|NR].
    - cbn [fstep]. rewrite EP. destruct (f_ret s) as [o|] eqn:EF.
      + cbn [fst]. rewrite EP. split; [|reflexivity]. f_equal. symmetry. apply dstep_recv_noop.
        apply (finv_p2_ret s tr p2 IV); [congruence|exact EP].
      + destruct (d_ret (fst (dstep MFund v p2 SRecv))) as [[er|]|]; cbn [fst f_p1 f_p2]; split; reflexivity.
    - rewrite (fstep_F2_task v reg e s l NR), EP. cbn [fst f_p1 f_p2]. split; reflexivity.
  Qed.

  Lemma fexec_F2_some ls : forall s tr p2, finv v reg e ne s tr -> f_p2 s = Some p2 ->
    f_p2 (fexec s (map F2 ls)) = Some (dexec MFund v p2 ls) /\ f_p1 (fexec s (map F2 ls)) = f_p1 s.
  Proof.
    induction ls as [|l ls IH]; intros s tr p2 IV EP; [split; [exact EP|reflexivity]|].
    change (fexec s (map F2 (l :: ls))) with (fexec (fst (fstep v reg e s (F2 l))) (map F2 ls)).
    change (dexec MFund v p2 (l :: ls)) with (dexec MFund v (fst (dstep MFund v p2 l)) ls).
    destruct (fstep_F2_some s tr l p2 IV EP) as [H1 H2].
    destruct (IH _ (tr ++ snd (fstep v reg e s (F2 l))) _ (finv_step v reg e ne nd s tr (F2 l) IV) H1) as [H3 H4].
    split; [exact H3|]. rewrite H4. exact H2.
  Qed.

  Lemma fund_canon_complete ids order :
    NoDup e -> NoDup ne -> incl e ids -> incl ne ids ->
    (forall k, In k (e ++ ne) -> registered reg k = true -> In k order) ->
    f_complete (fst (fund_run reg v e ne (canon_fsched ids order))).
  Proof.
    intros NDe NDne Ie Ine HO. unfold fund_run. rewrite run_fstep_fst. unfold canon_fsched. rewrite fexec_app.
    set (cs := canon_sched ids order).
    pose proof (finv_init v reg e ne) as I0.
    assert (F0 : p2_fresh (f_init reg ne)) by (left; reflexivity).
    destruct (fexec_F1 cs _ _ I0 F0) as [P1 F1']. cbn [f_init f_p1] in P1.
    destruct (fexec_finv (map F1 cs) _ _ I0) as [tr1 I1].
    set (s1 := fexec (f_init reg ne) (map F1 cs)) in *.
    assert (C1 : d_complete (f_p1 s1)).
    { rewrite P1. apply canon_complete; [exact NDne|exact Ine|].
      intros k Hk. apply HO. apply in_or_app. right. exact Hk. }
    destruct F1' as [EP|EP].
    - rewrite (fexec_F2_none cs s1 EP). destruct C1 as [CN [CR CRet]].
      split; [|split; [exact CN|split; [exact CR|rewrite EP; exact I]]].
      intro HR. destruct I1 as [_ _ FR _ _ _ _ _ _ _ _ _]. rewrite HR, EP in FR. congruence.
    - destruct (fexec_F2_some cs s1 tr1 _ I1 EP) as [P2 P1'].
      destruct (fexec_finv (map F2 cs) _ _ I1) as [tr2 I2].
      set (s2 := fexec s1 (map F2 cs)) in *.
      assert (C2 : d_complete (dexec MFund v (d_init reg e) cs)).
      { apply canon_complete; [exact NDe|exact Ie|]. intros k Hk. apply HO. apply in_or_app. left. exact Hk. }
      destruct C1 as [CN [CR _]]. destruct C2 as [CN2 [CR2 CRet2]].
      split; [|split; [rewrite P1'; exact CN|split; [rewrite P1'; exact CR|rewrite P2; split; assumption]]].
      intro HR. destruct I2 as [_ _ FR _ _ _ _ _ _ _ _ _]. rewrite HR, P2 in FR. congruence.
  Qed.
End FunderLive.

Lemma c20_adj_live m reg v a ids : ledger_ids a = Ok ids ->
  d_complete (fst (adj_run m reg v ids (canon_sched ids ids))).
Proof.
  intro H. destruct (ledger_ids_spec a ids H) as [ND _]. apply adj_canon_complete; [exact ND|]. intros k Hk _. exact Hk.
Qed.

Lemma nodup_incl_split ego ids : NoDup ids ->
  NoDup (ego_sel ego ids) /\ NoDup (ego_rest ego ids) /\ incl (ego_sel ego ids) ids /\ incl (ego_rest ego ids) ids.
Proof.
  intro ND. pose proof (nd_split ego ids ND) as N. split; [exact (nodup_app_l _ _ N)|]. split; [exact (nodup_app_r _ _ N)|].
  split; intros k Hk; apply (in_split ego ids); apply in_or_app; [left|right]; exact Hk.
Qed.

Lemma c20_fund_live reg ego v a ids : ledger_ids a = Ok ids ->
  f_complete (fst (fund_run reg v (ego_sel ego ids) (ego_rest ego ids) (canon_fsched ids ids))).
Proof.
  intro H. destruct (ledger_ids_spec a ids H) as [ND _].
  destruct (nodup_incl_split ego ids ND) as [N1 [N2 [I1 I2]]].
  apply fund_canon_complete; try assumption; [apply nd_split; exact ND|].
  intros k Hk _. apply (in_split ego ids). exact Hk.
Qed.
