(* Lemmas about Model/Multi.v (property C20). *)
From Coq Require Import Arith PeanoNat ZifyN ZifyNat ZifyBool Permutation.
From V Require Import Model.Multi.
Open Scope nat_scope.

(* ---------- keys ---------- *)

Lemma key_eqb_eq (a b : key) : key_eqb a b = true <-> a = b.
Proof.
  destruct a as [a1 a2], b as [b1 b2]. unfold key_eqb. cbn [fst snd].
  rewrite andb_true_iff, N.eqb_eq, String.eqb_eq. split.
  - intros [-> ->]. reflexivity.
  - intro H. injection H as -> ->. split; reflexivity.
Qed.

Lemma key_eqb_refl (a : key) : key_eqb a a = true.
Proof. apply key_eqb_eq. reflexivity. Qed.

Lemma key_eqb_neq (a b : key) : key_eqb a b = false <-> a <> b.
Proof.
  split.
  - intros H E. apply key_eqb_eq in E. congruence.
  - intro H. destruct (key_eqb a b) eqn:E; [|reflexivity]. apply key_eqb_eq in E. contradiction.
Qed.

Lemma key_eqb_sym (a b : key) : key_eqb a b = key_eqb b a.
Proof.
  destruct (key_eqb a b) eqn:E; symmetry.
  - apply key_eqb_eq in E. subst. apply key_eqb_refl.
  - apply key_eqb_neq. apply key_eqb_neq in E. congruence.
Qed.

Lemma key_dec (a b : key) : {a = b} + {a <> b}.
Proof.
  destruct (key_eqb a b) eqn:E; [left; apply key_eqb_eq; exact E|right; apply key_eqb_neq; exact E].
Qed.

Lemma kmem_In (k : key) (l : list key) : kmem k l = true <-> In k l.
Proof.
  unfold kmem. rewrite existsb_exists. split.
  - intros [x [Hin He]]. apply key_eqb_eq in He. subst. exact Hin.
  - intro H. exists k. split; [exact H|apply key_eqb_refl].
Qed.

Lemma kmem_not_In (k : key) (l : list key) : kmem k l = false <-> ~ In k l.
Proof.
  split.
  - intros H Hin. apply kmem_In in Hin. congruence.
  - intro H. destruct (kmem k l) eqn:E; [|reflexivity]. apply kmem_In in E. contradiction.
Qed.

(* ---------- assets.LedgerIDs ---------- *)

Lemma ledger_ids_loop_spec (a : list asset) : forall seen ids out,
  ledger_ids_loop a seen ids = Ok out ->
  out = ids ++ dedup_acc seen (asset_keys a) /\ forallb is_multi a = true.
Proof.
  induction a as [|x a IH]; intros seen ids out H; cbn [ledger_ids_loop] in H.
  - injection H as <-. cbn [asset_keys flat_map dedup_acc forallb]. rewrite app_nil_r. split; reflexivity.
  - destruct x as [k| |]; try discriminate.
    cbn [asset_keys flat_map app forallb is_multi andb]. fold (asset_keys a). cbn [dedup_acc].
    destruct (kmem k seen) eqn:E.
    + apply IH in H. exact H.
    + apply IH in H. destruct H as [-> H2]. split; [|exact H2].
      rewrite <- app_assoc. reflexivity.
Qed.

Lemma ledger_ids_loop_multi (a : list asset) : forall seen ids,
  forallb is_multi a = true ->
  ledger_ids_loop a seen ids = Ok (ids ++ dedup_acc seen (asset_keys a)).
Proof.
  induction a as [|x a IH]; intros seen ids H; cbn [ledger_ids_loop].
  - cbn [asset_keys flat_map dedup_acc]. rewrite app_nil_r. reflexivity.
  - destruct x as [k| |]; cbn [forallb is_multi andb] in H; try discriminate.
    cbn [asset_keys flat_map app]. fold (asset_keys a). cbn [dedup_acc].
    destruct (kmem k seen) eqn:E.
    + apply IH. exact H.
    + rewrite IH by exact H. rewrite <- app_assoc. reflexivity.
Qed.

Lemma ledger_ids_dedup (a : list asset) (ids : list key) :
  ledger_ids a = Ok ids <-> (forallb is_multi a = true /\ ids = dedup_acc [] (asset_keys a)).
Proof.
  unfold ledger_ids. split.
  - intro H. apply ledger_ids_loop_spec in H. destruct H as [H1 H2]. split; assumption.
  - intros [H1 ->]. rewrite ledger_ids_loop_multi by exact H1. reflexivity.
Qed.

Lemma dedup_acc_In (l : list key) : forall seen k,
  In k (dedup_acc seen l) <-> (In k l /\ ~ In k seen).
Proof.
  induction l as [|x l IH]; intros seen k; cbn [dedup_acc].
  - cbn [In]. tauto.
  - destruct (kmem x seen) eqn:E.
    + rewrite IH. cbn [In]. apply kmem_In in E. split.
      * intros [H1 H2]. split; [right; exact H1|exact H2].
      * intros [[->|H1] H2]; [contradiction|split; assumption].
    + apply kmem_not_In in E. cbn [In]. rewrite IH. cbn [In]. split.
      * intros [<-|[H1 H2]]; [split; [left; reflexivity|exact E]|].
        split; [right; exact H1|]. intro H3. apply H2. right. exact H3.
      * intros [[->|H1] H2]; [left; reflexivity|].
        destruct (key_dec x k) as [->|N]; [left; reflexivity|].
        right. split; [exact H1|]. intros [H3|H3]; [contradiction|contradiction].
Qed.

Lemma dedup_acc_NoDup (l : list key) : forall seen, NoDup (dedup_acc seen l).
Proof.
  induction l as [|x l IH]; intro seen; cbn [dedup_acc]; [constructor|].
  destruct (kmem x seen); [apply IH|].
  constructor; [|apply IH]. rewrite dedup_acc_In. intros [_ H]. apply H. left. reflexivity.
Qed.

Lemma first_index_head k l : first_index k (k :: l) = 0.
Proof. cbn [first_index]. rewrite key_eqb_refl. reflexivity. Qed.

Lemma first_index_tail k x l : k <> x -> first_index k (x :: l) = S (first_index k l).
Proof. intro H. cbn [first_index]. apply key_eqb_neq in H. rewrite H. reflexivity. Qed.

Lemma dedup_acc_order (l : list key) : forall seen k1 k2,
  In k1 (dedup_acc seen l) -> In k2 (dedup_acc seen l) ->
  (first_index k1 (dedup_acc seen l) < first_index k2 (dedup_acc seen l)
   <-> first_index k1 l < first_index k2 l).
Proof.
  induction l as [|x l IH]; intros seen k1 k2 H1 H2.
  - cbn [dedup_acc] in H1. contradiction.
  - cbn [dedup_acc] in *. destruct (kmem x seen) eqn:E.
    + apply kmem_In in E.
      assert (N1 : k1 <> x) by (intros ->; apply dedup_acc_In in H1; tauto).
      assert (N2 : k2 <> x) by (intros ->; apply dedup_acc_In in H2; tauto).
      rewrite (first_index_tail k1 x l N1), (first_index_tail k2 x l N2).
      pose proof (IH seen k1 k2 H1 H2). lia.
    + destruct (key_dec k1 x) as [->|N1]; destruct (key_dec k2 x) as [->|N2].
      * rewrite !first_index_head. lia.
      * rewrite !first_index_head, !(first_index_tail k2 x _ N2). lia.
      * rewrite !first_index_head, !(first_index_tail k1 x _ N1). lia.
      * rewrite !(first_index_tail k1 x _ N1), !(first_index_tail k2 x _ N2).
        destruct H1 as [H1|H1]; [congruence|]. destruct H2 as [H2|H2]; [congruence|].
        pose proof (IH (x :: seen) k1 k2 H1 H2). lia.
Qed.

Lemma asset_keys_In (a : list asset) (k : key) : In k (asset_keys a) <-> In (AMulti k) a.
Proof.
  unfold asset_keys. rewrite in_flat_map. split.
  - intros [x [Hx Hk]]. destruct x as [k'| |]; cbn [In] in Hk; try contradiction.
    destruct Hk as [->|[]]. exact Hx.
  - intro H. exists (AMulti k). split; [exact H|left; reflexivity].
Qed.

(* ledger ids: no duplicates, exactly the ledgers of the assets, in first-occurrence order *)
Lemma ledger_ids_spec (a : list asset) (ids : list key) :
  ledger_ids a = Ok ids ->
  NoDup ids /\
  (forall k, In k ids <-> In (AMulti k) a) /\
  (forall k1 k2, In k1 ids -> In k2 ids ->
     (first_index k1 ids < first_index k2 ids <-> first_index k1 (asset_keys a) < first_index k2 (asset_keys a))).
Proof.
  intro H. apply ledger_ids_dedup in H. destruct H as [_ ->]. split; [apply dedup_acc_NoDup|]. split.
  - intro k. rewrite dedup_acc_In, asset_keys_In. cbn [In]. tauto.
  - intros k1 k2 H1 H2. apply dedup_acc_order; assumption.
Qed.

(* when LedgerIDs succeeds, fails, panics *)
Lemma ledger_ids_ok_iff (a : list asset) :
  (exists ids, ledger_ids a = Ok ids) <-> forallb is_multi a = true.
Proof.
  split.
  - intros [ids H]. apply ledger_ids_dedup in H. tauto.
  - intro H. exists (dedup_acc [] (asset_keys a)). apply ledger_ids_dedup. split; [exact H|reflexivity].
Qed.

Lemma ledger_ids_loop_err (a : list asset) : forall seen ids,
  In APlain a -> ~ In ANilId a -> ledger_ids_loop a seen ids = Err.
Proof.
  induction a as [|x a IH]; intros seen ids H1 H2; [contradiction|].
  cbn [ledger_ids_loop]. destruct x as [k| |].
  - assert (In APlain a) by (destruct H1 as [H1|H1]; [discriminate|exact H1]).
    assert (~ In ANilId a) by (intro; apply H2; right; assumption).
    destruct (kmem k seen); apply IH; assumption.
  - reflexivity.
  - exfalso. apply H2. left. reflexivity.
Qed.

Lemma ledger_ids_err (a : list asset) : In APlain a -> ~ In ANilId a -> ledger_ids a = Err.
Proof. apply ledger_ids_loop_err. Qed.

(* ---------- counting ---------- *)

Lemma countb_app {A} (p : A -> bool) l1 l2 : countb p (l1 ++ l2) = countb p l1 + countb p l2.
Proof. unfold countb. rewrite filter_app, app_length. reflexivity. Qed.

Lemma countb_perm {A} (p : A -> bool) l1 l2 : Permutation l1 l2 -> countb p l1 = countb p l2.
Proof.
  unfold countb. induction 1 as [|x l l' _ IH|x y l|l l' l'' _ IH1 _ IH2]; cbn [filter].
  - reflexivity.
  - destruct (p x); cbn [length]; rewrite IH; reflexivity.
  - destruct (p x), (p y); reflexivity.
  - rewrite IH1. exact IH2.
Qed.

Lemma countb_nil {A} (p : A -> bool) : countb p [] = 0.
Proof. reflexivity. Qed.

Lemma countb_cons {A} (p : A -> bool) x l : countb p (x :: l) = (if p x then 1 else 0) + countb p l.
Proof. unfold countb. cbn [filter]. destruct (p x); reflexivity. Qed.

Lemma countb_zero {A} (p : A -> bool) l : (forall x, In x l -> p x = false) -> countb p l = 0.
Proof.
  induction l as [|x l IH]; intro H; [reflexivity|].
  rewrite countb_cons, H by (left; reflexivity). rewrite IH; [reflexivity|].
  intros y Hy. apply H. right. exact Hy.
Qed.

(* ---------- extract ---------- *)

Lemma extract_some k l t l' : extract k l = Some (t, l') -> Permutation l (t :: l') /\ fst t = k.
Proof.
  revert t l'. induction l as [|x l IH]; intros t l' H; cbn [extract] in H; [discriminate|].
  destruct (key_eqb k (fst x)) eqn:E.
  - injection H as <- <-. apply key_eqb_eq in E. split; [apply Permutation_refl|symmetry; exact E].
  - destruct (extract k l) as [[y r]|] eqn:E2; [|discriminate].
    injection H as <- <-. destruct (IH y r eq_refl) as [P F]. split; [|exact F].
    rewrite P. apply perm_swap.
Qed.

Lemma extract_none k l : extract k l = None -> forall t, In t l -> fst t <> k.
Proof.
  induction l as [|x l IH]; intros H t Hin; [contradiction|]. cbn [extract] in H.
  destruct (key_eqb k (fst x)) eqn:E; [discriminate|].
  destruct (extract k l) as [[y r]|] eqn:E2; [discriminate|].
  destruct Hin as [<-|Hin].
  - apply key_eqb_neq in E. congruence.
  - apply IH; [reflexivity|exact Hin].
Qed.

(* ---------- tasks ---------- *)

Lemma tres_none v t : tres v t = None <-> exists h, snd t = Some h /\ v h = true.
Proof.
  unfold tres. destruct (snd t) as [h|].
  - destruct (v h) eqn:E; split; intro H; try discriminate.
    + exists h. split; [reflexivity|exact E].
    + reflexivity.
    + destruct H as [h' [H1 H2]]. injection H1 as <-. congruence.
  - split; [discriminate|]. intros [h [H _]]. discriminate.
Qed.

Lemma tres_some v t e : tres v t = Some e ->
  (snd t = None /\ e = ENotFound (fst t)) \/ (exists h, snd t = Some h /\ v h = false /\ e = ECall h).
Proof.
  unfold tres. destruct (snd t) as [h|].
  - destruct (v h) eqn:E; [discriminate|]. intro H. injection H as <-. right. exists h. auto.
  - intro H. injection H as <-. left. auto.
Qed.

Lemma tasks_of_In reg ids t : In t (tasks_of reg ids) <-> (In (fst t) ids /\ snd t = reg_lookup reg (fst t)).
Proof.
  unfold tasks_of. rewrite in_map_iff. split.
  - intros [k [<- Hk]]. cbn [fst snd]. split; [exact Hk|reflexivity].
  - intros [H1 H2]. exists (fst t). split; [|exact H1]. destruct t as [k o]. cbn [fst snd] in *. congruence.
Qed.

Lemma tasks_of_length reg ids : length (tasks_of reg ids) = length ids.
Proof. unfold tasks_of. apply map_length. Qed.

Lemma creg_tasks_of reg ids k : NoDup ids ->
  creg k (tasks_of reg ids) = if kmem k ids && registered reg k then 1 else 0.
Proof.
  unfold creg. induction ids as [|x ids IH]; intro ND.
  - reflexivity.
  - inversion ND as [|? ? Hx ND']; subst. cbn [tasks_of map]. fold (tasks_of reg ids).
    rewrite countb_cons, (IH ND'). cbn [fst snd]. unfold kmem. cbn [existsb]. fold (kmem k ids).
    destruct (key_eqb k x) eqn:E.
    + apply key_eqb_eq in E. subst x. cbn [orb andb].
      assert (kmem k ids = false) as -> by (apply kmem_not_In; exact Hx).
      unfold registered. cbn [andb]. destruct (is_some (reg_lookup reg k)); reflexivity.
    + cbn [andb orb]. reflexivity.
Qed.

Lemma creg_zero k l : (forall t, In t l -> fst t <> k) -> creg k l = 0.
Proof.
  intro H. unfold creg. apply countb_zero. intros t Ht. apply H in Ht.
  assert (key_eqb k (fst t) = false) as -> by (apply key_eqb_neq; congruence). reflexivity.
Qed.

(* ---------- the invariant of dispatch / fundLedgers ---------- *)

Section Dispatch.
  Variable m : method.
  Variable v : hid -> bool.
  Variable ts : list task.          (* the goroutines started by this dispatch *)

  Record dinv (s : dstate) : Prop := mkDinv {
    di_perm : Permutation (d_new s ++ d_run s ++ d_done s) ts;
    di_run : Forall (fun t => snd t <> None) (d_run s);
    di_chan : exists c, c ++ d_queue s = map (tres v) (d_done s) /\
              match d_ret s with
              | None => Forall (eq None) c /\ length c + d_left s = length ts
              | Some None => Forall (eq None) c /\ length c = length ts
              | Some (Some e) => In (Some e) c
              end }.

  Lemma dinv_step s l : dinv s -> dinv (fst (dstep m v s l)).
  Proof.
    intros [HP HR [c [HC HRet]]]. destruct l as [k|k|]; cbn [dstep].
    - (* SGo *)
      destruct (extract k (d_new s)) as [[t new']|] eqn:E; [|cbn [fst]; constructor; eauto].
      destruct (extract_some _ _ _ _ E) as [PE _].
      destruct (snd t) as [h|] eqn:Eh; cbn [fst]; constructor; cbn [d_new d_run d_done d_queue d_left d_ret].
      + rewrite <- HP, PE. cbn [app]. rewrite <- app_assoc. cbn [app].
        symmetry. rewrite (app_assoc new' (d_run s) (t :: d_done s)).
        apply Permutation_cons_app. rewrite app_assoc. reflexivity.
      + apply Forall_app. split; [exact HR|]. constructor; [congruence|constructor].
      + exists c. split; [exact HC|exact HRet].
      + rewrite <- HP, PE. cbn [app]. rewrite !app_assoc. symmetry. apply Permutation_cons_append.
      + exact HR.
      + exists c. split; [|exact HRet]. rewrite map_app, app_assoc, HC. reflexivity.
    - (* SFin *)
      destruct (extract k (d_run s)) as [[t run']|] eqn:E; [|cbn [fst]; constructor; eauto].
      destruct (extract_some _ _ _ _ E) as [PE _].
      cbn [fst]; constructor; cbn [d_new d_run d_done d_queue d_left d_ret].
      + rewrite <- HP, PE. apply Permutation_app_head. cbn [app]. rewrite app_assoc.
        symmetry. apply Permutation_cons_append.
      + assert (F : Forall (fun t => snd t <> None) (t :: run')).
        { eapply Permutation_Forall; [exact PE|exact HR]. }
        inversion F; assumption.
      + exists c. split; [|exact HRet]. rewrite map_app, app_assoc, HC. reflexivity.
    - (* SRecv *)
      destruct (d_ret s) as [r|] eqn:ER.
      + cbn [fst]. constructor; eauto. exists c. rewrite ER. split; assumption.
      + destruct HRet as [HF HL]. destruct (d_left s) as [|n] eqn:EL.
        * cbn [fst]. constructor; cbn [d_new d_run d_done d_queue d_left d_ret]; eauto.
          exists c. split; [exact HC|]. split; [exact HF|lia].
        * destruct (d_queue s) as [|[e|] q] eqn:EQ; cbn [fst].
          -- constructor; eauto. exists c. rewrite ER, EQ, EL. auto.
          -- constructor; cbn [d_new d_run d_done d_queue d_left d_ret]; eauto.
             exists (c ++ [Some e]). split; [rewrite <- app_assoc; exact HC|].
             apply in_or_app. right. left. reflexivity.
          -- constructor; cbn [d_new d_run d_done d_queue d_left d_ret]; eauto.
             exists (c ++ [None]). split; [rewrite <- app_assoc; exact HC|]. split.
             ++ apply Forall_app. split; [exact HF|]. constructor; [reflexivity|constructor].
             ++ rewrite app_length. cbn [length]. lia.
  Qed.

  Lemma dinv_lengths s : dinv s ->
    length (d_new s) + length (d_run s) + length (d_done s) = length ts.
  Proof.
    intros [HP _ _]. apply Permutation_length in HP. rewrite !app_length in HP. lia.
  Qed.

  (* dispatch returned nil: every goroutine has finished and every result was nil *)
  Lemma dinv_ret_ok s : dinv s -> d_ret s = Some None ->
    d_new s = [] /\ d_run s = [] /\ d_queue s = [] /\ Permutation (d_done s) ts /\
    Forall (fun t => tres v t = None) ts.
  Proof.
    intros I ER. pose proof (dinv_lengths s I) as HL. destruct I as [HP _ [c [HC HRet]]].
    rewrite ER in HRet. destruct HRet as [HF HLc].
    assert (HL2 : length c + length (d_queue s) = length (d_done s)).
    { rewrite <- app_length, HC, map_length. reflexivity. }
    assert (N : d_new s = []) by (apply length_zero_iff_nil; lia).
    assert (R : d_run s = []) by (apply length_zero_iff_nil; lia).
    assert (Q : d_queue s = []) by (apply length_zero_iff_nil; lia).
    rewrite N, R in HP. cbn [app] in HP. rewrite Q, app_nil_r in HC. subst c.
    repeat split; try assumption.
    eapply Permutation_Forall; [exact HP|]. rewrite Forall_map in HF.
    eapply Forall_impl; [|exact HF]. cbn beta. intros t Ht. symmetry. exact Ht.
  Qed.

  (* dispatch returned an error: it is the result of one of the goroutines *)
  Lemma dinv_ret_err s e : dinv s -> d_ret s = Some (Some e) ->
    exists t, In t ts /\ In t (d_done s) /\ tres v t = Some e.
  Proof.
    intros [HP _ [c [HC HRet]]] ER. rewrite ER in HRet.
    assert (H : In (Some e) (map (tres v) (d_done s))).
    { rewrite <- HC. apply in_or_app. left. exact HRet. }
    apply in_map_iff in H. destruct H as [t [Ht Hin]]. exists t. split; [|split; assumption].
    eapply Permutation_in; [exact HP|]. apply in_or_app. right. apply in_or_app. right. exact Hin.
  Qed.

  Lemma dinv_in s t : dinv s -> In t (d_new s ++ d_run s ++ d_done s) -> In t ts.
  Proof. intros [HP _ _] H. eapply Permutation_in; [exact HP|exact H]. Qed.

  (* ---- one step: events and counters ---- *)

  Lemma dstep_starts s l k :
    count_start k (snd (dstep m v s l)) + creg k (d_run s ++ d_done s)
    = creg k (d_run (fst (dstep m v s l)) ++ d_done (fst (dstep m v s l))).
  Proof.
    destruct l as [k0|k0|]; cbn [dstep].
    - destruct (extract k0 (d_new s)) as [[t new']|] eqn:E; [|reflexivity].
      destruct (snd t) as [h|] eqn:Eh; cbn [fst snd d_run d_done].
      + unfold creg at 2. rewrite <- app_assoc, !countb_app. fold (creg k (d_run s)) (creg k (d_done s)).
        unfold creg at 1. rewrite countb_app. fold (creg k (d_run s)) (creg k (d_done s)).
        unfold count_start. rewrite !countb_cons, !countb_nil. cbn [is_start_of fst snd].
        rewrite Eh. cbn [is_some]. rewrite andb_true_r. lia.
      + unfold creg at 2. rewrite app_assoc, countb_app. rewrite countb_cons, countb_nil.
        rewrite Eh. cbn [is_some]. rewrite andb_false_r. unfold count_start. rewrite countb_nil.
        unfold creg. lia.
    - destruct (extract k0 (d_run s)) as [[t run']|] eqn:E; [|reflexivity].
      destruct (extract_some _ _ _ _ E) as [PE _]. cbn [fst snd d_run d_done].
      assert (C : count_start k (match snd t with Some h => [EEnd m (fst t) h (v h)] | None => [] end) = 0).
      { destruct (snd t); reflexivity. }
      rewrite C. cbn [plus]. unfold creg. apply countb_perm.
      rewrite PE. cbn [app]. rewrite app_assoc. apply Permutation_cons_append.
    - destruct (d_ret s); [reflexivity|]. destruct (d_left s); [reflexivity|].
      destruct (d_queue s) as [|[e|] q]; reflexivity.
  Qed.

  Lemma dstep_ends s l k :
    count_end k (snd (dstep m v s l)) + creg k (d_done s) = creg k (d_done (fst (dstep m v s l))).
  Proof.
    destruct l as [k0|k0|]; cbn [dstep].
    - destruct (extract k0 (d_new s)) as [[t new']|] eqn:E; [|reflexivity].
      destruct (snd t) as [h|] eqn:Eh; cbn [fst snd d_run d_done]; [reflexivity|].
      unfold creg. rewrite countb_app, countb_cons, countb_nil, Eh. cbn [is_some].
      rewrite andb_false_r. unfold count_end. rewrite countb_nil. lia.
    - destruct (extract k0 (d_run s)) as [[t run']|] eqn:E; [|reflexivity].
      cbn [fst snd d_run d_done]. unfold creg. rewrite countb_app, countb_cons, countb_nil.
      destruct (snd t) as [h|] eqn:Eh; cbn [is_some].
      + unfold count_end. rewrite countb_cons, countb_nil. cbn [is_end_of]. rewrite andb_true_r. lia.
      + unfold count_end. rewrite countb_nil, andb_false_r. lia.
    - destruct (d_ret s); [reflexivity|]. destruct (d_left s); [reflexivity|].
      destruct (d_queue s) as [|[e|] q]; reflexivity.
  Qed.

  (* the events of a step: at most one, never a return, and a call of a goroutine of ts *)
  Definition dev_ok (s : dstate) (e : event) : Prop :=
    match e with
    | EStart m' k h => m' = m /\ In (k, Some h) (d_new s)
    | EEnd m' k h ok => m' = m /\ In (k, Some h) (d_run s) /\ ok = v h
    | ERet _ => False
    end.

  Lemma dstep_events s l :
    snd (dstep m v s l) = [] \/ exists e, snd (dstep m v s l) = [e] /\ dev_ok s e.
  Proof.
    destruct l as [k0|k0|]; cbn [dstep].
    - destruct (extract k0 (d_new s)) as [[t new']|] eqn:E; [|left; reflexivity].
      destruct (extract_some _ _ _ _ E) as [PE _].
      destruct (snd t) as [h|] eqn:Eh; cbn [snd]; [|left; reflexivity].
      right. eexists. split; [reflexivity|]. cbn [dev_ok]. split; [reflexivity|].
      eapply Permutation_in; [symmetry; exact PE|]. left. destruct t; cbn [fst snd] in *. congruence.
    - destruct (extract k0 (d_run s)) as [[t run']|] eqn:E; [|left; reflexivity].
      destruct (extract_some _ _ _ _ E) as [PE _]. cbn [snd].
      destruct (snd t) as [h|] eqn:Eh; [|left; reflexivity].
      right. eexists. split; [reflexivity|]. cbn [dev_ok]. split; [reflexivity|]. split; [|reflexivity].
      eapply Permutation_in; [symmetry; exact PE|]. left. destruct t; cbn [fst snd] in *. congruence.
    - left. destruct (d_ret s); [reflexivity|]. destruct (d_left s); [reflexivity|].
      destruct (d_queue s) as [|[e|] q]; reflexivity.
  Qed.

  (* finished registered calls have their EEnd in the trace *)
  Definition done_logged (s : dstate) (tr : list event) : Prop :=
    forall k h, In (k, Some h) (d_done s) -> In (EEnd m k h (v h)) tr.

  Lemma done_logged_step s l tr :
    done_logged s tr -> done_logged (fst (dstep m v s l)) (tr ++ snd (dstep m v s l)).
  Proof.
    intros H k h Hin. destruct l as [k0|k0|]; cbn [dstep] in *.
    - destruct (extract k0 (d_new s)) as [[t new']|] eqn:E; [|cbn [fst snd] in *; rewrite app_nil_r; auto].
      destruct (snd t) as [h'|] eqn:Eh; cbn [fst snd d_done] in *.
      + apply in_or_app. left. auto.
      + rewrite app_nil_r. apply in_app_or in Hin. destruct Hin as [Hin|[Ht|[]]]; [auto|].
        subst t. cbn [snd] in Eh. discriminate.
    - destruct (extract k0 (d_run s)) as [[t run']|] eqn:E; [|cbn [fst snd] in *; rewrite app_nil_r; auto].
      cbn [fst snd d_done] in *. apply in_or_app. apply in_app_or in Hin.
      destruct Hin as [Hin|[Ht|[]]]; [left; auto|]. subst t. right. cbn [fst snd]. left. reflexivity.
    - assert (E : d_done (fst (match d_ret s with
        | Some _ => (s, [])
        | None => match d_left s with
            | 0 => (mkD (d_new s) (d_run s) (d_done s) (d_queue s) 0 (Some None), [])
            | S n => match d_queue s with
                | [] => (s, [])
                | None :: q => (mkD (d_new s) (d_run s) (d_done s) q n None, [])
                | Some e :: q => (mkD (d_new s) (d_run s) (d_done s) q n (Some (Some e)), [])
                end end end : dstate * list event)) = d_done s).
      { destruct (d_ret s); [reflexivity|]. destruct (d_left s); [reflexivity|].
        destruct (d_queue s) as [|[e|] q]; reflexivity. }
      rewrite E in Hin. apply in_or_app. left. auto.
  Qed.

  (* SRecv changes neither the goroutines nor produces events *)
  Lemma dstep_recv_tasks s :
    d_new (fst (dstep m v s SRecv)) = d_new s /\ d_run (fst (dstep m v s SRecv)) = d_run s /\
    d_done (fst (dstep m v s SRecv)) = d_done s /\ snd (dstep m v s SRecv) = [].
  Proof.
    cbn [dstep]. destruct (d_ret s); [auto|]. destruct (d_left s); [auto|].
    destruct (d_queue s) as [|[e|] q]; auto.
  Qed.

  (* a task step does not touch the return value *)
  Lemma dstep_task_ret s l : l <> SRecv -> d_ret (fst (dstep m v s l)) = d_ret s.
  Proof.
    destruct l as [k0|k0|]; intro H; [| |congruence]; cbn [dstep].
    - destruct (extract k0 (d_new s)) as [[t new']|]; [|reflexivity]. destruct (snd t); reflexivity.
    - destruct (extract k0 (d_run s)) as [[t run']|]; reflexivity.
  Qed.

  (* once returned, the return value never changes *)
  Lemma dstep_ret_stable s l r : d_ret s = Some r -> d_ret (fst (dstep m v s l)) = Some r.
  Proof.
    intro H. destruct l as [k0|k0|].
    - rewrite dstep_task_ret by discriminate. exact H.
    - rewrite dstep_task_ret by discriminate. exact H.
    - cbn [dstep]. rewrite H. exact H.
  Qed.
End Dispatch.

(* ---------- generic facts about runs and traces ---------- *)

Lemma run_inv {S L : Type} (step : S -> L -> S * list event) (P : S -> list event -> Prop) :
  (forall s tr l, P s tr -> P (fst (step s l)) (tr ++ snd (step s l))) ->
  forall ls s tr, P s tr -> P (fst (run step (s, tr) ls)) (snd (run step (s, tr) ls)).
Proof.
  intro HS. induction ls as [|l ls IH]; intros s tr HP; [exact HP|].
  unfold run. cbn [fold_left fst snd]. specialize (HS s tr l HP).
  destruct (step s l) as [s' ev]. cbn [fst snd] in HS. apply (IH s' (tr ++ ev) HS).
Qed.

Lemma app_single_split {A} (tr pre post : list A) (e x : A) :
  tr ++ [e] = pre ++ x :: post ->
  (post = [] /\ pre = tr /\ x = e) \/ (exists post', post = post' ++ [e] /\ tr = pre ++ x :: post').
Proof.
  intro H. destruct post as [|y post0].
  - left. apply app_inj_tail in H. destruct H as [-> ->]. auto.
  - right. destruct (@exists_last _ (y :: post0)) as [post' [z Hz]]; [discriminate|].
    rewrite Hz in *. replace (pre ++ x :: post' ++ [z]) with ((pre ++ x :: post') ++ [z]) in H
      by (rewrite <- app_assoc; reflexivity).
    apply app_inj_tail in H. destruct H as [-> ->]. exists post'. auto.
Qed.

Lemma count_start_ret k o : count_start k [ERet o] = 0. Proof. reflexivity. Qed.
Lemma count_end_ret k o : count_end k [ERet o] = 0. Proof. reflexivity. Qed.

Lemma dlabel_eq_recv (l : dlabel) : {l = SRecv} + {l <> SRecv}.
Proof. destruct l; [right; discriminate|right; discriminate|left; reflexivity]. Qed.

(* ---------- Adjudicator.Register / Progress / Withdraw ---------- *)

Section Adjudicator.
  Variable m : method.
  Variable v : hid -> bool.
  Variable reg : registry.
  Variable ids : list key.
  Hypothesis ids_nodup : NoDup ids.
  Let ts := tasks_of reg ids.

  Lemma astep_fst s l : fst (astep m v s l) = fst (dstep m v s l).
  Proof.
    destruct l; cbn [astep]; try reflexivity.
    destruct (d_ret s); destruct (d_ret (fst (dstep m v s SRecv))); reflexivity.
  Qed.

  Lemma astep_snd_task s l : l <> SRecv -> snd (astep m v s l) = snd (dstep m v s l).
  Proof. destruct l; intro H; try reflexivity. congruence. Qed.

  Lemma astep_snd_recv s :
    snd (astep m v s SRecv) =
    match d_ret s, d_ret (fst (dstep m v s SRecv)) with
    | None, Some r => [ERet (out_of r)]
    | _, _ => []
    end.
  Proof.
    cbn [astep]. destruct (d_ret s); destruct (d_ret (fst (dstep m v s SRecv))); reflexivity.
  Qed.

  Lemma task_lookup k h : In (k, Some h) ts -> In k ids /\ reg_lookup reg k = Some h.
  Proof. intro H. apply tasks_of_In in H. cbn [fst snd] in H. destruct H. split; congruence. Qed.

  Lemma dev_ok_legit s e : dinv v ts s -> dev_ok m v s e -> ev_legit m reg v ids e.
  Proof.
    intros I H. destruct e as [m' k h|m' k h ok|o]; cbn [dev_ok ev_legit] in *.
    - destruct H as [-> H]. split; [reflexivity|]. apply task_lookup. eapply dinv_in; [exact I|].
      apply in_or_app. left. exact H.
    - destruct H as [-> [H ->]]. split; [reflexivity|].
      assert (In (k, Some h) ts) as Hin.
      { eapply dinv_in; [exact I|]. apply in_or_app. right. apply in_or_app. left. exact H. }
      apply task_lookup in Hin. destruct Hin. auto.
    - contradiction.
  Qed.

  Record ainv (s : dstate) (tr : list event) : Prop := mkAinv {
    ai_d : dinv v ts s;
    ai_starts : forall k, count_start k tr = creg k (d_run s ++ d_done s);
    ai_ends : forall k, count_end k tr = creg k (d_done s);
    ai_legit : Forall (ev_legit m reg v ids) tr;
    ai_logged : done_logged m v s tr;
    ai_nret : countb is_ret tr = if d_ret s then 1 else 0;
    ai_ret : forall o, In (ERet o) tr -> exists r, d_ret s = Some r /\ o = out_of r;
    ai_sync : forall pre post, tr = pre ++ ERet OOk :: post ->
              forall k, In k ids -> exists h, reg_lookup reg k = Some h /\ v h = true /\ In (EEnd m k h true) pre }.

  Lemma ainv_init : ainv (d_init reg ids) [].
  Proof.
    constructor; cbn [d_init d_new d_run d_done d_ret app].
    - constructor; cbn [d_init d_new d_run d_done d_ret d_queue d_left app].
      + rewrite app_nil_r. apply Permutation_refl.
      + constructor.
      + exists []. split; [reflexivity|]. split; [constructor|]. unfold ts. rewrite tasks_of_length. reflexivity.
    - reflexivity.
    - reflexivity.
    - constructor.
    - intros k h [].
    - reflexivity.
    - intros o [].
    - intros pre post H. destruct pre; discriminate.
  Qed.

  Lemma ok_all s tr : dinv v ts s -> done_logged m v s tr -> d_ret s = Some None ->
    forall k, In k ids -> exists h, reg_lookup reg k = Some h /\ v h = true /\ In (EEnd m k h true) tr.
  Proof.
    intros I HL ER k Hk. destruct (dinv_ret_ok v ts s I ER) as [_ [_ [_ [HP HF]]]].
    assert (Hin : In (k, reg_lookup reg k) ts) by (apply tasks_of_In; cbn [fst snd]; auto).
    rewrite Forall_forall in HF. specialize (HF _ Hin). apply tres_none in HF.
    destruct HF as [h [Hh Hv]]. cbn [snd] in Hh. exists h. split; [exact Hh|]. split; [exact Hv|].
    rewrite <- Hv. apply HL. rewrite <- Hh. eapply Permutation_in; [symmetry; exact HP|exact Hin].
  Qed.

  Lemma ainv_step s tr l : ainv s tr -> ainv (fst (astep m v s l)) (tr ++ snd (astep m v s l)).
  Proof.
    intros [ID HS HE HLg HLog HN HR HSy].
    assert (ID' : dinv v ts (fst (dstep m v s l))) by (apply dinv_step; exact ID).
    destruct (dlabel_eq_recv l) as [->|NR].
    - (* SRecv *)
      rewrite astep_fst, astep_snd_recv.
      destruct (dstep_recv_tasks m v s) as [E1 [E2 [E3 E4]]].
      set (s' := fst (dstep m v s SRecv)) in *.
      assert (HLog' : done_logged m v s' tr) by (unfold done_logged; rewrite E3; exact HLog).
      destruct (d_ret s) as [r|] eqn:ER.
      + (* already returned *)
        assert (ER' : d_ret s' = Some r) by (apply dstep_ret_stable; exact ER).
        rewrite app_nil_r. constructor; try assumption.
        * intro k. rewrite E2, E3. apply HS.
        * intro k. rewrite E3. apply HE.
        * rewrite ER'. exact HN.
        * intros o Ho. rewrite ER'. apply HR. exact Ho.
      + destruct (d_ret s') as [r'|] eqn:ER'.
        * (* returns now *)
          constructor; try assumption.
          -- intro k. unfold count_start. rewrite countb_app. fold (count_start k tr) (count_start k [ERet (out_of r')]).
             rewrite count_start_ret, E2, E3, HS. lia.
          -- intro k. unfold count_end. rewrite countb_app. fold (count_end k tr) (count_end k [ERet (out_of r')]).
             rewrite count_end_ret, E3, HE. lia.
          -- apply Forall_app. split; [exact HLg|]. constructor; [exact I|constructor].
          -- intros k h Hin. apply in_or_app. left. apply HLog'. exact Hin.
          -- rewrite countb_app, HN, ER'. reflexivity.
          -- intros o Ho. apply in_app_or in Ho. destruct Ho as [Ho|[Ho|[]]].
             ++ apply HR in Ho. destruct Ho as [r0 [Hr0 _]]. discriminate.
             ++ injection Ho as <-. exists r'. auto.
          -- intros pre post Hsp k Hk. apply app_single_split in Hsp.
             destruct Hsp as [[_ [-> Ho]]|[post' [_ Htr]]].
             ++ injection Ho as Ho. destruct r' as [e|]; [discriminate|].
                apply (ok_all s' tr ID' HLog' ER' k Hk).
             ++ apply (HSy pre post' Htr k Hk).
        * rewrite app_nil_r. constructor; try assumption.
          -- intro k. rewrite E2, E3. apply HS.
          -- intro k. rewrite E3. apply HE.
          -- rewrite ER'. exact HN.
          -- intros o Ho. apply HR in Ho. destruct Ho as [r0 [Hr0 _]]. discriminate.
    - (* a goroutine step *)
      rewrite astep_fst, astep_snd_task by exact NR.
      pose proof (dstep_task_ret m v s l NR) as ER.
      constructor.
      + exact ID'.
      + intro k. unfold count_start. rewrite countb_app. fold (count_start k tr).
        fold (count_start k (snd (dstep m v s l))). rewrite <- (dstep_starts m v s l k), HS. lia.
      + intro k. unfold count_end. rewrite countb_app. fold (count_end k tr).
        fold (count_end k (snd (dstep m v s l))). rewrite <- (dstep_ends m v s l k), HE. lia.
      + apply Forall_app. split; [exact HLg|].
        destruct (dstep_events m v s l) as [->|[e [-> He]]]; [constructor|].
        constructor; [|constructor]. exact (dev_ok_legit s e ID He).
      + apply done_logged_step. exact HLog.
      + rewrite countb_app, HN, ER.
        destruct (dstep_events m v s l) as [->|[e [-> He]]]; [rewrite countb_nil; lia|].
        rewrite countb_cons, countb_nil. destruct e; cbn [dev_ok] in He; [| |contradiction]; cbn [is_ret]; lia.
      + intros o Ho. rewrite ER. apply in_app_or in Ho. destruct Ho as [Ho|Ho]; [apply HR; exact Ho|].
        destruct (dstep_events m v s l) as [E|[e [E He]]]; rewrite E in Ho; [contradiction|].
        destruct Ho as [->|[]]. cbn [dev_ok] in He. contradiction.
      + intros pre post Hsp k Hk.
        destruct (dstep_events m v s l) as [E|[e [E He]]]; rewrite E in Hsp.
        * rewrite app_nil_r in Hsp. apply (HSy pre post Hsp k Hk).
        * apply app_single_split in Hsp. destruct Hsp as [[_ [_ Ho]]|[post' [_ Htr]]].
          -- subst e. cbn [dev_ok] in He. contradiction.
          -- apply (HSy pre post' Htr k Hk).
  Qed.

  Lemma adj_run_inv sched :
    ainv (fst (adj_run m reg v ids sched)) (snd (adj_run m reg v ids sched)).
  Proof.
    unfold adj_run. apply (run_inv (astep m v) ainv).
    - intros s tr l H. apply ainv_step. exact H.
    - apply ainv_init.
  Qed.

  (* -- consequences -- *)

  Lemma creg_le s k : dinv v ts s ->
    creg k (d_run s ++ d_done s) <= if kmem k ids && registered reg k then 1 else 0.
  Proof.
    intros [HP _ _]. rewrite <- (creg_tasks_of reg ids k ids_nodup). fold ts.
    unfold creg. rewrite <- (countb_perm _ _ _ HP), !countb_app. apply Nat.le_add_l.
  Qed.

  Lemma creg_complete s k : dinv v ts s -> d_new s = [] ->
    creg k (d_run s ++ d_done s) = if kmem k ids && registered reg k then 1 else 0.
  Proof.
    intros [HP _ _] HN. rewrite <- (creg_tasks_of reg ids k ids_nodup). fold ts.
    unfold creg. rewrite <- (countb_perm _ _ _ HP), HN. reflexivity.
  Qed.

  (* safety, under every schedule and at every moment: at most one call per ledger, only on
     registered ledgers of the asset list, with the right method and handler *)
  Lemma adj_calls_safe sched s tr : adj_run m reg v ids sched = (s, tr) ->
    (forall k, count_start k tr <= if kmem k ids && registered reg k then 1 else 0) /\
    (forall k, count_end k tr <= count_start k tr) /\
    Forall (ev_legit m reg v ids) tr.
  Proof.
    intro H. pose proof (adj_run_inv sched) as I. rewrite H in I. cbn [fst snd] in I.
    destruct I as [ID HS HE HLg _ _ _ _]. split; [|split].
    - intro k. rewrite HS. apply creg_le. exact ID.
    - intro k. rewrite HS, HE. unfold creg. rewrite countb_app. lia.
    - exact HLg.
  Qed.

  (* once everything has finished: exactly one call, started and ended, per registered distinct ledger *)
  Lemma adj_calls_exact sched s tr : adj_run m reg v ids sched = (s, tr) -> d_complete s ->
    forall k, count_start k tr = (if kmem k ids && registered reg k then 1 else 0) /\
              count_end k tr = (if kmem k ids && registered reg k then 1 else 0).
  Proof.
    intros H [CN [CR _]] k. pose proof (adj_run_inv sched) as I. rewrite H in I. cbn [fst snd] in I.
    destruct I as [ID HS HE _ _ _ _ _].
    rewrite HS, HE. rewrite <- (creg_complete s k ID CN). rewrite CR. split; reflexivity.
  Qed.

  Lemma all_ok_iff : Forall (fun t => tres v t = None) ts <-> forallb (ledger_ok reg v) ids = true.
  Proof.
    rewrite forallb_forall, Forall_forall. split.
    - intros H k Hk. assert (Hin : In (k, reg_lookup reg k) ts) by (apply tasks_of_In; cbn [fst snd]; auto).
      apply H in Hin. apply tres_none in Hin. destruct Hin as [h [Hh Hv]]. cbn [snd] in Hh.
      unfold ledger_ok. rewrite Hh. exact Hv.
    - intros H t Ht. apply tasks_of_In in Ht. destruct Ht as [Hk Hs]. apply H in Hk.
      unfold ledger_ok in Hk. apply tres_none. rewrite Hs.
      destruct (reg_lookup reg (fst t)) as [h|]; [|discriminate]. exists h. auto.
  Qed.

  Lemma tres_failing t e : In t ts -> tres v t = Some e -> failing reg v ids e.
  Proof.
    intros Ht He. apply tasks_of_In in Ht. destruct Ht as [Hk Hs].
    apply tres_some in He. destruct He as [[Hn ->]|[h [Hh [Hv ->]]]]; cbn [failing].
    - split; [exact Hk|congruence].
    - exists (fst t). split; [exact Hk|]. split; [congruence|exact Hv].
  Qed.

  Lemma failing_not_ok e : failing reg v ids e -> forallb (ledger_ok reg v) ids = false.
  Proof.
    intro H. destruct (forallb (ledger_ok reg v) ids) eqn:E; [|reflexivity].
    rewrite forallb_forall in E. destruct e as [k|h]; cbn [failing] in H.
    - destruct H as [Hk Hn]. apply E in Hk. unfold ledger_ok in Hk. rewrite Hn in Hk. discriminate.
    - destruct H as [k [Hk [Hh Hv]]]. apply E in Hk. unfold ledger_ok in Hk. rewrite Hh in Hk. congruence.
  Qed.

  (* the result, under every schedule: nil iff every distinct ledger is registered and every call
     succeeded; an error is the error of a ledger that really failed *)
  Lemma adj_result sched s tr : adj_run m reg v ids sched = (s, tr) ->
    forall r, d_ret s = Some r ->
    (r = None <-> forallb (ledger_ok reg v) ids = true) /\
    (forall e, r = Some e -> failing reg v ids e).
  Proof.
    intros H r ER. pose proof (adj_run_inv sched) as I. rewrite H in I. cbn [fst snd] in I.
    destruct I as [ID _ _ _ _ _ _ _]. destruct r as [e|].
    - destruct (dinv_ret_err v ts s e ID ER) as [t [Ht [_ He]]].
      pose proof (tres_failing t e Ht He) as HF. split.
      + split; [discriminate|]. intro HA. rewrite (failing_not_ok e HF) in HA. discriminate.
      + intros e' He'. injection He' as <-. exact HF.
    - destruct (dinv_ret_ok v ts s ID ER) as [_ [_ [_ [_ HA]]]]. split.
      + split; [intros _; apply all_ok_iff; exact HA|reflexivity].
      + intros e He. discriminate.
  Qed.

  (* a nil return happens after every sub-call has returned successfully *)
  Lemma adj_ok_after_all sched s tr : adj_run m reg v ids sched = (s, tr) ->
    forall pre post, tr = pre ++ ERet OOk :: post ->
    forall k, In k ids -> exists h, reg_lookup reg k = Some h /\ v h = true /\ In (EEnd m k h true) pre.
  Proof.
    intro H. pose proof (adj_run_inv sched) as I. rewrite H in I. cbn [fst snd] in I.
    destruct I as [_ _ _ _ _ _ _ HSy]. exact HSy.
  Qed.

  (* the method returns at most once and the ERet event carries the returned value *)
  Lemma adj_ret_event sched s tr : adj_run m reg v ids sched = (s, tr) ->
    countb is_ret tr = (if d_ret s then 1 else 0) /\
    (forall o, In (ERet o) tr -> exists r, d_ret s = Some r /\ o = out_of r).
  Proof.
    intro H. pose proof (adj_run_inv sched) as I. rewrite H in I. cbn [fst snd] in I.
    destruct I as [_ _ _ _ _ HN HR _]. split; assumption.
  Qed.
End Adjudicator.

(* ---------- facts used by the funder ---------- *)

Lemma dinv_init v reg ids : dinv v (tasks_of reg ids) (d_init reg ids).
Proof.
  constructor; cbn [d_init d_new d_run d_done d_ret d_queue d_left app].
  - rewrite app_nil_r. apply Permutation_refl.
  - constructor.
  - exists []. split; [reflexivity|]. split; [constructor|]. rewrite tasks_of_length. reflexivity.
Qed.

Lemma done_logged_mono m v s tr ev : done_logged m v s tr -> done_logged m v s (tr ++ ev).
Proof. intros H k h Hin. apply in_or_app. left. apply H. exact Hin. Qed.

Lemma ev_legit_incl m reg v ids1 ids2 ev : incl ids1 ids2 -> ev_legit m reg v ids1 ev -> ev_legit m reg v ids2 ev.
Proof.
  intros HI H. destruct ev as [m' k h|m' k h ok|o]; cbn [ev_legit] in *.
  - destruct H as [H1 [H2 H3]]. auto.
  - destruct H as [H1 [H2 [H3 H4]]]. auto.
  - exact H.
Qed.

Lemma failing_incl reg v ids1 ids2 e : incl ids1 ids2 -> failing reg v ids1 e -> failing reg v ids2 e.
Proof.
  intros HI H. destruct e as [k|h]; cbn [failing] in *.
  - destruct H. auto.
  - destruct H as [k [H1 H2]]. exists k. auto.
Qed.

Lemma creg_tasks_app reg l1 l2 k : creg k (tasks_of reg (l1 ++ l2)) = creg k (tasks_of reg l1) + creg k (tasks_of reg l2).
Proof. unfold tasks_of, creg. rewrite map_app, countb_app. reflexivity. Qed.

(* ---------- the split of Fund ---------- *)

Definition shift_ego (ego : option Z) (i : Z) : option Z :=
  match ego with Some x => Some (x - i)%Z | None => None end.

Lemma split_loop_spec ego : forall ids i e0 ne0,
  split_loop ego i ids e0 ne0 = (e0 ++ ego_sel (shift_ego ego i) ids, ne0 ++ ego_rest (shift_ego ego i) ids).
Proof.
  induction ids as [|l r IH]; intros i e0 ne0; cbn [split_loop].
  - destruct ego as [x|]; cbn [shift_ego ego_sel ego_rest].
    + destruct (0 <=? x - i)%Z.
      * destruct (Z.to_nat (x - i)); cbn [nth_error firstn skipn app]; rewrite !app_nil_r; reflexivity.
      * rewrite !app_nil_r. reflexivity.
    + rewrite !app_nil_r. reflexivity.
  - destruct ego as [x|]; cbn [shift_ego ego_sel ego_rest].
    + destruct (Z.eqb_spec x i) as [->|N].
      * rewrite IH. cbn [shift_ego ego_sel ego_rest].
        replace (i - i)%Z with 0%Z by lia. replace (i - (i + 1))%Z with (-1)%Z by lia.
        cbn. rewrite <- !app_assoc. reflexivity.
      * rewrite IH. cbn [shift_ego ego_sel ego_rest].
        destruct (0 <=? x - i)%Z eqn:E1.
        -- assert (E2 : (0 <=? x - (i + 1))%Z = true) by lia. rewrite E2.
           assert (E3 : Z.to_nat (x - i) = S (Z.to_nat (x - (i + 1)))) by lia. rewrite E3.
           cbn [nth_error firstn skipn app]. rewrite <- !app_assoc. reflexivity.
        -- assert (E2 : (0 <=? x - (i + 1))%Z = false) by lia. rewrite E2.
           rewrite <- !app_assoc. reflexivity.
    + rewrite IH. cbn [shift_ego ego_sel ego_rest]. rewrite <- !app_assoc. reflexivity.
Qed.

Lemma fund_split_spec ego ids : fund_split ego ids = (ego_sel ego ids, ego_rest ego ids).
Proof.
  unfold fund_split. rewrite split_loop_spec. cbn [app].
  destruct ego as [x|]; cbn [shift_ego]; [|reflexivity]. rewrite Z.sub_0_r. reflexivity.
Qed.

Lemma ego_split_perm ego ids : Permutation (ego_sel ego ids ++ ego_rest ego ids) ids.
Proof.
  destruct ego as [x|]; cbn [ego_sel ego_rest]; [|apply Permutation_refl].
  destruct (0 <=? x)%Z; [|apply Permutation_refl].
  destruct (nth_error ids (Z.to_nat x)) as [k|] eqn:E.
  - apply nth_error_split in E. destruct E as [l1 [l2 [-> HL]]].
    rewrite <- HL. rewrite firstn_app, Nat.sub_diag, firstn_all. cbn [firstn]. rewrite app_nil_r.
    replace (S (length l1)) with (length l1 + 1) by lia.
    rewrite skipn_app. replace (length l1 + 1 - length l1) with 1 by lia.
    rewrite skipn_all2 by lia. cbn [skipn app].
    apply Permutation_middle.
  - apply nth_error_None in E. rewrite firstn_all2 by lia. rewrite skipn_all2 by lia.
    cbn [app]. rewrite app_nil_r. apply Permutation_refl.
Qed.

Lemma ego_sel_cases ego ids :
  ego_sel ego ids = [] \/ exists k, ego_sel ego ids = [k] /\ In k ids.
Proof.
  destruct ego as [x|]; cbn [ego_sel]; [|left; reflexivity].
  destruct (0 <=? x)%Z; [|left; reflexivity].
  destruct (nth_error ids (Z.to_nat x)) as [k|] eqn:E; [|left; reflexivity].
  right. exists k. split; [reflexivity|]. eapply nth_error_In. exact E.
Qed.
