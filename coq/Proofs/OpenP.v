(* Theorems about the channel opening model (C08). *)
From Coq Require Import Arith PeanoNat ZifyN ZifyNat ZifyBool.
From V Require Import Model.Open Model.OpenSpec Proofs.ChannelP Proofs.MachineP.
Open Scope N_scope.

(* ---------- generic helpers ---------- *)
Lemma list_eqb_Forall2 {A} (f : A -> A -> bool) a b :
  list_eqb f a b = true -> Forall2 (fun x y => f x y = true) a b.
Proof.
  revert b; induction a as [|x a IH]; intros [|y b] H; cbn [list_eqb] in H; try discriminate; constructor.
  - apply andb_true_iff in H as [H _]. exact H.
  - apply IH. apply andb_true_iff in H as [_ H]. exact H.
Qed.

Lemma Forall2_impl {A B} (P Q : A -> B -> Prop) a b :
  (forall x y, P x y -> Q x y) -> Forall2 P a b -> Forall2 Q a b.
Proof. intros H F. induction F; constructor; auto. Qed.

Lemma bals_ge_Within parent sub : bals_ge parent sub = true -> Within parent sub.
Proof.
  intro H. apply list_eqb_Forall2 in H. eapply Forall2_impl; [|exact H].
  intros prow srow R. apply list_eqb_Forall2 in R. eapply Forall2_impl; [|exact R].
  intros x y L. apply Z.leb_le. exact L.
Qed.

Lemma equal_wire_maps_WireEq a b : equal_wire_maps a b = true -> WireEq a b.
Proof.
  unfold equal_wire_maps, WireEq. intro H. apply andb_true_iff in H as [L F].
  apply Nat.eqb_eq in L. split; [exact L|].
  intros k v I. rewrite forallb_forall in F. specialize (F (k, v) I). cbn [fst snd] in F.
  destruct (amap_get k b) as [w|]; [|discriminate F].
  apply bytes_eqb_eq in F. congruence.
Qed.

Lemma len_eq_length {A B} (l : list A) (m : list B) : len l = len m -> length l = length m.
Proof. unfold len. lia. Qed.

(* ---------- the allocation check ---------- *)
Lemma num_peers_num_parts a np : num_peers a = Some np -> num_parts (al_bals a) = np.
Proof. unfold num_peers, num_parts. destruct (al_bals a); [discriminate|]. intro H. injection H as <-. reflexivity. Qed.

Lemma nonneg_Forall r : nonneg r = true -> Forall (fun z => (0 <= z)%Z) r.
Proof.
  unfold nonneg. intro H. apply Forall_forall. intros z I. rewrite forallb_forall in H.
  apply Z.leb_le. apply H. exact I.
Qed.

Lemma alloc_valid_good a np :
  alloc_valid a = true -> no_locked a = true -> num_peers a = Some np -> GoodAlloc a (N.to_nat np).
Proof.
  unfold alloc_valid. intros V L P. apply num_peers_num_parts in P. rewrite P in V. split_and.
  repeat match goal with H : negb _ = true |- _ => apply negb_true_iff in H end.
  repeat match goal with H : (_ =? _) = false |- _ => apply N.eqb_neq in H end.
  repeat match goal with H : (_ =? _) = true |- _ => apply N.eqb_eq in H end.
  repeat match goal with H : (_ <=? _) = true |- _ => apply N.leb_le in H end.
  split.
  - split; [|assumption]. intro E. rewrite E in *. cbn in *. congruence.
  - apply len_eq_length. assumption.
  - apply Forall_forall. intros r I.
    match goal with H : forallb _ (al_bals a) = true |- _ => rewrite forallb_forall in H; specialize (H r I) end.
    split_and. split.
    + match goal with H : (len r =? np) = true |- _ => apply N.eqb_eq in H; unfold len in H end. lia.
    + apply nonneg_Forall. assumption.
  - unfold no_locked in L. destruct (al_locked a); [reflexivity|discriminate].
Qed.

(* ---------- transformBalances ---------- *)
Lemma nth_error_set_nth_same {A} i (x : A) l : (i < length l)%nat -> nth_error (set_nth i x l) i = Some x.
Proof. revert i; induction l as [|y l IH]; intros [|i] H; cbn in *; try lia; auto. apply IH. lia. Qed.
Lemma nth_error_set_nth_other {A} i j (x : A) l : i <> j -> nth_error (set_nth i x l) j = nth_error l j.
Proof. revert i j; induction l as [|y l IH]; intros [|i] [|j] H; cbn; auto; try congruence. Qed.

Lemma fill_keeps row im p acc out j :
  fill row im p acc = Some out -> ~ In j (map N.to_nat im) -> nth_error out j = nth_error acc j.
Proof.
  revert p acc; induction im as [|q r IH]; intros p acc H N; cbn [fill] in H.
  - injection H as <-. reflexivity.
  - destruct (nth_error row p) as [v|]; [|discriminate H].
    destruct (N.to_nat q <? length acc)%nat; [|discriminate H].
    cbn [map In] in N. rewrite (IH _ _ H) by tauto.
    apply nth_error_set_nth_other. tauto.
Qed.

Lemma fill_spec row im p acc out :
  fill row im p acc = Some out -> NoDup im ->
  forall i q, nth_error im i = Some q ->
    exists v, nth_error row (p + i) = Some v /\ nth_error out (N.to_nat q) = Some v.
Proof.
  revert p acc; induction im as [|q0 r IH]; intros p acc H ND i q Hi; cbn [fill] in H.
  - destruct i; discriminate Hi.
  - destruct (nth_error row p) as [v|] eqn:Ev; [|discriminate H].
    destruct (N.to_nat q0 <? length acc)%nat eqn:Eb; [|discriminate H].
    inversion ND as [|? ? Nin ND']; subst.
    destruct i as [|i]; cbn [nth_error] in Hi.
    + injection Hi as <-. exists v. rewrite Nat.add_0_r. split; [exact Ev|].
      rewrite (fill_keeps _ _ _ _ _ (N.to_nat q0) H).
      * apply nth_error_set_nth_same. apply Nat.ltb_lt. exact Eb.
      * intro I. apply in_map_iff in I as (x & Ex & Ix). apply N2Nat.inj in Ex. subst x. contradiction.
    + destruct (IH _ _ H ND' i q Hi) as (w & Hw & Ho). exists w. split; [|exact Ho].
      replace (p + S i)%nat with (S p + i)%nat by lia. exact Hw.
Qed.

Lemma map_opt_Forall2 {A B} (f : A -> option B) l out :
  map_opt f l = Some out -> Forall2 (fun x y => f x = Some y) l out.
Proof.
  revert out; induction l as [|x l IH]; intros out H; cbn [map_opt] in H.
  - injection H as <-. constructor.
  - destruct (f x) as [y|] eqn:E; [|discriminate H]. destruct (map_opt f l) as [ys|]; [|discriminate H].
    injection H as <-. constructor; auto.
Qed.

Lemma has_dup_NoDup l : has_dup l = false -> NoDup l.
Proof.
  induction l as [|x r IH]; cbn [has_dup]; intro H; constructor.
  - apply orb_false_iff in H as [H _]. intro I.
    assert (existsb (N.eqb x) r = true) as C; [|congruence].
    apply existsb_exists. exists x. split; [exact I|apply N.eqb_refl].
  - apply IH. apply orb_false_iff in H as [_ H]. exact H.
Qed.

Lemma transform_within parent virt nparts im vb :
  transform_balances virt nparts im = Some vb -> NoDup im -> bals_ge parent vb = true ->
  VirtWithin parent virt im.
Proof.
  unfold transform_balances, VirtWithin. intros T ND G.
  apply map_opt_Forall2 in T. apply list_eqb_Forall2 in G.
  revert parent G. induction T as [|vrow trow virt' vb' Hrow T IH]; intros parent G.
  - inversion G; subst. constructor.
  - inversion G as [|prow ? parent' ? Hge G']; subst. constructor; [|apply IH; exact G'].
    intros p q v Hq Hv. unfold transform_row in Hrow.
    destruct (fill_spec _ _ _ _ _ Hrow ND p q Hq) as (v' & Hv' & Ho). cbn [Nat.add] in Hv'.
    rewrite Hv in Hv'. injection Hv' as <-.
    apply list_eqb_Forall2 in Hge.
    clear - Hge Ho. revert Hge Ho. generalize (N.to_nat q) as j. intros j Hge.
    revert j. induction Hge as [|x y prow' trow' L Hge IH]; intros j Ho.
    + destruct j; discriminate Ho.
    + destruct j as [|j]; cbn [nth_error] in *.
      * injection Ho as ->. exists x. split; [reflexivity|]. apply Z.leb_le. exact L.
      * apply IH. exact Ho.
Qed.

(* ---------- C08_drop_bad ---------- *)
Ltac brk H :=
  repeat match type of H with
         | context [match ?x with _ => _ end] => let E := fresh "E" in destruct x eqn:E; try discriminate H
         end.

Lemma base_valid_ok b : base_valid repaired b = VOk ->
  exists a np, pb_bals b = Some a /\ num_peers a = Some np /\ alloc_valid a = true
    /\ validate_proposal_parameters (pb_cd b) np (pb_app b) = true /\ no_locked a = true.
Proof.
  unfold base_valid. cbn [repaired fx_valid_order]. intro H.
  destruct (pb_bals b) as [a|]; [|discriminate H].
  destruct (alloc_valid a) eqn:V; cbn [negb] in H; [|discriminate H].
  destruct (num_peers a) as [np|] eqn:P; [|discriminate H].
  destruct (validate_proposal_parameters (pb_cd b) np (pb_app b)) eqn:W; cbn [negb] in H; [|discriminate H].
  destruct (no_locked a) eqn:L; cbn [negb] in H; [|discriminate H].
  exists a, np. auto.
Qed.

Lemma vpp_spec cd np app : validate_proposal_parameters cd np app = true ->
  cd <> 0 /\ app <> ANil /\ (2 <= N.to_nat np)%nat /\ np <= MaxNumParts.
Proof.
  unfold validate_proposal_parameters. intro H. split_and.
  match goal with H : negb _ = true |- _ => apply negb_true_iff in H; apply N.eqb_neq in H end.
  repeat match goal with H : (_ <=? _) = true |- _ => apply N.leb_le in H end.
  unfold MinNumParts, Generated.MinNumParts in *.
  repeat split; try assumption; try lia. destruct app; [discriminate|discriminate|discriminate].
Qed.

Lemma valid_sub_ok ctx a parent : valid_sub ctx a parent = VOk ->
  exists c, find_chan ctx parent = Some c
    /\ al_assets (ci_alloc c) = al_assets a /\ al_backends (ci_alloc c) = al_backends a
    /\ Within (al_bals (ci_alloc c)) (al_bals a).
Proof.
  unfold valid_sub. intro H. destruct (find_chan ctx parent) as [c|]; [|discriminate H].
  destruct (nlist_eqb (al_assets (ci_alloc c)) (al_assets a)) eqn:A; cbn [negb] in H; [|discriminate H].
  destruct (nlist_eqb (al_backends (ci_alloc c)) (al_backends a)) eqn:B; cbn [negb] in H; [|discriminate H].
  destruct (bals_ge (al_bals (ci_alloc c)) (al_bals a)) eqn:G; cbn [negb] in H; [|discriminate H].
  exists c. repeat split; try (apply nlist_eqb_eq; assumption). apply bals_ge_Within. exact G.
Qed.

Lemma existsb_false_Forall {A} (f : A -> bool) l : existsb f l = false -> Forall (fun x => f x = false) l.
Proof.
  intro H. apply Forall_forall. intros x I. destruct (f x) eqn:E; [|reflexivity].
  assert (existsb f l = true) by (apply existsb_exists; eauto). congruence.
Qed.

Lemma valid_virt_ok ctx b a parents imaps np : num_peers a = Some np ->
  valid_virt repaired ctx b a parents imaps 1 = VOk ->
  length parents = N.to_nat np /\ length imaps = N.to_nat np /\ pb_fa b = al_bals a
  /\ exists pid c im,
       nth_error parents 1 = Some pid /\ find_chan ctx pid = Some c
       /\ al_assets (ci_alloc c) = al_assets a /\ al_backends (ci_alloc c) = al_backends a
       /\ nth_error imaps 1 = Some im
       /\ length im = N.to_nat np /\ Forall (fun q => (N.to_nat q < N.to_nat np)%nat) im /\ NoDup im
       /\ VirtWithin (al_bals (ci_alloc c)) (al_bals a) im.
Proof.
  intros P. unfold valid_virt. rewrite P. cbn [repaired fx_fa fx_imap_len fx_imap_dup andb]. intro H.
  destruct (len parents =? np) eqn:LP; cbn [negb] in H; [|discriminate H].
  destruct (nth_error parents 1) as [pid|] eqn:EP; [|discriminate H].
  destruct (find_chan ctx pid) as [c|] eqn:EC; [|discriminate H].
  destruct (nlist_eqb (al_assets (ci_alloc c)) (al_assets a)) eqn:A; cbn [negb] in H; [|discriminate H].
  destruct (nlist_eqb (al_backends (ci_alloc c)) (al_backends a)) eqn:B; cbn [negb] in H; [|discriminate H].
  destruct (balances_equal (al_bals a) (pb_fa b)) eqn:FA; cbn [negb] in H; [|discriminate H].
  destruct (len imaps =? np) eqn:LI; cbn [negb] in H; [|discriminate H].
  destruct (nth_error imaps 1) as [im|] eqn:EI; [|discriminate H].
  destruct (len im =? np) eqn:LM; cbn [negb] in H; [|discriminate H].
  destruct (existsb (fun q => np <=? q) im) eqn:EX; [discriminate H|].
  destruct (has_dup im) eqn:HD; [discriminate H|].
  destruct (num_peers (ci_alloc c)) as [nparts|]; [|discriminate H].
  destruct (transform_balances (al_bals a) (N.to_nat nparts) im) as [vb|] eqn:T; [|discriminate H].
  destruct (bals_ge (al_bals (ci_alloc c)) vb) eqn:G; [|discriminate H].
  apply N.eqb_eq in LP, LI, LM. unfold len in LP, LI, LM.
  apply has_dup_NoDup in HD.
  split; [lia|]. split; [lia|]. split; [symmetry; apply balances_equal_eq; exact FA|].
  exists pid, c, im. repeat split; try (apply nlist_eqb_eq; assumption); try reflexivity; try assumption.
  - lia.
  - apply existsb_false_Forall in EX. eapply Forall_impl; [|exact EX]. cbn beta. intros q Q.
    apply N.leb_gt in Q. lia.
  - eapply transform_within; eassumption.
Qed.

Lemma valid_two_party_good ctx sender p :
  valid_two_party repaired ctx p 1 sender = VOk -> GoodProposal ctx sender p.
Proof.
  intro V.
  all: unfold valid_two_party in V.
  all: destruct (proposal_valid repaired p) eqn:PV; try discriminate V.
  all: unfold proposal_valid in PV; destruct (base_valid repaired (base p)) eqn:BV; try discriminate PV.
  all: destruct (base_valid_ok _ BV) as (a & np & Ea & Enp & Va & Wp & Lk).
  all: rewrite Ea in V.
  all: destruct (proposal_peers ctx p) as [peers|] eqn:EPe; [|discriminate V].
  all: rewrite Enp in V.
  all: destruct (np =? len peers) eqn:E1; cbn [negb] in V; [|discriminate V].
  all: destruct (len peers =? 2) eqn:E2; cbn [negb] in V; [|discriminate V].
  all: cbn [Nat.eqb orb negb Nat.sub] in V.
  all: apply N.eqb_eq in E2; unfold len in E2;
       assert (L2 : length peers = 2%nat) by lia; clear E2.
  all: destruct peers as [|s [|r [|x peers]]]; try (cbn [length] in L2; discriminate L2).
  all: cbn [nth_error] in V.
  all: destruct (equal_wire_maps s sender) eqn:W1; cbn [negb] in V; [|discriminate V].
  all: destruct (equal_wire_maps r (cx_addr ctx)) eqn:W2; cbn [negb] in V; [|discriminate V].
  all: apply N.eqb_eq in E1; cbn in E1; subst np.
  all: destruct (vpp_spec _ _ _ Wp) as (Hcd & Happ & Hn & Hmax).
  all: exists a, 2%nat; split; [exact Ea|]; split; [exact Hcd|]; split; [exact Happ|]; split; [lia|];
       split; [exact Hmax|]; split; [exact (alloc_valid_good a 2 Va Lk Enp)|];
       split; [exists s, r; split; [exact EPe|]; split; [reflexivity|];
               split; apply equal_wire_maps_WireEq; assumption|].
  all: destruct p as [b part lpeers|b parent|b proposer vpeers parents imaps]; cbn [base] in *.
  all: try (destruct part; [discriminate|discriminate PV]).
  all: try (apply valid_sub_ok; exact V).
  all: try (exact (valid_virt_ok ctx b a parents imaps 2 Enp V)).
Qed.

(* the handler is only reached with a proposal that is good for the situation under the lock *)
Lemma drop_bad_locked ctx0 ctx1 sender p :
  handle_proposal_locked repaired ctx0 ctx1 sender p = HandlerCalled -> GoodProposal ctx1 sender p.
Proof.
  unfold handle_proposal_locked. intro H.
  destruct (proposal_parent repaired ctx0 p 1); try discriminate H.
  all: destruct (valid_two_party repaired ctx1 p 1 sender) eqn:V; try discriminate H.
  all: apply valid_two_party_good; exact V.
Qed.

Lemma handle_proposal_locked_same ctx sender p :
  handle_proposal_locked repaired ctx ctx sender p = handle_proposal ctx sender p.
Proof. reflexivity. Qed.

Lemma drop_bad ctx sender p : handle_proposal ctx sender p = HandlerCalled -> GoodProposal ctx sender p.
Proof. rewrite <- handle_proposal_locked_same. apply drop_bad_locked. Qed.

(* ---------- no panic ---------- *)
Lemma fill_some row im p acc :
  (p + length im <= length row)%nat -> Forall (fun q => (N.to_nat q < length acc)%nat) im ->
  exists out, fill row im p acc = Some out.
Proof.
  revert p acc; induction im as [|q r IH]; intros p acc L F; cbn [fill].
  - eexists; reflexivity.
  - cbn [length] in L. inversion F as [|? ? Hq F']; subst.
    destruct (nth_error row p) as [v|] eqn:E; [|apply nth_error_None in E; lia].
    apply Nat.ltb_lt in Hq. rewrite Hq. apply IH; [lia|].
    rewrite set_nth_length. exact F'.
Qed.

Lemma map_opt_some {A B} (f : A -> option B) l :
  Forall (fun x => exists y, f x = Some y) l -> exists out, map_opt f l = Some out.
Proof.
  induction 1 as [|x l [y Hy] _ [ys Hys]]; cbn [map_opt]; [eexists; reflexivity|].
  rewrite Hy, Hys. eexists; reflexivity.
Qed.

Lemma alloc_valid_rows a np : alloc_valid a = true -> num_peers a = Some np ->
  Forall (fun r => length r = N.to_nat np) (al_bals a).
Proof.
  intros V P. pose proof (num_peers_num_parts _ _ P) as Q. unfold alloc_valid in V. rewrite Q in V. split_and.
  apply Forall_forall. intros r I.
  match goal with H : forallb _ (al_bals a) = true |- _ => rewrite forallb_forall in H; specialize (H r I) end.
  split_and. match goal with H : (len r =? np) = true |- _ => apply N.eqb_eq in H; unfold len in H end. lia.
Qed.

Lemma alloc_valid_num_peers a : alloc_valid a = true -> exists np, num_peers a = Some np.
Proof.
  unfold alloc_valid, num_peers. intro V. split_and.
  destruct (al_bals a); [|eexists; reflexivity].
  match goal with H : negb (len [] =? 0) = true |- _ => cbn in H; discriminate H end.
Qed.

Lemma base_valid_no_panic b : base_valid repaired b <> VPanic.
Proof.
  unfold base_valid. cbn [repaired fx_valid_order]. destruct (pb_bals b) as [a|]; [|discriminate].
  destruct (alloc_valid a) eqn:V; cbn [negb]; [|discriminate].
  destruct (alloc_valid_num_peers a V) as [np ->].
  destruct (negb _); [discriminate|]. destruct (negb _); discriminate.
Qed.

Lemma find_chan_In ctx id c : find_chan ctx id = Some c -> In c (cx_chans ctx).
Proof. unfold find_chan. intro H. apply find_some in H. tauto. Qed.

Lemma valid_virt_no_panic ctx b a parents imaps :
  ctx_ok ctx = true -> alloc_valid a = true -> num_peers a = Some 2 ->
  valid_virt repaired ctx b a parents imaps 1 <> VPanic.
Proof.
  intros CO V P. unfold valid_virt. rewrite P. cbn [repaired fx_fa fx_imap_len fx_imap_dup andb].
  destruct (len parents =? 2) eqn:LP; cbn [negb]; [|discriminate].
  apply N.eqb_eq in LP. unfold len in LP.
  destruct parents as [|p0 [|pid ps]]; try (cbn [length] in LP; lia). cbn [nth_error].
  destruct (find_chan ctx pid) as [c|] eqn:EC; [|discriminate].
  destruct (negb (nlist_eqb _ _)); [discriminate|].
  destruct (negb (nlist_eqb _ _)); [discriminate|].
  destruct (negb (balances_equal _ _)); [discriminate|].
  destruct (len imaps =? 2) eqn:LI; cbn [negb]; [|discriminate].
  apply N.eqb_eq in LI. unfold len in LI.
  destruct imaps as [|i0 [|im is]]; try (cbn [length] in LI; lia). cbn [nth_error].
  destruct (len im =? 2) eqn:LM; cbn [negb]; [|discriminate].
  destruct (existsb (fun q => 2 <=? q) im) eqn:EX; [discriminate|].
  destruct (has_dup im); [discriminate|].
  unfold ctx_ok in CO. rewrite forallb_forall in CO. specialize (CO c (find_chan_In _ _ _ EC)).
  destruct (num_peers (ci_alloc c)) as [nparts|]; [|discriminate CO]. apply N.leb_le in CO.
  apply N.eqb_eq in LM. unfold len in LM.
  assert (T : exists vb, transform_balances (al_bals a) (N.to_nat nparts) im = Some vb).
  { unfold transform_balances. apply map_opt_some.
    eapply Forall_impl; [|exact (alloc_valid_rows a 2 V P)]. cbn beta. intros row R.
    unfold transform_row. apply fill_some; [lia|].
    apply existsb_false_Forall in EX. eapply Forall_impl; [|exact EX]. cbn beta. intros q Q.
    rewrite repeat_length. apply N.leb_gt in Q. lia. }
  destruct T as [vb ->]. destruct (bals_ge _ _); discriminate.
Qed.

Lemma proposal_parent_no_panic ctx p : proposal_parent repaired ctx p 1 <> PPanic.
Proof.
  destruct p; cbn [proposal_parent repaired fx_parent_idx]; try discriminate.
  - destruct (find_chan ctx parent); discriminate.
  - destruct (nth_error parents 1); [|discriminate]. destruct (find_chan ctx b0); discriminate.
Qed.

(* validation does not panic as long as the parent of a sub-channel proposal is (still) registered *)
Lemma valid_two_party_no_panic ctx sender p : ctx_ok ctx = true -> proposal_peers ctx p <> None ->
  valid_two_party repaired ctx p 1 sender <> VPanic.
Proof.
  intros CO PE V.
  unfold valid_two_party in V.
  unfold proposal_valid in V; destruct (base_valid repaired (base p)) eqn:BV;
       try discriminate V; try (eapply base_valid_no_panic; exact BV).
  destruct (base_valid_ok _ BV) as (a & np & Ea & Enp & Va & Wp & Lk).
  destruct p as [b part lpeers|b parent|b proposer vpeers parents imaps]; cbn [base] in *.
  all: try (destruct part; try discriminate V).
  all: cbn [proposal_peers] in V, PE.
  all: try (destruct (find_chan ctx parent) eqn:FC; [|elim PE; reflexivity]; cbn [option_map] in V).
  all: rewrite Ea, Enp in V.
  all: match type of V with context [negb (?n =? len ?l)] => destruct (n =? len l) eqn:E1; cbn [negb] in V; [|discriminate V] end.
  all: match type of V with context [negb (len ?l =? 2)] => destruct (len l =? 2) eqn:E2; cbn [negb] in V; [|discriminate V];
         apply N.eqb_eq in E2; unfold len in E2; destruct l as [|s [|r [|x tl]]]; try (cbn [length] in E2; lia) end.
  all: cbn [Nat.eqb orb negb Nat.sub nth_error] in V.
  all: destruct (negb (equal_wire_maps s sender)); try discriminate V.
  all: destruct (negb (equal_wire_maps r (cx_addr ctx))); try discriminate V.
  - unfold valid_sub in V. rewrite FC in V.
    destruct (negb _); [discriminate V|]. destruct (negb _); [discriminate V|]. destruct (negb _); discriminate V.
  - apply N.eqb_eq in E1. cbn in E1. subst np.
    exact (valid_virt_no_panic ctx b a parents imaps CO Va Enp V).
Qed.

Lemma no_panic_locked ctx0 ctx1 sender p : ctx_ok ctx1 = true -> parent_stays ctx0 ctx1 p ->
  handle_proposal_locked repaired ctx0 ctx1 sender p <> Panic.
Proof.
  intros CO PS. unfold handle_proposal_locked.
  pose proof (proposal_parent_no_panic ctx0 p) as PP.
  destruct (proposal_parent repaired ctx0 p 1) eqn:EPP; try discriminate; try (elim PP; reflexivity).
  all: destruct (valid_two_party repaired ctx1 p 1 sender) eqn:V; try discriminate; exfalso.
  all: revert V; apply valid_two_party_no_panic; [exact CO|].
  all: destruct p as [b part lpeers|b parent|b proposer vpeers parents imaps];
       cbn [proposal_peers proposal_parent parent_stays] in *; try discriminate.
  all: destruct (find_chan ctx0 parent); try discriminate EPP.
  all: destruct (find_chan ctx1 parent); [discriminate|]; elim PS; [discriminate|reflexivity].
Qed.

Lemma no_panic ctx sender p : ctx_ok ctx = true -> handle_proposal ctx sender p <> Panic.
Proof.
  intro CO. rewrite <- handle_proposal_locked_same. apply no_panic_locked; [exact CO|].
  destruct p; cbn [parent_stays]; auto.
Qed.

(* ---------- completeCPP: both sides build the same channel ---------- *)
Section Same.
Variable hnonce : bytes -> Z.
Variable hid : bytes -> bytes.
Variable tok : amap -> N.
Variable rs : resolver.
Notation complete_cpp := (complete_cpp hnonce hid tok rs).
Notation chan_id := (chan_id hnonce hid).
Notation mparams_of := (mparams_of hnonce hid tok rs).

Definition app_opt (a : papp) : option bytes := match a with ADef d => Some d | _ => None end.
Definition proposed_params (p : proposal) (a : accept) (parts : list amap) : cparams :=
  mkCP (pb_cd (base p)) parts (app_opt (pb_app (base p)))
       (nonce_preimage (pb_nonce (base p)) (acc_nonce a)) (is_ledger p) (is_virtual p) (pb_aux (base p)).

(* what a successful completeCPP has built *)
Lemma complete_cpp_ok fx ctx p a idx s : complete_cpp fx ctx p a idx = COk s ->
  exists parts, mpcpp_parts ctx p a = COk parts
    /\ s_params s = proposed_params p a parts
    /\ s_id s = chan_id (s_params s)
    /\ s_mach s = new_machine (mparams_of (s_params s)) (s_me s)
    /\ proposal_peers ctx p = Some (s_peers s)
    /\ find_chan ctx (s_id s) = None.
Proof.
  unfold complete_cpp. intro H. cbv zeta in H.
  destruct (mpcpp_parts ctx p a) as [parts| |] eqn:MP; try discriminate H.
  exists parts. split; [reflexivity|].
  assert (G : forall c : cparams, c = proposed_params p a parts ->
    (if existsb (fun ch => bytes_eqb (ci_id ch) (chan_id c)) (cx_chans ctx) then CErr else
     match nth_error parts idx with
     | None => CPanic
     | Some own =>
       match amap_get 0 own with
       | None => CPanic
       | Some addr =>
         if negb (existsb (bytes_eqb addr) (cx_wallet ctx)) then CErr else
         match proposal_parent fx ctx p idx with
         | PPanic => CPanic | PErr => CErr
         | par =>
           match proposal_peers ctx p with
           | None => CPanic
           | Some peers =>
             match cp_app c, mparams_of c with
             | Some _, mkMP _ _ _ None => CErr
             | _, mp =>
               match index_of_addrs parts own 0 with
               | None => CErr
               | Some me => COk (mkSetup c (chan_id c) me peers
                                   (match par with PSome ch => Some (ci_id ch) | _ => None end)
                                   (new_machine mp me))
               end
             end
           end
         end
       end
     end) = COk s ->
    s_params s = c /\ s_id s = chan_id (s_params s)
    /\ s_mach s = new_machine (mparams_of (s_params s)) (s_me s)
    /\ proposal_peers ctx p = Some (s_peers s) /\ find_chan ctx (s_id s) = None).
  { clear H. intros c _ K.
    destruct (existsb _ (cx_chans ctx)) eqn:EX; [discriminate K|].
    destruct (nth_error parts idx) as [own|]; [|discriminate K].
    destruct (amap_get 0 own) as [addr|]; [|discriminate K].
    destruct (negb _); [discriminate K|].
    destruct (proposal_peers ctx p) as [peers|] eqn:PE.
    2:{ destruct (proposal_parent fx ctx p idx); discriminate K. }
    assert (F : find_chan ctx (chan_id c) = None).
    { unfold find_chan. destruct (find _ (cx_chans ctx)) as [ch|] eqn:FF; [|reflexivity].
      apply find_some in FF as [I E]. assert (existsb (fun ch => bytes_eqb (ci_id ch) (chan_id c)) (cx_chans ctx) = true)
        by (apply existsb_exists; eauto). congruence. }
    destruct (proposal_parent fx ctx p idx); try discriminate K.
    all: destruct (cp_app c) eqn:EA; destruct (mparams_of c) as [i ps ap k] eqn:EM;
      try destruct k; try discriminate K;
      destruct (index_of_addrs parts own 0) as [me|]; try discriminate K;
      injection K as <-; cbn [s_params s_id s_mach s_me s_peers]; rewrite ?EM; auto. }
  destruct (pb_app (base p)) eqn:EA; [discriminate H| |].
  all: apply G in H; [|unfold proposed_params; rewrite EA; reflexivity].
  all: destruct H as (H1 & H2 & H3 & H4 & H5); rewrite H1; unfold proposed_params; rewrite EA; cbn [app_opt];
       rewrite <- H1; auto.
Qed.

Lemma mpcpp_parts_same ctxP ctxR p a lP lR : same_parent ctxP ctxR p ->
  mpcpp_parts ctxP p a = COk lP -> mpcpp_parts ctxR p a = COk lR -> lP = lR.
Proof.
  intros SP. destruct p, a; cbn [mpcpp_parts]; intros HP HR; try discriminate; try congruence.
  all: cbn [same_parent] in SP.
  all: destruct (find_chan ctxP parent) as [cP|]; [|discriminate HP].
  all: destruct (find_chan ctxR parent) as [cR|]; [|discriminate HR].
  all: injection HP as <-; injection HR as <-; apply SP; reflexivity.
Qed.

Lemma same_params fx ctxP ctxR p a sP sR : same_parent ctxP ctxR p ->
  complete_cpp fx ctxP p a 0 = COk sP -> complete_cpp fx ctxR p a 1 = COk sR ->
  s_params sP = s_params sR /\ s_id sP = s_id sR.
Proof.
  intros SP HP HR.
  destruct (complete_cpp_ok _ _ _ _ _ _ HP) as (lP & MP & EP & IP & _).
  destruct (complete_cpp_ok _ _ _ _ _ _ HR) as (lR & MR & ER & IR & _).
  assert (lP = lR) by (eapply mpcpp_parts_same; eassumption). subst lR.
  assert (E : s_params sP = s_params sR) by congruence. split; [exact E|]. rewrite IP, IR, E. reflexivity.
Qed.

(* ---------- the signature exchange on the channel machines ---------- *)
Lemma step_keep m o : match o with OInit _ _ | OSig | OAddSig _ _ => True | _ => False end ->
  current (fst (step m o)) = current m /\ ps (fst (step m o)) = ps m /\ me (fst (step m o)) = me m.
Proof.
  destruct o; intro H; simpl in H; try contradiction; clear H; cbn [step]; break_match;
    cbn [fst current ps me set_staging]; auto.
Qed.

Lemma step_sig_staging m o t : match o with OSig | OAddSig _ _ => True | _ => False end ->
  staging m = Some t -> exists t', staging (fst (step m o)) = Some t' /\ tx_st t' = tx_st t.
Proof.
  destruct o; intro H; simpl in H; try contradiction; clear H; intro S; cbn [step]; rewrite S; break_match;
    cbn [fst staging tx_st]; eauto.
Qed.

Lemma step_init_ok m al d m1 : step m (OInit al d) = (m1, OK) ->
  staging m1 = Some (new_tx m (mkState (mp_id (ps m)) 0 al (mp_app (ps m)) d false))
  /\ current m1 = current m /\ ps m1 = ps m.
Proof.
  cbn [step]. destruct (negb (expect m InitActing InitSigning)); [intro H; discriminate H|].
  unfold new_state. destruct (forallb _ _ && alloc_valid al); [|intro H; discriminate H].
  destruct (app_valid_init m d); intro H; try discriminate H. injection H as <-.
  cbn [set_staging staging current ps]. auto.
Qed.

Lemma local_init_ok s al d m sg : local_init s al d = COk (m, sg) ->
  exists t, staging m = Some t
    /\ tx_st t = mkState (mp_id (ps (s_mach s))) 0 al (mp_app (ps (s_mach s))) d false
    /\ current m = current (s_mach s) /\ ps m = ps (s_mach s) /\ me m = me (s_mach s)
    /\ m = fst (step (fst (step (s_mach s) (OInit al d))) OSig).
Proof.
  unfold local_init. destruct (step (s_mach s) (OInit al d)) as [m1 o1] eqn:S1.
  destruct o1; try discriminate. destruct (step m1 OSig) as [m2 o2] eqn:S2.
  destruct o2; try discriminate. intro H. injection H as <- <-.
  destruct (step_init_ok _ _ _ _ S1) as (St & Cu & Ps).
  destruct (step_sig_staging m1 OSig _ I St) as (t' & St' & Et). rewrite S2 in St'. cbn [fst] in St'.
  destruct (step_keep m1 OSig I) as (C2 & P2 & M2). rewrite S2 in C2, P2, M2. cbn [fst] in C2, P2, M2.
  destruct (step_keep (s_mach s) (OInit al d) I) as (_ & _ & M1). rewrite S1 in M1. cbn [fst] in M1.
  exists t'. rewrite St', Et, C2, P2, M2, Cu, Ps, M1. repeat split; try reflexivity.
  cbn [fst]. rewrite S2. reflexivity.
Qed.

Lemma finish_init_ok m pidx sg m' : finish_init m pidx sg = COk m' -> Inv m -> current m = None ->
  forall t, staging m = Some t ->
  exists t', current m' = Some t' /\ tx_st t' = tx_st t /\ fully_signed m' t' /\ ph m' = Funding /\ ps m' = ps m.
Proof.
  unfold finish_init. destruct (step m (OAddSig pidx sg)) as [m3 o3] eqn:S3.
  destruct o3; try discriminate. destruct (step m3 OEnableInit) as [m4 o4] eqn:S4.
  destruct o4; try discriminate. intro H. injection H as <-. intros IN CU t ST.
  assert (I3 : Inv m3) by (pose proof (Inv_step m (OAddSig pidx sg) IN) as X; rewrite S3 in X; exact X).
  destruct (step_keep m (OAddSig pidx sg) I) as (C3 & P3 & _). rewrite S3 in C3, P3. cbn [fst] in C3, P3.
  destruct (step_sig_staging m (OAddSig pidx sg) t I ST) as (t3 & ST3 & E3). rewrite S3 in ST3. cbn [fst] in ST3.
  (* the promotion: C01 *)
  assert (NE : current (fst (step m3 OEnableInit)) <> current m3).
  { rewrite S4. cbn [fst]. rewrite C3, CU. cbn [step] in S4. unfold enable_staged in S4.
    destruct (negb (expect m3 InitSigning Funding)); [discriminate S4|]. rewrite ST3 in S4.
    destruct (negb (Bool.eqb _ _)); [discriminate S4|]. destruct (negb (all_some _)); [discriminate S4|].
    injection S4 as <-. cbn [add_tx current]. discriminate. }
  destruct (C01_promotion m3 OEnableInit I3 NE) as [[s0 E]|(t4 & C4 & F4 & S4')]; [discriminate E|].
  rewrite S4 in C4. cbn [fst] in C4. rewrite ST3 in S4'. injection S4' as <-.
  assert (P4 : ps m4 = ps m3 /\ ph m4 = Funding).
  { cbn [step] in S4. unfold enable_staged in S4. destruct (negb (expect m3 InitSigning Funding)); [discriminate S4|].
    rewrite ST3 in S4. destruct (negb (Bool.eqb _ _)); [discriminate S4|]. destruct (negb (all_some _)); [discriminate S4|].
    injection S4 as <-. cbn [add_tx ps ph]. auto. }
  destruct P4 as [P4 PH].
  exists t3. split; [exact C4|]. split; [exact E3|]. split; [|split; [exact PH|congruence]].
  apply (fully_signed_ps m3); [exact P4|exact F4].
Qed.

Lemma Inv_local_init s al d m sg : s_mach s = new_machine (ps (s_mach s)) (me (s_mach s)) ->
  local_init s al d = COk (m, sg) -> Inv m.
Proof.
  intros E H. destruct (local_init_ok _ _ _ _ _ H) as (_ & _ & _ & _ & _ & _ & ->).
  apply Inv_step. apply Inv_step. rewrite E. apply Inv_new.
Qed.

(* C08_same_channel, the model statement *)
Lemma same_channel ctxP ctxR p a sP mP sR mR : same_parent ctxP ctxR p ->
  open_both hnonce hid tok rs repaired ctxP ctxR p a = COk (sP, mP, (sR, mR)) ->
  complete_cpp repaired ctxP p a 0 = COk sP /\ complete_cpp repaired ctxR p a 1 = COk sR
  /\ s_params sP = s_params sR /\ s_id sP = s_id sR
  /\ chan_id_preimage hnonce (s_params sP) = chan_id_preimage hnonce (s_params sR)
  /\ exists al tP tR,
       pb_bals (base p) = Some al
       /\ current mP = Some tP /\ current mR = Some tR
       /\ tx_st tP = init_state hnonce hid (s_params sP) al (pb_data (base p))
       /\ tx_st tR = tx_st tP
       /\ fully_signed mP tP /\ fully_signed mR tR
       /\ ph mP = Funding /\ ph mR = Funding
       /\ ps mP = mparams_of (s_params sP) /\ ps mR = mparams_of (s_params sR).
Proof.
  intros SP H. unfold open_both in H.
  destruct (pb_bals (base p)) as [al|] eqn:EB; [|discriminate H].
  destruct (complete_cpp repaired ctxP p a 0) as [sP'| |] eqn:CP;
    destruct (complete_cpp repaired ctxR p a 1) as [sR'| |] eqn:CR; try discriminate H.
  destruct (local_init sP' al (pb_data (base p))) as [[mP1 sgP]| |] eqn:LP;
    destruct (local_init sR' al (pb_data (base p))) as [[mR1 sgR]| |] eqn:LR; try discriminate H.
  destruct (finish_init mP1 1 sgR) as [mP2| |] eqn:FP;
    destruct (finish_init mR1 0 sgP) as [mR2| |] eqn:FR; try discriminate H.
  injection H as <- <- <- <-.
  destruct (same_params _ _ _ _ _ _ _ SP CP CR) as [EPa EId].
  destruct (complete_cpp_ok _ _ _ _ _ _ CP) as (lP & _ & _ & IP & MP & _).
  destruct (complete_cpp_ok _ _ _ _ _ _ CR) as (lR & _ & _ & IR & MR & _).
  destruct (local_init_ok _ _ _ _ _ LP) as (tP1 & SP1 & EP1 & CP1 & PP1 & _).
  destruct (local_init_ok _ _ _ _ _ LR) as (tR1 & SR1 & ER1 & CR1 & PR1 & _).
  assert (InvP : Inv mP1) by (eapply Inv_local_init; [|exact LP]; rewrite MP; reflexivity).
  assert (InvR : Inv mR1) by (eapply Inv_local_init; [|exact LR]; rewrite MR; reflexivity).
  rewrite MP in CP1, PP1, EP1. rewrite MR in CR1, PR1, ER1. cbn [new_machine current ps] in *.
  destruct (finish_init_ok _ _ _ _ FP InvP CP1 _ SP1) as (tP & CuP & EtP & FSP & PhP & PsP).
  destruct (finish_init_ok _ _ _ _ FR InvR CR1 _ SR1) as (tR & CuR & EtR & FSR & PhR & PsR).
  split; [reflexivity|]. split; [reflexivity|]. split; [exact EPa|]. split; [exact EId|].
  split; [rewrite EPa; reflexivity|].
  exists al, tP, tR. split; [reflexivity|]. split; [exact CuP|]. split; [exact CuR|].
  split; [rewrite EtP, EP1; reflexivity|]. split; [rewrite EtR, ER1, EtP, EP1, EPa; reflexivity|].
  split; [exact FSP|]. split; [exact FSR|]. split; [exact PhP|]. split; [exact PhR|].
  split; congruence.
Qed.

End Same.

(* ---------- C08_nonce_both ---------- *)
Lemma nonce_preimage_injective sP sR sP' sR' : length sP = length sP' ->
  nonce_preimage sP sR = nonce_preimage sP' sR' -> sP = sP' /\ sR = sR'.
Proof.
  unfold nonce_preimage. revert sP'. induction sP as [|x sP IH]; intros [|y sP'] L E; cbn [length] in L; try discriminate L.
  - cbn [app] in E. auto.
  - cbn [app] in E. injection E as -> E. injection L as L. destruct (IH _ L E) as [-> ->]. auto.
Qed.

From V Require Import Proofs.C17P.

(* equal ID pre-images have equal nonces (C17); so, unless the nonce hash collides on the two share
   pairs, equal ID pre-images were built from the same share of the proposer and of the responder *)
Lemma id_preimage_binds_shares (hnonce : bytes -> Z) (rs : resolver) c c' :
  params_wf rs (params_of hnonce c) = true -> params_wf rs (params_of hnonce c') = true ->
  chan_id_preimage hnonce c = chan_id_preimage hnonce c' ->
  hnonce (cp_nonce_pre c) = hnonce (cp_nonce_pre c').
Proof.
  intros W W' E. pose proof (preimage_injective rs _ _ W W' E) as F. unfold fields_of in F.
  injection F as _ F _ _ _ _. exact F.
Qed.

Lemma nonce_both (hnonce : bytes -> Z) (hid : bytes -> bytes) (tok : amap -> N) (rs : resolver)
    fx ctx p a idx s ctx' p' a' idx' s' :
  complete_cpp hnonce hid tok rs fx ctx p a idx = COk s ->
  complete_cpp hnonce hid tok rs fx ctx' p' a' idx' = COk s' ->
  params_wf rs (params_of hnonce (s_params s)) = true -> params_wf rs (params_of hnonce (s_params s')) = true ->
  length (pb_nonce (base p)) = length (pb_nonce (base p')) ->
  (* no collision of the nonce hash on these two inputs *)
  (hnonce (nonce_preimage (pb_nonce (base p)) (acc_nonce a)) = hnonce (nonce_preimage (pb_nonce (base p')) (acc_nonce a')) ->
   nonce_preimage (pb_nonce (base p)) (acc_nonce a) = nonce_preimage (pb_nonce (base p')) (acc_nonce a')) ->
  chan_id_preimage hnonce (s_params s) = chan_id_preimage hnonce (s_params s') ->
  pb_nonce (base p) = pb_nonce (base p') /\ acc_nonce a = acc_nonce a'.
Proof.
  intros C C' W W' L NC E.
  destruct (complete_cpp_ok _ _ _ _ _ _ _ _ _ _ C) as (parts & _ & EP & _).
  destruct (complete_cpp_ok _ _ _ _ _ _ _ _ _ _ C') as (parts' & _ & EP' & _).
  pose proof (id_preimage_binds_shares hnonce rs _ _ W W' E) as N.
  rewrite EP, EP' in N. cbn [proposed_params cp_nonce_pre] in N.
  apply nonce_preimage_injective; [exact L|]. apply NC. exact N.
Qed.

(* ---------- concrete situation used by the non-vacuity examples and the refutation witnesses ---------- *)
Definition wA : amap := [(0%Z, repeat Byte.x0a 32)].     (* wire addresses: the receiver A, the peer B, the hub I *)
Definition wB : amap := [(0%Z, repeat Byte.x0b 32)].
Definition wI : amap := [(0%Z, repeat Byte.x0c 32)].
Definition kA1 := repeat Byte.x1a 64. Definition kA2 := repeat Byte.x2a 64. Definition kA3 := repeat Byte.x3a 64.
Definition kB1 := repeat Byte.x1b 64. Definition kB2 := repeat Byte.x2b 64. Definition kI1 := repeat Byte.x1c 64.
Definition pa (k : bytes) : amap := [(0%Z, k)].
Definition idL1 := repeat Byte.x11 32.   (* ledger channel B -> A *)
Definition idL3 := repeat Byte.x33 32.   (* ledger channel A -> I *)
Definition idLB := repeat Byte.x44 32.   (* ledger channel B -> I (B's side only) *)
Definition exCtxA : octx :=
  mkCtx wA [kA1; kA2; kA3]
    [mkCI idL1 [pa kB1; pa kA1] [wB; wA] 1 (mkAlloc [0] [7] [[50; 50]%Z] []);
     mkCI idL3 [pa kA2; pa kI1] [wA; wI] 0 (mkAlloc [0] [7] [[5; 5]%Z] [])].
Definition exCtxB : octx :=
  mkCtx wB [kB1; kB2]
    [mkCI idL1 [pa kB1; pa kA1] [wB; wA] 0 (mkAlloc [0] [7] [[50; 50]%Z] [])].
Definition exBase (bals : list (list Z)) (fa : list (list Z)) : pbase :=
  mkPB (repeat Byte.x77 32) 10 (repeat Byte.x01 32) ANoApp [] (Some (mkAlloc [0] [7] bals [])) fa (repeat Byte.x00 256).
Definition exLedger : proposal := PLedger (exBase [[3; 4]%Z] [[3; 4]%Z]) (Some (pa kB2)) [wB; wA].
Definition exSub : proposal := PSub (exBase [[3; 4]%Z] [[3; 4]%Z]) idL1.
Definition exVirt (bals fa : list (list Z)) (parents : list bytes) (imaps : list (list N)) : proposal :=
  PVirt (exBase bals fa) (pa kB2) [wB; wA] parents imaps.
Definition exVirtGood : proposal := exVirt [[2; 3]%Z] [[2; 3]%Z] [idLB; idL3] [[0; 1]; [1; 0]].

Example ex_ledger_called : handle_proposal exCtxA wB exLedger = HandlerCalled.
Proof. vm_compute. reflexivity. Qed.
Example ex_sub_called : handle_proposal exCtxA wB exSub = HandlerCalled.
Proof. vm_compute. reflexivity. Qed.
Example ex_virt_called : handle_proposal exCtxA wB exVirtGood = HandlerCalled.
Proof. vm_compute. reflexivity. Qed.
Example ex_dropped :
  handle_proposal exCtxA wI exLedger = Dropped                                          (* peers <> sender *)
  /\ handle_proposal exCtxA wB (PSub (exBase [[3; 400]%Z] [[3; 400]%Z]) idL1) = Dropped   (* more than the parent holds *)
  /\ handle_proposal exCtxA wB (exVirt [[2; 3]%Z] [[3; 2]%Z] [idLB; idL3] [[0; 1]; [1; 0]]) = Dropped
  /\ handle_proposal exCtxA wB (exVirt [[2; 3]%Z] [[2; 3]%Z] [idLB] [[0; 1]; [1; 0]]) = Dropped
  /\ handle_proposal exCtxA wB (exVirt [[2; 3]%Z] [[2; 3]%Z] [idLB; idL3] [[0; 1]; [1; 0; 1]]) = Dropped
  /\ handle_proposal exCtxA wB (exVirt [[200; 3]%Z] [[200; 3]%Z] [idLB; idL3] [[0; 1]; [0; 0]]) = Dropped
  /\ handle_proposal exCtxA wB (PLedger (mkPB (repeat Byte.x77 32) 10 (repeat Byte.x01 32) ANoApp []
       (Some (mkAlloc [0] [7] [] [])) [] (repeat Byte.x00 256)) (Some (pa kB2)) [wB; wA]) = Dropped.
Proof. vm_compute. repeat split; reflexivity. Qed.
Example ex_ctx_ok : ctx_ok exCtxA = true.
Proof. reflexivity. Qed.

(* ---------- refutation witnesses for the code as it was (one repair switched off each) ---------- *)
Definition without_fa := mkFixes false true true true true.
Definition without_parent_idx := mkFixes true false true true true.
Definition without_valid_order := mkFixes true true false true true.
Definition without_imap_len := mkFixes true true true false true.
Definition without_imap_dup := mkFixes true true true true false.

Ltac good_inv G :=
  let a := fresh "a" in let n := fresh "n" in
  destruct G as (a & n & Ea & _ & _ & _ & _ & _ & (s0 & r0 & Ep & Ln & _ & _) & G);
  cbn in Ea; injection Ea as <-; cbn in Ep; injection Ep as <- <-; cbn in Ln; subst n;
  cbn [exVirt] in G.

(* #12: funding agreement different from the balances (and funds far above the parent's) *)
Definition exBadFA : proposal := exVirt [[2; 300]%Z] [[3; 2]%Z] [idLB; idL3] [[0; 1]; [1; 0]].
Lemma drop_bad_refuted_funding_agreement :
  handle_proposal_gen without_fa exCtxA wB exBadFA = HandlerCalled /\ ~ GoodProposal exCtxA wB exBadFA.
Proof.
  split; [vm_compute; reflexivity|]. intro G. good_inv G.
  destruct G as (_ & _ & F & _). cbn in F. discriminate F.
Qed.

(* #13: fewer parent channels than participants: Parents[1] out of range before any validation *)
Definition exShortParents : proposal := exVirt [[2; 3]%Z] [[2; 3]%Z] [idLB] [[0; 1]; [1; 0]].
Lemma no_panic_refuted_parent_index :
  ctx_ok exCtxA = true /\ handle_proposal_gen without_parent_idx exCtxA wB exShortParents = Panic.
Proof. split; vm_compute; reflexivity. Qed.

(* Valid() reads Balances[0] of an empty balance list *)
Definition exEmptyBals : proposal :=
  PLedger (mkPB (repeat Byte.x77 32) 10 (repeat Byte.x01 32) ANoApp [] (Some (mkAlloc [0] [7] [] [])) []
                (repeat Byte.x00 256)) (Some (pa kB2)) [wB; wA].
Lemma no_panic_refuted_empty_balances :
  ctx_ok exCtxA = true /\ handle_proposal_gen without_valid_order exCtxA wB exEmptyBals = Panic.
Proof. split; vm_compute; reflexivity. Qed.

(* index map longer than the participant list: transformBalances indexes out of range (with entries
   below the number of participants a longer map necessarily repeats one, so this needs both index
   map repairs off, as in the code as it was) *)
Definition without_imap_checks := mkFixes true true true false false.
Definition exLongImap : proposal := exVirt [[2; 3]%Z] [[2; 3]%Z] [idLB; idL3] [[0; 1]; [1; 0; 1]].
Lemma no_panic_refuted_long_index_map :
  ctx_ok exCtxA = true /\ handle_proposal_gen without_imap_checks exCtxA wB exLongImap = Panic
  /\ handle_proposal_gen original exCtxA wB exLongImap = Panic.
Proof. repeat split; vm_compute; reflexivity. Qed.

(* empty index map: nobody's funds are compared with the parent's *)
Definition exEmptyImap : proposal := exVirt [[200; 300]%Z] [[200; 300]%Z] [idLB; idL3] [[0; 1]; []].
Lemma drop_bad_refuted_short_index_map :
  handle_proposal_gen without_imap_len exCtxA wB exEmptyImap = HandlerCalled /\ ~ GoodProposal exCtxA wB exEmptyImap.
Proof.
  split; [vm_compute; reflexivity|]. intro G. good_inv G.
  destruct G as (_ & _ & _ & pid & c & im & _ & _ & _ & _ & Ei & Li & _). cbn in Ei. injection Ei as <-.
  cbn in Li. discriminate Li.
Qed.

(* index map [0, 0]: the proposer's 200 are overwritten by the receiver's 3 before the comparison *)
Definition exDupImap : proposal := exVirt [[200; 3]%Z] [[200; 3]%Z] [idLB; idL3] [[0; 1]; [0; 0]].
Lemma drop_bad_refuted_duplicate_index_map :
  handle_proposal_gen without_imap_dup exCtxA wB exDupImap = HandlerCalled /\ ~ GoodProposal exCtxA wB exDupImap.
Proof.
  split; [vm_compute; reflexivity|]. intro G. good_inv G.
  destruct G as (_ & _ & _ & pid & c & im & _ & _ & _ & _ & Ei & _ & _ & ND & _). cbn in Ei. injection Ei as <-.
  inversion ND as [|? ? Nin _]; subst. apply Nin. left. reflexivity.
Qed.

(* ---------- a complete opening in the model (ledger, sub-channel, virtual channel) ---------- *)
Definition ex_hnonce (b : bytes) : Z := Z.of_N (dec_be (firstn 8 b)) + 1.
Definition ex_hid (b : bytes) : bytes := firstn 32 (rev b).
Definition ex_tok (m : amap) : N := match m with (_, k) :: _ => dec_be (firstn 4 k) | [] => 0 end.
Definition ex_rs : resolver := fun _ => None.
Definition ex_open := open_both ex_hnonce ex_hid ex_tok ex_rs repaired.
Definition opened_ok (r : cres (setup * mach * (setup * mach))) : bool :=
  match r with
  | COk (sP, mP, (sR, mR)) =>
      match current mP, current mR with
      | Some tP, Some tR => state_equal (tx_st tP) (tx_st tR) && all_some (tx_sigs tP) && all_some (tx_sigs tR)
                            && (st_ver (tx_st tP) =? 0) && (s_me sP =? 0) && (s_me sR =? 1)
      | _, _ => false
      end
  | _ => false
  end.
Definition exAccL : accept := ALedger (repeat Byte.x77 32) (repeat Byte.x02 32) (pa kA3).
Definition exAccS : accept := ASub (repeat Byte.x77 32) (repeat Byte.x02 32).
Definition exAccV : accept := AVirt (repeat Byte.x77 32) (repeat Byte.x02 32) (pa kA3).
Definition exCtxBV : octx :=
  mkCtx wB [kB1; kB2]
    [mkCI idL1 [pa kB1; pa kA1] [wB; wA] 0 (mkAlloc [0] [7] [[50; 50]%Z] []);
     mkCI idLB [pa kB1; pa kI1] [wB; wI] 0 (mkAlloc [0] [7] [[5; 5]%Z] [])].
Example ex_open_ledger : opened_ok (ex_open exCtxBV exCtxA exLedger exAccL) = true.
Proof. vm_compute. reflexivity. Qed.
Example ex_open_sub : opened_ok (ex_open exCtxBV exCtxA exSub exAccS) = true.
Proof. vm_compute. reflexivity. Qed.
Example ex_open_virtual : opened_ok (ex_open exCtxBV exCtxA exVirtGood exAccV) = true.
Proof. vm_compute. reflexivity. Qed.
Example ex_valid_acc : valid_acc exLedger exAccL = true /\ valid_acc exLedger exAccS = false
  /\ valid_acc exSub (ASub (repeat Byte.x78 32) (repeat Byte.x02 32)) = false.
Proof. vm_compute. auto. Qed.

(* C08_same_channel with "fully signed" spelled out (C01: fully_signed_spec, verify_state_binds) *)
Lemma same_channel_spelled (hnonce : bytes -> Z) (hid : bytes -> bytes) (tok : amap -> N) (rs : resolver)
    ctxP ctxR p a sP mP sR mR :
  same_parent ctxP ctxR p ->
  open_both hnonce hid tok rs repaired ctxP ctxR p a = COk (sP, mP, (sR, mR)) ->
  s_params sP = s_params sR
  /\ chan_id_preimage hnonce (s_params sP) = chan_id_preimage hnonce (s_params sR)
  /\ s_id sP = s_id sR
  /\ cp_parts (s_params sP) = cp_parts (s_params sR)
  /\ (exists parts, mpcpp_parts ctxP p a = COk parts /\ s_params sP = proposed_params p a parts)
  /\ exists al tP tR,
       pb_bals (base p) = Some al /\ current mP = Some tP /\ current mR = Some tR
       /\ tx_st tP = mkState (s_id sP) 0 al (cp_app (s_params sP)) (pb_data (base p)) false
       /\ tx_st tR = tx_st tP
       /\ length (tx_sigs tP) = length (cp_parts (s_params sP))
       /\ length (tx_sigs tR) = length (cp_parts (s_params sP))
       /\ (forall i part, nth_error (cp_parts (s_params sP)) i = Some part ->
             nth_error (tx_sigs tP) i = Some (Some (SigOf (tok part) (enc_state (tx_st tP))))
             /\ nth_error (tx_sigs tR) i = Some (Some (SigOf (tok part) (enc_state (tx_st tP)))))
       /\ ph mP = Funding /\ ph mR = Funding.
Proof.
  intros SP H.
  destruct (same_channel hnonce hid tok rs _ _ _ _ _ _ _ _ SP H)
    as (CP & CR & EPa & EId & EPre & al & tP & tR & EB & CuP & CuR & StP & StR & FSP & FSR & PhP & PhR & PsP & PsR).
  destruct (complete_cpp_ok _ _ _ _ _ _ _ _ _ _ CP) as (parts & MPa & EPP & IdP & _).
  split; [exact EPa|]. split; [exact EPre|]. split; [exact EId|]. split; [rewrite EPa; reflexivity|].
  split; [exists parts; auto|].
  exists al, tP, tR. split; [exact EB|]. split; [exact CuP|]. split; [exact CuR|].
  split; [rewrite StP, IdP; reflexivity|]. split; [exact StR|].
  destruct (fully_signed_spec _ _ FSP) as [LP SgP]. destruct (fully_signed_spec _ _ FSR) as [LR SgR].
  rewrite PsP in LP, SgP. rewrite PsR, <- EPa in LR, SgR. cbn [mparams_of mp_parts] in LP, SgP, LR, SgR.
  rewrite map_length in LP, LR.
  split; [exact LP|]. split; [exact LR|]. split; [|auto].
  intros i part Hi.
  assert (Hk : nth_error (map tok (cp_parts (s_params sP))) i = Some (tok part)) by (apply map_nth_error; exact Hi).
  destruct (SgP _ _ Hk) as (gP & GP & VP). destruct (SgR _ _ Hk) as (gR & GR & VR).
  apply verify_state_binds in VP, VR. subst gP gR. rewrite StR in GR. auto.
Qed.

(* the hypothesis of no_panic is needed in the model: a registered parent whose state had a single
   participant column (no real channel has one) would make transformBalances index out of range *)
Definition exCtxNarrow : octx :=
  mkCtx wA [kA1] [mkCI idL3 [pa kA2; pa kI1] [wA; wI] 0 (mkAlloc [0] [7] [[5]%Z] [])].
Example no_panic_needs_ctx_ok :
  ctx_ok exCtxNarrow = false /\ handle_proposal exCtxNarrow wB exVirtGood = Panic.
Proof. split; vm_compute; reflexivity. Qed.

(* ---------- arrival while the parent is locked ---------- *)
(* the parent L1 as it is after an update that was in flight when the proposal arrived: 50/50 -> 1/99 *)
Definition exCtxA_after : octx :=
  mkCtx wA [kA1; kA2; kA3]
    [mkCI idL1 [pa kB1; pa kA1] [wB; wA] 1 (mkAlloc [0] [7] [[1; 99]%Z] []);
     mkCI idL3 [pa kA2; pa kI1] [wA; wI] 0 (mkAlloc [0] [7] [[5; 5]%Z] [])].
Example locked_examples :
  handle_proposal_locked repaired exCtxA exCtxA_after wB exSub = Dropped          (* fundable on arrival only *)
  /\ handle_proposal_locked repaired exCtxA_after exCtxA wB exSub = HandlerCalled   (* fundable under the lock *)
  /\ parent_stays exCtxA exCtxA_after exSub /\ ctx_ok exCtxA_after = true.
Proof.
  split; [vm_compute; reflexivity|]. split; [vm_compute; reflexivity|]. split; [|reflexivity].
  cbn [parent_stays exSub]. intros _. vm_compute. discriminate.
Qed.
(* validating on arrival instead of under the lock shows the user a proposal the parent cannot fund *)
Lemma early_validation_refuted :
  handle_proposal_early repaired exCtxA exCtxA_after wB exSub = HandlerCalled
  /\ ~ GoodProposal exCtxA_after wB exSub.
Proof.
  split; [vm_compute; reflexivity|]. intro G.
  destruct G as (a & n & Ea & _ & _ & _ & _ & _ & _ & c & Fc & _ & _ & W).
  cbn in Ea. injection Ea as <-. vm_compute in Fc. injection Fc as <-.
  cbn in W. inversion W as [|? ? ? ? R _]; subst. inversion R as [|? ? ? ? L _]; subst. lia.
Qed.
